package main

import (
	"bufio"
	"fmt"
	"go/ast"
	goprinter "go/printer"
	"go/token"
	"io"
	"math"
	"math/big"
	"os"
	"path/filepath"
	"sort"
	"strconv"
	"strings"
)

func printNode(w io.Writer, n ast.Node) { goprinter.Fprint(w, fset, n) }

// ---- tiny constant evaluator ------------------------------------------------

type constEnv map[string]ast.Expr

var knownInts = map[string]int64{
	"time.Nanosecond":                1,
	"time.Microsecond":               1000,
	"time.Millisecond":               1000000,
	"time.Second":                    1000000000,
	"time.Minute":                    60000000000,
	"time.Hour":                      3600000000000,
	"http.StatusOK":                  200,
	"http.StatusBadRequest":          400,
	"http.StatusUnauthorized":        401,
	"http.StatusForbidden":           403,
	"http.StatusNotFound":            404,
	"http.StatusRequestTimeout":      408,
	"http.StatusInternalServerError": 500,
	"http.StatusGatewayTimeout":      504,
	"websocket.TextMessage":          1,
	"websocket.BinaryMessage":        2,
	"websocket.CloseMessage":         8,
}

var knownStrings = map[string]string{
	"http.MethodGet":     "GET",
	"http.MethodPost":    "POST",
	"http.MethodDelete":  "DELETE",
	"http.TrailerPrefix": "Trailer:",
}

func collectConsts(f *ast.File) constEnv {
	env := constEnv{}
	for _, d := range f.Decls {
		gd, ok := d.(*ast.GenDecl)
		if !ok || (gd.Tok != token.CONST && gd.Tok != token.VAR) {
			continue
		}
		for _, s := range gd.Specs {
			vs := s.(*ast.ValueSpec)
			for i, n := range vs.Names {
				if i < len(vs.Values) {
					env[n.Name] = vs.Values[i]
				}
			}
		}
	}
	return env
}

func evalInt(env constEnv, e ast.Expr) (int64, bool) {
	switch x := e.(type) {
	case *ast.BasicLit:
		if x.Kind == token.INT {
			v, err := strconv.ParseInt(x.Value, 0, 64)
			return v, err == nil
		}
	case *ast.ParenExpr:
		return evalInt(env, x.X)
	case *ast.Ident:
		if v, ok := env[x.Name]; ok {
			return evalInt(env, v)
		}
	case *ast.SelectorExpr:
		if v, ok := knownInts[src(x)]; ok {
			return v, true
		}
	case *ast.UnaryExpr:
		if x.Op == token.SUB {
			v, ok := evalInt(env, x.X)
			return -v, ok
		}
	case *ast.BinaryExpr:
		a, ok1 := evalInt(env, x.X)
		b, ok2 := evalInt(env, x.Y)
		if !ok1 || !ok2 {
			return 0, false
		}
		switch x.Op {
		case token.ADD:
			return a + b, true
		case token.SUB:
			return a - b, true
		case token.MUL:
			return a * b, true
		case token.QUO:
			if b != 0 {
				return a / b, true
			}
		}
	case *ast.CallExpr:
		// conversions such as time.Duration(x), int64(x), float64(x)
		if len(x.Args) == 1 {
			switch src(x.Fun) {
			case "time.Duration", "int64", "int", "uint", "float64":
				return evalInt(env, x.Args[0])
			}
		}
	}
	return 0, false
}

func evalString(env constEnv, e ast.Expr) (string, bool) {
	switch x := e.(type) {
	case *ast.BasicLit:
		if x.Kind == token.STRING {
			s, err := strconv.Unquote(x.Value)
			return s, err == nil
		}
	case *ast.Ident:
		if v, ok := env[x.Name]; ok {
			return evalString(env, v)
		}
	case *ast.SelectorExpr:
		if v, ok := knownStrings[src(x)]; ok {
			return v, true
		}
	case *ast.BinaryExpr:
		if x.Op == token.ADD {
			a, ok1 := evalString(env, x.X)
			b, ok2 := evalString(env, x.Y)
			return a + b, ok1 && ok2
		}
	}
	return "", false
}

func mustInt(env constEnv, name, where string) int64 {
	e, ok := env[name]
	if !ok {
		fail("constant %s not found in %s", name, where)
	}
	v, ok := evalInt(env, e)
	if !ok {
		fail("constant %s in %s is not a foldable integer: %s", name, where, src(e))
	}
	return v
}

func mustString(env constEnv, name, where string) string {
	e, ok := env[name]
	if !ok {
		fail("constant %s not found in %s", name, where)
	}
	v, ok := evalString(env, e)
	if !ok {
		fail("constant %s in %s is not a foldable string: %s", name, where, src(e))
	}
	return v
}

// mapKeys returns the string keys of a composite map literal bound to `name`.
func mapKeys(env constEnv, name, where string, onlyTrue bool) []string {
	e, ok := env[name]
	if !ok {
		fail("table %s not found in %s", name, where)
	}
	cl, ok := e.(*ast.CompositeLit)
	if !ok {
		fail("table %s in %s is not a composite literal", name, where)
	}
	var keys []string
	for _, el := range cl.Elts {
		kv, ok := el.(*ast.KeyValueExpr)
		if !ok {
			fail("table %s in %s: non key/value element", name, where)
		}
		k, ok := evalString(env, kv.Key)
		if !ok {
			fail("table %s in %s: non-constant key %s", name, where, src(kv.Key))
		}
		if onlyTrue {
			if id, ok := kv.Value.(*ast.Ident); !ok || id.Name != "true" {
				if ok && id.Name == "false" {
					continue
				}
				fail("table %s in %s: value of %q is not a boolean literal", name, where, k)
			}
		}
		keys = append(keys, k)
	}
	return keys
}

func stringList(env constEnv, name, where string) []string {
	e, ok := env[name]
	if !ok {
		fail("list %s not found in %s", name, where)
	}
	cl, ok := e.(*ast.CompositeLit)
	if !ok {
		fail("list %s in %s is not a composite literal", name, where)
	}
	var out []string
	for _, el := range cl.Elts {
		s, ok := evalString(env, el)
		if !ok {
			fail("list %s in %s: non-constant element", name, where)
		}
		out = append(out, s)
	}
	return out
}

func leanBytesList(xs []string) string {
	parts := make([]string, len(xs))
	for i, x := range xs {
		parts[i] = "    " + bytesLit(x)
	}
	return "[\n" + strings.Join(parts, ",\n") + "\n  ]"
}

// yamlLogins extracts, per app/*.yaml, the (url, login) pairs of its handlers.
func yamlLogins(rel string) [][2]string {
	f, err := os.Open(filepath.Join(repo, rel))
	if err != nil {
		fail("open %s: %v", rel, err)
	}
	defer f.Close()
	var out [][2]string
	var cur string
	have := false
	flush := func(login string) {
		if have {
			out = append(out, [2]string{cur, login})
		}
	}
	login := ""
	sc := bufio.NewScanner(f)
	for sc.Scan() {
		line := strings.TrimSpace(sc.Text())
		if strings.HasPrefix(line, "- url:") {
			flush(login)
			cur = strings.TrimSpace(strings.TrimPrefix(line, "- url:"))
			have = true
			login = ""
		} else if strings.HasPrefix(line, "login:") {
			login = strings.TrimSpace(strings.TrimPrefix(line, "login:"))
		}
	}
	flush(login)
	return out
}

func genConsts() string {
	var sb strings.Builder
	sb.WriteString("/- GENERATED by /verif/tools/goextract from /repo — do not edit. (T1: constants and tables) -/\n")
	sb.WriteString("import InvProxy.Base.Bytes\nnamespace InvProxy.Gen\n\n")
	emitInt := func(lean string, v int64, comment string) {
		fmt.Fprintf(&sb, "def %s : Nat := %d  -- %s\n", lean, v, comment)
	}
	emitStr := func(lean, v, comment string) {
		fmt.Fprintf(&sb, "def %s : Bytes := %s  -- %s\n", lean, bytesLit(v), comment)
	}

	// agent/utils
	{
		rel := "agent/utils/utils.go"
		env := collectConsts(parseFile(rel))
		for _, n := range []string{"readResponseBufSize", "maxWriteResponseRetryCount", "maxReadRequestRetryCount"} {
			emitInt("utils_"+n, mustInt(env, n, rel), rel)
		}
		maxB := mustInt(env, "maxBackoffDuration", rel)
		first := mustInt(env, "firstRetryWaitDuration", rel)
		emitInt("utils_maxBackoffDuration", maxB, rel+" (ns)")
		emitInt("utils_firstRetryWaitDuration", first, rel+" (ns)")
		// maxRetryCount = math.Log2(float64(maxBackoffDuration / firstRetryWaitDuration)); used as uint(maxRetryCount)
		e := env["maxRetryCount"]
		want := "math.Log2(float64(maxBackoffDuration / firstRetryWaitDuration))"
		if e == nil || src(e) != want {
			fail("maxRetryCount in %s is no longer %q (is %q): backoff model does not apply", rel, want, src(e))
		}
		if first == 0 {
			fail("firstRetryWaitDuration is zero")
		}
		emitInt("utils_maxRetryCountU", int64(uint(math.Log2(float64(maxB/first)))), "uint(math.Log2(float64(maxBackoffDuration / firstRetryWaitDuration))) folded by goextract; cross-checked at run time by the driver")
		// JitterPercent as a rational
		je, ok := env["JitterPercent"]
		if !ok {
			fail("JitterPercent not found")
		}
		bl, ok := je.(*ast.BasicLit)
		if !ok || (bl.Kind != token.FLOAT && bl.Kind != token.INT) {
			fail("JitterPercent is not a numeric literal")
		}
		r, ok := new(big.Rat).SetString(bl.Value)
		if !ok {
			fail("JitterPercent literal %q not parseable", bl.Value)
		}
		fmt.Fprintf(&sb, "def utils_JitterPercentNum : Nat := %s  -- JitterPercent = %s\n", r.Num().String(), bl.Value)
		fmt.Fprintf(&sb, "def utils_JitterPercentDen : Nat := %s\n", r.Denom().String())
		for _, n := range []string{"PendingPath", "RequestPath", "ResponsePath", "HeaderUserID", "HeaderBackendID", "HeaderVMID", "HeaderRequestID", "HeaderRequestStartTime"} {
			emitStr("utils_"+n, mustString(env, n, rel), rel)
		}
		fmt.Fprintf(&sb, "def utils_hopHeaders : List Bytes := %s\n", leanBytesList(mapKeys(env, "hopHeaders", rel, true)))
	}
	// server: capacities of the channels created in struct literals
	{
		rel := "server/server.go"
		f := parseFile(rel)
		for _, want := range []struct{ fn, field, lean string }{{"newProxy", "requestIDs", "server_requestIDsCap"}, {"newPendingRequest", "respChan", "server_respChanCap"}} {
			fd := mustFunc(f, rel, "", want.fn)
			capv := int64(-1)
			ast.Inspect(fd, func(n ast.Node) bool {
				kv, ok := n.(*ast.KeyValueExpr)
				if !ok || src(kv.Key) != want.field {
					return true
				}
				if ce, ok := kv.Value.(*ast.CallExpr); ok && src(ce.Fun) == "make" {
					capv = 0
					if len(ce.Args) == 2 {
						v, ok := evalInt(constEnv{}, ce.Args[1])
						if !ok {
							fail("%s: capacity of %s is not a literal", rel, want.field)
						}
						capv = v
					}
				}
				return true
			})
			if capv < 0 {
				fail("%s: %s is no longer created with make(chan ...) in %s", rel, want.field, want.fn)
			}
			emitInt(want.lean, capv, rel+" "+want.fn)
		}
	}
	// agent
	{
		rel := "agent/agent.go"
		env := collectConsts(parseFile(rel))
		emitInt("agent_requestCacheLimit", mustInt(env, "requestCacheLimit", rel), rel)
		emitStr("agent_headerAuthorization", mustString(env, "headerAuthorization", rel), rel)
	}
	// agent: the arguments handed to a worker goroutine by the polling loop (does a worker see the polling context?)
	{
		rel := "agent/agent.go"
		f := parseFile(rel)
		fd := mustFunc(f, rel, "", "pollForNewRequests")
		var args []string
		found := false
		ast.Inspect(fd, func(n ast.Node) bool {
			if g, ok := n.(*ast.GoStmt); ok && src(g.Call.Fun) == "processOneRequest" {
				found = true
				for _, a := range g.Call.Args {
					args = append(args, src(a))
				}
			}
			return true
		})
		if !found {
			fail("%s: pollForNewRequests no longer starts workers with `go processOneRequest(...)`", rel)
		}
		var q []string
		for _, a := range args {
			q = append(q, strconv.Quote(a))
		}
		fmt.Fprintf(&sb, "def agent_workerArgs : List String := [%s]  -- %s: arguments of `go processOneRequest(...)`\n", strings.Join(q, ", "), rel)
		if len(fd.Type.Params.List) == 0 || src(fd.Type.Params.List[0].Type) != "context.Context" {
			fail("%s: first parameter of pollForNewRequests is no longer the polling context", rel)
		}
		fmt.Fprintf(&sb, "def agent_pollingCtxName : String := %s  -- %s: name of the polling context parameter\n", strconv.Quote(fd.Type.Params.List[0].Names[0].Name), rel)
		// how the pieces are wired: the agent forwards through a Director-mode single-host ReverseProxy
		// (Rewrite mode strips X-Forwarded-*/Forwarded before forwarding), and the stand-alone proxy serves
		// the proxy handler itself (a wrapper such as MaxBytesHandler would also cap agent uploads, i.e. responses)
		{
			hp := mustFunc(f, rel, "", "hostProxy")
			direct := false
			ast.Inspect(hp, func(n ast.Node) bool {
				if as, ok := n.(*ast.AssignStmt); ok && len(as.Lhs) == 1 && len(as.Rhs) == 1 && src(as.Lhs[0]) == "hostProxy" {
					if c, ok := as.Rhs[0].(*ast.CallExpr); ok && src(c.Fun) == "httputil.NewSingleHostReverseProxy" {
						direct = true
					}
				}
				return true
			})
			if strings.Contains(src(hp), "Rewrite:") || strings.Contains(src(hp), ".Rewrite =") {
				direct = false
			}
			fmt.Fprintf(&sb, "def agent_hostProxyIsDirectorMode : Bool := %v  -- %s hostProxy: built by httputil.NewSingleHostReverseProxy, no Rewrite hook\n", direct, rel)
			srel := "server/server.go"
			sf := parseFile(srel)
			sm := mustFunc(sf, srel, "", "main")
			served := ""
			ast.Inspect(sm, func(n ast.Node) bool {
				if c, ok := n.(*ast.CallExpr); ok && src(c.Fun) == "http.Serve" && len(c.Args) == 2 {
					served = src(c.Args[1])
				}
				return true
			})
			fmt.Fprintf(&sb, "def server_servedHandler : String := %s  -- %s main: second argument of http.Serve\n", strconv.Quote(served), srel)
			// request IDs must not repeat across proxy instances (the agent and its in-flight requests outlive a proxy
			// process): they are drawn from a generator seeded per process
			nid := mustFunc(sf, srel, "proxy", "newID")
			drawn := ""
			ast.Inspect(nid, func(n ast.Node) bool {
				if c, ok := n.(*ast.CallExpr); ok && strings.HasPrefix(src(c.Fun), "p.randGenerator.") {
					drawn = src(c)
				}
				return true
			})
			seed := ""
			ast.Inspect(sf, func(n ast.Node) bool {
				if kv, ok := n.(*ast.KeyValueExpr); ok && src(kv.Key) == "randGenerator" {
					ast.Inspect(kv.Value, func(m ast.Node) bool {
						if c, ok := m.(*ast.CallExpr); ok && src(c.Fun) == "rand.NewSource" && len(c.Args) == 1 {
							seed = src(c.Args[0])
						}
						return true
					})
				}
				return true
			})
			fmt.Fprintf(&sb, "def server_requestIDDraw : String := %s  -- %s newID: the call on the proxy's random generator that a request ID is derived from\n", strconv.Quote(drawn), srel)
			fmt.Fprintf(&sb, "def server_requestIDSeed : String := %s  -- %s newProxy: seed of that generator\n", strconv.Quote(seed), srel)
		}
		// flag defaults that the lifecycle model refers to
		env := collectConsts(f)
		for _, fl := range []struct{ v, lean string }{{"healthCheckUnhealthy", "agent_defaultUnhealthyThreshold"}, {"healthCheckFreq", "agent_defaultHealthCheckFreq"}} {
			e, ok := env[fl.v]
			ce, ok2 := e.(*ast.CallExpr)
			if !ok || !ok2 || len(ce.Args) < 2 {
				fail("%s: flag %s not found", rel, fl.v)
			}
			v, ok := evalInt(env, ce.Args[1])
			if !ok {
				fail("%s: default of flag %s is not an integer literal", rel, fl.v)
			}
			emitInt(fl.lean, v, rel+" flag default")
		}
	}
	// agent: streaming-related settings of the handler chain and the forwarder
	{
		rel := "agent/agent.go"
		f := parseFile(rel)
		hp := mustFunc(f, rel, "", "hostProxy")
		fi := int64(-1)
		ast.Inspect(hp, func(n ast.Node) bool {
			if a, ok := n.(*ast.AssignStmt); ok && len(a.Lhs) == 1 && src(a.Lhs[0]) == "hostProxy.FlushInterval" {
				if v, ok := evalInt(constEnv{}, a.Rhs[0]); ok {
					fi = v
				}
			}
			return true
		})
		if fi < 0 {
			fail("%s: hostProxy.FlushInterval is no longer set to a constant", rel)
		}
		emitInt("agent_flushInterval", fi, rel+" hostProxy.FlushInterval (ns)")
		rel = "agent/utils/utils.go"
		f = parseFile(rel)
		nf := mustFunc(f, rel, "", "NewResponseForwarder")
		forced := strings.Contains(src(nf), "resp.TransferEncoding = []string{\"chunked\"}")
		direct := strings.Contains(src(nf), "resp.Write(proxyWriter)")
		fmt.Fprintf(&sb, "def utils_forwarderForcesChunked : Bool := %v  -- %s: resp.TransferEncoding = []string{\"chunked\"}\n", forced, rel)
		fmt.Fprintf(&sb, "def utils_forwarderWritesToPipe : Bool := %v  -- %s: the serialiser writes straight into the upload pipe\n", direct, rel)
		wr := mustFunc(f, rel, "streamingResponseWriter", "Write")
		last := wr.Body.List[len(wr.Body.List)-1]
		fmt.Fprintf(&sb, "def utils_srwWriteIsPipeWrite : Bool := %v  -- %s: Write ends in `return w.bodyWriter.Write(bs)`\n", src(last) == "return w.bodyWriter.Write(bs)", rel)
	}
	// websockets
	{
		rel := "agent/websockets/connection.go"
		env := collectConsts(parseFile(rel))
		fmt.Fprintf(&sb, "def websockets_stripHeaderNames : List Bytes := %s\n", leanBytesList(mapKeys(env, "stripHeaderNames", rel, true)))
		// the writer goroutine of NewConnection: does it skip nil messages before using them?
		// (SendClientMessage queues a nil message for `[x]` with a non-string x.)
		{
			f := parseFile(rel)
			nc := mustFunc(f, rel, "", "NewConnection")
			skips, uses := false, false
			ast.Inspect(nc, func(n ast.Node) bool {
				cc, ok := n.(*ast.CommClause)
				if !ok || cc.Comm == nil || !strings.Contains(src(cc.Comm), "<-clientMessages") {
					return true
				}
				for _, st := range cc.Body {
					txt := src(st)
					if is, ok := st.(*ast.IfStmt); ok && strings.Contains(src(is.Cond), "== nil") && strings.Contains(src(is.Body), "continue") && !uses {
						skips = true
					}
					if strings.Contains(txt, "clientMsg.Type") || strings.Contains(txt, "clientMsg.Data") {
						uses = true
					}
				}
				return true
			})
			if !uses {
				fail("%s: writer goroutine of NewConnection not recognised", rel)
			}
			fmt.Fprintf(&sb, "def websockets_writerSkipsNil : Bool := %v  -- %s: `if clientMsg == nil { continue }` precedes every use of the received message\n", skips, rel)
			sc := mustFunc(f, rel, "Connection", "SendClientMessage")
			// can SendClientMessage queue a nil message? (the one-element-array branch without a string element falls through)
			fmt.Fprintf(&sb, "def websockets_sendMayQueueNil : Bool := %v  -- %s: the `[x]` branch leaves clientMessage nil for a non-string x\n", strings.Contains(src(sc), "blobMsg[0].(string); ok {") && !strings.Contains(src(sc), "clientMessage == nil"), rel)
		}
		fmt.Fprintf(&sb, "def websockets_injectedHeadersPath : List Bytes := %s\n", leanBytesList(stringList(env, "websocketShimInjectedHeadersPath", rel)))
		// the shim's data handler: with header injection its request headers are copied into messages, so it must
		// run behind the same wrapper (the session handler) as the open handler
		{
			srel := "agent/websockets/shim.go"
			cs := mustFunc(parseFile(srel), srel, "", "createShimChannel")
			wrappedVar, registered := "", false
			ast.Inspect(cs, func(n ast.Node) bool {
				switch x := n.(type) {
				case *ast.AssignStmt:
					if len(x.Lhs) == 1 && len(x.Rhs) == 1 {
						if c, ok := x.Rhs[0].(*ast.CallExpr); ok && src(c.Fun) == "openWebsocketWrapper" && len(c.Args) >= 1 && src(c.Args[0]) == src(x.Lhs[0]) {
							wrappedVar = src(x.Lhs[0])
						}
					}
				case *ast.CallExpr:
					if f := src(x.Fun); (f == "mux.Handle" || f == "mux.HandleFunc") && len(x.Args) == 2 && strings.Contains(src(x.Args[0]), "\"data\"") {
						if wrappedVar != "" && src(x.Args[1]) == wrappedVar {
							registered = true
						}
						if c, ok := x.Args[1].(*ast.CallExpr); ok && src(c.Fun) == "openWebsocketWrapper" {
							registered = true
						}
					}
				}
				return true
			})
			fmt.Fprintf(&sb, "def websockets_dataRequestsPassSessionHandler : Bool := %v  -- %s createShimChannel: the handler registered for <shim>/data is wrapped by openWebsocketWrapper (when injection is enabled)\n", registered, srel)
		}
		// the handlers in front of the backend proxy dispatch on the path as received: an http.ServeMux among them
		// answers requests whose path is not in canonical form with its own redirect
		{
			var muxes []string
			for _, fr := range [][2]string{{"agent/websockets/shim.go", "Proxy"}, {"agent/banner/banner.go", "Proxy"}} {
				fn := mustFunc(parseFile(fr[0]), fr[0], "", fr[1])
				if strings.Contains(src(fn), "NewServeMux") {
					muxes = append(muxes, strconv.Quote(fr[0]+":"+fr[1]))
				}
			}
			fmt.Fprintf(&sb, "def agent_passthroughServeMuxes : List String := [%s]  -- handler constructors on the pass-through path that route through an http.ServeMux\n", strings.Join(muxes, ", "))
		}
		// ShimBody's hook runs once per response, concurrently for concurrent requests: buffers it captures from the
		// enclosing call (instead of allocating per response) are shared between responses
		{
			srel := "agent/websockets/shim.go"
			sbFn := mustFunc(parseFile(srel), srel, "", "ShimBody")
			var lit *ast.FuncLit
			buffers := map[string]bool{}
			for _, st := range sbFn.Body.List {
				switch x := st.(type) {
				case *ast.AssignStmt:
					if x.Tok == token.DEFINE {
						for i, l := range x.Lhs {
							if i < len(x.Rhs) && len(x.Lhs) == len(x.Rhs) {
								r := src(x.Rhs[i])
								if strings.HasPrefix(r, "make(") || strings.HasPrefix(r, "new(") || strings.HasPrefix(r, "&") || strings.HasPrefix(r, "[]") || strings.HasPrefix(r, "map[") || strings.Contains(r, "Pool{") {
									buffers[src(l)] = true
								}
							}
						}
					}
				case *ast.DeclStmt:
					if gd, ok := x.Decl.(*ast.GenDecl); ok {
						for _, sp := range gd.Specs {
							if vs, ok := sp.(*ast.ValueSpec); ok && vs.Type != nil && src(vs.Type) != "string" {
								for _, n := range vs.Names {
									buffers[n.Name] = true
								}
							}
						}
					}
				case *ast.ReturnStmt:
					for _, r := range x.Results {
						if fl, ok := r.(*ast.FuncLit); ok {
							lit = fl
						}
					}
				}
			}
			if lit == nil {
				fail("%s: ShimBody no longer returns a function literal", srel)
			}
			var shared []string
			seen := map[string]bool{}
			ast.Inspect(lit, func(n ast.Node) bool {
				if id, ok := n.(*ast.Ident); ok && buffers[id.Name] && !seen[id.Name] {
					seen[id.Name] = true
					shared = append(shared, strconv.Quote(id.Name))
				}
				return true
			})
			fmt.Fprintf(&sb, "def websockets_shimBodySharedBuffers : List String := [%s]  -- %s ShimBody: buffers allocated once per ShimBody call and used inside the per-response hook\n", strings.Join(shared, ", "), srel)
		}
	}
	// the backend transports of hostProxy: idle/ping/response timeouts on them would cut a response that pauses
	{
		rel := "agent/agent.go"
		hp := mustFunc(parseFile(rel), rel, "", "hostProxy")
		var limits []string
		ast.Inspect(hp, func(n ast.Node) bool {
			switch x := n.(type) {
			case *ast.KeyValueExpr:
				if k := src(x.Key); strings.HasSuffix(k, "Timeout") || k == "MaxResponseHeaderBytes" {
					limits = append(limits, strconv.Quote(k))
				}
			case *ast.AssignStmt:
				for _, l := range x.Lhs {
					if sel, ok := l.(*ast.SelectorExpr); ok && strings.HasSuffix(sel.Sel.Name, "Timeout") {
						limits = append(limits, strconv.Quote(sel.Sel.Name))
					}
				}
			}
			return true
		})
		fmt.Fprintf(&sb, "def agent_backendTransportTimeouts : List String := [%s]  -- %s hostProxy: timeout fields set on the transports towards the backend\n", strings.Join(limits, ", "), rel)
	}
	// the bridge frontend closes client connections gracefully: SetLinger(0) would discard data still queued for the client
	{
		rel := "utils/tcpbridge/tcp-bridge-frontend/tcp-bridge-frontend.go"
		txt := src(parseFile(rel))
		fmt.Fprintf(&sb, "def bridgeFrontend_setsLinger : Bool := %v  -- %s: a SetLinger call on the accepted client connection\n", strings.Contains(txt, ".SetLinger("), rel)
	}
	// the VM identity refresh (every 10 s on GCE) must not fetch the new token from the metadata server while it holds
	// the lock that every request to the proxy - including the upload of a streamed response - takes to read the token
	{
		rel := "agent/utils/utils.go"
		fn := mustFunc(parseFile(rel), rel, "", "RoundTripperWithVMIdentity")
		blocking := false
		ast.Inspect(fn, func(n ast.Node) bool {
			bl, ok := n.(*ast.BlockStmt)
			if !ok {
				if cc, ok2 := n.(*ast.CommClause); ok2 {
					bl = &ast.BlockStmt{List: cc.Body}
				} else {
					return true
				}
			}
			held := false
			for _, st := range bl.List {
				txt := src(st)
				if strings.HasSuffix(txt, ".Lock()") {
					held = true
					continue
				}
				if strings.HasSuffix(txt, ".Unlock()") {
					held = false
					continue
				}
				if held && strings.Contains(txt, "getVMID(") {
					blocking = true
				}
			}
			return true
		})
		fmt.Fprintf(&sb, "def utils_identityRefreshFetchesUnderLock : Bool := %v  -- %s RoundTripperWithVMIdentity: getVMID is called between Lock() and Unlock() of the transport\n", blocking, rel)
	}
	// the size cap on a pending-list reply
	{
		rel := "agent/utils/utils.go"
		f := parseFile(rel)
		env := collectConsts(f)
		pr := mustFunc(f, rel, "", "parseRequestIDs")
		var caps []int64
		ast.Inspect(pr, func(n ast.Node) bool {
			if cl, ok := n.(*ast.CompositeLit); ok && strings.HasSuffix(src(cl.Type), "LimitedReader") {
				for _, el := range cl.Elts {
					if kv, ok := el.(*ast.KeyValueExpr); ok && src(kv.Key) == "N" {
						if v, ok := evalInt(env, kv.Value); ok {
							caps = append(caps, v)
						}
					}
				}
			}
			if c, ok := n.(*ast.CallExpr); ok && (src(c.Fun) == "io.LimitReader" || src(c.Fun) == "http.MaxBytesReader") {
				if v, ok := evalInt(env, c.Args[len(c.Args)-1]); ok {
					caps = append(caps, v)
				}
			}
			return true
		})
		if len(caps) != 1 {
			fail("%s: parseRequestIDs: expected exactly one size cap on the reply, found %d", rel, len(caps))
		}
		emitInt("utils_pendingListByteCap", caps[0], rel+" parseRequestIDs")
	}
	// banner
	{
		rel := "agent/banner/banner.go"
		env := collectConsts(parseFile(rel))
		for _, n := range []string{"acceptHeader", "cacheControlHeader", "contentDispositionHeader", "contentEncodingHeader", "contentTypeHeader", "dateHeader", "expiresHeader", "refererHeader", "pragmaHeader", "secFetchDestHeader", "secFetchModeHeader", "xFrameOptionsHeader"} {
			emitStr("banner_"+n, mustString(env, n, rel), rel)
		}
	}
	// tcpbridge
	{
		rel := "utils/tcpbridge/connection/connection.go"
		env := collectConsts(parseFile(rel))
		emitStr("connection_StreamingPath", mustString(env, "StreamingPath", rel), rel)
		// the frontend's websocket dial: a handshake that the peer never answers must be given up (gorilla's
		// DefaultDialer has a 45 s HandshakeTimeout; a hand-made Dialer has none unless it sets the field)
		{
			cf := parseFile(rel)
			dw := mustFunc(cf, rel, "", "DialWebsocket")
			bounded := false
			dialer := ""
			ast.Inspect(dw, func(n ast.Node) bool {
				if c, ok := n.(*ast.CallExpr); ok {
					if sel, ok := c.Fun.(*ast.SelectorExpr); ok && (sel.Sel.Name == "DialContext" || sel.Sel.Name == "Dial") {
						dialer = src(sel.X)
					}
				}
				return true
			})
			if dialer == "websocket.DefaultDialer" {
				bounded = true
			} else if dialer != "" {
				// a package-level or local dialer: bounded iff its literal sets HandshakeTimeout (or a deadline is put on ctx)
				ast.Inspect(cf, func(n ast.Node) bool {
					if kv, ok := n.(*ast.KeyValueExpr); ok && src(kv.Key) == "HandshakeTimeout" {
						bounded = true
					}
					return true
				})
				if strings.Contains(src(dw), "context.WithTimeout") || strings.Contains(src(dw), "context.WithDeadline") {
					bounded = true
				}
			}
			if dialer == "" {
				fail("%s: DialWebsocket: no Dial/DialContext call found", rel)
			}
			fmt.Fprintf(&sb, "def connection_dialBoundsHandshake : Bool := %v  -- %s DialWebsocket dials with %s\n", bounded, rel, dialer)
		}
		// the bridge backend's server: deadlines on whole requests or responses (http.Server.ReadTimeout/WriteTimeout,
		// http.TimeoutHandler) would cut long-lived pass-through exchanges short
		brel := "utils/tcpbridge/tcp-bridge-backend/tcp-bridge-backend.go"
		var limits []string
		ast.Inspect(parseFile(brel), func(n ast.Node) bool {
			switch x := n.(type) {
			case *ast.KeyValueExpr:
				if k := src(x.Key); k == "ReadTimeout" || k == "WriteTimeout" {
					limits = append(limits, strconv.Quote(k))
				}
			case *ast.AssignStmt:
				for _, l := range x.Lhs {
					if sel, ok := l.(*ast.SelectorExpr); ok && (sel.Sel.Name == "ReadTimeout" || sel.Sel.Name == "WriteTimeout") {
						limits = append(limits, strconv.Quote(sel.Sel.Name))
					}
				}
			case *ast.CallExpr:
				if f := src(x.Fun); f == "http.TimeoutHandler" {
					limits = append(limits, strconv.Quote(f))
				}
			}
			return true
		})
		fmt.Fprintf(&sb, "def bridgeBackend_exchangeDeadlines : List String := [%s]  -- %s: whole-exchange deadlines configured on the serving side\n", strings.Join(limits, ", "), brel)
	}
	// app/store, app/cache, app
	{
		rel := "app/store/store.go"
		env := collectConsts(parseFile(rel))
		emitInt("store_backendTimeout", mustInt(env, "backendTimeout", rel), rel+" (ns)")
		emitInt("store_fieldByteLimit", mustInt(env, "fieldByteLimit", rel), rel)
		emitInt("store_multiOpSizeLimit", mustInt(env, "multiOpSizeLimit", rel), rel)
		emitStr("store_sharedBackendUser", mustString(env, "sharedBackendUser", rel), rel)
		// datastore kind of a backend's requests
		{
			f := parseFile(rel)
			rk := mustFunc(f, rel, "", "requestKind")
			fmtStr := ""
			ast.Inspect(rk, func(n ast.Node) bool {
				if c, ok := n.(*ast.CallExpr); ok && src(c.Fun) == "fmt.Sprintf" && len(c.Args) == 3 {
					if s0, ok := evalString(env, c.Args[0]); ok && src(c.Args[1]) == "requestKindPrefix" && src(c.Args[2]) == "backendID" {
						fmtStr = s0
					}
				}
				return true
			})
			if fmtStr == "" {
				fail("%s: requestKind is no longer fmt.Sprintf(<format>, requestKindPrefix, backendID)", rel)
			}
			emitStr("store_requestKindFormat", fmtStr, rel+" requestKind")
		}
		rel = "app/cache/cache.go"
		env = collectConsts(parseFile(rel))
		emitInt("cache_cacheEntrySizeLimit", mustInt(env, "cacheEntrySizeLimit", rel), rel)
		// what proxyHandler routes on: the decoded URL path (not the client's escaped spelling of it)
		{
			prel := "app/proxy.go"
			pf := parseFile(prel)
			ph := mustFunc(pf, prel, "", "proxyHandler")
			arg := ""
			ast.Inspect(ph, func(n ast.Node) bool {
				if c, ok := n.(*ast.CallExpr); ok && src(c.Fun) == "s.LookupBackend" && len(c.Args) == 3 {
					arg = src(c.Args[2])
				}
				return true
			})
			// the routing decision comes first: nothing is answered (not even from the cache) before LookupBackend said yes
			lookupPos, cachePos := token.NoPos, token.NoPos
			ast.Inspect(ph, func(n ast.Node) bool {
				if c, ok := n.(*ast.CallExpr); ok {
					switch src(c.Fun) {
					case "s.LookupBackend":
						if lookupPos == token.NoPos {
							lookupPos = c.Pos()
						}
					case "readCachedResponse", "memcache.Get", "forwardResponse":
						if cachePos == token.NoPos {
							cachePos = c.Pos()
						}
					}
				}
				return true
			})
			fmt.Fprintf(&sb, "def app_lookupPrecedesAnswers : Bool := %v  -- %s proxyHandler: s.LookupBackend is called before the first of readCachedResponse/memcache.Get/forwardResponse\n", lookupPos != token.NoPos && (cachePos == token.NoPos || lookupPos < cachePos), prel)
			fmt.Fprintf(&sb, "def app_lookupPathArg : String := %s  -- %s proxyHandler: third argument of s.LookupBackend\n", strconv.Quote(arg), prel)
			// and the request ID it stores the request under comes from App Engine, not from the client
			idArg := ""
			ini := mustFunc(pf, prel, "", "init")
			assigns := 0
			ast.Inspect(ini, func(n ast.Node) bool {
				if a, ok := n.(*ast.AssignStmt); ok && len(a.Lhs) == 1 && src(a.Lhs[0]) == "ID" {
					assigns++
					idArg = src(a.Rhs[0])
				}
				return true
			})
			if assigns != 1 {
				idArg = fmt.Sprintf("<%d assignments>", assigns)
			}
			fmt.Fprintf(&sb, "def app_requestIDSource : String := %s  -- %s init: the only value assigned to the request ID handed to proxyHandler\n", strconv.Quote(idArg), prel)
		}
		// which methods of the caching store are plain delegations to the backing store (authorisation and
		// routing decisions must not be answered from memcache, which outlives re-registration and clean-up)
		{
			f := parseFile(rel)
			var pure []string
			for _, d := range f.Decls {
				fd, ok := d.(*ast.FuncDecl)
				if !ok || fd.Recv == nil || len(fd.Recv.List) != 1 || src(fd.Recv.List[0].Type) != "*cachingStore" || fd.Body == nil {
					continue
				}
				if len(fd.Body.List) != 1 {
					continue
				}
				r, ok := fd.Body.List[0].(*ast.ReturnStmt)
				if !ok || len(r.Results) != 1 {
					continue
				}
				c, ok := r.Results[0].(*ast.CallExpr)
				if !ok || src(c.Fun) != "c.BackingStore."+fd.Name.Name {
					continue
				}
				var params []string
				for _, p := range fd.Type.Params.List {
					for _, n := range p.Names {
						params = append(params, n.Name)
					}
				}
				var args []string
				for _, a := range c.Args {
					args = append(args, src(a))
				}
				if strings.Join(params, ",") == strings.Join(args, ",") {
					pure = append(pure, strconv.Quote(fd.Name.Name))
				}
			}
			sort.Strings(pure)
			fmt.Fprintf(&sb, "def cache_pureDelegations : List String := [%s]  -- %s: methods of cachingStore whose body is `return c.BackingStore.<same>(<same args>)`\n", strings.Join(pure, ", "), rel)
		}
		// memcache key formats: both IDs must be quoted (self-delimiting), or distinct (backend, request) pairs can collide
		{
			f := parseFile(rel)
			for _, kf := range []struct{ fn, lean string }{{"memcacheRequestKey", "cache_requestKeyFormat"}, {"memcacheResponseKey", "cache_responseKeyFormat"}} {
				fd := mustFunc(f, rel, "", kf.fn)
				fmtStr := ""
				ast.Inspect(fd, func(n ast.Node) bool {
					if c, ok := n.(*ast.CallExpr); ok && src(c.Fun) == "fmt.Sprintf" && len(c.Args) == 3 && src(c.Args[1]) == "backendID" && src(c.Args[2]) == "requestID" {
						if s0, ok := evalString(env, c.Args[0]); ok {
							fmtStr = s0
						}
					}
					return true
				})
				if fmtStr == "" {
					fail("%s: %s is no longer fmt.Sprintf(<format>, backendID, requestID)", rel, kf.fn)
				}
				emitStr(kf.lean, fmtStr, rel+" "+kf.fn)
			}
		}
		rel = "app/proxy.go"
		env = collectConsts(parseFile(rel))
		emitInt("app_requestsWaitTimeout", mustInt(env, "requestsWaitTimeout", rel), rel+" (ns)")
		emitInt("app_responseWaitTimeout", mustInt(env, "responseWaitTimeout", rel), rel+" (ns)")
		for _, n := range []string{"HeaderUserID", "HeaderRequestID", "HeaderBackendID", "HeaderRequestStartTime"} {
			emitStr("app_"+n, mustString(env, n, rel), rel)
		}
	}
	// app/*.yaml login settings: (url pattern, login) per service
	for _, y := range []string{"app", "agent", "api"} {
		rel := "app/" + y + ".yaml"
		var items []string
		for _, p := range yamlLogins(rel) {
			items = append(items, fmt.Sprintf("(%s, %s)", bytesLit(p[0]), bytesLit(p[1])))
		}
		fmt.Fprintf(&sb, "def yaml_%s_handlers : List (Bytes × Bytes) := [%s]  -- %s (url, login)\n", y, strings.Join(items, ", "), rel)
	}
	sb.WriteString("\nend InvProxy.Gen\n")
	return sb.String()
}
