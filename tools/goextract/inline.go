// inline.go: a source-to-source pre-pass that undoes "extract helper" refactorings before the
// extractors look at a file, so that moving a few statements into an unexported helper (or
// back) does not change what is translated.
//
// A callee is inlined when it is an unexported function or method of the same file, is not
// itself something the extractors or the Lean facts refer to by name (noInline), has a small
// body without defer/go/labels/closures-with-return, and returns either nothing or through a
// single final return statement.  Parameters (and the receiver) are replaced by the argument
// expressions, which must be side-effect free (identifiers, selectors, literals, derefs,
// index expressions).  Handled call positions:
//
//	f(a)                    statement          -> body
//	x, y := f(a)  /  = …   assignment          -> body without the return; x, y := results
//	return f(a)                                -> body (its return stays)
//	… f(a) …               anywhere, when the body is a single `return expr` -> (expr)
//
// Everything is done on the source text and the result is parsed again, so the extractors see
// ordinary syntax with positions.  Inlining is best effort: a call site that does not fit is
// left alone.
package main

import (
	"bytes"
	_ "embed"
	"go/ast"
	"go/parser"
	"go/scanner"
	"go/token"
	"os"
	"path/filepath"
	"regexp"
	"strings"
)

//go:embed consts.go
var srcConsts string

//go:embed funcs.go
var srcFuncs string

//go:embed skels.go
var srcSkels string

var noInline map[string]bool
var leanPropsDir string // …/InvProxy/Props (for `.call "name"` facts)

func initNoInline() {
	noInline = map[string]bool{}
	reMust := regexp.MustCompile(`(?:mustFunc|findFunc)\([^)]*?"([A-Za-z_][A-Za-z0-9_]*)"\)`)
	reQuoted := regexp.MustCompile(`"([A-Za-z_][A-Za-z0-9_.]*)"`)
	for _, s := range []string{srcConsts, srcFuncs, srcSkels} {
		for _, m := range reMust.FindAllStringSubmatch(s, -1) {
			noInline[m[1]] = true
		}
	}
	// every identifier-like string literal of skels.go (skeleton targets and the calls they keep)
	for _, m := range reQuoted.FindAllStringSubmatch(srcSkels, -1) {
		parts := strings.Split(m[1], ".")
		noInline[parts[len(parts)-1]] = true
	}
	// functions the extractors' text checks name literally: every `name(` inside a string literal of the extractors
	reCallInStr := regexp.MustCompile(`([A-Za-z_][A-Za-z0-9_]*)\(`)
	for _, src := range []string{srcConsts, srcFuncs, srcSkels} {
		var sc scanner.Scanner
		fs := token.NewFileSet()
		file := fs.AddFile("", fs.Base(), len(src))
		sc.Init(file, []byte(src), nil, 0)
		for {
			_, tok, lit := sc.Scan()
			if tok == token.EOF {
				break
			}
			if tok == token.STRING {
				for _, m := range reCallInStr.FindAllStringSubmatch(lit, -1) {
					noInline[m[1]] = true
				}
			}
		}
	}
	for _, n := range []string{"newProxy", "newID", "newPendingRequest"} {
		noInline[n] = true
	}
	if leanPropsDir != "" {
		reCall := regexp.MustCompile(`\.call "([^"]+)"`)
		files, _ := filepath.Glob(filepath.Join(leanPropsDir, "*.lean"))
		for _, f := range files {
			b, err := os.ReadFile(f)
			if err != nil {
				continue
			}
			for _, m := range reCall.FindAllStringSubmatch(string(b), -1) {
				parts := strings.Split(m[1], ".")
				noInline[parts[len(parts)-1]] = true
			}
		}
	}
}

type callee struct {
	fd       *ast.FuncDecl
	params   []string // receiver name first (if any), then parameter names
	hasRecv  bool
	body     string // statements of the body, without the braces and without the final return
	ret      string // comma-joined result expressions of the final return ("" if none)
	nResults int
	exprOnly bool // body is a single `return expr`
}

func simpleArg(e ast.Expr) bool {
	switch x := e.(type) {
	case *ast.Ident, *ast.BasicLit:
		return true
	case *ast.SelectorExpr:
		return simpleArg(x.X)
	case *ast.StarExpr:
		return simpleArg(x.X)
	case *ast.ParenExpr:
		return simpleArg(x.X)
	case *ast.IndexExpr:
		return simpleArg(x.X) && simpleArg(x.Index)
	case *ast.UnaryExpr:
		return x.Op != token.ARROW && simpleArg(x.X)
	case *ast.CallExpr: // zero-argument accessor such as w.Header()
		if len(x.Args) == 0 {
			if se, ok := x.Fun.(*ast.SelectorExpr); ok {
				return simpleArg(se.X)
			}
		}
	}
	return false
}

// substitute replaces identifier tokens named in m (not selector fields, not composite-literal keys / labels).
func substitute(text string, m map[string]string) string {
	var s scanner.Scanner
	fs := token.NewFileSet()
	file := fs.AddFile("", fs.Base(), len(text))
	s.Init(file, []byte(text), nil, scanner.ScanComments)
	type tokT struct {
		off int
		tok token.Token
		lit string
	}
	var toks []tokT
	for {
		pos, tok, lit := s.Scan()
		if tok == token.EOF {
			break
		}
		toks = append(toks, tokT{file.Offset(pos), tok, lit})
	}
	var out bytes.Buffer
	last := 0
	for i, t := range toks {
		if t.tok != token.IDENT {
			continue
		}
		rep, ok := m[t.lit]
		if !ok {
			continue
		}
		if i > 0 && toks[i-1].tok == token.PERIOD {
			continue
		}
		if i+1 < len(toks) && toks[i+1].tok == token.COLON {
			continue
		}
		out.WriteString(text[last:t.off])
		if e, err := parser.ParseExpr(rep); err == nil && !isPrimary(e) {
			rep = "(" + rep + ")"
		}
		out.WriteString(rep)
		last = t.off + len(t.lit)
	}
	out.WriteString(text[last:])
	return out.String()
}

func isPrimary(e ast.Expr) bool {
	switch e.(type) {
	case *ast.Ident, *ast.SelectorExpr, *ast.CallExpr, *ast.IndexExpr, *ast.BasicLit, *ast.CompositeLit, *ast.ParenExpr:
		return true
	}
	return false
}

func isPlainIdent(s string) bool {
	if s == "" || strings.Contains(s, ".") {
		return false
	}
	return isIdentOrSelector(s)
}

func isParam(c *callee, name string) bool {
	for _, p := range c.params {
		if p == name {
			return true
		}
	}
	return false
}

// declaresLocal: the function body declares `name` with := or var at its top level.
func declaresLocal(fd *ast.FuncDecl, name string) bool {
	for _, st := range fd.Body.List {
		switch x := st.(type) {
		case *ast.AssignStmt:
			if x.Tok == token.DEFINE {
				for _, l := range x.Lhs {
					if id, ok := l.(*ast.Ident); ok && id.Name == name {
						return true
					}
				}
			}
		case *ast.DeclStmt:
			if gd, ok := x.Decl.(*ast.GenDecl); ok {
				for _, sp := range gd.Specs {
					if vs, ok := sp.(*ast.ValueSpec); ok {
						for _, n := range vs.Names {
							if n.Name == name {
								return true
							}
						}
					}
				}
			}
		}
	}
	return false
}

func isIdentOrSelector(s string) bool {
	for _, c := range s {
		if !(c == '.' || c == '_' || c >= '0' && c <= '9' || c >= 'a' && c <= 'z' || c >= 'A' && c <= 'Z') {
			return false
		}
	}
	return true
}

func analyseCallee(fd *ast.FuncDecl, text []byte, base int) *callee {
	if fd.Body == nil || ast.IsExported(fd.Name.Name) || noInline[fd.Name.Name] || len(fd.Body.List) == 0 || len(fd.Body.List) > 15 {
		return nil
	}
	c := &callee{fd: fd}
	if fd.Recv != nil {
		if len(fd.Recv.List) != 1 || len(fd.Recv.List[0].Names) != 1 {
			return nil
		}
		c.params = append(c.params, fd.Recv.List[0].Names[0].Name)
		c.hasRecv = true
	}
	for _, p := range fd.Type.Params.List {
		if len(p.Names) == 0 {
			return nil
		}
		if _, variadic := p.Type.(*ast.Ellipsis); variadic {
			return nil
		}
		for _, n := range p.Names {
			c.params = append(c.params, n.Name)
		}
	}
	if fd.Type.Results != nil {
		for _, r := range fd.Type.Results.List {
			if len(r.Names) > 0 {
				return nil // named results
			}
			c.nResults++
		}
	}
	returns, bad := 0, false
	var walk func(n ast.Node, inLit bool)
	walk = func(root ast.Node, inLit bool) {
		ast.Inspect(root, func(n ast.Node) bool {
			switch x := n.(type) {
			case *ast.FuncLit:
				if n != root {
					walk(x.Body, true) // a closure has its own returns and defers
					return false
				}
			case *ast.ReturnStmt:
				if !inLit {
					returns++
				}
			case *ast.DeferStmt:
				if !inLit {
					bad = true // would run at the caller's exit instead of the helper's
				}
			case *ast.LabeledStmt:
				bad = true
			case *ast.CallExpr:
				if id, ok := x.Fun.(*ast.Ident); ok && id.Name == fd.Name.Name {
					bad = true // recursion
				}
			}
			return true
		})
	}
	walk(fd.Body, false)
	if bad {
		return nil
	}
	lastStmt := fd.Body.List[len(fd.Body.List)-1]
	off := func(p token.Pos) int { return fset.Position(p).Offset }
	bodyStart, bodyEnd := off(fd.Body.Lbrace)+1, off(fd.Body.Rbrace)
	switch {
	case c.nResults == 0 && returns == 0:
		c.body = string(text[bodyStart:bodyEnd])
	case c.nResults == 0 && returns == 1:
		r, ok := lastStmt.(*ast.ReturnStmt)
		if !ok {
			return nil
		}
		c.body = string(text[bodyStart:off(r.Pos())])
	case c.nResults > 0 && returns == 1:
		r, ok := lastStmt.(*ast.ReturnStmt)
		if !ok || len(r.Results) != c.nResults {
			return nil
		}
		c.body = string(text[bodyStart:off(r.Pos())])
		var rs []string
		for _, e := range r.Results {
			rs = append(rs, string(text[off(e.Pos()):off(e.End())]))
		}
		c.ret = strings.Join(rs, ", ")
		c.exprOnly = len(fd.Body.List) == 1 && c.nResults == 1
	default:
		return nil
	}
	return c
}

// calleeOf resolves a call expression to an inlinable callee and the substitution map.
func calleeOf(call *ast.CallExpr, callees map[string]*callee, text []byte) (*callee, map[string]string) {
	off := func(p token.Pos) int { return fset.Position(p).Offset }
	srcOf := func(e ast.Expr) string { return string(text[off(e.Pos()):off(e.End())]) }
	var c *callee
	var args []string
	switch f := call.Fun.(type) {
	case *ast.Ident:
		c = callees[f.Name]
		if c == nil || c.hasRecv {
			return nil, nil
		}
	case *ast.SelectorExpr:
		c = callees[f.Sel.Name]
		if c == nil || !c.hasRecv || !simpleArg(f.X) {
			return nil, nil
		}
		args = append(args, srcOf(f.X))
	default:
		return nil, nil
	}
	for _, a := range call.Args {
		if !simpleArg(a) {
			return nil, nil
		}
		args = append(args, srcOf(a))
	}
	if len(args) != len(c.params) || call.Ellipsis != token.NoPos {
		return nil, nil
	}
	m := map[string]string{}
	for i, p := range c.params {
		if p != "_" {
			m[p] = args[i]
		}
	}
	return c, m
}

type edit struct {
	start, end int
	text       string
}

// inlineOnce performs one round of inlining on the file text; ok=false when nothing changed.
func inlineOnce(rel string, text []byte) ([]byte, bool) {
	f, err := parser.ParseFile(fset, filepath.Join(repo, rel), text, 0)
	if err != nil {
		return text, false
	}
	off := func(p token.Pos) int { return fset.Position(p).Offset }
	callees := map[string]*callee{}
	dup := map[string]bool{}
	for _, d := range f.Decls {
		if fd, ok := d.(*ast.FuncDecl); ok {
			if _, seen := callees[fd.Name.Name]; seen || dup[fd.Name.Name] {
				dup[fd.Name.Name] = true
				delete(callees, fd.Name.Name)
				continue
			}
			if c := analyseCallee(fd, text, 0); c != nil {
				callees[fd.Name.Name] = c
			} else {
				dup[fd.Name.Name] = true // present but not inlinable: never resolve this name to something else
			}
		}
	}
	// local closures defined once and only ever called: `name := func(…) … { … }`
	closureDef := map[string]ast.Stmt{}
	for _, d := range f.Decls {
		fd, ok := d.(*ast.FuncDecl)
		if !ok || fd.Body == nil {
			continue
		}
		ast.Inspect(fd.Body, func(n ast.Node) bool {
			a, ok := n.(*ast.AssignStmt)
			if !ok || a.Tok != token.DEFINE || len(a.Lhs) != 1 || len(a.Rhs) != 1 {
				return true
			}
			id, ok1 := a.Lhs[0].(*ast.Ident)
			fl, ok2 := a.Rhs[0].(*ast.FuncLit)
			if !ok1 || !ok2 || dup[id.Name] || callees[id.Name] != nil || noInline[id.Name] {
				return true
			}
			// every other occurrence of the name in this function must be a direct call
			uses, calls := 0, 0
			ast.Inspect(fd.Body, func(m ast.Node) bool {
				switch x := m.(type) {
				case *ast.Ident:
					if x.Name == id.Name && x != id {
						uses++
					}
				case *ast.CallExpr:
					if ci, ok := x.Fun.(*ast.Ident); ok && ci.Name == id.Name {
						calls++
					}
				}
				return true
			})
			if uses == 0 || uses != calls {
				return true
			}
			synth := &ast.FuncDecl{Name: id, Type: fl.Type, Body: fl.Body}
			if c := analyseCallee(synth, text, 0); c != nil {
				callees[id.Name] = c
				closureDef[id.Name] = a
			}
			return true
		})
	}
	if len(callees) == 0 {
		return text, false
	}
	inlinedCalls := map[string]int{}
	totalCalls := map[string]int{}
	var edits []edit
	covered := func(s, e int) bool {
		for _, x := range edits {
			if s < x.end && x.start < e {
				return true
			}
		}
		return false
	}
	var visitList func(list []ast.Stmt)
	visitStmt := func(s ast.Stmt) {
		var call *ast.CallExpr
		kind := ""
		var lhs string
		switch x := s.(type) {
		case *ast.ExprStmt:
			if c, ok := x.X.(*ast.CallExpr); ok {
				call, kind = c, "stmt"
			}
		case *ast.AssignStmt:
			if len(x.Rhs) == 1 {
				if c, ok := x.Rhs[0].(*ast.CallExpr); ok {
					call, kind = c, "assign"
					var ls []string
					for _, l := range x.Lhs {
						ls = append(ls, string(text[off(l.Pos()):off(l.End())]))
					}
					lhs = strings.Join(ls, ", ") + " " + x.Tok.String() + " "
				}
			}
		case *ast.ReturnStmt:
			if len(x.Results) == 1 {
				if c, ok := x.Results[0].(*ast.CallExpr); ok {
					call, kind = c, "return"
				}
			}
		}
		if ifs, ok := s.(*ast.IfStmt); ok && ifs.Init == nil {
			// `if !helper(a) {` / `if helper(a) {`: the helper's statements move in front of the if
			cond := ifs.Cond
			for {
				if p, ok := cond.(*ast.ParenExpr); ok {
					cond = p.X
				} else if u, ok := cond.(*ast.UnaryExpr); ok && u.Op == token.NOT {
					cond = u.X
				} else {
					break
				}
			}
			if cc, ok := cond.(*ast.CallExpr); ok {
				if c, m := calleeOf(cc, callees, text); c != nil && !c.exprOnly && c.nResults == 1 && !covered(off(s.Pos()), off(ifs.Cond.End())) {
					condText := string(text[off(ifs.Cond.Pos()):off(cc.Pos())]) + "(" + substitute(c.ret, m) + ")" + string(text[off(cc.End()):off(ifs.Cond.End())])
					edits = append(edits, edit{off(s.Pos()), off(ifs.Cond.End()), substitute(c.body, m) + "\nif " + condText})
					inlinedCalls[c.fd.Name.Name]++
				}
			}
			return
		}
		if call == nil {
			return
		}
		c, m := calleeOf(call, callees, text)
		if c == nil || c.exprOnly {
			return
		}
		body := substitute(c.body, m)
		var repl string
		switch kind {
		case "stmt":
			repl = body
			if c.nResults > 0 {
				return
			}
		case "assign":
			if c.nResults == 0 {
				return
			}
			// `x := f(a)` where f builds its result in a local and returns it: the local becomes x
			if as := s.(*ast.AssignStmt); as.Tok == token.DEFINE && len(as.Lhs) == 1 && c.nResults == 1 && isPlainIdent(c.ret) && !isParam(c, c.ret) {
				if id, ok := as.Lhs[0].(*ast.Ident); ok && declaresLocal(c.fd, c.ret) {
					m2 := map[string]string{c.ret: id.Name}
					for k, v := range m {
						m2[k] = v
					}
					repl = substitute(c.body, m2)
					break
				}
			}
			repl = body + "\n" + lhs + substitute(c.ret, m)
		case "return":
			if c.nResults == 0 {
				return
			}
			repl = body + "\nreturn " + substitute(c.ret, m)
		}
		if !covered(off(s.Pos()), off(s.End())) {
			edits = append(edits, edit{off(s.Pos()), off(s.End()), repl})
			inlinedCalls[c.fd.Name.Name]++
		}
	}
	visitList = func(list []ast.Stmt) {
		for _, s := range list {
			visitStmt(s)
		}
	}
	for _, d := range f.Decls {
		fd, ok := d.(*ast.FuncDecl)
		if !ok || fd.Body == nil {
			continue
		}
		ast.Inspect(fd.Body, func(n ast.Node) bool {
			switch x := n.(type) {
			case *ast.BlockStmt:
				visitList(x.List)
			case *ast.CaseClause:
				visitList(x.Body)
			case *ast.CommClause:
				visitList(x.Body)
			}
			return true
		})
		// expression-level: single-return helpers anywhere
		ast.Inspect(fd.Body, func(n ast.Node) bool {
			call, ok := n.(*ast.CallExpr)
			if !ok {
				return true
			}
			c, m := calleeOf(call, callees, text)
			if c == nil || !c.exprOnly || c.fd == fd {
				return true
			}
			if !covered(off(call.Pos()), off(call.End())) {
				edits = append(edits, edit{off(call.Pos()), off(call.End()), "(" + substitute(c.ret, m) + ")"})
				inlinedCalls[c.fd.Name.Name]++
			}
			return true
		})
		ast.Inspect(fd.Body, func(n ast.Node) bool {
			if call, ok := n.(*ast.CallExpr); ok {
				if ci, ok := call.Fun.(*ast.Ident); ok && closureDef[ci.Name] != nil {
					totalCalls[ci.Name]++
				}
			}
			return true
		})
	}
	// a closure whose every call was inlined is no longer needed: drop its definition
	for name, def := range closureDef {
		if inlinedCalls[name] > 0 && inlinedCalls[name] == totalCalls[name] && !covered(off(def.Pos()), off(def.End())) {
			edits = append(edits, edit{off(def.Pos()), off(def.End()), ""})
		}
	}
	if len(edits) == 0 {
		return text, false
	}
	// apply from the end
	for i := 0; i < len(edits); i++ {
		for j := i + 1; j < len(edits); j++ {
			if edits[j].start > edits[i].start {
				edits[i], edits[j] = edits[j], edits[i]
			}
		}
	}
	out := append([]byte{}, text...)
	for _, e := range edits {
		out = append(append(append([]byte{}, out[:e.start]...), []byte(e.text)...), out[e.end:]...)
	}
	if _, err := parser.ParseFile(token.NewFileSet(), rel, out, 0); err != nil {
		return text, false // the spliced text does not parse: leave the file alone
	}
	return out, true
}

// negate returns the source of the negation of a condition, without piling up `!`.
func negate(e ast.Expr, text []byte) string {
	off := func(p token.Pos) int { return fset.Position(p).Offset }
	srcOf := func(x ast.Expr) string { return string(text[off(x.Pos()):off(x.End())]) }
	switch x := e.(type) {
	case *ast.ParenExpr:
		return negate(x.X, text)
	case *ast.UnaryExpr:
		if x.Op == token.NOT {
			return srcOf(x.X)
		}
	case *ast.BinaryExpr:
		flip := map[token.Token]string{token.EQL: "!=", token.NEQ: "==", token.LSS: ">=", token.GEQ: "<", token.GTR: "<=", token.LEQ: ">"}
		if op, ok := flip[x.Op]; ok {
			return srcOf(x.X) + " " + op + " " + srcOf(x.Y)
		}
	case *ast.Ident, *ast.CallExpr, *ast.SelectorExpr:
		return "!" + srcOf(e)
	}
	return "!(" + srcOf(e) + ")"
}

// guardsOnce rewrites one guard clause of a loop body into the nested form:
//
//	if c { continue }; R        ->  if !c { R }
//	if c { A; continue }; R     ->  if c { A } else { R }
//
// for statements directly in a loop body, or in a clause of a switch/select that is the last statement of a
// loop body (where `continue` and "fall to the end of the body" are the same thing).
func guardsOnce(rel string, text []byte) ([]byte, bool) {
	f, err := parser.ParseFile(fset, filepath.Join(repo, rel), text, 0)
	if err != nil {
		return text, false
	}
	off := func(p token.Pos) int { return fset.Position(p).Offset }
	var ed *edit
	try := func(list []ast.Stmt, listEnd int) {
		if ed != nil {
			return
		}
		for i := 0; i+1 < len(list); i++ {
			ifs, ok := list[i].(*ast.IfStmt)
			if !ok || ifs.Init != nil || ifs.Else != nil || len(ifs.Body.List) == 0 {
				continue
			}
			br, ok := ifs.Body.List[len(ifs.Body.List)-1].(*ast.BranchStmt)
			if !ok || br.Tok != token.CONTINUE || br.Label != nil {
				continue
			}
			rest := string(text[off(list[i+1].Pos()):listEnd])
			if len(ifs.Body.List) == 1 {
				ed = &edit{off(ifs.Pos()), listEnd, "if " + negate(ifs.Cond, text) + " {\n" + rest + "\n}\n"}
			} else {
				a := string(text[off(ifs.Body.Lbrace)+1 : off(br.Pos())])
				ed = &edit{off(ifs.Pos()), listEnd, "if " + string(text[off(ifs.Cond.Pos()):off(ifs.Cond.End())]) + " {" + a + "} else {\n" + rest + "\n}\n"}
			}
			return
		}
	}
	loopBody := func(b *ast.BlockStmt) {
		if b == nil || len(b.List) == 0 {
			return
		}
		try(b.List, off(b.Rbrace))
		switch last := b.List[len(b.List)-1].(type) {
		case *ast.SelectStmt:
			for j, c := range last.Body.List {
				cc := c.(*ast.CommClause)
				end := off(last.Body.Rbrace)
				if j+1 < len(last.Body.List) {
					end = off(last.Body.List[j+1].Pos())
				}
				try(cc.Body, end)
			}
		case *ast.SwitchStmt:
			for j, c := range last.Body.List {
				cc := c.(*ast.CaseClause)
				end := off(last.Body.Rbrace)
				if j+1 < len(last.Body.List) {
					end = off(last.Body.List[j+1].Pos())
				}
				try(cc.Body, end)
			}
		}
	}
	ast.Inspect(f, func(n ast.Node) bool {
		switch x := n.(type) {
		case *ast.ForStmt:
			loopBody(x.Body)
		case *ast.RangeStmt:
			loopBody(x.Body)
		}
		return ed == nil
	})
	if ed == nil {
		return text, false
	}
	out := append(append(append([]byte{}, text[:ed.start]...), []byte(ed.text)...), text[ed.end:]...)
	if _, err := parser.ParseFile(token.NewFileSet(), rel, out, 0); err != nil {
		return text, false
	}
	return out, true
}

// inlineHelpers returns the file text with helper calls inlined (at most three rounds).
func inlineHelpers(rel string, text []byte) []byte {
	if noInline == nil {
		initNoInline()
	}
	for round := 0; round < 3; round++ {
		t, changed := inlineOnce(rel, text)
		if !changed {
			break
		}
		text = t
	}
	// guardsOnce (guard clause -> nested form) is not applied: the repository itself uses guard clauses in the
	// translated loops, so normalising them would only move the sensitivity to the opposite refactoring.
	return text
}
