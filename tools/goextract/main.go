// goextract: the translator (tie T) from /repo's Go sources to Lean.
//
// Syntactic only (go/parser + go/ast); no type checker, no dependencies.
//
//	T1  constants and tables            -> Gen/Consts.lean
//	T2  value-only functions / slices   -> Gen/Funcs.lean
//	T3  synchronisation skeletons       -> Gen/Skels.lean
//
// Anything outside the whitelisted subset makes goextract fail loudly (exit 2):
// a broken tie, never a silent gap.
package main

import (
	"flag"
	"fmt"
	"go/ast"
	"go/parser"
	"go/token"
	"os"
	"path/filepath"
	"sort"
	"strings"
)

var fset = token.NewFileSet()

type pkgFiles struct {
	name  string // lean prefix, e.g. "utils"
	files []*ast.File
}

var repo string

func fail(format string, args ...interface{}) {
	fmt.Fprintf(os.Stderr, "goextract: "+format+"\n", args...)
	os.Exit(2)
}

var parsed = map[string]*ast.File{}

func parseFile(rel string) *ast.File {
	if f, ok := parsed[rel]; ok {
		return f
	}
	text, err := os.ReadFile(filepath.Join(repo, rel))
	if err != nil {
		fail("read %s: %v", rel, err)
	}
	if !noInlining {
		text = inlineHelpers(rel, text)
	}
	f, err := parser.ParseFile(fset, filepath.Join(repo, rel), text, parser.ParseComments)
	if err != nil {
		fail("parse %s: %v", rel, err)
	}
	parsed[rel] = f
	return f
}

var noInlining bool

func findFunc(f *ast.File, recv, name string) *ast.FuncDecl {
	for _, d := range f.Decls {
		fd, ok := d.(*ast.FuncDecl)
		if !ok || fd.Name.Name != name {
			continue
		}
		if recv == "" && fd.Recv == nil {
			return fd
		}
		if recv != "" && fd.Recv != nil && len(fd.Recv.List) == 1 {
			t := fd.Recv.List[0].Type
			if st, ok := t.(*ast.StarExpr); ok {
				t = st.X
			}
			if id, ok := t.(*ast.Ident); ok && id.Name == recv {
				return fd
			}
		}
	}
	return nil
}

func mustFunc(f *ast.File, rel, recv, name string) *ast.FuncDecl {
	fd := findFunc(f, recv, name)
	if fd == nil {
		fail("function %s.%s not found in %s", recv, name, rel)
	}
	return fd
}

func src(n ast.Node) string {
	var sb strings.Builder
	printNode(&sb, n)
	return sb.String()
}

func bytesLit(s string) string {
	if s == "" {
		return "([] : Bytes)"
	}
	parts := make([]string, 0, len(s))
	for _, b := range []byte(s) {
		parts = append(parts, fmt.Sprintf("%d", b))
	}
	c := strings.NewReplacer("-/", "- /", "/-", "/ -", "\n", "\\n", "\r", "\\r").Replace(s)
	if len(c) > 60 {
		c = c[:60] + "…"
	}
	return fmt.Sprintf("([%s] : Bytes) /- %q -/", strings.Join(parts, ","), c)
}

func sortedKeys(m map[string]bool) []string {
	var ks []string
	for k := range m {
		ks = append(ks, k)
	}
	sort.Strings(ks)
	return ks
}

func main() {
	out := flag.String("out", "", "output directory (…/InvProxy/Gen)")
	flag.StringVar(&repo, "repo", "/repo", "repository root")
	flag.BoolVar(&noInlining, "no-inline", false, "do not inline unexported helpers before extraction")
	flag.StringVar(&leanPropsDir, "props", "", "directory of the Lean property files (their `.call \"f\"` facts name functions that must not be inlined)")
	dumpInlined := flag.String("dump-inlined", "", "write the inlined text of this file (repo-relative) to stdout and exit")
	flag.Parse()
	if leanPropsDir == "" && *out != "" {
		leanPropsDir = filepath.Join(filepath.Dir(filepath.Clean(*out)), "Props")
	}
	if *dumpInlined != "" {
		text, err := os.ReadFile(filepath.Join(repo, *dumpInlined))
		if err != nil {
			fail("%v", err)
		}
		os.Stdout.Write(inlineHelpers(*dumpInlined, text))
		return
	}
	if *out == "" {
		fail("need -out")
	}
	if err := os.MkdirAll(*out, 0o755); err != nil {
		fail("%v", err)
	}
	write := func(name, content string) {
		if err := os.WriteFile(filepath.Join(*out, name), []byte(content), 0o644); err != nil {
			fail("%v", err)
		}
	}
	write("Consts.lean", genConsts())
	write("Funcs.lean", genFuncs())
	write("Skels.lean", genSkels())
}
