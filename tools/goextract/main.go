// goextract: the translator (tie T) from /repo's Go sources to Lean.
//
// Syntactic only (go/parser + go/ast); no type checker, no dependencies.
//   T1  constants and tables            -> Gen/Consts.lean
//   T2  value-only functions / slices   -> Gen/Funcs.lean
//   T3  synchronisation skeletons       -> Gen/Skels.lean
// Anything outside the whitelisted subset makes goextract fail loudly (exit 2):
// a broken tie, never a silent gap.
package main

import (
	"flag"
	"fmt"
	"go/ast"
	"go/parser"
	"go/token"
	"os"
	"path/filepath"
	"sort"
	"strings"
)

var fset = token.NewFileSet()

type pkgFiles struct {
	name  string // lean prefix, e.g. "utils"
	files []*ast.File
}

var repo string

func fail(format string, args ...interface{}) {
	fmt.Fprintf(os.Stderr, "goextract: "+format+"\n", args...)
	os.Exit(2)
}

func parseFile(rel string) *ast.File {
	f, err := parser.ParseFile(fset, filepath.Join(repo, rel), nil, parser.ParseComments)
	if err != nil {
		fail("parse %s: %v", rel, err)
	}
	return f
}

func findFunc(f *ast.File, recv, name string) *ast.FuncDecl {
	for _, d := range f.Decls {
		fd, ok := d.(*ast.FuncDecl)
		if !ok || fd.Name.Name != name {
			continue
		}
		if recv == "" && fd.Recv == nil {
			return fd
		}
		if recv != "" && fd.Recv != nil && len(fd.Recv.List) == 1 {
			t := fd.Recv.List[0].Type
			if st, ok := t.(*ast.StarExpr); ok {
				t = st.X
			}
			if id, ok := t.(*ast.Ident); ok && id.Name == recv {
				return fd
			}
		}
	}
	return nil
}

func mustFunc(f *ast.File, rel, recv, name string) *ast.FuncDecl {
	fd := findFunc(f, recv, name)
	if fd == nil {
		fail("function %s.%s not found in %s", recv, name, rel)
	}
	return fd
}

func src(n ast.Node) string {
	var sb strings.Builder
	printNode(&sb, n)
	return sb.String()
}

func bytesLit(s string) string {
	if s == "" {
		return "([] : Bytes)"
	}
	parts := make([]string, 0, len(s))
	for _, b := range []byte(s) {
		parts = append(parts, fmt.Sprintf("%d", b))
	}
	c := strings.NewReplacer("-/", "- /", "/-", "/ -", "\n", "\\n", "\r", "\\r").Replace(s)
	if len(c) > 60 {
		c = c[:60] + "…"
	}
	return fmt.Sprintf("([%s] : Bytes) /- %q -/", strings.Join(parts, ","), c)
}

func sortedKeys(m map[string]bool) []string {
	var ks []string
	for k := range m {
		ks = append(ks, k)
	}
	sort.Strings(ks)
	return ks
}

func main() {
	out := flag.String("out", "", "output directory (…/InvProxy/Gen)")
	flag.StringVar(&repo, "repo", "/repo", "repository root")
	flag.Parse()
	if *out == "" {
		fail("need -out")
	}
	if err := os.MkdirAll(*out, 0o755); err != nil {
		fail("%v", err)
	}
	write := func(name, content string) {
		if err := os.WriteFile(filepath.Join(*out, name), []byte(content), 0o644); err != nil {
			fail("%v", err)
		}
	}
	write("Consts.lean", genConsts())
	write("Funcs.lean", genFuncs())
	write("Skels.lean", genSkels())
}
