package main

import (
	"fmt"
	"go/ast"
	"go/token"
	"strconv"
	"strings"
)

// ---- T3: synchronisation skeletons ------------------------------------------
//
// The body of a function projected onto synchronisation operations, calls to tracked
// functions and accesses to tracked shared objects; everything else is erased.

type skctx struct {
	calls   map[string]bool // callee source text that is kept as `call`
	objects []string        // source text of tracked shared objects (`access`)
	where   string
}

func q(s string) string { return strconv.Quote(s) }

func seq(items []string) string {
	var keep []string
	for _, it := range items {
		if it != "" && it != ".seq []" {
			keep = append(keep, it)
		}
	}
	if len(keep) == 1 {
		return keep[0]
	}
	return ".seq [" + strings.Join(keep, ", ") + "]"
}

func (c *skctx) accesses(n ast.Node) []string {
	if n == nil {
		return nil
	}
	var out []string
	seen := map[string]bool{}
	ast.Inspect(n, func(m ast.Node) bool {
		if _, ok := m.(*ast.FuncLit); ok {
			return false
		}
		e, ok := m.(ast.Expr)
		if !ok {
			return true
		}
		s := src(e)
		for _, o := range c.objects {
			if s == o && !seen[o] {
				seen[o] = true
				out = append(out, ".access "+q(o))
			}
		}
		return true
	})
	return out
}

// exprOps walks an expression in evaluation order and returns its skeleton items.
func (c *skctx) exprOps(e ast.Expr) []string {
	if e == nil {
		return nil
	}
	var out []string
	switch x := e.(type) {
	case *ast.FuncLit:
		return []string{c.block(x.Body.List)}
	case *ast.UnaryExpr:
		if x.Op == token.ARROW {
			out = append(out, c.exprOps(x.X)...)
			return append(out, ".recv "+q(src(x.X)))
		}
		return c.exprOps(x.X)
	case *ast.ParenExpr:
		return c.exprOps(x.X)
	case *ast.BinaryExpr:
		return append(c.exprOps(x.X), c.exprOps(x.Y)...)
	case *ast.StarExpr:
		return c.exprOps(x.X)
	case *ast.SelectorExpr:
		return c.exprOps(x.X)
	case *ast.IndexExpr:
		return append(c.exprOps(x.X), c.exprOps(x.Index)...)
	case *ast.SliceExpr:
		return c.exprOps(x.X)
	case *ast.TypeAssertExpr:
		return c.exprOps(x.X)
	case *ast.KeyValueExpr:
		return c.exprOps(x.Value)
	case *ast.CompositeLit:
		for _, el := range x.Elts {
			out = append(out, c.exprOps(el)...)
		}
		return out
	case *ast.CallExpr:
		fn := src(x.Fun)
		if fn == "close" && len(x.Args) == 1 {
			return []string{".close " + q(src(x.Args[0]))}
		}
		if fn == "make" {
			return nil
		}
		for _, a := range x.Args {
			out = append(out, c.exprOps(a)...)
		}
		if se, ok := x.Fun.(*ast.SelectorExpr); ok {
			out = append(c.exprOps(se.X), out...)
			recv := src(se.X)
			switch se.Sel.Name {
			case "Lock":
				return append(out, ".lock "+q(recv))
			case "Unlock":
				return append(out, ".unlock "+q(recv))
			case "Wait":
				return append(out, ".wait "+q(recv))
			}
		} else if fl, ok := x.Fun.(*ast.FuncLit); ok {
			out = append(out, c.block(fl.Body.List))
		}
		if c.calls[fn] {
			out = append(out, ".call "+q(fn))
		}
		return out
	}
	return nil
}

func (c *skctx) stmt(s ast.Stmt) string {
	switch x := s.(type) {
	case nil:
		return ""
	case *ast.BlockStmt:
		return c.block(x.List)
	case *ast.ExprStmt:
		return seq(append(c.accesses(x.X), c.exprOps(x.X)...))
	case *ast.SendStmt:
		items := append(c.accesses(x), c.exprOps(x.Value)...)
		return seq(append(items, ".send "+q(src(x.Chan))))
	case *ast.AssignStmt:
		var items []string
		items = append(items, c.accesses(x)...)
		for i, r := range x.Rhs {
			if ce, ok := r.(*ast.CallExpr); ok && src(ce.Fun) == "make" && len(ce.Args) >= 1 {
				if _, ok := ce.Args[0].(*ast.ChanType); ok && i < len(x.Lhs) {
					capv := "0"
					if len(ce.Args) == 2 {
						if bl, ok := ce.Args[1].(*ast.BasicLit); ok && bl.Kind == token.INT {
							capv = bl.Value
						} else {
							capv = "0 /- non-literal: " + strings.ReplaceAll(src(ce.Args[1]), "-/", "- /") + " -/"
							if src(ce.Args[1]) == "partCount" {
								capv = "1000000 /- = number of senders (partCount) -/"
							}
						}
					}
					items = append(items, ".makeChan "+q(src(x.Lhs[i]))+" "+capv)
					continue
				}
			}
			items = append(items, c.exprOps(r)...)
		}
		return seq(items)
	case *ast.DeclStmt:
		var items []string
		if gd, ok := x.Decl.(*ast.GenDecl); ok {
			for _, sp := range gd.Specs {
				if vs, ok := sp.(*ast.ValueSpec); ok {
					for _, v := range vs.Values {
						items = append(items, c.exprOps(v)...)
					}
				}
			}
		}
		return seq(items)
	case *ast.IncDecStmt:
		return seq(c.accesses(x))
	case *ast.GoStmt:
		if fl, ok := x.Call.Fun.(*ast.FuncLit); ok {
			return ".go (" + c.block(fl.Body.List) + ")"
		}
		ops := c.exprOps(x.Call)
		if !c.calls[src(x.Call.Fun)] {
			ops = append(ops, ".call "+q(src(x.Call.Fun)))
		}
		return ".go (" + seq(ops) + ")"
	case *ast.DeferStmt:
		if fl, ok := x.Call.Fun.(*ast.FuncLit); ok {
			return ".defer (" + c.block(fl.Body.List) + ")"
		}
		ops := c.exprOps(x.Call)
		if len(ops) == 0 {
			ops = []string{".call " + q(src(x.Call.Fun))}
		}
		return ".defer (" + seq(ops) + ")"
	case *ast.ReturnStmt:
		var items []string
		items = append(items, c.accesses(x)...)
		for _, r := range x.Results {
			items = append(items, c.exprOps(r)...)
		}
		return seq(append(items, ".ret"))
	case *ast.IfStmt:
		var items []string
		if x.Init != nil {
			items = append(items, c.stmt(x.Init))
		}
		items = append(items, c.accesses(x.Cond)...)
		items = append(items, c.exprOps(x.Cond)...)
		th := c.block(x.Body.List)
		el := ".seq []"
		if x.Else != nil {
			el = c.stmt(x.Else)
			if el == "" {
				el = ".seq []"
			}
		}
		if th != ".seq []" || el != ".seq []" {
			items = append(items, ".branch ["+th+", "+el+"]")
		}
		return seq(items)
	case *ast.ForStmt:
		var items []string
		if x.Init != nil {
			items = append(items, c.stmt(x.Init))
		}
		var body []string
		if x.Cond != nil {
			body = append(body, c.exprOps(x.Cond)...)
		}
		body = append(body, c.block(x.Body.List))
		if x.Post != nil {
			body = append(body, c.stmt(x.Post))
		}
		b := seq(body)
		if b != ".seq []" {
			items = append(items, ".loop ("+b+")")
		}
		return seq(items)
	case *ast.RangeStmt:
		var body []string
		if strings.HasSuffix(src(x.X), ".C") || strings.Contains(strings.ToLower(src(x.X)), "chan") {
			body = append(body, ".recv "+q(src(x.X)))
		}
		body = append(body, c.accesses(x.X)...)
		body = append(body, c.block(x.Body.List))
		b := seq(body)
		if b == ".seq []" {
			return ""
		}
		return ".loop (" + b + ")"
	case *ast.SelectStmt:
		var cases []string
		dflt := "none"
		for _, cl := range x.Body.List {
			cc := cl.(*ast.CommClause)
			body := c.block(cc.Body)
			if cc.Comm == nil {
				dflt = "(some (" + body + "))"
				continue
			}
			var comm string
			switch cm := cc.Comm.(type) {
			case *ast.SendStmt:
				comm = ".send " + q(src(cm.Chan))
			case *ast.ExprStmt:
				comm = c.commRecv(cm.X)
			case *ast.AssignStmt:
				comm = c.commRecv(cm.Rhs[0])
			}
			cases = append(cases, "("+comm+", "+body+")")
		}
		return ".select [" + strings.Join(cases, ", ") + "] " + dflt
	case *ast.SwitchStmt:
		var items []string
		if x.Init != nil {
			items = append(items, c.stmt(x.Init))
		}
		if x.Tag != nil {
			items = append(items, c.exprOps(x.Tag)...)
		}
		var alts []string
		for _, cl := range x.Body.List {
			alts = append(alts, c.block(cl.(*ast.CaseClause).Body))
		}
		items = append(items, ".branch ["+strings.Join(alts, ", ")+"]")
		return seq(items)
	case *ast.TypeSwitchStmt:
		var alts []string
		for _, cl := range x.Body.List {
			alts = append(alts, c.block(cl.(*ast.CaseClause).Body))
		}
		return ".branch [" + strings.Join(alts, ", ") + "]"
	case *ast.LabeledStmt:
		return c.stmt(x.Stmt)
	case *ast.BranchStmt, *ast.EmptyStmt:
		return ""
	}
	fail("%s: skeleton: unsupported statement at %s: %s", c.where, fset.Position(s.Pos()), src(s))
	return ""
}

func (c *skctx) commRecv(e ast.Expr) string {
	if u, ok := e.(*ast.UnaryExpr); ok && u.Op == token.ARROW {
		return ".recv " + q(src(u.X))
	}
	fail("%s: skeleton: unsupported select communication %s", c.where, src(e))
	return ""
}

func (c *skctx) block(list []ast.Stmt) string {
	var items []string
	for _, s := range list {
		items = append(items, c.stmt(s))
	}
	var keep []string
	for _, it := range items {
		if it != "" && it != ".seq []" {
			keep = append(keep, it)
		}
	}
	return ".seq [" + strings.Join(keep, ", ") + "]"
}

type skTarget struct {
	rel, recv, name, lean string
	calls                 []string
	objects               []string
}

var skTargets = []skTarget{
	// stand-alone proxy
	{"server/server.go", "proxy", "ServeHTTP", "server_ServeHTTP", []string{"p.newID", "p.handleAgentRequest", "newPendingRequest", "w.WriteHeader", "io.Copy"}, []string{"p.requests", "p.randGenerator"}},
	{"server/server.go", "proxy", "newID", "server_newID", nil, []string{"p.randGenerator"}},
	{"server/server.go", "proxy", "handleAgentPostResponse", "server_handleAgentPostResponse", []string{"http.ReadResponse", "io.Copy"}, []string{"p.requests"}},
	{"server/server.go", "proxy", "handleAgentGetRequest", "server_handleAgentGetRequest", []string{"pending.req.Write"}, []string{"p.requests"}},
	{"server/server.go", "proxy", "waitForRequestIDs", "server_waitForRequestIDs", []string{"time.After"}, nil},
	// agent
	{"agent/agent.go", "", "pollForNewRequests", "agent_pollForNewRequests", []string{"utils.ListPendingRequests", "time.Sleep", "utils.ExponentialBackoffDuration", "previouslySeenRequests.Get", "previouslySeenRequests.Add", "processOneRequest"}, nil},
	{"agent/agent.go", "", "processOneRequest", "agent_processOneRequest", []string{"utils.ReadRequest", "forwardRequest"}, nil},
	{"agent/agent.go", "", "forwardRequest", "agent_forwardRequest", []string{"utils.NewResponseForwarder", "hostProxy.ServeHTTP", "responseForwarder.Close"}, nil},
	{"agent/agent.go", "", "main", "agent_main", []string{"waitForHealthy", "runHealthChecks", "runAdapter", "utils.ShutdownSignalChan", "requestPollingCancel", "time.Sleep", "log.Fatal", "context.WithCancel"}, nil},
	{"agent/agent.go", "", "runAdapter", "agent_runAdapter", []string{"getGoogleClient", "hostProxy", "pollForNewRequests", "cancel", "context.WithCancel"}, nil},
	{"agent/agent.go", "", "runHealthChecks", "agent_runHealthChecks", []string{"healthCheck", "log.Fatal", "ticker.Stop", "time.NewTicker"}, nil},
	{"agent/agent.go", "", "waitForHealthy", "agent_waitForHealthy", []string{"healthCheck", "ticker.Stop", "time.NewTicker"}, nil},
	// agent/utils
	{"agent/utils/utils.go", "", "postResponseWithRetries", "utils_postResponseWithRetries", []string{"client.Do", "proxyReadSeeker.Seek", "newBufferedReadSeeker", "proxyResp.Body.Close"}, nil},
	{"agent/utils/utils.go", "", "getRequestWithRetries", "utils_getRequestWithRetries", []string{"client.Do", "proxyResp.Body.Close"}, nil},
	{"agent/utils/utils.go", "", "NewResponseForwarder", "utils_NewResponseForwarder", []string{"postResponseWithRetries", "resp.Write", "rw.CloseWithError", "proxyReader.Close", "proxyWriter.Close", "io.Pipe", "NewStreamingResponseWriter"}, nil},
	{"agent/utils/utils.go", "responseForwarder", "Close", "utils_responseForwarder_Close", []string{"r.ResponseWriteCloser.Close"}, nil},
	{"agent/utils/utils.go", "streamingResponseWriter", "WriteHeader", "utils_srw_WriteHeader", []string{"w.bodyReader.Close"}, []string{"w.header", "w.trailer", "w.wroteHeader"}},
	{"agent/utils/utils.go", "streamingResponseWriter", "Write", "utils_srw_Write", []string{"w.WriteHeader", "w.bodyWriter.Write"}, nil},
	{"agent/utils/utils.go", "streamingResponseWriter", "Close", "utils_srw_Close", []string{"w.WriteHeader", "w.bodyWriter.Close"}, []string{"w.trailer"}},
	{"agent/utils/utils.go", "", "ShutdownSignalChan", "utils_ShutdownSignalChan", []string{"signal.Notify"}, nil},
	// sessions
	{"agent/sessions/sessions.go", "Cache", "cachedCookieJar", "sessions_cachedCookieJar", []string{"c.cache.Get", "c.cache.Add", "c.addJarToCache", "cookiejar.New"}, []string{"c.cache"}},
	{"agent/sessions/sessions.go", "Cache", "addJarToCache", "sessions_addJarToCache", []string{"c.cache.Add"}, []string{"c.cache"}},
	// websockets
	{"agent/websockets/connection.go", "", "NewConnection", "websockets_NewConnection", []string{"serverConn.ReadMessage", "serverConn.WriteMessage", "serverConn.Close", "cancel", "websocket.DefaultDialer.Dial"}, nil},
	{"agent/websockets/connection.go", "Connection", "Close", "websockets_Connection_Close", []string{"conn.cancel"}, nil},
	{"agent/websockets/connection.go", "Connection", "SendClientMessage", "websockets_Connection_SendClientMessage", []string{"injectWebsocketMessage", "conn.done"}, nil},
	{"agent/websockets/connection.go", "Connection", "ReadServerMessages", "websockets_Connection_ReadServerMessages", []string{"time.After"}, nil},
	{"agent/websockets/shim.go", "", "createShimChannel", "websockets_createShimChannel", []string{"connections.Load", "connections.Store", "connections.Delete", "conn.Close", "conn.SendClientMessage", "conn.ReadServerMessages", "NewConnection", "url.Parse", "openWebsocketHandler.ServeHTTP"}, nil},
	// tcp bridge
	{"utils/tcpbridge/connection/connection.go", "", "Handler", "connection_Handler", []string{"io.Copy", "wsConn.Close", "backendConn.Close", "upgrader.Upgrade", "net.Dial", "passthroughHandler.ServeHTTP", "cancel", "wg.Done", "wg.Add"}, nil},
	{"utils/tcpbridge/tcp-bridge-frontend/tcp-bridge-frontend.go", "", "main", "frontend_main", []string{"io.Copy", "conn.Close", "backendConn.Close", "connection.DialWebsocket", "l.Accept", "cancel", "wg.Done", "wg.Add"}, nil},
	// app engine proxy
	{"app/proxy.go", "", "postResponse", "app_postResponse", []string{"s.ReadRequest", "s.WriteResponse", "s.WriteRequest", "wg.Done", "wg.Add"}, nil},
	{"app/proxy.go", "", "responseHandler", "app_responseHandler", []string{"checkBackendID", "parseResponse", "postResponse", "http.Error", "w.WriteHeader", "len"}, nil},
	{"app/proxy.go", "", "requestHandler", "app_requestHandler", []string{"checkBackendID", "s.ReadRequest", "http.Error", "w.Write"}, nil},
	{"app/proxy.go", "", "pendingHandler", "app_pendingHandler", []string{"checkBackendID", "waitForNextRequests", "http.Error", "w.Write"}, nil},
	{"app/proxy.go", "", "checkBackendID", "app_checkBackendID", []string{"user.CurrentOAuth", "s.IsBackendUserAllowed", "r.Header.Get"}, nil},
	{"app/proxy.go", "", "handleAPIRequest", "app_handleAPIRequest", []string{"isAdminRequest", "deleteHandler", "listBackendsHandler", "addBackendHandler", "deleteBackendHandler", "http.Error"}, nil},
	{"app/proxy.go", "", "handleAgentRequest", "app_handleAgentRequest", []string{"pendingHandler", "requestHandler", "responseHandler", "http.Error"}, nil},
	{"app/proxy.go", "", "proxyHandler", "app_proxyHandler", []string{"user.Current", "s.LookupBackend", "readCachedResponse", "forwardResponse", "postRequest", "waitForResponse", "cacheResponse", "reportError", "http.Error", "http.NotFound", "http.ReadResponse"}, nil},
	{"app/store/store.go", "", "writeBlobParts", "store_writeBlobParts", []string{"datastore.Put", "wg.Done", "wg.Add", "len"}, nil},
}

func genSkels() string {
	var sb strings.Builder
	sb.WriteString("/- GENERATED by /verif/tools/goextract from /repo — do not edit. (T3: synchronisation skeletons) -/\n")
	sb.WriteString("import InvProxy.Base.Skel\nnamespace InvProxy.Gen\nopen InvProxy\n\n")
	files := map[string]*ast.File{}
	for _, t := range skTargets {
		f := files[t.rel]
		if f == nil {
			f = parseFile(t.rel)
			files[t.rel] = f
		}
		fd := mustFunc(f, t.rel, t.recv, t.name)
		c := &skctx{calls: map[string]bool{}, objects: t.objects, where: t.rel + ":" + t.name}
		for _, n := range t.calls {
			c.calls[n] = true
		}
		fmt.Fprintf(&sb, "/-- %s %s -/\ndef skel_%s : Skel :=\n  %s\n\n", t.rel, t.name, t.lean, c.block(fd.Body.List))
	}
	sb.WriteString("end InvProxy.Gen\n")
	return sb.String()
}
