module goextract

go 1.18
