package main

import (
	"fmt"
	"go/ast"
	"go/token"
	"strconv"
	"strings"
)

// ---- T2: Go statements/expressions (whitelisted subset) -> Lean `do` notation ----

type tctx struct {
	pkg        string            // lean prefix of the package ("banner")
	env        constEnv          // package-level constants
	subst      map[string]string // exact Go source text of an expression -> Lean text
	bv         bool              // 64-bit machine arithmetic (BitVec 64)
	hdrVars    map[string]string // Go source text of a header-valued expression -> Lean mutable variable
	tables     map[string]string // Go map variable used as a set -> Lean list
	funcs      map[string]string // callee name -> Lean function (other T2 targets)
	ret        string            // "value" | "option" (second result is an error)
	sliceAllow []string          // statements (by source prefix) that may mention a header variable without being a header operation
	stmtSub    map[string]string // exact Go source text of a statement -> Lean line
	where      string
}

func (t *tctx) bad(n ast.Node, what string) string {
	fail("%s: unsupported %s at %s: %s", t.where, what, fset.Position(n.Pos()), src(n))
	return ""
}

func isStringy(t *tctx, e ast.Expr) bool {
	switch x := e.(type) {
	case *ast.BasicLit:
		return x.Kind == token.STRING
	case *ast.SelectorExpr:
		_, ok := knownStrings[src(x)]
		return ok
	case *ast.Ident:
		if v, ok := t.env[x.Name]; ok {
			_, ok2 := evalString(t.env, v)
			return ok2
		}
	case *ast.BinaryExpr:
		return x.Op == token.ADD && (isStringy(t, x.X) || isStringy(t, x.Y))
	}
	return false
}

// leanName: a Go local as a Lean identifier (Lean keywords are quoted).
func leanName(n string) string {
	switch n {
	case "prefix", "infix", "infixl", "infixr", "postfix", "notation", "from", "at", "then", "end", "fun", "match", "with", "do", "in", "let", "have", "show", "by",
		"where", "open", "namespace", "section", "universe", "variable", "theorem", "def", "example", "instance", "structure", "class", "inductive", "deriving",
		"macro", "syntax", "import", "export", "private", "protected", "mutual", "termination_by", "decreasing_by", "set_option", "attribute", "local", "scoped",
		"if", "else", "for", "return", "break", "continue", "unless", "try", "catch", "finally", "mut", "Type", "Prop", "Sort", "forall", "exists", "calc", "using", "suffices", "obtain", "nomatch", "nofun":
		return "«" + n + "»"
	}
	return n
}

func (t *tctx) num(v int64) string {
	if t.bv {
		return fmt.Sprintf("(%d#64)", v)
	}
	return fmt.Sprintf("%d", v)
}

func (t *tctx) expr(e ast.Expr) string {
	if s, ok := t.subst[src(e)]; ok {
		return s
	}
	if h, ok := t.hdrVars[src(e)]; ok {
		return h
	}
	switch x := e.(type) {
	case *ast.ParenExpr:
		return "(" + t.expr(x.X) + ")"
	case *ast.BasicLit:
		switch x.Kind {
		case token.STRING:
			s, err := strconv.Unquote(x.Value)
			if err != nil {
				return t.bad(e, "string literal")
			}
			return bytesLit(s)
		case token.INT:
			v, err := strconv.ParseInt(x.Value, 0, 64)
			if err != nil {
				return t.bad(e, "int literal")
			}
			return t.num(v)
		}
		return t.bad(e, "literal")
	case *ast.Ident:
		switch x.Name {
		case "true", "false":
			return x.Name
		}
		if v, ok := t.env[x.Name]; ok {
			if _, ok := evalString(t.env, v); ok {
				return t.pkg + "_" + x.Name
			}
			if iv, ok := evalInt(t.env, v); ok {
				if t.bv {
					return t.num(iv)
				}
				return t.pkg + "_" + x.Name
			}
		}
		return leanName(x.Name)
	case *ast.StarExpr:
		return t.expr(x.X)
	case *ast.SelectorExpr:
		s := src(x)
		if v, ok := knownStrings[s]; ok {
			return bytesLit(v)
		}
		if v, ok := knownInts[s]; ok {
			return t.num(v)
		}
		if id, ok := x.X.(*ast.Ident); ok {
			switch id.Name {
			case "utils", "types", "connection":
				return id.Name + "_" + x.Sel.Name
			}
		}
		return t.expr(x.X) + "." + x.Sel.Name
	case *ast.IndexExpr:
		// strings.SplitN(s, sep, 2)[0]: the part of s before the first sep
		if c, ok := x.X.(*ast.CallExpr); ok && src(c.Fun) == "strings.SplitN" && len(c.Args) == 3 && src(c.Args[2]) == "2" && src(x.Index) == "0" {
			return "(Go.beforeSep " + t.expr(c.Args[0]) + " " + t.expr(c.Args[1]) + ")"
		}
		if tbl, ok := t.tables[src(x.X)]; ok {
			return "(" + tbl + ".contains " + t.expr(x.Index) + ")"
		}
		return "(Hdr.values " + t.expr(x.X) + " " + t.expr(x.Index) + ")"
	case *ast.UnaryExpr:
		if x.Op == token.NOT {
			return "(!" + t.expr(x.X) + ")"
		}
		return t.bad(e, "unary operator")
	case *ast.BinaryExpr:
		a, b := t.expr(x.X), t.expr(x.Y)
		switch x.Op {
		case token.LAND:
			return "(" + a + " && " + b + ")"
		case token.LOR:
			return "(" + a + " || " + b + ")"
		case token.EQL:
			return "(" + a + " == " + b + ")"
		case token.NEQ:
			return "(" + a + " != " + b + ")"
		case token.LSS, token.GTR, token.LEQ, token.GEQ:
			return "(decide (" + a + " " + x.Op.String() + " " + b + "))"
		case token.ADD:
			if isStringy(t, x.X) || isStringy(t, x.Y) {
				return "(" + a + " ++ " + b + ")"
			}
			return "(" + a + " + " + b + ")"
		case token.SUB, token.MUL, token.QUO:
			return "(" + a + " " + x.Op.String() + " " + b + ")"
		case token.SHL:
			return "(" + a + " <<< " + b + ")"
		}
		return t.bad(e, "binary operator")
	case *ast.CallExpr:
		fn := src(x.Fun)
		args := func() []string {
			var as []string
			for _, a := range x.Args {
				as = append(as, t.expr(a))
			}
			return as
		}
		switch fn {
		case "strings.ToLower":
			return "(Go.toLower " + args()[0] + ")"
		case "strings.HasPrefix":
			return "(Go.hasPrefix " + strings.Join(args(), " ") + ")"
		case "strings.Contains":
			return "(Go.contains " + strings.Join(args(), " ") + ")"
		case "strings.Split":
			return "(Go.split " + strings.Join(args(), " ") + ")"
		case "strings.TrimSpace":
			return "(Go.trimSpace " + args()[0] + ")"
		case "strings.CutPrefix":
			return "(Go.cutPrefix2 " + strings.Join(args(), " ") + ")"
		case "http.CanonicalHeaderKey":
			return "(Go.canon " + args()[0] + ")"
		case "len":
			return "(List.length " + args()[0] + ")"
		case "int", "int64", "uint", "string":
			if !t.bv {
				return args()[0]
			}
		}
		if lf, ok := t.funcs[fn]; ok {
			return "(" + lf + " " + strings.Join(args(), " ") + ")"
		}
		if se, ok := x.Fun.(*ast.SelectorExpr); ok {
			switch se.Sel.Name {
			case "Get":
				return "(Hdr.Get " + t.expr(se.X) + " " + args()[0] + ")"
			case "Values":
				return "(Hdr.Values " + t.expr(se.X) + " " + args()[0] + ")"
			}
		}
		return t.bad(e, "call")
	case *ast.CompositeLit:
		if len(x.Elts) == 0 {
			return "[]"
		}
		return t.bad(e, "composite literal")
	}
	return t.bad(e, "expression")
}

// cond translates an if-condition, folding the `_, ok := M[k]; ok` idiom.
func (t *tctx) cond(s *ast.IfStmt) (pre []string, c string) {
	if s.Init != nil {
		as, ok := s.Init.(*ast.AssignStmt)
		if ok && as.Tok == token.DEFINE && len(as.Lhs) == 2 && len(as.Rhs) == 1 {
			if ix, ok := as.Rhs[0].(*ast.IndexExpr); ok {
				if tbl, ok := t.tables[src(ix.X)]; ok {
					okName := src(as.Lhs[1])
					if src(as.Lhs[0]) == "_" {
						// the condition may combine `ok` with other tests
						if t.subst == nil {
							t.subst = map[string]string{}
						}
						old, had := t.subst[okName]
						t.subst[okName] = "(" + tbl + ".contains " + t.expr(ix.Index) + ")"
						c := t.expr(s.Cond)
						if had {
							t.subst[okName] = old
						} else {
							delete(t.subst, okName)
						}
						return nil, c
					}
				}
			}
		}
		t.bad(s, "if-initialiser")
	}
	return nil, t.expr(s.Cond)
}

func isLogCall(s ast.Stmt) bool {
	es, ok := s.(*ast.ExprStmt)
	if !ok {
		return false
	}
	c, ok := es.X.(*ast.CallExpr)
	if !ok {
		return false
	}
	f := src(c.Fun)
	return strings.HasPrefix(f, "log.Print")
}

func zeroOf(typ ast.Expr) (leanType, zero string) {
	switch src(typ) {
	case "string":
		return "Bytes", "[]"
	case "int", "int64", "uint":
		return "Int", "0"
	case "bool":
		return "Bool", "false"
	case "time.Duration":
		return "BitVec 64", "0#64"
	}
	return "", ""
}

// hdrOp recognises X.Add/Set/Del(k[,v]) on a header variable.
func (t *tctx) hdrOp(s ast.Stmt) (string, bool) {
	es, ok := s.(*ast.ExprStmt)
	if !ok {
		return "", false
	}
	c, ok := es.X.(*ast.CallExpr)
	if !ok {
		return "", false
	}
	if id, ok := c.Fun.(*ast.Ident); ok && id.Name == "keepEndToEnd" && len(c.Args) == 2 {
		if hv, ok := t.hdrVars[src(c.Args[0])]; ok {
			return fmt.Sprintf("%s := Hdr.dropConnOption %s %s", hv, hv, t.expr(c.Args[1])), true
		}
	}
	se, ok := c.Fun.(*ast.SelectorExpr)
	if !ok {
		return "", false
	}
	hv, ok := t.hdrVars[src(se.X)]
	if !ok {
		return "", false
	}
	switch se.Sel.Name {
	case "Add", "Set":
		if len(c.Args) != 2 {
			return "", false
		}
		return fmt.Sprintf("%s := Hdr.%s %s %s %s", hv, se.Sel.Name, hv, t.expr(c.Args[0]), t.expr(c.Args[1])), true
	case "Del":
		if len(c.Args) != 1 {
			return "", false
		}
		return fmt.Sprintf("%s := Hdr.Del %s %s", hv, hv, t.expr(c.Args[0])), true
	}
	return "", false
}

func (t *tctx) stmt(s ast.Stmt, ind string) []string {
	if isLogCall(s) {
		return nil
	}
	if l, ok := t.hdrOp(s); ok {
		return []string{ind + l}
	}
	if l, ok := t.stmtSub[src(s)]; ok {
		return []string{ind + l}
	}
	switch x := s.(type) {
	case *ast.EmptyStmt:
		return nil
	case *ast.BlockStmt:
		return t.stmts(x.List, ind)
	case *ast.DeclStmt:
		gd := x.Decl.(*ast.GenDecl)
		var out []string
		for _, sp := range gd.Specs {
			vs, ok := sp.(*ast.ValueSpec)
			if !ok || len(vs.Values) != 0 || vs.Type == nil {
				t.bad(s, "declaration")
			}
			lt, z := zeroOf(vs.Type)
			if lt == "" {
				t.bad(s, "declared type")
			}
			for _, n := range vs.Names {
				out = append(out, fmt.Sprintf("%slet mut %s : %s := %s", ind, leanName(n.Name), lt, z))
			}
		}
		return out
	case *ast.AssignStmt:
		if len(x.Lhs) == 1 && len(x.Rhs) == 1 {
			// header index assignment  H[k] = vs
			if ix, ok := x.Lhs[0].(*ast.IndexExpr); ok && x.Tok == token.ASSIGN {
				if hv, ok := t.hdrVars[src(ix.X)]; ok {
					return []string{fmt.Sprintf("%s%s := Hdr.put %s %s %s", ind, hv, hv, t.expr(ix.Index), t.expr(x.Rhs[0]))}
				}
				t.bad(s, "index assignment")
			}
			lhs := t.expr(x.Lhs[0])
			switch x.Tok {
			case token.DEFINE:
				return []string{fmt.Sprintf("%slet mut %s := %s", ind, lhs, t.expr(x.Rhs[0]))}
			case token.ASSIGN:
				return []string{fmt.Sprintf("%s%s := %s", ind, lhs, t.expr(x.Rhs[0]))}
			}
		}
		if len(x.Lhs) == 2 && len(x.Rhs) == 1 && x.Tok == token.ASSIGN {
			return []string{fmt.Sprintf("%s(%s, %s) := %s", ind, t.expr(x.Lhs[0]), t.expr(x.Lhs[1]), t.expr(x.Rhs[0]))}
		}
		t.bad(s, "assignment")
	case *ast.IncDecStmt:
		op := "+"
		if x.Tok == token.DEC {
			op = "-"
		}
		v := t.expr(x.X)
		return []string{fmt.Sprintf("%s%s := %s %s %s", ind, v, v, op, t.num(1))}
	case *ast.IfStmt:
		_, c := t.cond(x)
		out := []string{ind + "if " + c + " then"}
		body := t.stmts(x.Body.List, ind+"  ")
		if len(body) == 0 {
			body = []string{ind + "  pure ()"}
		}
		out = append(out, body...)
		if x.Else != nil {
			out = append(out, ind+"else")
			eb := t.stmt(x.Else, ind+"  ")
			if len(eb) == 0 {
				eb = []string{ind + "  pure ()"}
			}
			out = append(out, eb...)
		}
		return out
	case *ast.RangeStmt:
		var pat string
		var muts []string
		k, v := "_", "_"
		if x.Key != nil {
			k = src(x.Key)
		}
		if x.Value != nil {
			v = src(x.Value)
		}
		if k != "_" {
			k = leanName(k)
		}
		if v != "_" {
			v = leanName(v)
		}
		_, isHdr := t.hdrVars[src(x.X)]
		lx := strings.ToLower(src(x.X))
		if isHdr || strings.HasSuffix(lx, "header") || strings.HasSuffix(lx, "trailer") || strings.HasSuffix(lx, "header()") {
			// range over a header map: (key, values)
			pat = "(" + k + ", " + v + ")"
		} else {
			// range over a slice: index must be unused
			if k != "_" {
				t.bad(s, "range with index")
			}
			pat = v
		}
		for _, n := range []string{k, v} {
			if n != "_" {
				muts = append(muts, fmt.Sprintf("%s  let mut %s := %s", ind, n, n))
			}
		}
		out := []string{fmt.Sprintf("%sfor %s in %s do", ind, pat, t.expr(x.X))}
		out = append(out, muts...)
		body := t.stmts(x.Body.List, ind+"  ")
		if len(body) == 0 {
			body = []string{ind + "  pure ()"}
		}
		return append(out, body...)
	case *ast.SwitchStmt:
		if x.Init != nil || x.Tag == nil {
			t.bad(s, "switch form")
		}
		tag := t.expr(x.Tag)
		out := []string{ind + "let switchTag := " + tag}
		first := true
		var dflt []string
		for _, cc := range x.Body.List {
			c := cc.(*ast.CaseClause)
			body := t.stmts(c.Body, ind+"  ")
			if len(body) == 0 {
				body = []string{ind + "  pure ()"}
			}
			if c.List == nil {
				dflt = body
				continue
			}
			var alts []string
			for _, e := range c.List {
				alts = append(alts, "(switchTag == "+t.expr(e)+")")
			}
			kw := "else if "
			if first {
				kw = "if "
				first = false
			}
			out = append(out, ind+kw+strings.Join(alts, " || ")+" then")
			out = append(out, body...)
		}
		if dflt != nil {
			out = append(out, ind+"else")
			out = append(out, dflt...)
		}
		return out
	case *ast.BranchStmt:
		switch x.Tok {
		case token.CONTINUE:
			return []string{ind + "continue"}
		case token.BREAK:
			return []string{ind + "break"}
		}
		t.bad(s, "branch")
	case *ast.ReturnStmt:
		if strings.HasPrefix(t.ret, "var:") && len(x.Results) == 0 {
			return []string{ind + "return " + strings.TrimPrefix(t.ret, "var:")}
		}
		switch t.ret {
		case "value":
			if len(x.Results) != 1 {
				t.bad(s, "return arity")
			}
			return []string{ind + "return " + t.expr(x.Results[0])}
		case "option":
			if len(x.Results) != 2 {
				t.bad(s, "return arity")
			}
			if src(x.Results[1]) == "nil" {
				return []string{ind + "return (some " + t.expr(x.Results[0]) + ")"}
			}
			return []string{ind + "return none"}
		}
		t.bad(s, "return")
	}
	t.bad(s, "statement")
	return nil
}

func (t *tctx) stmts(list []ast.Stmt, ind string) []string {
	var out []string
	for _, s := range list {
		out = append(out, t.stmt(s, ind)...)
	}
	return out
}

// slice keeps only header operations and the `if`s that guard them.
func (t *tctx) slice(list []ast.Stmt) []ast.Stmt {
	var out []ast.Stmt
	for _, s := range list {
		if _, ok := t.hdrOp(s); ok {
			out = append(out, s)
			continue
		}
		if r, ok := s.(*ast.ReturnStmt); ok && len(r.Results) == 0 && strings.HasPrefix(t.ret, "var:") {
			// an early exit decides which of the later edits happen: it belongs to the slice
			out = append(out, s)
			continue
		}
		switch s.(type) {
		case *ast.ExprStmt, *ast.AssignStmt, *ast.GoStmt, *ast.DeferStmt:
			txt := src(s)
			for hv := range t.hdrVars {
				if mentionsVar(txt, hv) {
					allowed := false
					for _, a := range t.sliceAllow {
						if strings.HasPrefix(txt, a) {
							allowed = true
						}
					}
					if !allowed {
						t.bad(s, "statement touches the header "+hv+" in a way the slice cannot express")
					}
				}
			}
		}
		if is, ok := s.(*ast.IfStmt); ok && is.Init == nil {
			body := t.slice(is.Body.List)
			var els ast.Stmt
			if is.Else != nil {
				if eb, ok := is.Else.(*ast.BlockStmt); ok {
					if l := t.slice(eb.List); len(l) > 0 {
						els = &ast.BlockStmt{List: l}
					}
				}
			}
			if len(body) > 0 || els != nil {
				out = append(out, &ast.IfStmt{If: is.If, Cond: is.Cond, Body: &ast.BlockStmt{List: body}, Else: els})
			}
		}
	}
	return out
}

// mentionsVar: txt contains the expression v not followed/preceded by an identifier character.
func mentionsVar(txt, v string) bool {
	isID := func(b byte) bool {
		return b == '_' || b >= '0' && b <= '9' || b >= 'a' && b <= 'z' || b >= 'A' && b <= 'Z'
	}
	for i := 0; ; {
		j := strings.Index(txt[i:], v)
		if j < 0 {
			return false
		}
		j += i
		before := j == 0 || !(isID(txt[j-1]) || txt[j-1] == '.')
		after := j+len(v) >= len(txt) || !isID(txt[j+len(v)])
		if before && after {
			return true
		}
		i = j + 1
	}
}

func emitDef(sb *strings.Builder, sig string, body []string, comment string) {
	fmt.Fprintf(sb, "/-- %s -/\ndef %s := Id.run do\n%s\n\n", comment, sig, strings.Join(body, "\n"))
}

// findStmt returns the first statement (depth-first, including closures) satisfying pred.
func findStmt(root ast.Node, pred func(ast.Stmt) bool) ast.Stmt {
	var found ast.Stmt
	ast.Inspect(root, func(n ast.Node) bool {
		if found != nil {
			return false
		}
		if s, ok := n.(ast.Stmt); ok && pred(s) {
			found = s
			return false
		}
		return true
	})
	return found
}

func genFuncs() string {
	var sb strings.Builder
	sb.WriteString("/- GENERATED by /verif/tools/goextract from /repo — do not edit. (T2: value-only functions and slices) -/\n")
	sb.WriteString("import InvProxy.Base.GoTypes\nimport InvProxy.Gen.Consts\nnamespace InvProxy.Gen\nopen InvProxy\n\n")

	// 1. server.isHopByHopHeader
	{
		rel := "server/server.go"
		f := parseFile(rel)
		fd := mustFunc(f, rel, "", "isHopByHopHeader")
		t := &tctx{pkg: "server", env: collectConsts(f), ret: "value", where: rel + ":isHopByHopHeader"}
		emitDef(&sb, "server_isHopByHopHeader (name : Bytes) : Bool", t.stmts(fd.Body.List, "  "), rel+" isHopByHopHeader")

		// request filter loop and response/trailer copy loops of proxy.ServeHTTP
		sh := mustFunc(f, rel, "proxy", "ServeHTTP")
		t = &tctx{pkg: "server", env: collectConsts(f), where: rel + ":ServeHTTP",
			funcs:   map[string]string{"isHopByHopHeader": "server_isHopByHopHeader"},
			hdrVars: map[string]string{"r.Header": "rh", "w.Header()": "wh"},
			subst:   map[string]string{"resp.Header": "respHeader", "resp.Trailer": "respTrailer"}}
		reqLoop := findStmt(sh, func(s ast.Stmt) bool {
			r, ok := s.(*ast.RangeStmt)
			return ok && src(r.X) == "r.Header"
		})
		if reqLoop == nil {
			fail("%s: request hop-by-hop filter loop not found", rel)
		}
		// every top-level statement of ServeHTTP that touches r.Header (besides the agent-call test at the top) must be
		// the filter loop or, before it, the loop that removes the fields nominated in Connection (hand-modelled:
		// Hdr.dropConnNamed; its text is checked)
		nomText := "for _, options := range r.Header[\"Connection\"] {\n\tfor _, option := range strings.Split(options, \",\") {\n\t\tr.Header.Del(strings.TrimSpace(option))\n\t}\n}"
		hasNom := false
		for _, st := range sh.Body.List {
			txt := src(st)
			if !strings.Contains(txt, "r.Header") || st == reqLoop {
				continue
			}
			if is, ok := st.(*ast.IfStmt); ok && is.Init != nil && strings.Contains(src(is.Init), "r.Header.Get(utils.HeaderBackendID)") {
				continue
			}
			if txt == nomText && st.Pos() < reqLoop.Pos() && !hasNom {
				hasNom = true
				continue
			}
			fail("%s: ServeHTTP edits the client request header in a way the extractor does not know:\n%s", rel, txt)
		}
		body := t.stmt(reqLoop, "  ")
		pre := []string{"  let mut rh := rh0"}
		if hasNom {
			pre = append(pre, "  rh := Hdr.dropConnNamed rh")
		}
		pre = append(pre, "  let rhSnap := rh")
		body = append(pre, body...)
		body = append(body, "  return rh")
		// the loop ranges over the map being edited: iterate over a snapshot
		for i := range body {
			body[i] = strings.Replace(body[i], " in rh do", " in rhSnap do", 1)
		}
		emitDef(&sb, "server_filterRequestHeader (rh0 : Hdr) : Hdr", body, rel+" ServeHTTP: hop-by-hop filter on the client request")

		var cc *ast.CommClause
		ast.Inspect(sh, func(n ast.Node) bool {
			if c, ok := n.(*ast.CommClause); ok && c.Comm != nil && strings.Contains(src(c.Comm), "pending.respChan") {
				cc = c
			}
			return true
		})
		if cc == nil {
			fail("%s: response clause not found", rel)
		}
		var hdrPart, trlPart []ast.Stmt
		seenWH := false
		for _, s := range cc.Body {
			if es, ok := s.(*ast.ExprStmt); ok {
				if c, ok := es.X.(*ast.CallExpr); ok {
					switch src(c.Fun) {
					case "w.WriteHeader":
						seenWH = true
						continue
					case "io.Copy", "resp.Body.Close":
						continue
					}
				}
			}
			if _, ok := s.(*ast.ReturnStmt); ok {
				continue
			}
			if seenWH {
				trlPart = append(trlPart, s)
			} else {
				hdrPart = append(hdrPart, s)
			}
		}
		body = append([]string{"  let mut wh := wh0"}, t.stmts(hdrPart, "  ")...)
		body = append(body, "  return wh")
		emitDef(&sb, "server_copyResponseHeader (respHeader : Hdr) (wh0 : Hdr) : Hdr", body, rel+" ServeHTTP: header edits before WriteHeader")
		body = append([]string{"  let mut wh := wh0"}, t.stmts(trlPart, "  ")...)
		body = append(body, "  return wh")
		emitDef(&sb, "server_copyResponseTrailer (respTrailer : Hdr) (wh0 : Hdr) : Hdr", body, rel+" ServeHTTP: header edits after the body (trailers)")
	}

	// 2. store.mostSpecificMatchingBackend + blob part arithmetic
	{
		rel := "app/store/store.go"
		f := parseFile(rel)
		fd := mustFunc(f, rel, "", "mostSpecificMatchingBackend")
		t := &tctx{pkg: "store", env: collectConsts(f), ret: "option", where: rel + ":mostSpecificMatchingBackend"}
		emitDef(&sb, "store_mostSpecificMatchingBackend (path : Bytes) (backends : List Backend) : Option Bytes", t.stmts(fd.Body.List, "  "), rel+" mostSpecificMatchingBackend")

		// LookupBackend / lookupSharedBackend: the decision over (query error, most specific match, liveness, shared lookup)
		for _, lk := range []struct{ fn, lean, sig, comment string }{
			{"LookupBackend", "store_LookupBackend", "(queryErr : Bool) (ownMatch : Option Bytes) (live : Bytes → Bool) (shared : Option Bytes) : Option Bytes", "persistentStore.LookupBackend: decision; ownMatch = mostSpecificMatchingBackend over the user's backends, shared = lookupSharedBackend(path)"},
			{"lookupSharedBackend", "store_lookupSharedBackend", "(queryErr : Bool) (ownMatch : Option Bytes) (live : Bytes → Bool) (shared : Option Bytes) : Option Bytes", "persistentStore.lookupSharedBackend: decision; ownMatch = mostSpecificMatchingBackend over the allUsers backends (shared is unused)"},
		} {
			fd := mustFunc(f, rel, "persistentStore", lk.fn)
			tl := &tctx{pkg: "store", where: rel + ":" + lk.fn}
			retOf := func(r *ast.ReturnStmt) string {
				if len(r.Results) == 1 && src(r.Results[0]) == "d.lookupSharedBackend(ctx, path)" && lk.fn == "LookupBackend" {
					return "shared"
				}
				if len(r.Results) == 2 && src(r.Results[1]) == "nil" && src(r.Results[0]) == "backendID" {
					return "(some backendID)"
				}
				if len(r.Results) == 2 && src(r.Results[0]) == "\"\"" && src(r.Results[1]) != "nil" {
					return "none"
				}
				tl.bad(r, "return shape")
				return ""
			}
			single := func(is *ast.IfStmt) *ast.ReturnStmt {
				if is.Else != nil || len(is.Body.List) != 1 {
					tl.bad(is, "if shape")
				}
				r, ok := is.Body.List[0].(*ast.ReturnStmt)
				if !ok {
					tl.bad(is, "if body")
				}
				return r
			}
			var pre, onNone, onSome []string
			matched := false
			finished := false
			for _, st := range fd.Body.List {
				switch x := st.(type) {
				case *ast.DeclStmt:
					continue
				case *ast.AssignStmt:
					switch {
					case strings.HasPrefix(src(x), "q := datastore.NewQuery(backendKind).Filter(\"EndUser=\", "):
						want := map[string]string{"LookupBackend": "endUser", "lookupSharedBackend": "sharedBackendUser"}[lk.fn]
						if !strings.Contains(src(x), "Filter(\"EndUser=\", "+want+")") {
							tl.bad(x, "query filter")
						}
					case src(x) == "backendID, err := mostSpecificMatchingBackend(path, backends)":
						matched = true
					default:
						tl.bad(x, "assignment")
					}
				case *ast.IfStmt:
					r := single(x)
					switch {
					case x.Init != nil && strings.Contains(src(x.Init), "q.GetAll(ctx, &backends)") && src(x.Cond) == "err != nil" && !matched:
						pre = append(pre, "  if queryErr then", "    return "+retOf(r))
					case x.Init == nil && src(x.Cond) == "err != nil" && matched && onNone == nil:
						onNone = []string{"    return " + retOf(r)}
					case x.Init == nil && src(x.Cond) == "d.hasBackend(ctx, backendID, backendTimeout)" && matched:
						onSome = append(onSome, "    if live backendID then", "      return "+retOf(r))
					default:
						tl.bad(x, "condition")
					}
				case *ast.ReturnStmt:
					if !matched {
						tl.bad(x, "return before the match")
					}
					onSome = append(onSome, "    return "+retOf(x))
					finished = true
				default:
					tl.bad(st, "statement")
				}
			}
			if !finished || onNone == nil {
				fail("%s: %s no longer has the expected shape", rel, lk.fn)
			}
			lines := append(pre, "  match ownMatch with", "  | none =>")
			lines = append(lines, onNone...)
			lines = append(lines, "  | some backendID =>")
			lines = append(lines, onSome...)
			emitDef(&sb, lk.lean+" "+lk.sig, lines, rel+" "+lk.comment)
		}

		wb := mustFunc(f, rel, "", "writeBlobParts")
		t = &tctx{pkg: "store", env: collectConsts(f), where: rel + ":writeBlobParts", subst: map[string]string{"len(bytes)": "bytesLen"}}
		pc := findStmt(wb, func(s ast.Stmt) bool {
			a, ok := s.(*ast.AssignStmt)
			return ok && len(a.Lhs) == 1 && src(a.Lhs[0]) == "partCount"
		})
		if pc == nil {
			fail("%s: partCount not found", rel)
		}
		fmt.Fprintf(&sb, "/-- %s writeBlobParts: partCount -/\ndef store_partCount (bytesLen : Nat) : Nat := %s\n\n", rel, t.expr(pc.(*ast.AssignStmt).Rhs[0]))
		loop := findStmt(wb, func(s ast.Stmt) bool { _, ok := s.(*ast.ForStmt); return ok })
		if loop == nil {
			fail("%s: part loop not found", rel)
		}
		fl := loop.(*ast.ForStmt)
		if src(fl.Init) != "i := 0" || src(fl.Cond) != "i < partCount" || src(fl.Post) != "i++" {
			fail("%s: part loop header changed: %s; %s; %s", rel, src(fl.Init), src(fl.Cond), src(fl.Post))
		}
		var bnd []ast.Stmt
		for _, s := range fl.Body.List {
			if a, ok := s.(*ast.AssignStmt); ok && src(a.Lhs[0]) == "partBytes" {
				if src(a.Rhs[0]) != "bytes[partStart:partEnd]" {
					fail("%s: partBytes is no longer bytes[partStart:partEnd]", rel)
				}
				break
			}
			bnd = append(bnd, s)
		}
		body := t.stmts(bnd, "  ")
		body = append(body, "  return (partStart, partEnd)")
		emitDef(&sb, "store_partBounds (i : Nat) (bytesLen : Nat) : Nat × Nat", body, rel+" writeBlobParts: slice bounds of part i")

		// after the bounds: every iteration names its part AND puts it (in index order for the names), unconditionally:
		// `blob.read` fetches every named part, so a named but unwritten part makes the blob unreadable
		{
			named, put, jumps, condPut := 0, 0, 0, false
			for _, s := range fl.Body.List {
				if a, ok := s.(*ast.AssignStmt); ok && len(a.Lhs) == 1 && len(a.Rhs) == 1 && src(a.Lhs[0]) == "partNames" && strings.HasPrefix(src(a.Rhs[0]), "append(partNames, ") {
					named++
				}
				if g, ok := s.(*ast.GoStmt); ok && strings.Contains(src(g), "datastore.Put(ctx, ") {
					put++
				}
			}
			ast.Inspect(fl.Body, func(n ast.Node) bool {
				switch x := n.(type) {
				case *ast.BranchStmt:
					jumps++
				case *ast.IfStmt:
					if strings.Contains(src(x.Body), "datastore.Put") && !strings.Contains(src(x.Init), "datastore.Put") {
						condPut = true
					}
				case *ast.ReturnStmt:
					if !strings.Contains(src(fl.Body), "go func() {") {
						jumps++
					}
					_ = x
				}
				return true
			})
			fmt.Fprintf(&sb, "/-- %s writeBlobParts: each loop iteration appends the part name and starts the Put of that part, with no branch (continue/break) around either -/\ndef store_everyNamedPartIsPut : Bool := %v\n\n", rel, named == 1 && put == 1 && jumps == 0 && !condPut)
		}

		// the error channel of the part writers: every writer goroutine may send one error, and nobody receives
		// before all of them are done (wg.Wait), so the channel needs one slot per writer
		{
			capExpr := ""
			ast.Inspect(wb, func(n ast.Node) bool {
				if a, ok := n.(*ast.AssignStmt); ok && len(a.Lhs) == 1 && len(a.Rhs) == 1 && src(a.Lhs[0]) == "errs" {
					if c, ok := a.Rhs[0].(*ast.CallExpr); ok && src(c.Fun) == "make" && len(c.Args) == 2 && strings.HasPrefix(src(c.Args[0]), "chan ") {
						capExpr = src(c.Args[1])
					}
				}
				return true
			})
			bound := strings.TrimPrefix(src(fl.Cond), "i < ")
			fmt.Fprintf(&sb, "/-- %s writeBlobParts: the error channel has one slot per part writer (capacity %q, writers %q) -/\ndef store_partErrsSlotPerWriter : Bool := %v\n\n", rel, capExpr, bound, capExpr != "" && capExpr == bound)
		}

		// blob.read fetches the parts in the order in which the blob lists them (the order of writing, i.e. index
		// order): the two loops range over bp.Parts and over the fetched parts themselves, not over a re-ordered copy
		{
			rd := mustFunc(f, rel, "blob", "read")
			var ranges []string
			ast.Inspect(rd, func(n ast.Node) bool {
				if r, ok := n.(*ast.RangeStmt); ok {
					ranges = append(ranges, src(r.X))
				}
				return true
			})
			reorders := strings.Contains(src(rd), "sort.") || strings.Contains(src(rd), "slices.")
			okOrder := len(ranges) == 2 && ranges[0] == "bp.Parts" && ranges[1] == "parts" && !reorders
			fmt.Fprintf(&sb, "/-- %s blob.read: ranges over %v; no re-ordering call -/\ndef store_readKeepsStoredPartOrder : Bool := %v\n\n", rel, ranges, okOrder)
		}

		nb := mustFunc(f, rel, "", "newBlob")
		first, ok := nb.Body.List[0].(*ast.IfStmt)
		if !ok {
			fail("%s: newBlob no longer starts with the inline test", rel)
		}
		fmt.Fprintf(&sb, "/-- %s newBlob: inline test -/\ndef store_inlineTest (bytesLen : Nat) : Bool := %s\n\n", rel, t.expr(first.Cond))
		// the two slice expressions of newBlob
		txt := src(nb)
		for _, need := range []string{"bytes[fieldByteLimit:]", "bytes[0:fieldByteLimit]"} {
			if !strings.Contains(txt, need) {
				fail("%s: newBlob no longer uses %s", rel, need)
			}
		}
	}

	// 3/4. banner predicates
	{
		rel := "agent/banner/banner.go"
		f := parseFile(rel)
		t := &tctx{pkg: "banner", env: collectConsts(f), ret: "value", where: rel}
		emitDef(&sb, "banner_isHTMLRequest (r : Req) : Bool", t.stmts(mustFunc(f, rel, "", "isHTMLRequest").Body.List, "  "), rel+" isHTMLRequest")
		emitDef(&sb, "banner_isFrameableHTMLResponse (statusCode : Int) (responseHeader : Hdr) : Bool", t.stmts(mustFunc(f, rel, "", "isFrameableHTMLResponse").Body.List, "  "), rel+" isFrameableHTMLResponse")
	}

	// 5. backoff target (64-bit arithmetic) and Seek
	{
		rel := "agent/utils/utils.go"
		f := parseFile(rel)
		fd := mustFunc(f, rel, "", "ExponentialBackoffDuration")
		if len(fd.Type.Params.List) != 1 || src(fd.Type.Params.List[0].Type) != "uint" {
			fail("%s: ExponentialBackoffDuration parameter is no longer a uint", rel)
		}
		t := &tctx{pkg: "utils", env: collectConsts(f), bv: true, ret: "value", where: rel + ":ExponentialBackoffDuration",
			subst: map[string]string{"uint(maxRetryCount)": "(BitVec.ofNat 64 utils_maxRetryCountU)"}}
		var pre []ast.Stmt
		sawJitter := false
		bodyList := fd.Body.List
		helperForm := false
		if len(bodyList) == 1 {
			// `return addJitter(helper(retryCount), JitterPercent)` with the un-jittered target computed by a helper
			if r, ok := bodyList[0].(*ast.ReturnStmt); ok && len(r.Results) == 1 {
				if c, ok := r.Results[0].(*ast.CallExpr); ok && src(c.Fun) == "addJitter" && len(c.Args) == 2 && src(c.Args[1]) == "JitterPercent" {
					if hc, ok := c.Args[0].(*ast.CallExpr); ok && len(hc.Args) == 1 && src(hc.Args[0]) == "retryCount" {
						if id, ok := hc.Fun.(*ast.Ident); ok {
							if h := findFunc(f, "", id.Name); h != nil && len(h.Type.Params.List) == 1 && len(h.Type.Params.List[0].Names) == 1 &&
								h.Type.Params.List[0].Names[0].Name == "retryCount" && src(h.Type.Params.List[0].Type) == "uint" {
								bodyList = h.Body.List
								helperForm = true
							}
						}
					}
				}
			}
		}
		if helperForm {
			emitDef(&sb, "utils_backoffTarget (retryCount : BitVec 64) : BitVec 64", t.stmts(bodyList, "  "), rel+" ExponentialBackoffDuration before addJitter (uint/int64 semantics; target computed by a helper)")
			bodyList = nil
		}
		for _, s := range bodyList {
			if a, ok := s.(*ast.AssignStmt); ok && strings.HasPrefix(src(a.Rhs[0]), "addJitter(") {
				if src(a.Rhs[0]) != "addJitter(targetDuration, JitterPercent)" || src(a.Lhs[0]) != "targetDuration" {
					fail("%s: jitter call changed: %s", rel, src(s))
				}
				sawJitter = true
				continue
			}
			if r, ok := s.(*ast.ReturnStmt); ok {
				if !sawJitter || src(r.Results[0]) != "targetDuration" {
					fail("%s: ExponentialBackoffDuration no longer returns the jittered target", rel)
				}
				continue
			}
			pre = append(pre, s)
		}
		var body []string
		if !helperForm {
			body = t.stmts(pre, "  ")
			body = append(body, "  return targetDuration")
			emitDef(&sb, "utils_backoffTarget (retryCount : BitVec 64) : BitVec 64", body, rel+" ExponentialBackoffDuration before addJitter (uint/int64 semantics)")
		}
		aj := mustFunc(f, rel, "", "addJitter")
		want := "{\n\tjitter := 1 - jitterPercent + rand.Float64()*(jitterPercent*2)\n\treturn time.Duration(float64(duration.Nanoseconds())*jitter) * time.Nanosecond\n}"
		if src(aj.Body) != want {
			fail("%s: addJitter body changed; the rational jitter model no longer applies:\n%s", rel, src(aj.Body))
		}

		// parseRequestIDs: which proxy replies to the list call count as failures (the polling loop backs off exactly on those)
		{
			pr := mustFunc(f, rel, "", "parseRequestIDs")
			knownInts["http.StatusOK"] = 200
			tp := &tctx{pkg: "utils", env: collectConsts(f), where: rel + ":parseRequestIDs",
				subst: map[string]string{"response.StatusCode": "status", "len(responseBytes)": "bodyLen"}}
			classify := func(r *ast.ReturnStmt) string {
				if len(r.Results) != 2 {
					tp.bad(r, "return arity")
				}
				if src(r.Results[1]) == "nil" {
					return "false"
				}
				if src(r.Results[0]) == "nil" {
					return "true"
				}
				tp.bad(r, "return shape")
				return ""
			}
			var lines []string
			readErrSeen := false
			done := false
			for _, st := range pr.Body.List {
				switch x := st.(type) {
				case *ast.AssignStmt, *ast.DeclStmt:
					continue
				case *ast.IfStmt:
					if x.Else != nil || len(x.Body.List) != 1 {
						tp.bad(x, "if shape")
					}
					r, ok := x.Body.List[0].(*ast.ReturnStmt)
					if !ok {
						tp.bad(x, "if body")
					}
					cond := ""
					switch {
					case x.Init != nil && strings.Contains(src(x.Init), "json.Unmarshal(responseBytes, &requests)") && src(x.Cond) == "err != nil":
						cond = "jsonErr"
					case x.Init == nil && src(x.Cond) == "err != nil" && !readErrSeen:
						cond = "readErr"
						readErrSeen = true
					case x.Init == nil:
						cond = tp.expr(x.Cond)
					default:
						tp.bad(x, "if initialiser")
					}
					lines = append(lines, "  if "+cond+" then", "    return "+classify(r))
				case *ast.ReturnStmt:
					lines = append(lines, "  return "+classify(x))
					done = true
				default:
					tp.bad(st, "statement")
				}
			}
			if !done {
				fail("%s: parseRequestIDs has no final return", rel)
			}
			emitDef(&sb, "utils_parseRequestIDsFails (readErr : Bool) (status : Int) (bodyLen : Int) (jsonErr : Bool) : Bool", lines, rel+" parseRequestIDs: true = the list call is reported as failed (error returned)")
			lp := src(mustFunc(f, rel, "", "ListPendingRequests").Body)
			for _, need := range []string{"proxyResp, err := client.Do(proxyReq)\n\tif err != nil {\n\t\treturn nil, fmt.Errorf(", "return parseRequestIDs(proxyResp, metricHandler)"} {
				if !strings.Contains(lp, need) {
					fail("%s: ListPendingRequests no longer contains %q", rel, need)
				}
			}
		}

		sk := mustFunc(f, rel, "bufferedReadSeeker", "Seek")
		t = &tctx{pkg: "utils", env: collectConsts(f), ret: "option", where: rel + ":Seek",
			subst: map[string]string{"io.SeekStart": "0", "int64(len(b.buf))": "bufLen", "len(b.buf)": "bufLen", "b.writeHead": "writeHead",
				"int(offset)": "offset", "int64(b.readHead)": "readHead", "b.readHead": "readHead"}}
		body = append([]string{"  let mut readHead := readHead0"}, t.stmts(sk.Body.List, "  ")...)
		emitDef(&sb, "utils_Seek (offset whence : Int) (bufLen writeHead readHead0 : Int) : Option Int", body, rel+" bufferedReadSeeker.Seek: new readHead, or none when refused")
	}

	// 6. agent.forwardRequest header slice; health counter
	{
		rel := "agent/agent.go"
		f := parseFile(rel)
		fd := mustFunc(f, rel, "", "forwardRequest")
		t := &tctx{pkg: "agent", env: collectConsts(f), where: rel + ":forwardRequest",
			hdrVars: map[string]string{"httpRequest.Header": "h", "request.Contents.Header": "h"},
			subst:   map[string]string{"request.User": "requestUser"}}
		sl := t.slice(fd.Body.List)
		body := append([]string{"  let mut h := h0"}, t.stmts(sl, "  ")...)
		body = append(body, "  return h")
		emitDef(&sb, "agent_forwardRequestHeader (forwardUserID stripCredentials : Bool) (requestUser : Bytes) (h0 : Hdr) : Hdr", body, rel+" forwardRequest: header edits (slice)")
		// keepEndToEnd is modelled by hand (Hdr.dropConnOption): its text must be the one that was modelled
		if strings.Contains(src(fd.Body), "keepEndToEnd(") {
			ke := mustFunc(f, rel, "", "keepEndToEnd")
			want := "{\n\tvar kept []string\n\tfor _, value := range header[\"Connection\"] {\n\t\tvar options []string\n\t\tfor _, option := range strings.Split(value, \",\") {\n\t\t\tif !strings.EqualFold(strings.TrimSpace(option), name) {\n\t\t\t\toptions = append(options, option)\n\t\t\t}\n\t\t}\n\t\tif len(options) > 0 {\n\t\t\tkept = append(kept, strings.Join(options, \",\"))\n\t\t}\n\t}\n\tif len(kept) == 0 {\n\t\theader.Del(\"Connection\")\n\t} else {\n\t\theader[\"Connection\"] = kept\n\t}\n}"
			if src(ke.Body) != want {
				fail("%s: keepEndToEnd body changed; the hand model Hdr.dropConnOption no longer applies:\n%s", rel, src(ke.Body))
			}
		}

		rh := mustFunc(f, rel, "", "runHealthChecks")
		t = &tctx{pkg: "agent", env: collectConsts(f), where: rel + ":runHealthChecks",
			subst: map[string]string{"healthCheck() != nil": "failed", "*healthCheckUnhealthy": "threshold"}}
		loop := findStmt(rh, func(s ast.Stmt) bool { _, ok := s.(*ast.RangeStmt); return ok })
		if loop == nil || src(loop.(*ast.RangeStmt).X) != "ticker.C" {
			fail("%s: runHealthChecks no longer loops over ticker.C", rel)
		}
		lb := loop.(*ast.RangeStmt).Body.List
		if len(lb) != 2 {
			fail("%s: runHealthChecks loop body changed (%d statements)", rel, len(lb))
		}
		body = append([]string{"  let mut badHealthChecks := bad0"}, t.stmt(lb[0], "  ")...)
		body = append(body, "  return badHealthChecks")
		emitDef(&sb, "agent_healthCount (failed : Bool) (bad0 : Int) : Int", body, rel+" runHealthChecks: counter update")
		ex, ok := lb[1].(*ast.IfStmt)
		if !ok || !strings.Contains(src(ex.Body), "log.Fatal") {
			fail("%s: runHealthChecks exit test changed", rel)
		}
		fmt.Fprintf(&sb, "/-- %s runHealthChecks: exit test -/\ndef agent_healthExit (badHealthChecks threshold : Int) : Bool := %s\n\n", rel, t.expr(ex.Cond))
		cl := findStmt(rh, func(s ast.Stmt) bool {
			i, ok := s.(*ast.IfStmt)
			return ok && strings.Contains(src(i.Cond), "healthCheckUnhealthy <")
		})
		if cl == nil {
			fmt.Fprintf(&sb, "def agent_healthClamp (threshold : Int) : Int := threshold\n\n")
		} else {
			t.subst["*healthCheckUnhealthy"] = "threshold"
			body = append([]string{"  let mut threshold := threshold0"}, t.stmt(cl, "  ")...)
			body = append(body, "  return threshold")
			emitDef(&sb, "agent_healthClamp (threshold0 : Int) : Int", body, rel+" runHealthChecks: threshold clamp")
		}
	}

	// 6b. agent.pollForNewRequests: the retry counter of the polling loop
	{
		rel := "agent/agent.go"
		f := parseFile(rel)
		fd := mustFunc(f, rel, "", "pollForNewRequests")
		if !strings.Contains(src(fd.Body), "var retryCount uint\n") {
			fail("%s: pollForNewRequests no longer declares `var retryCount uint`", rel)
		}
		is := findStmt(fd, func(s ast.Stmt) bool {
			i, ok := s.(*ast.IfStmt)
			return ok && i.Init != nil && strings.Contains(src(i.Init), "utils.ListPendingRequests(")
		})
		var failBody, succAll []ast.Stmt
		if is != nil {
			ifs := is.(*ast.IfStmt)
			if src(ifs.Cond) != "err != nil" {
				fail("%s: list-call failure test changed: %s", rel, src(ifs.Cond))
			}
			eb, ok := ifs.Else.(*ast.BlockStmt)
			if !ok {
				fail("%s: list-call success branch missing", rel)
			}
			failBody, succAll = ifs.Body.List, eb.List
		} else {
			// the same loop written with an early `continue`:  x, err := List(…); if err != nil { …; continue }; …
			ast.Inspect(fd.Body, func(n ast.Node) bool {
				var list []ast.Stmt
				switch x := n.(type) {
				case *ast.BlockStmt:
					list = x.List
				case *ast.CaseClause:
					list = x.Body
				case *ast.CommClause:
					list = x.Body
				}
				for i := 0; i+1 < len(list) && failBody == nil; i++ {
					a, ok := list[i].(*ast.AssignStmt)
					if !ok || !strings.Contains(src(a), "utils.ListPendingRequests(") {
						continue
					}
					ifs, ok := list[i+1].(*ast.IfStmt)
					if !ok || ifs.Init != nil || ifs.Else != nil || src(ifs.Cond) != "err != nil" || len(ifs.Body.List) == 0 {
						continue
					}
					if br, ok := ifs.Body.List[len(ifs.Body.List)-1].(*ast.BranchStmt); !ok || br.Tok != token.CONTINUE || br.Label != nil {
						continue
					}
					failBody = ifs.Body.List[:len(ifs.Body.List)-1]
					succAll = list[i+2:]
				}
				return failBody == nil
			})
			if failBody == nil {
				fail("%s: list call not found in pollForNewRequests", rel)
			}
		}
		var succ []ast.Stmt
		for _, s := range succAll {
			if _, ok := s.(*ast.RangeStmt); ok {
				continue // the dedup loop is modelled in Model/Dedup
			}
			succ = append(succ, s)
		}
		t := &tctx{pkg: "agent", env: collectConsts(f), bv: true, where: rel + ":pollForNewRequests",
			stmtSub: map[string]string{"time.Sleep(utils.ExponentialBackoffDuration(retryCount))": "slept := some retryCount"}}
		body := []string{"  let mut retryCount := retryCount0", "  let mut slept : Option (BitVec 64) := none", "  if failed then"}
		body = append(body, t.stmts(failBody, "    ")...)
		body = append(body, "  else")
		sb2 := t.stmts(succ, "    ")
		if len(sb2) == 0 {
			sb2 = []string{"    pure ()"}
		}
		body = append(body, sb2...)
		body = append(body, "  return (slept, retryCount)")
		emitDef(&sb, "agent_pollRetryStep (failed : Bool) (retryCount0 : BitVec 64) : Option (BitVec 64) × BitVec 64", body, rel+" pollForNewRequests: sleep and retry counter per list call")
	}

	// 6c. websockets.stripWSHeader
	{
		rel := "agent/websockets/connection.go"
		f := parseFile(rel)
		fd := mustFunc(f, rel, "", "stripWSHeader")
		t := &tctx{pkg: "websockets", env: collectConsts(f), ret: "value", where: rel + ":stripWSHeader",
			tables:  map[string]string{"stripHeaderNames": "websockets_stripHeaderNames"},
			hdrVars: map[string]string{"result": "result"}}
		var body []string
		for _, s := range fd.Body.List {
			if a, ok := s.(*ast.AssignStmt); ok && src(a.Lhs[0]) == "result" {
				if src(a.Rhs[0]) != "http.Header{}" {
					fail("%s: stripWSHeader no longer starts from an empty header", rel)
				}
				body = append(body, "  let mut result : Hdr := []")
				continue
			}
			body = append(body, t.stmt(s, "  ")...)
		}
		emitDef(&sb, "websockets_stripWSHeader (header : Hdr) : Hdr", body, rel+" stripWSHeader")
	}

	// 6d. websockets shim open: how the dial target is derived from the client-supplied URL
	{
		rel := "agent/websockets/shim.go"
		f := parseFile(rel)
		fd := mustFunc(f, rel, "", "createShimChannel")
		if !strings.Contains(src(fd), "targetURL := *(r.URL)") && !strings.Contains(src(fd), "targetURL := *r.URL") {
			fail("%s: the open handler no longer starts from a copy of r.URL", rel)
		}
		if !strings.Contains(src(fd), "NewConnection(ctx, targetURL.String(), r.Header") {
			fail("%s: the open handler no longer dials targetURL.String()", rel)
		}
		var upd []string
		seen := map[string]bool{}
		ast.Inspect(fd, func(n ast.Node) bool {
			a, ok := n.(*ast.AssignStmt)
			if !ok || a.Tok != token.ASSIGN || len(a.Lhs) != 1 {
				return true
			}
			se, ok := a.Lhs[0].(*ast.SelectorExpr)
			if !ok || src(se.X) != "targetURL" {
				return true
			}
			var rhs string
			switch v := src(a.Rhs[0]); {
			case v == "host":
				rhs = "host"
			case v == "nil":
				rhs = "none"
			case v == "false":
				rhs = "false"
			default:
				str, ok := evalString(constEnv{}, a.Rhs[0])
				if !ok {
					fail("%s: unsupported assignment to targetURL.%s: %s", rel, se.Sel.Name, v)
				}
				rhs = bytesLit(str)
			}
			if seen[se.Sel.Name] {
				fail("%s: targetURL.%s assigned twice", rel, se.Sel.Name)
			}
			seen[se.Sel.Name] = true
			upd = append(upd, se.Sel.Name+" := "+rhs)
			return true
		})
		if len(upd) == 0 {
			fail("%s: no assignment to targetURL found", rel)
		}
		fmt.Fprintf(&sb, "/-- %s createShimChannel (open handler): fields of the copied request URL that are overwritten before dialling -/\ndef websockets_rewriteTarget (host : Bytes) (u : WsUrl) : WsUrl := { u with %s }\n\n", rel, strings.Join(upd, ", "))
	}

	// 6e. sessions: attributes of the session cookie literal; Set-Cookie handling of the response writer
	{
		rel := "agent/sessions/sessions.go"
		f := parseFile(rel)
		fd := mustFunc(f, rel, "sessionResponseWriter", "WriteHeader")
		var lit *ast.CompositeLit
		ast.Inspect(fd, func(n ast.Node) bool {
			if cl, ok := n.(*ast.CompositeLit); ok && src(cl.Type) == "http.Cookie" {
				lit = cl
			}
			return true
		})
		if lit == nil {
			fail("%s: session cookie literal not found", rel)
		}
		fields := map[string]string{}
		for _, el := range lit.Elts {
			kv := el.(*ast.KeyValueExpr)
			fields[src(kv.Key)] = src(kv.Value)
		}
		for _, k := range []string{"Name", "Value", "Path", "Secure", "HttpOnly", "Expires"} {
			if _, ok := fields[k]; !ok {
				fail("%s: session cookie literal has no %s field", rel, k)
			}
		}
		for k := range fields {
			switch k {
			case "Name", "Value", "Path", "Secure", "HttpOnly", "Expires":
			default:
				fail("%s: session cookie literal has an unexpected field %s", rel, k)
			}
		}
		if fields["Name"] != "w.c.sessionCookieName" || fields["Value"] != "w.sessionID" || fields["Expires"] != "time.Now().Add(w.c.sessionCookieTimeout)" {
			fail("%s: session cookie Name/Value/Expires changed: %v", rel, fields)
		}
		t := &tctx{pkg: "sessions", env: collectConsts(f), where: rel + ":session cookie", subst: map[string]string{"w.c.disableSSLForTest": "disableSSLForTest"}}
		var pathE, secE, httpE ast.Expr
		for _, el := range lit.Elts {
			kv := el.(*ast.KeyValueExpr)
			switch src(kv.Key) {
			case "Path":
				pathE = kv.Value
			case "Secure":
				secE = kv.Value
			case "HttpOnly":
				httpE = kv.Value
			}
		}
		fmt.Fprintf(&sb, "/-- %s sessionResponseWriter.WriteHeader: (Path, Secure, HttpOnly) of the session cookie; Name = configured name, Value = session ID, Expires = now + configured lifetime (checked syntactically by goextract) -/\ndef sessions_cookieAttrs (disableSSLForTest : Bool) : Bytes × Bool × Bool := (%s, %s, %s)\n\n", rel, t.expr(pathE), t.expr(secE), t.expr(httpE))
		// the header edits of WriteHeader as a function (slice: header operations and the ifs guarding them)
		// the cookie may be built in place (or by a helper that the inliner has expanded): `(&http.Cookie{…}).String()` is the session cookie too
		cookieExprs := map[string]string{}
		ast.Inspect(fd, func(n ast.Node) bool {
			if c, ok := n.(*ast.CallExpr); ok {
				if se, ok := c.Fun.(*ast.SelectorExpr); ok && se.Sel.Name == "String" && len(c.Args) == 0 && strings.Contains(src(se.X), "&http.Cookie{") && strings.Count(src(se.X), "http.Cookie{") == 1 {
					cookieExprs[src(c)] = "sessionCookie"
				}
			}
			return true
		})
		ts := &tctx{pkg: "sessions", env: collectConsts(f), where: rel + ":sessionResponseWriter.WriteHeader (header slice)", ret: "var:header",
			sliceAllow: []string{"header := w.Header()", "cookiesToAdd := (&http.Response{Header: header}).Cookies()"},
			hdrVars:    map[string]string{"header": "header"},
			subst:      map[string]string{"w.sessionID == \"\"": "noSession", "sessionCookie.String()": "sessionCookie", "len(cookiesToAdd)": "parsedCookies", "w.wroteHeader": "wroteHeader"}}
		knownInts["http.StatusSwitchingProtocols"] = 101
		for k, v := range cookieExprs {
			ts.subst[k] = v
		}
		sl := ts.slice(fd.Body.List)
		if len(sl) > 0 {
			if _, ok := sl[len(sl)-1].(*ast.ReturnStmt); ok {
				sl = sl[:len(sl)-1]
			}
		}
		hb := append([]string{"  let mut header := header0"}, ts.stmts(sl, "  ")...)
		hb = append(hb, "  return header")
		emitDef(&sb, "sessions_writeHeaderEdits (wroteHeader : Bool) (statusCode : Int) (noSession : Bool) (sessionCookie : Bytes) (parsedCookies : Nat) (header0 : Hdr) : Hdr", hb, rel+" sessionResponseWriter.WriteHeader: edits of the response header, with the early exits that decide them (slice)")
		// the header is marked as written exactly when the call is not an interim one: `w.wroteHeader = true` follows the interim exit
		{
			idxInterim, idxMark := -1, -1
			for i, st := range fd.Body.List {
				if is, ok := st.(*ast.IfStmt); ok && strings.Contains(src(is.Cond), "statusCode >= 100") {
					idxInterim = i
				}
				if src(st) == "w.wroteHeader = true" {
					idxMark = i
				}
			}
			fmt.Fprintf(&sb, "/-- %s sessionResponseWriter.WriteHeader: `w.wroteHeader = true` is a top-level statement placed after the interim (1xx) exit -/\ndef sessions_marksWrittenAfterInterimExit : Bool := %v\n\n", rel, idxInterim >= 0 && idxMark > idxInterim)
		}
		// the writer deletes every Set-Cookie and adds only the session cookie
		body := src(fd.Body)
		addOK := false
		ast.Inspect(fd, func(n ast.Node) bool {
			if c, ok := n.(*ast.CallExpr); ok && src(c.Fun) == "header.Add" && len(c.Args) == 2 && src(c.Args[0]) == "\"Set-Cookie\"" {
				if _, isCookie := cookieExprs[src(c.Args[1])]; isCookie || src(c.Args[1]) == "sessionCookie.String()" {
					addOK = true
				}
			}
			return true
		})
		if !addOK {
			fail("%s: sessionResponseWriter.WriteHeader no longer adds the session cookie with header.Add(\"Set-Cookie\", <cookie>.String())", rel)
		}
		for _, need := range []string{"header.Del(\"Set-Cookie\")", "if w.sessionID == \"\" {"} {
			if !strings.Contains(body, need) {
				fail("%s: sessionResponseWriter.WriteHeader no longer contains %s", rel, need)
			}
		}
		if strings.Count(body, "header.Add(") != 1 || strings.Count(body, "header.Set(") != 0 {
			fail("%s: sessionResponseWriter.WriteHeader adds other header fields", rel)
		}
	}

	// 7. tcpbridge routing predicate
	{
		rel := "utils/tcpbridge/connection/connection.go"
		f := parseFile(rel)
		fd := mustFunc(f, rel, "", "Handler")
		first := findStmt(fd, func(s ast.Stmt) bool {
			i, ok := s.(*ast.IfStmt)
			return ok && strings.Contains(src(i.Body), "passthroughHandler.ServeHTTP")
		})
		if first == nil {
			fail("%s: passthrough test not found in Handler", rel)
		}
		t := &tctx{pkg: "connection", env: collectConsts(f), where: rel + ":Handler",
			subst: map[string]string{"websocket.IsWebSocketUpgrade(r)": "isUpgrade", "r.URL.Path": "path"}}
		fmt.Fprintf(&sb, "/-- %s Handler: requests that are passed through rather than bridged -/\ndef connection_isPassthrough (isUpgrade : Bool) (path : Bytes) : Bool := %s\n\n", rel, t.expr(first.(*ast.IfStmt).Cond))
	}

	// 8. streamingResponseWriter loops
	{
		rel := "agent/utils/utils.go"
		f := parseFile(rel)
		wh := mustFunc(f, rel, "streamingResponseWriter", "WriteHeader")
		t := &tctx{pkg: "utils", env: collectConsts(f), where: rel + ":streamingResponseWriter.WriteHeader",
			tables:  map[string]string{"hopHeaders": "utils_hopHeaders"},
			hdrVars: map[string]string{"w.trailer": "trailer", "header": "header"},
			subst:   map[string]string{"w.Header()": "wHeader"}}
		var loops []*ast.RangeStmt
		for _, s := range wh.Body.List {
			if r, ok := s.(*ast.RangeStmt); ok {
				loops = append(loops, r)
			}
		}
		var keep []*ast.RangeStmt
		for _, l := range loops {
			if src(l.X) == "w.trailer" {
				// `for k := range w.trailer { respTrailer[k] = nil }`: the response's own trailer map starts with the declared keys
				if strings.TrimSpace(src(l.Body)) != "{\n\trespTrailer[k] = nil\n}" {
					fail("%s: unexpected loop over w.trailer in WriteHeader: %s", rel, src(l.Body))
				}
				continue
			}
			keep = append(keep, l)
		}
		loops = keep
		if len(loops) != 2 {
			fail("%s: WriteHeader no longer has exactly two header loops (%d)", rel, len(loops))
		}
		body := append([]string{"  let mut trailer : Hdr := []"}, t.stmt(loops[0], "  ")...)
		body = append(body, "  return trailer")
		emitDef(&sb, "utils_srwDeclareTrailers (wHeader : Hdr) : Hdr", body, rel+" streamingResponseWriter.WriteHeader: pre-declared trailers")
		body = append([]string{"  let mut header : Hdr := []"}, t.stmt(loops[1], "  ")...)
		body = append(body, "  return header")
		emitDef(&sb, "utils_srwFilterHeader (wHeader : Hdr) : Hdr", body, rel+" streamingResponseWriter.WriteHeader: hop-by-hop filter")

		// which status codes WriteHeader ignores (interim responses), and whether the response
		// handed to the serialising goroutine shares maps with the handler
		ign := "false"
		for _, st := range wh.Body.List {
			is, ok := st.(*ast.IfStmt)
			if !ok || is.Init != nil || len(is.Body.List) != 1 {
				continue
			}
			if _, ok := is.Body.List[0].(*ast.ReturnStmt); ok && strings.Contains(src(is.Cond), "status") {
				ti := &tctx{pkg: "utils", env: collectConsts(f), where: rel + ":WriteHeader status test"}
				knownInts["http.StatusSwitchingProtocols"] = 101
				ign = ti.expr(is.Cond)
			}
		}
		fmt.Fprintf(&sb, "/-- %s streamingResponseWriter.WriteHeader: status codes that are ignored (not taken as the response status) -/\ndef utils_srwIgnoresStatus (status : Int) : Bool := %s\n\n", rel, ign)
		aliased, shared := false, false
		ast.Inspect(wh, func(n ast.Node) bool {
			switch x := n.(type) {
			case *ast.AssignStmt:
				if len(x.Lhs) == 1 && src(x.Lhs[0]) == "w.header" {
					aliased = true
				}
			case *ast.CompositeLit:
				if src(x.Type) == "http.Response" {
					for _, el := range x.Elts {
						kv := el.(*ast.KeyValueExpr)
						v := src(kv.Value)
						if src(kv.Key) == "Header" && (v == "w.header" || v == "w.Header()") {
							aliased = true
						}
						if src(kv.Key) == "Trailer" && v == "w.trailer" {
							shared = true
						}
					}
				}
			}
			return true
		})
		fmt.Fprintf(&sb, "/-- %s: is the header map of the streamed response the map that Header() keeps returning to the handler? -/\ndef utils_srwHeaderAliased : Bool := %v\n", rel, aliased)
		fmt.Fprintf(&sb, "/-- %s: is the trailer map of the streamed response the map that Close mutates? -/\ndef utils_srwTrailerShared : Bool := %v\n\n", rel, shared)

		cl := mustFunc(f, rel, "streamingResponseWriter", "Close")
		loops = nil
		for _, s := range cl.Body.List {
			if r, ok := s.(*ast.RangeStmt); ok {
				loops = append(loops, r)
			}
		}
		if len(loops) != 2 {
			fail("%s: Close no longer has exactly two range loops (%d)", rel, len(loops))
		}
		t.where = rel + ":streamingResponseWriter.Close"
		body = append([]string{"  let mut trailer := trailer0"}, t.stmt(loops[0], "  ")...)
		for i := range body {
			body[i] = strings.Replace(body[i], " in trailer do", " in trailer0 do", 1)
		}
		body = append(body, t.stmt(loops[1], "  ")...)
		body = append(body, "  return trailer")
		emitDef(&sb, "utils_srwCollectTrailers (wHeader : Hdr) (trailer0 : Hdr) : Hdr", body, rel+" streamingResponseWriter.Close: trailer collection")
	}

	sb.WriteString("end InvProxy.Gen\n")
	return sb.String()
}
