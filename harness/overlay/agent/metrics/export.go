//go:build verif

package metrics

import (
	"context"

	gax "github.com/googleapis/gax-go/v2"
	monitoringpb "google.golang.org/genproto/googleapis/monitoring/v3"
)

// Exports for the verification drivers (injected by `go build -overlay`; not part of the repo).

type verifNopClient struct{}

func (verifNopClient) CreateTimeSeries(ctx context.Context, req *monitoringpb.CreateTimeSeriesRequest, opts ...gax.CallOption) error {
	return nil
}

// VerifNewHandler builds a real MetricHandler whose monitoring client discards what it is given.
func VerifNewHandler() (*MetricHandler, error) {
	return newMetricHandlerHelper(context.Background(), "verif-project", "gce_instance", "instance-id=1,instance-zone=z", "verif.example", verifNopClient{})
}

// VerifEmit runs what the handler's ticker runs once per sample period.
func VerifEmit(h *MetricHandler) { h.emitResponseCodeMetric() }
