//go:build verif

package main

import (
	"context"
	"encoding/json"
	"fmt"
	"io"
	"net/http"
	"net/http/httptest"
	"strings"
	"sync"
	"time"

	"github.com/gorilla/websocket"

	"github.com/google/inverting-proxy/agent/sessions"
	"github.com/google/inverting-proxy/zz_verif/vh"
)

var _ = reg("sessinject", suiteSessInject)

// suiteSessInject (C10): session tracking together with the websocket shim and header injection, through the real
// handler chain of hostProxy.  Whatever reaches the backend for a session - HTTP requests, the websocket handshake,
// and the request headers that the shim copies into JSON messages - carries the session's backend cookies and the
// client's own cookies, never the agent's session cookie.
func suiteSessInject(e *vh.Env) {
	e.Result.Rule = "sessions + websocket shim + header injection through the real hostProxy chain: a client obtains a session (backend sets cookies), opens a shimmed websocket and posts JSON messages with resource.headers; observed at the backend: Cookie header of plain requests, of the websocket handshake, and the Cookie entry injected into each message; oracle: the session cookie (name or value) never appears, the session's backend cookie and the client's own cookie do; non-trivial = every case (all carry the session cookie on the data request)"
	const sessName = "verif-session"
	var mu sync.Mutex
	var plainCookies, handshakeCookies []string
	var messages []string
	up := websocket.Upgrader{}
	backend := httptest.NewServer(http.HandlerFunc(func(w http.ResponseWriter, r *http.Request) {
		if websocket.IsWebSocketUpgrade(r) {
			mu.Lock()
			handshakeCookies = append(handshakeCookies, strings.Join(r.Header["Cookie"], "; "))
			mu.Unlock()
			c, err := up.Upgrade(w, r, nil)
			if err != nil {
				return
			}
			defer c.Close()
			for {
				_, b, err := c.ReadMessage()
				if err != nil {
					return
				}
				mu.Lock()
				messages = append(messages, string(b))
				mu.Unlock()
			}
		}
		mu.Lock()
		plainCookies = append(plainCookies, strings.Join(r.Header["Cookie"], "; "))
		mu.Unlock()
		if r.URL.Path == "/login" {
			http.SetCookie(w, &http.Cookie{Name: "backend", Value: "b-" + r.URL.Query().Get("k"), Path: "/"})
		}
		io.WriteString(w, "ok")
	}))
	defer backend.Close()
	backendHost := strings.TrimPrefix(backend.URL, "http://")

	n := e.N(12, 300)
	for i := 0; i < n; i++ {
		if !e.Want(i) {
			continue
		}
		rng := e.Rng.Sub(i)
		inject := i%4 != 3 // mostly with injection; every fourth case without (nothing may be injected then)
		sessionLRU = sessions.NewCache(sessName, time.Hour, 10, true)
		*shimWebsockets, *enableWebsocketsInjection = true, inject
		ctx, cancel := context.WithCancel(context.Background())
		chain, err := hostProxy(ctx, backendHost, "shimpath", false, false)
		if err != nil {
			panic(err)
		}
		mu.Lock()
		plainCookies, handshakeCookies, messages = nil, nil, nil
		mu.Unlock()
		do := func(method, path, cookie, body string) *httptest.ResponseRecorder {
			req := httptest.NewRequest(method, "http://agent.example"+path, strings.NewReader(body))
			if cookie != "" {
				req.Header.Set("Cookie", cookie)
			}
			req.Header.Set("X-Own", "own-header")
			rw := httptest.NewRecorder()
			chain.ServeHTTP(rw, req)
			return rw
		}
		// 1. obtain a session; the backend sets a cookie
		k := fmt.Sprint(i)
		r1 := do("GET", "/login?k="+k, "", "")
		var sid string
		for _, c := range r1.Result().Cookies() {
			if c.Name == sessName {
				sid = c.Value
			}
		}
		what := fmt.Sprintf("case %d (injection %v)", i, inject)
		if sid == "" {
			e.Fail("C10:no-session-issued", what+": the first response carried no session cookie", i, nil, nil, nil)
			cancel()
			continue
		}
		own := rng.Pick([]string{"own=1", "theme=dark", "a=b; c=d"})
		cookie := rng.Pick([]string{sessName + "=" + sid + "; " + own, own + "; " + sessName + "=" + sid})
		// 2. a plain request in the session
		do("GET", "/page", cookie, "")
		// 3. open a shimmed websocket in the session
		r3 := do("POST", "/shimpath/open", cookie, "ws://agent.example/ws?x=1")
		var opened struct {
			ID string `json:"id"`
		}
		json.Unmarshal(r3.Body.Bytes(), &opened)
		if r3.Code != 200 || opened.ID == "" {
			e.Fail("C10:shim-open-failed", fmt.Sprintf("%s: open answered %d %q", what, r3.Code, r3.Body.String()), i, nil, nil, nil)
			cancel()
			continue
		}
		// 4. post messages; the shim copies the data request's headers into resource.headers
		msgs := []string{`{"resource":{"headers":{}},"n":1}`, `{"resource":{"headers":{"X-Given":"g"}},"n":2}`, `{"plain":true}`}
		var batch []map[string]interface{}
		for _, m := range msgs {
			batch = append(batch, map[string]interface{}{"id": opened.ID, "msg": m})
		}
		bb, _ := json.Marshal(batch)
		r4 := do("POST", "/shimpath/data", cookie, string(bb))
		if r4.Code != 200 {
			e.Fail("C10:shim-data-failed", fmt.Sprintf("%s: data answered %d %q", what, r4.Code, r4.Body.String()), i, nil, nil, nil)
		}
		deadline := time.Now().Add(3 * time.Second)
		for time.Now().Before(deadline) {
			mu.Lock()
			got := len(messages)
			mu.Unlock()
			if got >= len(msgs) {
				break
			}
			time.Sleep(5 * time.Millisecond)
		}
		do("POST", "/shimpath/close", cookie, fmt.Sprintf(`{"id":%q}`, opened.ID))
		mu.Lock()
		pc, hc, ms := append([]string(nil), plainCookies...), append([]string(nil), handshakeCookies...), append([]string(nil), messages...)
		mu.Unlock()
		leak := func(where, s string) {
			if strings.Contains(s, sid) || strings.Contains(s, sessName) {
				e.Fail("C10:session-cookie-reached-backend:"+where, fmt.Sprintf("%s: the agent's session cookie reached the backend in %s: %q (client sent Cookie %q)", what, where, truncStr(s, 300), cookie), i, nil, nil, nil)
			}
		}
		for _, c := range pc {
			leak("a plain request", c)
		}
		for _, c := range hc {
			leak("the websocket handshake", c)
		}
		if len(ms) != len(msgs) {
			e.Fail("C10:shim-messages-lost", fmt.Sprintf("%s: backend received %d of %d messages", what, len(ms), len(msgs)), i, nil, len(ms), len(msgs))
		}
		for j, m := range ms {
			leak("a websocket message", m)
			if j < 2 && inject {
				// the injected Cookie entry is what the backend would see on a request of this session
				var v struct {
					Resource struct {
						Headers map[string]string `json:"headers"`
					} `json:"resource"`
				}
				json.Unmarshal([]byte(m), &v)
				if c := v.Resource.Headers["Cookie"]; !strings.Contains(c, "backend=b-"+k) || !strings.Contains(c, strings.Split(own, ";")[0]) {
					e.Fail("C10:backend-cookies-wrong:injected-headers", fmt.Sprintf("%s: message %d carries Cookie %q; the session holds backend=b-%s and the client sent %q", what, j, c, k, own), i, nil, c, nil)
				}
			}
		}
		if len(pc) >= 2 && (!strings.Contains(pc[1], "backend=b-"+k) || !strings.Contains(pc[1], strings.Split(own, ";")[0])) {
			e.Fail("C10:backend-cookies-wrong", fmt.Sprintf("%s: plain request in the session reached the backend with Cookie %q", what, pc[1]), i, nil, pc[1], nil)
		}
		cancel()
		sessionLRU = nil
		e.Eval(fmt.Sprintf("%d|%v|%s", i, inject, cookie[:3]), true)
		e.Count(fmt.Sprintf("injection=%v", inject))
		if i < 2 {
			e.Sample(map[string]interface{}{"injection": inject, "client_cookie": strings.Replace(cookie, sid, "<session id>", 1), "backend_saw_plain": pc, "backend_saw_handshake": hc, "backend_saw_messages": ms})
		}
	}
	*enableWebsocketsInjection = false
	sessTwoHosts(e, backendHost, sessName, &mu, &handshakeCookies, n)
}

// sessTwoHosts: one session holds cookies for two hosts; a shimmed websocket is opened on one host with a target URL
// that names the other.  The cookies sent with the handshake are those of the host the request was addressed to
// (the URL in the open body contributes path and query only).
func sessTwoHosts(e *vh.Env, backendHost, sessName string, mu *sync.Mutex, handshakeCookies *[]string, base int) {
	if !e.Want(base) {
		return
	}
	sessionLRU = sessions.NewCache(sessName, time.Hour, 10, true)
	*shimWebsockets, *enableWebsocketsInjection = true, false
	ctx, cancel := context.WithCancel(context.Background())
	defer cancel()
	chain, err := hostProxy(ctx, backendHost, "shimpath", false, false)
	if err != nil {
		panic(err)
	}
	do := func(host, method, path, cookie, body string) *httptest.ResponseRecorder {
		req := httptest.NewRequest(method, "http://"+host+path, strings.NewReader(body))
		req.Host = host
		if cookie != "" {
			req.Header.Set("Cookie", cookie)
		}
		rw := httptest.NewRecorder()
		chain.ServeHTTP(rw, req)
		return rw
	}
	r1 := do("a.example", "GET", "/login?k=on-a", "", "")
	sid := ""
	for _, c := range r1.Result().Cookies() {
		if c.Name == sessName {
			sid = c.Value
		}
	}
	if sid == "" {
		e.Fail("C10:no-session-issued", "two-host scenario: no session cookie", base, nil, nil, nil)
		return
	}
	ck := sessName + "=" + sid
	do("b.example", "GET", "/login?k=on-b", ck, "")
	for _, tc := range []struct{ host, target, want, not string }{
		{"a.example", "wss://b.example/ws?x=1", "backend=b-on-a", "backend=b-on-b"},
		{"b.example", "ws://a.example:8080/ws", "backend=b-on-b", "backend=b-on-a"},
		{"a.example", "/ws", "backend=b-on-a", "backend=b-on-b"},
	} {
		mu.Lock()
		*handshakeCookies = nil
		mu.Unlock()
		r := do(tc.host, "POST", "/shimpath/open", ck, tc.target)
		var opened struct {
			ID string `json:"id"`
		}
		json.Unmarshal(r.Body.Bytes(), &opened)
		mu.Lock()
		hc := append([]string(nil), (*handshakeCookies)...)
		mu.Unlock()
		if r.Code != 200 || len(hc) != 1 {
			e.Fail("C10:shim-open-failed", fmt.Sprintf("two-host scenario: open on %s with target %q answered %d, handshakes %d", tc.host, tc.target, r.Code, len(hc)), base, nil, nil, nil)
			continue
		}
		if !strings.Contains(hc[0], tc.want) || strings.Contains(hc[0], tc.not) || strings.Contains(hc[0], sid) {
			e.Fail("C10:backend-cookies-wrong:shim-open-other-host", fmt.Sprintf("one session holds backend=b-on-a for a.example and backend=b-on-b for b.example; a shim open addressed to %s with target URL %q reached the backend with Cookie %q (want %s only)", tc.host, tc.target, hc[0], tc.want), base, nil, hc[0], tc.want)
		}
		do(tc.host, "POST", "/shimpath/close", ck, fmt.Sprintf(`{"id":%q}`, opened.ID))
		e.Eval("two-hosts:"+tc.host+tc.target, true)
	}
	sessionLRU = nil
	e.Count("session-with-two-hosts")
}

func truncStr(s string, n int) string {
	if len(s) > n {
		return s[:n] + "…"
	}
	return s
}
