//go:build verif

package main

import (
	"context"
	"fmt"
	"io/ioutil"
	"net/http"
	"strings"
	"sync"
	"time"

	"github.com/google/inverting-proxy/agent/utils"
	"github.com/google/inverting-proxy/zz_verif/vh"
)

var _ = reg("pollfail", suitePollFail)

// failingProxy answers every list call with one scripted kind of failure and counts the calls.
type failingProxy struct {
	mu    sync.Mutex
	kind  string
	calls []time.Time
	seq   []string // if set: the kind of the n-th call (the last entry repeats)
}

func (p *failingProxy) RoundTrip(r *http.Request) (*http.Response, error) {
	p.mu.Lock()
	p.calls = append(p.calls, time.Now())
	kind := p.kind
	if len(p.seq) > 0 {
		k := len(p.calls) - 1
		if k >= len(p.seq) {
			k = len(p.seq) - 1
		}
		kind = p.seq[k]
	}
	p.mu.Unlock()
	mk := func(code int, body string) (*http.Response, error) {
		return &http.Response{StatusCode: code, Status: http.StatusText(code), Proto: "HTTP/1.1", ProtoMajor: 1, ProtoMinor: 1, Header: http.Header{},
			Body: ioutil.NopCloser(strings.NewReader(body)), ContentLength: int64(len(body)), Request: r}, nil
	}
	switch kind {
	case "conn-error":
		return nil, fmt.Errorf("dial tcp: connection refused")
	case "timeout":
		return nil, timeoutErr{}
	case "500-body":
		return mk(500, "whoops")
	case "503-empty":
		return mk(503, "")
	case "502-empty":
		return mk(502, "")
	case "404-json":
		return mk(404, "[]")
	case "401-empty":
		return mk(401, "")
	case "200-garbage":
		return mk(200, "<html>not json</html>")
	case "200-object":
		return mk(200, "{\"a\":1}")
	case "200-empty-list":
		return mk(200, "[]")
	case "200-empty-body":
		return mk(200, "")
	}
	return mk(500, "?")
}

// timeoutErr: what a list call ends in when the proxy hangs or is unreachable (net.Error with Timeout() true).
type timeoutErr struct{}

func (timeoutErr) Error() string   { return "i/o timeout" }
func (timeoutErr) Timeout() bool   { return true }
func (timeoutErr) Temporary() bool { return true }

// suitePollFail (C08): the real polling loop against a proxy that keeps failing in one way.
// Delays double from about 1 ms, so a window of W ms holds about log2(W) list calls; a loop that
// treats the failure as a success (or sleeps nothing) makes thousands.
func suitePollFail(e *vh.Env) {
	e.Result.Rule = "the real pollForNewRequests loop for a 500 ms window against a proxy whose list endpoint fails in one fixed way (connection error, 500 with body, 502/503/401 with an empty body, 404 with a JSON body, 200 with a non-JSON or non-list body); the number of list calls must stay within the doubling schedule (at most 14) and every gap after the third call must be at least 1 ms; non-trivial = every failure kind"
	*proxy = "http://proxy.invalid/"
	kinds := []string{"conn-error", "timeout", "500-body", "503-empty", "502-empty", "404-json", "401-empty", "200-garbage", "200-object"}
	for i, kind := range kinds {
		if !e.Want(i) {
			continue
		}
		fp := &failingProxy{kind: kind}
		client := &http.Client{Transport: fp}
		// the back-off schedule does not depend on other settings: run with the default -proxy-timeout, with 0 ("no
		// timeout", legal for http.Client) and with a short one
		savedTimeout := *proxyTimeout
		*proxyTimeout = []time.Duration{60 * time.Second, 0, 40 * time.Millisecond}[i%3]
		kind = fmt.Sprintf("%s (proxy-timeout %v)", kind, *proxyTimeout)
		// the classification first, on a single call
		_, err := utils.ListPendingRequests(client, *proxy, "backend-1", nil)
		if err == nil {
			e.Fail("C08:failure-reported-as-success", fmt.Sprintf("list call answered with %s: ListPendingRequests returned no error, so the polling loop will not back off", kind), i, nil, nil, nil)
		}
		fp.mu.Lock()
		fp.calls = nil
		fp.mu.Unlock()
		ctx, cancel := context.WithCancel(context.Background())
		done := make(chan struct{})
		go func() {
			pollForNewRequests(ctx, client, http.NotFoundHandler(), "backend-1")
			close(done)
		}()
		time.Sleep(500 * time.Millisecond)
		fp.mu.Lock()
		calls := append([]time.Time(nil), fp.calls...)
		fp.mu.Unlock()
		cancel()
		select {
		case <-done:
		case <-time.After(8 * time.Second):
			e.Fail("C08:poll-loop-does-not-stop", "pollForNewRequests did not return within 8 s of cancellation ("+kind+")", i, nil, nil, nil)
		}
		if len(calls) > 14 {
			e.Fail("C08:busy-loop", fmt.Sprintf("proxy failing with %s: %d list calls in 500 ms (the doubling schedule allows about 10)", kind, len(calls)), i, nil, len(calls), 14)
		}
		if len(calls) < 5 {
			e.Fail("C08:too-few-polls", fmt.Sprintf("proxy failing with %s: only %d list calls in 500 ms (delays must start at about 1 ms)", kind, len(calls)), i, nil, len(calls), 5)
		}
		for k := 4; k < len(calls) && k < 14; k++ {
			gap := calls[k].Sub(calls[k-1])
			want := time.Duration(float64(time.Millisecond) * float64(int(1)<<uint(k-1)) * 0.85)
			if gap < want {
				e.Fail("C08:delay-too-short", fmt.Sprintf("proxy failing with %s: gap before list call %d was %v, the schedule gives at least %v", kind, k+1, gap, want), i, nil, gap.String(), want.String())
				break
			}
		}
		*proxyTimeout = savedTimeout
		e.Eval(kind, true)
		e.Count(kind)
		e.Sample(map[string]interface{}{"failure": kind, "list_calls_in_500ms": len(calls)})
	}
	// the doubling goes on until the 3 s cap is reached (thorough tier: it takes 4 s of failures to get there)
	if e.Thorough() && e.Want(900) {
		fp := &failingProxy{kind: "500-body"}
		client := &http.Client{Transport: fp}
		ctx, cancel := context.WithCancel(context.Background())
		done := make(chan struct{})
		go func() {
			pollForNewRequests(ctx, client, http.NotFoundHandler(), "backend-1")
			close(done)
		}()
		time.Sleep(11 * time.Second)
		fp.mu.Lock()
		calls := append([]time.Time(nil), fp.calls...)
		fp.mu.Unlock()
		cancel()
		<-done
		for k := 13; k < len(calls); k++ {
			if gap := calls[k].Sub(calls[k-1]); gap < 2600*time.Millisecond || gap > 3500*time.Millisecond {
				e.Fail("C08:delay-off-the-cap", fmt.Sprintf("proxy failing for 11 s: the gap before list call %d was %v; after twelve doublings the delay is the 3 s cap (within 10%%)", k+1, gap), 900, nil, gap.String(), "about 3s")
				break
			}
		}
		if len(calls) < 14 {
			e.Fail("C08:too-few-polls", fmt.Sprintf("only %d list calls in 11 s of failures", len(calls)), 900, nil, len(calls), 14)
		}
		e.Eval("reaches-the-cap", true)
		e.Count("eleven-seconds-of-failures")
	}
	// "returns to the shortest delay after the first success": k failures, one success (an idle answer: empty list or
	// empty body), then failures again - the first delay after the success must be the shortest one again
	for j, succ := range []string{"200-empty-list", "200-empty-body"} {
		idx := len(kinds) + j
		if !e.Want(idx) {
			continue
		}
		k := 7 + j // delays 1, 2, 4, ... 2^(k-1) ms before the success
		var seq []string
		for i := 0; i < k; i++ {
			seq = append(seq, "500-body")
		}
		seq = append(seq, succ, "500-body", "500-body")
		fp := &failingProxy{seq: seq}
		client := &http.Client{Transport: fp}
		ctx, cancel := context.WithCancel(context.Background())
		done := make(chan struct{})
		go func() {
			pollForNewRequests(ctx, client, http.NotFoundHandler(), "backend-1")
			close(done)
		}()
		ok := false
		for t := 0; t < 3000; t++ {
			fp.mu.Lock()
			n := len(fp.calls)
			fp.mu.Unlock()
			if n >= k+4 {
				ok = true
				break
			}
			time.Sleep(time.Millisecond)
		}
		fp.mu.Lock()
		calls := append([]time.Time(nil), fp.calls...)
		fp.mu.Unlock()
		cancel()
		select {
		case <-done:
		case <-time.After(8 * time.Second):
			e.Fail("C08:poll-loop-does-not-stop", "pollForNewRequests did not return within 8 s of cancellation", idx, nil, nil, nil)
		}
		if !ok || len(calls) < k+3 {
			e.Fail("C08:too-few-polls", fmt.Sprintf("%d failures, a success (%s), then failures: only %d list calls within 3 s", k, succ, len(calls)), idx, nil, len(calls), k+4)
		} else {
			// calls[k] is the success; calls[k+1] fails; the gap before calls[k+2] is the first delay after the success
			gap := calls[k+2].Sub(calls[k+1])
			if gap > 60*time.Millisecond {
				e.Fail("C08:no-reset-after-success", fmt.Sprintf("%d failing list calls, one successful idle answer (%s), one more failure: the agent then waited %v before polling again (the shortest delay is about 1 ms; without a reset it would be about %d ms)", k, succ, gap, 1<<uint(k)), idx, nil, gap.String(), "about 1ms")
			}
		}
		e.Eval("reset-after-"+succ, true)
		e.Count("reset-after-success")
	}
}
