//go:build verif

package main

import (
	"bufio"
	"context"
	"fmt"
	"io"
	"net/http"
	"net/http/httptest"
	"strings"
	"sync"
	"time"

	"github.com/gorilla/websocket"

	"github.com/google/inverting-proxy/agent/sessions"
	"github.com/google/inverting-proxy/agent/utils"
	"github.com/google/inverting-proxy/zz_verif/vh"
)

var _ = reg("identity", suiteIdentity)

type hdrRecorder struct {
	mu   sync.Mutex
	last http.Header
	n    int
}

func (h *hdrRecorder) record(r *http.Request) {
	h.mu.Lock()
	h.last = r.Header.Clone()
	h.n++
	h.mu.Unlock()
}

func genClientHeaders(rng *vh.Rng) []string {
	var lines []string
	idNames := []string{"X-Inverting-Proxy-User-ID", "x-inverting-proxy-user-id", "X-INVERTING-PROXY-USER-ID", "X-Inverting-Proxy-User-Id"}
	for k := rng.Intn(4); k > 0; k-- {
		lines = append(lines, rng.Pick(idNames)+": "+rng.Pick([]string{"admin@corp.example", "root", "", "real-user@example.com"}))
	}
	for k := rng.Intn(3); k > 0; k-- {
		lines = append(lines, rng.Pick([]string{"Authorization", "authorization", "AUTHORIZATION"})+": "+rng.Pick([]string{"Bearer abc", "Basic Zm9vOmJhcg==", "x", "", ""}))
	}
	for k := rng.Intn(4); k > 0; k-- {
		lines = append(lines, rng.Pick([]string{"X-Other", "Accept", "Cookie", "X-Inverting-Proxy-User", "Proxy-Authorization-X"})+": "+rng.Pick([]string{"a", "b", "text/html", "k=v"}))
	}
	// a client can also name headers in Connection, which makes every HTTP/1.1 intermediary on the way to the
	// backend (here: the agent's ReverseProxy) treat them as hop-by-hop and drop them
	if rng.Chance(15) {
		lines = append(lines, "Connection: "+rng.Pick([]string{"X-Inverting-Proxy-User-ID", "keep-alive, x-inverting-proxy-user-id", "close", "X-Other, Authorization",
			"X-Inverting-Proxy-User-ID, x-inverting-proxy-user-id", "x-inverting-proxy-user-id,X-Other , X-INVERTING-PROXY-USER-ID,", ",, X-Inverting-Proxy-User-ID ,"}))
	}
	if rng.Chance(10) {
		// several Connection lines, the identity header named in a later one (the first must not be "close": the parser drops Connection then)
		lines = append(lines, "Connection: "+rng.Pick([]string{"keep-alive", "", " ", "x-other"}), "Connection: "+rng.Pick([]string{"X-Inverting-Proxy-User-ID", "x-other , X-INVERTING-PROXY-USER-ID"}))
		return lines // keep their order
	}
	// shuffle
	for i := len(lines) - 1; i > 0; i-- {
		j := rng.Intn(i + 1)
		lines[i], lines[j] = lines[j], lines[i]
	}
	return lines
}

func suiteIdentity(e *vh.Env) {
	e.OpenOps("identity")
	e.Result.Rule = "client header sets with forged/repeated/differently-cased identity and credential headers x asserted identities x the four flag combinations; (a) real forwardRequest with a recording handler, compared with the regenerated header slice; (b) through the real handler chain (sessions/shim on or off) to an HTTP backend; (c) websocket-shim open against a real websocket backend; non-trivial = case with a client-supplied identity or Authorization header"
	*proxy = "http://proxy.invalid/"
	userKey := http.CanonicalHeaderKey(utils.HeaderUserID)

	// real backends for (b) and (c)
	rec := &hdrRecorder{}
	up := websocket.Upgrader{}
	backend := httptest.NewServer(http.HandlerFunc(func(w http.ResponseWriter, r *http.Request) {
		rec.record(r)
		if websocket.IsWebSocketUpgrade(r) {
			c, err := up.Upgrade(w, r, nil)
			if err == nil {
				c.Close()
			}
			return
		}
		io.WriteString(w, "ok")
	}))
	defer backend.Close()
	backendHost := strings.TrimPrefix(backend.URL, "http://")

	n := e.N(150, 5000)
	for i := 0; i < n; i++ {
		if !e.Want(i) {
			continue
		}
		rng := e.Rng.Sub(i)
		fu, sc := rng.Bool(), rng.Bool()
		*forwardUserID, *stripCredentials = fu, sc
		user := rng.Pick([]string{"real-user@example.com", "u@x", "", "admin@corp.example"})
		lines := genClientHeaders(rng)
		forged := false
		for _, l := range lines {
			ll := strings.ToLower(l)
			if strings.HasPrefix(ll, "x-inverting-proxy-user-id:") || strings.HasPrefix(ll, "authorization:") {
				forged = true
			}
		}
		raw := "GET /p HTTP/1.1\r\nHost: backend.example\r\n" + strings.Join(lines, "\r\n")
		if len(lines) > 0 {
			raw += "\r\n"
		}
		raw += "\r\n"
		parsed, err := http.ReadRequest(bufio.NewReader(strings.NewReader(raw)))
		if err != nil {
			panic(err)
		}
		before := parsed.Header.Clone()
		id := fmt.Sprintf("id%d", i)

		// (a) forwardRequest with a recording handler
		fp := newFakeProxy()
		fp.reqText = func(string) string { return raw }
		fp.user[id] = user
		client := &http.Client{Transport: fp}
		ra := &hdrRecorder{}
		handler := http.HandlerFunc(func(w http.ResponseWriter, r *http.Request) { ra.record(r); io.WriteString(w, "ok") })
		err = utils.ReadRequest(client, *proxy, "backend-1", id, func(c *http.Client, fr *utils.ForwardedRequest) error {
			return forwardRequest(c, handler, fr)
		}, nil)
		if err != nil || ra.n != 1 {
			e.Fail("C09:forward-failed", fmt.Sprintf("case %d: forwardRequest error %v, handler calls %d", i, err, ra.n), i, nil, nil, nil)
			continue
		}
		b2s := map[bool]string{true: "1", false: "0"}
		e.Op(fmt.Sprintf("fwd %s %s %s %s", b2s[fu], b2s[sc], vh.Hex([]byte(user)), vh.CanonHeader(before)), vh.CanonHeader(ra.last))
		check := func(where string, h http.Header) {
			if fu {
				if vs := h[userKey]; len(vs) != 1 || vs[0] != user {
					e.Fail("C09:user-id-not-exact:"+where, fmt.Sprintf("case %d (%s): backend saw identity values %q, proxy asserted %q; client sent %q", i, where, vs, user, lines), i, nil, vs, []string{user})
				}
			}
			if sc {
				if vs := h["Authorization"]; len(vs) != 0 {
					e.Fail("C09:authorization-forwarded:"+where, fmt.Sprintf("case %d (%s): Authorization %q reached the backend", i, where, vs), i, nil, vs, nil)
				}
			}
		}
		check("forwardRequest", ra.last)
		e.Count(fmt.Sprintf("fu=%v sc=%v", fu, sc))

		// (b) through the real handler chain to an HTTP backend; (c) shim open
		if i%5 == 0 || e.Thorough() {
			shim, sess := rng.Bool(), rng.Bool()
			sessionLRU = nil
			if sess {
				sessionLRU = sessions.NewCache("verif-session", time.Hour, 10, true)
			}
			shimPath := ""
			if shim {
				shimPath = "shimpath"
			}
			ctx, cancel := context.WithCancel(context.Background())
			chain, err := hostProxy(ctx, backendHost, shimPath, shim, false)
			if err != nil {
				panic(err)
			}
			rec.mu.Lock()
			rec.n = 0
			rec.mu.Unlock()
			id2 := id + "-chain"
			fp.user[id2] = user
			err = utils.ReadRequest(client, *proxy, "backend-1", id2, func(c *http.Client, fr *utils.ForwardedRequest) error {
				return forwardRequest(c, chain, fr)
			}, nil)
			if err != nil || rec.n != 1 {
				e.Fail("C09:chain-failed", fmt.Sprintf("case %d: error %v, backend calls %d", i, err, rec.n), i, nil, nil, nil)
			} else {
				check(fmt.Sprintf("chain(shim=%v,sessions=%v)", shim, sess), rec.last)
			}
			e.Count(fmt.Sprintf("chain shim=%v sessions=%v", shim, sess))
			if shim {
				rec.mu.Lock()
				rec.n = 0
				rec.mu.Unlock()
				body := "ws://" + backendHost + "/ws/path?x=1"
				rawOpen := fmt.Sprintf("POST /shimpath/open HTTP/1.1\r\nHost: backend.example\r\nContent-Length: %d\r\n", len(body)) + strings.Join(lines, "\r\n")
				if len(lines) > 0 {
					rawOpen += "\r\n"
				}
				rawOpen += "\r\n" + body
				fp.reqText = func(string) string { return rawOpen }
				id3 := id + "-shim"
				fp.user[id3] = user
				err = utils.ReadRequest(client, *proxy, "backend-1", id3, func(c *http.Client, fr *utils.ForwardedRequest) error {
					return forwardRequest(c, chain, fr)
				}, nil)
				if err != nil || rec.n != 1 {
					e.Fail("C09:shim-open-failed", fmt.Sprintf("case %d: error %v, websocket backend handshakes %d, upload %q", i, err, rec.n, fp.uploads[id3]), i, nil, nil, nil)
				} else {
					check(fmt.Sprintf("shim-open(sessions=%v)", sess), rec.last)
				}
				e.Count("shim-open")
			}
			cancel()
			sessionLRU = nil
		}
		e.Eval(fmt.Sprintf("%v|%v|%s|%s", fu, sc, user, strings.Join(lines, "|")), forged)
		if i < 3 {
			e.Sample(map[string]interface{}{"forward_user_id": fu, "strip_credentials": sc, "asserted": user, "client_headers": lines, "backend_saw": ra.last})
		}
	}
}
