//go:build verif

package main

// Verification driver injected into the agent's package main by `go build -overlay`
// (not part of the repo).  When VERIF_DRIVER is set the process runs a driver suite
// against the agent's own functions and exits before main() does anything.

import (
	"bytes"
	"context"
	"encoding/json"
	"fmt"
	"io"
	"io/ioutil"
	"log"
	"net/http"
	"os"
	"runtime"
	"sort"
	"strings"
	"sync"
	"time"

	"github.com/google/inverting-proxy/agent/utils"
	"github.com/google/inverting-proxy/zz_verif/vh"
)

var verifSuites = map[string]func(*vh.Env){}

// reg registers a suite from a package-level initialiser (these run before any init()).
func reg(name string, f func(*vh.Env)) bool { verifSuites[name] = f; return true }

func init() {
	if os.Getenv("VERIF_DRIVER") == "" {
		return
	}
	log.SetOutput(ioutil.Discard)
	e := vh.Parse()
	f, ok := verifSuites[e.Suite]
	if !ok {
		fmt.Fprintf(os.Stderr, "unknown suite %q\n", e.Suite)
		os.Exit(2)
	}
	f(e)
	e.Finish()
	os.Exit(0)
}

// fakeProxy is a scripted RoundTripper playing the inverting proxy.
type fakeProxy struct {
	mu        sync.Mutex
	lists     [][]string  // scripted replies to pending-list calls, in order
	listFail  []bool      // per list call: fail instead of replying (transport error)
	listTimes []time.Time // arrival time of every list call
	listCalls int
	fetchFail map[string]int            // request id -> number of fetch attempts to fail (500)
	spawnG    map[string]map[string]int // request id -> goroutine that fetched it -> its attempts (RoundTrip runs on the goroutine of processOneRequest, so one goroutine = one spawn)
	fetches   map[string]int            // request id -> fetch attempts seen
	user      map[string]string
	reqText   func(id string) string
	uploads   map[string][]byte // request id -> uploaded response bytes
	uploadCnt map[string]int
	exhausted chan struct{} // closed when the list script is used up
	onExhaust sync.Once
	hold      chan struct{} // list calls beyond the script block here
}

func newFakeProxy() *fakeProxy {
	return &fakeProxy{spawnG: map[string]map[string]int{}, fetchFail: map[string]int{}, fetches: map[string]int{}, user: map[string]string{}, uploads: map[string][]byte{}, uploadCnt: map[string]int{},
		exhausted: make(chan struct{}), hold: make(chan struct{}),
		reqText: func(id string) string { return "GET /" + id + " HTTP/1.1\r\nHost: backend.example\r\n\r\n" }}
}

func resp(code int, hdr http.Header, body string, req *http.Request) *http.Response {
	if hdr == nil {
		hdr = http.Header{}
	}
	return &http.Response{StatusCode: code, Status: http.StatusText(code), Proto: "HTTP/1.1", ProtoMajor: 1, ProtoMinor: 1,
		Header: hdr, Body: ioutil.NopCloser(strings.NewReader(body)), ContentLength: int64(len(body)), Request: req}
}

func (p *fakeProxy) RoundTrip(r *http.Request) (*http.Response, error) {
	id := r.Header.Get(utils.HeaderRequestID)
	switch {
	case strings.HasSuffix(r.URL.Path, utils.PendingPath):
		p.mu.Lock()
		k := p.listCalls
		p.listCalls++
		p.listTimes = append(p.listTimes, time.Now())
		if k < len(p.lists) {
			fail := k < len(p.listFail) && p.listFail[k]
			ids := p.lists[k]
			p.mu.Unlock()
			if fail {
				return nil, fmt.Errorf("scripted list failure %d", k)
			}
			b, _ := json.Marshal(ids)
			return resp(200, nil, string(b), r), nil
		}
		p.mu.Unlock()
		p.onExhaust.Do(func() { close(p.exhausted) })
		select {
		case <-p.hold:
		case <-r.Context().Done():
		}
		return nil, fmt.Errorf("list script exhausted")
	case strings.HasSuffix(r.URL.Path, utils.RequestPath):
		p.mu.Lock()
		p.fetches[id]++
		n := p.fetches[id]
		if p.spawnG[id] == nil {
			p.spawnG[id] = map[string]int{}
		}
		p.spawnG[id][goid()]++
		failN := p.fetchFail[id]
		user := p.user[id]
		p.mu.Unlock()
		if n <= failN {
			return resp(500, nil, "scripted fetch failure", r), nil
		}
		h := http.Header{}
		h.Set(utils.HeaderRequestStartTime, time.Now().Format(time.RFC3339Nano))
		if user != "" {
			h.Set(utils.HeaderUserID, user)
		}
		return resp(200, h, p.reqText(id), r), nil
	case strings.HasSuffix(r.URL.Path, utils.ResponsePath):
		b, _ := io.ReadAll(r.Body)
		r.Body.Close()
		p.mu.Lock()
		p.uploads[id] = b
		p.uploadCnt[id]++
		p.mu.Unlock()
		return resp(200, nil, "", r), nil
	}
	return resp(404, nil, "", r), nil
}

// countingHandler records every backend invocation by request path.
type countingHandler struct {
	mu    sync.Mutex
	calls map[string]int
	total int
}

func (h *countingHandler) ServeHTTP(w http.ResponseWriter, r *http.Request) {
	h.mu.Lock()
	h.calls[strings.TrimPrefix(r.URL.Path, "/")]++
	h.total++
	h.mu.Unlock()
	w.WriteHeader(200)
	io.WriteString(w, "ok:"+r.URL.Path)
}

func waitStable(f func() int, quiet time.Duration, max time.Duration) {
	deadline := time.Now().Add(max)
	last, since := f(), time.Now()
	for time.Now().Before(deadline) {
		time.Sleep(5 * time.Millisecond)
		if v := f(); v != last {
			last, since = v, time.Now()
		} else if time.Since(since) >= quiet {
			return
		}
	}
}

var _ = reg("dedup", suiteDedup)

// suiteDedup: the real pollForNewRequests/processOneRequest/forwardRequest against scripted
// pending-list replies; observation = backend invocations per request ID.
func suiteDedup(e *vh.Env) {
	e.OpenOps("dedup")
	e.Result.Rule = "histories of pending-list replies (repeats, permutations, overlapping subsets, windows of 999/1000/1001 distinct ids) with scripted fetch failures (0..3 failing attempts) against the real polling loop; observation = backend invocations per ID; non-trivial = history in which some ID is reported at least twice"
	*proxy = "http://proxy.invalid/"
	n := e.N(40, 1500)
	for i := 0; i < n; i++ {
		if !e.Want(i) {
			continue
		}
		rng := e.Rng.Sub(i)
		fp := newFakeProxy()
		// id universe
		var universe int
		switch rng.Intn(6) {
		case 0:
			universe = requestCacheLimit - 1 + rng.Intn(3) // 999, 1000, 1001
		case 1:
			universe = 1 + rng.Intn(3)
		default:
			universe = 2 + rng.Intn(40)
		}
		// ID shape: short tokens, or 64 hex digits as the stand-alone proxy's sha256 IDs (a full window of those makes a
		// pending-list reply of about 67 KB)
		longIDs := rng.Intn(3) == 0 || i%20 == 0
		if i%20 == 0 {
			universe = requestCacheLimit
		}
		id := func(k int) string {
			if longIDs {
				return fmt.Sprintf("%032x%032x", i+1, k)
			}
			if i%3 == 1 {
				return fmt.Sprintf("Req-%d-%X", i, 0xAB00+k) // letter case is part of an ID
			}
			return fmt.Sprintf("r%d-%d", i, k)
		}
		repeats := false
		seen := map[string]bool{}
		replies := 1 + rng.Intn(8)
		for r := 0; r < replies; r++ {
			var ids []string
			shape := rng.Intn(5)
			if i%20 == 0 && r == 0 {
				shape = 0
			}
			switch shape {
			case 0: // a whole window in order
				for k := 0; k < universe; k++ {
					ids = append(ids, id(k))
				}
			case 1: // permutation of a subset
				m := 1 + rng.Intn(universe)
				for k := 0; k < m; k++ {
					ids = append(ids, id(rng.Intn(universe)))
				}
			case 2: // immediate repeats
				x := id(rng.Intn(universe))
				ids = []string{x, x, id(rng.Intn(universe)), x}
			case 3:
				ids = []string{}
			default:
				m := 1 + rng.Intn(6)
				for k := 0; k < m; k++ {
					ids = append(ids, id(rng.Intn(universe)))
				}
			}
			for _, x := range ids {
				if seen[x] {
					repeats = true
				}
				seen[x] = true
			}
			// now and then the list call itself fails first (the proxy is briefly unavailable) and the agent asks again
			if rng.Chance(12) {
				for len(fp.listFail) < len(fp.lists) {
					fp.listFail = append(fp.listFail, false)
				}
				fp.listFail = append(fp.listFail, true)
				fp.lists = append(fp.lists, nil) // the failed call delivers nothing
			}
			fp.lists = append(fp.lists, ids)
		}
		turnover := i == 2
		if turnover {
			// a full window of pending requests with turnover: one is answered, a new one arrives and is listed first
			universe = requestCacheLimit + 1
			fp.lists, fp.listFail, repeats = nil, nil, true
			seen = map[string]bool{}
			var first, second []string
			for k := 0; k < requestCacheLimit; k++ {
				first = append(first, id(k))
			}
			second = append(second, id(requestCacheLimit))
			for k := 0; k < requestCacheLimit; k++ {
				if k != requestCacheLimit/2 {
					second = append(second, id(k))
				}
			}
			fp.lists = [][]string{first, second}
			for _, x := range append(append([]string{}, first...), second...) {
				seen[x] = true
			}
		}
		for x := range seen {
			if rng.Chance(15) && !turnover {
				fp.fetchFail[x] = 1 + rng.Intn(3) // 3 = all attempts fail: never forwarded
			}
		}
		h := &countingHandler{calls: map[string]int{}}
		client := &http.Client{Transport: fp}
		ctx, cancel := context.WithCancel(context.Background())
		done := make(chan struct{})
		go func() { pollForNewRequests(ctx, client, h, "backend-1"); close(done) }()
		select {
		case <-fp.exhausted:
		case <-time.After(20 * time.Second):
			e.Fail("C04:poll-loop-stuck", "the list script was not consumed within 20 s", i, nil, nil, nil)
		}
		// first wait until every listed ID has been fetched and, where the fetch is served, answered (under the race
		// detector and with a thousand workers this can take seconds); then for a quiet period, to see extra events
		complete := func() bool {
			fp.mu.Lock()
			defer fp.mu.Unlock()
			for x := range seen {
				if fp.fetches[x] == 0 {
					return false
				}
				if fp.fetchFail[x] <= utils.VerifMaxReadRequestRetryCount && fp.uploadCnt[x] == 0 {
					return false
				}
			}
			return true
		}
		events := func() int {
			fp.mu.Lock()
			defer fp.mu.Unlock()
			t := 0
			for _, c := range fp.fetches {
				t += c
			}
			for _, c := range fp.uploadCnt {
				t += c
			}
			return t
		}
		lastEv, lastAt := events(), time.Now()
		for dl := time.Now().Add(60 * time.Second); !complete() && time.Now().Before(dl); {
			time.Sleep(5 * time.Millisecond)
			if ev := events(); ev != lastEv {
				lastEv, lastAt = ev, time.Now()
			} else if time.Since(lastAt) > 2*time.Second {
				break // nothing has happened for two seconds: what is missing will not come
			}
		}
		waitStable(func() int {
			fp.mu.Lock()
			defer fp.mu.Unlock()
			h.mu.Lock()
			defer h.mu.Unlock()
			t := h.total
			for _, c := range fp.fetches {
				t += c
			}
			for _, c := range fp.uploadCnt {
				t += c
			}
			return t
		}, 60*time.Millisecond, 5*time.Second)
		cancel()
		close(fp.hold)
		<-done
		// ops: one line per list reply; final line: fetched IDs (sorted) with first-attempt count
		e.Op("new "+fmt.Sprint(requestCacheLimit), "ok")
		for k, ids := range fp.lists {
			if k < len(fp.listFail) && fp.listFail[k] {
				continue // a failed list call: nothing was reported
			}
			if len(ids) == 0 {
				e.Op("list", "ok")
			} else {
				e.Op("list "+strings.Join(ids, " "), "ok")
			}
		}
		// spawned = IDs with at least one fetch; each spawn makes 1 + min(fail, 2) attempts
		var spawned []string
		twice := 0
		fp.mu.Lock()
		h.mu.Lock()
		for x, c := range fp.fetches {
			ff := fp.fetchFail[x]
			// one spawn makes at most 1 + maxRetry attempts; all spawns together exactly (scripted failures met) + (successes)
			sum := 0
			for g, a := range fp.spawnG[x] {
				sum += a
				if a > 1+utils.VerifMaxReadRequestRetryCount {
					e.Fail("C04:fetch-attempts", fmt.Sprintf("id %s: goroutine %s made %d fetch attempts (limit %d)", x, g, a, 1+utils.VerifMaxReadRequestRetryCount), i, nil, nil, nil)
				}
				spawned = append(spawned, x)
			}
			if sum != c {
				e.Fail("C04:fetch-attempts", fmt.Sprintf("id %s: %d fetch attempts, %d attributed to spawns", x, c, sum), i, nil, nil, nil)
			}
			if len(fp.spawnG[x]) == 1 {
				per := 1 + ff
				if per > 1+utils.VerifMaxReadRequestRetryCount {
					per = 1 + utils.VerifMaxReadRequestRetryCount
				}
				if c != per {
					e.Fail("C04:fetch-attempts", fmt.Sprintf("id %s: one spawn made %d fetch attempts with %d scripted failures, expected %d", x, c, ff, per), i, nil, nil, nil)
				}
			}
			// oracle (property): forwarded at most once; exactly once when the fetch is eventually served
			inv := h.calls[x]
			want := 1
			if ff > utils.VerifMaxReadRequestRetryCount {
				want = 0
			}
			if turnover && h.calls[x] > 1 {
				twice++
			}
			inWindow := universe <= requestCacheLimit
			if inv > 1 && inWindow {
				e.Fail("C04:forwarded-twice", fmt.Sprintf("request %s reached the backend %d times (universe %d ids)", x, inv, universe), i, nil, inv, 1)
			}
			if inv != want && inWindow {
				e.Fail("C04:not-forwarded-exactly-once", fmt.Sprintf("request %s reached the backend %d times, expected %d (scripted fetch failures %d)", x, inv, want, ff), i, nil, inv, want)
			}
			if want == 1 && fp.uploadCnt[x] != inv {
				e.Fail("C04:upload-count", fmt.Sprintf("request %s: %d uploads for %d invocations", x, fp.uploadCnt[x], inv), i, nil, nil, nil)
			}
		}
		if turnover && twice > 0 {
			e.Fail("C04:forwarded-twice:window-turnover", fmt.Sprintf("%d requests were pending and listed; one was answered and a new one arrived (still %d pending), the next reply listed the new one first: %d of the pending requests reached the backend a second time", requestCacheLimit, requestCacheLimit, twice), i, nil, twice, 0)
		}
		for x := range seen {
			if fp.fetches[x] == 0 {
				e.Fail("C04:never-fetched", fmt.Sprintf("request %s was listed but never fetched", x), i, nil, nil, nil)
			}
		}
		h.mu.Unlock()
		fp.mu.Unlock()
		sort.Strings(spawned)
		e.Op("spawned", strings.Join(spawned, " "))
		e.Eval(fmt.Sprint(i), repeats)
		e.Count(fmt.Sprintf("universe<=cap:%v repeats:%v long-ids:%v", universe <= requestCacheLimit, repeats, longIDs))
		if i < 3 {
			e.Sample(map[string]interface{}{"case": i, "universe": universe, "list_replies": len(fp.lists), "first_reply": truncate(fp.lists[0], 6), "repeats": repeats})
		}
	}
}

// goid: the current goroutine's number, from the first line of its stack ("goroutine 123 [running]:").
func goid() string {
	var b [64]byte
	f := strings.Fields(string(b[:runtime.Stack(b[:], false)]))
	if len(f) >= 2 {
		return f[1]
	}
	return "?"
}

func truncate(xs []string, n int) []string {
	if len(xs) > n {
		return append(append([]string{}, xs[:n]...), "…")
	}
	return xs
}

var _ = bytes.NewReader
