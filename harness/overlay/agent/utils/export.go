//go:build verif

package utils

import "io"

// Exports for the verification drivers (injected by `go build -overlay`; not part of the repo).

type VerifSeeker interface {
	io.ReadSeeker
}

func VerifNewBufferedReadSeeker(r io.Reader, bufSize int) VerifSeeker {
	return newBufferedReadSeeker(r, bufSize)
}

func VerifSeekerState(s VerifSeeker) (writeHead, readHead int) {
	b := s.(*bufferedReadSeeker)
	return b.writeHead, b.readHead
}

func VerifHopHeaders() map[string]bool { return hopHeaders }

const VerifReadResponseBufSize = readResponseBufSize
const VerifMaxWriteResponseRetryCount = maxWriteResponseRetryCount
const VerifMaxReadRequestRetryCount = maxReadRequestRetryCount
