//go:build verif

package banner

import "net/http"

// Exports for the verification drivers (injected by `go build -overlay`; not part of the repo).

func VerifIsHTMLRequest(r *http.Request) bool { return isHTMLRequest(r) }
func VerifIsFrameableHTMLResponse(code int, h http.Header) bool {
	return isFrameableHTMLResponse(code, h)
}
func VerifIsAlreadyFramed(r *http.Request) bool { return isAlreadyFramed(r) }
