//go:build verif

package main

import (
	"context"
	"net/http"
	"os"
	"strconv"
	"time"

	"github.com/google/inverting-proxy/agent/sessions"
	"github.com/google/inverting-proxy/zz_verif/vh"
)

// agentserve: run the agent's real polling loop and handler chain against the proxy and
// backend named in the environment, with a plain HTTP client instead of Google
// credentials, until the process is killed.  Used by the end-to-end suites of the
// library driver as a child process.
var _ = reg("agentserve", func(e *vh.Env) {
	*proxy = os.Getenv("VERIF_AGENT_PROXY")
	*host = os.Getenv("VERIF_AGENT_HOST")
	*backendID = "verif-backend"
	env := func(k string) bool { return os.Getenv(k) == "1" }
	*forwardUserID = env("VERIF_AGENT_FORWARD_USER_ID")
	*stripCredentials = env("VERIF_AGENT_STRIP_CREDENTIALS")
	*shimWebsockets = env("VERIF_AGENT_SHIM")
	*shimPath = os.Getenv("VERIF_AGENT_SHIM_PATH")
	*injectBanner = os.Getenv("VERIF_AGENT_BANNER")
	*forceHTTP2 = env("VERIF_AGENT_FORCE_HTTP2")
	if n := os.Getenv("VERIF_AGENT_SESSION_COOKIE"); n != "" {
		lim, _ := strconv.Atoi(os.Getenv("VERIF_AGENT_SESSION_LIMIT"))
		if lim == 0 {
			lim = 1000
		}
		sessionLRU = sessions.NewCache(n, 12*time.Hour, lim, true)
	}
	ctx := context.Background()
	client := &http.Client{Timeout: *proxyTimeout}
	hp, err := hostProxy(ctx, *host, *shimPath, *shimWebsockets, *forceHTTP2)
	if err != nil {
		panic(err)
	}
	pollForNewRequests(ctx, client, hp, *backendID)
})
