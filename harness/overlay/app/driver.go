//go:build verif

package main

// Verification driver: with VERIF_DRIVER set, init() serves the app's real handlers and real
// stores over the fake App Engine API (fakeae.go) under /__verif/ and runs the selected suite
// against them over loopback HTTP; main() is never reached.

import (
	"bytes"
	"fmt"
	"github.com/google/inverting-proxy/app/types"
	"hash/fnv"
	"io"
	"log"
	"net"
	"net/http"
	"os"
	"strconv"
	"strings"
	"sync/atomic"
	"time"

	"github.com/google/inverting-proxy/app/cache"
	"github.com/google/inverting-proxy/app/store"
	"github.com/google/inverting-proxy/zz_verif/vh"

	"google.golang.org/appengine/v2"
)

const (
	hdrVerifService = "X-Verif-Service"     // "agent" | "api" | anything else: end-user request
	hdrVerifReqID   = "X-Verif-Request-Id"  // stands in for appengine.RequestID
	hdrVerifOAuth   = "X-Verif-OAuth-Email" // identity for user.CurrentOAuth; absent: the call fails
	emptyEmailToken = "<token-without-email>"
	hdrVerifAdmin   = "X-Verif-OAuth-Admin" // "1": that identity is an app admin
)

var (
	suites      = map[string]func(*vh.Env){}
	fake        = newFakeAE()
	verifBase   string // http://127.0.0.1:PORT/__verif
	verifClient = &http.Client{Timeout: 2 * time.Minute, Transport: &http.Transport{DisableCompression: true, MaxIdleConnsPerHost: 64}}
	autoReqID   uint64
)

// reg registers a suite: `var _ = reg("name", fn)` (package-level initialisers run before init()).
func reg(name string, fn func(*vh.Env)) bool { suites[name] = fn; return true }

func init() {
	if os.Getenv("VERIF_DRIVER") == "" {
		return
	}
	if os.Getenv("VERIF_DEBUG") == "" {
		log.SetOutput(io.Discard)
	}
	e := vh.Parse()
	suite, ok := suites[e.Suite]
	if !ok {
		fmt.Fprintf(os.Stderr, "unknown suite %q\n", e.Suite)
		os.Exit(2)
	}
	l, err := net.Listen("tcp", "127.0.0.1:0")
	if err != nil {
		fmt.Fprintln(os.Stderr, err)
		os.Exit(2)
	}
	addr := "127.0.0.1:" + strconv.Itoa(l.Addr().(*net.TCPAddr).Port)
	l.Close()
	for k, v := range map[string]string{ // what the SDK reads instead of asking the metadata server
		"PORT": addr[len("127.0.0.1:"):], "GAE_ENV": "standard", "GAE_APPLICATION": "s~verif-app", "GOOGLE_CLOUD_PROJECT": "verif-app",
		"GAE_SERVICE": "default", "GAE_VERSION": "v1", "GAE_DEPLOYMENT_ID": "1", "GAE_INSTANCE": "i0",
	} {
		os.Setenv(k, v)
	}
	verifBase = "http://" + addr + "/__verif"

	s := cache.NewCachingStore(store.NewPersistentStore())
	http.HandleFunc("/__verif/", func(w http.ResponseWriter, r *http.Request) {
		service, requestID := r.Header.Get(hdrVerifService), r.Header.Get(hdrVerifReqID)
		var id *oauthID
		if email := r.Header.Get(hdrVerifOAuth); email != "" {
			if email == emptyEmailToken {
				email = "" // a valid OAuth token whose identity carries no e-mail address
			}
			id = &oauthID{Email: email, Admin: r.Header.Get(hdrVerifAdmin) == "1"}
		}
		for _, h := range []string{hdrVerifService, hdrVerifReqID, hdrVerifOAuth, hdrVerifAdmin} {
			r.Header.Del(h) // the app (and the forwarded request bytes) must not see the driver's headers
		}
		r.URL.Path = strings.TrimPrefix(r.URL.Path, "/__verif")
		r.URL.RawPath = strings.TrimPrefix(r.URL.RawPath, "/__verif")
		ctx := appengine.WithAPICallFunc(withOAuth(appengine.NewContext(r), id), fake.call)
		switch service { // same dispatch as the app's init(), which switches on appengine.ModuleName
		case "age": // driver-only: let time pass for one backend's liveness record (?backend=<id>&ago=<duration>)
			ago, _ := time.ParseDuration(r.URL.Query().Get("ago"))
			if err := store.VerifSetLastSeen(ctx, r.URL.Query().Get("backend"), time.Now().Add(-ago)); err != nil {
				http.Error(w, err.Error(), 500)
			}
		case "blob": // driver-only: store the body as a blob and read it back
			data, _ := io.ReadAll(r.Body)
			back, inl, parts, err := store.VerifBlobRoundTrip(ctx, data, "verif-blob-"+requestID)
			if err != nil {
				http.Error(w, err.Error(), 500)
				return
			}
			w.Header().Set("X-Inlined", strconv.Itoa(inl))
			w.Header().Set("X-Parts", strconv.Itoa(len(parts)))
			w.Write(back)
		case "respcron": // driver-only: store a request and its response now, run the clean-up job, read the response back
			data, _ := io.ReadAll(r.Body)
			now := time.Now()
			if err := s.WriteRequest(ctx, &types.Request{BackendID: "cron-b", RequestID: requestID, User: "u@x", StartTime: now, Contents: []byte("GET / HTTP/1.1\r\n\r\n")}); err != nil {
				http.Error(w, "write request: "+err.Error(), 500)
				return
			}
			if err := s.WriteResponse(ctx, &types.Response{BackendID: "cron-b", RequestID: requestID, StartTime: now, Contents: data}); err != nil {
				http.Error(w, "write response: "+err.Error(), 500)
				return
			}
			if err := s.DeleteOldRequests(ctx); err != nil {
				http.Error(w, "clean-up: "+err.Error(), 500)
				return
			}
			resp, err := s.ReadResponse(ctx, "cron-b", requestID)
			if err != nil || resp == nil {
				http.Error(w, fmt.Sprintf("read response after the clean-up: %v", err), 404)
				return
			}
			w.Write(resp.Contents)
		case "agent":
			handleAgentRequest(ctx, s, w, r)
		case "api":
			handleAPIRequest(ctx, s, w, r)
		default:
			if requestID == "" {
				requestID = fmt.Sprintf("verif-auto-%d", atomic.AddUint64(&autoReqID, 1))
			}
			proxyHandler(ctx, s, requestID, w, r)
		}
	})
	go appengine.Main()
	if !waitFor(10*time.Second, func() bool {
		c, err := net.DialTimeout("tcp", addr, time.Second)
		if err == nil {
			c.Close()
		}
		return err == nil
	}) {
		fmt.Fprintln(os.Stderr, "app server did not come up on", addr)
		os.Exit(2)
	}
	suite(e)
	e.Finish()
	os.Exit(0)
}

// waitFor polls cond every 2 ms until it holds or d has passed.
func waitFor(d time.Duration, cond func() bool) bool {
	for deadline := time.Now().Add(d); ; time.Sleep(2 * time.Millisecond) {
		if cond() {
			return true
		}
		if time.Now().After(deadline) {
			return false
		}
	}
}

// reply is the outcome of one HTTP call to the app; Status 0 means a transport error (text in Body).
type reply struct {
	Status int
	Hdr    http.Header
	Body   []byte
}

// async runs a (blocking) call in a goroutine: `ch := async(func() (int, http.Header, []byte) { return userCall(...) })`.
func async(call func() (int, http.Header, []byte)) <-chan reply {
	ch := make(chan reply, 1)
	go func() {
		st, h, b := call()
		ch <- reply{st, h, b}
	}()
	return ch
}

// await waits for an async call; ok is false if it did not finish within d.
func await(ch <-chan reply, d time.Duration) (r reply, ok bool) {
	select {
	case r = <-ch:
		return r, true
	case <-time.After(d):
		return reply{}, false
	}
}

// verifCall sends one request to /__verif<urlPath> (urlPath may carry a query) for the given service.
// A "Host" entry in hdr sets the request's Host. Safe for concurrent use.
func verifCall(service, method, urlPath string, hdr http.Header, body []byte) (int, http.Header, []byte) {
	req, err := http.NewRequest(method, verifBase+urlPath, bytes.NewReader(body))
	if err != nil {
		return 0, nil, []byte(err.Error())
	}
	for k, v := range hdr {
		if http.CanonicalHeaderKey(k) == "Host" {
			req.Host = v[0]
		} else {
			req.Header[k] = append([]string(nil), v...)
		}
	}
	req.Header.Set(hdrVerifService, service)
	resp, err := verifClient.Do(req)
	if err != nil {
		return 0, nil, []byte(err.Error())
	}
	defer resp.Body.Close()
	b, err := io.ReadAll(resp.Body)
	if err != nil {
		return 0, resp.Header, []byte(err.Error())
	}
	return resp.StatusCode, resp.Header, b
}

func setIf(h http.Header, k, v string) {
	if v != "" {
		h.Set(k, v)
	}
}

// agentCall: an agent request (path "/agent/pending" | "/agent/request" | "/agent/response") authenticated
// with OAuth as oauthEmail ("" = no credentials), for backendID and (if non-empty) requestID.
func agentCall(oauthEmail string, backendID, requestID, path, method string, body []byte) (int, http.Header, []byte) {
	h := http.Header{}
	setIf(h, hdrVerifOAuth, oauthEmail)
	setIf(h, HeaderBackendID, backendID)
	setIf(h, HeaderRequestID, requestID)
	return verifCall("agent", method, path, h, body)
}

// apiCall: an admin API request ("/api/backends", "/api/backends/<id>", "/cron/delete") with the OAuth
// identity oauthEmail ("" = none), which is an app admin iff oauthAdmin.
func apiCall(oauthEmail string, oauthAdmin bool, method, path string, body []byte) (int, http.Header, []byte) {
	h := http.Header{}
	setIf(h, hdrVerifOAuth, oauthEmail)
	if oauthAdmin {
		h.Set(hdrVerifAdmin, "1")
	}
	return verifCall("api", method, path, h, body)
}

// userHeaders: what the App Engine front end adds for a signed-in user (read by user.Current / user.IsAdmin).
func userHeaders(email string, admin bool) http.Header {
	h := http.Header{}
	if email != "" {
		id := fnv.New64a()
		id.Write([]byte(email))
		h.Set("X-AppEngine-User-Email", email)
		h.Set("X-AppEngine-User-Id", strconv.FormatUint(id.Sum64(), 10))
		h.Set("X-AppEngine-Auth-Domain", "gmail.com")
		h.Set("X-AppEngine-User-Is-Admin", map[bool]string{true: "1", false: "0"}[admin])
	}
	return h
}

// userCall: an end-user request through proxyHandler, signed in as userEmail ("" = anonymous), with the
// given App Engine request ID ("" = auto). Blocks until an agent answered (or ~30 s): run it with async.
func userCall(userEmail string, admin bool, requestID, method, urlPath string, hdr http.Header, body []byte) (int, http.Header, []byte) {
	h := userHeaders(userEmail, admin)
	for k, v := range hdr {
		h[k] = v
	}
	setIf(h, hdrVerifReqID, requestID)
	return verifCall("default", method, urlPath, h, body)
}
