//go:build verif

package main

// fakeAE: an in-memory, strongly consistent fake of the App Engine APIs the proxy app uses
// (user.GetOAuthUser, datastore_v3, memcache). It is installed per request with
// appengine.WithAPICallFunc(ctx, f.call). The SDK's message types live in internal packages, so
// requests are marshalled and decoded by hand with protowire, and responses are hand-encoded
// bytes unmarshalled into `out` (see the .proto files in appengine/v2/internal/*).

import (
	"context"
	"crypto/sha256"
	"fmt"
	"math"
	"sort"
	"strconv"
	"strings"
	"sync"

	"github.com/golang/protobuf/proto"
	"google.golang.org/protobuf/encoding/protowire"
)

// ---------- wire helpers ----------

type fakeErr string // an error deliberately produced by the fake (anything else panicking is a bug)

func (e fakeErr) Error() string { return "fakeAE: " + string(e) }

type pfield struct {
	num protowire.Number
	v   uint64 // varint, fixed32, fixed64
	b   []byte // bytes, or the contents of a group
}
type pmsg []pfield

func pparse(b []byte) (m pmsg) {
	for len(b) > 0 {
		num, typ, n := protowire.ConsumeTag(b)
		if n < 0 {
			panic(fakeErr("malformed message (tag)"))
		}
		b = b[n:]
		f := pfield{num: num}
		switch typ {
		case protowire.VarintType:
			f.v, n = protowire.ConsumeVarint(b)
		case protowire.Fixed32Type:
			var x uint32
			x, n = protowire.ConsumeFixed32(b)
			f.v = uint64(x)
		case protowire.Fixed64Type:
			f.v, n = protowire.ConsumeFixed64(b)
		case protowire.BytesType:
			f.b, n = protowire.ConsumeBytes(b)
		case protowire.StartGroupType:
			f.b, n = protowire.ConsumeGroup(num, b)
		default:
			n = -1
		}
		if n < 0 {
			panic(fakeErr("malformed message (value)"))
		}
		b = b[n:]
		m = append(m, f)
	}
	return m
}

func (m pmsg) all(num protowire.Number) (fs []pfield) {
	for _, f := range m {
		if f.num == num {
			fs = append(fs, f)
		}
	}
	return fs
}
func (m pmsg) get(num protowire.Number) (pfield, bool) {
	fs := m.all(num)
	if len(fs) == 0 {
		return pfield{}, false
	}
	return fs[len(fs)-1], true
}
func (m pmsg) has(num protowire.Number) bool   { _, ok := m.get(num); return ok }
func (m pmsg) str(num protowire.Number) string { f, _ := m.get(num); return string(f.b) }
func (m pmsg) u64(num protowire.Number) uint64 { f, _ := m.get(num); return f.v }

func appendVarint(b []byte, num protowire.Number, v uint64) []byte {
	return protowire.AppendVarint(protowire.AppendTag(b, num, protowire.VarintType), v)
}
func appendBytes(b []byte, num protowire.Number, v []byte) []byte {
	return protowire.AppendBytes(protowire.AppendTag(b, num, protowire.BytesType), v)
}
func appendGroup(b []byte, num protowire.Number, inner []byte) []byte {
	b = append(protowire.AppendTag(b, num, protowire.StartGroupType), inner...)
	return protowire.AppendTag(b, num, protowire.EndGroupType)
}
func minInt(a, b int) int {
	if a < b {
		return a
	}
	return b
}
func boolU64(x bool) uint64 {
	if x {
		return 1
	}
	return 0
}

// ---------- datastore model ----------

// ekey identifies an entity. Only root keys are supported (the app never uses ancestors);
// name is the string ID, or "#<n>" for a numeric ID.
type ekey struct{ kind, name string }

func (k ekey) String() string { return k.kind + "/" + k.name }

func refKey(ref []byte) ekey {
	path, _ := pparse(ref).get(14)
	els := pparse(path.b).all(1)
	if len(els) != 1 {
		panic(fakeErr(fmt.Sprintf("key with %d path elements (only root keys are supported)", len(els))))
	}
	el := pparse(els[0].b)
	k := ekey{kind: el.str(2), name: el.str(4)}
	if k.name == "" {
		if !el.has(3) || el.u64(3) == 0 {
			panic(fakeErr("incomplete key (id allocation on Put is not supported)"))
		}
		k.name = "#" + strconv.FormatUint(el.u64(3), 10)
	}
	return k
}

// pval is a decoded PropertyValue: t is 'i' (int64, also times in µs), 'b', 's' (string/blob), 'd', or 0 (null).
type pval struct {
	t byte
	i int64
	s string
	d float64
}

func (v pval) String() string {
	switch v.t {
	case 'i':
		return strconv.FormatInt(v.i, 10)
	case 'b':
		return strconv.FormatBool(v.i != 0)
	case 'd':
		return strconv.FormatFloat(v.d, 'g', -1, 64)
	case 's':
		if len(v.s) <= 64 {
			return strconv.Quote(v.s)
		}
		h := sha256.Sum256([]byte(v.s))
		return fmt.Sprintf("bytes[%d]:%x", len(v.s), h[:8])
	}
	return "null"
}

// cmp orders two values of the same type; ok is false when the types differ (no filter matches then).
func (v pval) cmp(w pval) (c int, ok bool) {
	if v.t != w.t {
		return 0, false
	}
	switch v.t {
	case 'i', 'b':
		return cmpOrd(v.i, w.i), true
	case 'd':
		return cmpOrd(v.d, w.d), true
	}
	return strings.Compare(v.s, w.s), true
}
func cmpOrd[T int64 | float64](a, b T) int {
	if a < b {
		return -1
	} else if a > b {
		return 1
	}
	return 0
}

type prop struct {
	name    string
	val     pval
	indexed bool // listed under EntityProto.property (raw_property values are not queryable)
	when    bool // meaning GD_WHEN: a time in µs since the epoch
}

func decodeProp(b []byte, indexed bool) prop {
	m := pparse(b)
	p := prop{name: m.str(3), indexed: indexed, when: m.u64(1) == 7}
	val, _ := m.get(5)
	v := pparse(val.b)
	switch {
	case v.has(1):
		p.val = pval{t: 'i', i: int64(v.u64(1))}
	case v.has(2):
		p.val = pval{t: 'b', i: int64(v.u64(2))}
	case v.has(3):
		p.val = pval{t: 's', s: v.str(3)}
	case v.has(4):
		p.val = pval{t: 'd', d: math.Float64frombits(v.u64(4))}
	case len(v) > 0:
		panic(fakeErr("unsupported property value (point/user/reference) for " + p.name))
	}
	return p
}

type entity struct {
	raw, ref []byte // the EntityProto as written, and its key (Reference)
	props    []prop
}

func decodeEntity(raw []byte) *entity {
	m := pparse(raw)
	key, ok := m.get(13)
	if !ok {
		panic(fakeErr("entity without key"))
	}
	e := &entity{raw: raw, ref: key.b}
	for _, f := range m {
		if f.num == 14 || f.num == 15 {
			e.props = append(e.props, decodeProp(f.b, f.num == 14))
		}
	}
	return e
}

type qfilter struct {
	op uint64 // 1 <, 2 <=, 3 >, 4 >=, 5 =
	p  prop
}

var opNames = map[uint64]string{1: "<", 2: "<=", 3: ">", 4: ">=", 5: "="}

func (q qfilter) String() string { return q.p.name + opNames[q.op] + q.p.val.String() }

// matches: some indexed value of the property satisfies the operator (absent/unindexed never match).
func (q qfilter) matches(e *entity) bool {
	for _, p := range e.props {
		if c, ok := p.val.cmp(q.p.val); p.indexed && p.name == q.p.name && ok {
			if (q.op == 1 && c < 0) || (q.op == 2 && c <= 0) || (q.op == 3 && c > 0) || (q.op == 4 && c >= 0) || (q.op == 5 && c == 0) {
				return true
			}
		}
	}
	return false
}

func queryFilters(q pmsg) (fs []qfilter) {
	for _, g := range q.all(4) {
		m := pparse(g.b)
		ps := m.all(14)
		if opNames[m.u64(6)] == "" || len(ps) != 1 {
			panic(fakeErr(fmt.Sprintf("unsupported filter (op %d, %d properties)", m.u64(6), len(ps))))
		}
		fs = append(fs, qfilter{op: m.u64(6), p: decodeProp(ps[0].b, true)})
	}
	return fs
}

// ---------- the fake ----------

type oauthID struct {
	Email string
	Admin bool
}
type oauthCtxKey struct{}

// withOAuth sets the identity user.CurrentOAuth reports for calls made with ctx (nil: the call fails).
func withOAuth(ctx context.Context, id *oauthID) context.Context {
	return context.WithValue(ctx, oauthCtxKey{}, id)
}

// faultRule makes matching API calls fail. Empty Service/Method/Match match anything; Match is a
// substring of the call's subject (see callRec). Nth == 0: every matching call fails; Nth == n: only the n-th.
type faultRule struct {
	Service, Method, Match string
	Nth                    int
	Err                    error // default: a generic injected error
	seen                   int
}

// callRec is one logged API call. Subject: "kind/name,..." for datastore Put/Get/Delete,
// `kind prop=val ...` for RunQuery, "key,..." for memcache Get/Set.
type callRec struct{ Op, Subject, Err string }

type mcItem struct {
	val   []byte
	flags uint32
}

type fakeAE struct {
	mu     sync.Mutex
	ds     map[ekey]*entity
	mc     map[string]mcItem
	faults []*faultRule
	log    []callRec
	nextID uint64 // transaction handles and allocated ids

	MaxEntityBytes   int // Put fails for a larger EntityProto (0: no limit); the real limit is 1 MiB - 4
	MaxMemcacheBytes int // memcache Set reports ERROR for a larger value (0: no limit); the real limit is ~1 MiB
}

func newFakeAE() *fakeAE {
	f := &fakeAE{MaxEntityBytes: 1<<20 - 4, MaxMemcacheBytes: 1 << 20}
	f.reset()
	return f
}

// reset drops all state (datastore, memcache, fault rules, call log).
func (f *fakeAE) reset() {
	f.mu.Lock()
	defer f.mu.Unlock()
	f.ds, f.mc, f.faults, f.log, f.nextID = map[ekey]*entity{}, map[string]mcItem{}, nil, nil, 0
}

func (f *fakeAE) addFault(r faultRule) {
	f.mu.Lock()
	defer f.mu.Unlock()
	f.faults = append(f.faults, &r)
}

func (f *fakeAE) clearFaults() {
	f.mu.Lock()
	defer f.mu.Unlock()
	f.faults = nil
}

// calls returns the call log from index `since` on (use len(f.calls(0)) as a mark).
func (f *fakeAE) calls(since int) []callRec {
	f.mu.Lock()
	defer f.mu.Unlock()
	return append([]callRec(nil), f.log[minInt(since, len(f.log)):]...)
}

// sawCall reports whether a call `op` whose subject contains substr was logged at index >= since.
func (f *fakeAE) sawCall(since int, op, substr string) bool {
	for _, c := range f.calls(since) {
		if c.Op == op && strings.Contains(c.Subject, substr) {
			return true
		}
	}
	return false
}

// dropMemcache evicts the entries whose key starts with prefix ("" = all) and returns how many.
func (f *fakeAE) dropMemcache(prefix string) (n int) {
	f.mu.Lock()
	defer f.mu.Unlock()
	for k := range f.mc {
		if strings.HasPrefix(k, prefix) {
			delete(f.mc, k)
			n++
		}
	}
	return n
}

func (f *fakeAE) memcacheKeys() []string {
	f.mu.Lock()
	defer f.mu.Unlock()
	ks := make([]string, 0, len(f.mc))
	for k := range f.mc {
		ks = append(ks, k)
	}
	sort.Strings(ks)
	return ks
}

func (f *fakeAE) sortedKeys(kind string) (ks []ekey) { // f.mu held; kind "" = all kinds
	for k := range f.ds {
		if kind == "" || k.kind == kind {
			ks = append(ks, k)
		}
	}
	sort.Slice(ks, func(i, j int) bool {
		return ks[i].kind < ks[j].kind || (ks[i].kind == ks[j].kind && ks[i].name < ks[j].name)
	})
	return ks
}

// snapshot dumps the datastore deterministically, one line per entity in key order:
// `kind/name {prop=value, ...}` with properties sorted by name (values of a multi-valued property
// in stored order; long strings/blobs as length+hash; `~` marks unindexed). Values of the
// properties named in mask (e.g. timestamps) print as `_`.
func (f *fakeAE) snapshot(mask ...string) string {
	f.mu.Lock()
	defer f.mu.Unlock()
	var sb strings.Builder
	for _, k := range f.sortedKeys("") {
		ps := append([]prop(nil), f.ds[k].props...)
		sort.SliceStable(ps, func(i, j int) bool { return ps[i].name < ps[j].name })
		parts := make([]string, len(ps))
		for i, p := range ps {
			v := p.val.String()
			if p.when {
				v = "t" + v
			}
			for _, m := range mask {
				if m == p.name {
					v = "_"
				}
			}
			parts[i] = p.name + map[bool]string{true: "=", false: "~="}[p.indexed] + v
		}
		fmt.Fprintf(&sb, "%s {%s}\n", k, strings.Join(parts, ", "))
	}
	return sb.String()
}

// fault returns the error of the first rule that fires for this call (f.mu held).
func (f *fakeAE) fault(service, method, subject string) error {
	for _, r := range f.faults {
		if (r.Service != "" && r.Service != service) || (r.Method != "" && r.Method != method) || !strings.Contains(subject, r.Match) {
			continue
		}
		if r.seen++; r.Nth == 0 || r.seen == r.Nth {
			if r.Err != nil {
				return r.Err
			}
			return fakeErr(fmt.Sprintf("injected fault in %s.%s [%s]", service, method, subject))
		}
	}
	return nil
}

// call is the appengine.APICallFunc.
func (f *fakeAE) call(ctx context.Context, service, method string, in, out proto.Message) (err error) {
	if err := ctx.Err(); err != nil {
		return err // like internal.Call: no RPC on a finished context
	}
	raw, err := proto.Marshal(in)
	if err != nil {
		return err
	}
	rec := callRec{Op: service + "." + method}
	f.mu.Lock()
	defer f.mu.Unlock()
	defer func() {
		if r := recover(); r != nil {
			fe, ok := r.(fakeErr)
			if !ok {
				panic(r)
			}
			err = fe
		}
		if err != nil {
			rec.Err = err.Error()
		}
		f.log = append(f.log, rec)
	}()
	req := pparse(raw)
	rec.Subject = subject(rec.Op, req)
	if err := f.fault(service, method, rec.Subject); err != nil {
		return err
	}
	return proto.Unmarshal(f.exec(ctx, rec.Op, req), out)
}

func subject(op string, req pmsg) string {
	var parts []string
	keys := func(refs []pfield) {
		for _, r := range refs {
			parts = append(parts, refKey(r.b).String())
		}
	}
	switch op {
	case "datastore_v3.Put":
		for _, e := range req.all(1) {
			keys(pparse(e.b).all(13))
		}
	case "datastore_v3.Get":
		keys(req.all(1))
	case "datastore_v3.Delete":
		keys(req.all(6))
	case "datastore_v3.RunQuery":
		parts = append(parts, req.str(3))
		for _, q := range queryFilters(req) {
			parts = append(parts, q.String())
		}
		return strings.Join(parts, " ")
	case "memcache.Get":
		for _, k := range req.all(1) {
			parts = append(parts, string(k.b))
		}
	case "memcache.Set", "memcache.Delete":
		for _, it := range req.all(1) {
			parts = append(parts, pparse(it.b).str(2))
		}
	}
	return strings.Join(parts, ",")
}

// exec performs one call and returns the encoded response message (f.mu held).
func (f *fakeAE) exec(ctx context.Context, op string, req pmsg) (resp []byte) {
	switch op {
	case "user.GetOAuthUser": // GetOAuthUserResponse{email=1, user_id=2, auth_domain=3, is_admin=5}
		id, _ := ctx.Value(oauthCtxKey{}).(*oauthID)
		if id == nil {
			panic(fakeErr("API error 3 (user: OAUTH_INVALID_TOKEN): no OAuth identity"))
		}
		resp = appendBytes(resp, 1, []byte(id.Email))
		resp = appendBytes(resp, 2, []byte("oauth-uid:"+id.Email))
		resp = appendBytes(resp, 3, []byte("gmail.com"))
		return appendVarint(resp, 5, boolU64(id.Admin))

	case "datastore_v3.Put": // PutRequest{entity=1*} -> PutResponse{key=1*}
		var ents []*entity
		for _, e := range req.all(1) {
			if f.MaxEntityBytes > 0 && len(e.b) > f.MaxEntityBytes {
				panic(fakeErr(fmt.Sprintf("API error 1 (datastore_v3: BAD_REQUEST): entity is too big (%d bytes)", len(e.b))))
			}
			ents = append(ents, decodeEntity(e.b))
			refKey(ents[len(ents)-1].ref) // validate all keys before writing anything
		}
		for _, e := range ents {
			f.ds[refKey(e.ref)] = e
			resp = appendBytes(resp, 1, e.ref)
		}
		return resp

	case "datastore_v3.Get": // GetRequest{key=1*} -> GetResponse{group Entity=1 {entity=2 | key=4}*}
		for _, r := range req.all(1) {
			if e, ok := f.ds[refKey(r.b)]; ok {
				resp = appendGroup(resp, 1, appendBytes(nil, 2, e.raw))
			} else {
				resp = appendGroup(resp, 1, appendBytes(nil, 4, r.b))
			}
		}
		return resp

	case "datastore_v3.Delete": // DeleteRequest{key=6*} -> DeleteResponse{}
		for _, r := range req.all(6) {
			delete(f.ds, refKey(r.b))
		}
		return nil

	case "datastore_v3.RunQuery":
		return f.runQuery(req)

	case "datastore_v3.Next": // never needed: RunQuery returns everything at once
		return appendVarint(nil, 3, 0)

	case "datastore_v3.BeginTransaction": // -> Transaction{handle=1 fixed64, app=2}; writes apply immediately
		f.nextID++
		resp = protowire.AppendFixed64(protowire.AppendTag(resp, 1, protowire.Fixed64Type), f.nextID)
		return appendBytes(resp, 2, []byte(req.str(1)))

	case "datastore_v3.Commit", "datastore_v3.Rollback":
		return nil

	case "datastore_v3.AllocateIds": // AllocateIdsRequest{size=2} -> {start=1, end=2} (inclusive)
		n := req.u64(2)
		if n == 0 {
			n = 1
		}
		resp = appendVarint(resp, 1, f.nextID+1)
		f.nextID += n
		return appendVarint(resp, 2, f.nextID)

	case "memcache.Get": // MemcacheGetRequest{key=1*} -> {group Item=1 {key=2, value=3, flags=4 fixed32}*}
		for _, k := range req.all(1) {
			if it, ok := f.mc[string(k.b)]; ok {
				g := appendBytes(appendBytes(nil, 2, k.b), 3, it.val)
				g = protowire.AppendFixed32(protowire.AppendTag(g, 4, protowire.Fixed32Type), it.flags)
				resp = appendGroup(resp, 1, g)
			}
		}
		return resp

	case "memcache.Delete": // {group Item=1 {key=2, delete_time=3}*} -> {delete_status=1*} (1 DELETED, 2 NOT_FOUND)
		for _, g := range req.all(1) {
			key := pparse(g.b).str(2)
			if _, ok := f.mc[key]; ok {
				delete(f.mc, key)
				resp = appendVarint(resp, 1, 1)
			} else {
				resp = appendVarint(resp, 1, 2)
			}
		}
		return resp

	case "memcache.Set": // {group Item=1 {key=2, value=3, flags=4, set_policy=5}*} -> {set_status=1*}
		for _, g := range req.all(1) {
			it := pparse(g.b)
			key, val := it.str(2), it.str(3)
			_, exists := f.mc[key]
			policy := it.u64(5) // 0/1 SET, 2 ADD, 3 REPLACE, 4 CAS
			status := uint64(1) // STORED
			switch {
			case policy == 4:
				panic(fakeErr("memcache CAS is not supported"))
			case f.MaxMemcacheBytes > 0 && len(val) > f.MaxMemcacheBytes:
				status = 3 // ERROR
			case (policy == 2 && exists) || (policy == 3 && !exists):
				status = 2 // NOT_STORED
			default:
				f.mc[key] = mcItem{val: []byte(val), flags: uint32(it.u64(4))}
			}
			resp = appendVarint(resp, 1, status)
		}
		return resp
	}
	panic(fakeErr("API call not implemented: " + op))
}

// runQuery: Query{kind=3, group Filter=4 {op=6, property=14}, offset=12, limit=16, keys_only=21}
// -> QueryResult{result=2*, more_results=3, keys_only=4, skipped_results=7}; results in key order.
func (f *fakeAE) runQuery(q pmsg) (resp []byte) {
	for num, what := range map[protowire.Number]string{17: "ancestor", 9: "order", 33: "projection", 30: "cursor", 31: "end cursor"} {
		if q.has(num) {
			panic(fakeErr("unsupported query feature: " + what))
		}
	}
	filters := queryFilters(q)
	var hits []*entity
	for _, k := range f.sortedKeys(q.str(3)) {
		e, ok := f.ds[k], true
		for _, fl := range filters {
			ok = ok && fl.matches(e)
		}
		if ok {
			hits = append(hits, e)
		}
	}
	skip := minInt(int(int32(q.u64(12))), len(hits))
	hits = hits[skip:]
	if q.has(16) {
		hits = hits[:minInt(int(int32(q.u64(16))), len(hits))]
	}
	keysOnly := q.u64(21) != 0
	for _, e := range hits {
		if keysOnly { // EntityProto{key=13, entity_group=16 (required, empty)}
			resp = appendBytes(resp, 2, appendBytes(appendBytes(nil, 13, e.ref), 16, nil))
		} else {
			resp = appendBytes(resp, 2, e.raw)
		}
	}
	resp = appendVarint(resp, 3, 0)
	resp = appendVarint(resp, 4, boolU64(keysOnly))
	return appendVarint(resp, 7, uint64(skip))
}
