//go:build verif

package main

import (
	"bytes"
	"crypto/sha256"
	"encoding/json"
	"fmt"
	"net/http"
	"net/url"
	"sort"
	"strings"
	"time"

	"github.com/google/inverting-proxy/app/store"
	"github.com/google/inverting-proxy/app/types"
	"github.com/google/inverting-proxy/zz_verif/vh"
)

var _ = reg("appauth", suiteAppAuth)
var _ = reg("apprelay", suiteAppRelay)
var _ = reg("blob", suiteBlob)

// suiteBlob (C19, storage part): payloads stored with newBlob and read back with blob.read over the fake datastore
// (entity size limit 1 MiB - 4 as in production), sizes around every part boundary.
func suiteBlob(e *vh.Env) {
	e.OpenOps("blob")
	e.Result.Rule = "newBlob + blob.read of the real store over the fake datastore for payload sizes 0, 1, and L-1, L, L+1 around every multiple L = 1,000,000 up to 4L (thorough: 7L) plus random sizes and sizes with more than ten parts (11L+1, 21L+5; thorough: up to 31.5L); the payload read back must be identical; inlined length and part count are compared with Model/Blob; non-trivial = payload of at least L bytes"
	fake.reset()
	L := store.VerifFieldByteLimit
	var sizes []int
	maxK := 4
	if e.Thorough() {
		maxK = 7
	}
	sizes = append(sizes, 0, 1, 17)
	for k := 1; k <= maxK; k++ {
		sizes = append(sizes, k*L-1, k*L, k*L+1)
	}
	for k := 0; k < e.N(4, 40); k++ {
		sizes = append(sizes, e.Rng.Intn(maxK*L))
	}
	// part indices with two digits (App Engine accepts requests up to 32 MB): the parts must come back in index order
	sizes = append(sizes, 11*L+1, 21*L+5)
	if e.Thorough() {
		sizes = append(sizes, 10*L, 11*L, 31*L+L/2)
	}
	for i, n := range sizes {
		if !e.Want(i) {
			continue
		}
		data := e.Rng.Sub(i).Bytes(n)
		st, hdr, back := verifCall("blob", "POST", "/blob", http.Header{hdrVerifReqID: {fmt.Sprintf("blob-%d-%d", e.Seed, i)}}, data)
		if st != 200 {
			e.Fail("C19:blob-unreadable", fmt.Sprintf("a payload of %d bytes was stored but could not be read back: %d %s", n, st, truncBytes(back, 200)), i, nil, nil, nil)
			continue
		}
		if !bytes.Equal(back, data) {
			e.Fail("C19:blob-altered", fmt.Sprintf("a payload of %d bytes read back as %d bytes (first difference at %d)", n, len(back), firstDiff(back, data)), i, nil, len(back), n)
		}
		e.Op(fmt.Sprintf("shape %d", n), fmt.Sprintf("inlined=%s parts=%s", hdr.Get("X-Inlined"), hdr.Get("X-Parts")))
		e.Eval(fmt.Sprint(n), n >= L)
		e.Count(fmt.Sprintf("multiple-of-L:%v", n > 0 && n%L == 0))
		if i < 3 {
			e.Sample(map[string]interface{}{"size": n, "inlined": hdr.Get("X-Inlined"), "parts": hdr.Get("X-Parts")})
		}
	}
	blobFreshSurvivesCleanup(e, len(sizes))
}

// blobFreshSurvivesCleanup: the clean-up job deletes what is older than two minutes; a response stored just now (for
// a request started just now) is not, whatever its size - the waiting client still has to read it.
func blobFreshSurvivesCleanup(e *vh.Env, base int) {
	L := store.VerifFieldByteLimit
	for k, n := range []int{10, L - 1, L + 1, 2*L + 7} {
		if !e.Want(base + k) {
			continue
		}
		data := e.Rng.Sub(base + k).Bytes(n)
		st, _, back := verifCall("respcron", "POST", "/respcron", http.Header{hdrVerifReqID: {fmt.Sprintf("cron-%d-%d", e.Seed, k)}}, data)
		if st != 200 || !bytes.Equal(back, data) {
			e.Fail("C19:fresh-response-deleted-by-cleanup", fmt.Sprintf("a response of %d bytes was stored for a request that started just now; after one run of the clean-up job (which is to delete data older than two minutes) reading it back gave status %d, %d bytes: %s", n, st, len(back), truncBytes(back, 120)), base+k, nil, st, 200)
		}
		e.Eval(fmt.Sprintf("cleanup-%d", n), true)
		e.Count("fresh-response-vs-cleanup")
	}
}

func firstDiff(a, b []byte) int {
	for i := 0; i < len(a) && i < len(b); i++ {
		if a[i] != b[i] {
			return i
		}
	}
	if len(a) < len(b) {
		return len(a)
	}
	return len(b)
}

const adminOAuth = "admin@corp.example"

type aeBackend struct {
	id, agent, endUser string
	prefixes           []string
}

func registerBackend(e *vh.Env, b aeBackend) {
	js, _ := json.Marshal(types.Backend{BackendID: b.id, BackendUser: b.agent, EndUser: b.endUser, PathPrefixes: b.prefixes})
	if st, _, body := apiCall(adminOAuth, true, "POST", "/api/backends", js); st != 200 {
		e.Fail("C17:setup-add-backend", fmt.Sprintf("adding backend %s: %d %s", b.id, st, body), -1, nil, nil, nil)
	}
}

// goLive starts a pending-list call for the backend (which records it as seen) and returns its reply channel.
func goLive(e *vh.Env, b aeBackend) <-chan reply {
	mark := len(fake.calls(0))
	ch := async(func() (int, http.Header, []byte) { return agentCall(b.agent, b.id, "", "/agent/pending", "GET", nil) })
	if !waitFor(5*time.Second, func() bool { return fake.sawCall(mark, "datastore_v3.Put", "backendTracker/"+b.id) }) {
		e.Fail("C17:setup-go-live", "backend "+b.id+" was not recorded as seen", -1, nil, nil, nil)
	}
	return ch
}

func httpResponseBytes(status string, hdr [][2]string, body []byte) []byte {
	var w bytes.Buffer
	fmt.Fprintf(&w, "HTTP/1.1 %s\r\n", status)
	for _, kv := range hdr {
		fmt.Fprintf(&w, "%s: %s\r\n", kv[0], kv[1])
	}
	fmt.Fprintf(&w, "Content-Length: %d\r\n\r\n", len(body))
	w.Write(body)
	return w.Bytes()
}

func hx(s string) string { return vh.Hex([]byte(s)) }

// suiteAppAuth (C17): identities x backend IDs x request IDs x endpoints against the real
// handlers and real stores over the fake App Engine API; compared with Model/AppAuth.
func suiteAppAuth(e *vh.Env) {
	e.OpenOps("appauth")
	e.Result.Rule = "registered backends {b1: agent1/alice, b2: agent2/bob, b3: agent3/allUsers}; stored requests under b1 and b2; every combination of caller identity {none, agent1, agent2, stranger} x backend ID {b1, b2, unknown, empty} x request ID {b1's, b2's, unknown, empty} x endpoint {fetch, respond} (+ list where it cannot block), compared with the model and with the oracles: non-401 only for the registered backend user, a 401 leaves the datastore unchanged and its body does not depend on stored requests; admin API x {anonymous, signed-in non-admin, OAuth non-admin, admins}; end-user routing x {alice, bob, carol, anonymous}; non-trivial = call naming an existing backend with a wrong or missing identity, or a request ID of another backend"
	fake.reset()
	bs := []aeBackend{{"b1", "agent1@svc", "alice@x", []string{"/a"}}, {"b2", "agent2@svc", "bob@x", []string{"/b"}}, {"b3", "agent3@svc", "allUsers", []string{"/shared"}},
		{"b4", "agent4@svc", "dave@x", []string{"/d"}},        // never polled: not live
		{"b5", "agent5@svc", "allUsers", []string{"/d"}},      // live, shared, same prefix as dave's own dead backend
		{"b6", "agent6@svc", "alice@x", []string{"/a/deep"}},  // live, more specific than b1 for alice
		{"b7", "agent7@svc", "Mixed.Case@X", []string{"/mc"}}} // a user whose address has capitals
	// admin API first: non-admins get 403 and change nothing
	js1, _ := json.Marshal(types.Backend{BackendID: "evil", BackendUser: "x@y", EndUser: "allUsers", PathPrefixes: []string{"/"}})
	for i, who := range []struct {
		name         string
		oauth        string
		oauthAdmin   bool
		user         string
		userAdmin    bool
		wantAdmitted bool
	}{{"anonymous", "", false, "", false, false}, {"signed-in-user", "", false, "alice@x", false, false}, {"oauth-non-admin", "agent1@svc", false, "", false, false},
		{"oauth-admin", adminOAuth, true, "", false, true}, {"console-admin", "", false, "root@x", true, true}} {
		for _, op := range []struct {
			method, path string
			body         []byte
		}{{"GET", "/api/backends", nil}, {"POST", "/api/backends", js1}, {"DELETE", "/api/backends/evil", nil}} {
			before := fake.snapshot("LastSeen")
			h := userHeaders(who.user, who.userAdmin)
			setIf(h, hdrVerifOAuth, who.oauth)
			if who.oauthAdmin {
				h.Set(hdrVerifAdmin, "1")
			}
			st, _, _ := verifCall("api", op.method, op.path, h, op.body)
			after := fake.snapshot("LastSeen")
			if !who.wantAdmitted && (st != 403 || before != after) {
				e.Fail("C17:admin-api-open", fmt.Sprintf("%s %s as %s: status %d, datastore changed: %v", op.method, op.path, who.name, st, before != after), i, nil, st, 403)
			}
			if who.wantAdmitted && st != 200 {
				e.Fail("C17:admin-api-refused", fmt.Sprintf("%s %s as %s: status %d", op.method, op.path, who.name, st), i, nil, st, 200)
			}
			opn := map[string]string{"GET": "list", "POST": "add", "DELETE": "del"}[op.method]
			e.Op(fmt.Sprintf("admin %s %s", map[bool]string{true: "1", false: "0"}[who.wantAdmitted], opn), fmt.Sprint(st))
			e.Eval("admin:"+who.name+op.method, !who.wantAdmitted)
			e.Count("admin-api")
		}
	}
	for _, b := range bs {
		registerBackend(e, b)
		e.Op(fmt.Sprintf("backend %s %s %s %s", hx(b.id), hx(b.agent), hx(b.endUser), hx(b.prefixes[0])), "ok")
	}
	// make b1, b2, b3 live and store one request under each of b1, b2 (the list calls return them)
	l1, l2, l3 := goLive(e, bs[0]), goLive(e, bs[1]), goLive(e, bs[2])
	goLive(e, bs[4])
	goLive(e, bs[5])
	goLive(e, bs[6])
	live := hx("b1") + "," + hx("b2") + "," + hx("b3") + "," + hx("b5") + "," + hx("b6") + "," + hx("b7")
	u1 := async(func() (int, http.Header, []byte) {
		return userCall("alice@x", false, "rid-alice", "POST", "/a/x", nil, []byte("alice-body"))
	})
	u2 := async(func() (int, http.Header, []byte) {
		return userCall("bob@x", false, "rid-bob", "POST", "/b/y", nil, []byte("bob-body"))
	})
	r1, ok1 := await(l1, 35*time.Second)
	r2, ok2 := await(l2, 35*time.Second)
	if !ok1 || !ok2 || !strings.Contains(string(r1.Body), "rid-alice") || !strings.Contains(string(r2.Body), "rid-bob") {
		e.Fail("C17:setup-pending", fmt.Sprintf("pending lists: %q %q", r1.Body, r2.Body), -1, nil, nil, nil)
		return
	}
	e.Op(fmt.Sprintf("store %s %s %s", hx("b1"), hx("rid-alice"), hx("alice@x")), "ok")
	e.Op(fmt.Sprintf("store %s %s %s", hx("b2"), hx("rid-bob"), hx("bob@x")), "ok")
	// end-user routing: who reaches which backend (observed through the datastore keys)
	for i, u := range []struct{ user, path, want string }{{"alice@x", "/a/1", "b1"}, {"alice@x", "/b/1", ""}, {"bob@x", "/b/1", "b2"}, {"carol@x", "/a/1", ""}, {"carol@x", "/shared/z", "b3"}, {"alice@x", "/shared/z", "b3"}, {"", "/a/1", "401"},
		{"alice@x", "/a/deep/x", "b6"}, {"alice@x", "/a/dee", "b1"}, {"dave@x", "/d/1", ""}, {"carol@x", "/d/1", "b5"}, {"dave@x", "/shared/1", "b3"},
		// other spellings of the same paths: routing depends on the path, not on how the client escaped it
		{"Mixed.Case@X", "/mc/1", "b7"}, {"mixed.case@x", "/mc/1", ""},
		{"alice@x", "/%61/deep/x", "b6"}, {"alice@x", "/a/d%65ep/x", "b6"}, {"alice@x", "/a/deep%2Fx", "b6"}, {"dave@x", "/%64/1", ""}, {"carol@x", "/sh%61red/z", "b3"}} {
		rid := fmt.Sprintf("route-%d", i)
		ch := async(func() (int, http.Header, []byte) { return userCall(u.user, false, rid, "GET", u.path, nil, nil) })
		var got string
		waitFor(1500*time.Millisecond, func() bool {
			snap := fake.snapshot()
			for _, b := range []string{"b1", "b2", "b3", "b4", "b5", "b6", "b7"} {
				if strings.Contains(snap, fmt.Sprintf("req:%q/%s", b, rid)) {
					got = b
					return true
				}
			}
			select {
			case r := <-ch:
				if r.Status == 401 {
					got = "401"
				}
				return true
			default:
				return false
			}
		})
		if got != u.want {
			e.Fail("C18:enduser-routing", fmt.Sprintf("user %q path %s was routed to %q, want %q", u.user, u.path, got, u.want), i, nil, got, u.want)
		}
		if u.user != "" {
			obs := "404"
			if got != "" {
				obs = hx(got)
			}
			decoded, _ := url.PathUnescape(u.path)
			e.Op(fmt.Sprintf("lookup %s %s %s", hx(u.user), hx(decoded), live), obs)
		}
		if got != "" && got != "401" {
			owner := map[string]string{"b1": "alice@x", "b2": "bob@x", "b3": "allUsers", "b4": "dave@x", "b5": "allUsers", "b6": "alice@x", "b7": "Mixed.Case@X"}[got]
			if owner != u.user && owner != "allUsers" {
				e.Fail("C17:enduser-reached-foreign-backend", fmt.Sprintf("user %q reached backend %s registered for %q", u.user, got, owner), i, nil, nil, nil)
			}
			// release the waiting client
			ag := "agent" + got[1:] + "@svc"
			agentCall(ag, got, rid, "/agent/response", "POST", httpResponseBytes("200 OK", nil, []byte("ok")))
			e.Op(fmt.Sprintf("store %s %s %s", hx(got), hx(rid), hx(u.user)), "ok")
			e.Op(fmt.Sprintf("agent %s respond %s %s", hx(ag), hx(got), hx(rid)), "200")
		}
		e.Eval("route:"+u.user+u.path, true)
		e.Count("enduser-routing")
	}
	_ = l3
	// the cross product of agent calls
	ids := []string{"", "agent1@svc", "agent2@svc", "stranger@svc", emptyEmailToken}
	bids := []string{"b1", "b2", "nope", ""}
	rids := []string{"rid-alice", "rid-bob", "unknown", ""}
	idx := 0
	bodies401 := map[string]string{}
	for _, id := range ids {
		for _, bid := range bids {
			for _, rid := range rids {
				for _, ep := range []string{"fetch", "respond"} {
					idx++
					if !e.Want(idx) {
						continue
					}
					path, method := "/agent/request", "GET"
					var payload []byte
					if ep == "respond" {
						path, method = "/agent/response", "POST"
						payload = httpResponseBytes("200 OK", nil, []byte("answer-"+id+"-"+bid+"-"+rid))
					}
					before := fake.snapshot("LastActive", "Latency", "LastSeen")
					st, _, body := agentCall(id, bid, rid, path, method, payload)
					after := fake.snapshot("LastActive", "Latency", "LastSeen")
					registered := map[string]string{"b1": "agent1@svc", "b2": "agent2@svc"}[bid]
					authorised := id != "" && id == registered
					what := fmt.Sprintf("%s as %q for backend %q request %q: status %d", ep, id, bid, rid, st)
					if st != 401 && !authorised {
						e.Fail("C17:agent-call-not-authorised", what+" although the caller is not the registered backend user", idx, nil, st, 401)
					}
					if st == 401 {
						if before != after {
							e.Fail("C17:unauthorised-call-changed-store", what+" and the datastore changed", idx, nil, nil, nil)
						}
						key := id + "|" + bid + "|" + ep
						if prev, seen := bodies401[key]; seen && prev != string(body) {
							e.Fail("C17:unauthorised-learns", what+fmt.Sprintf(": the 401 body depends on the request ID: %q vs %q", prev, body), idx, nil, nil, nil)
						}
						bodies401[key] = string(body)
					}
					if authorised && ep == "fetch" && st == 200 {
						want := map[string]string{"rid-alice": "alice-body", "rid-bob": "bob-body"}[rid]
						own := map[string]string{"b1": "rid-alice", "b2": "rid-bob"}[bid]
						if rid != own || !bytes.HasSuffix(body, []byte(want)) {
							e.Fail("C17:fetched-foreign-request", what+fmt.Sprintf(": body %q", body), idx, nil, nil, nil)
						}
					}
					if authorised && st != 401 && before != after {
						// only this backend's request and the response under this request ID may change
						for _, l := range diffLines(before, after) {
							if !strings.Contains(l, fmt.Sprintf("req:%q/%s", bid, rid)) && !strings.Contains(l, "response/"+rid) && !strings.Contains(l, "activityTracker/"+bid) && !strings.Contains(l, "blobParts/"+rid) {
								e.Fail("C17:agent-call-out-of-scope", what+": changed "+l, idx, nil, nil, nil)
							}
						}
					}
					obs := fmt.Sprint(st)
					if st == 200 && ep == "fetch" {
						obs += fmt.Sprintf(" %x", sha256.Sum256(body))[:20]
					}
					idHex := "-"
					if id != "" {
						idHex = hx(id)
					}
					e.Op(fmt.Sprintf("agent %s %s %s %s", idHex, ep, hx(bid), hx(rid)), fmt.Sprint(st))
					e.Eval(fmt.Sprintf("%s|%s|%s|%s", id, bid, rid, ep), (bid == "b1" || bid == "b2") && !authorised || (authorised && rid != map[string]string{"b1": "rid-alice", "b2": "rid-bob"}[bid]))
					e.Count(fmt.Sprintf("status=%d", st))
					if idx < 4 {
						e.Sample(map[string]interface{}{"identity": id, "backend": bid, "request": rid, "endpoint": ep, "status": st})
					}
				}
			}
		}
	}
	// hand-over histories: a backend ID is re-registered for another agent account (with and without deleting it
	// first); the previous account must be refused from then on, however recently it was authorised
	// deleting a backend revokes its agent, whatever characters the ID contains
	for _, id := range []string{"team/a", "zones/z1/instances/nb-7", "a"} {
		registerBackend(e, aeBackend{id, "slash-agent@svc", "slash-user@x", []string{"/sl"}})
	}
	for _, id := range []string{"team/a", "zones/z1/instances/nb-7"} {
		if st, _, body := apiCall(adminOAuth, true, "DELETE", "/api/backends/"+id, nil); st != 200 {
			e.Fail("C17:setup-delete-backend", fmt.Sprintf("deleting backend %s: %d %s", id, st, body), -1, nil, nil, nil)
		}
		if st, _, _ := agentCall("slash-agent@svc", id, "no-such-request", "/agent/request", "GET", nil); st != 401 {
			e.Fail("C17:previous-agent-still-authorised", fmt.Sprintf("backend %q was deleted by an administrator (DELETE answered 200); its former agent then called /agent/request and got status %d", id, st), -1, nil, st, 401)
		}
		e.Eval("delete-revokes:"+id, true)
	}
	if st, _, _ := agentCall("slash-agent@svc", "a", "no-such-request", "/agent/request", "GET", nil); st == 401 {
		e.Fail("C17:authorised-agent-refused", "backend \"a\" was never deleted (only \"team/a\" was), yet its registered agent got 401", -1, nil, st, nil)
	}
	for i, del := range []bool{false, true} {
		id := fmt.Sprintf("handover-%d", i)
		b1 := aeBackend{id, "old-agent@svc", "ho-user@x", []string{"/ho" + fmt.Sprint(i)}}
		b2 := aeBackend{id, "new-agent@svc", "ho-user@x", []string{"/ho" + fmt.Sprint(i)}}
		registerBackend(e, b1)
		for k := 0; k < 3; k++ { // several authorised calls by the old account (anything a cache could remember)
			if st, _, _ := agentCall(b1.agent, id, "no-such-request", "/agent/request", "GET", nil); st == 401 {
				e.Fail("C17:authorised-agent-refused", fmt.Sprintf("registered agent of %s got 401", id), -1, nil, nil, nil)
			}
		}
		if del {
			if st, _, body := apiCall(adminOAuth, true, "DELETE", "/api/backends/"+id, nil); st != 200 {
				e.Fail("C17:setup-delete-backend", fmt.Sprintf("deleting backend %s: %d %s", id, st, body), -1, nil, nil, nil)
			}
		}
		registerBackend(e, b2)
		// at once, before the new account has made any call
		if st, _, body := agentCall(b1.agent, id, "no-such-request", "/agent/request", "GET", nil); st != 401 {
			e.Fail("C17:previous-agent-still-authorised", fmt.Sprintf("backend %s was re-registered for %s (delete first: %v); the previous agent account %s called /agent/request straight afterwards and got status %d, body %q", id, b2.agent, del, b1.agent, st, truncBytes(body, 80)), -1, nil, st, 401)
		}
		lv := goLive(e, b2)
		uc := async(func() (int, http.Header, []byte) {
			return userCall(b2.endUser, false, "ho-req", "POST", "/ho"+fmt.Sprint(i)+"/x", nil, []byte("handover-secret"))
		})
		await(lv, 35*time.Second)
		for _, ep := range []string{"/agent/request", "/agent/pending"} {
			ch := async(func() (int, http.Header, []byte) { return agentCall(b1.agent, id, "ho-req", ep, "GET", nil) })
			r, ok := await(ch, 40*time.Second)
			if !ok || r.Status != 401 {
				e.Fail("C17:previous-agent-still-authorised", fmt.Sprintf("backend %s was re-registered for %s (delete first: %v); the previous agent account %s called %s and got status %d, body %q", id, b2.agent, del, b1.agent, ep, r.Status, truncBytes(r.Body, 80)), -1, nil, r.Status, 401)
			}
		}
		if st, _, _ := agentCall(b1.agent, id, "ho-req", "/agent/response", "POST", httpResponseBytes("200 OK", nil, []byte("forged"))); st != 401 {
			e.Fail("C17:previous-agent-still-authorised", fmt.Sprintf("backend %s re-registered; the previous agent account answered a request (status %d)", id, st), -1, nil, st, 401)
		}
		agentCall(b2.agent, id, "ho-req", "/agent/response", "POST", httpResponseBytes("200 OK", nil, []byte("genuine")))
		if r, ok := await(uc, 10*time.Second); !ok || string(r.Body) != "genuine" {
			e.Fail("C17:previous-agent-still-authorised", fmt.Sprintf("the client of re-registered backend %s received %q instead of the new agent's answer", id, r.Body), -1, nil, nil, nil)
		}
		e.Eval(fmt.Sprintf("handover delete-first=%v", del), true)
		e.Count("handover")
	}
	// IDs containing the separators of the cache/datastore keys: backend "team" with request "prod:R" must not
	// reach request "R" of backend "team:prod" (and similar pairs), neither through the datastore nor through memcache
	for i, pair := range [][4]string{{"team:prod", "R1", "team", "prod:R1"}, {"t", "x\":\"R2", "t\":\"x", "R2"}, {"q:", "R3", "q", ":R3"}} {
		victim, vrid, attacker, arid := pair[0], pair[1], pair[2], pair[3]
		bv := aeBackend{victim, "victim-agent@svc", "vic" + fmt.Sprint(i) + "@x", []string{"/k" + fmt.Sprint(i)}}
		ba := aeBackend{attacker, "attacker-agent@svc", "att" + fmt.Sprint(i) + "@x", []string{"/z" + fmt.Sprint(i)}}
		registerBackend(e, bv)
		registerBackend(e, ba)
		lv := goLive(e, bv)
		uc := async(func() (int, http.Header, []byte) {
			return userCall(bv.endUser, false, vrid, "POST", "/k"+fmt.Sprint(i)+"/secret", nil, []byte("victim-secret-body"))
		})
		await(lv, 35*time.Second)
		stF, _, bodyF := agentCall(ba.agent, ba.id, arid, "/agent/request", "GET", nil)
		if stF == 200 && bytes.Contains(bodyF, []byte("victim-secret-body")) {
			e.Fail("C17:cross-backend-fetch", fmt.Sprintf("agent of backend %q fetched the request %q of backend %q by naming request ID %q", ba.id, vrid, bv.id, arid), -1, nil, nil, nil)
		}
		stR, _, _ := agentCall(ba.agent, ba.id, arid, "/agent/response", "POST", httpResponseBytes("200 OK", nil, []byte("forged")))
		if stR == 200 {
			e.Fail("C17:cross-backend-respond", fmt.Sprintf("agent of backend %q answered the request %q of backend %q by naming request ID %q", ba.id, vrid, bv.id, arid), -1, nil, nil, nil)
		}
		agentCall(bv.agent, bv.id, vrid, "/agent/response", "POST", httpResponseBytes("200 OK", nil, []byte("genuine")))
		if r, ok := await(uc, 10*time.Second); !ok || string(r.Body) != "genuine" {
			e.Fail("C17:cross-backend-respond", fmt.Sprintf("the client of backend %q received %q instead of its own agent's answer", bv.id, r.Body), -1, nil, nil, nil)
		}
		e.Eval("separator-ids:"+victim+"|"+attacker, true)
		e.Count("separator-ids")
	}
	// a GET answer remembered by the proxy, then the backend goes away: without a live matching backend the answer
	// is 404 whatever an earlier request left behind (the decision depends only on backends, user and path)
	{
		b := aeBackend{"cg", "cg-agent@svc", "cg-user@x", []string{"/cg"}}
		registerBackend(e, b)
		lv := goLive(e, b)
		uc := async(func() (int, http.Header, []byte) {
			return userCall(b.endUser, false, "cg-1", "GET", "/cg/page?x=1", nil, nil)
		})
		await(lv, 35*time.Second)
		agentCall(b.agent, b.id, "cg-1", "/agent/response", "POST", httpResponseBytes("200 OK", nil, []byte("remembered-page")))
		r1, ok := await(uc, 10*time.Second)
		if ok && r1.Status == 200 {
			// the same path with another query is another request: it is relayed, not answered with the remembered page
			lv2 := async(func() (int, http.Header, []byte) { return agentCall(b.agent, b.id, "", "/agent/pending", "GET", nil) })
			uq := async(func() (int, http.Header, []byte) {
				return userCall(b.endUser, false, "cg-q2", "GET", "/cg/page?x=2", nil, nil)
			})
			if pr, okp := await(lv2, 5*time.Second); okp && strings.Contains(string(pr.Body), "cg-q2") {
				agentCall(b.agent, b.id, "cg-q2", "/agent/response", "POST", httpResponseBytes("200 OK", [][2]string{{"Cache-Control", "no-store"}}, []byte("page-for-x=2")))
			}
			if rq, okq := await(uq, 5*time.Second); !okq || string(rq.Body) != "page-for-x=2" {
				e.Fail("C19:wrong-response", fmt.Sprintf("user %s asked for /cg/page?x=2 after /cg/page?x=1 had been answered; received status %d body %q", b.endUser, rq.Status, truncBytes(rq.Body, 40)), -1, nil, string(rq.Body), "page-for-x=2")
			}
			if st, _, body := apiCall(adminOAuth, true, "DELETE", "/api/backends/"+b.id, nil); st != 200 {
				e.Fail("C17:setup-delete-backend", fmt.Sprintf("deleting backend %s: %d %s", b.id, st, body), -1, nil, nil, nil)
			}
			for _, path := range []string{"/cg/page?x=1", "/cg/other"} {
				ch := async(func() (int, http.Header, []byte) { return userCall(b.endUser, false, "cg-2", "GET", path, nil, nil) })
				r2, ok2 := await(ch, 3*time.Second)
				if !ok2 || r2.Status != 404 {
					e.Fail("C18:answered-without-live-backend", fmt.Sprintf("user %s GET %s after the only matching backend was deleted: status %d body %q (answered before: %v), want 404", b.endUser, path, r2.Status, truncBytes(r2.Body, 40), path == "/cg/page?x=1"), -1, nil, r2.Status, 404)
				}
			}
		} else {
			e.Fail("C18:setup-cached-get", fmt.Sprintf("first GET: ok=%v status %d", ok, r1.Status), -1, nil, nil, nil)
		}
		e.Eval("cached-get-then-backend-deleted", true)
		e.Count("cached-get-then-backend-deleted")
	}
	// a user with more backends than any single datastore operation is usually limited to (500): the longest match
	// still wins, wherever its backend sorts
	{
		const many = 505
		for k := 0; k < many; k++ {
			registerBackend(e, aeBackend{fmt.Sprintf("many-%04d", k), "many-agent@svc", "many-user@x", []string{fmt.Sprintf("/m%04d", k)}})
		}
		last := aeBackend{fmt.Sprintf("many-%04d", many-1), "many-agent@svc", "many-user@x", nil}
		pl := goLive(e, last)
		uc := async(func() (int, http.Header, []byte) {
			return userCall("many-user@x", false, "many-1", "POST", fmt.Sprintf("/m%04d/x", many-1), nil, []byte("b"))
		})
		routed := waitFor(3*time.Second, func() bool { return strings.Contains(fake.snapshot(), fmt.Sprintf("req:%q/many-1", last.id)) })
		if !routed {
			r, _ := await(uc, 2*time.Second)
			e.Fail("C18:enduser-routing", fmt.Sprintf("user many-user@x has %d backends with prefixes /m0000 .. /m%04d; only %s is live; a request for /m%04d/x was not routed to it (status %d)", many, many-1, last.id, many-1, r.Status), -1, nil, r.Status, last.id)
		} else {
			await(pl, 35*time.Second)
			agentCall(last.agent, last.id, "many-1", "/agent/response", "POST", httpResponseBytes("200 OK", nil, []byte("ok")))
			await(uc, 5*time.Second)
		}
		e.Eval("more-than-500-backends", true)
		e.Count("more-than-500-backends-of-one-user")
	}
	// liveness follows the agent's latest poll: the record of an earlier poll is about to leave the 5-minute window,
	// the agent polls once more (a poll that returns at once because a request is waiting), the old record's time
	// runs out - the backend is still live, because it polled a moment ago
	{
		b := aeBackend{"lv", "lv-agent@svc", "lv-user@x", []string{"/lv"}}
		registerBackend(e, b)
		serve := func(rid string, poll <-chan reply) bool { // the agent's poll returns rid; answer it
			r, ok := await(poll, 35*time.Second)
			if !ok || !strings.Contains(string(r.Body), rid) {
				return false
			}
			agentCall(b.agent, b.id, rid, "/agent/response", "POST", httpResponseBytes("200 OK", nil, []byte("ok")))
			return true
		}
		p1 := goLive(e, b)
		u0 := async(func() (int, http.Header, []byte) {
			return userCall(b.endUser, false, "lv-0", "POST", "/lv/x", nil, []byte("b0"))
		})
		ok := serve("lv-0", p1)
		await(u0, 5*time.Second)
		// no poll is in flight now; let 4m59.4s pass
		verifCall("age", "POST", "/age?backend=lv&ago=4m59.4s", nil, nil)
		aged := time.Now()
		u1 := async(func() (int, http.Header, []byte) {
			return userCall(b.endUser, false, "lv-1", "POST", "/lv/x", nil, []byte("b1"))
		})
		ok = ok && waitFor(3*time.Second, func() bool { return strings.Contains(fake.snapshot(), fmt.Sprintf("req:%q/lv-1", "lv")) })
		p2 := async(func() (int, http.Header, []byte) { return agentCall(b.agent, b.id, "", "/agent/pending", "GET", nil) })
		ok = ok && serve("lv-1", p2)
		polled := time.Now()
		await(u1, 5*time.Second)
		if !ok {
			e.Fail("C18:setup-liveness", "the preparatory exchanges did not complete", -1, nil, nil, nil)
		} else {
			time.Sleep(time.Until(aged.Add(900 * time.Millisecond))) // the earlier record is now more than five minutes old
			uc := async(func() (int, http.Header, []byte) {
				return userCall(b.endUser, false, "lv-2", "POST", "/lv/x", nil, []byte("b2"))
			})
			routed := waitFor(3*time.Second, func() bool { return strings.Contains(fake.snapshot(), fmt.Sprintf("req:%q/lv-2", "lv")) })
			if !routed {
				r, _ := await(uc, 2*time.Second)
				e.Fail("C18:live-backend-not-routed", fmt.Sprintf("the agent of backend lv polled %v ago (its previous poll was 5 minutes ago); a request of %s for /lv/x was not routed to it (status %d)", time.Since(polled).Round(10*time.Millisecond), b.endUser, r.Status), -1, nil, r.Status, "routed to lv")
			} else {
				agentCall(b.agent, b.id, "lv-2", "/agent/response", "POST", httpResponseBytes("200 OK", nil, []byte("ok")))
				await(uc, 5*time.Second)
			}
		}
		e.Eval("liveness-follows-latest-poll", true)
		e.Count("liveness-follows-latest-poll")
	}
	// unauthorised list calls (cannot block: rejected before any wait)
	for _, c := range []struct{ id, bid string }{{"", "b1"}, {"agent2@svc", "b1"}, {"stranger@svc", "b2"}, {"agent1@svc", "nope"}, {"agent1@svc", ""}} {
		st, _, _ := agentCall(c.id, c.bid, "", "/agent/pending", "GET", nil)
		if st != 401 {
			e.Fail("C17:agent-call-not-authorised", fmt.Sprintf("list as %q for %q: %d", c.id, c.bid, st), -1, nil, st, 401)
		}
		idHex := "-"
		if c.id != "" {
			idHex = hx(c.id)
		}
		e.Op(fmt.Sprintf("agent %s list %s %s", idHex, hx(c.bid), hx("")), fmt.Sprint(st))
		e.Eval("list|"+c.id+"|"+c.bid, true)
	}
	// release the two original clients
	agentCall("agent1@svc", "b1", "rid-alice", "/agent/response", "POST", httpResponseBytes("200 OK", nil, []byte("done")))
	agentCall("agent2@svc", "b2", "rid-bob", "/agent/response", "POST", httpResponseBytes("200 OK", nil, []byte("done")))
	await(u1, 5*time.Second)
	await(u2, 5*time.Second)
}

func diffLines(a, b string) []string {
	as, bs := strings.Split(a, "\n"), strings.Split(b, "\n")
	am, bm := map[string]bool{}, map[string]bool{}
	for _, l := range as {
		am[l] = true
	}
	for _, l := range bs {
		bm[l] = true
	}
	var out []string
	for _, l := range as {
		if !bm[l] {
			out = append(out, "-"+l)
		}
	}
	for _, l := range bs {
		if !am[l] {
			out = append(out, "+"+l)
		}
	}
	sort.Strings(out)
	return out
}

// suiteAppRelay (C19): concurrent clients and agents, payload sizes around the 1,000,000-byte
// limits, memcache drops, and failing store operations.
func suiteAppRelay(e *vh.Env) {
	e.OpenOps("apprelay")
	e.Result.Rule = "end-to-end exchanges through the real client and agent handlers and the real caching+persistent stores over the fake App Engine API: request and response payload sizes {0, 1, 999999, 1000000, 1000001, 1999999, 2000000, 2000001, 3000007} (quick: a subset), concurrent clients, memcache dropped between write and read, fault rules on each store operation of the response path alone and in pairs; the agent must fetch exactly the client's serialised request, the client must receive exactly the posted response, a completed request must leave the pending list, and every call must return; non-trivial = exchange with a payload of at least 1,000,000 bytes, a memcache drop or a fault rule"
	fake.reset()
	b := aeBackend{"rb", "ragent@svc", "ruser@x", []string{"/"}}
	registerBackend(e, b)
	sizes := []int{0, 1, 999999, 1000000, 1000001, 2000000}
	if e.Thorough() {
		sizes = []int{0, 1, 999999, 1000000, 1000001, 1999999, 2000000, 2000001, 3000007}
	}
	idx := 0
	exchange := func(reqSize, respSize int, drop bool, faults []faultRule, key string) {
		idx++
		if !e.Want(idx) {
			return
		}
		rng := e.Rng.Sub(idx)
		rid := fmt.Sprintf("x-%d", idx)
		reqBody, respBody := rng.Bytes(reqSize), rng.Bytes(respSize)
		pend := goLive(e, b)
		method := "POST"
		cl := async(func() (int, http.Header, []byte) {
			return userCall("ruser@x", false, rid, method, "/p/"+rid+"?q=1", http.Header{"X-Client": {"a", "b"}}, reqBody)
		})
		p, ok := await(pend, 40*time.Second)
		what := fmt.Sprintf("exchange %d (%s): request body %d bytes, response body %d bytes, memcache drop %v", idx, key, reqSize, respSize, drop)
		if !ok || !strings.Contains(string(p.Body), `"`+rid+`"`) {
			e.Fail("C19:request-not-listed", what+fmt.Sprintf(": pending list %q", p.Body), idx, nil, nil, nil)
			return
		}
		if drop {
			fake.dropMemcache("")
		}
		st, hdr, fetched := agentCall(b.agent, b.id, rid, "/agent/request", "GET", nil)
		if st == 200 && hdr.Get(HeaderUserID) != "ruser@x" {
			e.Fail("C09:asserted-identity-lost", what+fmt.Sprintf(": the request of signed-in user ruser@x was handed to the agent with %s = %q", HeaderUserID, hdr[HeaderUserID]), idx, nil, hdr.Get(HeaderUserID), "ruser@x")
		}
		if st != 200 || !bytes.HasSuffix(fetched, reqBody) || !bytes.Contains(fetched[:minInt(len(fetched), 400)], []byte("POST /p/"+rid+"?q=1 HTTP/1.1")) || hdr.Get(HeaderUserID) != "ruser@x" {
			e.Fail("C19:fetched-request-altered", what+fmt.Sprintf(": status %d, %d bytes fetched, user %q", st, len(fetched), hdr.Get(HeaderUserID)), idx, nil, len(fetched), nil)
		}
		if len(faults) == 0 && !drop {
			// blob layout: number of part entities written for the serialised request
			parts := strings.Count(fake.snapshot(), "blobParts/"+rid+".request.part")
			e.Op(fmt.Sprintf("parts %d", len(fetched)), fmt.Sprint(parts))
		}
		for _, f := range faults {
			fake.addFault(f)
		}
		wire := httpResponseBytes("201 Created", [][2]string{{"Set-Cookie", "a=1"}, {"Set-Cookie", "b=2"}, {"X-Resp", rid}}, respBody)
		pr := async(func() (int, http.Header, []byte) {
			return agentCall(b.agent, b.id, rid, "/agent/response", "POST", wire)
		})
		r, ok := await(pr, 10*time.Second)
		if !ok {
			e.Fail("C19:call-hangs:"+key, what+": POST /agent/response did not return within 10 s", idx, nil, nil, nil)
			fake.clearFaults()
			return
		}
		if len(faults) > 0 {
			fake.clearFaults()
			if r.Status == 200 {
				e.Count("fault-tolerated:" + key)
			} else {
				// a failed post may be retried by the agent: the retry must succeed
				if st2, _, _ := agentCall(b.agent, b.id, rid, "/agent/response", "POST", wire); st2 != 200 {
					e.Fail("C19:retry-after-store-error-failed:"+key, what+fmt.Sprintf(": first %d, retry %d", r.Status, st2), idx, nil, nil, nil)
				}
			}
		} else if r.Status != 200 {
			e.Fail("C19:response-post-rejected", what+fmt.Sprintf(": status %d %s", r.Status, r.Body), idx, nil, r.Status, 200)
		}
		if drop {
			fake.dropMemcache("")
		}
		c, ok := await(cl, 40*time.Second)
		if !ok {
			e.Fail("C19:client-hangs:"+key, what+": the client call did not return", idx, nil, nil, nil)
			return
		}
		if c.Status != 201 || !bytes.Equal(c.Body, respBody) || strings.Join(c.Hdr["Set-Cookie"], ",") != "a=1,b=2" || c.Hdr.Get("X-Resp") != rid {
			e.Fail("C19:response-altered", what+fmt.Sprintf(": client received status %d, %d body bytes, cookies %q, X-Resp %q", c.Status, len(c.Body), c.Hdr["Set-Cookie"], c.Hdr.Get("X-Resp")), idx, nil, nil, nil)
		}
		// completed: no longer pending (a list call with nothing pending would wait 30 s, so look at the entity)
		if !strings.Contains(fake.snapshot(), "Completed=true") {
			e.Fail("C19:completed-still-pending", what, idx, nil, nil, nil)
		}
		e.Eval(fmt.Sprintf("%d/%d/%v/%s", reqSize, respSize, drop, key), reqSize >= 1000000 || respSize >= 1000000 || drop || len(faults) > 0)
		e.Count(fmt.Sprintf("req>=1MB:%v resp>=1MB:%v drop:%v faults:%d", reqSize >= 1000000, respSize >= 1000000, drop, len(faults)))
		if idx <= 3 {
			e.Sample(map[string]interface{}{"request_body": reqSize, "response_body": respSize, "memcache_dropped": drop, "faults": key})
		}
	}
	for i, sz := range sizes {
		exchange(sz, sizes[(i+2)%len(sizes)], i%2 == 1, nil, "none")
	}
	// storage faults on the response path, singly and in pairs
	rules := map[string]faultRule{
		"put-response": {Service: "datastore_v3", Method: "Put", Match: "response/"},
		"put-request":  {Service: "datastore_v3", Method: "Put", Match: "req:"},
		"put-part":     {Service: "datastore_v3", Method: "Put", Match: "blobParts/"},
		"get-request":  {Service: "datastore_v3", Method: "Get", Match: "req:", Nth: 2},
		"mc-set":       {Service: "memcache", Method: "Set"},
	}
	var names []string
	for k := range rules {
		names = append(names, k)
	}
	sort.Strings(names)
	for _, a := range names {
		exchange(10, 1000001, false, []faultRule{rules[a]}, a)
	}
	// a blob with several parts whose writes all fail at once (every part is written by its own goroutine)
	exchange(10, 3300000, false, []faultRule{rules["put-part"]}, "put-part-x3")
	for i, a := range names {
		for _, bn := range names[i+1:] {
			exchange(10, 500, false, []faultRule{rules[a], rules[bn]}, a+"+"+bn)
		}
	}
	// concurrent clients
	if e.Thorough() || true {
		pend := goLive(e, b)
		n := 6
		var cls []<-chan reply
		for k := 0; k < n; k++ {
			rid := fmt.Sprintf("conc-%d", k)
			cls = append(cls, async(func() (int, http.Header, []byte) {
				return userCall("ruser@x", false, rid, "POST", "/c/"+rid, nil, []byte("body-"+rid))
			}))
		}
		await(pend, 40*time.Second)
		waitFor(3*time.Second, func() bool { return strings.Count(fake.snapshot(), `req:"rb"/conc-`) >= n })
		for k := n - 1; k >= 0; k-- {
			rid := fmt.Sprintf("conc-%d", k)
			st, _, fetched := agentCall(b.agent, b.id, rid, "/agent/request", "GET", nil)
			if st != 200 || !bytes.HasSuffix(fetched, []byte("body-"+rid)) {
				e.Fail("C19:fetched-request-altered", fmt.Sprintf("concurrent request %s: status %d body %q", rid, st, fetched[maxInt(0, len(fetched)-30):]), -1, nil, nil, nil)
			}
			agentCall(b.agent, b.id, rid, "/agent/response", "POST", httpResponseBytes("200 OK", [][2]string{{"X-Resp", rid}}, []byte("resp-"+rid)))
		}
		for k, ch := range cls {
			rid := fmt.Sprintf("conc-%d", k)
			c, ok := await(ch, 40*time.Second)
			if !ok || c.Status != 200 || string(c.Body) != "resp-"+rid || c.Hdr.Get("X-Resp") != rid {
				e.Fail("C19:wrong-response", fmt.Sprintf("client of %s received status %d body %q X-Resp %q", rid, c.Status, c.Body, c.Hdr.Get("X-Resp")), -1, nil, nil, nil)
			}
			e.Eval("conc:"+rid, true)
		}
		e.Count("concurrent-clients")
	}
}

func maxInt(a, b int) int {
	if a > b {
		return a
	}
	return b
}

func truncBytes(b []byte, n int) string {
	if len(b) > n {
		return string(b[:n]) + "…"
	}
	return string(b)
}
