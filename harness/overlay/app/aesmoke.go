//go:build verif

package main

// aesmoke: end-to-end smoke test of the real app handlers and stores over the fake App Engine API.

import (
	"bufio"
	"bytes"
	"encoding/json"
	"fmt"
	"io"
	"net/http"
	"strings"
	"time"

	"github.com/google/inverting-proxy/app/types"
	"github.com/google/inverting-proxy/zz_verif/vh"
)

var _ = reg("aesmoke", aesmoke)

func aesmoke(e *vh.Env) {
	e.Result.Rule = "every assertion is one evaluation"
	chk := func(key string, ok bool, what string, observed, expected interface{}) bool {
		e.Eval(key, true)
		if !ok {
			e.Fail(key, what, nil, nil, observed, expected)
		}
		return ok
	}
	status := func(key string, got, want int, body []byte) bool {
		return chk(key, got == want, "unexpected HTTP status; body: "+clip(body), got, want)
	}
	const admin, agent1, agent2, alice = "admin@example.com", "agent1@example.com", "agent2@example.com", "alice@example.com"

	// (i) admin API: identity checks, add two backends, list them.
	st, _, b := apiCall("", false, "GET", "/api/backends", nil)
	status("api/no-identity", st, 403, b)
	st, _, b = apiCall(alice, false, "GET", "/api/backends", nil)
	status("api/non-admin", st, 403, b)
	st, _, b = apiCall(admin, true, "GET", "/api/backends", nil)
	status("api/list-empty", st, 200, b)
	chk("api/list-empty-body", string(b) == "[]", "empty backend list", string(b), "[]")
	backends := []types.Backend{
		{BackendID: "b1", BackendUser: agent1, EndUser: alice, PathPrefixes: []string{"/"}},
		{BackendID: "b2", BackendUser: agent2, EndUser: "allUsers", PathPrefixes: []string{"/shared/", "/pub/"}},
	}
	for _, be := range backends {
		js, _ := json.Marshal(be)
		st, _, b = apiCall(admin, true, "POST", "/api/backends", js)
		status("api/add-"+be.BackendID, st, 200, b)
	}
	st, _, b = apiCall(admin, true, "POST", "/api/backends", []byte(`{"id":"b3"}`))
	status("api/add-incomplete", st, 400, b)
	st, _, b = verifCall("api", "GET", "/api/backends", userHeaders(admin, true), nil) // signed-in admin, no OAuth
	status("api/list-cookie-admin", st, 200, b)
	var listed []types.Backend
	json.Unmarshal(b, &listed)
	for i := range listed {
		listed[i].LastUsed = ""
	}
	got, _ := json.Marshal(listed)
	want, _ := json.Marshal(backends)
	chk("api/list", string(got) == string(want), "GET /api/backends lists the two backends in key order", string(got), string(want))
	snap := fake.snapshot("LastSeen")
	wantSnap := "backend/b1 {BackendID=\"b1\", BackendUser=\"agent1@example.com\", EndUser=\"alice@example.com\", LastUsed=\"\", PathPrefixes=\"/\"}\n" +
		"backend/b2 {BackendID=\"b2\", BackendUser=\"agent2@example.com\", EndUser=\"allUsers\", LastUsed=\"\", PathPrefixes=\"/shared/\", PathPrefixes=\"/pub/\"}\n" +
		"backendTracker/b1 {LastSeen=_}\nbackendTracker/b2 {LastSeen=_}\n"
	chk("api/snapshot", snap == wantSnap, "datastore snapshot after adding the backends", snap, wantSnap)

	// (ii) agent identity: wrong or missing OAuth identity / unknown backend -> 401 on every agent path.
	for _, p := range []string{"/agent/pending", "/agent/request", "/agent/response"} {
		for name, c := range map[string][2]string{"wrong-user": {agent2, "b1"}, "no-identity": {"", "b1"}, "unknown-backend": {agent1, "nope"}, "no-backend": {agent1, ""}} {
			st, _, b = agentCall(c[0], c[1], "r0", p, "POST", []byte("x"))
			status("agent/401"+p+"/"+name, st, 401, b)
		}
	}
	// A backend that no agent polled yet is not routable (AddBackend back-dates LastSeen).
	st, _, b = userCall(alice, false, "r-early", "GET", "/hello", nil, nil)
	status("user/backend-not-seen", st, 404, b)
	st, _, b = userCall("", false, "r-anon", "GET", "/hello", nil, nil)
	status("user/anonymous", st, 401, b)

	// exchange runs one end-user request through the proxy: the agent lists it, fetches it, answers it.
	// check inspects the request bytes the agent fetched; respond posts the response (and reports its status).
	exchange := func(key, reqID, method, urlPath string, hdr http.Header, body, response []byte, pending <-chan reply,
		respond func(post func() (int, http.Header, []byte)) bool) (client reply, fetched []byte) {
		user := async(func() (int, http.Header, []byte) { return userCall(alice, false, reqID, method, urlPath, hdr, body) })
		if pending == nil { // /agent/pending blocks until the request above is stored: no sleeping needed
			pending = async(func() (int, http.Header, []byte) { return agentCall(agent1, "b1", "", "/agent/pending", "GET", nil) })
		}
		p, _ := await(pending, 40*time.Second)
		status(key+"/pending-status", p.Status, 200, p.Body)
		wantList := fmt.Sprintf("[%q]", reqID)
		chk(key+"/pending", string(p.Body) == wantList, "pending list", string(p.Body), wantList)
		st, h, fetched := agentCall(agent1, "b1", reqID, "/agent/request", "GET", nil)
		status(key+"/fetch-status", st, 200, fetched)
		chk(key+"/fetch-hdr", h.Get(HeaderUserID) == alice && h.Get(HeaderRequestID) == reqID && h.Get(HeaderRequestStartTime) != "",
			"request metadata headers", vh.CanonHeader(h), "user, request id, start time")
		if respond(func() (int, http.Header, []byte) {
			return agentCall(agent1, "b1", reqID, "/agent/response", "POST", response)
		}) {
			client, _ = await(user, 40*time.Second)
		}
		return client, fetched
	}
	postOK := func(key string) func(func() (int, http.Header, []byte)) bool {
		return func(post func() (int, http.Header, []byte)) bool {
			st, _, b := post()
			return status(key+"/respond-status", st, 200, b)
		}
	}
	// checkFetched: the stored request must be what http.Request.Write produced: parse it back and compare.
	checkFetched := func(key string, fetched []byte, method, uri string, body []byte) {
		r, err := http.ReadRequest(bufio.NewReader(bytes.NewReader(fetched)))
		if !chk(key+"/fetch-parse", err == nil, "fetched request parses as HTTP/1.1", fmt.Sprint(err), nil) {
			return
		}
		gotBody, _ := io.ReadAll(r.Body)
		chk(key+"/fetch-line", r.Method == method && r.RequestURI == uri && r.Header.Get("X-Test") == "v1" && r.Header.Get("X-Appengine-User-Email") == alice &&
			r.Header.Get(hdrVerifService) == "" && r.Host == "app.example.com", "request line/headers", clip(fetched), method+" "+uri)
		chk(key+"/fetch-body", bytes.Equal(gotBody, body), "request body bytes", len(gotBody), len(body))
	}
	checkClient := func(key string, c reply, wantStatus int, wantHdr http.Header, wantBody []byte) {
		status(key+"/client-status", c.Status, wantStatus, c.Body)
		for k := range wantHdr {
			chk(key+"/client-hdr/"+k, c.Hdr.Get(k) == wantHdr.Get(k), "response header "+k, c.Hdr.Get(k), wantHdr.Get(k))
		}
		chk(key+"/client-body", bytes.Equal(c.Body, wantBody), "response body bytes", len(c.Body), len(wantBody))
	}
	httpResponse := func(statusLine string, hdr http.Header, body []byte) []byte {
		var sb bytes.Buffer
		fmt.Fprintf(&sb, "HTTP/1.1 %s\r\n", statusLine)
		hdr.Write(&sb)
		fmt.Fprintf(&sb, "Content-Length: %d\r\n\r\n", len(body))
		return append(sb.Bytes(), body...)
	}
	reqHdr := func() http.Header { return http.Header{"X-Test": {"v1"}, "Host": {"app.example.com"}} }

	// (iii-a) GET, 3 MB response. The agent's first poll registers the backend; only then is alice routable.
	mark := len(fake.calls(0))
	pending := async(func() (int, http.Header, []byte) { return agentCall(agent1, "b1", "", "/agent/pending", "GET", nil) })
	chk("get/backend-seen", waitFor(5*time.Second, func() bool { return fake.sawCall(mark, "datastore_v3.Put", "backendTracker/b1") }),
		"agent poll registers the backend", nil, nil)
	big := e.Rng.Bytes(3 << 20)
	respHdr := http.Header{"Content-Type": {"application/octet-stream"}, "X-Backend": {"b1"}, "Set-Cookie": {"a=1", "b=2"}}
	c, fetched := exchange("get", "req-get", "GET", "/hello/world?x=1&y=%2F", reqHdr(), nil, httpResponse("200 OK", respHdr, big), pending, postOK("get"))
	checkFetched("get", fetched, "GET", "/hello/world?x=1&y=%2F", nil)
	checkClient("get", c, 200, respHdr, big)
	chk("get/cookies", len(c.Hdr["Set-Cookie"]) == 2, "multi-valued response header", c.Hdr["Set-Cookie"], 2)

	// (iii-b) POST with a 2.5 MB body (stored as inlined blob + 2 parts), non-200 status.
	body := e.Rng.Bytes(2<<20 + 1<<19)
	hdr := reqHdr()
	hdr.Set("Content-Type", "application/x-verif")
	c, fetched = exchange("post", "req-post", "POST", "/upload", hdr, body, httpResponse("201 Created", respHdr, big[:1<<20+7]), nil, postOK("post"))
	checkFetched("post", fetched, "POST", "/upload", body)
	checkClient("post", c, 201, respHdr, big[:1<<20+7])
	snap = fake.snapshot()
	for _, k := range []string{"blobParts/req-post.request.part0 ", "blobParts/req-post.request.part1 ", "blobParts/req-post.response.part0 ", "response/req-post ", "req:\"b1\"/req-post ", "activityTracker/b1 "} {
		chk("post/stored/"+k, strings.Contains("\n"+snap, "\n"+k), "entity present in the datastore", nil, k)
	}
	chk("post/completed", strings.Contains(snap, "req:\"b1\"/req-post {BackendID=\"b1\", Completed=true,"), "request marked completed", nil, nil)

	// (iv) both datastore writes of the response path fail: POST /agent/response must answer 404, not hang.
	small := httpResponse("200 OK", http.Header{"Cache-Control": {"no-store"}}, []byte("hello"))
	c, _ = exchange("fault", "req-fault", "GET", "/fault", reqHdr(), nil, small, nil, func(post func() (int, http.Header, []byte)) bool {
		fake.addFault(faultRule{Service: "datastore_v3", Method: "Put", Match: "response/req-fault"})
		fake.addFault(faultRule{Service: "datastore_v3", Method: "Put", Match: "req:\"b1\"/req-fault"})
		mark := len(fake.calls(0))
		r, done := await(async(post), 10*time.Second)
		fake.clearFaults()
		if !chk("fault/no-hang", done, "POST /agent/response returned although both store writes failed", nil, nil) {
			return false
		}
		status("fault/404", r.Status, 404, r.Body)
		failed := 0
		for _, cr := range fake.calls(mark) {
			if cr.Op == "datastore_v3.Put" && cr.Err != "" {
				failed++
			}
		}
		chk("fault/both-failed", failed == 2, "both Puts hit the fault rules", failed, 2)
		return postOK("fault/retry")(post) // without the faults the same response is accepted
	})
	checkClient("fault", c, 200, http.Header{"Cache-Control": {"no-store"}}, []byte("hello"))

	// (v) memcache eviction between write and read: the datastore copy serves the same bytes.
	body = e.Rng.Bytes(10_000)
	small = httpResponse("200 OK", http.Header{"X-Small": {"1"}}, []byte("cached?"))
	c, fetched = exchange("evict", "req-evict", "POST", "/evict", reqHdr(), body, small, nil, func(post func() (int, http.Header, []byte)) bool {
		viaCache, _, _ := agentCall(agent1, "b1", "req-evict", "/agent/request", "GET", nil) // served by memcache
		mark := len(fake.calls(0))
		chk("evict/dropped", fake.dropMemcache("r:\"b1\":\"req-evict\"") == 1, "the request was in memcache", fake.memcacheKeys(), "r:...")
		st, _, again := agentCall(agent1, "b1", "req-evict", "/agent/request", "GET", nil) // served by the datastore
		chk("evict/request", viaCache == 200 && st == 200 && fake.sawCall(mark, "datastore_v3.Get", "req:\"b1\"/req-evict"), "re-read from the datastore", st, 200)
		checkFetched("evict/again", again, "POST", "/evict", body)
		// every memcache read of the response misses (as if evicted right after the write)
		fake.addFault(faultRule{Service: "memcache", Method: "Get", Match: "resp:"})
		return postOK("evict")(post)
	})
	fake.clearFaults()
	checkFetched("evict", fetched, "POST", "/evict", body)
	checkClient("evict", c, 200, http.Header{"X-Small": {"1"}}, []byte("cached?"))

	// (vi) a cacheable GET answer (200, no Cache-Control, < 1 MB) is served from memcache the second time.
	small = httpResponse("200 OK", http.Header{"X-Small": {"2"}}, []byte("cache me"))
	c, _ = exchange("cache", "req-cache", "GET", "/cache", reqHdr(), nil, small, nil, postOK("cache"))
	checkClient("cache", c, 200, http.Header{"X-Small": {"2"}}, []byte("cache me"))
	st, h, b := userCall(alice, false, "req-cache-2", "GET", "/cache", reqHdr(), nil)
	checkClient("cache/hit", reply{st, h, b}, 200, http.Header{"X-Small": {"2"}}, []byte("cache me"))
	chk("cache/no-new-request", !strings.Contains(fake.snapshot(), "req-cache-2"), "cache hit stores no request", nil, nil)

	// (vii) cron cleanup and backend deletion run against the fake (queries with time filters, transactions).
	st, _, b = apiCall("", false, "GET", "/cron/delete", nil)
	status("cron/delete", st, 200, b)
	st, _, b = apiCall(admin, true, "DELETE", "/api/backends/b1", nil)
	status("api/delete-b1", st, 200, b)
	snap = fake.snapshot()
	chk("api/delete-b1/gone", !strings.Contains(snap, "backend/b1 ") && !strings.Contains(snap, "backendTracker/b1 ") && !strings.Contains(snap, "req:\"b1\"/") && strings.Contains(snap, "backend/b2 "),
		"b1, its tracker and its requests are gone; b2 remains", snap, nil)
	e.Observe("api_calls", len(fake.calls(0)))
}

func clip(b []byte) string {
	if len(b) > 300 {
		return fmt.Sprintf("%q... (%d bytes)", b[:300], len(b))
	}
	return fmt.Sprintf("%q", b)
}
