//go:build verif

package store

import "github.com/google/inverting-proxy/app/types"

// Exports for the verification drivers (injected by `go build -overlay`; not part of the repo).

func VerifMostSpecificMatchingBackend(path string, backends []*types.Backend) (string, error) {
	return mostSpecificMatchingBackend(path, backends)
}

const VerifFieldByteLimit = fieldByteLimit
