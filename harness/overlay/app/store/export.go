//go:build verif

package store

import (
	"context"
	"time"

	"github.com/google/inverting-proxy/app/types"
	"google.golang.org/appengine/v2/datastore"
)

// Exports for the verification drivers (injected by `go build -overlay`; not part of the repo).

func VerifMostSpecificMatchingBackend(path string, backends []*types.Backend) (string, error) {
	return mostSpecificMatchingBackend(path, backends)
}

const VerifFieldByteLimit = fieldByteLimit

// VerifBlobRoundTrip stores data the way requests and responses are stored (newBlob) and reads it back (blob.read).
func VerifBlobRoundTrip(ctx context.Context, data []byte, name string) (back []byte, inlined int, parts []string, err error) {
	b, err := newBlob(ctx, data, name, time.Now())
	if err != nil {
		return nil, 0, nil, err
	}
	back, err = b.read(ctx)
	return back, len(b.Inlined), b.Parts, err
}

// VerifSetLastSeen back-dates (or sets) the liveness record of a backend, as the passage of time would.
func VerifSetLastSeen(ctx context.Context, backendID string, t time.Time) error {
	key := datastore.NewKey(ctx, backendTrackerKind, backendID, 0, nil)
	_, err := datastore.Put(ctx, key, &backendTracker{LastSeen: t})
	return err
}
