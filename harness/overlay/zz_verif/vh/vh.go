//go:build verif

// Package vh: helpers shared by the verification drivers that /verif/check injects into
// this module at build time with `go build -overlay` (nothing here is part of the repo).
package vh

import (
	"bufio"
	"encoding/hex"
	"encoding/json"
	"flag"
	"fmt"
	"os"
	"path/filepath"
	"sort"
	"strings"
	"sync"
)

// Rng is splitmix64: every random choice of a run derives from VERIF_SEED.
type Rng struct{ s uint64 }

func NewRng(seed uint64) *Rng { return &Rng{s: seed*0x9E3779B97F4A7C15 + 0x1234567} }
func (r *Rng) U64() uint64 {
	r.s += 0x9E3779B97F4A7C15
	z := r.s
	z = (z ^ (z >> 30)) * 0xBF58476D1CE4E5B9
	z = (z ^ (z >> 27)) * 0x94D049BB133111EB
	return z ^ (z >> 31)
}
func (r *Rng) Intn(n int) int {
	if n <= 0 {
		return 0
	}
	return int(r.U64() % uint64(n))
}
func (r *Rng) Bool() bool        { return r.U64()&1 == 1 }
func (r *Rng) Chance(p int) bool { return r.Intn(100) < p }
func (r *Rng) Pick(xs []string) string {
	return xs[r.Intn(len(xs))]
}
func (r *Rng) Bytes(n int) []byte {
	b := make([]byte, n)
	for i := range b {
		b[i] = byte(r.U64())
	}
	return b
}

// Sub derives an independent generator for case i.
func (r *Rng) Sub(i int) *Rng { return NewRng(r.s ^ (uint64(i)+1)*0xD6E8FEB86659FD93) }

func Hex(b []byte) string {
	if len(b) == 0 {
		return "-"
	}
	return hex.EncodeToString(b)
}

type Failure struct {
	Key      string      `json:"key"`
	What     string      `json:"what"`
	Case     interface{} `json:"case"`
	Seed     uint64      `json:"seed"`
	Ops      []string    `json:"ops,omitempty"`
	Observed interface{} `json:"observed,omitempty"`
	Expected interface{} `json:"expected,omitempty"`
}

type Result struct {
	Suite        string                 `json:"suite"`
	ModelSuite   string                 `json:"model_suite,omitempty"`
	Seed         uint64                 `json:"seed"`
	Tier         string                 `json:"tier"`
	Evaluations  int                    `json:"evaluations"`
	Distinct     int                    `json:"distinct_nontrivial"`
	Rule         string                 `json:"rule"`
	Samples      []interface{}          `json:"samples"`
	Distribution map[string]int         `json:"distribution"`
	Observations map[string]interface{} `json:"observations,omitempty"`
	OpsFile      string                 `json:"ops_file,omitempty"`
	ImplFile     string                 `json:"impl_file,omitempty"`
	RaceKey      string                 `json:"race_key,omitempty"`
	Failures     []Failure              `json:"failures"`

	mu       sync.Mutex
	distinct map[string]bool
	ops      *bufio.Writer
	impl     *bufio.Writer
	opsF     *os.File
	implF    *os.File
}

type Env struct {
	Suite  string
	Seed   uint64
	Tier   string
	Out    string
	Tmp    string
	Case   int
	Race   bool
	Rng    *Rng
	Result *Result
}

// Parse reads `<suite> -seed N -tier quick|thorough -out file -tmp dir [-case K] [-race]`.
func Parse() *Env {
	if len(os.Args) < 2 {
		fmt.Fprintln(os.Stderr, "usage: drv <suite> -seed N -tier T -out FILE -tmp DIR")
		os.Exit(2)
	}
	e := &Env{Suite: os.Args[1]}
	fs := flag.NewFlagSet("drv", flag.ExitOnError)
	seed := fs.Uint64("seed", 1, "")
	fs.StringVar(&e.Tier, "tier", "quick", "")
	fs.StringVar(&e.Out, "out", "", "")
	fs.StringVar(&e.Tmp, "tmp", os.TempDir(), "")
	fs.IntVar(&e.Case, "case", -1, "")
	fs.BoolVar(&e.Race, "race", false, "")
	fs.Parse(os.Args[2:])
	e.Seed = *seed
	e.Rng = NewRng(e.Seed)
	e.Result = &Result{Suite: e.Suite, Seed: e.Seed, Tier: e.Tier, Distribution: map[string]int{}, distinct: map[string]bool{}, Failures: []Failure{}, Samples: []interface{}{}}
	return e
}

func (e *Env) Thorough() bool { return e.Tier == "thorough" }

// N picks the budget for the tier.
func (e *Env) N(quick, thorough int) int {
	if e.Thorough() {
		return thorough
	}
	return quick
}

// Want reports whether case i is to be run (all, or only the replayed one).
func (e *Env) Want(i int) bool { return e.Case < 0 || e.Case == i }

// OpenOps starts the line protocol files for the model correspondence.
func (e *Env) OpenOps(modelSuite string) {
	r := e.Result
	r.ModelSuite = modelSuite
	r.OpsFile = filepath.Join(e.Tmp, e.Suite+".ops")
	r.ImplFile = filepath.Join(e.Tmp, e.Suite+".impl")
	var err error
	if r.opsF, err = os.Create(r.OpsFile); err != nil {
		panic(err)
	}
	if r.implF, err = os.Create(r.ImplFile); err != nil {
		panic(err)
	}
	r.ops = bufio.NewWriterSize(r.opsF, 1<<20)
	r.impl = bufio.NewWriterSize(r.implF, 1<<20)
}

// Op records one operation line and the implementation's canonical observation of it.
func (e *Env) Op(op, observed string) {
	r := e.Result
	r.mu.Lock()
	defer r.mu.Unlock()
	if strings.ContainsAny(op, "\n\r") || strings.ContainsAny(observed, "\n\r") {
		panic("newline in protocol line")
	}
	r.ops.WriteString(op)
	r.ops.WriteByte('\n')
	r.impl.WriteString(observed)
	r.impl.WriteByte('\n')
}

func (e *Env) Count(what string) {
	e.Result.mu.Lock()
	e.Result.Distribution[what]++
	e.Result.mu.Unlock()
}

// Eval counts one evaluated case; `sig` identifies it for the distinct count, nontrivial by the suite's rule.
func (e *Env) Eval(sig string, nontrivial bool) {
	r := e.Result
	r.mu.Lock()
	r.Evaluations++
	if nontrivial && !r.distinct[sig] {
		r.distinct[sig] = true
		r.Distinct++
	}
	r.mu.Unlock()
}

func (e *Env) Sample(s interface{}) {
	r := e.Result
	r.mu.Lock()
	if len(r.Samples) < 6 {
		r.Samples = append(r.Samples, s)
	}
	r.mu.Unlock()
}

func (e *Env) Observe(k string, v interface{}) {
	r := e.Result
	r.mu.Lock()
	if r.Observations == nil {
		r.Observations = map[string]interface{}{}
	}
	r.Observations[k] = v
	r.mu.Unlock()
}

func (e *Env) Fail(key, what string, cs interface{}, ops []string, observed, expected interface{}) {
	r := e.Result
	r.mu.Lock()
	perKey := 0
	for _, f := range r.Failures {
		if f.Key == key {
			perKey++
		}
	}
	// capped per key, so that many instances of one (possibly known) failure cannot crowd out a different one
	if perKey < 5 && len(r.Failures) < 400 {
		if len(what) > 2000 {
			what = what[:2000]
		}
		r.Failures = append(r.Failures, Failure{Key: key, What: what, Case: cs, Seed: e.Seed, Ops: ops, Observed: observed, Expected: expected})
	}
	r.mu.Unlock()
}

// FailedExcept reports whether a failure with a key other than the given ones was recorded (suites use it to stop
// early after a failure without letting a recorded, known finding cut the exploration short).
func (e *Env) FailedExcept(keys ...string) bool {
	e.Result.mu.Lock()
	defer e.Result.mu.Unlock()
	for _, f := range e.Result.Failures {
		known := false
		for _, k := range keys {
			if f.Key == k {
				known = true
			}
		}
		if !known {
			return true
		}
	}
	return false
}

func (e *Env) Failed() bool {
	e.Result.mu.Lock()
	defer e.Result.mu.Unlock()
	return len(e.Result.Failures) > 0
}

// Finish writes the result file.
func (e *Env) Finish() {
	r := e.Result
	if r.ops != nil {
		r.ops.Flush()
		r.impl.Flush()
		r.opsF.Close()
		r.implF.Close()
	}
	b, err := json.MarshalIndent(r, "", " ")
	if err != nil {
		panic(err)
	}
	if e.Out == "" {
		os.Stdout.Write(b)
		return
	}
	if err := os.WriteFile(e.Out, b, 0o644); err != nil {
		panic(err)
	}
}

func SortedKeys(m map[string][]string) []string {
	ks := make([]string, 0, len(m))
	for k := range m {
		ks = append(ks, k)
	}
	sort.Strings(ks)
	return ks
}

// CanonHeader renders a header map deterministically: keys sorted, values in order, hex.
func CanonHeader(h map[string][]string) string {
	var parts []string
	for _, k := range SortedKeys(h) {
		vs := make([]string, len(h[k]))
		for i, v := range h[k] {
			vs[i] = Hex([]byte(v))
		}
		parts = append(parts, Hex([]byte(k))+"="+strings.Join(vs, ","))
	}
	if len(parts) == 0 {
		return "{}"
	}
	return strings.Join(parts, ";")
}
