//go:build verif

package main

import (
	"bytes"
	"fmt"
	"io"
	"net"
	"net/http"
	"os"
	"os/exec"
	"strings"
	"sync"
	"time"
)

// e2eRig: the real stand-alone proxy binary and (optionally) the real agent code as child
// processes; the driver plays clients, the agent protocol and/or the backend.
// syncBuffer collects a child's output; safe to read while the child is running.
type syncBuffer struct {
	mu sync.Mutex
	b  bytes.Buffer
}

func (s *syncBuffer) Write(p []byte) (int, error) {
	s.mu.Lock()
	defer s.mu.Unlock()
	return s.b.Write(p)
}
func (s *syncBuffer) String() string {
	s.mu.Lock()
	defer s.mu.Unlock()
	return s.b.String()
}

type e2eRig struct {
	proxyPort int
	proxyURL  string
	procs     []*exec.Cmd
	logs      []*syncBuffer
}

func (r *e2eRig) start(bin string, env []string, args ...string) *exec.Cmd {
	cmd := exec.Command(bin, args...)
	cmd.Env = append(os.Environ(), env...)
	buf := &syncBuffer{}
	cmd.Stdout, cmd.Stderr = buf, buf
	if err := cmd.Start(); err != nil {
		panic(err)
	}
	r.procs = append(r.procs, cmd)
	r.logs = append(r.logs, buf)
	return cmd
}

func startProxy() *e2eRig {
	r := &e2eRig{proxyPort: freePort()}
	r.proxyURL = fmt.Sprintf("http://127.0.0.1:%d/", r.proxyPort)
	r.start(os.Getenv("VERIF_BIN_SERVER"), nil, "-port", fmt.Sprint(r.proxyPort))
	if !waitPortRaw(r.proxyPort) {
		panic("proxy did not start: " + r.logs[0].String())
	}
	return r
}

// startAgent runs the agent's polling loop + handler chain as a child against backendHost.
func (r *e2eRig) startAgent(backendHost string, extraEnv ...string) *exec.Cmd {
	env := append([]string{"VERIF_DRIVER=1", "VERIF_AGENT_PROXY=" + r.proxyURL, "VERIF_AGENT_HOST=" + backendHost}, extraEnv...)
	return r.start(os.Getenv("VERIF_BIN_AGENT"), env, "agentserve")
}

func (r *e2eRig) stop() {
	for _, p := range r.procs {
		p.Process.Kill()
		p.Wait()
	}
}

// crashed reports panics / fatal errors in the children's logs.
func (r *e2eRig) crashed() string {
	for _, l := range r.logs {
		s := l.String()
		for _, pat := range []string{"fatal error:", "panic:", "WARNING: DATA RACE"} {
			if i := strings.Index(s, pat); i >= 0 {
				end := i + 1500
				if end > len(s) {
					end = len(s)
				}
				return s[i:end]
			}
		}
	}
	return ""
}

func waitPortRaw(port int) bool {
	for i := 0; i < 400; i++ {
		c, err := net.DialTimeout("tcp", fmt.Sprintf("127.0.0.1:%d", port), 100*time.Millisecond)
		if err == nil {
			c.Close()
			return true
		}
		time.Sleep(10 * time.Millisecond)
	}
	return false
}

// ---- the agent protocol, played by the driver ---------------------------------

const hdrBackendID = "X-Inverting-Proxy-Backend-ID"
const hdrRequestID = "X-Inverting-Proxy-Request-ID"

var agentHTTP = &http.Client{Transport: &http.Transport{MaxIdleConnsPerHost: 64}}

func agentList(base string, timeout time.Duration) ([]string, int, error) {
	req, _ := http.NewRequest("GET", base+"agent/pending", nil)
	req.Header.Set(hdrBackendID, "drv")
	c := &http.Client{Transport: agentHTTP.Transport, Timeout: timeout}
	resp, err := c.Do(req)
	if err != nil {
		return nil, 0, err
	}
	defer resp.Body.Close()
	b, _ := io.ReadAll(resp.Body)
	s := strings.TrimSpace(string(b))
	if s == "null" || s == "" {
		return nil, resp.StatusCode, nil
	}
	s = strings.Trim(s, "[]")
	var ids []string
	for _, p := range strings.Split(s, ",") {
		ids = append(ids, strings.Trim(p, `" `))
	}
	return ids, resp.StatusCode, nil
}

func agentFetch(base, id string) (int, []byte) {
	req, _ := http.NewRequest("GET", base+"agent/request", nil)
	req.Header.Set(hdrBackendID, "drv")
	req.Header.Set(hdrRequestID, id)
	resp, err := agentHTTP.Do(req)
	if err != nil {
		return -1, []byte(err.Error())
	}
	defer resp.Body.Close()
	b, _ := io.ReadAll(resp.Body)
	return resp.StatusCode, b
}

// agentUpload posts a serialised response; returns -2 when the call did not return within `timeout`.
func agentUpload(base, id string, wire []byte, timeout time.Duration) int {
	req, _ := http.NewRequest("POST", base+"agent/response", bytes.NewReader(wire))
	req.Header.Set(hdrBackendID, "drv")
	req.Header.Set(hdrRequestID, id)
	c := &http.Client{Transport: agentHTTP.Transport, Timeout: timeout}
	resp, err := c.Do(req)
	if err != nil {
		return -2
	}
	defer resp.Body.Close()
	io.Copy(io.Discard, resp.Body)
	return resp.StatusCode
}

type clientResult struct {
	status int
	tok    string // X-Tok response header
	body   string
	err    error
}

// clientCall issues one client request carrying `tok` in a header and in the body.
func clientCall(base, tok string, timeout time.Duration) clientResult {
	req, _ := http.NewRequest("POST", base+"client/"+tok, strings.NewReader("body-"+tok))
	req.Header.Set("X-Tok", tok)
	c := &http.Client{Transport: &http.Transport{DisableKeepAlives: true}, Timeout: timeout}
	resp, err := c.Do(req)
	if err != nil {
		return clientResult{err: err}
	}
	defer resp.Body.Close()
	b, _ := io.ReadAll(resp.Body)
	return clientResult{status: resp.StatusCode, tok: resp.Header.Get("X-Tok"), body: string(b)}
}

func tokOfRequest(wire []byte) string {
	for _, l := range strings.Split(string(wire), "\r\n") {
		if strings.HasPrefix(strings.ToLower(l), "x-tok:") {
			return strings.TrimSpace(l[6:])
		}
	}
	return ""
}

func echoResponse(tok string) []byte {
	body := "resp-" + tok
	return []byte(fmt.Sprintf("HTTP/1.1 200 OK\r\nX-Tok: %s\r\nContent-Length: %d\r\n\r\n%s", tok, len(body), body))
}

var _ sync.Mutex
