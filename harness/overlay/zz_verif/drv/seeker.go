//go:build verif

package main

import (
	"bytes"
	"fmt"
	"io"
	"time"

	"github.com/golang/groupcache/lru"

	"github.com/google/inverting-proxy/agent/utils"
	"github.com/google/inverting-proxy/zz_verif/vh"
)

func init() {
	suites["seeker"] = suiteSeeker
	suites["lru"] = suiteLru
}

// scriptedSource hands over exactly the chunk set before each Read (cut to the buffer).
type scriptedSource struct{ next, took []byte }

func (s *scriptedSource) Read(p []byte) (int, error) {
	n := copy(p, s.next)
	s.took = append(s.took, s.next[:n]...)
	s.next = nil
	return n, nil
}

// suiteSeeker: differential test of bufferedReadSeeker against Model/Seeker, plus the
// replay oracle: whatever was returned since the last accepted seek is a prefix of the
// source stream, and a complete one when the reader has caught up.
func suiteSeeker(e *vh.Env) {
	e.OpenOps("seeker")
	e.Result.Rule = "op sequences over {read n d, seek} on the real bufferedReadSeeker with buffer sizes 1..16 and the production 4096; read sizes and source chunkings around the buffer size; non-trivial = sequence with an accepted seek after data, or a refused seek"
	n := e.N(400, 20000)
	for i := 0; i < n; i++ {
		if !e.Want(i) {
			continue
		}
		rng := e.Rng.Sub(i)
		capn := 1 + rng.Intn(16)
		big := rng.Chance(15)
		if big {
			capn = utils.VerifReadResponseBufSize
		}
		src := &scriptedSource{}
		sk := utils.VerifNewBufferedReadSeeker(src, capn)
		e.Op(fmt.Sprintf("new %d", capn), "ok")
		var hist, sent []byte
		accepted, refused := false, false
		steps := 3 + rng.Intn(25)
		for s := 0; s < steps; s++ {
			if rng.Chance(25) {
				_, err := sk.Seek(0, io.SeekStart)
				if err == nil {
					if len(hist) > 0 {
						accepted = true
					}
					sent = nil
					e.Op("seek", "ok")
				} else {
					refused = true
					e.Op("seek", "refused")
				}
				e.Count("seek")
				continue
			}
			scale := capn
			if scale > 64 && rng.Chance(70) {
				scale = 64
			}
			pn := rng.Intn(2*scale + 2)
			if rng.Chance(10) {
				pn = capn
			}
			dn := rng.Intn(2*scale + 2)
			d := rng.Bytes(dn)
			src.next = d
			p := make([]byte, pn)
			// one Read of the seeker must return after at most one Read of its source (C05: it sits on the
			// streaming path of every response); a source that has nothing more to give right now returns 0 bytes
			cch := make(chan int, 1)
			go func() { c, _ := sk.Read(p); cch <- c }()
			var c int
			select {
			case c = <-cch:
			case <-time.After(5 * time.Second):
				e.Fail("C05:seeker-read-does-not-return", fmt.Sprintf("case %d: Read(%d bytes) on a seeker with buffer %d did not return within 5 s although its source had handed over everything it had (%d bytes); it keeps asking the source for more", i, pn, capn, dn), i, nil, nil, nil)
				return
			}
			wh, rh := utils.VerifSeekerState(sk)
			e.Op(fmt.Sprintf("read %d %s", pn, vh.Hex(d)), fmt.Sprintf("out %s wh=%d rh=%d", vh.Hex(p[:c]), wh, rh))
			sent = append(sent, p[:c]...)
			hist = src.took
			e.Count("read")
			if !bytes.HasPrefix(hist, sent) {
				e.Fail("C06:replay-not-a-prefix", fmt.Sprintf("case %d: bytes returned since the last accepted seek are not a prefix of the source stream (cap %d)", i, capn), i, nil, vh.Hex(sent), vh.Hex(hist))
				break
			}
		}
		e.Eval(fmt.Sprintf("%d", i), accepted || refused)
		if i < 3 {
			e.Sample(map[string]interface{}{"case": i, "cap": capn, "steps": steps, "accepted_seek_after_data": accepted, "refused_seek": refused})
		}
	}
}

// suiteLru: groupcache/lru used the way the agent and the session cache use it
// (Get, then Add on a miss) against Base/Lru.touch.
func suiteLru(e *vh.Env) {
	e.OpenOps("lru")
	e.Result.Rule = "random Get/Add histories on the real groupcache lru.Cache with capacities 1..8 over 1..12 keys; observation = hit/miss and the evicted key; non-trivial = history with at least one eviction"
	n := e.N(300, 10000)
	for i := 0; i < n; i++ {
		if !e.Want(i) {
			continue
		}
		rng := e.Rng.Sub(i)
		capn := 1 + rng.Intn(8)
		keys := 1 + rng.Intn(12)
		c := lru.New(capn)
		evicted := "-"
		c.OnEvicted = func(k lru.Key, v interface{}) { evicted = k.(string) }
		e.Op(fmt.Sprintf("new %d", capn), "ok")
		ev := false
		steps := 5 + rng.Intn(60)
		for s := 0; s < steps; s++ {
			k := fmt.Sprintf("k%d", rng.Intn(keys))
			evicted = "-"
			_, ok := c.Get(k)
			if !ok {
				c.Add(k, k)
			}
			if evicted != "-" {
				ev = true
			}
			r := "miss"
			if ok {
				r = "hit"
			}
			e.Op("t "+k, fmt.Sprintf("%s evicted=%s len=%d", r, evicted, c.Len()))
		}
		e.Eval(fmt.Sprintf("%d", i), ev)
		if i < 2 {
			e.Sample(map[string]interface{}{"case": i, "cap": capn, "keys": keys, "steps": steps})
		}
	}
}
