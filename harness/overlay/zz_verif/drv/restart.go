//go:build verif

package main

import (
	"fmt"
	"io"
	"net/http"
	"net/http/httptest"
	"os"
	"strings"
	"sync"
	"time"

	"github.com/google/inverting-proxy/zz_verif/vh"
)

func init() { suites["restart"] = suiteRestart }

// suiteRestart (C01): the agent outlives a proxy process.  A request is at the backend when the proxy is replaced by
// a fresh instance on the same address; a client of the new instance must still receive the response to its own
// request - never the one the agent is about to upload for the old instance's request.  (This is where the isolation
// of requests rests on request IDs not repeating across proxy instances.)
func suiteRestart(e *vh.Env) {
	e.Result.Rule = "real proxy binary, real agent code, slow backend: n warm-up requests, request A reaches the backend, the proxy process is replaced by a new one on the same port, n warm-up requests, request B; A's response is released while B is pending; oracle: B's client receives B's response; request IDs handed out by the two instances are compared; non-trivial = every history"
	var mu sync.Mutex
	release := map[string]chan struct{}{}
	arrived := map[string]chan struct{}{}
	gate := func(m map[string]chan struct{}, k string) chan struct{} {
		mu.Lock()
		defer mu.Unlock()
		if m[k] == nil {
			m[k] = make(chan struct{})
		}
		return m[k]
	}
	backend := httptest.NewServer(http.HandlerFunc(func(w http.ResponseWriter, r *http.Request) {
		if strings.HasPrefix(r.URL.Path, "/slow/") {
			close(gate(arrived, r.URL.Path))
			select {
			case <-gate(release, r.URL.Path):
			case <-time.After(20 * time.Second):
			}
		}
		w.Header().Set("X-Backend-Path", r.URL.Path)
		io.WriteString(w, "response for "+r.URL.Path)
	}))
	defer backend.Close()
	get := func(port int, path string, timeout time.Duration) (string, error) {
		c := &http.Client{Timeout: timeout, Transport: &http.Transport{DisableKeepAlives: true}}
		resp, err := c.Get(fmt.Sprintf("http://127.0.0.1:%d%s", port, path))
		if err != nil {
			return "", err
		}
		defer resp.Body.Close()
		b, _ := io.ReadAll(resp.Body)
		return fmt.Sprintf("%d %s", resp.StatusCode, b), nil
	}
	n := e.N(2, 12)
	for i := 0; i < n; i++ {
		if !e.Want(i) {
			continue
		}
		warm := []int{0, 2, 1, 5}[i%4]
		rig := &e2eRig{proxyPort: freePort()}
		rig.proxyURL = fmt.Sprintf("http://127.0.0.1:%d/", rig.proxyPort)
		p1 := rig.start(os.Getenv("VERIF_BIN_SERVER"), nil, "-port", fmt.Sprint(rig.proxyPort))
		if !waitPortRaw(rig.proxyPort) {
			panic("proxy did not start")
		}
		rig.startAgent(strings.TrimPrefix(backend.URL, "http://"))
		what := fmt.Sprintf("history %d (%d warm-up requests per proxy instance)", i, warm)
		ok := true
		for k := 0; k < warm; k++ {
			if got, err := get(rig.proxyPort, fmt.Sprintf("/w1-%d-%d", i, k), 10*time.Second); err != nil || !strings.HasSuffix(got, fmt.Sprintf("/w1-%d-%d", i, k)) {
				e.Fail("C01:wrong-response", fmt.Sprintf("%s: warm-up on the first instance got %q %v", what, got, err), i, nil, nil, nil)
				ok = false
			}
		}
		pa := fmt.Sprintf("/slow/a-%d", i)
		go get(rig.proxyPort, pa, 3*time.Second) // client A; its connection dies with the first proxy
		select {
		case <-gate(arrived, pa):
		case <-time.After(10 * time.Second):
			e.Fail("C01:request-lost", what+": request A never reached the backend", i, nil, nil, nil)
			ok = false
		}
		// replace the proxy process
		p1.Process.Kill()
		p1.Wait()
		rig.start(os.Getenv("VERIF_BIN_SERVER"), nil, "-port", fmt.Sprint(rig.proxyPort))
		if !waitPortRaw(rig.proxyPort) {
			panic("second proxy did not start")
		}
		for k := 0; k < warm && ok; k++ {
			if got, err := get(rig.proxyPort, fmt.Sprintf("/w2-%d-%d", i, k), 15*time.Second); err != nil || !strings.HasSuffix(got, fmt.Sprintf("/w2-%d-%d", i, k)) {
				e.Fail("C01:wrong-response", fmt.Sprintf("%s: warm-up on the second instance got %q %v", what, got, err), i, nil, nil, nil)
				ok = false
			}
		}
		pb := fmt.Sprintf("/b-%d", i)
		resB := make(chan string, 1)
		go func() {
			got, err := get(rig.proxyPort, pb, 15*time.Second)
			if err != nil {
				got = "error: " + err.Error()
			}
			resB <- got
		}()
		time.Sleep(400 * time.Millisecond) // B is pending (or already answered) at the second instance
		close(gate(release, pa))           // the backend now answers A; the agent uploads that response
		got := <-resB
		if got != "200 response for "+pb {
			e.Fail("C01:wrong-response", fmt.Sprintf("%s: request A (%s) was at the backend when the proxy process was replaced; client B asked the new instance for %s and received %q", what, pa, pb, got), i, nil, got, "200 response for "+pb)
		}
		if c := rig.crashed(); c != "" && !strings.Contains(c, "signal: killed") {
			e.Fail("C01:process-crashed", c, i, nil, nil, nil)
		}
		rig.stop()
		e.Eval(fmt.Sprintf("restart-%d", i), true)
		e.Count(fmt.Sprintf("warm-up=%d", warm))
		if i < 2 {
			e.Sample(map[string]interface{}{"warm_up_per_instance": warm, "request_at_backend_during_restart": pa, "request_on_new_instance": pb, "client_b_received": got})
		}
	}
}
