//go:build verif

package main

import (
	"encoding/json"
	"fmt"
	"io"
	"net/http"
	"net/http/httptest"
	"os"
	"os/exec"
	"path/filepath"
	"strings"
	"sync"
	"syscall"
	"time"

	"github.com/google/inverting-proxy/zz_verif/vh"
)

func init() { suites["lifecycle"] = suiteLifecycle }

// lcRig: fake metadata server + fake inverting proxy (list calls logged) + backend with a
// scripted /health and scripted latency, and the unmodified agent binary as a child.
type lcRig struct {
	mu               sync.Mutex
	t0               time.Time
	listTimes        []time.Duration // start time of every pending-list call
	healthLog        []time.Duration
	healthCode       []int
	script           []int // status codes for successive /health calls (last one repeats)
	pendingIDs       []string
	listFail         bool          // the list endpoint answers 500 at once
	listDrop         chan struct{} // non-nil: list calls are held until it is closed, then their connections are dropped
	latency          time.Duration
	backendHit       []time.Duration
	responses        map[string][]byte
	meta, prox, back *httptest.Server
	cmd              *exec.Cmd
	out              *syncBuffer
	exited           chan struct{}
	exitAt           time.Duration
	exitCode         int
}

func newLcRig(script []int, latency time.Duration) *lcRig {
	r := &lcRig{t0: time.Now(), script: script, latency: latency, responses: map[string][]byte{}, exited: make(chan struct{}), out: &syncBuffer{}}
	r.meta = httptest.NewServer(http.HandlerFunc(func(w http.ResponseWriter, q *http.Request) {
		if strings.HasPrefix(q.URL.Path, "/computeMetadata/v1/project/project-id") {
			io.WriteString(w, "12345")
			return
		}
		if !(strings.HasPrefix(q.URL.Path, "/computeMetadata/v1/instance/service-accounts/") && strings.HasSuffix(q.URL.Path, "/token")) {
			io.WriteString(w, "ok")
			return
		}
		json.NewEncoder(w).Encode(map[string]interface{}{"access_token": "fakeToken", "expires_in": 1000, "token_type": "Bearer"})
	}))
	r.back = httptest.NewServer(http.HandlerFunc(func(w http.ResponseWriter, q *http.Request) {
		if q.URL.Path == "/health" {
			r.mu.Lock()
			i := len(r.healthLog)
			code := r.script[len(r.script)-1]
			if i < len(r.script) {
				code = r.script[i]
			}
			r.healthLog = append(r.healthLog, time.Since(r.t0))
			r.healthCode = append(r.healthCode, code)
			r.mu.Unlock()
			w.WriteHeader(code)
			return
		}
		r.mu.Lock()
		r.backendHit = append(r.backendHit, time.Since(r.t0))
		lat := r.latency
		r.mu.Unlock()
		time.Sleep(lat)
		io.WriteString(w, "backend-done:"+q.URL.Path)
	}))
	r.prox = httptest.NewServer(http.HandlerFunc(func(w http.ResponseWriter, q *http.Request) {
		id := q.Header.Get(hdrRequestID)
		switch {
		case strings.HasSuffix(q.URL.Path, "agent/pending"):
			r.mu.Lock()
			r.listTimes = append(r.listTimes, time.Since(r.t0))
			bad := r.listFail
			drop := r.listDrop
			r.mu.Unlock()
			if bad {
				w.WriteHeader(500)
				return
			}
			if drop != nil {
				<-drop
				if hj, ok := w.(http.Hijacker); ok {
					if c, _, err := hj.Hijack(); err == nil {
						c.Close()
					}
				}
				return
			}
			// long poll: answer as soon as something is pending, at the latest after 400 ms
			for k := 0; k < 40; k++ {
				r.mu.Lock()
				ids := r.pendingIDs
				r.pendingIDs = nil
				r.mu.Unlock()
				if len(ids) > 0 {
					json.NewEncoder(w).Encode(ids)
					return
				}
				time.Sleep(10 * time.Millisecond)
			}
			io.WriteString(w, "[]")
		case strings.HasSuffix(q.URL.Path, "agent/request"):
			w.Header().Set("X-Inverting-Proxy-Request-Start-Time", time.Now().Format(time.RFC3339Nano))
			io.WriteString(w, "GET /work/"+id+" HTTP/1.1\r\nHost: backend.example\r\n\r\n")
		case strings.HasSuffix(q.URL.Path, "agent/response"):
			b, _ := io.ReadAll(q.Body)
			r.mu.Lock()
			r.responses[id] = b
			r.mu.Unlock()
		default:
			w.WriteHeader(404)
		}
	}))
	return r
}

func (r *lcRig) startAgent(e *vh.Env, args ...string) {
	home, _ := os.MkdirTemp(e.Tmp, "agent-home")
	os.MkdirAll(filepath.Join(home, ".config", "gcloud"), 0o755)
	all := append([]string{"--backend=lc", "--proxy", r.prox.URL + "/", "--host=" + strings.TrimPrefix(r.back.URL, "http://"), "--health-check-path=/health"}, args...)
	r.cmd = exec.Command(os.Getenv("VERIF_BIN_AGENT"), all...)
	r.cmd.Env = append(os.Environ(), "PATH=", "HOME="+home, "GCE_METADATA_HOST="+strings.TrimPrefix(r.meta.URL, "http://"), "VERIF_DRIVER=")
	r.cmd.Stdout, r.cmd.Stderr = r.out, r.out
	r.t0 = time.Now()
	if err := r.cmd.Start(); err != nil {
		panic(err)
	}
	go func() {
		err := r.cmd.Wait()
		r.mu.Lock()
		r.exitAt = time.Since(r.t0)
		r.exitCode = 0
		if ee, ok := err.(*exec.ExitError); ok {
			r.exitCode = ee.ExitCode()
		}
		r.mu.Unlock()
		close(r.exited)
	}()
}

func (r *lcRig) stop() {
	if r.cmd != nil && r.cmd.Process != nil {
		r.cmd.Process.Kill()
	}
	select {
	case <-r.exited:
	case <-time.After(2 * time.Second):
	}
	r.meta.Close()
	r.prox.Close()
	r.back.Close()
}

func (r *lcRig) waitExit(d time.Duration) bool {
	select {
	case <-r.exited:
		return true
	case <-time.After(d):
		return false
	}
}

func pat(codes []int) string {
	var sb strings.Builder
	for _, c := range codes {
		if c == 200 {
			sb.WriteByte('1')
		} else {
			sb.WriteByte('0')
		}
	}
	return sb.String()
}

// suiteLifecycle: black-box runs of the real agent binary.
func suiteLifecycle(e *vh.Env) {
	e.OpenOps("lifecycle")
	e.Result.Rule = "the unmodified agent binary against a fake metadata server, a fake proxy that logs every list call, and a backend with a scripted /health sequence and scripted latency: health gating (late start), unhealthy exit for thresholds 1..3 and several failure patterns, SIGINT/SIGTERM with a request at the backend and grace shorter/longer than the backend latency, and without the option; non-trivial = scenario with a failing health check or a signal"
	type scen struct {
		name string
		run  func(idx int)
	}
	var scens []scen
	var wg sync.WaitGroup
	// --- health gating + unhealthy exit
	hist := [][]int{{500, 500, 200, 200, 500, 500, 500}, {200, 500, 200, 500, 500, 500}, {200, 200, 500, 500, 500}, {500, 200, 500, 200, 500, 500, 500, 500},
		// failing checks are not only 5xx: a backend that is up but not ready answers 404/403/429 on its health path
		{404, 404, 200, 403, 404, 429, 403}, {200, 404, 200, 404, 403, 404}}
	for t := 1; t <= 3; t++ {
		for hi, h := range hist {
			if !e.Thorough() && (t+hi)%3 != 0 && !(t == 2 && hi == 4) {
				continue
			}
			t, h := t, h
			scens = append(scens, scen{fmt.Sprintf("health t=%d %s", t, pat(h)), func(idx int) {
				r := newLcRig(h, 0)
				defer r.stop()
				r.startAgent(e, "--health-check-interval-seconds=1", fmt.Sprintf("--health-check-unhealthy-threshold=%d", t))
				if !r.waitExit(time.Duration(len(h)+4) * time.Second) {
					e.Fail("C20:no-unhealthy-exit", fmt.Sprintf("threshold %d, health history %s: the agent did not terminate", t, pat(h)), idx, nil, nil, nil)
					return
				}
				r.mu.Lock()
				defer r.mu.Unlock()
				// the gate uses the first checks until one passes; the monitor sees the rest
				gateChecks := 0
				for i, c := range r.healthCode {
					if c == 200 {
						gateChecks = i + 1
						break
					}
				}
				firstOK := r.healthLog[gateChecks-1]
				for _, lt := range r.listTimes {
					if lt < firstOK {
						e.Fail("C20:polled-before-healthy", fmt.Sprintf("history %s: a list call at %v precedes the first passing health check at %v", pat(h), lt, firstOK), idx, nil, nil, nil)
					}
				}
				if len(r.listTimes) == 0 {
					e.Fail("C20:never-polled", fmt.Sprintf("history %s: no list call after the gate opened", pat(h)), idx, nil, nil, nil)
				}
				mon := r.healthCode[gateChecks:]
				// oracle from the property: exit at the first check that completes `t` consecutive failures
				want, run := -1, 0
				for i, c := range mon {
					if c != 200 {
						run++
					} else {
						run = 0
					}
					if run >= t {
						want = i + 1
						break
					}
				}
				if want != len(mon) || r.exitCode != 1 {
					e.Fail("C20:unhealthy-exit-wrong", fmt.Sprintf("threshold %d, monitor history %s: exited after %d monitor checks with status %d, expected after %d with status 1", t, pat(mon), len(mon), r.exitCode, want), idx, nil, len(mon), want)
				}
				e.Op(fmt.Sprintf("gate %s", pat(r.healthCode[:gateChecks])), fmt.Sprint(gateChecks))
				e.Op(fmt.Sprintf("monitor %d %s", t, pat(mon)), fmt.Sprint(len(mon)))
				e.Eval(fmt.Sprintf("health/%d/%s", t, pat(h)), true)
				e.Sample(map[string]interface{}{"threshold": t, "health_history": pat(r.healthCode), "first_list_call_ms": r.listTimes[0].Milliseconds(), "first_passing_check_ms": firstOK.Milliseconds(), "exit_ms": r.exitAt.Milliseconds(), "exit_status": r.exitCode})
			}})
		}
	}
	// --- shutdown
	for _, sg := range []syscall.Signal{syscall.SIGINT, syscall.SIGTERM} {
		for _, c := range []struct {
			grace   int // seconds, 0 = option off
			latency time.Duration
			again   syscall.Signal // a further signal 300 ms into the grace period (0 = none): it must change nothing
		}{{2, 800 * time.Millisecond, 0}, {1, 2500 * time.Millisecond, 0}, {0, 800 * time.Millisecond, 0}, {2, 800 * time.Millisecond, syscall.SIGINT}, {2, 800 * time.Millisecond, syscall.SIGTERM}} {
			if !e.Thorough() && sg == syscall.SIGINT && (c.grace == 1 || c.again != 0) {
				continue
			}
			if !e.Thorough() && c.again == syscall.SIGTERM {
				continue
			}
			sg, c := sg, c
			scens = append(scens, scen{fmt.Sprintf("signal %v grace=%ds latency=%v again=%v", sg, c.grace, c.latency, c.again), func(idx int) {
				r := newLcRig([]int{200}, c.latency)
				defer r.stop()
				args := []string{}
				if c.grace > 0 {
					args = append(args, fmt.Sprintf("--graceful-shutdown-timeout=%ds", c.grace))
				}
				r.startAgent(e, args...)
				// wait until the agent polls, hand it one request, wait until the request is at the backend
				ok := false
				for k := 0; k < 500; k++ {
					r.mu.Lock()
					n := len(r.listTimes)
					r.mu.Unlock()
					if n >= 2 {
						ok = true
						break
					}
					time.Sleep(10 * time.Millisecond)
				}
				if !ok {
					e.Fail("C20:never-polled", "agent did not start polling: "+r.out.String()[:min3(len(r.out.String()))*100], idx, nil, nil, nil)
					return
				}
				r.mu.Lock()
				r.pendingIDs = []string{"inflight"}
				r.mu.Unlock()
				for k := 0; k < 500; k++ {
					r.mu.Lock()
					n := len(r.backendHit)
					r.mu.Unlock()
					if n >= 1 {
						break
					}
					time.Sleep(5 * time.Millisecond)
				}
				sigAt := time.Since(r.t0)
				r.cmd.Process.Signal(sg)
				if c.again != 0 {
					go func() { time.Sleep(300 * time.Millisecond); r.cmd.Process.Signal(c.again) }()
				}
				exited := r.waitExit(time.Duration(c.grace)*time.Second + 3*time.Second)
				r.mu.Lock()
				defer r.mu.Unlock()
				what := fmt.Sprintf("%v with grace %ds and a request at the backend (latency %v)", sg, c.grace, c.latency)
				if c.again != 0 {
					what += fmt.Sprintf(", followed by %v 300 ms later", c.again)
				}
				if !exited {
					e.Fail("C20:no-exit-after-signal", what+": the agent did not exit", idx, nil, nil, nil)
					return
				}
				after := r.exitAt - sigAt
				if c.grace == 0 {
					if after > time.Second {
						e.Fail("C20:exit-not-prompt", what+fmt.Sprintf(": exited %v after the signal", after), idx, nil, nil, nil)
					}
				} else {
					if after < time.Duration(c.grace)*time.Second-100*time.Millisecond || after > time.Duration(c.grace)*time.Second+900*time.Millisecond {
						e.Fail("C20:graceful-exit-time", what+fmt.Sprintf(": exited %v after the signal", after), idx, nil, after.String(), nil)
					}
					// no new list call starts once the one in flight at the signal has returned (list calls last <= 400 ms)
					for _, lt := range r.listTimes {
						if lt > sigAt+450*time.Millisecond {
							e.Fail("C20:polled-after-signal", what+fmt.Sprintf(": a list call started %v after the signal", lt-sigAt), idx, nil, nil, nil)
						}
					}
					resp := r.responses["inflight"]
					if c.latency < time.Duration(c.grace)*time.Second {
						body := ""
						if pr, err := http.ReadResponse(bufioReader(strings.NewReader(string(resp))), nil); err == nil {
							b, _ := io.ReadAll(pr.Body)
							body = string(b)
						}
						if body != "backend-done:/work/inflight" {
							e.Fail("C20:inflight-request-lost", what+fmt.Sprintf(": the in-flight request was not answered in full (uploaded %q)", resp), idx, nil, nil, nil)
						}
					}
				}
				e.Eval("signal/"+what, true)
				e.Sample(map[string]interface{}{"scenario": what, "signal_ms": sigAt.Milliseconds(), "exit_after_signal_ms": after.Milliseconds(), "exit_status": r.exitCode, "list_calls": len(r.listTimes), "inflight_answered": len(r.responses["inflight"]) > 0})
			}})
		}
	}
	// --- signal while the agent is still waiting for its backend to come up (health gate)
	for _, sg := range []syscall.Signal{syscall.SIGTERM, syscall.SIGINT} {
		for _, grace := range []int{0, 3} {
			if !e.Thorough() && grace == 3 && sg == syscall.SIGINT {
				continue
			}
			sg, grace := sg, grace
			scens = append(scens, scen{fmt.Sprintf("signal %v during the health gate grace=%ds", sg, grace), func(idx int) {
				r := newLcRig([]int{503}, 0) // never healthy
				defer r.stop()
				args := []string{"--health-check-interval-seconds=1", "--health-check-unhealthy-threshold=2"}
				if grace > 0 {
					args = append(args, fmt.Sprintf("--graceful-shutdown-timeout=%ds", grace))
				}
				r.startAgent(e, args...)
				ok := false
				for k := 0; k < 500; k++ {
					r.mu.Lock()
					n := len(r.healthLog)
					r.mu.Unlock()
					if n >= 1 {
						ok = true
						break
					}
					time.Sleep(10 * time.Millisecond)
				}
				if !ok {
					e.Fail("C20:no-health-check", "the agent made no health check within 5 s", idx, nil, nil, nil)
					return
				}
				time.Sleep(150 * time.Millisecond)
				sigAt := time.Since(r.t0)
				r.cmd.Process.Signal(sg)
				what := fmt.Sprintf("%v during the health gate (backend never healthy), grace %ds", sg, grace)
				limit := time.Duration(grace)*time.Second + 1500*time.Millisecond // with the option, exiting when the period ends is acceptable
				if !r.waitExit(limit) {
					e.Fail("C20:no-exit-after-signal", what+fmt.Sprintf(": the agent was still running %v after the signal", limit), idx, nil, nil, nil)
					return
				}
				r.mu.Lock()
				defer r.mu.Unlock()
				after := r.exitAt - sigAt
				if grace == 0 && after > time.Second {
					e.Fail("C20:exit-not-prompt", what+fmt.Sprintf(": exited %v after the signal", after), idx, nil, nil, nil)
				}
				if len(r.listTimes) > 0 {
					e.Fail("C20:polled-before-healthy", what+": a list call was made although no health check ever passed", idx, nil, nil, nil)
				}
				e.Eval("signal-gate/"+what, true)
				e.Sample(map[string]interface{}{"scenario": what, "exit_after_signal_ms": after.Milliseconds(), "health_checks": len(r.healthLog)})
			}})
		}
	}
	// --- shutdown while the proxy is failing: the polling loop is in its error/back-off branch when the signal arrives
	for _, sg := range []syscall.Signal{syscall.SIGTERM, syscall.SIGINT} {
		for _, failsBefore := range []int{1, 2, 4} {
			if !e.Thorough() && (sg == syscall.SIGINT || failsBefore == 4) {
				continue
			}
			sg, failsBefore := sg, failsBefore
			scens = append(scens, scen{fmt.Sprintf("signal %v grace=3s proxy failing (%d failed list calls before)", sg, failsBefore), func(idx int) {
				r := newLcRig([]int{200}, 0)
				defer r.stop()
				r.startAgent(e, "--graceful-shutdown-timeout=3s")
				count := func() int { r.mu.Lock(); defer r.mu.Unlock(); return len(r.listTimes) }
				for k := 0; k < 500 && count() < 2; k++ {
					time.Sleep(10 * time.Millisecond)
				}
				if count() < 2 {
					e.Fail("C20:never-polled", "agent did not start polling", idx, nil, nil, nil)
					return
				}
				r.mu.Lock()
				r.listFail = true
				base := len(r.listTimes) // the call in flight now may still be answered by the healthy handler
				r.mu.Unlock()
				for k := 0; k < 1000 && count() < base+failsBefore; k++ {
					time.Sleep(5 * time.Millisecond)
				}
				time.Sleep(20 * time.Millisecond) // the failed call has returned; the loop is backing off
				sigAt := time.Since(r.t0)
				r.cmd.Process.Signal(sg)
				exited := r.waitExit(6 * time.Second)
				r.mu.Lock()
				defer r.mu.Unlock()
				what := fmt.Sprintf("%v with grace 3s while the proxy answers every list call with 500 (%d failures before the signal)", sg, failsBefore)
				if !exited {
					e.Fail("C20:no-exit-after-signal", what+": the agent did not exit", idx, nil, nil, nil)
					return
				}
				after := r.exitAt - sigAt
				if after < 2900*time.Millisecond || after > 3900*time.Millisecond {
					e.Fail("C20:graceful-exit-time", what+fmt.Sprintf(": exited %v after the signal", after), idx, nil, after.String(), nil)
				}
				// failing list calls return at once, so any list call that starts 250 ms or more after the signal is a new poll
				for _, lt := range r.listTimes {
					if lt > sigAt+250*time.Millisecond {
						e.Fail("C20:polled-after-signal", what+fmt.Sprintf(": a list call started %v after the signal", lt-sigAt), idx, nil, nil, nil)
						break
					}
				}
				e.Eval("signal-failing/"+what, true)
				e.Sample(map[string]interface{}{"scenario": what, "signal_ms": sigAt.Milliseconds(), "exit_after_signal_ms": after.Milliseconds(), "list_calls": len(r.listTimes)})
			}})
		}
	}
	// --- the poll in flight at the signal ends in a transport error (the proxy drops the connection): that was the last poll
	for _, sg := range []syscall.Signal{syscall.SIGTERM, syscall.SIGINT} {
		if !e.Thorough() && sg == syscall.SIGINT {
			continue
		}
		sg := sg
		scens = append(scens, scen{fmt.Sprintf("signal %v grace=2s, the proxy then drops the connection of the poll in flight", sg), func(idx int) {
			r := newLcRig([]int{200}, 0)
			defer r.stop()
			r.prox.Config.SetKeepAlivesEnabled(false) // otherwise net/http itself re-sends a request that died on a reused connection
			r.startAgent(e, "--graceful-shutdown-timeout=2s")
			count := func() int { r.mu.Lock(); defer r.mu.Unlock(); return len(r.listTimes) }
			for k := 0; k < 500 && count() < 2; k++ {
				time.Sleep(10 * time.Millisecond)
			}
			if count() < 2 {
				e.Fail("C20:never-polled", "agent did not start polling", idx, nil, nil, nil)
				return
			}
			drop := make(chan struct{})
			r.mu.Lock()
			r.listDrop = drop
			base := len(r.listTimes)
			r.mu.Unlock()
			for k := 0; k < 400 && count() < base+1; k++ { // a poll that will be held is in flight
				time.Sleep(5 * time.Millisecond)
			}
			time.Sleep(30 * time.Millisecond)
			held := count()
			sigAt := time.Since(r.t0)
			r.cmd.Process.Signal(sg)
			time.Sleep(300 * time.Millisecond)
			close(drop)
			exited := r.waitExit(5 * time.Second)
			r.mu.Lock()
			defer r.mu.Unlock()
			what := fmt.Sprintf("%v with grace 2s; 300 ms later the proxy dropped the connection of the pending-list poll that was in flight", sg)
			if !exited {
				e.Fail("C20:no-exit-after-signal", what+": the agent did not exit", idx, nil, nil, nil)
				return
			}
			if len(r.listTimes) > held {
				e.Fail("C20:polled-after-signal", what+fmt.Sprintf(": %d more list call(s) started, the first %v after the signal", len(r.listTimes)-held, r.listTimes[held]-sigAt), idx, nil, nil, nil)
			}
			e.Eval("signal-poll-dropped/"+what, true)
			e.Sample(map[string]interface{}{"scenario": what, "list_calls_before_signal": held, "list_calls_total": len(r.listTimes)})
		}})
	}
	for idx, s := range scens {
		if !e.Want(idx) {
			continue
		}
		wg.Add(1)
		go func(idx int, s scen) { defer wg.Done(); s.run(idx) }(idx, s)
	}
	wg.Wait()
	e.Count(fmt.Sprintf("scenarios=%d", len(scens)))
}
