//go:build verif

package main

import (
	"bytes"
	"compress/gzip"
	"context"
	"crypto/sha256"
	"fmt"
	"io"
	"net"
	"net/http"
	"net/http/httptest"
	"net/url"
	"os"
	"os/exec"
	"strings"
	"sync"
	"time"

	"github.com/gorilla/websocket"

	"github.com/google/inverting-proxy/utils/tcpbridge/connection"
	"github.com/google/inverting-proxy/zz_verif/vh"
)

func init() {
	suites["bridgeconn"] = suiteBridgeConn
	suites["bridge"] = suiteBridge
}

// wsPair returns two real WebsocketNetConn ends connected over loopback.
func wsPair() (a, b *connection.WebsocketNetConn, closeFn func()) {
	ch := make(chan *websocket.Conn, 1)
	up := websocket.Upgrader{ReadBufferSize: 1024, WriteBufferSize: 1024}
	srv := httptest.NewServer(http.HandlerFunc(func(w http.ResponseWriter, r *http.Request) {
		c, err := up.Upgrade(w, r, nil)
		if err != nil {
			panic(err)
		}
		ch <- c
	}))
	u, _ := url.Parse("ws" + strings.TrimPrefix(srv.URL, "http"))
	nc, err := connection.DialWebsocket(context.Background(), u, nil)
	if err != nil {
		panic(err)
	}
	a = nc.(*connection.WebsocketNetConn)
	b = &connection.WebsocketNetConn{Conn: <-ch}
	return a, b, func() { a.Close(); b.Close(); srv.Close() }
}

// suiteBridgeConn: differential test of WebsocketNetConn.Write/Read against Model/Bridge.
func suiteBridgeConn(e *vh.Env) {
	e.OpenOps("bridgeconn")
	e.Result.Rule = "op sequences over {w <bytes>, r <bufsize>, inject <binary message>} on a real WebsocketNetConn pair; write sizes 0..5000 (beyond the 1 KiB websocket buffers), read buffers 1..4096, all byte values; non-trivial = sequence with a partially consumed message or an interleaved non-text message"
	n := e.N(60, 2000)
	for i := 0; i < n; i++ {
		if !e.Want(i) {
			continue
		}
		rng := e.Rng.Sub(i)
		a, b, done := wsPair()
		e.Op("new", "ok")
		pending := 0
		partial, injected := false, false
		steps := 5 + rng.Intn(40)
		var sent, got []byte
		for s := 0; s < steps; s++ {
			switch k := rng.Intn(10); {
			case k < 4:
				sz := 0
				switch rng.Intn(6) {
				case 0:
					sz = 0
				case 1:
					sz = 1 + rng.Intn(3)
				case 2:
					sz = 1000 + rng.Intn(100)
				case 3:
					sz = rng.Intn(5000)
				default:
					sz = rng.Intn(64)
				}
				bs := rng.Bytes(sz)
				if rng.Chance(10) {
					for j := range bs {
						bs[j] = byte(j)
					}
				}
				c, err := a.Write(bs)
				if err != nil {
					e.Fail("C15:write-error", err.Error(), i, nil, nil, nil)
				}
				sent = append(sent, bs...)
				pending += sz
				e.Op("w "+vh.Hex(bs), fmt.Sprintf("ok %d", c))
				e.Count("write")
			case k < 5:
				bs := rng.Bytes(rng.Intn(20))
				if err := a.Conn.WriteMessage(websocket.BinaryMessage, bs); err != nil {
					e.Fail("C15:inject-error", err.Error(), i, nil, nil, nil)
				}
				injected = true
				e.Op("inject "+vh.Hex(bs), "ok")
				e.Count("inject-binary")
			default:
				if pending == 0 {
					continue
				}
				sz := 1 + rng.Intn(64)
				if rng.Chance(30) {
					sz = 1 + rng.Intn(4096)
				}
				buf := make([]byte, sz)
				c, err := b.Read(buf)
				if err != nil {
					e.Fail("C15:read-error", err.Error(), i, nil, nil, nil)
					break
				}
				if c < pending && c == sz {
					partial = true
				}
				pending -= c
				got = append(got, buf[:c]...)
				e.Op(fmt.Sprintf("r %d", sz), "data "+vh.Hex(buf[:c]))
				e.Count("read")
			}
		}
		// drain and compare (oracle: received stream = sent stream)
		for pending > 0 {
			buf := make([]byte, 1+rng.Intn(8192))
			c, err := b.Read(buf)
			if err != nil {
				e.Fail("C15:read-error", err.Error(), i, nil, nil, nil)
				break
			}
			pending -= c
			got = append(got, buf[:c]...)
			e.Op(fmt.Sprintf("r %d", len(buf)), "data "+vh.Hex(buf[:c]))
		}
		if !bytes.Equal(sent, got) {
			e.Fail("C15:stream-mismatch", fmt.Sprintf("case %d: sent %d bytes, received %d bytes, differ", i, len(sent), len(got)), i, nil, nil, nil)
		}
		e.Eval(fmt.Sprintf("%d:%x", i, sha256.Sum256(sent)), partial || injected)
		if i < 3 {
			e.Sample(map[string]interface{}{"case": i, "steps": steps, "bytes": len(sent), "partial_message_reads": partial, "binary_injected": injected})
		}
		done()
	}
	// several connections in one process, reads smaller than the messages, interleaved: what one connection has
	// received but not yet handed to its reader must not be affected by traffic on another connection
	rounds := e.N(40, 1500)
	for r := 0; r < rounds; r++ {
		if !e.Want(n + r) {
			continue
		}
		rng := e.Rng.Sub(1<<20 + r)
		k := 2 + rng.Intn(3)
		type pr struct {
			a, b      *connection.WebsocketNetConn
			done      func()
			sent, got []byte
			pending   int
		}
		var ps []*pr
		for j := 0; j < k; j++ {
			a, b, done := wsPair()
			ps = append(ps, &pr{a: a, b: b, done: done})
		}
		bad := false
		for s := 0; s < 30+rng.Intn(60) && !bad; s++ {
			p := ps[rng.Intn(k)]
			if p.pending == 0 || rng.Chance(35) {
				bs := rng.Bytes(50 + rng.Intn(900))
				if _, err := p.a.Write(bs); err != nil {
					e.Fail("C15:write-error", err.Error(), n+r, nil, nil, nil)
					bad = true
				}
				p.sent = append(p.sent, bs...)
				p.pending += len(bs)
			} else {
				buf := make([]byte, 1+rng.Intn(120))
				c, err := p.b.Read(buf)
				if err != nil {
					e.Fail("C15:read-error", err.Error(), n+r, nil, nil, nil)
					bad = true
				}
				p.got = append(p.got, buf[:c]...)
				p.pending -= c
			}
		}
		for j, p := range ps {
			for p.pending > 0 && !bad {
				buf := make([]byte, 1+rng.Intn(300))
				c, err := p.b.Read(buf)
				if err != nil {
					e.Fail("C15:read-error", err.Error(), n+r, nil, nil, nil)
					break
				}
				p.got = append(p.got, buf[:c]...)
				p.pending -= c
			}
			if !bad && !bytes.Equal(p.sent, p.got) {
				e.Fail("C15:stream-mismatch", fmt.Sprintf("round %d: %d connections with interleaved small reads; connection %d sent %d bytes, its reader received %d bytes, first difference at offset %d", r, k, j, len(p.sent), len(p.got), firstDiffDrv(p.sent, p.got)), n+r, nil, nil, nil)
				bad = true
			}
			p.done()
		}
		e.Eval(fmt.Sprintf("interleaved-%d", r), true)
		e.Count("interleaved-connections")
	}
	bridgeBigWrites(e, 500000)
}

// bridgeBigWrites: single Write calls of more than 32 KiB (the hex text message is then larger than 64 KiB) through the
// real connection.Handler to a TCP echo server and back.
func bridgeBigWrites(e *vh.Env, base int) {
	if !e.Want(base) {
		return
	}
	ln, err := net.Listen("tcp", "127.0.0.1:0")
	if err != nil {
		return
	}
	defer ln.Close()
	go func() {
		for {
			c, err := ln.Accept()
			if err != nil {
				return
			}
			go func() { io.Copy(c, c); c.Close() }()
		}
	}()
	srv := httptest.NewServer(connection.Handler(ln.Addr().(*net.TCPAddr).Port, http.NotFoundHandler()))
	defer srv.Close()
	u, _ := url.Parse("ws" + strings.TrimPrefix(srv.URL, "http") + connection.StreamingPath)
	for k, size := range []int{1, 4097, 32768, 32769, 100000, 1 << 20} {
		nc, err := connection.DialWebsocket(context.Background(), u, nil)
		if err != nil {
			e.Fail("C15:bridge-connect", err.Error(), base+k, nil, nil, nil)
			continue
		}
		data := e.Rng.Sub(base + k).Bytes(size)
		go nc.Write(data) // one Write call
		got := make([]byte, size)
		nc.SetReadDeadline(time.Now().Add(10 * time.Second))
		n, rerr := io.ReadFull(nc, got)
		if n != size || !bytes.Equal(got, data) {
			e.Fail("C15:stream-mismatch:single-large-write", fmt.Sprintf("%d bytes written with one Write call through the bridge handler to an echo server: %d came back (%v)", size, n, rerr), base+k, nil, n, size)
		}
		nc.Close()
		e.Eval(fmt.Sprintf("big-write-%d", size), size > 32768)
		e.Count("single-large-write")
	}
}

func firstDiffDrv(a, b []byte) int {
	for i := 0; i < len(a) && i < len(b); i++ {
		if a[i] != b[i] {
			return i
		}
	}
	if len(a) < len(b) {
		return len(a)
	}
	return len(b)
}

func freePort() int {
	l, err := net.Listen("tcp", "127.0.0.1:0")
	if err != nil {
		panic(err)
	}
	defer l.Close()
	return l.Addr().(*net.TCPAddr).Port
}

func waitPort(port int) bool {
	for i := 0; i < 200; i++ {
		c, err := net.DialTimeout("tcp", fmt.Sprintf("127.0.0.1:%d", port), 100*time.Millisecond)
		if err == nil {
			c.Close()
			return true
		}
		time.Sleep(25 * time.Millisecond)
	}
	return false
}

// bridgeRig: TCP server (ours) <- tcp-bridge-backend (real binary) <- websocket <- tcp-bridge-frontend (real binary) <- TCP clients (ours)
type bridgeRig struct {
	tcpSrv       net.Listener
	backendPort  int // where the bridge backend binary listens (HTTP)
	frontendPort int // where the bridge frontend binary listens (TCP)
	procs        []*exec.Cmd
	logs         []*bytes.Buffer
	accepted     chan net.Conn // connections that did not start with a registered token (HTTP pass-through, probes)
	mu           sync.Mutex
	waiters      map[string]chan net.Conn
	tokSeq       uint64
}

// prefixConn replays bytes already consumed while looking for a pairing token.
type prefixConn struct {
	net.Conn
	pre []byte
}

func (p *prefixConn) Read(b []byte) (int, error) {
	if len(p.pre) > 0 {
		n := copy(b, p.pre)
		p.pre = p.pre[n:]
		return n, nil
	}
	return p.Conn.Read(b)
}

func startRig(e *vh.Env) *bridgeRig {
	r := &bridgeRig{accepted: make(chan net.Conn, 1024), waiters: map[string]chan net.Conn{}}
	var err error
	r.tcpSrv, err = net.Listen("tcp", "127.0.0.1:0")
	if err != nil {
		panic(err)
	}
	go func() {
		for {
			c, err := r.tcpSrv.Accept()
			if err != nil {
				return
			}
			go func(c net.Conn) {
				// the first 16 bytes pair the accepted connection with the client that dialled it
				tok := make([]byte, 16)
				c.SetReadDeadline(time.Now().Add(3 * time.Second))
				n, _ := io.ReadFull(c, tok)
				c.SetReadDeadline(time.Time{})
				r.mu.Lock()
				w, ok := r.waiters[string(tok[:n])]
				if ok {
					delete(r.waiters, string(tok[:n]))
				}
				r.mu.Unlock()
				if ok {
					w <- c
					return
				}
				r.accepted <- &prefixConn{Conn: c, pre: tok[:n]}
			}(c)
		}
	}()
	srvPort := r.tcpSrv.Addr().(*net.TCPAddr).Port
	r.backendPort, r.frontendPort = freePort(), freePort()
	start := func(bin string, args ...string) {
		cmd := exec.Command(bin, args...)
		var buf bytes.Buffer
		cmd.Stdout, cmd.Stderr = &buf, &buf
		if err := cmd.Start(); err != nil {
			panic(err)
		}
		r.procs = append(r.procs, cmd)
		r.logs = append(r.logs, &buf)
	}
	start(os.Getenv("VERIF_BIN_BRIDGE_BACKEND"), "-frontend-port", fmt.Sprint(r.backendPort), "-backend-port", fmt.Sprint(srvPort))
	start(os.Getenv("VERIF_BIN_BRIDGE_FRONTEND"), "-frontend-port", fmt.Sprint(r.frontendPort), "-backend", fmt.Sprintf("ws://127.0.0.1:%d%s", r.backendPort, map[bool]string{true: "/", false: ""}[e.Suite == "bridge"])) // both spellings of the URL are in use
	if !waitPort(r.backendPort) || !waitPort(r.frontendPort) {
		panic("bridge binaries did not start: " + r.logs[0].String() + r.logs[1].String())
	}
	// waitPort itself opened (and closed) one bridged connection to the frontend: drain it
	select {
	case c := <-r.accepted:
		c.Close()
	case <-time.After(2 * time.Second):
	}
	return r
}

func (r *bridgeRig) stop() {
	for _, p := range r.procs {
		p.Process.Kill()
		p.Wait()
	}
	r.tcpSrv.Close()
}

func (r *bridgeRig) dial() (client, server net.Conn, err error) {
	client, err = net.Dial("tcp", fmt.Sprintf("127.0.0.1:%d", r.frontendPort))
	if err != nil {
		return nil, nil, err
	}
	r.mu.Lock()
	r.tokSeq++
	tok := fmt.Sprintf("VERIF-TOK-%06d", r.tokSeq)
	w := make(chan net.Conn, 1)
	r.waiters[tok] = w
	r.mu.Unlock()
	if _, err := client.Write([]byte(tok)); err != nil {
		return nil, nil, err
	}
	select {
	case server = <-w:
		return client, server, nil
	case <-time.After(5 * time.Second):
		client.Close()
		return nil, nil, fmt.Errorf("bridge did not connect to the TCP server within 5s")
	}
}

// pump writes `data` in random segments to w.
func pump(rng *vh.Rng, w io.Writer, data []byte) error {
	for len(data) > 0 {
		n := 1 + rng.Intn(200)
		switch rng.Intn(5) {
		case 0:
			n = 1 + rng.Intn(3)
		case 1:
			n = 1 + rng.Intn(200*1024)
		}
		if n > len(data) {
			n = len(data)
		}
		if _, err := w.Write(data[:n]); err != nil {
			return err
		}
		data = data[n:]
	}
	return nil
}

func slurp(rng *vh.Rng, r net.Conn, want int) ([]byte, error) {
	var out []byte
	r.SetReadDeadline(time.Now().Add(30 * time.Second))
	for len(out) < want {
		buf := make([]byte, 1+rng.Intn(64*1024))
		n, err := r.Read(buf)
		out = append(out, buf[:n]...)
		if err != nil {
			return out, err
		}
	}
	return out, nil
}

// suiteBridge: end to end through the real frontend and backend binaries, full duplex,
// concurrent connections; plus pass-through of plain HTTP requests.
func suiteBridge(e *vh.Env) {
	e.Result.Rule = "TCP client <-> real tcp-bridge-frontend <-> real tcp-bridge-backend <-> TCP server; per connection random payloads (all byte values) of 0..2 MiB each way at once, random write segmentation 1 B..200 KiB, random read buffers; non-trivial = connection carrying > 64 KiB in both directions; plus plain HTTP requests passed through the backend"
	rig := startRig(e)
	defer rig.stop()
	conns := e.N(12, 200)
	par := e.N(4, 16)
	sem := make(chan struct{}, par)
	var wg sync.WaitGroup
	for i := 0; i < conns; i++ {
		if !e.Want(i) {
			continue
		}
		wg.Add(1)
		sem <- struct{}{}
		go func(i int) {
			defer wg.Done()
			defer func() { <-sem }()
			rng := e.Rng.Sub(i)
			size := func() int {
				switch rng.Intn(5) {
				case 0:
					return 0
				case 1:
					return 1 + rng.Intn(100)
				case 2:
					return 64*1024 + rng.Intn(2*1024*1024)
				default:
					return rng.Intn(100 * 1024)
				}
			}
			up, down := rng.Bytes(size()), rng.Bytes(size())
			c, s, err := rig.dial()
			if err != nil {
				e.Fail("C15:bridge-connect", err.Error(), i, nil, nil, nil)
				return
			}
			defer c.Close()
			defer s.Close()
			if i%4 == 1 {
				// one peer sends its part and half-closes (it is done writing but keeps reading); the other
				// direction is used only afterwards and must still carry everything
				first, second, p1, p2, who := s, c, down, up, "server"
				if rng.Bool() {
					first, second, p1, p2, who = c, s, up, down, "client"
				}
				var g1, g2 []byte
				var ea, eb error
				var w3 sync.WaitGroup
				w3.Add(2)
				ra, rb := rng.Sub(5), rng.Sub(6)
				go func() { defer w3.Done(); ea = pump(ra, first, p1); closeWrite(first) }()
				go func() { defer w3.Done(); g1, eb = slurp(rb, second, len(p1)) }()
				w3.Wait()
				time.Sleep(100 * time.Millisecond)
				var ec, ed error
				w3.Add(2)
				go func() { defer w3.Done(); ec = pump(ra, second, p2) }()
				go func() {
					defer w3.Done()
					first.SetReadDeadline(time.Now().Add(20 * time.Second))
					g2, ed = slurp(rb, first, len(p2))
				}()
				w3.Wait()
				if ea != nil || eb != nil || !bytes.Equal(g1, p1) {
					e.Fail("C15:stream-mismatch:before-half-close", fmt.Sprintf("conn %d: the %s sent %d bytes and half-closed; the peer received %d (errors %v %v)", i, who, len(p1), len(g1), ea, eb), i, nil, len(g1), len(p1))
				}
				if ec != nil || !bytes.Equal(g2, p2) {
					e.Fail("C15:stream-mismatch:after-peer-half-close", fmt.Sprintf("conn %d: after the %s had sent %d bytes and half-closed (still reading), the other peer sent %d bytes; %d arrived (write error %v, read error %v)", i, who, len(p1), len(p2), len(g2), ec, ed), i, nil, len(g2), len(p2))
				}
				e.Eval(fmt.Sprintf("%d:half-close:%s", i, who), len(p2) > 0)
				e.Count("half-close-by-" + who)
				return
			}
			var gotUp, gotDown []byte
			var e1, e2, e3, e4 error
			var w2 sync.WaitGroup
			w2.Add(4)
			r1, r2, r3, r4 := rng.Sub(1), rng.Sub(2), rng.Sub(3), rng.Sub(4)
			go func() { defer w2.Done(); e1 = pump(r1, c, up) }()
			go func() { defer w2.Done(); e2 = pump(r2, s, down) }()
			go func() { defer w2.Done(); gotUp, e3 = slurp(r3, s, len(up)) }()
			go func() { defer w2.Done(); gotDown, e4 = slurp(r4, c, len(down)) }()
			w2.Wait()
			for _, err := range []error{e1, e2, e3, e4} {
				if err != nil {
					e.Fail("C15:bridge-io-error", fmt.Sprintf("conn %d: %v", i, err), i, nil, nil, nil)
					return
				}
			}
			if !bytes.Equal(up, gotUp) {
				e.Fail("C15:stream-mismatch:client-to-server", fmt.Sprintf("conn %d: %d bytes sent, %d received, sha %x vs %x", i, len(up), len(gotUp), sha256.Sum256(up), sha256.Sum256(gotUp)), i, nil, nil, nil)
			}
			if !bytes.Equal(down, gotDown) {
				e.Fail("C15:stream-mismatch:server-to-client", fmt.Sprintf("conn %d: %d bytes sent, %d received", i, len(down), len(gotDown)), i, nil, nil, nil)
			}
			e.Eval(fmt.Sprintf("%d:%d:%d", i, len(up), len(down)), len(up) > 65536 && len(down) > 65536)
			e.Count(fmt.Sprintf("up>64K=%v,down>64K=%v", len(up) > 65536, len(down) > 65536))
			e.Sample(map[string]interface{}{"conn": i, "bytes_up": len(up), "bytes_down": len(down)})
		}(i)
	}
	wg.Wait()

	// pass-through: plain HTTP requests to the backend binary reach the backend port unchanged
	httpSeen := make(chan string, 16)
	stopHTTP := make(chan struct{})
	go func() {
		for {
			select {
			case c := <-rig.accepted:
				go func(c net.Conn) {
					defer c.Close()
					req, err := http.ReadRequest(bufioReader(c))
					if err != nil {
						httpSeen <- "error " + err.Error()
						return
					}
					body, _ := io.ReadAll(req.Body)
					if req.URL.Path == "/slow-download" {
						// a response streamed over 11 s (long poll, event stream, slow download)
						io.WriteString(c, "HTTP/1.1 200 OK\r\nContent-Length: 1100\r\nConnection: close\r\n\r\n")
						for k := 0; k < 11; k++ {
							c.Write(bytes.Repeat([]byte{byte('a' + k)}, 100))
							time.Sleep(time.Second)
						}
						return
					}
					if req.URL.Path == "/slow-upload" {
						fmt.Fprintf(c, "HTTP/1.1 200 OK\r\nContent-Length: 64\r\nConnection: close\r\n\r\n%x", sha256.Sum256(body))
						return
					}
					httpSeen <- fmt.Sprintf("%s %s host=%s x=%s ae=%s body=%x", req.Method, req.RequestURI, req.Host, strings.Join(req.Header["X-Verif"], ","), strings.Join(req.Header["Accept-Encoding"], ","), body)
					if strings.HasPrefix(req.URL.Path, "/gz") {
						// a port that compresses its answers
						fmt.Fprintf(c, "HTTP/1.1 200 OK\r\nContent-Encoding: gzip\r\nContent-Length: %d\r\nConnection: close\r\n\r\n%s", len(gzHello), gzHello)
						return
					}
					io.WriteString(c, "HTTP/1.1 200 OK\r\nContent-Length: 2\r\nConnection: close\r\n\r\nok")
				}(c)
			case <-stopHTTP:
				return
			}
		}
	}()
	for i := 0; i < e.N(6, 60); i++ {
		rng := e.Rng.Sub(100000 + i)
		method := rng.Pick([]string{"GET", "POST", "PUT", "DELETE"})
		path := "/" + rng.Pick([]string{"", "a/b", "tcp-over-websocket-bridge/35218cb7-1201-4940-89e8-48d8f03fed96", "x%2Fy?q=1&q=2", "gz/1"})
		if i == 1 {
			path = "/gz/0"
		}
		var body []byte
		if method != "GET" {
			body = rng.Bytes(rng.Intn(3000))
		}
		req, _ := http.NewRequest(method, fmt.Sprintf("http://127.0.0.1:%d%s", rig.backendPort, path), bytes.NewReader(body))
		req.Header["X-Verif"] = []string{"one", "two"}
		tr := &http.Transport{DisableKeepAlives: true, DisableCompression: true} // the client asks for no encoding
		resp, err := tr.RoundTrip(req)
		if err != nil {
			e.Fail("C15:passthrough-error", err.Error(), 100000+i, nil, nil, nil)
			continue
		}
		rb, _ := io.ReadAll(resp.Body)
		resp.Body.Close()
		if strings.HasPrefix(path, "/gz") && (string(rb) != gzHello || resp.Header.Get("Content-Encoding") != "gzip") {
			e.Fail("C15:passthrough-altered", fmt.Sprintf("%s %s: the backend port answered %d gzip-encoded bytes with Content-Encoding: gzip; the client received %d bytes with Content-Encoding %q", method, path, len(gzHello), len(rb), resp.Header.Get("Content-Encoding")), 100000+i, nil, len(rb), len(gzHello))
		}
		want := fmt.Sprintf("%s %s host=127.0.0.1:%d x=one,two ae= body=%x", method, path, rig.backendPort, body)
		select {
		case got := <-httpSeen:
			if got != want {
				e.Fail("C15:passthrough-altered", fmt.Sprintf("backend port saw %q, client sent %q", got, want), 100000+i, nil, got, want)
			}
		case <-time.After(5 * time.Second):
			e.Fail("C15:passthrough-lost", "request did not reach the backend port", 100000+i, nil, nil, want)
		}
		e.Eval("http:"+want, true)
		e.Count("passthrough-http")
	}
	if e.N(0, 1) == 1 && e.Want(200000) {
		// long-lived pass-through exchanges (thorough tier): a download streamed over 11 s and an upload trickled over 7 s
		var wg sync.WaitGroup
		wg.Add(2)
		go func() {
			defer wg.Done()
			resp, err := (&http.Transport{DisableKeepAlives: true}).RoundTrip(mustReq("GET", fmt.Sprintf("http://127.0.0.1:%d/slow-download", rig.backendPort), nil))
			if err != nil {
				e.Fail("C15:passthrough-error", "slow download: "+err.Error(), 200000, nil, nil, nil)
				return
			}
			got, rerr := io.ReadAll(resp.Body)
			resp.Body.Close()
			var want []byte
			for k := 0; k < 11; k++ {
				want = append(want, bytes.Repeat([]byte{byte('a' + k)}, 100)...)
			}
			if !bytes.Equal(got, want) {
				e.Fail("C15:passthrough-altered", fmt.Sprintf("a response of 1100 bytes streamed by the backend port over 11 s arrived as %d bytes (read error: %v)", len(got), rerr), 200000, nil, len(got), len(want))
			}
			e.Count("passthrough-slow-download")
		}()
		go func() {
			defer wg.Done()
			pr, pw := io.Pipe()
			payload := e.Rng.Sub(200001).Bytes(7000)
			go func() {
				for k := 0; k < 7; k++ {
					pw.Write(payload[k*1000 : (k+1)*1000])
					time.Sleep(time.Second)
				}
				pw.Close()
			}()
			req := mustReq("POST", fmt.Sprintf("http://127.0.0.1:%d/slow-upload", rig.backendPort), pr)
			req.ContentLength = int64(len(payload))
			resp, err := (&http.Transport{DisableKeepAlives: true}).RoundTrip(req)
			if err != nil {
				e.Fail("C15:passthrough-error", "slow upload: "+err.Error(), 200001, nil, nil, nil)
				return
			}
			got, _ := io.ReadAll(resp.Body)
			resp.Body.Close()
			if want := fmt.Sprintf("%x", sha256.Sum256(payload)); resp.StatusCode != 200 || string(got) != want {
				e.Fail("C15:passthrough-altered", fmt.Sprintf("a 7000-byte request body uploaded over 7 s: status %d, the backend port's digest of what it received %q, of what was sent %q", resp.StatusCode, truncBytesDrv(got, 64), want), 200001, nil, nil, nil)
			}
			e.Count("passthrough-slow-upload")
		}()
		wg.Wait()
		e.Eval("passthrough-slow", true)
	}
	close(stopHTTP)
}

// gzHello: "hello hello hello hello hello\n" gzip-compressed
var gzHello = func() string {
	var b bytes.Buffer
	w := gzip.NewWriter(&b)
	w.Write([]byte("hello hello hello hello hello\n"))
	w.Close()
	return b.String()
}()

func closeWrite(c net.Conn) {
	if tc, ok := c.(*net.TCPConn); ok {
		tc.CloseWrite()
	} else if pc, ok := c.(*prefixConn); ok {
		if tc, ok := pc.Conn.(*net.TCPConn); ok {
			tc.CloseWrite()
		}
	}
}

func mustReq(method, u string, body io.Reader) *http.Request {
	r, err := http.NewRequest(method, u, body)
	if err != nil {
		panic(err)
	}
	return r
}
