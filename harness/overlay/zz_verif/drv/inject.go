//go:build verif

package main

import (
	"bytes"
	"context"
	"fmt"
	"io"
	"net/http"
	"net/http/httptest"
	"runtime"
	"strings"
	"sync"
	"time"

	"github.com/google/inverting-proxy/agent/banner"
	"github.com/google/inverting-proxy/agent/websockets"
	"github.com/google/inverting-proxy/zz_verif/vh"
)

func init() {
	suites["banner"] = suiteBanner
	suites["splice"] = suiteSplice
}

type hop struct {
	kind string // S set, A add, H writeHeader, W write
	k, v string
	code int
	data []byte
}

// recWriter records what reaches the outermost ResponseWriter.
type recWriter struct {
	hdr   http.Header
	wrote bool
	evs   []string
	page  []byte
	body  []byte
	code  int
	head  http.Header
}

func (w *recWriter) Header() http.Header { return w.hdr }
func (w *recWriter) WriteHeader(c int) {
	if w.wrote {
		return
	}
	if c >= 100 && c <= 199 && c != 101 {
		// an interim response does not consume the final header (as on a real server connection)
		h := w.hdr.Clone()
		delete(h, "Date")
		w.evs = append(w.evs, fmt.Sprintf("interim:%d:%s", c, vh.CanonHeader(h)))
		return
	}
	w.wrote = true
	w.code = c
	w.head = w.hdr.Clone()
	h := w.hdr.Clone()
	delete(h, "Date")
	w.evs = append(w.evs, fmt.Sprintf("head:%d:%s", c, vh.CanonHeader(h)))
}
func (w *recWriter) Write(b []byte) (int, error) {
	if !w.wrote {
		w.WriteHeader(200)
	}
	w.body = append(w.body, b...)
	if w.page != nil && bytes.Equal(b, w.page) {
		w.evs = append(w.evs, "body:PAGE")
	} else {
		w.evs = append(w.evs, "body:"+vh.Hex(b))
	}
	return len(b), nil
}

func play(w http.ResponseWriter, ops []hop) {
	for _, o := range ops {
		switch o.kind {
		case "S":
			w.Header().Set(o.k, o.v)
		case "A":
			w.Header().Add(o.k, o.v)
		case "D":
			w.Header().Del(o.k)
		case "H":
			w.WriteHeader(o.code)
		case "W":
			w.Write(o.data)
		}
	}
}

func encOps(ops []hop) string {
	var parts []string
	for _, o := range ops {
		switch o.kind {
		case "S", "A":
			parts = append(parts, o.kind+":"+vh.Hex([]byte(http.CanonicalHeaderKey(o.k)))+":"+vh.Hex([]byte(o.v)))
		case "D":
			parts = append(parts, "D:"+vh.Hex([]byte(http.CanonicalHeaderKey(o.k))))
		case "H":
			parts = append(parts, fmt.Sprintf("H:%d", o.code))
		case "W":
			parts = append(parts, "W:"+vh.Hex(o.data))
		}
	}
	if len(parts) == 0 {
		return "-"
	}
	return strings.Join(parts, ";")
}

func suiteBanner(e *vh.Env) {
	e.OpenOps("banner")
	e.Result.Rule = "requests (method x Accept x Sec-Fetch-Mode/Dest x Referer) x handler scripts (header sets/adds, WriteHeader with status 100..599, body writes) through the real banner.Proxy; non-trivial = case whose response is a banner target, or which differs from one in exactly one predicate clause"
	const bannerHTML, height, favicon = "<b>BANNER</b>", "40px", "https://example.com/fav.png"
	n := e.N(400, 20000)
	for i := 0; i < n; i++ {
		if !e.Want(i) {
			continue
		}
		rng := e.Rng.Sub(i)
		method := rng.Pick([]string{"GET", "GET", "GET", "GET", "GET", "GET", "POST", "HEAD", "PUT"})
		accept := rng.Pick([]string{"text/html", "text/html", "text/html,application/xhtml+xml", "a/b;q=1, text/html;q=0.9", "*/*", "", "application/json", "TEXT/HTML", "text/htm"})
		path := "/" + rng.Pick([]string{"", "a", "a/b", "index.html", "a//b", "a/../index.html", "./a", "/a"})
		if rng.Chance(30) {
			path += "?q=" + rng.Pick([]string{"1", "a%20b", "<x>"})
		}
		req := httptest.NewRequest(method, "http://host.example"+path, nil)
		if accept != "" {
			req.Header.Set("Accept", accept)
		}
		switch rng.Intn(6) {
		case 0:
			req.Header.Set("Sec-Fetch-Mode", "nested-navigate")
		case 1:
			req.Header.Set("Sec-Fetch-Dest", "iframe")
		case 2:
			req.Header.Set("Referer", "http://host.example"+req.URL.Path)
		case 3:
			req.Header.Set("Referer", "http://other.example/")
		}
		var ops []hop
		ct := rng.Pick([]string{"text/html", "text/html", "text/html; charset=utf-8", "application/xhtml+xml", "x; text/html", "application/json", "text/plain", "", "image/png", "text/htm",
			"application/json; profile=\"text/html\"", "text/plain; note=application/xhtml+xml"})
		if ct != "" {
			ops = append(ops, hop{kind: "S", k: "Content-Type", v: ct})
		}
		if rng.Chance(12) {
			ops = append(ops, hop{kind: "S", k: "Content-Disposition", v: rng.Pick([]string{"attachment; filename=x", "inline", "ATTACHMENT", "attachment; filename=monthly report.html", "attachment; filename=r\u00e9sum\u00e9.html", "Attachment;", "attachment; filename=\"a.html\"; size"})})
		}
		if rng.Chance(30) {
			ops = append(ops, hop{kind: "A", k: "Set-Cookie", v: "a=b"}, hop{kind: "A", k: "Set-Cookie", v: "c=d"})
		}
		if rng.Chance(20) {
			ops = append(ops, hop{kind: "S", k: "Content-Encoding", v: "gzip"}, hop{kind: "S", k: "X-Frame-Options", v: "deny"}, hop{kind: "S", k: "Cache-Control", v: "public"})
		}
		status := rng.Pick([]string{"200", "200", "200", "200", "200", "200", "200", "201", "204", "301", "404", "500"})
		var code int
		fmt.Sscan(status, &code)
		if rng.Chance(12) {
			// what ReverseProxy does with a backend's 103: set its fields, WriteHeader(103), remove them again
			ops = append(ops, hop{kind: "S", k: "Link", v: "</s.css>; rel=preload"}, hop{kind: "H", code: 103}, hop{kind: "D", k: "Link"})
		}
		if rng.Chance(80) {
			ops = append(ops, hop{kind: "H", code: code})
		}
		for k := rng.Intn(4); k > 0; k-- {
			ops = append(ops, hop{kind: "W", data: rng.Bytes(rng.Intn(40))})
		}
		if rng.Chance(10) {
			ops = append(ops, hop{kind: "H", code: 500}) // a second WriteHeader is ignored
		}
		h, _ := banner.Proxy(context.Background(), http.HandlerFunc(func(w http.ResponseWriter, r *http.Request) { play(w, ops) }), bannerHTML, height, favicon, nil)
		// calibration: the frame page for this URL
		cal := &recWriter{hdr: http.Header{}}
		creq := httptest.NewRequest("GET", "http://host.example"+path, nil)
		creq.Header.Set("Accept", "text/html")
		hc, _ := banner.Proxy(context.Background(), http.HandlerFunc(func(w http.ResponseWriter, r *http.Request) {
			w.Header().Set("Content-Type", "text/html")
			w.WriteHeader(200)
		}), bannerHTML, height, favicon, nil)
		hc.ServeHTTP(cal, creq)
		page := cal.body
		got := &recWriter{hdr: http.Header{}, page: page}
		h.ServeHTTP(got, req)
		plain := &recWriter{hdr: http.Header{}, page: page}
		play(plain, ops)
		framed := banner.VerifIsAlreadyFramed(req)
		acc := "-"
		if accept != "" {
			acc = vh.Hex([]byte(accept))
		}
		e.Op(fmt.Sprintf("banner %s %s %s %s", vh.Hex([]byte(method)), acc, map[bool]string{true: "1", false: "0"}[framed], encOps(ops)), strings.Join(got.evs, ";"))
		// oracle from the property statement
		target := method == "GET" && strings.Contains(accept, "text/html") && plain.wrote && plain.code == 200
		if target {
			for _, cd := range plain.head["Content-Disposition"] {
				if strings.Contains(strings.ToLower(cd), "attachment") { // disposition types are case-insensitive (RFC 6266)
					target = false
				}
			}
			html := false
			for _, c := range plain.head["Content-Type"] {
				mt := strings.SplitN(c, ";", 2)[0] // the media type; a parameter that mentions text/html does not make a document HTML
				if strings.Contains(mt, "text/html") || strings.Contains(mt, "application/xhtml+xml") {
					html = true
				}
			}
			target = target && html
		}
		switch {
		case !target:
			if strings.Join(got.evs, ";") != strings.Join(plain.evs, ";") {
				e.Fail("C14:banner-altered-non-target", fmt.Sprintf("case %d: a response that is not a banner target was altered: got %v want %v", i, got.evs, plain.evs), i, nil, got.evs, plain.evs)
			}
			e.Count("non-target")
		case framed:
			if !bytes.Equal(got.body, plain.body) {
				e.Fail("C14:banner-framed-body-altered", fmt.Sprintf("case %d: already framed request did not get the original body", i), i, nil, vh.Hex(got.body), vh.Hex(plain.body))
			}
			// "gets the original body": the body as the headers that describe it declare it - the fields that say how
			// to decode and interpret the bytes must be the backend's
			for _, name := range []string{"Content-Encoding", "Content-Type", "Content-Disposition", "Set-Cookie", "Content-Language"} {
				if strings.Join(got.head[name], "\x00") != strings.Join(plain.head[name], "\x00") {
					e.Fail("C14:banner-framed-body-altered", fmt.Sprintf("case %d: already framed request: header %s is %q, the backend sent %q (the original body is delivered, but no longer described as the backend described it)", i, name, got.head[name], plain.head[name]), i, nil, got.head[name], plain.head[name])
				}
			}
			e.Count("target-already-framed")
		default:
			if !bytes.Equal(got.body, page) || !bytes.Contains(page, []byte(req.URL.String())) {
				e.Fail("C14:banner-page-wrong", fmt.Sprintf("case %d: frame page missing or not embedding the URL %q", i, req.URL.String()), i, nil, string(got.body), nil)
			}
			hh := got.head
			if hh.Get("Cache-Control") != "no-cache, no-store, max-age=0, must-revalidate" || hh.Get("Pragma") != "no-cache" || hh.Get("X-Frame-Options") != "sameorigin" || len(hh["X-Frame-Options"]) != 1 || hh.Get("Expires") == "" {
				e.Fail("C14:banner-page-headers", fmt.Sprintf("case %d: frame page not marked uncacheable/same-origin: %v", i, hh), i, nil, nil, nil)
			}
			e.Count("target-frame-page")
		}
		e.Eval(fmt.Sprintf("%s|%s|%v|%s", method, accept, framed, encOps(ops)), target || (method == "GET" && strings.Contains(accept, "text/html")))
		if i < 3 {
			e.Sample(map[string]interface{}{"method": method, "accept": accept, "already_framed": framed, "ops": encOps(ops), "events": got.evs})
		}
	}
	bannerConcurrent(e, n, bannerHTML, height, favicon)
}

// slowWriter is a ResponseWriter whose Write takes a moment before it looks at the bytes, as the agent's response
// forwarder does (its Write blocks on a pipe until the uploading goroutine reads).
type slowWriter struct {
	hdr  http.Header
	body []byte
}

func (w *slowWriter) Header() http.Header { return w.hdr }
func (w *slowWriter) WriteHeader(int)     {}
func (w *slowWriter) Write(b []byte) (int, error) {
	runtime.Gosched()
	time.Sleep(30 * time.Microsecond)
	w.body = append(w.body, b...)
	return len(b), nil
}

// bannerConcurrent: many banner-eligible requests for different URLs are served at the same time; every frame page
// must embed the URL of its own request.
func bannerConcurrent(e *vh.Env, base int, bannerHTML, height, favicon string) {
	if !e.Want(base) {
		return
	}
	h, _ := banner.Proxy(context.Background(), http.HandlerFunc(func(w http.ResponseWriter, r *http.Request) {
		w.Header().Set("Content-Type", "text/html")
		w.WriteHeader(200)
		w.Write([]byte("<html>page</html>"))
	}), bannerHTML, height, favicon, nil)
	workers, per := 8, e.N(300, 5000)
	var wg sync.WaitGroup
	var mu sync.Mutex
	bad, first := 0, ""
	for g := 0; g < workers; g++ {
		wg.Add(1)
		go func(g int) {
			defer wg.Done()
			for k := 0; k < per; k++ {
				target := fmt.Sprintf("/doc/w%02d-%06d?owner=u%02d", g, k, g)
				req := httptest.NewRequest("GET", "http://host.example"+target, nil)
				req.Header.Set("Accept", "text/html")
				w := &slowWriter{hdr: http.Header{}}
				h.ServeHTTP(w, req)
				if !bytes.Contains(w.body, []byte(target)) || bytes.Count(w.body, []byte("/doc/w")) != 1 {
					mu.Lock()
					bad++
					if first == "" {
						i := bytes.Index(w.body, []byte("/doc/w"))
						emb := ""
						if i >= 0 {
							emb = string(w.body[i:minInt(len(w.body), i+30)])
						}
						first = fmt.Sprintf("the frame served for %s embeds %q", target, emb)
					}
					mu.Unlock()
				}
			}
		}(g)
	}
	wg.Wait()
	if bad > 0 {
		e.Fail("C14:banner-page-wrong:concurrent", fmt.Sprintf("%d of %d frame pages served concurrently on %d goroutines do not embed the URL of their own request; first: %s", bad, workers*per, workers, first), base, nil, bad, 0)
	}
	e.Eval("banner-concurrent", true)
	e.Count("concurrent-frames")
}

// segReader returns the scripted segments one per Read.
type segReader struct {
	segs [][]byte
	cl   bool
}

func (s *segReader) Read(p []byte) (int, error) {
	if len(s.segs) == 0 {
		return 0, io.EOF
	}
	n := copy(p, s.segs[0])
	if n == len(s.segs[0]) {
		s.segs = s.segs[1:]
	} else {
		s.segs[0] = s.segs[0][n:]
	}
	return n, nil
}
func (s *segReader) Close() error { s.cl = true; return nil }

func suiteSplice(e *vh.Env) {
	e.OpenOps("splice")
	e.Result.Rule = "ShimBody on bodies with <head> absent / at offsets around the 1024-byte first read / repeated / split across reads, pads made of '<', 'h', 0xff, random read segmentations, HTML and non-HTML content types; non-trivial = HTML body whose first <head> lies within 16 bytes of the first-read boundary, or that holds two <head> tags"
	shim, err := websockets.ShimBody("shimpath")
	if err != nil {
		panic(err)
	}
	// calibration: the injected code
	cr := &http.Response{Header: http.Header{"Content-Type": {"text/html"}}, Body: &segReader{segs: [][]byte{[]byte("<head>")}}}
	shim(cr)
	cb, _ := io.ReadAll(cr.Body)
	code := cb[len("<head>"):]
	e.Op("code "+vh.Hex(code), "ok")
	n := e.N(600, 30000)
	for i := 0; i < n; i++ {
		if !e.Want(i) {
			continue
		}
		rng := e.Rng.Sub(i)
		ct := rng.Pick([]string{"text/html", "text/html; charset=utf-8", "TEXT/HTML", "application/xhtml+xml", "application/json", "text/plain", "", "image/svg+xml",
			// not HTML documents, although a parameter mentions the word
			"application/json; profile=\"https://example.com/schemas/html-snippet\"", "text/plain; charset=utf-8; name=\"index.html\"", "application/octet-stream;x=HTML"})
		pad := func(n int) []byte {
			b := make([]byte, n)
			for j := range b {
				b[j] = []byte{'<', 'h', 'e', 'a', 'd', '>', 0xff, ' ', 'x'}[rng.Intn(9)]
			}
			return b
		}
		var body []byte
		heads := rng.Intn(3)
		var off int
		switch rng.Intn(4) {
		case 0:
			off = 1024 - 12 + rng.Intn(24)
		case 1:
			off = rng.Intn(40)
		default:
			off = rng.Intn(2200)
		}
		body = append(body, pad(off)...)
		for hd := 0; hd < heads; hd++ {
			body = append(body, []byte("<head>")...)
			body = append(body, pad(rng.Intn(30))...)
		}
		body = append(body, pad(rng.Intn(600))...)
		// segmentation
		var segs [][]byte
		rest := body
		for len(rest) > 0 {
			k := 1 + rng.Intn(1500)
			if rng.Chance(30) {
				k = 1 + rng.Intn(12)
			}
			if k > len(rest) {
				k = len(rest)
			}
			segs = append(segs, append([]byte{}, rest[:k]...))
			rest = rest[k:]
		}
		firstLen := 0
		if len(segs) > 0 {
			firstLen = len(segs[0])
			if firstLen > 1024 {
				firstLen = 1024
			}
		}
		resp := &http.Response{Header: http.Header{"Content-Length": {fmt.Sprint(len(body))}}, Body: &segReader{segs: segs}}
		if ct != "" {
			resp.Header.Set("Content-Type", ct)
		}
		if err := shim(resp); err != nil {
			e.Fail("C14:shimbody-error", err.Error(), i, nil, nil, nil)
			continue
		}
		out, _ := io.ReadAll(resp.Body)
		clKept := resp.Header.Get("Content-Length") != ""
		ctHex := "-"
		if ct != "" {
			ctHex = vh.Hex([]byte(ct))
		}
		e.Op(fmt.Sprintf("splice %s %s %s", ctHex, vh.Hex(body[:firstLen]), vh.Hex(body[firstLen:])), fmt.Sprintf("%s cl=%v", vh.Hex(out), clKept))
		// oracle from the property statement
		html := strings.Contains(strings.ToLower(strings.SplitN(ct, ";", 2)[0]), "html") // the media type, not its parameters
		idx := bytes.Index(body, []byte("<head>"))
		near := idx >= 0 && idx+6 > 1024-16 && idx < 1024+16
		switch {
		case !html:
			if !bytes.Equal(out, body) || !clKept {
				e.Fail("C14:splice-non-html-altered", fmt.Sprintf("case %d: non-HTML (%q) body or Content-Length altered", i, ct), i, nil, nil, nil)
			}
			e.Count("non-html")
		case bytes.Equal(out, body):
			// allowed only when the first <head> is not completely inside the first read
			if idx >= 0 && idx+6 <= firstLen {
				e.Fail("C14:splice-missing", fmt.Sprintf("case %d: <head> at %d inside the first read of %d bytes but no script inserted", i, idx, firstLen), i, nil, nil, nil)
			}
			e.Count("html-unchanged")
		default:
			want := append(append(append([]byte{}, body[:idx+6]...), code...), body[idx+6:]...)
			if idx < 0 || !bytes.Equal(out, want) {
				e.Fail("C14:splice-wrong", fmt.Sprintf("case %d: body is not the original with the script inserted once after the first <head> (at %d)", i, idx), i, nil, nil, nil)
			}
			e.Count("html-spliced")
		}
		e.Eval(fmt.Sprintf("%d", i), html && (near || heads >= 2))
		if i < 2 {
			e.Sample(map[string]interface{}{"content_type": ct, "body_len": len(body), "first_read": firstLen, "first_head_at": idx, "heads": heads})
		}
	}
	// overlapping responses: the hook runs for A, then for B, and only then are the bodies read (the agent serves
	// many requests at once, so a rewritten body must not depend on anything that a later hook call can touch)
	rounds := e.N(60, 2000)
	for r := 0; r < rounds; r++ {
		if !e.Want(n + r) {
			continue
		}
		rng := e.Rng.Sub(1<<20 + r)
		mk := func(tag string) []byte {
			var b []byte
			if rng.Chance(50) {
				b = append(b, []byte("<html><head><title>"+tag+"</title></head>")...)
			} else {
				b = append(b, []byte("<div id=\""+tag+"\">fragment without the tag ")...)
			}
			for k := rng.Intn(2000); k > 0; k-- {
				b = append(b, tag[k%len(tag)])
			}
			return b
		}
		k := 2 + rng.Intn(3)
		var bodies [][]byte
		var resps []*http.Response
		for j := 0; j < k; j++ {
			b := mk(fmt.Sprintf("resp-%d-%d", r, j))
			bodies = append(bodies, b)
			resp := &http.Response{Header: http.Header{"Content-Type": {"text/html"}, "Content-Length": {fmt.Sprint(len(b))}}, Body: &segReader{segs: [][]byte{append([]byte{}, b...)}}}
			if err := shim(resp); err != nil {
				e.Fail("C14:shimbody-error", err.Error(), n+r, nil, nil, nil)
			}
			resps = append(resps, resp)
		}
		order := rng.Intn(2)
		for jj := 0; jj < k; jj++ {
			j := jj
			if order == 1 {
				j = k - 1 - jj
			}
			out, _ := io.ReadAll(resps[j].Body)
			want := bodies[j]
			if idx := bytes.Index(want, []byte("<head>")); idx >= 0 && idx+6 <= 1024 {
				want = append(append(append([]byte{}, want[:idx+6]...), code...), want[idx+6:]...)
			}
			if !bytes.Equal(out, want) {
				e.Fail("C14:splice-overlap-altered", fmt.Sprintf("round %d: %d HTML responses passed the hook before any body was read; body %d (%d bytes) then read as %d bytes starting %q, expected %q", r, k, j, len(bodies[j]), len(out), truncBytesDrv(out, 50), truncBytesDrv(want, 50)), n+r, nil, nil, nil)
				break
			}
		}
		e.Eval(fmt.Sprintf("overlap-%d", r), true)
		e.Count("overlap")
	}
	spliceConcurrent(e, shim, code, n+rounds)
}

// spliceConcurrent: the agent rewrites many responses at once (one ModifyResponse call per in-flight request, on as
// many goroutines); each body must come out as if it had been rewritten alone.
func spliceConcurrent(e *vh.Env, shim func(*http.Response) error, code []byte, base int) {
	if !e.Want(base) {
		return
	}
	workers, per := 8, e.N(400, 6000)
	var wg sync.WaitGroup
	var mu sync.Mutex
	bad := 0
	first := ""
	for g := 0; g < workers; g++ {
		wg.Add(1)
		go func(g int) {
			defer wg.Done()
			for k := 0; k < per; k++ {
				tag := fmt.Sprintf("w%02d-%06d", g, k)
				var b []byte
				if (g+k)%2 == 0 {
					b = []byte("<!doctype html>\n<html>\n<head><title>" + tag + "</title></head><body>")
				} else {
					b = []byte("<html><head><meta name=\"" + tag + "\"></head>")
				}
				for j := 0; j < 40+(k%7)*30; j++ {
					b = append(b, tag...)
				}
				resp := &http.Response{Header: http.Header{"Content-Type": {"text/html"}}, Body: &segReader{segs: [][]byte{append([]byte{}, b...)}}}
				if err := shim(resp); err != nil {
					continue
				}
				out, _ := io.ReadAll(resp.Body)
				want := b
				if idx := bytes.Index(b, []byte("<head>")); idx >= 0 && idx+6 <= 1024 {
					want = append(append(append([]byte{}, b[:idx+6]...), code...), b[idx+6:]...)
				}
				if !bytes.Equal(out, want) {
					mu.Lock()
					bad++
					if first == "" {
						first = fmt.Sprintf("response %s (%d bytes) came out as %d bytes starting %q", tag, len(b), len(out), truncBytesDrv(out, 60))
					}
					mu.Unlock()
				}
			}
		}(g)
	}
	wg.Wait()
	if bad > 0 {
		e.Fail("C14:splice-concurrent-altered", fmt.Sprintf("%d of %d HTML responses rewritten concurrently on %d goroutines differ from the original with the script inserted once after the first <head>; first: %s", bad, workers*per, workers, first), base, nil, bad, 0)
	}
	e.Eval("concurrent", true)
	e.Count("concurrent-rewrites")
}

func truncBytesDrv(b []byte, n int) string {
	if len(b) > n {
		return string(b[:n])
	}
	return string(b)
}
