//go:build verif

package main

import (
	"bufio"
	"encoding/json"
	"fmt"
	"io"
	"net/http"
	"net/http/httptest"
	"strings"
	"sync"
	"time"

	"github.com/google/inverting-proxy/zz_verif/vh"
)

func init() {
	suites["stream"] = suiteStream
	suites["faults"] = suiteFaults
}

// drvProxy: the inverting proxy played by the driver, with per-request fault hooks.
type drvProxy struct {
	srv      *httptest.Server
	mu       sync.Mutex
	pending  []string
	reqText  map[string]string
	fetchF   map[string]string      // id -> "500" | "garbage" | "close"
	uploadF  map[string]string      // id -> "500-early" | "close-mid" | "500-late"
	progress map[string]func(n int) // id -> called with the number of response-body bytes decoded so far
	uploads  map[string][]byte      // id -> decoded response body
	status   map[string]int
	done     map[string]chan struct{}
}

func newDrvProxy() *drvProxy {
	p := &drvProxy{reqText: map[string]string{}, fetchF: map[string]string{}, uploadF: map[string]string{}, progress: map[string]func(int){},
		uploads: map[string][]byte{}, status: map[string]int{}, done: map[string]chan struct{}{}}
	p.srv = httptest.NewServer(http.HandlerFunc(func(w http.ResponseWriter, r *http.Request) {
		id := r.Header.Get(hdrRequestID)
		switch {
		case strings.HasSuffix(r.URL.Path, "agent/pending"):
			for k := 0; k < 30; k++ {
				p.mu.Lock()
				ids := p.pending
				p.pending = nil
				p.mu.Unlock()
				if len(ids) > 0 {
					json.NewEncoder(w).Encode(ids)
					return
				}
				time.Sleep(5 * time.Millisecond)
			}
			io.WriteString(w, "[]")
		case strings.HasSuffix(r.URL.Path, "agent/request"):
			p.mu.Lock()
			f, txt := p.fetchF[id], p.reqText[id]
			p.mu.Unlock()
			switch f {
			case "500":
				w.WriteHeader(500)
				return
			case "garbage":
				w.Header().Set("X-Inverting-Proxy-Request-Start-Time", time.Now().Format(time.RFC3339Nano))
				io.WriteString(w, "THIS IS NOT HTTP\r\n\r\n")
				return
			case "close":
				if hj, ok := w.(http.Hijacker); ok {
					c, _, _ := hj.Hijack()
					c.Close()
				}
				return
			}
			w.Header().Set("X-Inverting-Proxy-Request-Start-Time", time.Now().Format(time.RFC3339Nano))
			io.WriteString(w, txt)
		case strings.HasSuffix(r.URL.Path, "agent/response"):
			p.mu.Lock()
			f, prog, dn := p.uploadF[id], p.progress[id], p.done[id]
			if f == "500-early-once" {
				delete(p.uploadF, id) // only the first attempt is refused
			}
			p.mu.Unlock()
			if f == "500-early" || f == "500-early-once" {
				w.WriteHeader(500)
				return
			}
			resp, err := http.ReadResponse(bufio.NewReader(r.Body), nil)
			if err != nil {
				w.WriteHeader(400)
				return
			}
			var body []byte
			buf := make([]byte, 64*1024)
			for {
				n, err := resp.Body.Read(buf)
				body = append(body, buf[:n]...)
				if prog != nil && n > 0 {
					prog(len(body))
				}
				if f == "close-mid" && len(body) > 0 {
					if hj, ok := w.(http.Hijacker); ok {
						c, _, _ := hj.Hijack()
						c.Close()
					}
					return
				}
				if err != nil {
					break
				}
			}
			p.mu.Lock()
			p.uploads[id] = body
			p.status[id] = resp.StatusCode
			p.mu.Unlock()
			if f == "500-late" {
				w.WriteHeader(500)
			}
			if dn != nil {
				close(dn)
			}
		default:
			w.WriteHeader(404)
		}
	}))
	return p
}

func (p *drvProxy) submit(id, reqText string) chan struct{} {
	dn := make(chan struct{})
	p.mu.Lock()
	p.reqText[id] = reqText
	p.done[id] = dn
	p.pending = append(p.pending, id)
	p.mu.Unlock()
	return dn
}

// suiteStream (C05): a lock-step backend that produces chunk k+1 only after the proxy has
// observed chunk k, through the real ReverseProxy + forwarder + HTTP client of the agent.
func suiteStream(e *vh.Env) {
	e.Result.Rule = "lock-step runs through the real agent code (child process; every fourth run as an HTML stream through an agent with the websocket shim enabled) to a driver-played proxy: the backend flushes chunk k+1 only after the proxy has decoded chunk k from the upload; shaped scripts (1-2 byte chunks after more than 4096 wire bytes, 900 tiny chunks in a row) then random; chunk sizes {1, 2, 3, 100, 4095, 4096, 4097, 32768, 300000, 1 MiB, 2 MiB} and random, 1..200 chunks per response; non-trivial = run with at least 3 chunks or a chunk of at least 4096 bytes"
	px := newDrvProxy()
	defer px.srv.Close()
	var mu sync.Mutex
	scripts := map[string][]int{}
	seen := map[string]chan int{}
	lat := map[string][]time.Duration{}
	stuck := map[string]int{}
	backend := httptest.NewServer(http.HandlerFunc(func(w http.ResponseWriter, r *http.Request) {
		id := strings.TrimPrefix(r.URL.Path, "/s/")
		mu.Lock()
		sizes, ch := scripts[id], seen[id]
		mu.Unlock()
		fl := w.(http.Flusher)
		if strings.HasPrefix(id, "h") {
			w.Header().Set("Content-Type", "text/html; charset=utf-8") // an HTML stream (fragments, no <head> needed)
		}
		w.WriteHeader(200)
		total := 0
		for k, sz := range sizes {
			chunk := make([]byte, sz)
			for j := range chunk {
				chunk[j] = byte(k + j)
			}
			w.Write(chunk)
			fl.Flush()
			total += sz
			t0 := time.Now()
			ok := false
			timeout := time.After(3 * time.Second)
		wait:
			for {
				select {
				case n := <-ch:
					if n >= total {
						ok = true
						break wait
					}
				case <-timeout:
					break wait
				}
			}
			mu.Lock()
			lat[id] = append(lat[id], time.Since(t0))
			if !ok && stuck[id] == 0 {
				stuck[id] = k + 1
			}
			mu.Unlock()
			if !ok {
				return
			}
		}
	}))
	defer backend.Close()
	rig := &e2eRig{proxyURL: px.srv.URL + "/"}
	defer rig.stop()
	rig.startAgent(strings.TrimPrefix(backend.URL, "http://"))
	// the same through an agent with the websocket shim on: HTML responses pass one more stage (ShimBody)
	pxS := newDrvProxy()
	defer pxS.srv.Close()
	rigS := &e2eRig{proxyURL: pxS.srv.URL + "/"}
	defer rigS.stop()
	rigS.startAgent(strings.TrimPrefix(backend.URL, "http://"), "VERIF_AGENT_SHIM=1", "VERIF_AGENT_SHIM_PATH=shimpath")
	n := e.N(25, 600)
	special := []int{1, 2, 100, 4095, 4096, 4097, 32768, 300000, 1 << 20, 2 << 20}
	var maxLat time.Duration
	for i := 0; i < n; i++ {
		if !e.Want(i) {
			continue
		}
		rng := e.Rng.Sub(i)
		cnt := 1 + rng.Intn(8)
		if rng.Chance(15) {
			cnt = 20 + rng.Intn(e.N(30, 180))
		}
		var sizes []int
		budget := 6 << 20
		// shaped scripts first: tiny chunks (shorter on the wire than any plausible "minimum read") after the
		// replay buffer of the upload (4096 wire bytes) has filled, and long runs of 1-byte chunks
		shaped := [][]int{{4096, 1, 1, 2, 1}, {300000, 2, 1, 7, 1, 3}, {1, 2, 3, 4097, 1, 2, 3, 1}, nil, {2000, 2000, 1, 2, 1, 2, 1}, {1 << 20, 1, 1 << 20, 2}}
		if i < len(shaped) {
			cnt = 0
			sizes = shaped[i]
			if sizes == nil {
				for k := 0; k < 900; k++ {
					sizes = append(sizes, 1+k%2)
				}
			}
		}
		for k := 0; k < cnt; k++ {
			sz := 1 + rng.Intn(300)
			if rng.Chance(20) {
				sz = 1 + rng.Intn(3)
			} else if rng.Chance(30) {
				sz = special[rng.Intn(len(special))]
			}
			if sz > budget {
				sz = 1 + rng.Intn(100)
			}
			budget -= sz
			sizes = append(sizes, sz)
		}
		id := fmt.Sprintf("s%d-%d", e.Seed, i)
		px := px
		if i%4 == 1 {
			id = "h" + id // HTML through the shim-enabled agent
			px = pxS
		}
		ch := make(chan int, 4096)
		mu.Lock()
		scripts[id] = sizes
		seen[id] = ch
		mu.Unlock()
		px.mu.Lock()
		px.progress[id] = func(n int) {
			select {
			case ch <- n:
			default:
			}
		}
		px.mu.Unlock()
		// (A variant in which the proxy refuses the first upload attempt was tried here and removed: after a retry the
		// stream can stall because the failed attempt's body reader is still alive and takes the next chunk - the
		// recorded finding C06:ack-corrupt:retry-overlaps-live-body-reader - and C05 does not quantify over faults.)
		retried := false
		// every fifth stream answers an HTTP/1.0 client: the response is then serialised without chunked framing
		proto := "HTTP/1.1"
		if i%5 == 2 {
			proto = "HTTP/1.0"
			e.Count("http/1.0-client")
		}
		dn := px.submit(id, "GET /s/"+id+" "+proto+"\r\nHost: backend.example\r\n\r\n")
		select {
		case <-dn:
		case <-time.After(time.Duration(5+3*len(sizes)/10) * time.Second):
		}
		mu.Lock()
		st := stuck[id]
		ls := lat[id]
		mu.Unlock()
		total := 0
		big := false
		for _, s := range sizes {
			total += s
			if s >= 4096 {
				big = true
			}
		}
		if st > 0 {
			if retried {
				e.Count("stalled-after-retry")
			}
			e.Fail("C05:chunk-not-relayed", fmt.Sprintf("run %d (first upload attempt refused by the proxy: %v): chunk %d of %d (sizes %v…) was flushed by the backend but not observed by the proxy within 3 s, while the backend waits for it before producing more", i, retried, st, len(sizes), truncInts(sizes, 12)), i, nil, nil, nil)
		}
		px.mu.Lock()
		up := len(px.uploads[id])
		px.mu.Unlock()
		if st == 0 && up != total {
			e.Fail("C05:stream-incomplete", fmt.Sprintf("run %d: %d of %d body bytes arrived", i, up, total), i, nil, up, total)
		}
		for _, l := range ls {
			if l > maxLat {
				maxLat = l
			}
		}
		e.Eval(fmt.Sprintf("%v", sizes), len(sizes) >= 3 || big)
		e.Count(fmt.Sprintf("chunks>=3:%v big:%v", len(sizes) >= 3, big))
		if i < 3 {
			e.Sample(map[string]interface{}{"chunk_sizes": truncInts(sizes, 12), "chunks": len(sizes), "total_bytes": total})
		}
	}
	e.Observe("max_chunk_latency_ms", maxLat.Milliseconds())
	if c := rig.crashed(); c != "" {
		e.Fail("C05:process-crashed", c, -1, nil, nil, nil)
	}
	if c := rigS.crashed(); c != "" {
		e.Fail("C05:process-crashed", c, -1, nil, nil, nil)
	}
}

func truncInts(xs []int, n int) []int {
	if len(xs) > n {
		return xs[:n]
	}
	return xs
}

// ---- C07: fault injection ------------------------------------------------------

// faultBackend: raw TCP backend whose behaviour is chosen by the X-Fault request header.
func faultBackend() (string, func()) {
	ln, err := netListen()
	if err != nil {
		panic(err)
	}
	go func() {
		for {
			c, err := ln.Accept()
			if err != nil {
				return
			}
			go func() {
				defer c.Close()
				req, err := http.ReadRequest(bufio.NewReader(c))
				if err != nil {
					return
				}
				io.Copy(io.Discard, req.Body)
				tok := req.Header.Get("X-Tok")
				switch req.Header.Get("X-Fault") {
				case "close-before-headers":
					return
				case "garbage-head":
					io.WriteString(c, "NOT-HTTP/9.9 xyz\r\n\r\n")
				case "close-mid-body":
					io.WriteString(c, "HTTP/1.1 200 OK\r\nX-Tok: "+tok+"\r\nContent-Length: 1000\r\n\r\n0123456789")
				case "reset-mid-body":
					io.WriteString(c, "HTTP/1.1 200 OK\r\nX-Tok: "+tok+"\r\nTransfer-Encoding: chunked\r\n\r\n5\r\nhello\r\n")
					setLinger0(c)
				case "bad-chunk":
					io.WriteString(c, "HTTP/1.1 200 OK\r\nX-Tok: "+tok+"\r\nTransfer-Encoding: chunked\r\n\r\nZZZ\r\nhello\r\n")
				default:
					body := "resp-" + tok
					fmt.Fprintf(c, "HTTP/1.1 200 OK\r\nX-Tok: %s\r\nContent-Length: %d\r\nConnection: close\r\n\r\n%s", tok, len(body), body)
				}
			}()
		}
	}()
	return ln.Addr().String(), func() { ln.Close() }
}

func probe(base, tok, fault string, timeout time.Duration) (int, string, string, error) {
	req, _ := http.NewRequest("GET", base+"f/"+tok, nil)
	req.Header.Set("X-Tok", tok)
	if fault != "" {
		req.Header.Set("X-Fault", fault)
	}
	c := &http.Client{Transport: &http.Transport{DisableKeepAlives: true}, Timeout: timeout}
	resp, err := c.Do(req)
	if err != nil {
		return 0, "", "", err
	}
	defer resp.Body.Close()
	b, _ := io.ReadAll(resp.Body)
	return resp.StatusCode, resp.Header.Get("X-Tok"), string(b), nil
}

func suiteFaults(e *vh.Env) {
	e.Result.Rule = "fault kind x injection point inside a stream of healthy concurrent requests against the real agent code (child processes): backend {closes before headers, malformed head, closes mid-body, resets mid-body, bad chunk}, backend unreachable (expects 502), proxy {fetch 500 / garbage / connection close, upload 500 early / close mid-body / 500 late}, malformed shim calls; every healthy request before, during and after must be answered with its own token and the agent processes must stay alive without panic or fatal error; non-trivial = every faulty request and every healthy request running concurrently with one"
	// --- rig A: real proxy + agent -> fault backend
	be, stopBe := faultBackend()
	defer stopBe()
	rigA := startProxy()
	defer rigA.stop()
	agentA := rigA.startAgent(be, "VERIF_AGENT_SHIM=1", "VERIF_AGENT_SHIM_PATH=shimpath")
	faultsB := []string{"close-before-headers", "garbage-head", "close-mid-body", "reset-mid-body", "bad-chunk"}
	total := e.N(120, 3000)
	var wg sync.WaitGroup
	sem := make(chan struct{}, 8)
	for i := 0; i < total; i++ {
		if !e.Want(i) {
			continue
		}
		wg.Add(1)
		sem <- struct{}{}
		go func(i int) {
			defer wg.Done()
			defer func() { <-sem }()
			rng := e.Rng.Sub(i)
			tok := fmt.Sprintf("fa-%d-%d", e.Seed, i)
			fault := ""
			if rng.Chance(35) {
				fault = faultsB[rng.Intn(len(faultsB))]
			}
			st, rtok, body, err := probe(rigA.proxyURL, tok, fault, 30*time.Second)
			if fault == "" {
				if err != nil || st != 200 || rtok != tok || body != "resp-"+tok {
					e.Fail("C07:healthy-request-disturbed", fmt.Sprintf("healthy request %s running among backend faults: status %d token %q body %q err %v", tok, st, rtok, body, err), i, nil, nil, nil)
				}
			} else {
				if err == nil && (fault == "close-before-headers" || fault == "garbage-head") && st != 502 {
					e.Fail("C07:backend-failure-not-502", fmt.Sprintf("backend fault %s: client received status %d", fault, st), i, nil, st, 502)
				}
				e.Count("backend-fault:" + fault)
			}
			e.Eval(tok+fault, true)
		}(i)
	}
	wg.Wait()
	// malformed shim input, then a healthy probe
	for _, call := range []struct{ action, body string }{{"open", "::not a url"}, {"open", "ws://[::1"}, {"data", "{"}, {"data", `[{"id":"x","msg":5}]`}, {"poll", `{"id":"nope"}`}, {"close", "[]"}, {"data", strings.Repeat("[", 5000)}} {
		req, _ := http.NewRequest("POST", rigA.proxyURL+"shimpath/"+call.action, strings.NewReader(call.body))
		c := &http.Client{Timeout: 15 * time.Second}
		resp, err := c.Do(req)
		if err != nil {
			e.Fail("C07:shim-call-unanswered", fmt.Sprintf("malformed shim %s %q: %v", call.action, call.body[:minI(len(call.body), 30)], err), -1, nil, nil, nil)
			continue
		}
		io.Copy(io.Discard, resp.Body)
		resp.Body.Close()
		if resp.StatusCode < 400 {
			e.Fail("C07:shim-accepted-garbage", fmt.Sprintf("malformed shim %s %q answered %d", call.action, call.body[:minI(len(call.body), 30)], resp.StatusCode), -1, nil, resp.StatusCode, nil)
		}
		e.Eval("shim:"+call.action+call.body[:minI(len(call.body), 10)], true)
		e.Count("malformed-shim")
	}
	for k := 0; k < 5; k++ {
		tok := fmt.Sprintf("after-%d", k)
		if st, rtok, _, err := probe(rigA.proxyURL, tok, "", 15*time.Second); err != nil || st != 200 || rtok != tok {
			e.Fail("C07:not-served-after-faults", fmt.Sprintf("healthy request after the fault stream: status %d token %q err %v", st, rtok, err), -1, nil, nil, nil)
		}
	}
	if agentA.ProcessState != nil {
		e.Fail("C07:agent-terminated", "the agent process exited during the backend/shim fault stream: "+rigA.crashed(), -1, nil, nil, nil)
	}
	if c := rigA.crashed(); c != "" {
		e.Fail("C07:agent-crashed", c, -1, nil, nil, nil)
	}
	// --- rig B: backend unreachable -> 502
	rigB := startProxy()
	defer rigB.stop()
	rigB.startAgent(fmt.Sprintf("127.0.0.1:%d", freePort()))
	for k := 0; k < 3; k++ {
		st, _, _, err := probe(rigB.proxyURL, fmt.Sprintf("dead-%d", k), "", 20*time.Second)
		if err != nil || st != 502 {
			e.Fail("C07:unreachable-backend-not-502", fmt.Sprintf("backend unreachable: client received status %d err %v", st, err), -1, nil, st, 502)
		}
		e.Eval(fmt.Sprintf("unreachable-%d", k), true)
		e.Count("backend-unreachable")
	}
	if c := rigB.crashed(); c != "" {
		e.Fail("C07:agent-crashed", c, -1, nil, nil, nil)
	}
	// --- rig C: faulty proxy (played by the driver) + agent -> healthy backend
	px := newDrvProxy()
	defer px.srv.Close()
	okBackend := httptest.NewServer(http.HandlerFunc(func(w http.ResponseWriter, r *http.Request) {
		w.Header().Set("X-Tok", r.Header.Get("X-Tok"))
		io.WriteString(w, strings.Repeat("resp-"+r.Header.Get("X-Tok")+"|", 1+len(r.URL.Path)*50))
	}))
	defer okBackend.Close()
	rigC := &e2eRig{proxyURL: px.srv.URL + "/"}
	defer rigC.stop()
	agentC := rigC.startAgent(strings.TrimPrefix(okBackend.URL, "http://"))
	pf := []string{"", "", "", "fetch:500", "fetch:garbage", "fetch:close", "upload:500-early", "upload:close-mid", "upload:500-late"}
	nC := e.N(60, 1500)
	dones := map[string]chan struct{}{}
	kinds := map[string]string{}
	for i := 0; i < nC; i++ {
		rng := e.Rng.Sub(500000 + i)
		id := fmt.Sprintf("pc-%d-%d", e.Seed, i)
		k := pf[rng.Intn(len(pf))]
		kinds[id] = k
		px.mu.Lock()
		if strings.HasPrefix(k, "fetch:") {
			px.fetchF[id] = strings.TrimPrefix(k, "fetch:")
		}
		if strings.HasPrefix(k, "upload:") {
			px.uploadF[id] = strings.TrimPrefix(k, "upload:")
		}
		px.mu.Unlock()
		dones[id] = px.submit(id, "GET /"+id+" HTTP/1.1\r\nHost: b.example\r\nX-Tok: "+id+"\r\n\r\n")
		if i%7 == 0 {
			time.Sleep(3 * time.Millisecond)
		}
	}
	for id, dn := range dones {
		if kinds[id] != "" {
			e.Count("proxy-fault:" + kinds[id])
			e.Eval(id+kinds[id], true)
			continue
		}
		select {
		case <-dn:
			px.mu.Lock()
			body, st := px.uploads[id], px.status[id]
			px.mu.Unlock()
			if st != 200 || !strings.HasPrefix(string(body), "resp-"+id+"|") {
				e.Fail("C07:healthy-request-disturbed", fmt.Sprintf("healthy request %s among proxy faults: uploaded status %d body %q…", id, st, string(body[:minI(len(body), 40)])), -1, nil, nil, nil)
			}
		case <-time.After(20 * time.Second):
			e.Fail("C07:healthy-request-disturbed", fmt.Sprintf("healthy request %s among proxy faults was never answered", id), -1, nil, nil, nil)
		}
		e.Eval(id, true)
	}
	if agentC.ProcessState != nil {
		e.Fail("C07:agent-terminated", "the agent process exited during the proxy fault stream: "+rigC.crashed(), -1, nil, nil, nil)
	}
	if c := rigC.crashed(); c != "" {
		e.Fail("C07:agent-crashed", c, -1, nil, nil, nil)
	}
	e.Sample(map[string]interface{}{"backend_fault_stream": total, "proxy_fault_stream": nC})
}
