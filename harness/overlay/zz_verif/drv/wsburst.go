//go:build verif

package main

import (
	"context"
	"encoding/json"
	"fmt"
	"net"
	"net/http"
	"net/http/httptest"
	"strings"
	"sync"
	"time"

	"github.com/gorilla/websocket"

	"github.com/google/inverting-proxy/agent/metrics"
	"github.com/google/inverting-proxy/agent/websockets"
	"github.com/google/inverting-proxy/zz_verif/vh"
)

// smallBufListener gives every accepted connection a small receive buffer, so that a slowly reading backend
// exerts back-pressure on the agent after a few megabytes (as a remote backend would).
type smallBufListener struct{ net.Listener }

func (l smallBufListener) Accept() (net.Conn, error) {
	c, err := l.Listener.Accept()
	if tc, ok := c.(*net.TCPConn); ok {
		tc.SetReadBuffer(32 << 10)
	}
	return c, err
}

// wsBurstThenClose (C11): ws.send() many times followed at once by ws.close(), against a backend that reads slowly.
// Every message of a data post that was answered 200 must reach the backend, in order, before the close.
func wsBurstThenClose(e *vh.Env, base int) {
	rounds := e.N(1, 6)
	for r := 0; r < rounds; r++ {
		if !e.Want(base + r) {
			continue
		}
		rng := e.Rng.Sub(base + r)
		count := 24 + rng.Intn(10)
		size := 512 << 10
		var mu sync.Mutex
		var got []string
		ended := make(chan error, 1)
		up := websocket.Upgrader{}
		srv := httptest.NewUnstartedServer(http.HandlerFunc(func(w http.ResponseWriter, r *http.Request) {
			c, err := up.Upgrade(w, r, nil)
			if err != nil {
				return
			}
			defer c.Close()
			for {
				_, d, err := c.ReadMessage()
				if err != nil {
					ended <- err
					return
				}
				mu.Lock()
				got = append(got, string(d[:8]))
				mu.Unlock()
				time.Sleep(15 * time.Millisecond)
			}
		}))
		srv.Listener = smallBufListener{srv.Listener}
		srv.Start()
		ident := func(h http.Handler, _ *metrics.MetricHandler) http.Handler { return h }
		ctx, cancel := context.WithCancel(context.Background())
		h, _ := websockets.Proxy(ctx, http.NotFoundHandler(), strings.TrimPrefix(srv.URL, "http://"), "shimpath", false, false, ident, nil)
		code, body := shimCall(h, "open", "ws://whatever/ws", nil)
		var open struct {
			ID string `json:"id"`
		}
		if code != 200 || json.Unmarshal([]byte(body), &open) != nil {
			e.Fail("C11:open-failed", fmt.Sprintf("open: %d %s", code, body), base+r, nil, nil, nil)
			cancel()
			srv.Close()
			continue
		}
		pad := strings.Repeat("x", size-8)
		var batch []map[string]interface{}
		var want []string
		for k := 0; k < count; k++ {
			tag := fmt.Sprintf("m%06d:", k)
			want = append(want, tag)
			batch = append(batch, map[string]interface{}{"id": open.ID, "msg": tag + pad})
		}
		bb, _ := json.Marshal(batch)
		dc, dbody := shimCall(h, "data", string(bb), nil)
		cc, _ := shimCall(h, "close", `{"id":"`+open.ID+`"}`, nil)
		var endErr error
		select {
		case endErr = <-ended:
		case <-time.After(20 * time.Second):
			endErr = fmt.Errorf("backend connection still open 20 s after the close call")
		}
		mu.Lock()
		g := append([]string(nil), got...)
		mu.Unlock()
		inOrder := len(g) <= len(want)
		for k := 0; inOrder && k < len(g); k++ {
			inOrder = g[k] == want[k]
		}
		if dc == 200 && (len(g) != count || !inOrder) {
			e.Fail("C11:client-messages-lost:close-after-burst", fmt.Sprintf("a data post of %d text messages of %d KiB was answered 200 and followed at once by close (answered %d); the slowly reading backend received %d of them (in order: %v) before its connection ended with: %v", count, size>>10, cc, len(g), inOrder, endErr), base+r, nil, len(g), count)
		}
		if dc == 200 && cc == 200 && endErr != nil && strings.Contains(endErr.Error(), "still open") {
			e.Fail("C12:close-did-not-close-backend", fmt.Sprintf("a session with %d messages of %d KiB still queued towards a slowly reading backend was closed (close answered 200); the backend received %d messages and its websocket was still open 20 s later", count, size>>10, len(g)), base+r, nil, nil, nil)
		}
		if dc != 200 {
			e.Fail("C11:data-failed", fmt.Sprintf("data post of %d messages: %d %s", count, dc, dbody), base+r, nil, nil, nil)
		}
		cancel()
		srv.Close()
		e.Eval(fmt.Sprintf("burst-close-%d", r), true)
		e.Count("burst-then-close")
	}
}
