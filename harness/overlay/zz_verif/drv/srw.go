//go:build verif

package main

import (
	"fmt"
	"io"
	"net/http"
	"strings"
	"time"

	"github.com/google/inverting-proxy/agent/utils"
	"github.com/google/inverting-proxy/zz_verif/vh"
)

func init() { suites["srw"] = suiteSRW }

// suiteSRW: differential test of the real streamingResponseWriter against Model/RespPath.output.
func suiteSRW(e *vh.Env) {
	e.OpenOps("srw")
	e.Result.Rule = "handler scripts over {set/add/del header, WriteHeader (interim 100/102/103, 101, final 200..599), body writes of 1..5000 bytes} with 0..5 declared trailers (one per Trailer value or comma-joined), undeclared Trailer:-prefixed trailers, hop-by-hop fields, repeated fields; the response read from the writer's channel is compared with the model; non-trivial = script with at least two trailers or an interim response"
	n := e.N(400, 20000)
	names := []string{"X-A", "X-B", "X-C", "Set-Cookie", "Content-Type", "Etag"}
	hops := []string{"Connection", "Keep-Alive", "Te", "Upgrade", "Proxy-Connection", "Transfer-Encoding"}
	for i := 0; i < n; i++ {
		if !e.Want(i) {
			continue
		}
		rng := e.Rng.Sub(i)
		var ops []hop
		addHdr := func() {
			k := rng.Pick(names)
			if rng.Chance(15) {
				k = rng.Pick(hops)
			}
			kind := "A"
			if rng.Bool() {
				kind = "S"
			}
			ops = append(ops, hop{kind: kind, k: k, v: rng.Pick([]string{"v1", "v2", "a=b; Path=/", "text/html"})})
		}
		for k := rng.Intn(4); k > 0; k-- {
			addHdr()
		}
		interim := false
		if rng.Chance(25) {
			interim = true
			ops = append(ops, hop{kind: "S", k: "Link", v: "</x>; rel=preload"}, hop{kind: "H", code: []int{100, 102, 103, 199}[rng.Intn(4)]}, hop{kind: "D", k: "Link"})
		}
		// declared trailers
		ntr := rng.Intn(6)
		if rng.Chance(40) {
			ntr = 0
		}
		var trs []string
		for k := 0; k < ntr; k++ {
			t := fmt.Sprintf("X-T%d", k)
			if rng.Chance(10) {
				t = rng.Pick(hops)
			}
			trs = append(trs, t)
		}
		if len(trs) > 0 {
			if rng.Bool() {
				sep := rng.Pick([]string{", ", ",", " , "})
				ops = append(ops, hop{kind: "A", k: "Trailer", v: strings.Join(trs, sep)})
			} else {
				for _, t := range trs {
					ops = append(ops, hop{kind: "A", k: "Trailer", v: t})
				}
			}
		}
		if rng.Chance(85) {
			ops = append(ops, hop{kind: "H", code: []int{200, 200, 201, 204, 301, 304, 404, 500, 599, 101}[rng.Intn(10)]})
		}
		for k := rng.Intn(4); k > 0; k-- {
			sz := 1 + rng.Intn(20)
			if rng.Chance(10) {
				sz = 1 + rng.Intn(5000)
			}
			ops = append(ops, hop{kind: "W", data: rng.Bytes(sz)})
		}
		if rng.Chance(10) {
			ops = append(ops, hop{kind: "H", code: 500})
		}
		// trailer values after the body; undeclared ones with the prefix
		for _, t := range trs {
			if rng.Chance(80) {
				ops = append(ops, hop{kind: "A", k: t, v: "tv-" + t})
				if rng.Chance(20) {
					ops = append(ops, hop{kind: "A", k: t, v: "tv2"})
				}
			}
		}
		und := rng.Intn(3)
		for k := 0; k < und; k++ {
			t := fmt.Sprintf("X-U%d", k)
			if rng.Chance(10) {
				t = rng.Pick(hops)
			}
			ops = append(ops, hop{kind: "A", k: "Trailer:" + t, v: "uv"})
		}
		respChan := make(chan *http.Response, 1)
		rw := utils.NewStreamingResponseWriter(respChan, &http.Request{ProtoMajor: 1, ProtoMinor: 1, Proto: "HTTP/1.1"})
		go func() {
			for _, o := range ops {
				switch o.kind {
				case "S":
					rw.Header().Set(o.k, o.v)
				case "A":
					rw.Header().Add(o.k, o.v)
				case "D":
					rw.Header().Del(o.k)
				case "H":
					rw.WriteHeader(o.code)
				case "W":
					rw.Write(o.data)
				}
			}
			rw.Close()
		}()
		var resp *http.Response
		select {
		case resp = <-respChan:
		case <-time.After(5 * time.Second):
			e.Fail("C03:no-response", fmt.Sprintf("case %d: the writer produced no response", i), i, nil, nil, nil)
			continue
		}
		body, _ := io.ReadAll(resp.Body)
		hdr := resp.Header.Clone() // after the body: must not have been touched by later handler writes
		obs := fmt.Sprintf("%d %s %s %s", resp.StatusCode, vh.CanonHeader(hdr), vh.Hex(body), vh.CanonHeader(resp.Trailer))
		e.Op("srw "+encOpsD(ops), obs)
		e.Eval(encOpsD(ops), ntr+und >= 2 || interim)
		e.Count(fmt.Sprintf("declared=%d undeclared=%d interim=%v", min3(ntr), und, interim))
		if i < 3 {
			e.Sample(map[string]interface{}{"ops": encOpsD(ops), "observed": obs})
		}
	}
}

func encOpsD(ops []hop) string {
	var parts []string
	for _, o := range ops {
		switch o.kind {
		case "S", "A":
			parts = append(parts, o.kind+":"+vh.Hex([]byte(http.CanonicalHeaderKey(o.k)))+":"+vh.Hex([]byte(o.v)))
		case "D":
			parts = append(parts, "D:"+vh.Hex([]byte(http.CanonicalHeaderKey(o.k))))
		case "H":
			parts = append(parts, fmt.Sprintf("H:%d", o.code))
		case "W":
			parts = append(parts, "W:"+vh.Hex(o.data))
		}
	}
	if len(parts) == 0 {
		return "-"
	}
	return strings.Join(parts, ";")
}
