//go:build verif

package main

import (
	"bufio"
	"io"
	"net"
)

func bufioReader(r io.Reader) *bufio.Reader { return bufio.NewReader(r) }

func netListen() (net.Listener, error) { return net.Listen("tcp", "127.0.0.1:0") }

func setLinger0(c net.Conn) {
	if tc, ok := c.(*net.TCPConn); ok {
		tc.SetLinger(0)
	}
}

func minInt(a, b int) int {
	if a < b {
		return a
	}
	return b
}
