//go:build verif

package main

import (
	"bufio"
	"io"
)

func bufioReader(r io.Reader) *bufio.Reader { return bufio.NewReader(r) }
