//go:build verif

package main

import (
	"bufio"
	"bytes"
	"compress/gzip"
	"crypto/sha256"
	"fmt"
	"io"
	"net"
	"net/http"
	"sort"
	"strings"
	"sync"
	"time"

	"github.com/google/inverting-proxy/zz_verif/vh"
)

func init() {
	suites["resppath"] = suiteRespPath
	suites["reqpath"] = suiteReqPath
}

// rawBackend answers every connection with scripted wire bytes chosen by the X-Case header,
// and records what it received.
type rawBackend struct {
	ln      net.Listener
	mu      sync.Mutex
	scripts map[string][]byte        // case -> response wire bytes
	pauses  map[string]time.Duration // case -> pause in the middle of the response (a slow backend)
	seen    map[string]*recordedReq  // case -> request as received
}

type recordedReq struct {
	method, target, host string
	hdr                  http.Header
	body                 []byte
	bodyErr              error
}

func newRawBackend() *rawBackend {
	b := &rawBackend{scripts: map[string][]byte{}, pauses: map[string]time.Duration{}, seen: map[string]*recordedReq{}}
	var err error
	b.ln, err = net.Listen("tcp", "127.0.0.1:0")
	if err != nil {
		panic(err)
	}
	go func() {
		for {
			c, err := b.ln.Accept()
			if err != nil {
				return
			}
			go b.serve(c)
		}
	}()
	return b
}

func (b *rawBackend) host() string { return b.ln.Addr().String() }

func (b *rawBackend) serve(c net.Conn) {
	defer c.Close()
	br := bufio.NewReader(c)
	for {
		req, err := http.ReadRequest(br)
		if err != nil {
			return
		}
		cs := req.Header.Get("X-Case")
		if req.Header.Get("X-Early-Answer") != "" {
			// a backend that answers as soon as it has seen the start of the body, and reads the rest afterwards
			head := make([]byte, 5)
			io.ReadFull(req.Body, head)
			c.Write([]byte("HTTP/1.1 200 OK\r\nContent-Length: 5\r\n\r\nearly"))
			rest, berr := io.ReadAll(req.Body)
			b.mu.Lock()
			b.seen[cs] = &recordedReq{method: req.Method, target: req.RequestURI, host: req.Host, hdr: req.Header.Clone(), body: append(head, rest...), bodyErr: berr}
			b.mu.Unlock()
			return
		}
		body, berr := io.ReadAll(req.Body)
		b.mu.Lock()
		b.seen[cs] = &recordedReq{method: req.Method, target: req.RequestURI, host: req.Host, hdr: req.Header.Clone(), body: body, bodyErr: berr}
		wire, ok := b.scripts[cs]
		pause := b.pauses[cs]
		b.mu.Unlock()
		if !ok {
			wire = []byte("HTTP/1.1 200 OK\r\nContent-Length: 2\r\nConnection: close\r\n\r\nok")
		}
		if pause > 0 && len(wire) > 2 {
			c.Write(wire[:len(wire)/2])
			time.Sleep(pause)
			wire = wire[len(wire)/2:]
		}
		c.Write(wire)
		return
	}
}

type respScript struct {
	interim  []int
	status   int
	hdr      [][2]string // in order
	body     []byte
	chunks   []int // chunk sizes (chunked) or nil = Content-Length
	declared [][2]string
	undecl   [][2]string
	method   string
	// hopTrailer: a hop-by-hop field name that is also announced and sent as a trailer (never checked for arrival)
	hopTrailer string
}

func (s *respScript) wire() []byte {
	var w bytes.Buffer
	for _, c := range s.interim {
		fmt.Fprintf(&w, "HTTP/1.1 %d %s\r\nLink: </early>\r\n\r\n", c, http.StatusText(c))
	}
	fmt.Fprintf(&w, "HTTP/1.1 %d %s\r\n", s.status, http.StatusText(s.status))
	for _, kv := range s.hdr {
		fmt.Fprintf(&w, "%s: %s\r\n", kv[0], kv[1])
	}
	w.WriteString("Connection: close\r\n")
	nobody := s.method == "HEAD" || s.status == 204 || s.status == 304
	if nobody {
		w.WriteString("\r\n")
		return w.Bytes()
	}
	if s.chunks == nil {
		fmt.Fprintf(&w, "Content-Length: %d\r\n\r\n", len(s.body))
		w.Write(s.body)
		return w.Bytes()
	}
	w.WriteString("Transfer-Encoding: chunked\r\n")
	if len(s.declared) > 0 {
		var names []string
		if s.hopTrailer != "" {
			names = append(names, s.hopTrailer)
		}
		for _, kv := range s.declared {
			names = append(names, kv[0])
		}
		fmt.Fprintf(&w, "Trailer: %s\r\n", strings.Join(names, ", "))
	}
	w.WriteString("\r\n")
	rest := s.body
	for _, n := range s.chunks {
		if n > len(rest) {
			n = len(rest)
		}
		if n == 0 {
			continue
		}
		fmt.Fprintf(&w, "%x\r\n", n)
		w.Write(rest[:n])
		w.WriteString("\r\n")
		rest = rest[n:]
	}
	if len(rest) > 0 {
		fmt.Fprintf(&w, "%x\r\n", len(rest))
		w.Write(rest)
		w.WriteString("\r\n")
	}
	w.WriteString("0\r\n")
	if s.hopTrailer != "" && len(s.declared) > 0 {
		fmt.Fprintf(&w, "%s: hop-value\r\n", s.hopTrailer)
	}
	for _, kv := range append(append([][2]string{}, s.declared...), s.undecl...) {
		fmt.Fprintf(&w, "%s: %s\r\n", kv[0], kv[1])
	}
	w.WriteString("\r\n")
	return w.Bytes()
}

var hopNames = map[string]bool{"Connection": true, "Keep-Alive": true, "Proxy-Authenticate": true, "Proxy-Authorization": true, "Te": true, "Trailer": true, "Transfer-Encoding": true, "Upgrade": true, "Proxy-Connection": true}

func valuesOf(kvs [][2]string, name string) []string {
	var out []string
	for _, kv := range kvs {
		if http.CanonicalHeaderKey(kv[0]) == name {
			out = append(out, kv[1])
		}
	}
	return out
}

func sizePick(rng *vh.Rng, big bool) int {
	switch rng.Intn(9) {
	case 0:
		return 0
	case 1:
		return 1
	case 2:
		return 2
	case 3:
		return 4095 + rng.Intn(3)
	case 4:
		return 32*1024 - 1 + rng.Intn(3)
	case 5:
		if big {
			return 1<<20 + rng.Intn(3) - 1
		}
		return 5000 + rng.Intn(5000)
	case 6:
		if big {
			return 3 << 20
		}
		return 70000
	default:
		return rng.Intn(3000)
	}
}

// suiteRespPath (C03): scripted raw-TCP backend -> real ReverseProxy + forwarder (agent child)
// -> real stand-alone proxy -> client.
func suiteRespPath(e *vh.Env) {
	e.Result.Rule = "scripted backend wire responses (final status 200..599, repeated Set-Cookie and other end-to-end fields, hop-by-hop fields, bodies 0/1/2/4095..4097/32 KiB/1 MiB and one of 12 MiB (thorough: 48 MiB), Content-Length or chunked with chunk sizes incl. a 1-byte first chunk, 0..5 declared and 0..2 undeclared trailers, interim 100/102/103 responses, HEAD/204/304) through real agent code and the real proxy binary, every fourth case with session tracking on; the client's parse is compared with the script; non-trivial = response with at least two trailers, an interim response, or a 1-byte first chunk"
	be := newRawBackend()
	rig := startProxy()
	defer rig.stop()
	rig.startAgent(be.host())
	// a second proxy/agent pair with session tracking on: the response passes one more wrapper (sessionResponseWriter)
	rigS := startProxy()
	defer rigS.stop()
	rigS.startAgent(be.host(), "VERIF_AGENT_SESSION_COOKIE=vsess", "VERIF_AGENT_SESSION_LIMIT=50")
	n := e.N(120, 5000)
	sem := make(chan struct{}, 8)
	var wg sync.WaitGroup
	for i := 0; i < n; i++ {
		if !e.Want(i) || e.FailedExcept("C03:trailer-altered:same-name-as-header", "C03:status-altered:more-than-five-interim-responses") {
			continue // stop generating after the first failure that is not a recorded finding
		}
		wg.Add(1)
		sem <- struct{}{}
		go func(i int) {
			defer wg.Done()
			defer func() { <-sem }()
			rng := e.Rng.Sub(i)
			s := &respScript{method: rng.Pick([]string{"GET", "GET", "GET", "POST", "HEAD"})}
			s.status = []int{200, 200, 200, 201, 202, 204, 206, 301, 302, 304, 400, 404, 418, 500, 502, 503, 599}[rng.Intn(17)]
			if rng.Chance(20) {
				for k := 1 + rng.Intn(2); k > 0; k-- {
					s.interim = append(s.interim, []int{100, 102, 103}[rng.Intn(3)])
				}
			}
			for k := rng.Intn(5); k > 0; k-- {
				s.hdr = append(s.hdr, [2]string{rng.Pick([]string{"Set-Cookie", "Set-Cookie", "X-Multi", "Content-Type", "Etag", "X-Single", "Cache-Control"}), rng.Pick([]string{"a=1; Path=/", "b=2", "v", "text/plain", "\"tag\"", "no-store"})})
			}
			if rng.Chance(20) {
				s.hdr = append(s.hdr, [2]string{rng.Pick([]string{"Keep-Alive", "Proxy-Authenticate", "Upgrade"}), "x"})
			}
			if rng.Chance(25) {
				// end-to-end response fields whose names merely resemble hop-by-hop ones (Proxy-Status is RFC 9209)
				for k := 1 + rng.Intn(2); k > 0; k-- {
					lk := [][2]string{{"Proxy-Status", "origin-cache; hit"}, {"Proxy-Cache-Info", "stored=1"}, {"Keep-Alive-Hint", "x"}, {"Te-Level", "2"}, {"Trailer-Note", "n"},
						{"Connection-Id", "c-17"}, {"Transfer-Encoding-Hint", "none"}, {"Upgrade-Available", "h3"}}[rng.Intn(8)]
					if len(valuesOf(s.hdr, lk[0])) == 0 {
						s.hdr = append(s.hdr, lk)
					}
				}
			}
			s.body = rng.Bytes(sizePick(rng, e.Thorough()))
			if i == 5 || (i == 9 && e.Thorough()) {
				s.method, s.status = "GET", 200
				s.body = rng.Bytes(12<<20 + 3) // larger than any plausible in-memory limit on the way
				if i == 9 {
					s.body = rng.Bytes(48<<20 + 1)
				}
			}
			oneByteFirst := false
			if rng.Chance(65) {
				s.chunks = []int{}
				if rng.Chance(35) {
					s.chunks = append(s.chunks, 1)
					oneByteFirst = len(s.body) > 0
				}
				for k := rng.Intn(5); k > 0; k-- {
					s.chunks = append(s.chunks, 1+rng.Intn(5000))
				}
				nd := []int{0, 0, 1, 2, 5}[rng.Intn(5)]
				for k := 0; k < nd; k++ {
					tn := fmt.Sprintf("X-Trailer-%d", k)
					if k == 1 && rng.Chance(40) {
						tn = rng.Pick([]string{"Proxy-Status", "Keep-Alive-Hint", "Te-Level", "Connection-Id"})
						if len(valuesOf(s.hdr, tn)) > 0 {
							tn = "X-Trailer-1"
						}
					}
					s.declared = append(s.declared, [2]string{tn, fmt.Sprintf("tv%d", k)})
					if k == 0 && nd >= 2 && rng.Chance(35) {
						// a hop-by-hop name among the announced trailers: it is dropped, the others still arrive
						s.hopTrailer = rng.Pick([]string{"Keep-Alive", "Upgrade", "Proxy-Authenticate"})
					}
				}
				for k := rng.Intn(3); k > 0 && rng.Chance(40); k-- {
					s.undecl = append(s.undecl, [2]string{fmt.Sprintf("X-Undeclared-%d", k), "uv"})
				}
			}
			limitKey := "" // cases at limits of Go's HTTP client inside the agent: own finding keys
			if i%40 == 17 {
				s.interim = []int{103, 103, 103, 103, 103, 103}
				limitKey = "more-than-five-interim-responses"
			}
			if i%40 == 29 {
				// a trailer section of about 3 KB (long values: signatures, digests of many parts)
				if s.chunks == nil {
					s.chunks = []int{100}
				}
				if s.method == "HEAD" || s.status == 204 || s.status == 304 {
					s.method, s.status = "GET", 200
				}
				s.declared = [][2]string{{"X-Long-Trailer-A", strings.Repeat("a", 1400)}, {"X-Long-Trailer-B", strings.Repeat("b", 1500)}}
				s.undecl = nil
			}
			gzipped := i%40 == 11
			if gzipped {
				// a backend that compresses (as it may when asked to, or always does); the client did not ask for it
				var zb bytes.Buffer
				zw := gzip.NewWriter(&zb)
				zw.Write(bytes.Repeat([]byte("compressible payload "), 200+rng.Intn(200)))
				zw.Close()
				s.body = zb.Bytes()
				s.hdr = append(s.hdr, [2]string{"Content-Encoding", "gzip"})
				if s.method == "HEAD" || s.status == 204 || s.status == 304 {
					s.method, s.status = "GET", 200
				}
			}
			if i%40 == 7 {
				// a field sent both as a header and, with another value, as a declared trailer
				if s.chunks == nil {
					s.chunks = []int{100}
				}
				if s.method == "HEAD" || s.status == 204 || s.status == 304 {
					s.method, s.status = "GET", 200
				}
				s.hdr = append(s.hdr, [2]string{"X-Both", "as-header"})
				s.declared = append(s.declared, [2]string{"X-Both", "as-trailer"})
			}
			cs := fmt.Sprintf("resp-%d-%d", e.Seed, i)
			be.mu.Lock()
			if e.Thorough() && i == 13 {
				be.pauses[cs] = 11500 * time.Millisecond // a response that takes its time (long poll, report generation)
			}
			be.scripts[cs] = s.wire()
			be.mu.Unlock()
			withSessions := i%4 == 3
			base := rig.proxyURL
			if withSessions {
				base = rigS.proxyURL
			}
			req, _ := http.NewRequest(s.method, base+"resp/"+cs, nil)
			req.Header.Set("X-Case", cs)
			if !gzipped {
				req.Header.Set("Accept-Encoding", "identity")
			}
			cl := &http.Client{Transport: &http.Transport{DisableKeepAlives: true, DisableCompression: true}, Timeout: 60 * time.Second,
				CheckRedirect: func(*http.Request, []*http.Request) error { return http.ErrUseLastResponse }}
			resp, err := cl.Do(req)
			if err != nil {
				e.Fail("C03:no-response", fmt.Sprintf("case %d (status %d, interim %v): %v", i, s.status, s.interim, err), i, nil, nil, nil)
				return
			}
			if limitKey != "" {
				// one verdict per case, under the limit's own key
				body, _ := io.ReadAll(resp.Body)
				resp.Body.Close()
				okTr := true
				for _, kv := range s.declared {
					if g := resp.Trailer[http.CanonicalHeaderKey(kv[0])]; len(g) != 1 || g[0] != kv[1] {
						okTr = false
					}
				}
				nobody := s.method == "HEAD" || s.status == 204 || s.status == 304
				if resp.StatusCode != s.status || (!nobody && !bytes.Equal(body, s.body)) || (!nobody && s.chunks != nil && !okTr) {
					e.Fail("C03:"+map[string]string{"more-than-five-interim-responses": "status-altered", "trailer-section-over-4096-bytes": "trailer-lost"}[limitKey]+":"+limitKey,
						fmt.Sprintf("case %d: backend sent %s %d after %d interim responses with %d declared trailers (%d body bytes); client received status %d, %d body bytes, %d trailer fields", i, s.method, s.status, len(s.interim), len(s.declared), len(s.body), resp.StatusCode, len(body), len(resp.Trailer)), i, nil, nil, nil)
				}
				e.Eval(cs, true)
				e.Count("limit:" + limitKey)
				return
			}
			body, rerr := io.ReadAll(resp.Body)
			resp.Body.Close()
			what := fmt.Sprintf("case %d: backend sent %s %d interim=%v body=%d chunks=%v declared=%d undeclared=%d sessions=%v", i, s.method, s.status, s.interim, len(s.body), s.chunks, len(s.declared), len(s.undecl), withSessions)
			if rerr != nil {
				e.Fail("C03:body-read-error", what+": "+rerr.Error(), i, nil, nil, nil)
				return
			}
			if resp.StatusCode != s.status {
				e.Fail("C03:status-altered", fmt.Sprintf("%s; client received status %d", what, resp.StatusCode), i, nil, resp.StatusCode, s.status)
			}
			nobody := s.method == "HEAD" || s.status == 204 || s.status == 304
			wantBody := s.body
			if nobody {
				wantBody = nil
			}
			if !bytes.Equal(body, wantBody) {
				e.Fail("C03:body-altered", fmt.Sprintf("%s; client received %d bytes (sha %x vs %x)", what, len(body), sha256.Sum256(body), sha256.Sum256(wantBody)), i, nil, len(body), len(wantBody))
			}
			names := map[string]bool{}
			for _, kv := range s.hdr {
				names[http.CanonicalHeaderKey(kv[0])] = true
			}
			for name := range names {
				got := resp.Header[name]
				if hopNames[name] {
					if len(got) > 0 {
						e.Fail("C03:hop-by-hop-forwarded", fmt.Sprintf("%s; hop-by-hop field %s=%q reached the client", what, name, got), i, nil, got, nil)
					}
					continue
				}
				if nobody && (name == "Content-Type") {
					continue // entity headers may be omitted for HEAD/204/304
				}
				if withSessions && name == "Set-Cookie" {
					continue // intercepted by session tracking (C10)
				}
				want := valuesOf(s.hdr, name)
				if strings.Join(got, "\x00") != strings.Join(want, "\x00") {
					e.Fail("C03:header-altered", fmt.Sprintf("%s; header %s: client received %q, backend sent %q", what, name, got, want), i, nil, got, want)
				}
			}
			if _, early := resp.Header["Link"]; early {
				e.Fail("C03:interim-header-leaked", what+"; the Link field of an interim response reached the final response", i, nil, nil, nil)
			}
			if !nobody && s.chunks != nil {
				for _, kv := range append(append([][2]string{}, s.declared...), s.undecl...) {
					got := resp.Trailer[http.CanonicalHeaderKey(kv[0])]
					if kv[0] == "X-Both" {
						if len(got) != 1 || got[0] != kv[1] {
							e.Fail("C03:trailer-altered:same-name-as-header", fmt.Sprintf("%s; the backend sent X-Both: as-header in the header and X-Both: as-trailer as a declared trailer; client received trailer X-Both %q (header %q)", what, got, resp.Header["X-Both"]), i, nil, got, kv[1])
						}
						continue
					}
					if len(got) != 1 || got[0] != kv[1] {
						e.Fail("C03:trailer-lost", fmt.Sprintf("%s; trailer %s: client received %q as trailer (as header: %q), backend sent %q", what, kv[0], got, resp.Header[http.CanonicalHeaderKey(kv[0])], kv[1]), i, nil, got, kv[1])
					}
					if h := resp.Header[http.CanonicalHeaderKey(kv[0])]; len(h) > 0 {
						e.Fail("C03:trailer-as-header", fmt.Sprintf("%s; trailer %s also arrived as a header %q", what, kv[0], h), i, nil, h, nil)
					}
				}
			}
			e.Eval(cs, len(s.declared)+len(s.undecl) >= 2 || len(s.interim) > 0 || oneByteFirst)
			e.Count(fmt.Sprintf("trailers>=2:%v interim:%v oneByteFirst:%v nobody:%v", len(s.declared)+len(s.undecl) >= 2, len(s.interim) > 0, oneByteFirst, nobody))
			if i < 3 {
				e.Sample(map[string]interface{}{"method": s.method, "status": s.status, "interim": s.interim, "body_len": len(s.body), "chunks": s.chunks, "declared_trailers": len(s.declared), "undeclared_trailers": len(s.undecl)})
			}
		}(i)
	}
	wg.Wait()
	if c := rig.crashed(); c != "" {
		e.Fail("C03:process-crashed", c, -1, nil, nil, nil)
	}
	if c := rigS.crashed(); c != "" {
		e.Fail("C03:process-crashed", c, -1, nil, nil, nil)
	}
}

// suiteReqPath (C02): raw client bytes -> real proxy binary -> real agent code -> recording raw backend.
func suiteReqPath(e *vh.Env) {
	e.Result.Rule = "raw client requests (methods GET/POST/PUT/PATCH/DELETE/HEAD/OPTIONS, escaped paths incl. %2F %41 // and UTF-8 escapes, queries without ';', repeated and mixed-case header names, X-Forwarded-*/Forwarded/Via fields, hop-by-hop fields, bodies 0..3 MiB around 4096/32 KiB/1 MiB with Content-Length or chunked framing) through the real proxy binary and real agent code to a recording backend; non-trivial = request with a body of at least 4096 bytes, an escaped path or a repeated header"
	be := newRawBackend()
	// four agents with their own proxies: plain, websocket shim (with script injection), banner, both.  None of the
	// options concerns these requests (no shim paths, no HTML responses), so the backend must see the same in all four.
	var rigs []*e2eRig
	for _, extra := range [][]string{nil, {"VERIF_AGENT_SHIM=1", "VERIF_AGENT_SHIM_PATH=shimpath"}, {"VERIF_AGENT_BANNER=<b>verif</b>"},
		{"VERIF_AGENT_SHIM=1", "VERIF_AGENT_SHIM_PATH=shimpath", "VERIF_AGENT_BANNER=<b>verif</b>"}} {
		r := startProxy()
		defer r.stop()
		r.startAgent(be.host(), extra...)
		rigs = append(rigs, r)
	}
	n := e.N(150, 6000)
	sem := make(chan struct{}, 8)
	var wg sync.WaitGroup
	for i := 0; i < n; i++ {
		if !e.Want(i) || e.FailedExcept("C02:user-agent-rewritten-by-request-write") {
			continue
		}
		wg.Add(1)
		sem <- struct{}{}
		go func(i int) {
			defer wg.Done()
			defer func() { <-sem }()
			rng := e.Rng.Sub(i)
			rig := rigs[i%len(rigs)]
			method := rng.Pick([]string{"GET", "GET", "POST", "POST", "PUT", "PATCH", "DELETE", "HEAD", "OPTIONS"})
			segs := []string{"a", "b%2Fc", "%41", "", "d.e", "%E2%82%AC", "x%20y", "~t", "p+q", "%2e%2e", ".", ".."}
			path := ""
			for k := 1 + rng.Intn(4); k > 0; k-- {
				path += "/" + rng.Pick(segs)
			}
			escaped := strings.Contains(path, "%") || strings.Contains(path, "//")
			if rng.Chance(50) {
				path += "?" + rng.Pick([]string{"x=1", "x=1&y=%20z&x=2", "q=a+b", "empty=", "k", "a=%2F&b=%3F"})
			}
			cs := fmt.Sprintf("req-%d-%d", e.Seed, i)
			var hdr [][2]string
			hdr = append(hdr, [2]string{"X-Case", cs})
			repeated := false
			for k := rng.Intn(6); k > 0; k-- {
				name := rng.Pick([]string{"X-Dup", "x-dup", "X-DUP", "Accept", "Cookie", "X-One", "Accept-Language", "If-None-Match"})
				hdr = append(hdr, [2]string{name, rng.Pick([]string{"1", "2", "text/html", "a=b; c=d", "en", "\"e\""})})
			}
			if len(valuesOf(hdr, "X-Dup")) > 1 {
				repeated = true
			}
			if rng.Chance(25) {
				hdr = append(hdr, [2]string{rng.Pick([]string{"Keep-Alive", "Proxy-Authorization", "Upgrade", "TE"}), rng.Pick([]string{"timeout=5", "Basic x", "h2c", "trailers"})})
			}
			if rng.Chance(40) {
				hdr = append(hdr, [2]string{"User-Agent", "verif-client/1.0"})
				if rng.Chance(12) {
					hdr = append(hdr, [2]string{"User-Agent", "second-product/2.0"}) // a repeated field like any other
				}
			} else if rng.Chance(5) {
				hdr = append(hdr, [2]string{"User-Agent", ""}) // present but empty
			}
			if rng.Chance(25) {
				// end-to-end fields whose names merely resemble hop-by-hop ones
				for k := 1 + rng.Intn(2); k > 0; k-- {
					lk := [][2]string{{"Proxy-Client-Ip", "203.0.113.7"}, {"Upgrade-Insecure-Requests", "1"}, {"Keep-Alive-Hint", "x"}, {"Te-Level", "2"},
						{"Trailer-Note", "n"}, {"Connection-Id", "c-17"}, {"Transfer-Encoding-Hint", "none"}, {"X-Proxy-Authorization", "y"}}[rng.Intn(8)]
					if len(valuesOf(hdr, lk[0])) == 0 {
						hdr = append(hdr, lk)
					}
				}
			}
			if rng.Chance(30) {
				// a request that already passed a load balancer: end-to-end fields that proxy libraries like to rewrite
				for k := 1 + rng.Intn(3); k > 0; k-- {
					fw := [][2]string{{"X-Forwarded-For", "203.0.113.7, 198.51.100.2"}, {"X-Forwarded-Proto", "https"}, {"X-Forwarded-Host", "public.example"},
						{"Forwarded", "for=203.0.113.7;proto=https;host=public.example"}, {"Via", "1.1 lb.example"}, {"X-Real-Ip", "203.0.113.7"}}[rng.Intn(6)]
					if len(valuesOf(hdr, fw[0])) == 0 {
						hdr = append(hdr, fw)
					}
				}
			}
			var body []byte
			chunked := false
			if method != "GET" && method != "HEAD" && method != "OPTIONS" {
				body = rng.Bytes(sizePick(rng, e.Thorough()))
				chunked = rng.Chance(40)
			}
			var w bytes.Buffer
			fmt.Fprintf(&w, "%s %s HTTP/1.1\r\nHost: client-visible.example:8443\r\n", method, path)
			for _, kv := range hdr {
				fmt.Fprintf(&w, "%s: %s\r\n", kv[0], kv[1])
			}
			// sometimes the client nominates one of its own fields as hop-by-hop (RFC 7230 6.1): it must then not be forwarded
			nominated := ""
			if rng.Chance(12) {
				var cands []string
				for _, kv := range hdr {
					cn := http.CanonicalHeaderKey(kv[0])
					if cn != "X-Case" && !hopNames[cn] && cn != "Cookie" {
						cands = append(cands, kv[0])
					}
				}
				if len(cands) > 0 {
					nominated = cands[rng.Intn(len(cands))]
				}
			}
			if nominated != "" && rng.Chance(40) {
				// the options of a list-valued field may be spread over several field lines (RFC 9110 5.3)
				w.WriteString("Connection: close\r\nConnection: " + nominated + "\r\n")
			} else if nominated != "" {
				w.WriteString("Connection: close, " + nominated + "\r\n")
			} else {
				w.WriteString("Connection: close\r\n")
			}
			if chunked {
				w.WriteString("Transfer-Encoding: chunked\r\n\r\n")
				rest := body
				for len(rest) > 0 {
					k := 1 + rng.Intn(9000)
					if k > len(rest) {
						k = len(rest)
					}
					fmt.Fprintf(&w, "%x\r\n", k)
					w.Write(rest[:k])
					w.WriteString("\r\n")
					rest = rest[k:]
				}
				w.WriteString("0\r\n\r\n")
			} else if body != nil || method == "POST" || method == "PUT" {
				fmt.Fprintf(&w, "Content-Length: %d\r\n\r\n", len(body))
				w.Write(body)
			} else {
				w.WriteString("\r\n")
			}
			c, err := net.Dial("tcp", fmt.Sprintf("127.0.0.1:%d", rig.proxyPort))
			if err != nil {
				e.Fail("C02:connect", err.Error(), i, nil, nil, nil)
				return
			}
			c.SetDeadline(time.Now().Add(60 * time.Second))
			go c.Write(w.Bytes())
			resp, err := http.ReadResponse(bufio.NewReader(c), &http.Request{Method: method})
			what := fmt.Sprintf("case %d (agent options: %s): %s %s body=%d chunked=%v headers=%v", i, []string{"none", "shim", "banner", "shim+banner"}[i%len(rigs)], method, path, len(body), chunked, hdr)
			if nominated != "" {
				what += " Connection-nominated=" + nominated
			}
			if err != nil {
				c.Close()
				e.Fail("C02:no-response", what+": "+err.Error(), i, nil, nil, nil)
				return
			}
			io.Copy(io.Discard, resp.Body)
			c.Close()
			be.mu.Lock()
			got := be.seen[cs]
			be.mu.Unlock()
			if got == nil {
				e.Fail("C02:request-lost", what+fmt.Sprintf("; the backend never saw it (client got status %d)", resp.StatusCode), i, nil, nil, nil)
				return
			}
			if got.method != method {
				e.Fail("C02:method-altered", fmt.Sprintf("%s; backend received method %s", what, got.method), i, nil, got.method, method)
			}
			if got.target != path {
				e.Fail("C02:target-altered", fmt.Sprintf("%s; backend received request target %q", what, got.target), i, nil, got.target, path)
			}
			if got.host != "client-visible.example:8443" {
				e.Fail("C02:host-altered", fmt.Sprintf("%s; backend received Host %q", what, got.host), i, nil, got.host, nil)
			}
			if got.bodyErr != nil || !bytes.Equal(got.body, body) {
				e.Fail("C02:body-altered", fmt.Sprintf("%s; backend received %d body bytes (err %v, sha %x vs %x)", what, len(got.body), got.bodyErr, sha256.Sum256(got.body), sha256.Sum256(body)), i, nil, len(got.body), len(body))
			}
			sent := map[string]bool{}
			for _, kv := range hdr {
				sent[http.CanonicalHeaderKey(kv[0])] = true
			}
			var names []string
			for nm := range sent {
				names = append(names, nm)
			}
			sort.Strings(names)
			for _, nm := range names {
				g := got.hdr[nm]
				if hopNames[nm] || (nominated != "" && nm == http.CanonicalHeaderKey(nominated)) {
					// none of the client's values may arrive (a default that the path adds itself under the same
					// name, such as its own User-Agent once the client's was dropped, is not the client's field)
					leaked := false
					for _, gv := range g {
						for _, cv := range valuesOf(hdr, nm) {
							if gv == cv {
								leaked = true
							}
						}
					}
					if leaked {
						e.Fail("C02:hop-by-hop-forwarded", fmt.Sprintf("%s; hop-by-hop field %s=%q reached the backend", what, nm, g), i, nil, g, nil)
					}
					continue
				}
				want := valuesOf(hdr, nm)
				if nm == "User-Agent" && (len(want) > 1 || want[0] == "") && strings.Join(g, "\x00") != strings.Join(want, "\x00") {
					// net/http's Request.Write (used by the stand-alone proxy to hand the request to the agent) writes
					// exactly one User-Agent line, from Header.Get, and none when that value is empty
					e.Fail("C02:user-agent-rewritten-by-request-write", fmt.Sprintf("%s; header User-Agent: backend received %q, client sent %q", what, g, want), i, nil, g, want)
					continue
				}
				if strings.Join(g, "\x00") != strings.Join(want, "\x00") {
					e.Fail("C02:header-altered", fmt.Sprintf("%s; header %s: backend received %q, client sent %q", what, nm, g, want), i, nil, g, want)
				}
			}
			var added []string
			for nm := range got.hdr {
				if !sent[nm] && nm != "Content-Length" && nm != "Transfer-Encoding" {
					added = append(added, nm)
				}
			}
			sort.Strings(added)
			e.Count("added:" + strings.Join(added, ","))
			e.Count("agent-options:" + []string{"none", "shim", "banner", "shim+banner"}[i%len(rigs)])
			e.Eval(cs, len(body) >= 4096 || escaped || repeated)
			if i < 3 {
				e.Sample(map[string]interface{}{"method": method, "target": path, "headers": hdr, "body_len": len(body), "chunked": chunked, "backend_added_fields": added})
			}
		}(i)
	}
	wg.Wait()
	reqOverlap(e, be, rigs[0], n)
	reqEarlyAnswer(e, be, rigs[0], n+100)
	for _, rig := range rigs {
		if c := rig.crashed(); c != "" {
			e.Fail("C02:process-crashed", c, -1, nil, nil, nil)
		}
	}
}

// reqEarlyAnswer: the backend answers while the client is still uploading (it has seen enough, e.g. to reject or to
// acknowledge) and reads the rest of the body afterwards.  The body it reads must still be the one the client sent.
func reqEarlyAnswer(e *vh.Env, be *rawBackend, rig *e2eRig, base int) {
	rounds := e.N(2, 12)
	for r := 0; r < rounds; r++ {
		if !e.Want(base + r) {
			continue
		}
		rng := e.Rng.Sub(base + r)
		cs := fmt.Sprintf("early-%d-%d", e.Seed, r)
		first := rng.Bytes(16384)
		var later [][]byte
		for k := 0; k < 60; k++ {
			later = append(later, rng.Bytes(1000))
		}
		c, err := net.Dial("tcp", fmt.Sprintf("127.0.0.1:%d", rig.proxyPort))
		if err != nil {
			continue
		}
		c.SetDeadline(time.Now().Add(30 * time.Second))
		fmt.Fprintf(c, "POST /early/%s HTTP/1.1\r\nHost: client-visible.example\r\nX-Case: %s\r\nX-Early-Answer: 1\r\nTransfer-Encoding: chunked\r\n\r\n", cs, cs)
		sent := append([]byte{}, first...)
		fmt.Fprintf(c, "%x\r\n%s\r\n", len(first), first)
		for _, ch := range later {
			time.Sleep(10 * time.Millisecond)
			if _, err := fmt.Fprintf(c, "%x\r\n%s\r\n", len(ch), ch); err != nil {
				break
			}
			sent = append(sent, ch...)
		}
		io.WriteString(c, "0\r\n\r\n")
		resp, rerr := http.ReadResponse(bufio.NewReader(c), nil)
		if rerr == nil {
			io.Copy(io.Discard, resp.Body)
		}
		c.Close()
		var got *recordedReq
		for k := 0; k < 300 && got == nil; k++ { // the backend records once it has read to the end
			be.mu.Lock()
			got = be.seen[cs]
			be.mu.Unlock()
			if got == nil {
				time.Sleep(10 * time.Millisecond)
			}
		}
		what := fmt.Sprintf("early-answer round %d: chunked POST of %d bytes uploaded over 0.6 s; the backend answered after the first 5 body bytes and then read on", r, len(sent))
		if got == nil {
			e.Fail("C02:body-altered:backend-answers-before-upload-ends", what+"; it never finished reading the request", base+r, nil, nil, nil)
		} else if !bytes.Equal(got.body, sent) {
			e.Fail("C02:body-altered:backend-answers-before-upload-ends", fmt.Sprintf("%s; it received %d body bytes (read error %v), first difference at offset %d", what, len(got.body), got.bodyErr, firstDiffDrv(got.body, sent)), base+r, nil, len(got.body), len(sent))
		}
		e.Eval(fmt.Sprintf("early-answer-%d", r), true)
		e.Count("backend-answers-before-upload-ends")
	}
}

// reqOverlap: request bodies that overlap in time inside one agent.  One client uploads a large body slowly (it
// pauses after the first part) while eight others send theirs; every body must arrive as sent.
func reqOverlap(e *vh.Env, be *rawBackend, rig *e2eRig, base int) {
	rounds := e.N(3, 30)
	for r := 0; r < rounds; r++ {
		if !e.Want(base+r) || e.FailedExcept("C02:user-agent-rewritten-by-request-write") {
			continue
		}
		rng := e.Rng.Sub(base + r)
		type sent struct {
			cs   string
			body []byte
		}
		var all []sent
		var mu sync.Mutex
		post := func(cs string, body []byte, pauseAfter int) {
			c, err := net.Dial("tcp", fmt.Sprintf("127.0.0.1:%d", rig.proxyPort))
			if err != nil {
				return
			}
			defer c.Close()
			c.SetDeadline(time.Now().Add(30 * time.Second))
			fmt.Fprintf(c, "POST /overlap/%s HTTP/1.1\r\nHost: client-visible.example\r\nX-Case: %s\r\nConnection: close\r\nContent-Length: %d\r\n\r\n", cs, cs, len(body))
			if pauseAfter > 0 && pauseAfter < len(body) {
				c.Write(body[:pauseAfter])
				time.Sleep(250 * time.Millisecond)
				c.Write(body[pauseAfter:])
			} else {
				c.Write(body)
			}
			resp, err := http.ReadResponse(bufio.NewReader(c), nil)
			if err == nil {
				io.Copy(io.Discard, resp.Body)
			}
			mu.Lock()
			all = append(all, sent{cs, body})
			mu.Unlock()
		}
		var wg sync.WaitGroup
		wg.Add(1)
		go func() {
			defer wg.Done()
			post(fmt.Sprintf("ov-%d-%d-slow", e.Seed, r), rng.Sub(0).Bytes(512<<10), 64<<10)
		}()
		time.Sleep(60 * time.Millisecond) // the slow upload has been handed to the agent and is being forwarded
		for k := 0; k < 8; k++ {
			wg.Add(1)
			go func(k int) {
				defer wg.Done()
				post(fmt.Sprintf("ov-%d-%d-%d", e.Seed, r, k), rng.Sub(1+k).Bytes(100<<10), 0)
			}(k)
		}
		wg.Wait()
		for _, sn := range all {
			be.mu.Lock()
			got := be.seen[sn.cs]
			be.mu.Unlock()
			if got == nil {
				e.Fail("C02:request-lost", fmt.Sprintf("overlap round %d: request %s (%d body bytes) never reached the backend", r, sn.cs, len(sn.body)), base+r, nil, nil, nil)
				continue
			}
			if got.bodyErr != nil || !bytes.Equal(got.body, sn.body) {
				e.Fail("C02:body-altered", fmt.Sprintf("overlap round %d (one slow 512 KiB upload, eight concurrent 100 KiB uploads through one agent): request %s sent %d body bytes (sha %x), the backend received %d (sha %x, read error %v)", r, sn.cs, len(sn.body), sha256.Sum256(sn.body), len(got.body), sha256.Sum256(got.body), got.bodyErr), base+r, nil, len(got.body), len(sn.body))
			}
		}
		e.Eval(fmt.Sprintf("overlap-%d", r), true)
		e.Count("overlapping-uploads")
	}
}
