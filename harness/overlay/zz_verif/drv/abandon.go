//go:build verif

package main

import (
	"fmt"
	"net"
	"strings"
	"sync"
	"time"

	"github.com/google/inverting-proxy/zz_verif/vh"
)

// relayAbandoned (C01): clients that give up while their request is at the backend.  The agent has already opened the
// upload of the response (the real agent opens it before the backend has answered), the client goes away, new clients
// arrive, and only then does the backend answer the abandoned requests.  The new clients must receive the responses
// to their own requests - whatever the proxy does with the state of the departed ones.
func relayAbandoned(e *vh.Env, base int) {
	rounds := e.N(2, 12)
	for r := 0; r < rounds; r++ {
		if !e.Want(base+r) || e.Failed() {
			continue
		}
		rig := startProxy()
		n := 16
		collect := func(want int, seen map[string]string) bool { // the driver plays the agent: list + fetch
			deadline := time.Now().Add(5 * time.Second)
			for len(seen) < want && time.Now().Before(deadline) {
				ids, _, err := agentList(rig.proxyURL, 300*time.Millisecond)
				if err != nil {
					continue
				}
				for _, id := range ids {
					if st, wire := agentFetch(rig.proxyURL, id); st == 200 {
						seen[id] = tokOfRequest(wire)
					}
				}
			}
			return len(seen) >= want
		}
		// 1. the clients that will give up
		for k := 0; k < n; k++ {
			go clientCall(rig.proxyURL, fmt.Sprintf("A-%d-%d", r, k), 900*time.Millisecond)
		}
		started := time.Now()
		first := map[string]string{}
		if !collect(n, first) {
			e.Fail("C01:request-lost", fmt.Sprintf("round %d: only %d of %d requests were listed", r, len(first), n), base+r, nil, nil, nil)
			rig.stop()
			continue
		}
		// 2. the agent opens the uploads for them (headers only; the backend has not answered yet)
		var ups []net.Conn
		var upToks []string
		for id, tok := range first {
			c, err := net.Dial("tcp", fmt.Sprintf("127.0.0.1:%d", rig.proxyPort))
			if err != nil {
				continue
			}
			fmt.Fprintf(c, "POST /agent/response HTTP/1.1\r\nHost: proxy\r\n%s: drv\r\n%s: %s\r\nTransfer-Encoding: chunked\r\n\r\n", hdrBackendID, hdrRequestID, id)
			ups = append(ups, c)
			upToks = append(upToks, tok)
		}
		// 3. the clients give up
		time.Sleep(time.Until(started.Add(1100 * time.Millisecond)))
		// 4. new clients
		var wg sync.WaitGroup
		results := make([]clientResult, n)
		for k := 0; k < n; k++ {
			wg.Add(1)
			go func(k int) {
				defer wg.Done()
				results[k] = clientCall(rig.proxyURL, fmt.Sprintf("C-%d-%d", r, k), 8*time.Second)
			}(k)
		}
		second := map[string]string{}
		okSecond := collect(n, second)
		// 5. the backend answers the abandoned requests: their uploads complete now
		for i, c := range ups {
			wire := echoResponse(upToks[i])
			fmt.Fprintf(c, "%x\r\n%s\r\n0\r\n\r\n", len(wire), wire)
		}
		time.Sleep(200 * time.Millisecond)
		// 6. and then the new ones
		for id, tok := range second {
			go agentUpload(rig.proxyURL, id, echoResponse(tok), 3*time.Second)
		}
		wg.Wait()
		for _, c := range ups {
			c.Close()
		}
		wrong := 0
		firstWrong := ""
		for k, res := range results {
			tok := fmt.Sprintf("C-%d-%d", r, k)
			if res.err == nil && (res.tok != tok || !strings.Contains(res.body, tok)) {
				wrong++
				if firstWrong == "" {
					firstWrong = fmt.Sprintf("client %s received status %d, header token %q, body %q", tok, res.status, res.tok, truncBytesDrv([]byte(res.body), 40))
				}
			}
			if res.err != nil && okSecond {
				e.Fail("C01:client-not-answered", fmt.Sprintf("round %d: client %s: %v", r, tok, res.err), base+r, nil, nil, nil)
			}
		}
		if wrong > 0 {
			e.Fail("C01:wrong-response", fmt.Sprintf("round %d: %d clients had given up while their requests were at the backend (the agent's uploads for them were already open); of the %d clients that came afterwards, %d received a response to another request; first: %s", r, n, n, wrong, firstWrong), base+r, nil, wrong, 0)
		}
		if c := rig.crashed(); c != "" {
			e.Fail("C01:process-crashed", c, base+r, nil, nil, nil)
		}
		rig.stop()
		e.Eval(fmt.Sprintf("abandoned-%d", r), true)
		e.Count("abandoned-then-new-clients")
	}
}

// relayBurst (C01): many clients arrive while no pending-list poll is outstanding (the agent was busy or briefly away);
// the next polls must report every one of them, and every client must get the response to its own request.
func relayBurst(e *vh.Env, base int) {
	if !e.Want(base) || e.Failed() {
		return
	}
	rig := startProxy()
	defer rig.stop()
	n := e.N(130, 400)
	results := make([]clientResult, n)
	var wg sync.WaitGroup
	for k := 0; k < n; k++ {
		wg.Add(1)
		go func(k int) {
			defer wg.Done()
			results[k] = clientCall(rig.proxyURL, fmt.Sprintf("B-%d", k), 10*time.Second)
		}(k)
	}
	time.Sleep(400 * time.Millisecond) // all of them are queued; nobody has polled yet
	seen := map[string]string{}
	var perPoll []int
	deadline := time.Now().Add(6 * time.Second)
	for len(seen) < n && time.Now().Before(deadline) {
		ids, _, err := agentList(rig.proxyURL, 500*time.Millisecond)
		if err != nil {
			continue
		}
		perPoll = append(perPoll, len(ids))
		for _, id := range ids {
			if st, wire := agentFetch(rig.proxyURL, id); st == 200 {
				tok := tokOfRequest(wire)
				seen[id] = tok
				go agentUpload(rig.proxyURL, id, echoResponse(tok), 3*time.Second)
			}
		}
	}
	wg.Wait()
	lost, wrong := 0, 0
	for k, res := range results {
		tok := fmt.Sprintf("B-%d", k)
		if res.err != nil {
			lost++
		} else if res.tok != tok {
			wrong++
		}
	}
	if lost > 0 || wrong > 0 || len(seen) != n {
		e.Fail("C01:client-not-answered", fmt.Sprintf("%d clients arrived while no poll was outstanding; the following polls listed %v IDs (%d in all); %d clients never received a response, %d received another request's", n, perPoll, len(seen), lost, wrong), base, nil, len(seen), n)
	}
	e.Eval("burst", true)
	e.Count("burst-before-first-poll")
}
