//go:build verif

package main

import (
	"bytes"
	"context"
	"fmt"
	"io"
	"net"
	"net/http"
	"net/http/httptest"
	"net/url"
	"os"
	"strings"
	"sync"
	"time"

	"github.com/google/inverting-proxy/utils/tcpbridge/connection"

	"github.com/google/inverting-proxy/zz_verif/vh"
)

func init() { suites["bridgelife"] = suiteBridgeLife }

func socketCount(pid int) int {
	ents, err := os.ReadDir(fmt.Sprintf("/proc/%d/fd", pid))
	if err != nil {
		return -1
	}
	n := 0
	for _, e := range ents {
		if l, err := os.Readlink(fmt.Sprintf("/proc/%d/fd/%s", pid, e.Name())); err == nil && strings.HasPrefix(l, "socket:") {
			n++
		}
	}
	return n
}

// readUntilEOF reads from c until EOF or deadline; returns the bytes and whether EOF was seen.
func readUntilEOF(c net.Conn, d time.Duration) ([]byte, bool) {
	var out []byte
	c.SetReadDeadline(time.Now().Add(d))
	buf := make([]byte, 32*1024)
	for {
		n, err := c.Read(buf)
		out = append(out, buf[:n]...)
		if err == io.EOF {
			return out, true
		}
		if err != nil {
			if ne, ok := err.(net.Error); ok && ne.Timeout() {
				return out, false
			}
			return out, true // reset etc. also ends the stream
		}
	}
}

// suiteBridgeLife: close propagation and release through the real bridge binaries.
func suiteBridgeLife(e *vh.Env) {
	e.Result.Rule = "bridged connections through the real frontend and backend binaries: {client closes, server closes} x {no data, data in flight in the same direction, in the opposite direction, both}; the far peer must receive all data sent before the close and then observe end-of-stream within 2 s; after both peers closed, the bridge processes' socket counts must return to the baseline; non-trivial = history with data in flight"
	rig := startRig(e)
	defer rig.stop()
	time.Sleep(3200 * time.Millisecond) // let the start-up probe connection of the rig drain into `accepted`
	base := []int{socketCount(rig.procs[0].Process.Pid), socketCount(rig.procs[1].Process.Pid)}
	type hist struct{ closer, data string }
	var hs []hist
	for _, c := range []string{"client", "server"} {
		for _, d := range []string{"none", "same", "opposite", "both"} {
			hs = append(hs, hist{c, d})
		}
	}
	reps := e.N(1, 8)
	var wg sync.WaitGroup
	var mu sync.Mutex
	var open []net.Conn
	idx := 0
	for rep := 0; rep < reps; rep++ {
		for _, h := range hs {
			idx++
			if !e.Want(idx) {
				continue
			}
			wg.Add(1)
			go func(idx int, h hist) {
				defer wg.Done()
				rng := e.Rng.Sub(idx)
				c, s, err := rig.dial()
				if err != nil {
					e.Fail("C16:bridge-connect", err.Error(), idx, nil, nil, nil)
					return
				}
				mu.Lock()
				open = append(open, c, s)
				mu.Unlock()
				closer, far := c, s
				if h.closer == "server" {
					closer, far = s, c
				}
				var same, opp []byte
				if h.data == "same" || h.data == "both" {
					same = rng.Bytes(1 + rng.Intn(200000))
				}
				if h.data == "opposite" || h.data == "both" {
					opp = rng.Bytes(1 + rng.Intn(200000))
				}
				var w2 sync.WaitGroup
				if opp != nil {
					w2.Add(1)
					go func() { defer w2.Done(); far.Write(opp) }()
				}
				if same != nil {
					closer.Write(same)
				}
				// a graceful close: FIN after the data.  (Closing a socket that still holds unread
				// incoming data makes the kernel send RST, which discards the peer's receive
				// queue - a TCP effect that is not the bridge's doing - so the closing peer keeps
				// draining what the other direction delivers until it is torn down.)
				if tc, ok := closer.(*net.TCPConn); ok {
					tc.CloseWrite()
				} else if pc, ok := closer.(*prefixConn); ok {
					pc.Conn.(*net.TCPConn).CloseWrite()
				}
				go func() { readUntilEOF(closer, 3*time.Second); closer.Close() }()
				got, eof := readUntilEOF(far, 2*time.Second)
				w2.Wait()
				if !bytes.Equal(got, same) {
					e.Fail("C16:data-before-close-lost:"+h.closer+"-close", fmt.Sprintf("%s closed after sending %d bytes (%s); the far peer received %d bytes", h.closer, len(same), h.data, len(got)), idx, nil, len(got), len(same))
				}
				if !eof {
					e.Fail("C16:eof-not-propagated:"+h.closer+"-close", fmt.Sprintf("%s closed (data in flight: %s); the far peer did not observe end-of-stream within 2 s", h.closer, h.data), idx, nil, nil, nil)
				}
				e.Eval(fmt.Sprintf("%d:%s:%s", idx, h.closer, h.data), h.data != "none")
				e.Count(h.closer + "-close/" + h.data)
				e.Sample(map[string]interface{}{"closer": h.closer, "data_in_flight": h.data, "bytes_before_close": len(same), "far_peer_received": len(got), "far_peer_saw_eof": eof})
			}(idx, h)
		}
		wg.Wait()
	}
	// now close every remaining endpoint: no bridged connection may outlive both of its endpoints
	mu.Lock()
	for _, c := range open {
		c.Close()
	}
	mu.Unlock()
	released := false
	var now []int
	for i := 0; i < 100; i++ {
		now = []int{socketCount(rig.procs[0].Process.Pid), socketCount(rig.procs[1].Process.Pid)}
		if now[0] <= base[0] && now[1] <= base[1] {
			released = true
			break
		}
		time.Sleep(30 * time.Millisecond)
	}
	e.Observe("sockets_baseline_backend_frontend", base)
	e.Observe("sockets_after_all_peers_closed", now)
	if !released && e.Case < 0 {
		e.Fail("C16:connections-leaked-after-both-closed", fmt.Sprintf("after every TCP peer had closed, the bridge processes still hold sockets: backend %d (baseline %d), frontend %d (baseline %d)", now[0], base[0], now[1], base[1]), -1, nil, now, base)
	}
	e.Eval("release", true)
	// the TCP server is gone when the bridge backend dials it: the bridge connection (a hijacked websocket that
	// net/http no longer owns) must still be ended and released by the handler
	for k := 0; k < e.N(3, 40); k++ {
		port := freePort() // nothing listens there
		var mu2 sync.Mutex
		var conns []net.Conn
		srv := httptest.NewUnstartedServer(connection.Handler(port, http.NotFoundHandler()))
		srv.Config.ConnState = func(c net.Conn, st http.ConnState) {
			if st == http.StateNew {
				mu2.Lock()
				conns = append(conns, c)
				mu2.Unlock()
			}
		}
		srv.Start()
		u, _ := url.Parse("ws" + strings.TrimPrefix(srv.URL, "http") + connection.StreamingPath)
		nc, err := connection.DialWebsocket(context.Background(), u, nil)
		if err == nil {
			wc := nc.(*connection.WebsocketNetConn)
			wc.Conn.SetReadDeadline(time.Now().Add(2 * time.Second))
			_, rerr := wc.Read(make([]byte, 16))
			if ne, ok := rerr.(net.Error); rerr == nil || (ok && ne.Timeout()) {
				e.Fail("C16:eof-not-propagated:server-unreachable", fmt.Sprintf("the TCP server behind the bridge refused the connection; the bridge connection was neither closed nor answered within 2 s (read: %v)", rerr), 1000+k, nil, nil, nil)
			}
			wc.Close()
		}
		// the handler's side of the connection must have been closed by the handler itself: writing to it fails
		time.Sleep(50 * time.Millisecond)
		mu2.Lock()
		for _, c := range conns {
			c.SetWriteDeadline(time.Now().Add(200 * time.Millisecond))
			if _, werr := c.Write([]byte{0x88, 0x00}); werr == nil {
				e.Fail("C16:connections-leaked-after-dial-failure", "the bridge backend kept the websocket of a connection whose TCP server could not be reached (the socket is still writable after the handler returned)", 1000+k, nil, nil, nil)
			}
			c.Close()
		}
		mu2.Unlock()
		srv.Close()
		e.Eval(fmt.Sprintf("dial-failure-%d", k), true)
		e.Count("server-unreachable-at-dial")
	}
	bridgeRefusedHandshake(e)
	if e.Thorough() && e.Want(3000) {
		bridgeStalledHandshake(e)
	}
}

// bridgeStalledHandshake (thorough tier, about 45 s): the peer accepts the TCP connection of the frontend's websocket
// dial, swallows the upgrade request and never answers.  The dial must be given up within bounded time, otherwise
// the bridged client never observes end-of-stream and the frontend keeps its sockets for ever.
func bridgeStalledHandshake(e *vh.Env) {
	ln, err := net.Listen("tcp", "127.0.0.1:0")
	if err != nil {
		return
	}
	defer ln.Close()
	go func() {
		for {
			c, err := ln.Accept()
			if err != nil {
				return
			}
			go io.Copy(io.Discard, c) // never answers
		}
	}()
	u, _ := url.Parse("ws://" + ln.Addr().String() + connection.StreamingPath)
	done := make(chan error, 1)
	start := time.Now()
	go func() {
		c, err := connection.DialWebsocket(context.Background(), u, nil)
		if err == nil {
			c.Close()
		}
		done <- err
	}()
	select {
	case err := <-done:
		e.Observe("stalled_handshake_given_up_after_s", int(time.Since(start).Seconds()))
		if err == nil {
			e.Fail("C16:stalled-handshake-succeeded", "DialWebsocket reported success against a peer that never answered", 3000, nil, nil, nil)
		}
	case <-time.After(60 * time.Second):
		e.Fail("C16:eof-not-propagated:stalled-handshake", "the bridge peer accepted the frontend's TCP connection and never answered the websocket handshake; the dial was still pending after 60 s, so the bridged client never observes end-of-stream and the frontend keeps its sockets", 3000, nil, nil, nil)
	}
	e.Eval("stalled-handshake", true)
	e.Count("stalled-handshake")
}

// bridgeRefusedHandshake: a client asks for a bridged connection with a websocket handshake the backend refuses
// (foreign Origin, unsupported version, missing key) and goes away.  Whatever the handler opened towards the TCP server
// for that client must be closed again: no connection outlives both of its endpoints.
func bridgeRefusedHandshake(e *vh.Env) {
	ln, err := net.Listen("tcp", "127.0.0.1:0")
	if err != nil {
		return
	}
	defer ln.Close()
	var mu sync.Mutex
	accepted, ended := 0, 0
	go func() {
		for {
			c, err := ln.Accept()
			if err != nil {
				return
			}
			mu.Lock()
			accepted++
			mu.Unlock()
			go func() {
				io.Copy(io.Discard, c)
				c.Close()
				mu.Lock()
				ended++
				mu.Unlock()
			}()
		}
	}()
	srv := httptest.NewServer(connection.Handler(ln.Addr().(*net.TCPAddr).Port, http.NotFoundHandler()))
	defer srv.Close()
	host := strings.TrimPrefix(srv.URL, "http://")
	kinds := []struct{ name, extra string }{
		{"foreign-origin", "Sec-WebSocket-Version: 13\r\nSec-WebSocket-Key: dGhlIHNhbXBsZSBub25jZQ==\r\nOrigin: http://elsewhere.example\r\n"},
		{"unsupported-version", "Sec-WebSocket-Version: 8\r\nSec-WebSocket-Key: dGhlIHNhbXBsZSBub25jZQ==\r\n"},
		{"missing-key", "Sec-WebSocket-Version: 13\r\n"},
	}
	n := e.N(6, 60)
	for k := 0; k < n; k++ {
		if !e.Want(2000 + k) {
			continue
		}
		kd := kinds[k%len(kinds)]
		c, err := net.Dial("tcp", host)
		if err != nil {
			continue
		}
		fmt.Fprintf(c, "GET %s HTTP/1.1\r\nHost: %s\r\nConnection: Upgrade\r\nUpgrade: websocket\r\n%s\r\n", connection.StreamingPath, host, kd.extra)
		c.SetReadDeadline(time.Now().Add(2 * time.Second))
		buf := make([]byte, 4096)
		m, _ := c.Read(buf)
		status := strings.SplitN(string(buf[:m]), "\r\n", 2)[0]
		c.Close()
		ok := false
		var a, d int
		for i := 0; i < 70; i++ {
			mu.Lock()
			a, d = accepted, ended
			mu.Unlock()
			if a == d {
				ok = true
				break
			}
			time.Sleep(30 * time.Millisecond)
		}
		if !ok {
			e.Fail("C16:connections-leaked-after-refused-handshake", fmt.Sprintf("handshake refused (%s, reply %q) and the client gone, yet %d of the %d connections the bridge opened to the TCP server are still open after 2 s", kd.name, status, a-d, a), 2000+k, nil, a-d, 0)
			break
		}
		e.Eval(fmt.Sprintf("refused-%d", k), true)
		e.Count("refused-handshake/" + kd.name)
	}
}
