//go:build verif

package main

import (
	"fmt"
	"net/http"
	"net/http/cookiejar"
	"net/http/httptest"
	"net/url"
	"os"
	"strings"
	"sync"
	"time"

	"golang.org/x/net/publicsuffix"

	"github.com/google/inverting-proxy/agent/metrics"
	"github.com/google/inverting-proxy/agent/sessions"
	"github.com/google/inverting-proxy/zz_verif/vh"
)

func init() {
	suites["sessions"] = suiteSessions
	suites["sessionsrace"] = suiteSessionsRace
}

const sessName = "sess"

func cookieList(cs []*http.Cookie) string {
	var parts []string
	for _, c := range cs {
		parts = append(parts, c.Name+"="+c.Value)
	}
	if len(parts) == 0 {
		return "-"
	}
	return strings.Join(parts, ",")
}

type sessStep struct {
	sid           string   // session cookie presented ("" = none)
	client        []string // other client cookies name=value (may include extra "sess=" duplicates)
	host          string
	path          string
	set           []string // backend Set-Cookie header values
	gotBack       []*http.Cookie
	gotSet        []*http.Cookie
	newSid        string
	interim       int // number of 103 responses before the final one
	interimCookie bool
	status        int
}

func suiteSessions(e *vh.Env) {
	e.OpenOps("sessions")
	e.Result.Rule = "histories of requests over several sessions, hosts and paths with backend Set-Cookie scripts (set, overwrite, expire, path/domain scoped, Secure, HttpOnly) and client-supplied extra cookies through the real SessionHandler; simple-cookie histories are also replayed on the Lean model (LRU capacity 2..4, up to 6 sessions, overlapping request/response steps); non-trivial = history in which a session is used again after another session stored cookies"
	n := e.N(150, 6000)
	for i := 0; i < n; i++ {
		if !e.Want(i) {
			continue
		}
		rng := e.Rng.Sub(i)
		simple := rng.Chance(60)
		capn := 2 + rng.Intn(3)
		nsess := 1 + rng.Intn(capn)
		if simple && rng.Chance(30) {
			nsess = capn + 1 + rng.Intn(2) // beyond the window: model correspondence only
		}
		cache := sessions.NewCache(sessName, time.Hour, capn, true)
		var cur *sessStep
		var gate chan struct{}
		backend := http.HandlerFunc(func(w http.ResponseWriter, r *http.Request) {
			st := cur
			st.gotBack = r.Cookies()
			if gate != nil {
				<-gate
			}
			// interim responses first (what httputil.ReverseProxy does with a backend's 103: copy its header, WriteHeader, clear)
			for k := 0; k < st.interim; k++ {
				w.Header().Set("Link", "</s.css>; rel=preload")
				if st.interimCookie {
					w.Header().Add("Set-Cookie", "early=1")
				}
				w.WriteHeader(103)
				for name := range w.Header() {
					delete(w.Header(), name)
				}
			}
			for _, sc := range st.set {
				w.Header().Add("Set-Cookie", sc)
			}
			w.Header().Set("X-Other", "kept")
			w.WriteHeader(st.status)
		})
		h := cache.SessionHandler(backend, nil)
		if simple {
			e.Op(fmt.Sprintf("new %d", capn), "ok")
		}
		var sids []string // known session ids (index = model session)
		refs := map[string]http.CookieJar{}
		reused := false
		overflow := false
		distinct := map[string]bool{}
		stored := map[string]bool{}
		steps := 3 + rng.Intn(14)
		for s := 0; s < steps; s++ {
			st := &sessStep{host: "app.example", path: "/"}
			if len(sids) > 0 && (len(sids) >= nsess || rng.Chance(70)) {
				st.sid = sids[rng.Intn(len(sids))]
			}
			for k := rng.Intn(3); k > 0; k-- {
				st.client = append(st.client, rng.Pick([]string{"a", "b", "theme"})+"="+rng.Pick([]string{"1", "2", "x"}))
			}
			if rng.Chance(8) {
				st.client = append(st.client, sessName+"=bogus")
			}
			if rng.Chance(10) {
				// a second cookie with the session cookie's name and no value (browsers send same-named cookies of
				// different paths or domains side by side); after the shuffle it may come before the real one
				st.client = append(st.client, sessName+"=")
			}
			if !simple {
				st.host = rng.Pick([]string{"app.example", "sub.app.example", "other.test"})
				st.path = rng.Pick([]string{"/", "/a", "/a/b", "/c"})
			}
			for k := rng.Intn(3); k > 0; k-- {
				name := rng.Pick([]string{"tok", "id", "pref"})
				val := rng.Pick([]string{"v1", "v2", "v3"})
				sc := name + "=" + val
				if !simple {
					switch rng.Intn(7) {
					case 0:
						sc += "; Path=/a"
					case 1:
						sc += "; Domain=app.example"
					case 2:
						sc += "; Max-Age=0"
					case 3:
						sc += "; Secure"
					case 4:
						sc += "; HttpOnly"
					case 5:
						sc += "; Expires=Thu, 01 Jan 1970 00:00:00 GMT"
					}
				} else if rng.Chance(15) {
					sc += "; Max-Age=0"
				}
				st.set = append(st.set, sc)
			}
			if !simple && rng.Chance(12) {
				// values Go's cookie parser rejects (browsers accept them): possibly the only Set-Cookie of the response
				bad := rng.Pick([]string{`prefs={"theme":"dark"}; Path=/`, `bad name=1; Path=/`, `back\\slash=a\\b`, `=novalue`, `sp ace`})
				if rng.Chance(60) {
					st.set = []string{bad}
				} else {
					st.set = append(st.set, bad)
				}
			}
			st.status = 200
			if !simple && rng.Chance(12) {
				st.interim = 1 + rng.Intn(2)
				st.interimCookie = rng.Chance(40)
				st.status = []int{200, 404, 302}[rng.Intn(3)]
			}
			req := httptest.NewRequest("GET", "http://"+st.host+st.path, nil)
			req.Host = st.host
			var ck []string
			if st.sid != "" {
				ck = append(ck, sessName+"="+st.sid)
			}
			ck = append(ck, st.client...)
			// shuffle so that the session cookie is not always first
			for a := len(ck) - 1; a > 0; a-- {
				b := rng.Intn(a + 1)
				ck[a], ck[b] = ck[b], ck[a]
			}
			if len(ck) > 0 {
				req.Header.Set("Cookie", strings.Join(ck, "; "))
			}
			// the session the handler will see: value of the first cookie named sess
			effSid := ""
			for _, c := range ck {
				if strings.HasPrefix(c, sessName+"=") {
					effSid = strings.TrimPrefix(c, sessName+"=")
					break
				}
			}
			cur = st
			rw := &interimRecorder{ResponseRecorder: httptest.NewRecorder()}
			h.ServeHTTP(rw, req)
			st.gotSet = (&http.Response{Header: rw.Header()}).Cookies()
			for _, ih := range rw.interimHdr {
				for _, raw := range ih["Set-Cookie"] {
					if !strings.HasPrefix(raw, sessName+"=") {
						e.Fail("C10:backend-cookie-leaked", fmt.Sprintf("case %d step %d: an interim response carried the backend's Set-Cookie %q to the client", i, s, raw), i, nil, nil, nil)
					}
				}
			}
			if st.interim > 0 {
				e.Count("interim")
			}
			if os.Getenv("VERIF_DEBUG") != "" {
				fmt.Fprintf(os.Stderr, "cap=%d nsess=%d step=%d sid=%q eff=%q host=%s path=%s cookies=%v set=%v -> backend=%s setcookie=%s\n", capn, nsess, s, st.sid, effSid, st.host, st.path, ck, st.set, cookieList(st.gotBack), cookieList(st.gotSet))
			}
			// ---- oracle (property) ----
			u := &url.URL{Scheme: "https", Host: st.host, Path: st.path}
			var want []*http.Cookie
			for _, c := range ck {
				if !strings.HasPrefix(c, sessName+"=") {
					kv := strings.SplitN(c, "=", 2)
					want = append(want, &http.Cookie{Name: kv[0], Value: kv[1]})
				}
			}
			// every distinct session ID presented or issued occupies an LRU slot (a bogus ID too)
			if effSid != "" {
				distinct[effSid] = true
			}
			inWindow := len(distinct) <= capn && (effSid != "" || len(distinct) < capn)
			if !inWindow {
				overflow = true
			}
			inWindow = !overflow
			if ref, ok := refs[effSid]; ok && inWindow {
				want = append(want, ref.Cookies(u)...)
				if stored[effSid] {
					reused = true
				}
			}
			if inWindow && cookieList(st.gotBack) != cookieList(want) {
				e.Fail("C10:backend-cookies-wrong", fmt.Sprintf("case %d step %d: backend saw %s, a compliant jar for this session plus the client's other cookies gives %s", i, s, cookieList(st.gotBack), cookieList(want)), i, nil, cookieList(st.gotBack), cookieList(want))
			}
			for _, c := range st.gotBack {
				if c.Name == sessName {
					e.Fail("C10:session-cookie-forwarded", fmt.Sprintf("case %d: the session cookie reached the backend", i), i, nil, nil, nil)
				}
			}
			for _, raw := range rw.Header()["Set-Cookie"] {
				if !strings.HasPrefix(raw, sessName+"=") {
					e.Fail("C10:backend-cookie-leaked", fmt.Sprintf("case %d: client received the backend's Set-Cookie %q (backend sent %q)", i, raw, st.set), i, nil, raw, nil)
				}
			}
			issued := ""
			for _, c := range st.gotSet {
				if c.Name != sessName {
					e.Fail("C10:backend-cookie-leaked", fmt.Sprintf("case %d: client received Set-Cookie %s", i, c.String()), i, nil, nil, nil)
					continue
				}
				issued = c.Value
				if !c.HttpOnly || c.Path != "/" || c.Secure || c.Expires.Before(time.Now().Add(59*time.Minute)) || c.Expires.After(time.Now().Add(61*time.Minute)) {
					e.Fail("C10:session-cookie-attrs", fmt.Sprintf("case %d: %s", i, c.String()), i, nil, nil, nil)
				}
			}
			if (issued != "") != (effSid == "") {
				e.Fail("C10:session-cookie-issuance", fmt.Sprintf("case %d: presented session %q, issued %q", i, effSid, issued), i, nil, nil, nil)
			}
			if rw.Header().Get("X-Other") != "kept" {
				e.Fail("C10:other-header-lost", "X-Other", i, nil, nil, nil)
			}
			key := effSid
			if issued != "" {
				key = issued
				sids = append(sids, issued)
				distinct[issued] = true
			}
			if _, ok := refs[key]; !ok {
				refs[key], _ = cookiejar.New(&cookiejar.Options{PublicSuffixList: publicsuffix.List})
			}
			if pc := (&http.Response{Header: http.Header{"Set-Cookie": st.set}}).Cookies(); len(pc) > 0 {
				refs[key].SetCookies(u, pc)
				stored[key] = true
			}
			// ---- correspondence (simple histories) ----
			if simple {
				hx := func(s string) string { return vh.Hex([]byte(s)) }
				e.Op("req "+encCookies(ck), "sid="+hx(effSid)+" backend="+cookieList(st.gotBack))
				iss := "0"
				if issued != "" {
					iss = "1"
				}
				setl := "-"
				if len(st.set) > 0 {
					setl = strings.ReplaceAll(strings.Join(st.set, ","), "; Max-Age=0", "!")
				}
				e.Op("resp "+hx(effSid)+" "+hx(issued)+" "+setl, "issued="+iss)
			}
			e.Count(fmt.Sprintf("simple=%v inWindow=%v", simple, inWindow))
		}
		e.Eval(fmt.Sprint(i), reused)
		if i < 3 {
			e.Sample(map[string]interface{}{"case": i, "cap": capn, "sessions": nsess, "steps": steps, "simple": simple})
		}
	}
	sessionsInFlightEviction(e, n)
	sessionsTrailerCookie(e, n+1000)
}

// sessionsInFlightEviction: a response that arrives after its session was pushed out of the cache and then used
// again must store its cookies in the session's current jar (the session is among the most recently used ones).
func sessionsInFlightEviction(e *vh.Env, base int) {
	for k := 0; k < e.N(3, 40); k++ {
		if !e.Want(base + k) {
			continue
		}
		capn := 2 + k%2
		cache := sessions.NewCache(sessName, time.Hour, capn, true)
		release := make(chan struct{})
		var mu sync.Mutex
		seen := map[string]string{} // path -> Cookie header the backend saw
		backend := http.HandlerFunc(func(w http.ResponseWriter, r *http.Request) {
			mu.Lock()
			seen[r.URL.Path] = r.Header.Get("Cookie")
			mu.Unlock()
			if r.URL.Path == "/slow" {
				<-release
				w.Header().Add("Set-Cookie", "k=v")
			}
			w.WriteHeader(200)
		})
		h := cache.SessionHandler(backend, nil)
		call := func(path, sid string) string {
			req := httptest.NewRequest("GET", "http://app.example"+path, nil)
			if sid != "" {
				req.Header.Set("Cookie", sessName+"="+sid)
			}
			rw := httptest.NewRecorder()
			h.ServeHTTP(rw, req)
			for _, c := range (&http.Response{Header: rw.Header()}).Cookies() {
				if c.Name == sessName {
					return c.Value
				}
			}
			return sid
		}
		a := call("/first", "")
		slowDone := make(chan struct{})
		go func() { call("/slow", a); close(slowDone) }()
		for i := 0; i < 500; i++ {
			mu.Lock()
			_, at := seen["/slow"]
			mu.Unlock()
			if at {
				break
			}
			time.Sleep(time.Millisecond)
		}
		for j := 0; j < capn; j++ { // enough other sessions to push A out
			call(fmt.Sprintf("/other%d", j), "")
		}
		call("/again", a) // A is used again: it is the most recently used session now
		close(release)
		<-slowDone
		call("/check", a)
		mu.Lock()
		got := seen["/check"]
		mu.Unlock()
		if got != "k=v" {
			e.Fail("C10:backend-cookies-wrong", fmt.Sprintf("cache limit %d: session A had a request in flight, %d other sessions were created, A was used again, then the held response set cookie k=v; A's next request reached the backend with Cookie %q (a compliant jar for that session holds k=v)", capn, capn, got), base+k, nil, got, "k=v")
		}
		e.Eval(fmt.Sprintf("inflight-eviction-%d", k), true)
		e.Count("in-flight-eviction")
	}
}

// sessionsTrailerCookie: a backend that sends Set-Cookie as an HTTP trailer (declared with `Trailer: Set-Cookie`, set
// after the body - which is how httputil.ReverseProxy hands a backend's trailers to its ResponseWriter).
func sessionsTrailerCookie(e *vh.Env, base int) {
	if !e.Want(base) {
		return
	}
	cache := sessions.NewCache(sessName, time.Hour, 4, true)
	backend := http.HandlerFunc(func(w http.ResponseWriter, r *http.Request) {
		w.Header().Set("Trailer", "Set-Cookie")
		w.WriteHeader(200)
		w.Write([]byte("body"))
		w.Header().Set("Set-Cookie", "leak=1; Path=/")
	})
	h := cache.SessionHandler(backend, nil)
	rw := httptest.NewRecorder()
	h.ServeHTTP(rw, httptest.NewRequest("GET", "http://app.example/", nil))
	res := rw.Result()
	for _, raw := range res.Trailer["Set-Cookie"] {
		if !strings.HasPrefix(raw, sessName+"=") {
			e.Fail("C10:backend-cookie-leaked:as-trailer", fmt.Sprintf("the backend sent Set-Cookie %q as a declared HTTP trailer; it reached the client as a trailer", raw), base, nil, raw, nil)
		}
	}
	e.Eval("trailer-set-cookie", true)
	e.Count("trailer-set-cookie")
}

// interimRecorder: a ResponseRecorder that, like a real server connection, lets 1xx responses (other than 101)
// pass without consuming the final header.
type interimRecorder struct {
	*httptest.ResponseRecorder
	interimHdr []http.Header
}

func (r *interimRecorder) WriteHeader(code int) {
	if code >= 100 && code <= 199 && code != 101 {
		r.interimHdr = append(r.interimHdr, r.Header().Clone())
		return
	}
	r.ResponseRecorder.WriteHeader(code)
}

func encCookies(ck []string) string {
	if len(ck) == 0 {
		return "-"
	}
	return strings.Join(ck, ",")
}

// suiteSessionsRace: concurrent requests in the same and in different sessions (tie R and the no-crash clause).
func suiteSessionsRace(e *vh.Env) {
	e.Result.Rule = "32 goroutines x requests in the same and in different sessions through one SessionHandler with a small LRU; oracle: every request answered, session cookie issued iff none presented, a session never sees another session's cookie value; run under the race detector; non-trivial = every goroutine batch"
	cache := sessions.NewCache(sessName, time.Hour, 8, true)
	var mu sync.Mutex
	crossed := 0
	backend := http.HandlerFunc(func(w http.ResponseWriter, r *http.Request) {
		owner := r.Header.Get("X-Owner")
		for _, c := range r.Cookies() {
			if c.Name == "owner" && owner != "" && c.Value != owner {
				mu.Lock()
				crossed++
				mu.Unlock()
			}
		}
		if owner != "" {
			w.Header().Add("Set-Cookie", "owner="+owner)
		}
		if r.Header.Get("X-Implicit") != "" {
			w.Write([]byte("implicit 200")) // no WriteHeader: the session writer supplies the status and counts it
			return
		}
		w.WriteHeader(200)
	})
	// with response-code metrics on: a real MetricHandler (its monitoring client discards the data), emitting
	// concurrently as its ticker would once per sample period
	mh, err := metrics.VerifNewHandler()
	if err != nil {
		panic(err)
	}
	stopEmit := make(chan struct{})
	go func() {
		for {
			select {
			case <-stopEmit:
				return
			default:
				metrics.VerifEmit(mh)
				time.Sleep(200 * time.Microsecond)
			}
		}
	}()
	defer close(stopEmit)
	h := cache.SessionHandler(backend, mh)
	workers, per := 32, e.N(300, 3000)
	var wg sync.WaitGroup
	for g := 0; g < workers; g++ {
		wg.Add(1)
		go func(g int) {
			defer wg.Done()
			sid := ""
			owner := fmt.Sprintf("o%d", g%6)
			for k := 0; k < per; k++ {
				req := httptest.NewRequest("GET", "http://app.example/", nil)
				req.Host = "app.example"
				req.Header.Set("X-Owner", owner)
				if k%3 == 1 {
					req.Header.Set("X-Implicit", "1")
				}
				if sid != "" {
					req.Header.Set("Cookie", sessName+"="+sid)
				}
				rw := httptest.NewRecorder()
				h.ServeHTTP(rw, req)
				cs := (&http.Response{Header: rw.Header()}).Cookies()
				if sid == "" {
					if len(cs) != 1 || cs[0].Name != sessName {
						e.Fail("C10:session-cookie-issuance", fmt.Sprintf("goroutine %d: no session cookie issued: %v", g, cs), g, nil, nil, nil)
						return
					}
					sid = cs[0].Value
				} else if len(cs) != 0 {
					e.Fail("C10:backend-cookie-leaked", fmt.Sprintf("goroutine %d: %v", g, cs), g, nil, nil, nil)
				}
				e.Eval(fmt.Sprintf("%d/%d", g, k), true)
			}
		}(g)
	}
	wg.Wait()
	if crossed > 0 {
		e.Fail("C10:sessions-mixed", fmt.Sprintf("%d requests carried another session's cookie", crossed), -1, nil, nil, nil)
	}
	e.Sample(map[string]interface{}{"goroutines": workers, "requests_each": per})
}
