//go:build verif

package main

import (
	"fmt"
	"strings"

	"github.com/google/inverting-proxy/app/store"
	"github.com/google/inverting-proxy/app/types"
	"github.com/google/inverting-proxy/zz_verif/vh"
)

func init() { suites["route"] = suiteRoute }

// bruteMostSpecific is the oracle, written from the property sentence: the registered
// backends owning a longest prefix of the path (the property does not say which of several
// equally specific backends wins, so any of them is accepted).
func bruteMostSpecific(path string, bs []*types.Backend) (map[string]bool, bool) {
	bestLen := -1
	for _, b := range bs {
		for _, p := range b.PathPrefixes {
			if strings.HasPrefix(path, p) && len(p) > bestLen {
				bestLen = len(p)
			}
		}
	}
	best := map[string]bool{}
	for _, b := range bs {
		for _, p := range b.PathPrefixes {
			if strings.HasPrefix(path, p) && len(p) == bestLen {
				best[b.BackendID] = true
			}
		}
	}
	return best, bestLen >= 0
}

func encBackends(bs []*types.Backend) string {
	if len(bs) == 0 {
		return "-"
	}
	var parts []string
	for _, b := range bs {
		var ps []string
		for _, p := range b.PathPrefixes {
			ps = append(ps, vh.Hex([]byte(p)))
		}
		pl := strings.Join(ps, ",")
		if pl == "" {
			pl = "."
		}
		parts = append(parts, vh.Hex([]byte(b.BackendID))+":"+pl)
	}
	return strings.Join(parts, ";")
}

func routeCase(e *vh.Env, idx int, path string, bs []*types.Backend) {
	got, err := store.VerifMostSpecificMatchingBackend(path, bs)
	want, found := bruteMostSpecific(path, bs)
	obs := "none"
	if err == nil {
		obs = vh.Hex([]byte(got))
	}
	e.Op("ms "+vh.Hex([]byte(path))+" "+encBackends(bs), obs)
	nontrivial := false
	matches := 0
	for _, b := range bs {
		for _, p := range b.PathPrefixes {
			if strings.HasPrefix(path, p) {
				matches++
			}
		}
	}
	nontrivial = matches >= 2
	e.Eval(path+"|"+encBackends(bs), nontrivial)
	e.Count(fmt.Sprintf("matches=%d", min3(matches)))
	if (err == nil) != found || (found && !want[got]) {
		e.Fail("C18:not-most-specific", fmt.Sprintf("path %q backends %s: got %q (err=%v), want one of %v (found=%v)", path, encBackends(bs), got, err, want, found), idx, nil, got, fmt.Sprint(want))
	}
}

func min3(n int) int {
	if n > 3 {
		return 3
	}
	return n
}

func suiteRoute(e *vh.Env) {
	e.OpenOps("route")
	e.Result.Rule = "mostSpecificMatchingBackend: bounded-exhaustive over alphabet {/,a,b}: paths up to length 3, up to 2 backends x up to 2 prefixes of length <= 2 (quick: sampled), plus random larger cases; non-trivial = at least two matching (backend, prefix) pairs"
	alpha := []string{"/", "a", "b"}
	var words []string
	words = append(words, "")
	frontier := []string{""}
	for l := 0; l < 3; l++ {
		var next []string
		for _, w := range frontier {
			for _, c := range alpha {
				next = append(next, w+c)
			}
		}
		words = append(words, next...)
		frontier = next
	}
	var prefixes []string
	for _, w := range words {
		if len(w) <= 2 {
			prefixes = append(prefixes, w)
		}
	}
	idx := 0
	// exhaustive part: 2 backends, each with 1..2 prefixes
	var plists [][]string
	for _, p := range prefixes {
		plists = append(plists, []string{p})
	}
	for _, p := range prefixes {
		for _, q := range prefixes {
			plists = append(plists, []string{p, q})
		}
	}
	stride := 1
	if !e.Thorough() {
		stride = 97
	}
	k := 0
	for _, path := range words {
		for i, pl1 := range plists {
			for j, pl2 := range plists {
				k++
				if (k+i+j)%stride != 0 {
					continue
				}
				idx++
				if !e.Want(idx) {
					continue
				}
				routeCase(e, idx, path, []*types.Backend{{BackendID: "B1", PathPrefixes: pl1}, {BackendID: "B2", PathPrefixes: pl2}})
			}
		}
	}
	// random larger cases
	for i := 0; i < e.N(500, 20000); i++ {
		idx++
		if !e.Want(idx) {
			continue
		}
		rng := e.Rng.Sub(idx)
		word := func(max int) string {
			n := rng.Intn(max + 1)
			var sb strings.Builder
			for k := 0; k < n; k++ {
				sb.WriteString(rng.Pick([]string{"/", "a", "b", "/", "api", "x"}))
			}
			return sb.String()
		}
		path := "/" + word(6)
		nb := rng.Intn(5)
		var bs []*types.Backend
		for b := 0; b < nb; b++ {
			np := rng.Intn(4)
			var ps []string
			for p := 0; p < np; p++ {
				if rng.Chance(50) && len(path) > 0 {
					ps = append(ps, path[:rng.Intn(len(path)+1)])
				} else {
					ps = append(ps, "/"+word(3))
				}
			}
			bs = append(bs, &types.Backend{BackendID: fmt.Sprintf("b%d", b), PathPrefixes: ps})
		}
		routeCase(e, idx, path, bs)
		if i < 3 {
			e.Sample(map[string]interface{}{"path": path, "backends": encBackends(bs)})
		}
	}
}
