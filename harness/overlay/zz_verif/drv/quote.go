//go:build verif

package main

import (
	"fmt"

	"github.com/google/inverting-proxy/zz_verif/vh"
)

func init() { suites["quote"] = suiteQuote }

// suiteQuote: Go's %q / two-verb Sprintf on byte strings against Model/Keys (the memcache and
// datastore key builders of the App Engine proxy).  Input alphabet: every ASCII byte, plus
// bytes that can never begin or continue a valid UTF-8 rune at that position (0x80-0xBF alone
// after ASCII, 0xF8-0xFF), which is the part of %q the model claims to be exact for.
func suiteQuote(e *vh.Env) {
	e.OpenOps("quote")
	e.Result.Rule = "fmt.Sprintf(\"%q\") and the key formats r:%q:%q, resp:%q:%q, r:%s:%s on random byte strings over ASCII (all 128 values, weighted towards quote, backslash, colon, control bytes) and never-valid UTF-8 bytes; non-trivial = input containing a byte that %q escapes"
	n := e.N(600, 30000)
	gen := func(rng *vh.Rng) []byte {
		l := rng.Intn(12)
		b := make([]byte, 0, l)
		for k := 0; k < l; k++ {
			switch rng.Intn(6) {
			case 0:
				b = append(b, []byte{'"', '\\', ':', 'x', 'n', '0'}[rng.Intn(6)])
			case 1:
				b = append(b, byte(rng.Intn(32)))
			case 2:
				b = append(b, []byte{0x7f, 0x80, 0xbf, 0xf8, 0xff, 0xa0}[rng.Intn(6)])
			default:
				b = append(b, byte(32+rng.Intn(95)))
			}
		}
		// a continuation byte directly after a lead byte could form a valid rune: there are no lead bytes (0xC2-0xF4) in the alphabet
		return b
	}
	for i := 0; i < n; i++ {
		if !e.Want(i) {
			continue
		}
		rng := e.Rng.Sub(i)
		a, b := gen(rng), gen(rng)
		esc := false
		for _, c := range a {
			if c < 32 || c > 126 || c == '"' || c == '\\' {
				esc = true
			}
		}
		e.Op("q "+vh.Hex(a), vh.Hex([]byte(fmt.Sprintf("%q", string(a)))))
		f := []string{"r:%q:%q", "resp:%q:%q", "r:%s:%s"}[rng.Intn(3)]
		e.Op(fmt.Sprintf("key %s %s %s", vh.Hex([]byte(f)), vh.Hex(a), vh.Hex(b)), vh.Hex([]byte(fmt.Sprintf(f, string(a), string(b)))))
		e.Eval(vh.Hex(a), esc)
		e.Count(fmt.Sprintf("escaped:%v", esc))
		if i < 3 {
			e.Sample(map[string]interface{}{"input": fmt.Sprintf("%q", a), "format": f})
		}
	}
}
