//go:build verif

package main

import (
	"fmt"
	"io"
	"net/http"
	"net/http/httptest"
	"sort"
	"strings"
	"sync"
	"time"

	"github.com/google/inverting-proxy/zz_verif/vh"
)

func init() {
	suites["relay"] = suiteRelay
	suites["relaysoak"] = suiteRelaySoak
	suites["handoff"] = suiteHandoff
}

// suiteRelay: sequentialised histories of arrive / fetch / upload (incl. duplicate uploads,
// unknown IDs, answers out of order) against the real proxy binary; the driver plays clients
// and the agent.  Observation: which client receives which token.
func suiteRelay(e *vh.Env) {
	e.OpenOps("relay")
	e.Result.Rule = "histories over {arrive c, fetch w c, upload w, fetch/upload of unknown IDs, duplicate upload} with up to 6 clients against the real stand-alone proxy; responses uploaded in orders different from arrival; non-trivial = history with at least two clients in flight answered out of arrival order"
	rig := startProxy()
	defer rig.stop()
	n := e.N(40, 1500)
	for i := 0; i < n; i++ {
		if !e.Want(i) {
			continue
		}
		rng := e.Rng.Sub(i)
		e.Op("new", "ok")
		type cl struct {
			tok  string
			rid  string // real request ID
			mrid int    // model request ID (arrival index)
			done chan clientResult
			got  bool
		}
		var clients []*cl
		fetched := map[int]*cl{} // worker -> client whose request it holds
		fetchedTok := map[int]string{}
		arrivals := 0
		outOfOrder := false
		lastDelivered := -1
		steps := 4 + rng.Intn(16)
		for s := 0; s < steps; s++ {
			switch k := rng.Intn(10); {
			case k < 3 && len(clients) < 6:
				c := &cl{tok: fmt.Sprintf("t%d-%d", i, len(clients)), mrid: arrivals, done: make(chan clientResult, 1)}
				arrivals++
				go func() { c.done <- clientCall(rig.proxyURL, c.tok, 20*time.Second) }()
				ids, code, err := agentList(rig.proxyURL, 10*time.Second)
				if err != nil || code != 200 || len(ids) != 1 {
					e.Fail("C01:list-failed", fmt.Sprintf("case %d: list after one arrival: ids=%v code=%d err=%v", i, ids, code, err), i, nil, nil, nil)
					return
				}
				c.rid = ids[0]
				clients = append(clients, c)
				e.Op(fmt.Sprintf("arrive %d", len(clients)-1), "ok")
			case k < 6 && len(clients) > 0:
				w := rng.Intn(4)
				ci := rng.Intn(len(clients))
				c := clients[ci]
				code, wire := agentFetch(rig.proxyURL, c.rid)
				tok := tokOfRequest(wire)
				obs := fmt.Sprintf("%d tok=%s", code, tok)
				if code == 200 {
					fetched[w] = c
					fetchedTok[w] = tok
					if tok != c.tok {
						e.Fail("C01:fetch-returned-other-request", fmt.Sprintf("case %d: fetch under the ID of client %s returned the request of %s", i, c.tok, tok), i, nil, tok, c.tok)
					}
					obs = fmt.Sprintf("200 tok=%d", indexOfTok(tok, i))
				}
				e.Op(fmt.Sprintf("fetch %d %d", w, c.mrid), obs)
			case k < 9 && len(fetched) > 0:
				var ws []int
				for w := range fetched {
					ws = append(ws, w)
				}
				sort.Ints(ws)
				w := ws[rng.Intn(len(ws))]
				c := fetched[w]
				tok := fetchedTok[w]
				delete(fetched, w)
				if c.got && !rng.Chance(25) {
					e.Op(fmt.Sprintf("drop %d", w), "ok")
					continue
				}
				if c.got {
					// duplicate upload: nobody is waiting any more; the call must not be answered 200
					code := agentUpload(rig.proxyURL, c.rid, echoResponse(tok), 120*time.Millisecond)
					obs := "blocked"
					if code != -2 {
						obs = fmt.Sprint(code)
					}
					e.Op(fmt.Sprintf("upload %d", w), obs)
					e.Count("duplicate-upload")
					continue
				}
				code := agentUpload(rig.proxyURL, c.rid, echoResponse(tok), 10*time.Second)
				var res clientResult
				select {
				case res = <-c.done:
				case <-time.After(10 * time.Second):
					e.Fail("C01:client-not-answered", fmt.Sprintf("case %d: client %s got no response after its upload returned %d", i, c.tok, code), i, nil, nil, nil)
					continue
				}
				c.got = true
				if c.mrid < lastDelivered {
					outOfOrder = true
				}
				lastDelivered = c.mrid
				e.Op(fmt.Sprintf("upload %d", w), fmt.Sprintf("%d delivered %d tok=%d", code, c.mrid, indexOfTok(res.tok, i)))
				if res.err != nil || res.status != 200 || res.tok != c.tok || res.body != "resp-"+c.tok {
					e.Fail("C01:wrong-response", fmt.Sprintf("case %d: client %s received status %d tok %q body %q err %v", i, c.tok, res.status, res.tok, res.body, res.err), i, nil, res.tok, c.tok)
				}
			default:
				code, _ := agentFetch(rig.proxyURL, "no-such-id")
				e.Op("fetch 9 999", fmt.Sprintf("%d tok=", code))
				e.Count("unknown-id")
			}
		}
		// finish: answer every waiting client (so that the proxy's handlers return)
		for _, c := range clients {
			if !c.got {
				agentUpload(rig.proxyURL, c.rid, echoResponse(c.tok), 10*time.Second)
				res := <-c.done
				if res.tok != c.tok {
					e.Fail("C01:wrong-response", fmt.Sprintf("case %d: client %s received tok %q at the end", i, c.tok, res.tok), i, nil, res.tok, c.tok)
				}
			}
		}
		e.Eval(fmt.Sprint(i), outOfOrder)
		if i < 2 {
			e.Sample(map[string]interface{}{"case": i, "clients": len(clients), "steps": steps, "answered_out_of_order": outOfOrder})
		}
	}
	if c := rig.crashed(); c != "" {
		e.Fail("C01:proxy-crashed", c, -1, nil, nil, nil)
	}
}

func indexOfTok(tok string, caseNo int) int {
	var a, b int
	if n, _ := fmt.Sscanf(tok, "t%d-%d", &a, &b); n == 2 && a == caseNo {
		return b
	}
	return -1
}

// suiteRelaySoak: many concurrent token-echo clients through the real proxy and the real
// agent (child process running pollForNewRequests + handler chain) to an echo backend with
// random latency; every client must receive its own token.
func suiteRelaySoak(e *vh.Env) {
	e.Result.Rule = "N concurrent clients (64 at a time) x random body sizes and backend latencies through real proxy binary + real agent code + echo backend; each client checks status, header token and body token; duplicate request IDs are detected through the backend's view; non-trivial = every request issued while at least 8 others are in flight"
	backend := httptest.NewServer(http.HandlerFunc(func(w http.ResponseWriter, r *http.Request) {
		b, _ := io.ReadAll(r.Body)
		if d := r.Header.Get("X-Delay"); d != "" {
			var ms int
			fmt.Sscan(d, &ms)
			time.Sleep(time.Duration(ms) * time.Millisecond)
		}
		w.Header().Set("X-Tok", r.Header.Get("X-Tok"))
		w.WriteHeader(200)
		w.Write(b)
	}))
	defer backend.Close()
	rig := startProxy()
	defer rig.stop()
	rig.startAgent(strings.TrimPrefix(backend.URL, "http://"))
	total := e.N(1500, 30000)
	par := 64
	sem := make(chan struct{}, par)
	var wg sync.WaitGroup
	var mu sync.Mutex
	wrong, failed := 0, 0
	for k := 0; k < total; k++ {
		if e.Failed() {
			break
		}
		wg.Add(1)
		sem <- struct{}{}
		go func(k int) {
			defer wg.Done()
			defer func() { <-sem }()
			rng := e.Rng.Sub(k)
			tok := fmt.Sprintf("soak-%d-%d", e.Seed, k)
			size := rng.Intn(2000)
			if rng.Chance(3) {
				size = 100000 + rng.Intn(400000)
			}
			body := tok + "|" + strings.Repeat("x", size)
			req, _ := http.NewRequest("POST", rig.proxyURL+"soak", strings.NewReader(body))
			req.Header.Set("X-Tok", tok)
			if rng.Chance(30) {
				req.Header.Set("X-Delay", fmt.Sprint(rng.Intn(30)))
			}
			c := &http.Client{Transport: &http.Transport{DisableKeepAlives: true}, Timeout: 60 * time.Second}
			resp, err := c.Do(req)
			if err != nil {
				mu.Lock()
				failed++
				mu.Unlock()
				e.Fail("C01:client-not-answered", fmt.Sprintf("request %s: %v", tok, err), k, nil, nil, nil)
				return
			}
			b, _ := io.ReadAll(resp.Body)
			resp.Body.Close()
			if resp.StatusCode != 200 || resp.Header.Get("X-Tok") != tok || string(b) != body {
				mu.Lock()
				wrong++
				mu.Unlock()
				got := string(b)
				if len(got) > 40 {
					got = got[:40]
				}
				e.Fail("C01:wrong-response", fmt.Sprintf("client %s received status %d, header token %q, body starting %q", tok, resp.StatusCode, resp.Header.Get("X-Tok"), got), k, nil, resp.Header.Get("X-Tok"), tok)
			}
			e.Eval(tok, true)
		}(k)
	}
	wg.Wait()
	e.Observe("wrong_responses", wrong)
	e.Observe("unanswered", failed)
	if c := rig.crashed(); c != "" {
		e.Fail("C01:process-crashed", c, -1, nil, nil, nil)
	}
	e.Sample(map[string]interface{}{"requests": total, "concurrency": par})
	relayAbandoned(e, total)
	relayBurst(e, total+50)
}

// suiteHandoff (C04): concurrent pollers against the real proxy: every request ID must
// appear in exactly one pending-list response.
func suiteHandoff(e *vh.Env) {
	e.Result.Rule = "1..8 concurrent pollers against the real proxy while clients arrive in bursts; every client ID must be reported in exactly one list response; non-trivial = round with at least 2 pollers and a burst of at least 4 clients"
	rig := startProxy()
	defer rig.stop()
	rounds := e.N(12, 300)
	for i := 0; i < rounds; i++ {
		if !e.Want(i) {
			continue
		}
		rng := e.Rng.Sub(i)
		pollers := 1 + rng.Intn(8)
		burst := 1 + rng.Intn(24)
		var mu sync.Mutex
		seen := map[string]int{}
		lists := 0
		stop := make(chan struct{})
		var pw sync.WaitGroup
		for p := 0; p < pollers; p++ {
			pw.Add(1)
			go func() {
				defer pw.Done()
				for {
					select {
					case <-stop:
						return
					default:
					}
					ids, _, err := agentList(rig.proxyURL, 300*time.Millisecond)
					if err != nil {
						continue
					}
					mu.Lock()
					lists++
					for _, id := range ids {
						seen[id]++
					}
					mu.Unlock()
				}
			}()
		}
		var cw sync.WaitGroup
		results := make([]clientResult, burst)
		for c := 0; c < burst; c++ {
			cw.Add(1)
			go func(c int) {
				defer cw.Done()
				results[c] = clientCall(rig.proxyURL, fmt.Sprintf("h%d-%d", i, c), 20*time.Second)
			}(c)
		}
		// wait until `burst` distinct IDs were handed out, then answer them
		deadline := time.Now().Add(10 * time.Second)
		for time.Now().Before(deadline) {
			mu.Lock()
			nn := len(seen)
			mu.Unlock()
			if nn >= burst {
				break
			}
			time.Sleep(2 * time.Millisecond)
		}
		close(stop)
		pw.Wait()
		mu.Lock()
		ids := make([]string, 0, len(seen))
		for id, cnt := range seen {
			ids = append(ids, id)
			if cnt != 1 {
				e.Fail("C04:id-handed-to-several-lists", fmt.Sprintf("round %d: request ID %s appeared in %d list responses", i, id, cnt), i, nil, cnt, 1)
			}
		}
		if len(seen) != burst {
			e.Fail("C04:id-not-handed-off", fmt.Sprintf("round %d: %d clients, %d distinct IDs reported", i, burst, len(seen)), i, nil, len(seen), burst)
		}
		mu.Unlock()
		for _, id := range ids {
			code, wire := agentFetch(rig.proxyURL, id)
			if code == 200 {
				agentUpload(rig.proxyURL, id, echoResponse(tokOfRequest(wire)), 10*time.Second)
			}
		}
		cw.Wait()
		for c, r := range results {
			if r.tok != fmt.Sprintf("h%d-%d", i, c) {
				e.Fail("C01:wrong-response", fmt.Sprintf("round %d client %d got token %q (err %v)", i, c, r.tok, r.err), i, nil, nil, nil)
			}
		}
		e.Eval(fmt.Sprint(i), pollers >= 2 && burst >= 4)
		e.Count(fmt.Sprintf("pollers>=2:%v burst>=4:%v", pollers >= 2, burst >= 4))
		if i < 2 {
			e.Sample(map[string]interface{}{"round": i, "pollers": pollers, "clients": burst, "list_responses": lists})
		}
	}
	if c := rig.crashed(); c != "" {
		e.Fail("C04:proxy-crashed", c, -1, nil, nil, nil)
	}
}
