//go:build verif

package main

import (
	"fmt"
	"math"
	"math/rand"
	"time"

	"github.com/google/inverting-proxy/agent/utils"
	"github.com/google/inverting-proxy/zz_verif/vh"
)

func init() { suites["backoff"] = suiteBackoff }

// closedForm is the oracle, written from the property sentence: doubling from 1 ms, cap 3 s.
func closedForm(n uint) float64 {
	d := 1e6
	for i := uint(0); i < n && d < 3e9; i++ {
		d *= 2
	}
	if d > 3e9 {
		d = 3e9
	}
	return d
}

func suiteBackoff(e *vh.Env) {
	e.OpenOps("backoff")
	e.Result.Rule = "retry counts 0..200, 2^k and 2^k±1 for k<=64, 2^32, max, plus random 64-bit counts; each with seeded jitter draws; non-trivial = distinct (count, draw)"
	// (the cap index uint(maxRetryCount) is not read through an export shim: a refactoring that
	// removes the variable must not stop this driver from building; goextract pins its definition)
	var counts []uint
	for i := uint(0); i <= 200; i++ {
		counts = append(counts, i)
	}
	for k := uint(0); k < 64; k++ {
		p := uint(1) << k
		counts = append(counts, p-1, p, p+1)
	}
	counts = append(counts, 1<<32, math.MaxUint64, math.MaxUint64-1, math.MaxInt64, uint(math.MaxInt64)+1)
	for i := 0; i < e.N(200, 20000); i++ {
		counts = append(counts, uint(e.Rng.U64()))
	}
	draws := e.N(20, 200)
	idx := 0
	for _, n := range counts {
		for k := 0; k < draws; k++ {
			idx++
			if !e.Want(idx) {
				continue
			}
			s := int64(e.Rng.U64() >> 1)
			rand.Seed(s)
			r := rand.Float64()
			jitter := 1 - utils.JitterPercent + r*(utils.JitterPercent*2)
			rand.Seed(s)
			d := utils.ExponentialBackoffDuration(n)
			T := closedForm(n)
			e.Eval(fmt.Sprintf("%d/%d", n, s), true)
			switch {
			case n <= 11:
				e.Count("doubling-range")
			case n < 64:
				e.Count("capped-small")
			default:
				e.Count("capped-huge")
			}
			if d <= 0 {
				e.Fail("C08:non-positive-delay", fmt.Sprintf("ExponentialBackoffDuration(%d) = %v", n, d), idx, nil, int64(d), "> 0")
			}
			lo, hi := math.Floor(0.9*T)-1, math.Ceil(1.1*T)+1
			if float64(d) < lo || float64(d) > hi {
				e.Fail("C08:delay-out-of-bounds", fmt.Sprintf("ExponentialBackoffDuration(%d) = %v outside [0.9,1.1] x %v", n, d, time.Duration(T)), idx, nil, int64(d), []float64{lo, hi})
			}
			if d > 3300*time.Millisecond+time.Nanosecond {
				e.Fail("C08:delay-above-cap", fmt.Sprintf("ExponentialBackoffDuration(%d) = %v", n, d), idx, nil, int64(d), "<= 3.3s")
			}
			if k == 0 {
				// correspondence: recover the un-jittered target from the seeded draw
				t := int64(math.Round(float64(d)/jitter/1000) * 1000)
				e.Op(fmt.Sprintf("target %d", n), fmt.Sprintf("%d", t))
				if idx%97 == 1 {
					e.Sample(map[string]interface{}{"retryCount": n, "draw": r, "delay_ns": int64(d)})
				}
			}
		}
	}
}
