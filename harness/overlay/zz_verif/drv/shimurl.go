//go:build verif

package main

import (
	"bytes"
	"context"
	"fmt"
	"io"
	"net"
	"net/http"
	"net/http/httptest"
	"net/url"
	"strings"
	"sync"

	"github.com/gorilla/websocket"

	"github.com/google/inverting-proxy/agent/metrics"
	"github.com/google/inverting-proxy/agent/websockets"
	"github.com/google/inverting-proxy/zz_verif/vh"
)

func init() { suites["shimurl"] = suiteShimURL }

func suiteShimURL(e *vh.Env) {
	e.OpenOps("shimurl")
	e.Result.Rule = "shim open bodies from every URL syntax class (hierarchical, scheme-relative, path-only, opaque scheme:rest, empty, userinfo, IPv6, odd ports, foreign hosts, random bytes); the dialled address is observed through websocket.DefaultDialer.NetDialContext; non-trivial = body that parses as a URL with a non-empty opaque part, userinfo or host"
	const backendHost = "backend.internal:8123"
	var mu sync.Mutex
	var dialled []string
	websocket.DefaultDialer.NetDialContext = func(ctx context.Context, network, addr string) (net.Conn, error) {
		mu.Lock()
		dialled = append(dialled, addr)
		mu.Unlock()
		return nil, fmt.Errorf("verif: dial observed, not performed")
	}
	var wrappedSeen []string
	wrapped := http.HandlerFunc(func(w http.ResponseWriter, r *http.Request) {
		b, _ := io.ReadAll(r.Body)
		wrappedSeen = append(wrappedSeen, fmt.Sprintf("%s %s x=%s body=%x", r.Method, r.URL.RequestURI(), strings.Join(r.Header["X-Verif"], ","), b))
		w.WriteHeader(204)
	})
	ident := func(h http.Handler, _ *metrics.MetricHandler) http.Handler { return h }
	h, err := websockets.Proxy(context.Background(), wrapped, backendHost, "shimpath", false, false, ident, nil)
	if err != nil {
		panic(err)
	}
	schemes := []string{"ws", "wss", "http", "https", "x", "mailto", "javascript", "file", ""}
	hosts := []string{"evil.example", "evil.example:9", "[::1]:80", "[fe80::1%25en0]", "127.0.0.1:22", "localhost", "", "a b", "evil.example:notaport"}
	users := []string{"", "", "user@", "user:pw@", ":@", "%40@"}
	paths := []string{"", "/", "/ws/path", "/a%2Fb", "//double", "/../up", "rel/path", "/p?x=1&y=%20", "?only=query", "#frag", "/p#f", "/ü"}
	n := e.N(400, 50000)
	for i := 0; i < n; i++ {
		if !e.Want(i) {
			continue
		}
		rng := e.Rng.Sub(i)
		var body string
		switch rng.Intn(8) {
		case 0: // opaque
			body = rng.Pick([]string{"x", "mailto", "ws", "javascript", "a.b+c"}) + ":" + rng.Pick([]string{"y", "a@b", "alert(1)", "evil.example:80", "80", "y?q=1", "y#f", "%2F%2Fevil/"})
		case 1: // scheme-relative
			body = "//" + rng.Pick(users) + rng.Pick(hosts) + rng.Pick(paths)
		case 2: // path only
			body = rng.Pick(paths)
		case 3: // random bytes
			body = string(rng.Bytes(rng.Intn(12)))
		case 4:
			body = ""
		default:
			s := rng.Pick(schemes)
			if s != "" {
				s += ":"
			}
			body = s + "//" + rng.Pick(users) + rng.Pick(hosts) + rng.Pick(paths)
		}
		mu.Lock()
		dialled = nil
		mu.Unlock()
		req := httptest.NewRequest("POST", "http://agent.example/shimpath/open", strings.NewReader(body))
		rw := httptest.NewRecorder()
		h.ServeHTTP(rw, req)
		mu.Lock()
		d := append([]string{}, dialled...)
		mu.Unlock()
		u, perr := url.Parse(body)
		// oracle (property): the only network peer ever contacted is the configured backend
		for _, a := range d {
			if a != backendHost {
				e.Fail("C13:foreign-dial", fmt.Sprintf("open body %q made the agent dial %q (configured backend %q)", body, a, backendHost), i, nil, a, backendHost)
			}
		}
		if perr != nil {
			if rw.Code != 400 || len(d) != 0 {
				e.Fail("C13:malformed-not-rejected", fmt.Sprintf("open body %q does not parse (%v) but got status %d, dials %v", body, perr, rw.Code, d), i, nil, nil, nil)
			}
			e.Count("unparsable")
			e.Eval(body, false)
			continue
		}
		outcome := "refused"
		if len(d) == 1 {
			if d[0] == backendHost {
				outcome = "dial"
			} else {
				outcome = "foreign"
			}
		} else if len(d) > 1 {
			outcome = fmt.Sprintf("dials=%d", len(d))
		}
		reparseOk := "1"
		if len(d) == 0 && !strings.Contains(rw.Body.String(), "malformed ws or wss URL") {
			reparseOk = "0"
		}
		hasUser := "0"
		if u.User != nil {
			hasUser = "1"
		}
		e.Op(fmt.Sprintf("open %s %s %s %s %s %s", vh.Hex([]byte(u.Scheme)), vh.Hex([]byte(u.Opaque)), hasUser, vh.Hex([]byte(u.Host)), vh.Hex([]byte(backendHost)), reparseOk), outcome)
		cls := "hier"
		switch {
		case u.Opaque != "":
			cls = "opaque"
		case u.User != nil:
			cls = "userinfo"
		case u.Host == "":
			cls = "no-host"
		}
		e.Count(cls + "->" + outcome)
		e.Eval(body, u.Opaque != "" || u.User != nil || u.Host != "")
		if i < 4 {
			e.Sample(map[string]interface{}{"body": body, "dialled": d, "status": rw.Code})
		}
	}
	// paths outside the shim prefix reach the wrapped handler untouched
	for i, p := range []string{"/", "/a", "/shimpathx/open", "/shimpat", "/x/shimpath/open", "/a%2Fb?x=1", "/shimpath.html",
		// not in canonical form: passed on as they are, not answered by a router's own redirect
		"/a//b", "/a/./b", "/a/../b?x=1", "//a", "/a/b/..", "/shimpath", "/x/../shimpath/open", "/a/%2e%2e/b"} {
		for _, m := range []string{"GET", "POST"} {
			body := []byte(nil)
			if m == "POST" {
				body = e.Rng.Sub(900000 + i).Bytes(50)
			}
			wrappedSeen = nil
			req := httptest.NewRequest(m, "http://agent.example"+p, bytes.NewReader(body))
			req.Header["X-Verif"] = []string{"one", "two"}
			rw := httptest.NewRecorder()
			h.ServeHTTP(rw, req)
			want := fmt.Sprintf("%s %s x=one,two body=%x", m, p, body)
			if len(wrappedSeen) != 1 || wrappedSeen[0] != want || rw.Code != 204 {
				e.Fail("C13:outside-prefix-not-passed-through", fmt.Sprintf("%s %s: wrapped handler saw %v (status %d), want %q", m, p, wrappedSeen, rw.Code, want), 900000+i, nil, wrappedSeen, want)
			}
			e.Op(fmt.Sprintf("route %s %s", vh.Hex([]byte("/shimpath/")), vh.Hex([]byte(req.URL.Path))), "wrapped")
			e.Eval("route:"+m+p, true)
			e.Count("outside-prefix")
		}
	}
	// a backend that answers the handshake with a redirect built from the Host header it received, with
	// --rewrite-websocket-host on (the Host header is then the client's): whatever the answer, the only peer is the backend
	{
		var seen []string
		websocket.DefaultDialer.NetDialContext = func(ctx context.Context, network, addr string) (net.Conn, error) {
			mu.Lock()
			seen = append(seen, addr)
			mu.Unlock()
			return (&net.Dialer{}).DialContext(ctx, network, addr)
		}
		foreign, _ := net.Listen("tcp", "127.0.0.1:0")
		go func() {
			for {
				c, err := foreign.Accept()
				if err != nil {
					return
				}
				c.Close()
			}
		}()
		var hostsSeen []string
		be := httptest.NewServer(http.HandlerFunc(func(w http.ResponseWriter, r *http.Request) {
			mu.Lock()
			hostsSeen = append(hostsSeen, r.Host)
			mu.Unlock()
			http.Redirect(w, r, "http://"+r.Host+r.URL.Path+"/", http.StatusMovedPermanently)
		}))
		realBackend := strings.TrimPrefix(be.URL, "http://")
		for _, rewrite := range []bool{true, false} {
			hr, _ := websockets.Proxy(context.Background(), wrapped, realBackend, "shimpath", rewrite, false, ident, nil)
			mu.Lock()
			seen = nil
			mu.Unlock()
			req := httptest.NewRequest("POST", "http://agent.example/shimpath/open", strings.NewReader("ws://agent.example/redir"))
			req.Host = foreign.Addr().String()
			rw := httptest.NewRecorder()
			hr.ServeHTTP(rw, req)
			mu.Lock()
			ds := append([]string(nil), seen...)
			hsn := append([]string(nil), hostsSeen...)
			hostsSeen = nil
			mu.Unlock()
			// the URL in the body contributes path and query only: the Host header of the handshake is the backend's
			// own address, or with --rewrite-websocket-host the Host of the request that carried the open call
			wantHost := realBackend
			if rewrite {
				wantHost = foreign.Addr().String()
			}
			if len(hsn) == 0 || hsn[0] != wantHost {
				e.Fail("C13:handshake-host-from-client-url", fmt.Sprintf("shim open (rewrite-websocket-host %v) carried by a request for Host %s with body ws://agent.example/redir: the backend's handshake arrived with Host %q, want %q", rewrite, foreign.Addr(), hsn, wantHost), 950001, nil, hsn, wantHost)
			}
			for _, d := range ds {
				if d != realBackend {
					e.Fail("C13:foreign-dial", fmt.Sprintf("shim open (rewrite-websocket-host %v) with Host header %s; the backend %s answered the handshake with a redirect to that host; the agent then connected to %q", rewrite, foreign.Addr(), realBackend, d), 950000, nil, d, realBackend)
				}
			}
			e.Eval(fmt.Sprintf("redirecting-backend rewrite=%v", rewrite), true)
			e.Count("redirecting-backend")
		}
		be.Close()
		foreign.Close()
	}
}
