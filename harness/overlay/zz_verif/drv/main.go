//go:build verif

// Command drv: in-process drivers for the library packages (tie C and R).
package main

import (
	"fmt"
	"os"

	"github.com/google/inverting-proxy/zz_verif/vh"
)

var suites = map[string]func(*vh.Env){}

func main() {
	e := vh.Parse()
	f, ok := suites[e.Suite]
	if !ok {
		fmt.Fprintf(os.Stderr, "unknown suite %q\n", e.Suite)
		os.Exit(2)
	}
	f(e)
	e.Finish()
}
