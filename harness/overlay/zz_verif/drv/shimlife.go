//go:build verif

package main

import (
	"context"
	"encoding/json"
	"fmt"
	"net/http"
	"net/http/httptest"
	"strings"
	"sync"
	"time"

	"github.com/gorilla/websocket"

	"github.com/google/inverting-proxy/agent/metrics"
	"github.com/google/inverting-proxy/agent/websockets"
	"github.com/google/inverting-proxy/zz_verif/vh"
)

func init() {
	suites["shimlife"] = suiteShimLife
	suites["shimrace"] = suiteShimRace
}

type shimSession struct {
	h   http.Handler
	be  *wsBackend
	bc  *websocket.Conn
	id  string
	ctx context.CancelFunc
}

func openShim(e *vh.Env, cs interface{}) *shimSession { return openShimInj(e, cs, false) }

// openShimInj: with inject, the shim runs with header injection into JSON messages enabled (one more code path for
// every data call).
func openShimInj(e *vh.Env, cs interface{}, inject bool) *shimSession {
	be := newWsBackend()
	ident := func(h http.Handler, _ *metrics.MetricHandler) http.Handler { return h }
	ctx, cancel := context.WithCancel(context.Background())
	h, _ := websockets.Proxy(ctx, http.NotFoundHandler(), be.host(), "shimpath", false, inject, ident, nil)
	code, body := shimCall(h, "open", "ws://whatever/ws", nil)
	var open struct {
		ID string `json:"id"`
	}
	if code != 200 || json.Unmarshal([]byte(body), &open) != nil {
		e.Fail("C12:open-failed", fmt.Sprintf("open: %d %s", code, body), cs, nil, nil, nil)
		cancel()
		be.srv.Close()
		return nil
	}
	return &shimSession{h: h, be: be, bc: <-be.conns, id: open.ID, ctx: cancel}
}

func (s *shimSession) shut() {
	s.ctx()
	s.bc.Close()
	s.be.srv.Close()
}

func (s *shimSession) data(n int) int {
	var arr []string
	for j := 0; j < n; j++ {
		arr = append(arr, fmt.Sprintf(`{"id":"%s","msg":"m%d"}`, s.id, j))
	}
	c, _ := shimCall(s.h, "data", "["+strings.Join(arr, ",")+"]", nil)
	return c
}
func (s *shimSession) poll() (int, int) {
	c, rb := shimCall(s.h, "poll", `{"id":"`+s.id+`"}`, nil)
	var arr []interface{}
	json.Unmarshal([]byte(rb), &arr)
	return c, len(arr)
}
func (s *shimSession) close() int {
	c, _ := shimCall(s.h, "close", `{"id":"`+s.id+`"}`, nil)
	return c
}

func okStatus(c int) bool { return c == 200 || c == 400 || c == 408 || c == 500 }

// suiteShimLife: sequential call scripts (statuses compared with Model/ShimLife) plus
// unknown / malformed arguments.
func suiteShimLife(e *vh.Env) {
	e.OpenOps("shimlife")
	e.Result.Rule = "scripts over {data n, close, backend-send k, poll-until-drained, backend-close, poll-until-closed} on one real shim session plus calls with unknown, already-closed and malformed session IDs/bodies; every call must answer 200/400/408/500; non-trivial = script that continues after a close or a backend close"
	n := e.N(40, 1500)
	for i := 0; i < n; i++ {
		if !e.Want(i) {
			continue
		}
		rng := e.Rng.Sub(i)
		s := openShimInj(e, i, i%3 == 0)
		if s == nil {
			continue
		}
		e.Op("open", "200")
		pending := 0
		closed, bclosed, after := false, false, false
		steps := 3 + rng.Intn(10)
		for st := 0; st < steps; st++ {
			if closed || bclosed {
				after = true
			}
			switch k := rng.Intn(12); {
			case k < 3:
				nmsg := 1 + rng.Intn(14)
				c := s.data(nmsg)
				e.Op(fmt.Sprintf("data %d", nmsg), fmt.Sprint(c))
				if !okStatus(c) || ((closed || bclosed) && c != 400) {
					e.Fail("C12:data-status", fmt.Sprintf("case %d: data after closed=%v backendClosed=%v answered %d", i, closed, bclosed, c), i, nil, c, nil)
				}
			case k < 5 && !bclosed && !closed:
				kk := 1 + rng.Intn(25)
				for j := 0; j < kk; j++ {
					s.bc.WriteMessage(websocket.TextMessage, []byte("srv"))
				}
				pending += kk
				e.Op(fmt.Sprintf("bsend %d", kk), "ok")
			case k < 7 && pending > 0 && !closed:
				total, last := 0, 200
				for tries := 0; total < pending && tries < 200; tries++ {
					c, cnt := s.poll()
					last = c
					if c != 200 {
						break
					}
					total += cnt
				}
				e.Op("pollall", fmt.Sprintf("%d %d", last, total))
				if total != pending {
					e.Fail("C12:poll-lost-messages", fmt.Sprintf("case %d: polls returned %d of %d buffered server messages (last status %d)", i, total, pending, last), i, nil, total, pending)
				}
				pending = 0
			case k < 8 && !bclosed && !closed:
				// a clean websocket close: the close frame travels behind the data frames (an abrupt
				// TCP close with unread input would reset the connection and discard data in flight)
				s.bc.WriteControl(websocket.CloseMessage, websocket.FormatCloseMessage(websocket.CloseNormalClosure, ""), time.Now().Add(time.Second))
				select {
				case <-s.be.ended:
				case <-time.After(2 * time.Second):
				}
				s.bc.Close()
				bclosed = true
				// the client's polls deliver what was already received, then report the session closed
				total, last := 0, 0
				for tries := 0; tries < 200; tries++ {
					c, cnt := s.poll()
					last = c
					if c != 200 {
						break
					}
					total += cnt
				}
				e.Op("bclose", fmt.Sprintf("%d %d", last, total))
				if last != 400 || total != pending {
					e.Fail("C12:backend-close-drain", fmt.Sprintf("case %d: after the backend closed, polls returned %d of %d buffered messages and ended with status %d (want 400)", i, total, pending, last), i, nil, nil, nil)
				}
				pending = 0
			case k < 10:
				c := s.close()
				e.Op("close", fmt.Sprint(c))
				want := 200
				if closed || bclosed {
					want = 400 // the table entry is gone (closed, or removed by the poll that saw the closed session)
				}
				if c != want {
					e.Fail("C12:close-status", fmt.Sprintf("case %d: close answered %d, want %d (closed=%v backendClosed=%v)", i, c, want, closed, bclosed), i, nil, c, want)
				}
				if !closed && !bclosed {
					// closing a session closes the backend websocket
					sawClose := false
					select {
					case <-s.be.ended:
						sawClose = true
					case <-time.After(3 * time.Second):
					}
					if !sawClose {
						e.Fail("C12:close-did-not-close-backend", fmt.Sprintf("case %d: the backend websocket saw no close within 3 s", i), i, nil, nil, nil)
					}
				}
				closed = true
				pending = 0
			default:
				// unknown / malformed arguments: always 400, never a crash
				for _, call := range []struct{ action, body string }{
					{"data", `[{"id":"nope","msg":"x"}]`}, {"poll", `{"id":"nope"}`}, {"close", `{"id":"nope"}`},
					{"data", `{not json`}, {"poll", `[1,2`}, {"close", `""`}, {"data", `[{"id":5}]`}, {"data", `[{"id":"` + s.id + `","msg":{"a":1}}]`},
					{"data", `[null]`}, {"data", `[{"id":"nope","msg":"x"},null]`}, {"poll", `null`}, {"close", `null`},
				} {
					c, _ := shimCall(s.h, call.action, call.body, nil)
					if c != 400 {
						e.Fail("C12:bad-argument-status", fmt.Sprintf("case %d: %s %q answered %d, want 400", i, call.action, call.body, c), i, nil, c, 400)
					}
				}
				// odd but accepted message shapes (`[x]` with a non-string x is queued as a nil message):
				// any of 200/400 is fine, the agent must survive and keep relaying
				if !closed && !bclosed {
					for _, m := range []string{`[5]`, `[null]`, `[["x"]]`, `[{}]`, `[true]`} {
						c, _ := shimCall(s.h, "data", `[{"id":"`+s.id+`","msg":`+m+`}]`, nil)
						if !okStatus(c) {
							e.Fail("C12:bad-status", fmt.Sprintf("case %d: data with msg %s answered %d", i, m, c), i, nil, c, nil)
						}
					}
					before := len(s.be.received())
					if c := s.data(1); c != 200 || !s.be.waitRecv(before+1) {
						e.Fail("C12:not-relaying-after-odd-message", fmt.Sprintf("case %d: after one-element non-string messages a valid data post answered %d and the backend received %d new messages", i, c, len(s.be.received())-before), i, nil, nil, nil)
					}
					e.Op("data 1", "200")
				}
				e.Count("bad-arguments")
			}
		}
		e.Eval(fmt.Sprint(i), after)
		if i < 3 {
			e.Sample(map[string]interface{}{"case": i, "steps": steps, "closed": closed, "backend_closed": bclosed})
		}
		s.shut()
	}
	shimPushOnlyClose(e, n)
	shimOverlappingOpens(e, n+100)
	shimBackendClosesWithUnpolled(e, n+200)
}

// shimPushOnlyClose: a backend that only ever writes (it never reads, so it never answers a close frame).
// Closing the session must still close the backend websocket: the backend's writes start failing.
func shimPushOnlyClose(e *vh.Env, base int) {
	for k := 0; k < e.N(2, 20); k++ {
		if !e.Want(base + k) {
			continue
		}
		writeFailed := make(chan struct{})
		up := websocket.Upgrader{}
		srv := httptest.NewServer(http.HandlerFunc(func(w http.ResponseWriter, r *http.Request) {
			c, err := up.Upgrade(w, r, nil)
			if err != nil {
				return
			}
			defer c.Close()
			for j := 0; ; j++ {
				c.SetWriteDeadline(time.Now().Add(time.Second))
				if err := c.WriteMessage(websocket.TextMessage, []byte(fmt.Sprintf("tick %d", j))); err != nil {
					close(writeFailed)
					return
				}
				time.Sleep(15 * time.Millisecond)
			}
		}))
		ident := func(h http.Handler, _ *metrics.MetricHandler) http.Handler { return h }
		ctx, cancel := context.WithCancel(context.Background())
		h, _ := websockets.Proxy(ctx, http.NotFoundHandler(), strings.TrimPrefix(srv.URL, "http://"), "shimpath", false, false, ident, nil)
		code, body := shimCall(h, "open", "ws://whatever/push", nil)
		var open struct {
			ID string `json:"id"`
		}
		if code != 200 || json.Unmarshal([]byte(body), &open) != nil {
			e.Fail("C12:open-failed", fmt.Sprintf("open: %d %s", code, body), base+k, nil, nil, nil)
		} else {
			shimCall(h, "poll", `{"id":"`+open.ID+`"}`, nil)
			done := make(chan int, 1)
			go func() { c, _ := shimCall(h, "close", `{"id":"`+open.ID+`"}`, nil); done <- c }()
			select {
			case c := <-done:
				if c != 200 {
					e.Fail("C12:close-status", fmt.Sprintf("close of a session whose backend only writes answered %d", c), base+k, nil, c, 200)
				}
			case <-time.After(10 * time.Second):
				e.Fail("C12:call-never-answered", "close of a session whose backend only writes did not return within 10 s", base+k, nil, nil, nil)
			}
			select {
			case <-writeFailed:
			case <-time.After(3 * time.Second):
				e.Fail("C12:close-did-not-close-backend", "the session was closed (backend that only writes and never reads): the backend could still write to its websocket 3 s later", base+k, nil, nil, nil)
			}
			if c, _ := shimCall(h, "poll", `{"id":"`+open.ID+`"}`, nil); c != 400 {
				e.Fail("C12:poll-after-close", fmt.Sprintf("poll after close answered %d", c), base+k, nil, c, 400)
			}
		}
		cancel()
		srv.CloseClientConnections()
		srv.Close()
		e.Eval(fmt.Sprintf("push-only-%d", k), true)
		e.Count("push-only-backend-close")
	}
}

// shimBackendClosesWithUnpolled: the backend sends k messages that nobody polls (k up to the shim's buffering: ten
// queued and one in the reader's hand) and closes; the client first notices through failing data calls and polls
// only then.  The polls must still deliver the k messages the agent had received, then report the session closed.
func shimBackendClosesWithUnpolled(e *vh.Env, base int) {
	for idx, k := range []int{3, 10, 11, 11} {
		if !e.Want(base+idx) || (idx == 3 && !e.Thorough()) {
			continue
		}
		s := openShim(e, base+idx)
		if s == nil {
			continue
		}
		for j := 0; j < k; j++ {
			s.bc.WriteMessage(websocket.TextMessage, []byte(fmt.Sprintf("unpolled-%d", j)))
		}
		time.Sleep(150 * time.Millisecond) // the agent has read them all
		s.bc.WriteControl(websocket.CloseMessage, websocket.FormatCloseMessage(websocket.CloseNormalClosure, ""), time.Now().Add(time.Second))
		s.bc.Close()
		time.Sleep(50 * time.Millisecond)
		dataCalls := 0
		for ; dataCalls < 40; dataCalls++ {
			if c := s.data(1); c != 200 {
				break
			}
			time.Sleep(10 * time.Millisecond)
		}
		delivered, last := 0, 0
		for tries := 0; tries < 20; tries++ {
			c, n := s.poll()
			last = c
			if c != 200 {
				break
			}
			delivered += n
		}
		if delivered != k || last != 400 {
			e.Fail("C12:received-messages-not-delivered", fmt.Sprintf("the backend sent %d messages, none polled, and closed; after %d data calls (the last one refused) the client's polls delivered %d messages and ended with status %d", k, dataCalls+1, delivered, last), base+idx, nil, delivered, k)
		}
		s.shut()
		e.Eval(fmt.Sprintf("unpolled-%d", k), true)
		e.Count(fmt.Sprintf("backend-closes-with-%d-unpolled", k))
	}
}

// shimOverlappingOpens: an open that fails (the backend refuses the websocket after a delay) overlaps an open
// that succeeds; sessions opened afterwards must not collide with the live one.
func shimOverlappingOpens(e *vh.Env, base int) {
	for k := 0; k < e.N(3, 30); k++ {
		if !e.Want(base + k) {
			continue
		}
		be := newWsBackend()
		inner := be.srv.Config.Handler
		be.srv.Config.Handler = http.HandlerFunc(func(w http.ResponseWriter, r *http.Request) {
			if strings.HasPrefix(r.URL.Path, "/refuse") {
				time.Sleep(150 * time.Millisecond)
				http.Error(w, "no", http.StatusForbidden)
				return
			}
			inner.ServeHTTP(w, r)
		})
		ident := func(h http.Handler, _ *metrics.MetricHandler) http.Handler { return h }
		ctx, cancel := context.WithCancel(context.Background())
		h, _ := websockets.Proxy(ctx, http.NotFoundHandler(), be.host(), "shimpath", false, false, ident, nil)
		idOf := func(body string) string {
			var open struct {
				ID string `json:"id"`
			}
			json.Unmarshal([]byte(body), &open)
			return open.ID
		}
		failing := make(chan int, 4)
		nfail := 1 + k%3
		for j := 0; j < nfail; j++ {
			go func() { c, _ := shimCall(h, "open", "ws://whatever/refuse", nil); failing <- c }()
		}
		time.Sleep(30 * time.Millisecond)
		cb, bodyB := shimCall(h, "open", "ws://whatever/live", nil)
		idB := idOf(bodyB)
		connB := <-be.conns
		for j := 0; j < nfail; j++ {
			if c := <-failing; c == 200 {
				e.Fail("C07:refused-open-succeeded", "an open whose backend refused the websocket answered 200", base+k, nil, nil, nil)
			}
		}
		var later []string
		for j := 0; j < 2; j++ {
			_, bodyC := shimCall(h, "open", "ws://whatever/later", nil)
			later = append(later, idOf(bodyC))
			<-be.conns
		}
		if cb != 200 || idB == "" {
			e.Fail("C12:open-failed", fmt.Sprintf("open: %d %s", cb, bodyB), base+k, nil, nil, nil)
		}
		for _, idC := range later {
			if idC == idB {
				e.Fail("C07:session-id-reused", fmt.Sprintf("%d opens failed while session %q was being established; a session opened afterwards was given the same ID %q, so the two clients now share one table entry", nfail, idB, idC), base+k, nil, idC, nil)
			}
		}
		// B's data must still arrive on B's backend connection
		connB.SetReadDeadline(time.Now().Add(2 * time.Second))
		before := len(be.received())
		shimCall(h, "data", `[{"id":"`+idB+`","msg":"for-B"}]`, nil)
		be.waitRecv(before + 1)
		r := be.received()
		if len(r) != before+1 || string(r[len(r)-1].data) != "for-B" {
			e.Fail("C07:healthy-session-disturbed", fmt.Sprintf("after %d failed opens, data posted on the live session %q did not reach the backend exactly once", nfail, idB), base+k, nil, nil, nil)
		}
		cancel()
		be.srv.CloseClientConnections()
		be.srv.Close()
		e.Eval(fmt.Sprintf("overlapping-opens-%d", k), true)
		e.Count("overlapping-failed-opens")
	}
}

// suiteShimRace: concurrent calls on one session (data || close, close || close,
// poll || close, data || backend-close); every call must return an allowed status.
func suiteShimRace(e *vh.Env) {
	e.Result.Rule = "per session 2..6 concurrent calls drawn from {data n, close, poll (with server messages buffered), backend-close} started together; every call must return 200/400/408/500 within 25 s and the process must survive; run under the race detector; non-trivial = session with a close racing a data post or another close"
	n := e.N(60, 3000)
	sem := make(chan struct{}, 16)
	var wg sync.WaitGroup
	for i := 0; i < n; i++ {
		if !e.Want(i) {
			continue
		}
		wg.Add(1)
		sem <- struct{}{}
		go func(i int) {
			defer wg.Done()
			defer func() { <-sem }()
			rng := e.Rng.Sub(i)
			s := openShimInj(e, i, i%3 == 0)
			if s == nil {
				return
			}
			defer s.shut()
			// fill the client queue and buffer a server message so that polls return at once
			if rng.Chance(50) {
				s.data(8 + rng.Intn(6))
			}
			s.bc.WriteMessage(websocket.TextMessage, []byte("srv"))
			s.bc.WriteMessage(websocket.TextMessage, []byte("srv"))
			time.Sleep(5 * time.Millisecond)
			k := 2 + rng.Intn(5)
			kinds := make([]string, k)
			closes, datas := 0, 0
			for j := range kinds {
				kinds[j] = rng.Pick([]string{"data", "data", "close", "close", "poll", "bclose"})
				if kinds[j] == "close" {
					closes++
				}
				if kinds[j] == "data" {
					datas++
				}
			}
			start := make(chan struct{})
			res := make([]int, k)
			var cw sync.WaitGroup
			for j, kind := range kinds {
				cw.Add(1)
				go func(j int, kind string) {
					defer cw.Done()
					<-start
					switch kind {
					case "data":
						res[j] = s.data(1 + rng.Sub(j).Intn(12))
					case "close":
						res[j] = s.close()
					case "poll":
						res[j], _ = s.poll()
					case "bclose":
						s.bc.Close()
						res[j] = 200
					}
				}(j, kind)
			}
			close(start)
			// keep server messages coming so that concurrent polls do not sit out the 20 s timer
			stopFeed := make(chan struct{})
			go func() {
				for {
					select {
					case <-stopFeed:
						return
					case <-time.After(10 * time.Millisecond):
						s.bc.WriteMessage(websocket.TextMessage, []byte("srv"))
					}
				}
			}()
			defer close(stopFeed)
			done := make(chan struct{})
			go func() { cw.Wait(); close(done) }()
			select {
			case <-done:
			case <-time.After(25 * time.Second):
				e.Fail("C12:call-never-answered", fmt.Sprintf("session %d: calls %v did not all return within 25 s", i, kinds), i, nil, kinds, nil)
				return
			}
			ok200 := 0
			for j, c := range res {
				if !okStatus(c) {
					e.Fail("C12:bad-status", fmt.Sprintf("session %d: %s answered %d", i, kinds[j], c), i, nil, c, nil)
				}
				if kinds[j] == "close" && c == 200 {
					ok200++
				}
			}
			if ok200 > 1 {
				// two closes may both find the entry before either deletes it: both 200 is allowed, a crash is not
				e.Count("double-close-both-200")
			}
			e.Eval(fmt.Sprintf("%d:%v", i, kinds), closes >= 1 && (datas >= 1 || closes >= 2))
			e.Count(fmt.Sprintf("closes=%d datas>0=%v", closes, datas > 0))
			if i < 3 {
				e.Sample(map[string]interface{}{"session": i, "concurrent_calls": kinds, "statuses": res})
			}
		}(i)
	}
	wg.Wait()
}
