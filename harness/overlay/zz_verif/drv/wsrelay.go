//go:build verif

package main

import (
	"bytes"
	"context"
	"encoding/base64"
	"encoding/json"
	"fmt"
	"math/big"
	"net/http"
	"net/http/httptest"
	"sort"
	"strconv"
	"strings"
	"sync"
	"time"

	"github.com/gorilla/websocket"

	"github.com/google/inverting-proxy/agent/metrics"
	"github.com/google/inverting-proxy/agent/websockets"
	"github.com/google/inverting-proxy/zz_verif/vh"
)

func init() {
	suites["wsrelay"] = suiteWsRelay
	suites["wsinject"] = suiteWsInject
}

type wsMsg struct {
	typ  int
	data []byte
}

// wsBackend is a real gorilla websocket server recording what it receives and sending on demand.
type wsBackend struct {
	srv   *httptest.Server
	mu    sync.Mutex
	recv  []wsMsg
	conns chan *websocket.Conn
	hdrs  []http.Header
	ended chan error // one entry per connection whose read loop ended (close frame, EOF, error)
}

func newWsBackend() *wsBackend {
	b := &wsBackend{conns: make(chan *websocket.Conn, 64), ended: make(chan error, 64)}
	up := websocket.Upgrader{}
	b.srv = httptest.NewServer(http.HandlerFunc(func(w http.ResponseWriter, r *http.Request) {
		c, err := up.Upgrade(w, r, nil)
		if err != nil {
			return
		}
		b.mu.Lock()
		b.hdrs = append(b.hdrs, r.Header.Clone())
		b.mu.Unlock()
		b.conns <- c
		for {
			t, d, err := c.ReadMessage()
			if err != nil {
				b.ended <- err
				return
			}
			b.mu.Lock()
			b.recv = append(b.recv, wsMsg{t, d})
			b.mu.Unlock()
		}
	}))
	return b
}

func (b *wsBackend) host() string { return strings.TrimPrefix(b.srv.URL, "http://") }
func (b *wsBackend) received() []wsMsg {
	b.mu.Lock()
	defer b.mu.Unlock()
	return append([]wsMsg{}, b.recv...)
}
func (b *wsBackend) waitRecv(n int) bool {
	for i := 0; i < 2000; i++ {
		if len(b.received()) >= n {
			return true
		}
		time.Sleep(time.Millisecond)
	}
	return false
}

func shimCall(h http.Handler, action, body string, hdr map[string]string) (int, string) {
	req := httptest.NewRequest("POST", "http://agent.example/shimpath/"+action, strings.NewReader(body))
	req.Header.Set("X-Websocket-Shim-Version", "1")
	for k, v := range hdr {
		req.Header.Set(k, v)
	}
	rw := httptest.NewRecorder()
	h.ServeHTTP(rw, req)
	return rw.Code, rw.Body.String()
}

func genUTF8(rng *vh.Rng, n int) string {
	alphabet := []string{"a", "b", "<", "&", ">", "\"", "\\", "é", "ü", "€", "𝄞", "\n", " ", " ", "0", "\x00", "/"}
	var sb strings.Builder
	for i := 0; i < n; i++ {
		sb.WriteString(rng.Pick(alphabet))
	}
	return sb.String()
}

func genMsg(rng *vh.Rng, big bool) wsMsg {
	n := rng.Intn(40)
	if big && rng.Chance(5) {
		n = 200000 + rng.Intn(900000)
	}
	if rng.Bool() {
		if n > 1000 {
			return wsMsg{websocket.TextMessage, bytes.Repeat([]byte("xé"), n/3)}
		}
		return wsMsg{websocket.TextMessage, []byte(genUTF8(rng, n))}
	}
	return wsMsg{websocket.BinaryMessage, rng.Bytes(n)}
}

func clientJSON(m wsMsg) interface{} {
	if m.typ == websocket.TextMessage {
		return string(m.data)
	}
	return []string{base64.StdEncoding.EncodeToString(m.data)}
}

func kind(m wsMsg) string {
	if m.typ == websocket.TextMessage {
		return "t"
	}
	return "b"
}

func suiteWsRelay(e *vh.Env) {
	e.OpenOps("wscodec")
	e.Result.Rule = "shim sessions against a real gorilla websocket backend: random text (valid UTF-8 incl. escapes) and binary (any bytes) messages of 0..1 MB both ways, client batches of 1..30 messages per data post (beyond the 10-slot channels), polls racing server sends; plus malformed client messages; non-trivial = session with a batch or a server burst longer than 10 messages"
	n := e.N(25, 1500)
	for i := 0; i < n; i++ {
		if !e.Want(i) {
			continue
		}
		rng := e.Rng.Sub(i)
		be := newWsBackend()
		ident := func(h http.Handler, _ *metrics.MetricHandler) http.Handler { return h }
		ctx, cancel := context.WithCancel(context.Background())
		h, _ := websockets.Proxy(ctx, http.NotFoundHandler(), be.host(), "shimpath", false, false, ident, nil)
		code, body := shimCall(h, "open", "ws://whatever/ws", nil)
		var open struct {
			ID string `json:"id"`
			V  int    `json:"v"`
		}
		if code != 200 || json.Unmarshal([]byte(body), &open) != nil || open.V != 1 {
			e.Fail("C11:open-failed", fmt.Sprintf("open: %d %s", code, body), i, nil, nil, nil)
			cancel()
			be.srv.Close()
			continue
		}
		bc := <-be.conns
		// client -> server
		var sent []wsMsg
		long := false
		batches := 1 + rng.Intn(5)
		for b := 0; b < batches; b++ {
			k := 1 + rng.Intn(6)
			if rng.Chance(25) {
				k = 11 + rng.Intn(20)
				long = true
			}
			var arr []map[string]interface{}
			for j := 0; j < k; j++ {
				m := genMsg(rng, e.Thorough())
				sent = append(sent, m)
				arr = append(arr, map[string]interface{}{"id": open.ID, "msg": clientJSON(m)})
			}
			bs, _ := json.Marshal(arr)
			if c, rb := shimCall(h, "data", string(bs), nil); c != 200 {
				e.Fail("C11:data-rejected", fmt.Sprintf("data post of %d well-formed messages: %d %s", k, c, rb), i, nil, nil, nil)
			}
		}
		if !be.waitRecv(len(sent)) {
			e.Fail("C11:client-messages-lost", fmt.Sprintf("backend received %d of %d client messages", len(be.received()), len(sent)), i, nil, nil, nil)
		}
		got := be.received()
		for j := range sent {
			if j < len(got) {
				if len(sent[j].data) <= 64 {
					if sent[j].typ == websocket.TextMessage {
						e.Op("dec str "+vh.Hex(sent[j].data), kindName(got[j])+" "+vh.Hex(got[j].data))
					} else {
						e.Op("dec arr1 "+vh.Hex([]byte(base64.StdEncoding.EncodeToString(sent[j].data))), kindName(got[j])+" "+vh.Hex(got[j].data))
					}
				}
				if got[j].typ != sent[j].typ || !bytes.Equal(got[j].data, sent[j].data) {
					e.Fail("C11:client-to-server-altered", fmt.Sprintf("message %d: sent %s/%d bytes, backend received %s/%d bytes", j, kind(sent[j]), len(sent[j].data), kind(got[j]), len(got[j].data)), i, nil, nil, nil)
					break
				}
			}
		}
		if len(got) > len(sent) {
			e.Fail("C11:client-to-server-duplicated", fmt.Sprintf("backend received %d messages, %d sent", len(got), len(sent)), i, nil, nil, nil)
		}
		// server -> client, polls racing the sends
		var ssent []wsMsg
		bursts := 1 + rng.Intn(4)
		for b := 0; b < bursts; b++ {
			k := 1 + rng.Intn(6)
			if rng.Chance(25) {
				k = 11 + rng.Intn(25)
				long = true
			}
			for j := 0; j < k; j++ {
				ssent = append(ssent, genMsg(rng, e.Thorough()))
			}
		}
		go func() {
			for _, m := range ssent {
				bc.WriteMessage(m.typ, m.data)
			}
		}()
		var polled []wsMsg
		for tries := 0; len(polled) < len(ssent) && tries < 10000; tries++ {
			c, rb := shimCall(h, "poll", `{"id":"`+open.ID+`"}`, nil)
			if c != 200 {
				e.Fail("C11:poll-failed", fmt.Sprintf("poll: %d %s", c, rb), i, nil, nil, nil)
				break
			}
			var arr []interface{}
			if err := json.Unmarshal([]byte(rb), &arr); err != nil {
				e.Fail("C11:poll-reply-malformed", err.Error(), i, nil, nil, nil)
				break
			}
			for _, x := range arr {
				idx := len(polled)
				switch v := x.(type) {
				case string:
					polled = append(polled, wsMsg{websocket.TextMessage, []byte(v)})
					if idx < len(ssent) && len(ssent[idx].data) <= 64 {
						e.Op("ser "+kind(ssent[idx])+" "+vh.Hex(ssent[idx].data), "str "+vh.Hex([]byte(v)))
					}
				case []interface{}:
					if len(v) == 1 {
						if s, ok := v[0].(string); ok {
							d, err := base64.StdEncoding.DecodeString(s)
							if err != nil {
								e.Fail("C11:poll-bad-base64", s, i, nil, nil, nil)
							}
							polled = append(polled, wsMsg{websocket.BinaryMessage, d})
							if idx < len(ssent) && len(ssent[idx].data) <= 64 {
								e.Op("ser "+kind(ssent[idx])+" "+vh.Hex(ssent[idx].data), "arr1 "+vh.Hex([]byte(s)))
							}
							continue
						}
					}
					e.Fail("C11:poll-reply-shape", fmt.Sprintf("%v", v), i, nil, nil, nil)
				default:
					e.Fail("C11:poll-reply-shape", fmt.Sprintf("%v", v), i, nil, nil, nil)
				}
			}
		}
		for j := range ssent {
			if j >= len(polled) {
				e.Fail("C11:server-messages-lost", fmt.Sprintf("client polled %d of %d server messages", len(polled), len(ssent)), i, nil, nil, nil)
				break
			}
			if polled[j].typ != ssent[j].typ || !bytes.Equal(polled[j].data, ssent[j].data) {
				e.Fail("C11:server-to-client-altered", fmt.Sprintf("message %d: server sent %s/%d bytes, client got %s/%d bytes", j, kind(ssent[j]), len(ssent[j].data), kind(polled[j]), len(polled[j].data)), i, nil, nil, nil)
				break
			}
		}
		if len(polled) > len(ssent) {
			e.Fail("C11:server-to-client-duplicated", fmt.Sprintf("client polled %d messages, %d sent", len(polled), len(ssent)), i, nil, nil, nil)
		}
		// malformed / odd client messages (codec correspondence)
		base := len(be.received())
		for _, bad := range []struct{ op, js string }{
			{"dec arr1 " + vh.Hex([]byte("!!!not-base64")), `["!!!not-base64"]`},
			{"dec arr1 " + vh.Hex([]byte("QQ")), `["QQ"]`},
			{"dec num", `5`},
			{"dec obj", `{"a":1}`},
			{"dec arr0", `[]`},
			{"dec arr2", `["QQ==","QQ=="]`},
			{"dec arrnum", `[5]`},
		} {
			c, _ := shimCall(h, "data", `[{"id":"`+open.ID+`","msg":`+bad.js+`}]`, nil)
			// a sentinel tells whether anything was relayed for the odd message
			shimCall(h, "data", `[{"id":"`+open.ID+`","msg":"sentinel"}]`, nil)
			be.waitRecv(base + 1)
			r := be.received()
			obs := "error"
			if c == 200 {
				if len(r) == base+1 && string(r[base].data) == "sentinel" {
					obs = "skip"
				} else if len(r) >= base+2 {
					obs = kindName(r[base]) + " " + vh.Hex(r[base].data)
				}
			}
			base = len(r)
			e.Op(bad.op, obs)
			e.Count("malformed:" + obs)
		}
		if i%3 == 0 {
			// last words: the server sends a few messages and closes at once, while no poll is outstanding; the
			// client's later polls must still deliver every one of them (then the session is reported closed)
			var last []wsMsg
			for k := 1 + rng.Intn(14); k > 0; k-- {
				last = append(last, genMsg(rng, false))
			}
			for _, m := range last {
				bc.WriteMessage(m.typ, m.data)
			}
			bc.WriteControl(websocket.CloseMessage, websocket.FormatCloseMessage(websocket.CloseNormalClosure, ""), time.Now().Add(time.Second))
			time.Sleep(time.Duration(20+rng.Intn(100)) * time.Millisecond)
			bc.Close()
			var got []wsMsg
			for tries := 0; tries < 50; tries++ {
				c, rb := shimCall(h, "poll", `{"id":"`+open.ID+`"}`, nil)
				if c != 200 {
					break
				}
				var arr []interface{}
				if json.Unmarshal([]byte(rb), &arr) != nil {
					break
				}
				for _, x := range arr {
					switch v := x.(type) {
					case string:
						got = append(got, wsMsg{websocket.TextMessage, []byte(v)})
					case []interface{}:
						if len(v) == 1 {
							if sv, ok := v[0].(string); ok {
								d, _ := base64.StdEncoding.DecodeString(sv)
								got = append(got, wsMsg{websocket.BinaryMessage, d})
							}
						}
					}
				}
			}
			okAll := len(got) == len(last)
			for j := 0; okAll && j < len(last); j++ {
				okAll = got[j].typ == last[j].typ && bytes.Equal(got[j].data, last[j].data)
			}
			if !okAll {
				e.Fail("C11:server-messages-lost", fmt.Sprintf("the server sent %d messages and closed while no poll was outstanding; the client's polls then delivered %d of them", len(last), len(got)), i, nil, len(got), len(last))
			}
			e.Count("last-words-before-server-close")
		}
		shimCall(h, "close", `{"id":"`+open.ID+`"}`, nil)
		e.Eval(fmt.Sprint(i), long)
		e.Count(fmt.Sprintf("long=%v", long))
		if i < 3 {
			e.Sample(map[string]interface{}{"session": i, "client_messages": len(sent), "server_messages": len(ssent), "batch_or_burst_over_10": long})
		}
		cancel()
		bc.Close()
		be.srv.Close()
	}
	wsBurstThenClose(e, n)
}

func kindName(m wsMsg) string {
	if m.typ == websocket.TextMessage {
		return "text"
	}
	return "binary"
}

// ---- header injection --------------------------------------------------------

// genJ builds a random JSON value; returns (Go value for json.Marshal, model token form).
func genJ(rng *vh.Rng, depth int) interface{} {
	switch k := rng.Intn(8); {
	case k == 0:
		return nil
	case k == 1:
		return rng.Bool()
	case k == 2:
		switch rng.Intn(5) {
		case 0: // integers beyond 2^53, which float64 cannot hold
			return json.Number([]string{"9007199254740993", "18446744073709551615", "-9223372036854775809", "123456789012345678901234567890"}[rng.Intn(4)])
		case 1: // more digits than a float64 keeps
			return json.Number([]string{"0.1234567890123456789", "3.14159265358979323846", "1e400", "-2.5e-400"}[rng.Intn(4)])
		case 2:
			return json.Number([]string{"1.0", "1e2", "10e-1", "-0", "0.50"}[rng.Intn(5)])
		}
		return float64(rng.Intn(2000)) / 8
	case k == 3 || depth <= 0:
		return genUTF8(rng, rng.Intn(6))
	case k == 4:
		var xs []interface{}
		for j := rng.Intn(3); j > 0; j-- {
			xs = append(xs, genJ(rng, depth-1))
		}
		if xs == nil {
			xs = []interface{}{}
		}
		return xs
	default:
		m := map[string]interface{}{}
		for j := rng.Intn(4); j > 0; j-- {
			m[rng.Pick([]string{"a", "b", "resource", "headers", "X-A", "Content-Type", "k"})] = genJ(rng, depth-1)
		}
		return m
	}
}

// tokens renders a JSON value in the line format shared with the model driver:
// n | t | f | #<hex of canonical float> | s<hex> | [ v* ] | { <hexkey> v ... }   (keys sorted)
func tokens(v interface{}) string {
	switch x := v.(type) {
	case nil:
		return "n"
	case bool:
		if x {
			return "t"
		}
		return "f"
	case float64:
		return "#" + vh.Hex([]byte(canonNum(strconv.FormatFloat(x, 'g', -1, 64))))
	case json.Number:
		return "#" + vh.Hex([]byte(canonNum(string(x))))
	case string:
		return "s" + vh.Hex([]byte(x))
	case []interface{}:
		parts := []string{"["}
		for _, y := range x {
			parts = append(parts, tokens(y))
		}
		return strings.Join(append(parts, "]"), " ")
	case map[string]interface{}:
		ks := make([]string, 0, len(x))
		for k := range x {
			ks = append(ks, k)
		}
		sort.Strings(ks)
		parts := []string{"{"}
		for _, k := range ks {
			parts = append(parts, vh.Hex([]byte(k)), tokens(x[k]))
		}
		return strings.Join(append(parts, "}"), " ")
	}
	return "?"
}

// canonNum: the exact value of a JSON number literal as a fraction in lowest terms ("1.0", "1" and "10e-1" agree;
// 9007199254740993 and 9007199254740992 do not).
func canonNum(lit string) string {
	r, ok := new(big.Rat).SetString(lit)
	if !ok {
		return "?" + lit
	}
	return r.RatString()
}

// decodeExact decodes JSON keeping numbers as literals.
func decodeExact(b []byte) (interface{}, error) {
	d := json.NewDecoder(bytes.NewReader(b))
	d.UseNumber()
	var v interface{}
	err := d.Decode(&v)
	return v, err
}

func suiteWsInject(e *vh.Env) {
	e.OpenOps("wsinject")
	e.Result.Rule = "JSON text messages (random values; objects with/without resource.headers; headers holding some of the request's header names) sent through a shim session with header injection enabled; what the backend receives is compared as a JSON value with the model; non-trivial = message holding an object at resource.headers"
	be := newWsBackend()
	defer be.srv.Close()
	ident := func(h http.Handler, _ *metrics.MetricHandler) http.Handler { return h }
	h, _ := websockets.Proxy(context.Background(), http.NotFoundHandler(), be.host(), "shimpath", false, true, ident, nil)
	code, body := shimCall(h, "open", "ws://whatever/ws", nil)
	var open struct {
		ID string `json:"id"`
	}
	if code != 200 || json.Unmarshal([]byte(body), &open) != nil {
		e.Fail("C11:open-failed", body, -1, nil, nil, nil)
		return
	}
	n := e.N(300, 10000)
	for i := 0; i < n; i++ {
		if !e.Want(i) {
			continue
		}
		rng := e.Rng.Sub(i)
		var v interface{}
		target := false
		if rng.Chance(60) {
			hd := map[string]interface{}{}
			for j := rng.Intn(3); j > 0; j-- {
				hd[rng.Pick([]string{"X-A", "X-B", "Content-Type", "other"})] = genJ(rng, 1)
			}
			res := map[string]interface{}{"headers": hd}
			if rng.Chance(30) {
				res["k"] = genJ(rng, 1)
			}
			top := map[string]interface{}{"resource": res}
			for j := rng.Intn(3); j > 0; j-- {
				top[rng.Pick([]string{"a", "b", "k"})] = genJ(rng, 2)
			}
			if rng.Chance(15) {
				res["headers"] = genJ(rng, 1) // maybe not an object
			}
			_, target = res["headers"].(map[string]interface{})
			v = top
		} else {
			v = genJ(rng, 3)
		}
		target = false
		if top, ok := v.(map[string]interface{}); ok {
			if res, ok := top["resource"].(map[string]interface{}); ok {
				_, target = res["headers"].(map[string]interface{})
			}
		}
		text, _ := json.Marshal(v)
		if rng.Chance(12) {
			// something after the top-level value: not a JSON message any more, so it must pass unchanged
			text = append(text, []byte([]string{"}", "]", " }", "\n]", "x", " {}", ",", "}}"}[rng.Intn(8)])...)
			target = false
			v = nil
		}
		hdr := map[string]string{"X-Websocket-Shim-Version": "1"}
		for _, k := range []string{"X-A", "X-B", "Content-Type"} {
			if rng.Chance(60) {
				hdr[k] = rng.Pick([]string{"v1", "v2", "text/plain"})
			}
		}
		before := len(be.received())
		msgJS, _ := json.Marshal(string(text))
		wantType := websocket.TextMessage
		if rng.Chance(25) {
			// the same bytes as a binary message (shim protocol 1: a one-element array holding the base64 text)
			msgJS, _ = json.Marshal([]string{base64.StdEncoding.EncodeToString(text)})
			wantType = websocket.BinaryMessage
		}
		c, rb := shimCall(h, "data", `[{"id":"`+open.ID+`","msg":`+string(msgJS)+`}]`, hdr)
		if c != 200 || !be.waitRecv(before+1) {
			e.Fail("C11:inject-data-failed", fmt.Sprintf("%d %s", c, rb), i, nil, nil, nil)
			continue
		}
		got := be.received()[before]
		if got.typ != wantType {
			e.Fail("C11:inject-changed-type", fmt.Sprintf("message %q was sent as websocket message type %d and reached the backend as type %d (1 = text, 2 = binary)", truncBytesDrv(text, 80), wantType, got.typ), i, nil, got.typ, wantType)
		}
		if v == nil && len(text) > 0 && !json.Valid(text) {
			if !bytes.Equal(got.data, text) {
				e.Fail("C11:inject-changed-non-target", fmt.Sprintf("message %q is not a JSON value (data after the top-level value) but was changed to %q", text, got.data), i, nil, nil, nil)
			}
			e.Eval(string(text), false)
			e.Count("not-json")
			continue
		}
		gv, err := decodeExact(got.data)
		if err != nil {
			e.Fail("C11:inject-output-not-json", string(got.data), i, nil, nil, nil)
			continue
		}
		var hs []string
		hk := make([]string, 0, len(hdr))
		for k := range hdr {
			hk = append(hk, k)
		}
		sort.Strings(hk)
		for _, k := range hk {
			hs = append(hs, vh.Hex([]byte(k))+"="+vh.Hex([]byte(hdr[k])))
		}
		e.Op("inject "+strings.Join(hs, ",")+" "+tokens(v), tokens(gv))
		// oracle from the property: only resource.headers may change, and only by additions of request headers
		if !target {
			orig, _ := decodeExact(text)
			if tokens(orig) != tokens(gv) {
				e.Fail("C11:inject-changed-non-target", fmt.Sprintf("message %s without an object at resource.headers was changed to %s", text, got.data), i, nil, nil, nil)
			}
		} else {
			o := v.(map[string]interface{})["resource"].(map[string]interface{})["headers"].(map[string]interface{})
			g, ok := gv.(map[string]interface{})["resource"].(map[string]interface{})["headers"].(map[string]interface{})
			if !ok {
				e.Fail("C11:inject-lost-headers", string(got.data), i, nil, nil, nil)
				continue
			}
			for k, ov := range o {
				if tokens(jsonRoundTrip(ov)) != tokens(g[k]) {
					e.Fail("C11:inject-overwrote-header", fmt.Sprintf("resource.headers[%q] changed from %v to %v", k, ov, g[k]), i, nil, nil, nil)
				}
			}
			for k, gvv := range g {
				if _, had := o[k]; !had {
					if hv, isReq := hdr[k]; !isReq || gvv != hv {
						e.Fail("C11:inject-added-foreign", fmt.Sprintf("resource.headers[%q]=%v added, request header %q", k, gvv, hdr[k]), i, nil, nil, nil)
					}
				}
			}
			for k, hv := range hdr {
				if _, had := o[k]; !had && g[k] != hv {
					e.Fail("C11:inject-missing", fmt.Sprintf("request header %q not injected", k), i, nil, nil, nil)
				}
			}
		}
		e.Eval(string(text)+fmt.Sprint(hs), target)
		e.Count(fmt.Sprintf("target=%v", target))
		if i < 3 {
			e.Sample(map[string]interface{}{"message": string(text), "request_headers": hdr, "backend_received": string(got.data)})
		}
	}
	shimCall(h, "close", `{"id":"`+open.ID+`"}`, nil)
}

func jsonRoundTrip(v interface{}) interface{} {
	b, _ := json.Marshal(v)
	o, _ := decodeExact(b)
	return o
}
