//go:build verif

package main

import (
	"bytes"
	"fmt"
	"io"
	"net/http"
	"strings"
	"sync"
	"time"

	"github.com/google/inverting-proxy/agent/utils"
	"github.com/google/inverting-proxy/zz_verif/vh"
)

func init() { suites["upload"] = suiteUpload }

type attemptScript struct {
	read    int    // bytes to read from the body before answering (-1 = until EOF)
	outcome string // "200" | "500" | "503" | "reset"
	stale   int    // bytes a lingering reader keeps pulling from the same body after the attempt returned (0 = none)
}

// faultRT is a scripted RoundTripper recording what every attempt carried.
type faultRT struct {
	mu       sync.Mutex
	scripts  []attemptScript
	carried  [][]byte
	answered []string
	stales   sync.WaitGroup
	panics   []string // panics of the body's Read under two concurrent readers (what would kill the agent)
}

// readBody reads from the request body and turns a panic of the reader (possible when the failed attempt's reader
// and the retry use the unsynchronised seeker at the same time) into an error that is recorded.
func (f *faultRT) readBody(r *http.Request, p []byte) (n int, err error) {
	defer func() {
		if x := recover(); x != nil {
			f.mu.Lock()
			f.panics = append(f.panics, fmt.Sprint(x))
			f.mu.Unlock()
			n, err = 0, fmt.Errorf("body reader panicked: %v", x)
		}
	}()
	return r.Body.Read(p)
}

func (f *faultRT) RoundTrip(r *http.Request) (*http.Response, error) {
	f.mu.Lock()
	k := len(f.carried)
	f.carried = append(f.carried, nil)
	sc := attemptScript{read: -1, outcome: "200"}
	if k < len(f.scripts) {
		sc = f.scripts[k]
	}
	f.mu.Unlock()
	var got []byte
	buf := make([]byte, 700)
	eof := false
	for sc.read < 0 || len(got) < sc.read {
		n := len(buf)
		if sc.read >= 0 && sc.read-len(got) < n {
			n = sc.read - len(got)
		}
		c, err := f.readBody(r, buf[:n])
		got = append(got, buf[:c]...)
		if err != nil {
			eof = true
			break
		}
	}
	f.mu.Lock()
	f.carried[k] = got
	f.answered = append(f.answered, sc.outcome)
	f.mu.Unlock()
	if sc.stale > 0 && !eof {
		// what http.Transport's write loop may do after an early reply: keep reading the body
		f.stales.Add(1)
		go func() {
			defer f.stales.Done()
			left := sc.stale
			b := make([]byte, 300)
			for left > 0 {
				c, err := f.readBody(r, b[:minI(len(b), left)])
				left -= c
				if err != nil {
					return
				}
			}
		}()
	}
	switch sc.outcome {
	case "reset":
		return nil, fmt.Errorf("scripted connection reset")
	case "200":
		return &http.Response{StatusCode: 200, Body: io.NopCloser(strings.NewReader("")), Header: http.Header{}, Request: r}, nil
	default:
		code := 500
		fmt.Sscan(sc.outcome, &code)
		return &http.Response{StatusCode: code, Body: io.NopCloser(strings.NewReader("")), Header: http.Header{}, Request: r}, nil
	}
}

func minI(a, b int) int {
	if a < b {
		return a
	}
	return b
}

// runUpload drives the real response forwarder with a handler writing `chunks`; returns the RT and whether the handler finished.
func runUpload(chunks [][]byte, scripts []attemptScript) (*faultRT, bool, error) {
	rt := &faultRT{scripts: scripts}
	client := &http.Client{Transport: rt}
	req, _ := http.NewRequest("GET", "http://backend.example/x", nil)
	fw, err := utils.NewResponseForwarder(client, "http://proxy.invalid/", "b", "r", req, nil)
	if err != nil {
		return rt, false, err
	}
	done := make(chan error, 1)
	go func() {
		fw.Header().Set("X-Resp", "v")
		fw.WriteHeader(200)
		for _, c := range chunks {
			if _, err := fw.Write(c); err != nil {
				break
			}
		}
		done <- fw.Close()
	}()
	select {
	case cerr := <-done:
		rt.stales.Wait()
		return rt, true, cerr
	case <-time.After(5 * time.Second):
		return rt, false, nil
	}
}

func suiteUpload(e *vh.Env) {
	e.Result.Rule = "the real response forwarder (serialiser + bufferedReadSeeker + retry loop) with handler bodies sized around the 4096-byte replay limit and scripted proxy faults per attempt: kind {5xx, reset} x position {0, inside the head, 4095, 4096, 4097, after the body} x attempt {1, 2, 3}, with and without a lingering reader of the previous attempt; every attempt answered 2xx must have carried exactly the reference stream, at most 3 attempts, the handler must return; non-trivial = script with at least one failing attempt"
	n := e.N(250, 8000)
	blocked := 0
	for i := 0; i < n; i++ {
		if !e.Want(i) {
			continue
		}
		rng := e.Rng.Sub(i)
		// body so that the serialised stream lands around 4096 bytes
		var total int
		switch rng.Intn(5) {
		case 0:
			total = rng.Intn(300)
		case 1:
			total = 3900 + rng.Intn(200)
		case 2:
			total = 4096 + rng.Intn(200)
		case 3:
			total = 9000 + rng.Intn(20000)
		default:
			total = rng.Intn(6000)
		}
		var chunks [][]byte
		left := total
		for left > 0 {
			k := 1 + rng.Intn(1500)
			if k > left {
				k = left
			}
			chunks = append(chunks, rng.Bytes(k))
			left -= k
		}
		ref, ok, _ := runUpload(chunks, nil)
		if !ok || len(ref.carried) != 1 {
			e.Fail("C06:clean-upload-failed", fmt.Sprintf("case %d: clean run: handler returned %v, attempts %d", i, ok, len(ref.carried)), i, nil, nil, nil)
			continue
		}
		stream := ref.carried[0]
		positions := []int{0, 10, 60, 4095, 4096, 4097, len(stream) / 2, len(stream) - 1, -1}
		var scripts []attemptScript
		fails := rng.Intn(4)
		stale := false
		for a := 0; a < fails; a++ {
			sc := attemptScript{read: positions[rng.Intn(len(positions))], outcome: rng.Pick([]string{"500", "503", "reset"})}
			if rng.Chance(e.N(15, 25)) && sc.read >= 0 {
				sc.stale = 200 + rng.Intn(3000)
				stale = true
			}
			scripts = append(scripts, sc)
		}
		rt, ok, cerr := runUpload(chunks, scripts)
		what := fmt.Sprintf("case %d: stream %d bytes, attempt scripts %+v", i, len(stream), scripts)
		if !ok {
			e.Fail("C06:handler-blocked", what+": the backend-facing handler did not return within 5 s", i, nil, nil, nil)
			if blocked++; blocked >= 3 {
				break // every blocked case costs the 5 s watchdog; three concrete inputs are enough
			}
			continue
		}
		if len(rt.carried) > 1+utils.VerifMaxWriteResponseRetryCount {
			e.Fail("C06:too-many-attempts", what+fmt.Sprintf(": %d attempts", len(rt.carried)), i, nil, len(rt.carried), 3)
		}
		rt.mu.Lock()
		panics := append([]string(nil), rt.panics...)
		rt.mu.Unlock()
		if len(panics) > 0 {
			key := "C06:body-reader-panic:exclusive-reader"
			if stale {
				key = "C06:body-reader-panic:retry-overlaps-live-body-reader"
			}
			e.Fail(key, what+fmt.Sprintf(": Read of the upload body panicked (%s); in the agent this is the transport's goroutine, i.e. the process dies", panics[0]), i, nil, nil, nil)
		}
		acked := false
		for k, c := range rt.carried {
			if rt.answered[k] != "200" {
				continue
			}
			acked = true
			if !bytes.Equal(c, stream) {
				key := "C06:ack-corrupt:exclusive-reader"
				if stale {
					key = "C06:ack-corrupt:retry-overlaps-live-body-reader"
				}
				e.Fail(key, what+fmt.Sprintf(": attempt %d was acknowledged but carried %d bytes that differ from the %d-byte serialised response (first difference at %d)", k+1, len(c), len(stream), firstDiff(c, stream)), i, nil, len(c), len(stream))
			}
		}
		// a retry must only happen while the already-sent prefix is still replayable (< 4096 bytes read so far)
		read := 0
		for k := 0; k+1 < len(rt.carried); k++ {
			read += len(rt.carried[k])
			if !stale && len(rt.carried[k]) >= utils.VerifReadResponseBufSize {
				e.Fail("C06:retry-after-replay-limit", what+fmt.Sprintf(": attempt %d read %d bytes (>= %d) and was still retried", k+1, len(rt.carried[k]), utils.VerifReadResponseBufSize), i, nil, nil, nil)
			}
		}
		_ = cerr
		e.Eval(fmt.Sprintf("%d|%+v", len(stream), scripts), fails > 0)
		e.Count(fmt.Sprintf("fails=%d stale=%v acked=%v", fails, stale, acked))
		if i < 3 {
			e.Sample(map[string]interface{}{"stream_bytes": len(stream), "attempt_scripts": fmt.Sprintf("%+v", scripts), "attempts_made": len(rt.carried), "answers": rt.answered})
		}
	}
}

func firstDiff(a, b []byte) int {
	for i := 0; i < len(a) && i < len(b); i++ {
		if a[i] != b[i] {
			return i
		}
	}
	return minI(len(a), len(b))
}
