#!/bin/sh
# Run once after a fresh restore (offline): build the translator, regenerate the Lean
# model parts from /repo, build all Lean modules and the model driver, warm the Go cache.
set -e
cd /verif
export GOFLAGS=-mod=mod GOPROXY=off GOSUMDB=off GOTOOLCHAIN=local
mkdir -p .build evidence
(cd tools/goextract && go build -o /verif/.build/goextract .)
./.build/goextract -repo /repo -out /verif/lean/InvProxy/Gen
(cd lean && lake build InvProxy ipmodel 2>&1 | tail -5)
python3 - <<'PY'
import sys, os
sys.path.insert(0, "/verif/lib")
import vcheck as V
from props import DRIVERS
for name, pkg in DRIVERS.items():
    for race in (False, True):
        try:
            exe = V.go_build(pkg, "warm." + name + (".race" if race else ""), race=race)
            os.remove(exe)
        except V.Broken as b:
            print("warm build failed:", b, b.detail[-800:])
PY
echo setup done
