/-
  Model/Relay (C01).  The stand-alone proxy correlates a client with its response through
  a request ID: `ServeHTTP` draws an ID, records `requests[id] = pending` under the proxy
  mutex, offers the ID, and waits on the pending request's own channel; the agent fetches
  the request *by ID* and uploads the response *by ID*.  The labelled transition system
  below has one action per atomic step (= code between synchronisation operations) of
  clients, agent workers and the backend; every interleaving of these steps is a run.
  The ID generator is a parameter with two variants: `atomic` (draw = one step, as when
  the draw happens under the mutex) and `racy` (read and advance are separate steps, as
  with an unsynchronised `*rand.Rand`).  Which variant the code is in is decided from the
  regenerated skeletons (T3) in Props/C01.
-/
import InvProxy.Gen.Consts
import InvProxy.Gen.Skels
namespace InvProxy.Relay

abbrev Cid := Nat     -- client = its own request token: the backend echoes the token of the request it was given
abbrev Rid := Nat     -- request ID
abbrev Wid := Nat     -- agent worker

inductive Gen where | atomic | racy
  deriving DecidableEq, Repr

structure St where
  next : Nat                          -- generator state
  drawn : List (Cid × Rid)            -- racy only: value read, generator not yet advanced
  pending : List (Rid × Cid)          -- p.requests, newest binding first (a later insert shadows = overwrites)
  fetched : List (Wid × Rid × Cid)    -- worker w holds the request fetched under rid: it is client c's request
  produced : List (Rid × Cid)         -- backend responses uploaded under rid, produced from c's request
  delivered : List (Cid × Cid)        -- (client, token of the request the response was produced for)
  deriving DecidableEq, Repr

def init : St := { next := 0, drawn := [], pending := [], fetched := [], produced := [], delivered := [] }

def lookup (m : List (Rid × Cid)) (r : Rid) : Option Cid :=
  match m with
  | [] => none
  | (k, v) :: t => if k = r then some v else lookup t r

inductive Act where
  | arrive (c : Cid)                  -- atomic generator: draw an ID and register the pending request
  | read (c : Cid)                    -- racy generator, step 1: read the generator state
  | advance (c : Cid)                 -- racy generator, step 2: advance it and register the pending request
  | fetch (w : Wid) (r : Rid)         -- agent GET agent/request with ID r
  | upload (w : Wid)                  -- worker w ran the backend on what it fetched and POSTs the response under the same ID
  | deliver (r : Rid)                 -- the proxy hands the uploaded response to the client registered under r
  deriving DecidableEq, Repr

def step (g : Gen) (s : St) : Act → Option St
  | .arrive c =>
    if g = .atomic ∧ c ∉ s.pending.map (·.2) then
      some { s with next := s.next + 1, pending := (s.next, c) :: s.pending }
    else none
  | .read c =>
    if g = .racy ∧ c ∉ s.pending.map (·.2) ∧ c ∉ s.drawn.map (·.1) then
      some { s with drawn := (c, s.next) :: s.drawn }
    else none
  | .advance c =>
    match s.drawn.find? (·.1 = c) with
    | some (_, r) =>
      if g = .racy then
        some { s with next := r + 1, drawn := s.drawn.filter (·.1 ≠ c), pending := (r, c) :: s.pending }
      else none
    | none => none
  | .fetch w r =>
    match lookup s.pending r with
    | some c => some { s with fetched := (w, r, c) :: s.fetched }
    | none => none                                  -- 404
  | .upload w =>
    match s.fetched.find? (·.1 = w) with
    | some (_, r, c) => some { s with fetched := s.fetched.filter (·.1 ≠ w), produced := (r, c) :: s.produced }
    | none => none
  | .deliver r =>
    match s.produced.find? (·.1 = r), lookup s.pending r with
    | some (_, tok), some c =>
      if c ∈ s.delivered.map (·.1) then none        -- the client already has its response (respChan is read once)
      else some { s with produced := s.produced.erase (r, tok), delivered := (c, tok) :: s.delivered }
    | _, _ => none

def run (g : Gen) (s : St) : List Act → Option St
  | [] => some s
  | a :: as => match step g s a with | none => none | some s' => run g s' as

def Reachable (g : Gen) (s : St) : Prop := ∃ acts, run g init acts = some s

end InvProxy.Relay
