/-
  Model/RespPath (C03).  (a) the sequential semantics of `streamingResponseWriter`
  (agent/utils/utils.go:432-560): what response the serialising goroutine emits for a
  given sequence of handler operations.  The three header loops, the interim-status test
  and the map-sharing facts are regenerated from the source (tie T); the glue around them
  is hand-written and compared with the real writer (suite `srw`, tie C).
  (b) the stand-alone proxy's copy of the uploaded response to the client
  (`Gen.server_copyResponseHeader/Trailer`, regenerated) and the composition with the
  standard library's wire stages, which are parameters constrained by `StdRespSpec`.
-/
import InvProxy.Base.GoTypes
import InvProxy.Gen.Consts
import InvProxy.Gen.Funcs
namespace InvProxy.RespPath
open InvProxy InvProxy.Gen

/-- what the handler (httputil.ReverseProxy) does with the writer; `Close` is implicit at the end -/
inductive HOp where
  | setHeader (k v : Bytes)         -- Header().Set with canonical k
  | addHeader (k v : Bytes)
  | delHeader (k : Bytes)
  | writeHeader (code : Int)
  | write (bs : Bytes)
  deriving DecidableEq, Repr

structure Resp where
  status : Int
  hdr : Hdr
  body : Bytes
  trailer : Hdr
  deriving DecidableEq, Repr

structure SRW where
  hdr : Hdr              -- the handler's header map (`w.Header()`)
  wrote : Bool
  status : Int
  respHdr : Hdr          -- the response's own header map
  trailer : Hdr          -- w.trailer
  body : Bytes
  deriving DecidableEq, Repr

def SRW.init : SRW := { hdr := [], wrote := false, status := 0, respHdr := [], trailer := [], body := [] }

def SRW.writeHeader (s : SRW) (code : Int) : SRW :=
  if s.wrote then s
  else if utils_srwIgnoresStatus code then s
  else { s with wrote := true, status := code, trailer := utils_srwDeclareTrailers s.hdr, respHdr := utils_srwFilterHeader s.hdr }

def SRW.step (s : SRW) : HOp → SRW
  | .setHeader k v => { s with hdr := Hdr.set s.hdr k v }
  | .addHeader k v => { s with hdr := Hdr.add s.hdr k v }
  | .delHeader k => { s with hdr := Hdr.del s.hdr k }
  | .writeHeader c => s.writeHeader c
  | .write bs => let s := if s.wrote then s else s.writeHeader 200; { s with body := s.body ++ bs }

def SRW.close (s : SRW) : SRW :=
  let s := if s.wrote then s else s.writeHeader 200
  { s with trailer := utils_srwCollectTrailers s.hdr s.trailer }

/-- the response the serialiser emits once the handler has finished -/
def output (ops : List HOp) : Resp :=
  let s := (ops.foldl SRW.step SRW.init).close
  { status := s.status, hdr := s.respHdr, body := s.body, trailer := s.trailer }

/-- the first non-interim status the handler passes to WriteHeader before any body write; 200 otherwise -/
def finalStatus : List HOp → Int
  | [] => 200
  | .writeHeader c :: t => if utils_srwIgnoresStatus c then finalStatus t else c
  | .write _ :: _ => 200
  | _ :: t => finalStatus t

/-- the handler's header map at the moment the response head is fixed -/
def headerAtHead (h : Hdr) : List HOp → Hdr
  | [] => h
  | .setHeader k v :: t => headerAtHead (Hdr.set h k v) t
  | .addHeader k v :: t => headerAtHead (Hdr.add h k v) t
  | .delHeader k :: t => headerAtHead (Hdr.del h k) t
  | .writeHeader c :: t => if utils_srwIgnoresStatus c then headerAtHead h t else h
  | .write _ :: _ => h

/-- the handler's header map when it returns (what `Close` sees) -/
def headerAtClose (ops : List HOp) : Hdr :=
  ops.foldl (fun h op => match op with
    | .setHeader k v => Hdr.set h k v | .addHeader k v => Hdr.add h k v | .delHeader k => Hdr.del h k
    | _ => h) []

def bodyOf (ops : List HOp) : Bytes := ops.flatMap (fun op => match op with | .write bs => bs | _ => [])

def trailerPrefix : Bytes := [84,114,97,105,108,101,114,58]   -- "Trailer:"

/-- well-formed header maps: unique, canonical keys (what `http.Header` methods maintain) -/
def WF (h : Hdr) : Prop := (h.map (·.1)).Nodup ∧ ∀ p ∈ h, Go.canon p.1 = p.1

/-! ### (b) downstream: wire stages (standard library) and the proxy's copy -/

/-- `Response.Write` (forced chunked) on the agent, the HTTP transfer, and `http.ReadResponse`
    on the proxy, as one function on responses, constrained by the clauses the proof uses. -/
structure StdRespSpec (wire : Resp → Resp) : Prop where
  status : ∀ r, (wire r).status = r.status
  body : ∀ r, (wire r).body = r.body
  /-- end-to-end header fields arrive with their values in order; framing fields are the transfer's business -/
  hdr : ∀ r k, k ∉ [[67,111,110,116,101,110,116,45,76,101,110,103,116,104], [84,114,97,110,115,102,101,114,45,69,110,99,111,100,105,110,103], [84,114,97,105,108,101,114]] →
      Hdr.values (wire r).hdr k = Hdr.values r.hdr k
  trailer : ∀ r k, Hdr.values (wire r).trailer k = Hdr.values r.trailer k
  wf : ∀ r, WF r.hdr → WF r.trailer → WF (wire r).hdr ∧ WF (wire r).trailer

/-- what the client of the stand-alone proxy receives: header map at WriteHeader time, body, and the
    header map after the body (where trailers are announced with the `Trailer:` prefix) -/
structure ClientView where
  status : Int
  hdr : Hdr
  body : Bytes
  after : Hdr
  deriving DecidableEq, Repr

def proxyCopy (r : Resp) : ClientView :=
  let h := server_copyResponseHeader r.hdr []
  { status := r.status, hdr := h, body := r.body, after := server_copyResponseTrailer r.trailer h }

end InvProxy.RespPath
