/-
  Model/Stream (C05).  The path of a response body chunk through the agent:
    handler `Write` → body pipe → serialiser (`Response.Write`, chunked) → upload pipe →
    `bufferedReadSeeker.Read` → transport → proxy.
  Every hand-over is a rendezvous (`io.Pipe` has no buffer; the seeker returns after one
  source read): a stage holds at most one chunk and passes it on as soon as the next
  stage is free.  The variant `buffering n` is what a stage that accumulates at least `n`
  bytes before passing data on would look like.  Tied by T1/T3 facts (Write is a pipe
  write, the serialiser writes into the pipe, chunked is forced) and the lock-step suite
  `stream` on the real agent code (tie C).
-/
import InvProxy.Base.Bytes
import InvProxy.Gen.Consts
import InvProxy.Gen.Skels
namespace InvProxy.Stream
open InvProxy

inductive Variant where
  | rendezvous
  | buffering (n : Nat)     -- the serialiser holds data back until it has n bytes
  deriving DecidableEq, Repr

structure St where
  todo : List Bytes          -- chunks the backend will flush later
  s1 : Option Bytes          -- in the handler's Write (body pipe)
  acc : Bytes                -- held back by a buffering serialiser
  s2 : Option Bytes          -- in the serialiser's write (upload pipe)
  s3 : Option Bytes          -- in the transport's read
  uploaded : List Bytes      -- arrived at the proxy, in order
  deriving DecidableEq, Repr

def start (chunks : List Bytes) : St := { todo := chunks, s1 := none, acc := [], s2 := none, s3 := none, uploaded := [] }

inductive Act where
  | feed         -- environment: the backend flushes its next chunk (the handler is not in a Write)
  | ser          -- internal: the serialiser takes the pending Write
  | put          -- internal: the serialiser hands (what it holds) to the upload pipe
  | rd           -- internal: the transport reads from the upload pipe
  | send         -- internal: the transport delivers to the proxy
  deriving DecidableEq, Repr

/-- may the serialiser pass on what it holds? -/
def Variant.ready : Variant → Nat → Bool
  | .rendezvous, _ => true
  | .buffering n, held => decide (n ≤ held)

def step (v : Variant) (s : St) : Act → Option St
  | .feed => match s.todo, s.s1 with
    | c :: t, none => some { s with todo := t, s1 := some c }
    | _, _ => none
  | .ser => match s.s1 with
    | some c => if s.acc = [] ∨ v ≠ .rendezvous then some { s with s1 := none, acc := s.acc ++ c } else none
    | none => none
  | .put =>
    if s.acc ≠ [] ∧ s.s2 = none ∧ v.ready s.acc.length = true then
      some { s with acc := [], s2 := some s.acc }
    else none
  | .rd => match s.s2, s.s3 with
    | some c, none => some { s with s2 := none, s3 := some c }
    | _, _ => none
  | .send => match s.s3 with
    | some c => some { s with s3 := none, uploaded := s.uploaded ++ [c] }
    | none => none

def run (v : Variant) (s : St) : List Act → Option St
  | [] => some s
  | a :: as => match step v s a with | none => none | some s' => run v s' as

def internalEnabled (v : Variant) (s : St) : Bool :=
  (step v s .ser).isSome || (step v s .put).isSome || (step v s .rd).isSome || (step v s .send).isSome

def optBytes : Option Bytes → Bytes | some b => b | none => []

/-- all bytes in order: at the proxy, in the stages, still to come -/
def stream (s : St) : Bytes := s.uploaded.flatten ++ optBytes s.s3 ++ optBytes s.s2 ++ s.acc ++ optBytes s.s1 ++ s.todo.flatten

/-- number of internal steps still owed -/
def mu (s : St) : Nat :=
  (if s.s1.isSome then 4 else 0) + (if s.acc ≠ [] then 3 else 0) + (if s.s2.isSome then 2 else 0) + (if s.s3.isSome then 1 else 0)

/-- everything the backend has flushed so far has reached the proxy -/
def caughtUp (s : St) : Bool := s.s1.isNone && s.acc = [] && s.s2.isNone && s.s3.isNone

end InvProxy.Stream
