/-
  Model/Route (C18).  `mostSpecific` is the readable fold; `Gen.store_mostSpecificMatchingBackend`
  (regenerated from app/store/store.go on every run) is proved equal to it in Props/C18.
  `lookup` is the hand model of `persistentStore.LookupBackend` (+ `lookupSharedBackend`,
  `hasBackend`), tied by the correspondence suite `route`/`applookup`.
-/
import InvProxy.Base.GoTypes
import InvProxy.Gen.Consts
import InvProxy.Gen.Funcs
namespace InvProxy.Route
open InvProxy

/-- (backend id, prefix) pairs in the order the nested loops visit them -/
def pairs (bs : List Backend) : List (Bytes × Bytes) :=
  bs.flatMap (fun b => b.PathPrefixes.map (fun p => (b.BackendID, p)))

/-- one iteration of the inner loop: accumulator = (closestMatch, longestMatchingPath) -/
def stepMS (path : Bytes) (acc : Bytes × Bytes) (bp : Bytes × Bytes) : Bytes × Bytes :=
  if Go.hasPrefix path bp.2 then
    if acc.1 == [] || bp.2.length > acc.2.length then (bp.1, bp.2) else acc
  else acc

def mostSpecific (path : Bytes) (bs : List Backend) : Option Bytes :=
  let r := (pairs bs).foldl (stepMS path) ([], [])
  if r.1 == [] then none else some r.1

/-- the pairs whose prefix matches the path -/
def matching (path : Bytes) (bs : List Backend) : List (Bytes × Bytes) :=
  (pairs bs).filter (fun bp => Go.hasPrefix path bp.2)

/-- specification of "most specific": index `i` of `ms` holds a longest prefix, and it is
    the first entry of that maximal length -/
def IsBest (ms : List (Bytes × Bytes)) (i : Nat) : Prop :=
  i < ms.length ∧ (∀ j (hj : j < ms.length) (hi : i < ms.length), (ms[j]).2.length ≤ (ms[i]).2.length) ∧
  (∀ j (hj : j < ms.length) (hi : i < ms.length), j < i → (ms[j]).2.length < (ms[i]).2.length)

/-- the datastore as `LookupBackend` sees it: registered backends in key order and the
    last-seen time (ns) of each backend tracker (`none` = no tracker / datastore error) -/
structure Store where
  backends : List Backend
  lastSeen : Bytes → Option Int

def live (s : Store) (b : Bytes) (now : Int) : Bool :=
  match s.lastSeen b with
  | some t => decide (now - t < (Gen.store_backendTimeout : Int))
  | none => false

def ofUser (s : Store) (u : Bytes) : List Backend := s.backends.filter (fun b => b.EndUser == u)

/-- `lookupSharedBackend(path)` -/
def lookupShared (s : Store) (path : Bytes) (now : Int) : Option Bytes :=
  match mostSpecific path (ofUser s Gen.store_sharedBackendUser) with
  | some b => if live s b now then some b else none
  | none => none

/-- `LookupBackend(endUser, path)` at time `now`; `none` = error = 404 -/
def lookup (s : Store) (user path : Bytes) (now : Int) : Option Bytes :=
  match mostSpecific path (ofUser s user) with
  | some b => if live s b now then some b else none
  | none => lookupShared s path now

end InvProxy.Route
