/-
  Model/Bridge (C15).  `WebsocketNetConn` of utils/tcpbridge/connection: every `Write`
  becomes one text message carrying the lower-case hex of the bytes; `Read` loops over
  incoming messages until it holds decoded bytes, skipping non-text messages and empty
  payloads, hands out at most `len(buffer)` of them and keeps the rest.
  Hand-written from connection.go:58-87; tied by the correspondence suite `bridgeconn`.
-/
import InvProxy.Base.Bytes
namespace InvProxy.Bridge
open InvProxy

def hexDigit (n : UInt8) : UInt8 := if n < 10 then 48 + n else 87 + n

/-- `hex.EncodeToString` -/
def hexEnc : Bytes → Bytes
  | [] => []
  | b :: t => hexDigit (b >>> 4) :: hexDigit (b &&& 15) :: hexEnc t

def unhex (c : UInt8) : Option UInt8 :=
  if 48 ≤ c ∧ c ≤ 57 then some (c - 48)
  else if 97 ≤ c ∧ c ≤ 102 then some (c - 87)
  else if 65 ≤ c ∧ c ≤ 70 then some (c - 55)
  else none

/-- `hex.DecodeString`: odd length or a non-hex byte is an error -/
def hexDec : Bytes → Option Bytes
  | [] => some []
  | [_] => none
  | a :: b :: t =>
    match unhex a, unhex b, hexDec t with
    | some x, some y, some r => some ((x <<< 4 ||| y) :: r)
    | _, _, _ => none

inductive Msg where
  | text (payload : Bytes)      -- websocket.TextMessage
  | other (payload : Bytes)     -- binary / anything else that ReadMessage may return
  deriving DecidableEq, Repr

/-- `Write(bs)`: exactly one text message -/
def write (bs : Bytes) : Msg := .text (hexEnc bs)

structure Reader where
  buffered : Bytes        -- c.bufferedMsg
  inbox : List Msg        -- messages that ReadMessage will deliver, in order
  deriving DecidableEq, Repr

inductive ReadResult where
  | data (bs : Bytes) (r : Reader)   -- returned count = bs.length, nil error
  | block                             -- ReadMessage has nothing to deliver (would wait)
  | err                               -- undecodable text message
  deriving DecidableEq, Repr

/-- the `for len(c.bufferedMsg) == 0` loop -/
def fill : Bytes → List Msg → Option (Option (Bytes × List Msg))
  | b :: bs, inbox => some (some (b :: bs, inbox))
  | [], [] => some none                       -- block
  | [], .other _ :: t => fill [] t
  | [], .text p :: t =>
    match hexDec p with
    | none => none                            -- error
    | some raw => fill raw t

/-- `Read(bs)` with `len(bs) = n` -/
def read (n : Nat) (r : Reader) : ReadResult :=
  match fill r.buffered r.inbox with
  | none => .err
  | some none => .block
  | some (some (buf, inbox)) => .data (buf.take n) { buffered := buf.drop n, inbox := inbox }

/-- successive reads with the given buffer sizes; stops at the first block/error -/
def reads : List Nat → Reader → Bytes
  | [], _ => []
  | n :: ns, r =>
    match read n r with
    | .data bs r' => bs ++ reads ns r'
    | _ => []

/-- the byte stream still owed to the reader: buffered bytes, then the decoded text messages -/
def pending : Bytes → List Msg → Option Bytes
  | buf, [] => some buf
  | buf, .other _ :: t => pending buf t
  | buf, .text p :: t =>
    match hexDec p, pending [] t with
    | some raw, some rest => some (buf ++ raw ++ rest)
    | _, _ => none

def isText : Msg → Bool | .text _ => true | .other _ => false

/-- a full-duplex connection is a pair of independent directions -/
structure Conn where
  ab : Reader
  ba : Reader

end InvProxy.Bridge
