/-
  Model/Sessions (C10).  agent/sessions/sessions.go: the layer above the cookie jar.
  The jar itself (`net/http/cookiejar`) is an abstract parameter `JarOps`; the model is
  the LRU of jars keyed by session ID, the request step (extract the session ID, get or
  create the jar, rebuild `Cookie:` from the client's other cookies plus the jar's) and the
  response step (strip every `Set-Cookie`, issue the session cookie iff the request
  carried none, get or create the jar, store the backend's cookies).
  Hand-written; tied by T3 (lock regions of `cachedCookieJar`), T2 (session cookie
  attributes) and the correspondence suite `sessions` (tie C) + race runs (tie R).
-/
import InvProxy.Base.Bytes
import InvProxy.Base.Lru
import InvProxy.Gen.Consts
import InvProxy.Gen.Funcs
import InvProxy.Gen.Skels
namespace InvProxy.Sessions
open InvProxy

/-- the cookie jar as an abstract data type over URLs `U`, backend cookies `SC` (parsed
    `Set-Cookie` values) and request cookies `C` -/
structure JarOps (J U SC C : Type) where
  empty : J
  set : J → U → List SC → J       -- Jar.SetCookies(u, cookies)
  get : J → U → List C            -- Jar.Cookies(u)

abbrev Sid := Bytes

/-- the LRU of jars, most recently used first; capacity 0 = unlimited (groupcache) -/
structure Cache (J : Type) where
  cap : Nat
  entries : List (Sid × J)

def keys {J : Type} (c : Cache J) : List Sid := c.entries.map (·.1)

def find {J : Type} (es : List (Sid × J)) (s : Sid) : Option J :=
  match es with
  | [] => none
  | (k, j) :: t => if k = s then some j else find t s

def remove {J : Type} (es : List (Sid × J)) (s : Sid) : List (Sid × J) := es.filter (fun p => p.1 ≠ s)

def trim {J : Type} (cap : Nat) (es : List (Sid × J)) : List (Sid × J) := if cap = 0 then es else es.take cap

/-- `cachedCookieJar(s)` as one atomic step (it runs under the cache mutex): the jar of `s`,
    created empty if absent, moved to the front; the oldest entry is evicted beyond `cap` -/
def getOrCreate {J U SC C : Type} (ops : JarOps J U SC C) (c : Cache J) (s : Sid) : Cache J × J :=
  let j := (find c.entries s).getD ops.empty
  ({ c with entries := trim c.cap ((s, j) :: remove c.entries s) }, j)

/-- store a new value for the front entry's jar (jars are shared mutable objects: the
    response writer mutates the jar it has just obtained) -/
def setJar {J : Type} (c : Cache J) (s : Sid) (j : J) : Cache J :=
  { c with entries := c.entries.map (fun p => if p.1 = s then (p.1, j) else p) }

structure Cfg where
  cookieName : Bytes

/-- request step: returns the new cache and the cookies sent on to the backend.
    `cookies` = the client's request cookies as (name, value); the session ID is the value
    of the first cookie carrying the session cookie name. -/
def sessionOf (cfg : Cfg) (cookies : List (Bytes × Bytes)) : Sid :=
  match cookies.find? (fun c => c.1 = cfg.cookieName) with
  | some c => c.2
  | none => []

inductive BackendCookie (C : Type) where
  | client (name value : Bytes)     -- one of the client's own cookies, passed on
  | jar (c : C)                     -- restored from the session's jar

def request {J U SC C : Type} (ops : JarOps J U SC C) (cfg : Cfg) (c : Cache J) (url : U) (cookies : List (Bytes × Bytes)) :
    Cache J × Sid × List (BackendCookie C) :=
  let s := sessionOf cfg cookies
  let own := (cookies.filter (fun k => k.1 ≠ cfg.cookieName)).map (fun k => BackendCookie.client k.1 k.2)
  if s = [] then (c, s, own)          -- no session cookie: no jar is looked up, the cache is not touched
  else
    let (c', j) := getOrCreate ops c s
    (c', s, own ++ (ops.get j url).map BackendCookie.jar)

/-- response step for a request that carried session ID `s` (`[]` = none) with the
    backend's parsed `Set-Cookie` values; `fresh` is the UUID drawn when a new session is
    created.  Returns the new cache and the session cookie issued to the client, if any.
    Backend cookies are never part of the output. -/
def response {J U SC C : Type} (ops : JarOps J U SC C) (c : Cache J) (s : Sid) (fresh : Sid) (url : U) (setCookies : List SC) :
    Cache J × Option Sid :=
  let sid := if s = [] then fresh else s
  let (c', j) := getOrCreate ops c sid
  let c'' := if setCookies = [] then c' else setJar c' sid (ops.set j url setCookies)
  (c'', if s = [] then some fresh else none)

inductive Op (U SC : Type) where
  | req (url : U) (cookies : List (Bytes × Bytes))
  | resp (s : Sid) (fresh : Sid) (url : U) (setCookies : List SC)

/-- the session a step touches in the LRU (a request without a session cookie touches none) -/
def Op.touched {U SC : Type} (cfg : Cfg) : Op U SC → Option Sid
  | .req _ cookies => if sessionOf cfg cookies = [] then none else some (sessionOf cfg cookies)
  | .resp s fresh _ _ => some (if s = [] then fresh else s)

def step {J U SC C : Type} (ops : JarOps J U SC C) (cfg : Cfg) (c : Cache J) : Op U SC → Cache J
  | .req url cookies => (request ops cfg c url cookies).1
  | .resp s fresh url sc => (response ops c s fresh url sc).1

def run {J U SC C : Type} (ops : JarOps J U SC C) (cfg : Cfg) (c : Cache J) (h : List (Op U SC)) : Cache J := h.foldl (step ops cfg) c

/-- the reference: one independent jar per session, fed with exactly that session's responses -/
def refJar {J U SC C : Type} (ops : JarOps J U SC C) (cfg : Cfg) (s : Sid) (h : List (Op U SC)) : J :=
  h.foldl (fun j op => match op with
    | .resp s' fresh url sc => if (if s' = [] then fresh else s') = s ∧ sc ≠ [] then ops.set j url sc else j
    | .req _ _ => j) ops.empty

def touches {U SC : Type} (cfg : Cfg) (h : List (Op U SC)) : List Sid := h.filterMap (Op.touched cfg)

end InvProxy.Sessions
