/-
  Model/Backoff (C08).  The deterministic part of `ExponentialBackoffDuration` is the
  generated definition `Gen.utils_backoffTarget` (uint / int64 semantics on `BitVec 64`).
  Modelled by hand: `addJitter`, whose float arithmetic is abstracted to exact rational
  arithmetic: jitter = 1 − p + r·2p with p = JitterPercent and r ∈ [0,1) a rational N/D,
  result = ⌊d · jitter⌋.  The polling loop's retry counter is the generated
  `Gen.agent_pollRetryStep`.
-/
import InvProxy.Gen.Consts
import InvProxy.Gen.Funcs
import InvProxy.Gen.Skels
namespace InvProxy.Backoff
open InvProxy

/-- `addJitter d p` for p = pn/pd and the random draw r = rn/rd:
    ⌊ d · (1 − p + r·2p) ⌋ = ⌊ d · ((pd − pn)·rd + 2·pn·rn) / (pd·rd) ⌋. -/
def jitter (d pn pd rn rd : Nat) : Nat := d * ((pd - pn) * rd + 2 * pn * rn) / (pd * rd)

/-- delay for `retryCount` under draw r = rn/rd, in nanoseconds -/
def delay (retryCount : BitVec 64) (rn rd : Nat) : Nat :=
  jitter (Gen.utils_backoffTarget retryCount).toNat Gen.utils_JitterPercentNum Gen.utils_JitterPercentDen rn rd

/-- closed form the property states: 2^n ms up to the cap of 3 s -/
def closedForm (n : Nat) : Nat := if n ≤ 11 then 2 ^ n * 1000000 else 3000000000

/-- The polling loop, abstracted to its retry counter: outcome of each list call
    (`true` = failed) ↦ the retry count the loop slept with (if it slept). -/
def runLoop (rc : BitVec 64) : List Bool → List (Option (BitVec 64))
  | [] => []
  | f :: fs => let (slept, rc') := Gen.agent_pollRetryStep f rc; slept :: runLoop rc' fs

end InvProxy.Backoff
