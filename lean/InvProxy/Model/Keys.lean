/-
  Model/Keys: how the App Engine proxy names what it stores — `fmt.Sprintf(format, backendID, requestID)`
  for the memcache keys of app/cache/cache.go and `fmt.Sprintf("%s%q", prefix, backendID)` for the
  datastore kind of app/store/store.go — with Go's `%q` (strconv.Quote) on byte strings.

  `quote` is exact for ASCII input (printable bytes as they are, `\"` `\\`, the seven letter
  escapes, `\xNN` for the other control bytes and DEL); bytes >= 0x80 are rendered `\xNN`, which
  is what Go does for invalid UTF-8 (valid multi-byte runes are copied or `\u`-escaped by Go;
  IDs in this system are ASCII: request IDs are App Engine request IDs / hex, backend IDs are
  chosen by the administrator).  Suite `quote` compares it with Go on ASCII and invalid-UTF-8 input.
-/
import InvProxy.Base.Bytes
namespace InvProxy.Keys

def hexDigit (n : UInt8) : UInt8 := if n < 10 then 48 + n else 87 + n      -- '0'..'9','a'..'f'

/-- strconv's escape of one byte inside a double-quoted string. -/
def esc (c : UInt8) : Bytes :=
  if c = 34 ∨ c = 92 then [92, c]
  else if 32 ≤ c ∧ c ≤ 126 then [c]
  else if c = 7 then [92, 97] else if c = 8 then [92, 98] else if c = 12 then [92, 102]
  else if c = 10 then [92, 110] else if c = 13 then [92, 114] else if c = 9 then [92, 116]
  else if c = 11 then [92, 118]
  else [92, 120, hexDigit (c / 16), hexDigit (c % 16)]

def escAll : Bytes → Bytes
  | [] => []
  | c :: cs => esc c ++ escAll cs

/-- `%q` -/
def quote (s : Bytes) : Bytes := 34 :: (escAll s ++ [34])

/-- One formatting verb applied to an argument: `%q` or `%s`. -/
inductive Verb | q | s
deriving DecidableEq, Repr

def Verb.fmt : Verb → Bytes → Bytes
  | .q, x => quote x
  | .s, x => x

/-- A two-argument format `pre ++ verb1 ++ mid ++ verb2` parsed from the Go format string:
    `parse "r:%q:%q" = some ("r:", .q, ":", .q)`.  Only `%q` and `%s` occur. -/
def splitVerb : Bytes → Option (Bytes × Verb × Bytes)
  | [] => none
  | 37 :: 113 :: rest => some ([], .q, rest)
  | 37 :: 115 :: rest => some ([], .s, rest)
  | c :: rest => match splitVerb rest with
      | some (pre, v, post) => some (c :: pre, v, post)
      | none => none

structure Fmt2 where
  pre : Bytes
  v1 : Verb
  mid : Bytes
  v2 : Verb
deriving DecidableEq, Repr

def parse2 (f : Bytes) : Option Fmt2 :=
  match splitVerb f with
  | some (pre, v1, rest) =>
    match splitVerb rest with
    | some (mid, v2, []) => some ⟨pre, v1, mid, v2⟩
    | _ => none
  | none => none

def Fmt2.key (f : Fmt2) (a b : Bytes) : Bytes := f.pre ++ f.v1.fmt a ++ f.mid ++ f.v2.fmt b

end InvProxy.Keys
