/-
  Model/AppAuth (C17, C19).  The App Engine proxy's handlers over an abstract store:
  agent calls (list / fetch / respond) behind `checkBackendID`, end-user calls behind
  `LookupBackend`, the backend-administration API behind `isAdminRequest`.
  Hand-written from app/proxy.go:132-258, 310-377, 476-531 and app/store/store.go (keys:
  requests under (backend, request ID), responses under the request ID alone, backends
  under their ID); tied by T3 (`checkBackendID` precedes every store access, admin test
  precedes backend CRUD), T1 (memcache/datastore key formats carry backend and request ID)
  and the correspondence suite `appauth` over the fake App Engine API (tie C).
-/
import InvProxy.Base.GoTypes
import InvProxy.Gen.Consts
import InvProxy.Gen.Skels
import InvProxy.Model.Route
namespace InvProxy.AppAuth
open InvProxy

abbrev Bid := Bytes
abbrev Rid := Bytes

structure ReqRec where
  user : Bytes
  contents : Bytes
  completed : Bool
  deriving DecidableEq, Repr

structure St where
  backends : List Backend
  reqs : List ((Bid × Rid) × ReqRec)      -- one entity per key (a datastore Put replaces)
  resps : List (Rid × Bytes)
  deriving DecidableEq, Repr

structure Caller where
  oauth : Option Bytes          -- OAuth identity (agents, API clients)
  oauthAdmin : Bool
  user : Option Bytes           -- signed-in App Engine user (end users, console admins)
  userAdmin : Bool
  deriving DecidableEq, Repr

def findBackend (bs : List Backend) (b : Bid) : Option Backend := bs.find? (fun x => x.BackendID = b)

def getReq (rs : List ((Bid × Rid) × ReqRec)) (k : Bid × Rid) : Option ReqRec :=
  match rs with
  | [] => none
  | (k', r) :: t => if k' = k then some r else getReq t k

def getResp (rs : List (Rid × Bytes)) (r : Rid) : Option Bytes :=
  match rs with
  | [] => none
  | (k, v) :: t => if k = r then some v else getResp t r

inductive AuthErr where | noOAuth | noBackendID | notAllowed
  deriving DecidableEq, Repr

/-- `checkBackendID` -/
def checkBackendID (s : St) (c : Caller) (b : Bid) : Except AuthErr Bid :=
  match c.oauth with
  | none => .error .noOAuth
  | some email =>
    if b = [] then .error .noBackendID
    else match findBackend s.backends b with
      | some be => if be.BackendUser = email then .ok b else .error .notAllowed
      | none => .error .notAllowed

inductive Body where
  | ids (l : List Rid)
  | request (user contents : Bytes)
  | authErr (e : AuthErr)
  | text (t : Nat)               -- other fixed error texts (by code), independent of the store
  | response (contents : Bytes)
  | backends (l : List Backend)
  | empty
  deriving DecidableEq, Repr

inductive AgentEp where | list | fetch | respond
  deriving DecidableEq, Repr

def pendingOf (s : St) (b : Bid) : List Rid :=
  (s.reqs.filter (fun p => p.1.1 = b ∧ p.2.completed = false)).map (·.1.2)

/-- an agent call: returns status, body and the new state -/
def agentCall (s : St) (c : Caller) (ep : AgentEp) (b : Bid) (r : Rid) (payload : Bytes) : Nat × Body × St :=
  match checkBackendID s c b with
  | .error e => (401, .authErr e, s)
  | .ok b =>
    match ep with
    | .list => (200, .ids (pendingOf s b), s)
    | .fetch =>
      if r = [] then (400, .text 1, s)
      else match getReq s.reqs (b, r) with
        | some rec => (200, .request rec.user rec.contents, s)
        | none => (404, .text 2, s)
    | .respond =>
      if r = [] then (400, .text 3, s)
      else match getReq s.reqs (b, r) with
        | none => (404, .text 4, s)
        | some _ => (200, .empty, { s with resps := (r, payload) :: s.resps,
                                            reqs := s.reqs.map (fun p => if p.1 = (b, r) then (p.1, { p.2 with completed := true }) else p) })

/-- the backend-administration API (`/api/backends…`) -/
inductive AdminOp where | listBackends | addBackend (b : Backend) | deleteBackend (b : Bid)
  deriving DecidableEq, Repr

def isAdmin (c : Caller) : Bool := (c.user.isSome && c.userAdmin) || (c.oauth.isSome && c.oauthAdmin)

def adminCall (s : St) (c : Caller) (op : AdminOp) : Nat × Body × St :=
  if !isAdmin c then (403, .text 5, s)
  else match op with
    | .listBackends => (200, .backends s.backends, s)
    | .addBackend b =>
      if b.BackendID = [] ∨ b.BackendUser = [] ∨ b.EndUser = [] ∨ b.PathPrefixes = [] then (400, .text 6, s)
      else (200, .empty, { s with backends := b :: s.backends.filter (fun x => x.BackendID ≠ b.BackendID) })
    | .deleteBackend b =>
      (200, .empty, { s with backends := s.backends.filter (fun x => x.BackendID ≠ b), reqs := s.reqs.filter (fun p => p.1.1 ≠ b) })

/-- an end-user request, step 1: route and store (`proxyHandler` up to `postRequest`).
    `live`/`now` stand for the backend trackers (C18); `rid` is the App Engine request ID. -/
def userPost (s : St) (c : Caller) (lastSeen : Bytes → Option Int) (now : Int) (rid : Rid) (path contents : Bytes) : Nat × Option Bid × St :=
  match c.user with
  | none => (401, none, s)
  | some u =>
    match Route.lookup { backends := s.backends, lastSeen := lastSeen } u path now with
    | none => (404, none, s)
    | some b => (0, some b, { s with reqs := ((b, rid), { user := u, contents := contents, completed := false }) :: s.reqs.filter (fun p => p.1 ≠ (b, rid)) })

/-- step 2: the waiting client reads the response stored under its own request ID (or times out: 504) -/
def userPoll (s : St) (rid : Rid) : Nat × Body :=
  match getResp s.resps rid with
  | some v => if v = [] then (504, .text 7) else (200, .response v)
  | none => (504, .text 7)

/-! ### postResponse: two concurrent store writes reporting errors on a bounded channel -/

structure PR where
  cap : Nat
  buf : Nat                   -- errors buffered in the channel
  a : Nat                     -- 0 = writing, 1 = must report an error, 2 = done
  b : Nat
  deriving DecidableEq, Repr

inductive PRAct where | aFinish (fail : Bool) | bFinish (fail : Bool) | aSend | bSend
  deriving DecidableEq, Repr

def prStep (s : PR) : PRAct → Option PR
  | .aFinish f => if s.a = 0 then some { s with a := if f then 1 else 2 } else none
  | .bFinish f => if s.b = 0 then some { s with b := if f then 1 else 2 } else none
  | .aSend => if s.a = 1 ∧ s.buf < s.cap then some { s with a := 2, buf := s.buf + 1 } else none
  | .bSend => if s.b = 1 ∧ s.buf < s.cap then some { s with b := 2, buf := s.buf + 1 } else none

def prRun (s : PR) : List PRAct → Option PR
  | [] => some s
  | x :: xs => match prStep s x with | none => none | some s' => prRun s' xs

/-- `wg.Wait()` returns -/
def prDone (s : PR) : Bool := s.a = 2 && s.b = 2
/-- some goroutine can still move -/
def prEnabled (s : PR) : Bool := s.a = 0 || s.b = 0 || (s.a = 1 && s.buf < s.cap) || (s.b = 1 && s.buf < s.cap)

end InvProxy.AppAuth
