/-
  Model/WsRelay (C11).  One direction of a shimmed websocket: a producer hands messages
  one at a time to a bounded FIFO (Go channel of capacity `cap`), a relay goroutine takes
  them out one at a time and writes them to the peer.  Client→server: producer = the data
  handler (one post outstanding at a time, element-wise, blocking when the channel is
  full), consumer = the writer goroutine.  Server→client: producer = the reader goroutine,
  consumer = polls (wait for ≥ 1, then drain what is there).
-/
import InvProxy.Gen.Consts
import InvProxy.Gen.Skels
namespace InvProxy.WsRelay

structure St (μ : Type) where
  cap : Nat
  todo : List μ        -- not yet handed to the channel (remaining posts, flattened / messages the server will still send)
  chan : List μ        -- buffered in the channel, oldest first
  done : List μ        -- delivered to the peer, oldest first
  deriving DecidableEq, Repr

inductive Act where
  | enq                 -- producer: channel send (enabled iff there is something to send and room, or cap = 0 rendezvous handled as room 1)
  | deq                 -- consumer: channel receive of one element
  | drain (k : Nat)     -- consumer: a poll taking the k oldest buffered elements (1 ≤ k ≤ buffered)
  deriving DecidableEq, Repr

def step {μ : Type} (s : St μ) : Act → Option (St μ)
  | .enq =>
    match s.todo with
    | m :: t => if s.chan.length < max s.cap 1 then some { s with todo := t, chan := s.chan ++ [m] } else none
    | [] => none
  | .deq =>
    match s.chan with
    | m :: t => some { s with chan := t, done := s.done ++ [m] }
    | [] => none
  | .drain k =>
    if 1 ≤ k ∧ k ≤ s.chan.length then some { s with chan := s.chan.drop k, done := s.done ++ s.chan.take k } else none

def run {μ : Type} (s : St μ) : List Act → Option (St μ)
  | [] => some s
  | a :: as => match step s a with | none => none | some s' => run s' as

def start {μ : Type} (cap : Nat) (msgs : List μ) : St μ := { cap := cap, todo := msgs, chan := [], done := [] }

end InvProxy.WsRelay
