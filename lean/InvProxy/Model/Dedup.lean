/-
  Model/Dedup (C04).  The agent's polling loop keeps an LRU of `requestCacheLimit` request
  IDs; an ID reported by the proxy is forwarded (a worker is spawned) iff it misses the
  cache.  Hand model of agent.go:221-226 over `Base/Lru`; tied by T3 (skeleton of
  `pollForNewRequests`), T1 (`requestCacheLimit`) and the correspondence suites `lru`, `dedup`.
  The proxy side (hand-off of each ID to exactly one list reply) is `handoff`.
-/
import InvProxy.Base.Lru
import InvProxy.Gen.Consts
import InvProxy.Gen.Skels
namespace InvProxy.Dedup
open InvProxy

/-- process one reported ID: (cache, spawned so far) -/
def step [DecidableEq α] (cap : Nat) (st : List α × List α) (x : α) : List α × List α :=
  (Lru.touch cap st.1 x, if x ∈ st.1 then st.2 else st.2 ++ [x])

/-- IDs for which a worker is spawned, in order, over the flattened list replies -/
def spawns [DecidableEq α] (cap : Nat) (h : List α) : List α := (h.foldl (step cap) ([], [])).2

/-- distinct elements in order of first occurrence -/
def firsts [DecidableEq α] : List α → List α
  | [] => []
  | x :: t => x :: (firsts t).filter (· ≠ x)

/-- the dedup window: between two consecutive reports of the same ID fewer than `cap`
    distinct other IDs were reported -/
def WindowOK [DecidableEq α] (cap : Nat) (h : List α) : Prop :=
  ∀ pre x mid post, h = pre ++ x :: mid ++ x :: post → x ∉ mid → (firsts mid).length < cap

/-! ### proxy side: the unbuffered hand-off channel -/

/-- State of the stand-alone proxy's ID hand-off: clients blocked offering their ID on the
    unbuffered channel, and the list replies produced so far. -/
structure Handoff (α : Type) where
  offering : List α            -- clients in `p.requestIDs <- id`
  replies : List (List α)      -- completed pending-list responses
  deriving DecidableEq, Repr

inductive HAct (α : Type) where
  | arrive (x : α)             -- a client starts offering a (fresh) ID
  | cancel (x : α)             -- the client's context is done before anyone took the ID
  | poll (taken : List α)      -- one poller's waitForRequestIDs returns exactly `taken`

/-- a poll takes a non-empty sub-multiset of the currently offered IDs (each receive on the
    unbuffered channel completes exactly one sender) -/
def hstep [DecidableEq α] (s : Handoff α) : HAct α → Option (Handoff α)
  | .arrive x => if x ∈ s.offering ∨ x ∈ s.replies.flatten then none else some { s with offering := s.offering ++ [x] }
  | .cancel x => if x ∈ s.offering then some { s with offering := s.offering.erase x } else none
  | .poll taken =>
    if taken ≠ [] ∧ taken.Nodup ∧ (∀ x ∈ taken, x ∈ s.offering) then
      some { offering := s.offering.filter (· ∉ taken), replies := s.replies ++ [taken] }
    else none

def hrun [DecidableEq α] (s : Handoff α) : List (HAct α) → Option (Handoff α)
  | [] => some s
  | a :: as => match hstep s a with | none => none | some s' => hrun s' as

end InvProxy.Dedup
