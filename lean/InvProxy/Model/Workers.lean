/-
  Model/Workers (C07).  The agent runs one bare goroutine per request (`go processOneRequest`);
  each worker walks through fetch → (connect → backend head → backend body) → upload, and any
  of these steps may fail.  A failure ends that worker with an error outcome; it does not
  touch any other worker, because workers share nothing but the objects whose concurrent
  use is covered by C01 (proxy map), C03 (no shared header maps), C10 (session cache under
  its mutex) and C12 (shim connections): those facts are imported here, and the product
  structure below is what remains.
-/
import InvProxy.Gen.Consts
import InvProxy.Gen.Skels
namespace InvProxy.Workers
open InvProxy

inductive Fault where
  | fetchFail        -- the proxy rejects or garbles the request fetch (all attempts)
  | connectFail      -- backend unreachable
  | headFail         -- malformed backend status line / headers
  | bodyFail         -- backend closes or resets mid-response
  | uploadFail       -- the proxy rejects the response upload (all attempts)
  deriving DecidableEq, Repr

inductive Outcome where
  | served (status : Nat)       -- a response was uploaded and acknowledged
  | gaveUp (f : Fault)          -- logged; nothing more happens for this request
  deriving DecidableEq, Repr

inductive Pc where
  | fetching | connecting | readingHead | streaming | uploading (status : Nat) | finished (o : Outcome)
  deriving DecidableEq, Repr

/-- one step of one worker; `f` = the fault (if any) injected at this step -/
def wstep (pc : Pc) (f : Option Fault) : Pc :=
  match pc, f with
  | .fetching, some .fetchFail => .finished (.gaveUp .fetchFail)
  | .fetching, _ => .connecting
  | .connecting, some .connectFail => .uploading 502          -- ReverseProxy's error handler answers 502
  | .connecting, _ => .readingHead
  | .readingHead, some .headFail => .uploading 502
  | .readingHead, _ => .streaming
  | .streaming, some .bodyFail => .uploading 200               -- head already sent: the truncated body is what the client gets
  | .streaming, _ => .uploading 200
  | .uploading _, some .uploadFail => .finished (.gaveUp .uploadFail)
  | .uploading st, _ => .finished (.served st)
  | .finished o, _ => .finished o

/-- the agent: a list of workers; the scheduler picks which one moves and the environment which fault hits it -/
abbrev Agent := List Pc

def astep (a : Agent) (i : Nat) (f : Option Fault) : Agent :=
  match a[i]? with
  | some pc => a.set i (wstep pc f)
  | none => a

def arun (a : Agent) : List (Nat × Option Fault) → Agent
  | [] => a
  | (i, f) :: t => arun (astep a i f) t

/-- the schedule with every fault removed from workers outside `keep` … is not what we need; instead:
    the sub-schedule that concerns worker j -/
def proj (j : Nat) (sched : List (Nat × Option Fault)) : List (Option Fault) :=
  (sched.filter (fun p => p.1 = j)).map (·.2)

def wrun (pc : Pc) : List (Option Fault) → Pc
  | [] => pc
  | f :: t => wrun (wstep pc f) t

end InvProxy.Workers
