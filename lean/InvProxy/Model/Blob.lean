/-
  Model/Blob (C19, storage part).  `newBlob` / `writeBlobParts` / `blob.read` of
  app/store/store.go:59-146.  The index arithmetic (`partCount`, slice bounds, inline
  test) is generated from the source (tie T); the assembly below is hand-written and
  compared with the real functions over a fake datastore (suite `blob`, tie C).
-/
import InvProxy.Base.Bytes
import InvProxy.Gen.Consts
import InvProxy.Gen.Funcs
namespace InvProxy.Blob
open InvProxy InvProxy.Gen

/-- Go's `bs[s:e]` for `s ≤ e ≤ len(bs)` -/
def slice (bs : Bytes) (s e : Nat) : Bytes := (bs.drop s).take (e - s)

/-- `writeBlobParts`: the contents of the part entities, in name order (`….part0`, `….part1`, …) -/
def writeParts (rest : Bytes) : List Bytes :=
  (List.range (store_partCount rest.length)).map fun i =>
    let b := store_partBounds i rest.length
    slice rest b.1 b.2

structure Blob where
  inlined : Bytes
  parts : List Bytes
  deriving DecidableEq, Repr

/-- `newBlob` (all part `Put`s succeeding) -/
def newBlob (bs : Bytes) : Blob :=
  if store_inlineTest bs.length then { inlined := bs, parts := [] }
  else { inlined := bs.take store_fieldByteLimit, parts := writeParts (bs.drop store_fieldByteLimit) }

/-- `blob.read` (all parts present) -/
def Blob.read (b : Blob) : Bytes := b.inlined ++ b.parts.flatten

end InvProxy.Blob
