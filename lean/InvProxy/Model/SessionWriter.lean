/-
  Model/SessionWriter: `sessionResponseWriter` across the WriteHeader calls of one response.
  The header edits of a call are the regenerated slice `Gen.sessions_writeHeaderEdits`; what is
  hand-written here is only the flag: `wrote` is set by a call exactly when the call is not
  interim (T1 fact `sessions_marksWrittenAfterInterimExit`), and a call after that is a no-op.
  Tie: suite `sessions` (backend scripts with 103 responses before the final one).
-/
import InvProxy.Gen.Funcs
namespace InvProxy.SessionWriter
open InvProxy InvProxy.Gen

/-- an interim (1xx other than 101) status, as `sessionResponseWriter.WriteHeader` tests it -/
def isInterim (status : Int) : Bool := decide (status ≥ 100) && decide (status ≤ 199) && status != 101

structure Writer where
  wrote : Bool
  sent : List (Int × Hdr)          -- (status, header) pairs passed to the wrapped writer

/-- `h` is the header map the handler presents at the call (ReverseProxy clears and refills it between calls). -/
def Writer.call (w : Writer) (noSession : Bool) (sc : Bytes) (parsed : Nat) (status : Int) (h : Hdr) : Writer :=
  if w.wrote then w
  else { wrote := !isInterim status, sent := w.sent ++ [(status, sessions_writeHeaderEdits false status noSession sc parsed h)] }

def Writer.calls (w : Writer) (noSession : Bool) (sc : Bytes) (parsed : Nat) : List (Int × Hdr) → Writer
  | [] => w
  | (st, h) :: rest => (w.call noSession sc parsed st h).calls noSession sc parsed rest

end InvProxy.SessionWriter
