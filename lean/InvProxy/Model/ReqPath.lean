/-
  Model/ReqPath (C02).  The path of a client request to the backend:
    Go server parse → `proxy.ServeHTTP` hop-by-hop filter (`Gen.server_filterRequestHeader`,
    regenerated) → `Request.Write` / transfer / `http.ReadRequest` (standard library) →
    `forwardRequest` header edits (`Gen.agent_forwardRequestHeader`, regenerated) →
    handler chain → `httputil.ReverseProxy` + transport (standard library).
  The repo-owned stages are the regenerated definitions; the standard-library stages are
  function parameters constrained by `StdReqSpec`, whose clauses are validated end to end
  by the suite `reqpath` (raw client bytes vs what a raw backend receives).
-/
import InvProxy.Base.GoTypes
import InvProxy.Gen.Consts
import InvProxy.Gen.Funcs
import InvProxy.Model.RespPath
namespace InvProxy.ReqPath
open InvProxy InvProxy.Gen

structure ReqM where
  method : Bytes
  target : Bytes        -- request target exactly as sent (escaped path and query)
  host : Bytes
  hdr : Hdr
  body : Bytes
  deriving DecidableEq, Repr

/-- lower-cased names of RFC 7230 §6.1 hop-by-hop fields, as cited in server.go -/
def specHop : List Bytes :=
  [[99,111,110,110,101,99,116,105,111,110], [107,101,101,112,45,97,108,105,118,101],
   [112,114,111,120,121,45,97,117,116,104,101,110,116,105,99,97,116,101], [112,114,111,120,121,45,97,117,116,104,111,114,105,122,97,116,105,111,110],
   [116,101], [116,114,97,105,108,101,114], [116,114,97,110,115,102,101,114,45,101,110,99,111,100,105,110,103], [117,112,103,114,97,100,101]]

/-- framing fields and fields the path may supply itself when the client sent none -/
def framing : List Bytes :=
  [[67,111,110,116,101,110,116,45,76,101,110,103,116,104], [84,114,97,110,115,102,101,114,45,69,110,99,111,100,105,110,103]]

/-- fields a standard-library stage may supply when the client sent none -/
def defaults : List Bytes :=
  [[85,115,101,114,45,65,103,101,110,116], [65,99,99,101,112,116,45,69,110,99,111,100,105,110,103], [88,45,70,111,114,119,97,114,100,101,100,45,70,111,114]]  -- User-Agent, Accept-Encoding, X-Forwarded-For

/-- a standard-library stage: keeps method, target, Host and body; keeps the values of every
    field that is neither hop-by-hop (by name or by a `Connection` option of the request) nor framing; adds fields only where there were none -/
structure StdReqSpec (stage : ReqM → ReqM) : Prop where
  method : ∀ q, (stage q).method = q.method
  target : ∀ q, (stage q).target = q.target
  host : ∀ q, (stage q).host = q.host
  body : ∀ q, (stage q).body = q.body
  keeps : ∀ q k, Hdr.values q.hdr k ≠ [] → server_isHopByHopHeader k = false → k ∉ framing →
      k ∉ Hdr.connDrops q.hdr →          -- a field named by a `Connection` option is hop-by-hop for this request
      Hdr.values (stage q).hdr k = Hdr.values q.hdr k
  drops_hop : ∀ q k, Hdr.values q.hdr k = [] → server_isHopByHopHeader k = true → Hdr.values (stage q).hdr k = []
  adds_only_defaults : ∀ q k, Hdr.values q.hdr k = [] → k ∉ defaults → k ∉ framing → Hdr.values (stage q).hdr k = []
  wf : ∀ q, RespPath.WF q.hdr → RespPath.WF (stage q).hdr

structure AgentCfg where
  forwardUserID : Bool
  stripCredentials : Bool
  user : Bytes

def proxyFilter (q : ReqM) : ReqM := { q with hdr := server_filterRequestHeader q.hdr }
def agentEdit (cfg : AgentCfg) (q : ReqM) : ReqM :=
  { q with hdr := agent_forwardRequestHeader cfg.forwardUserID cfg.stripCredentials cfg.user q.hdr }

/-- what the backend receives -/
def backendSees (wire rp : ReqM → ReqM) (cfg : AgentCfg) (q : ReqM) : ReqM :=
  rp (agentEdit cfg (wire (proxyFilter q)))

end InvProxy.ReqPath
