/-
  Model/WsCodec (C11).  The shim's message codec (connection.go:35-52, 183-212):
  text ↦ JSON string, binary ↦ one-element JSON array holding base64 (protocol version 1),
  and the header injection of `injectWebsocketMessage` on JSON values.
  JSON text parsing/printing (`encoding/json`) is not modelled: values are an inductive type.
-/
import InvProxy.Base.Bytes
import InvProxy.Gen.Consts
namespace InvProxy.WsCodec
open InvProxy

/-! ### base64 (`base64.StdEncoding`) -/

def b64char (n : UInt8) : UInt8 :=
  if n < 26 then 65 + n else if n < 52 then 71 + n else if n < 62 then n - 4 else if n = 62 then 43 else 47

def b64val (c : UInt8) : Option UInt8 :=
  if 65 ≤ c ∧ c ≤ 90 then some (c - 65)
  else if 97 ≤ c ∧ c ≤ 122 then some (c - 71)
  else if 48 ≤ c ∧ c ≤ 57 then some (c + 4)
  else if c = 43 then some 62
  else if c = 47 then some 63
  else none

def b64enc : Bytes → Bytes
  | [] => []
  | [a] => [b64char (a >>> 2), b64char ((a &&& 3) <<< 4), 61, 61]
  | [a, b] => [b64char (a >>> 2), b64char (((a &&& 3) <<< 4) ||| (b >>> 4)), b64char ((b &&& 15) <<< 2), 61]
  | a :: b :: c :: t =>
    b64char (a >>> 2) :: b64char (((a &&& 3) <<< 4) ||| (b >>> 4)) ::
    b64char (((b &&& 15) <<< 2) ||| (c >>> 6)) :: b64char (c &&& 63) :: b64enc t

/-- strict decoder (canonical padding required) -/
def b64dec : Bytes → Option Bytes
  | [] => some []
  | [w, x, 61, 61] =>
    match b64val w, b64val x with
    | some p, some q => some [(p <<< 2) ||| (q >>> 4)]
    | _, _ => none
  | [w, x, y, 61] =>
    match b64val w, b64val x, b64val y with
    | some p, some q, some r => some [(p <<< 2) ||| (q >>> 4), (q <<< 4) ||| (r >>> 2)]
    | _, _, _ => none
  | w :: x :: y :: z :: t =>
    match b64val w, b64val x, b64val y, b64val z, b64dec t with
    | some p, some q, some r, some s, some rest =>
      some (((p <<< 2) ||| (q >>> 4)) :: ((q <<< 4) ||| (r >>> 2)) :: ((r <<< 6) ||| s) :: rest)
    | _, _, _, _, _ => none
  | _ => none

/-! ### JSON values and websocket messages -/

inductive J where
  | null | bool (b : Bool) | num (repr : Bytes) | str (s : Bytes)
  | arr (xs : List J) | obj (fields : List (Bytes × J))
  deriving Repr

inductive Msg where
  | text (data : Bytes)        -- websocket.TextMessage
  | binary (data : Bytes)      -- websocket.BinaryMessage
  deriving DecidableEq, Repr

/-- `message.Serialize(1)` -/
def serialize : Msg → J
  | .text d => .str d
  | .binary d => .arr [.str (b64enc d)]

inductive Decoded where
  | msg (m : Msg)
  | skip            -- `[x]` with a non-string x: a nil message is queued and ignored by the writer
  | error           -- 400
  deriving DecidableEq, Repr

/-- the decoding part of `SendClientMessage` under protocol version 1 -/
def decodeClient : J → Decoded
  | .str s => .msg (.text s)
  | .arr [.str t] => match b64dec t with | some d => .msg (.binary d) | none => .error
  | .arr [_] => .skip
  | _ => .error

/-! ### header injection -/

def lookup (k : Bytes) : List (Bytes × J) → Option J
  | [] => none
  | (k', v) :: t => if k' = k then some v else lookup k t

def setField (k : Bytes) (v : J) : List (Bytes × J) → List (Bytes × J)
  | [] => [(k, v)]
  | (k', v') :: t => if k' = k then (k, v) :: t else (k', v') :: setField k v t

/-- add the `(k, v)` pairs whose key is not present yet -/
def addMissing (hs : List (Bytes × Bytes)) (fields : List (Bytes × J)) : List (Bytes × J) :=
  hs.foldl (fun fs kv => match lookup kv.1 fs with | some _ => fs | none => fs ++ [(kv.1, J.str kv.2)]) fields

def resourceKey : Bytes := [114,101,115,111,117,114,99,101]   -- "resource"
def headersKey : Bytes := [104,101,97,100,101,114,115]        -- "headers"

/-- `injectWebsocketMessage` on the parsed value: `none` = error = message left unchanged -/
def inject (hs : List (Bytes × Bytes)) (v : J) : Option J :=
  match v with
  | .obj top =>
    match lookup resourceKey top with
    | some (.obj res) =>
      match lookup headersKey res with
      | some (.obj hdrs) => some (.obj (setField resourceKey (.obj (setField headersKey (.obj (addMissing hs hdrs)) res)) top))
      | _ => none
    | _ => none
  | _ => none

end InvProxy.WsCodec
