/-
  Model/Seeker (C06).  `bufferedReadSeeker` of agent/utils/utils.go:315-355, hand-written:
  the first `cap` bytes ever read from the source are kept so that an upload attempt can
  be replayed from offset 0; `Seek` is refused once more than `cap-1`… precisely once the
  buffer is full (`writeHead >= len(buf)`), because then bytes may have been dropped.
  The refusal test itself is the generated `Gen.utils_Seek` (tie T); `read` is tied by
  the correspondence suite `seeker` (tie C).
-/
import InvProxy.Base.Bytes
import InvProxy.Gen.Consts
import InvProxy.Gen.Funcs
namespace InvProxy.Seeker
open InvProxy

structure St where
  cap : Nat
  buf : Bytes          -- b.buf[0:writeHead]
  readHead : Nat
  hist : Bytes         -- every byte the wrapped source has handed over so far
  sent : Bytes         -- bytes returned to the caller since the last successful Seek (or creation)
  deriving DecidableEq, Repr

def init (cap : Nat) : St := { cap := cap, buf := [], readHead := 0, hist := [], sent := [] }

/-- `Read(p)` with `len(p) = n`; `d` is what the wrapped source returns for the remaining
    room `p[readFromBuf:]` (so `d.length ≤ n - readFromBuf`).  Returns the bytes placed in `p`. -/
def read (s : St) (n : Nat) (d : Bytes) : St × Bytes :=
  let fromBuf := (s.buf.drop s.readHead).take n
  let rh := s.readHead + fromBuf.length
  let d := d.take (n - fromBuf.length)
  let written := d.take (s.cap - s.buf.length)
  let out := fromBuf ++ d
  ({ s with buf := s.buf ++ written, readHead := rh + written.length, hist := s.hist ++ d, sent := s.sent ++ out }, out)

/-- `Seek(0, io.SeekStart)` through the generated refusal test -/
def seek0 (s : St) : Option St :=
  match Gen.utils_Seek 0 0 (s.cap : Int) (s.buf.length : Int) (s.readHead : Int) with
  | some rh => some { s with readHead := rh.toNat, sent := [] }
  | none => none

inductive Op where
  | read (n : Nat) (d : Bytes)
  | seek
  deriving DecidableEq, Repr

/-- a refused seek leaves the state unchanged (the retry loop gives up) -/
def step (s : St) : Op → St
  | .read n d => (read s n d).1
  | .seek => (seek0 s).getD s

def run (s : St) (ops : List Op) : St := ops.foldl step s

/-- Two readers on ONE seeker (the situation after an early error reply: the transport of the
    failed attempt may still be reading the body when the retry starts).  Each item is
    (reader is the new attempt?, read size, what the source hands over); returns what the
    new attempt received. -/
def newAttemptReceives (s : St) : List (Bool × Nat × Bytes) → Bytes
  | [] => []
  | (isNew, n, d) :: t =>
    let (s', out) := read s n d
    (if isNew then out else []) ++ newAttemptReceives s' t

/-- the invariant of §4/C06 -/
structure Inv (s : St) : Prop where
  buf_prefix : s.buf = s.hist.take s.buf.length
  rh_le : s.readHead ≤ s.buf.length
  buf_le : s.buf.length ≤ s.cap
  not_full : s.buf.length < s.cap → s.buf = s.hist
  replaying : s.readHead < s.buf.length → s.buf.length < s.cap
  sent_eq : s.sent = if s.readHead < s.buf.length then s.hist.take s.readHead else s.hist

end InvProxy.Seeker
