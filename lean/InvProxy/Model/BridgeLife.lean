/-
  Model/BridgeLife (C16).  One bridged connection  A —tcp— F ==ws== H —tcp— B
  (F = tcp-bridge-frontend's per-connection goroutine, H = connection.Handler).
  Each side runs two copy loops (F1: A→ws, F2: ws→A, H1: ws→B, H2: B→ws) and tears its two
  connections down according to a `Teardown` variant read off the regenerated skeletons:
    waitBoth  – when both of its loops have ended (the code as it is: `wg.Wait()`)
    firstDone – as soon as one loop has ended
    halfClose – a loop that sees end-of-stream forwards it (close-write / FIN marker) and
                the side tears down when both loops have ended
  Data is counted in chunks; TCP and the websocket deliver in order, so a FIN / close is
  observed only after the data queued before it.
-/
import InvProxy.Gen.Consts
import InvProxy.Gen.Skels
namespace InvProxy.BridgeLife
open InvProxy

inductive Teardown where | waitBoth | firstDone | halfClose
  deriving DecidableEq, Repr

/-- one hop of one direction: chunks in flight and whether the sender has finished (FIN queued behind the data) -/
structure Hop where
  q : Nat
  fin : Bool
  deriving DecidableEq, Repr

structure St where
  -- direction A→B: A's socket to F, F to H over the websocket, H to B's socket
  ab1 : Hop
  ab2 : Hop
  ab3 : Hop
  -- direction B→A: B to H, H to F, F to A
  ba1 : Hop
  ba2 : Hop
  ba3 : Hop
  aSent : Nat
  bSent : Nat
  aGot : Nat
  bGot : Nat
  aClosed : Bool       -- peer A has closed its socket
  bClosed : Bool
  aEOF : Bool          -- peer A has observed end-of-stream
  bEOF : Bool
  f1 : Bool            -- loop still running
  f2 : Bool
  h1 : Bool
  h2 : Bool
  fDown : Bool         -- side F has closed both of its connections
  hDown : Bool
  deriving DecidableEq, Repr

def init : St :=
  { ab1 := ⟨0, false⟩, ab2 := ⟨0, false⟩, ab3 := ⟨0, false⟩, ba1 := ⟨0, false⟩, ba2 := ⟨0, false⟩, ba3 := ⟨0, false⟩,
    aSent := 0, bSent := 0, aGot := 0, bGot := 0, aClosed := false, bClosed := false, aEOF := false, bEOF := false,
    f1 := true, f2 := true, h1 := true, h2 := true, fDown := false, hDown := false }

inductive Act where
  -- environment
  | aSend | bSend | aClose | bClose
  -- internal: copy loops move one chunk, or end
  | f1Copy | f1End | f2Copy | f2End | h1Copy | h1End | h2Copy | h2End
  -- internal: peers receive
  | aRecv | bRecv | aSeeEOF | bSeeEOF
  -- internal: teardown of a side
  | fTear | hTear
  deriving DecidableEq, Repr

def Act.internal : Act → Bool
  | .aSend | .bSend | .aClose | .bClose => false
  | _ => true

/-- a loop reading hop `src` ends when the hop is drained and finished, or when its own side is down -/
def ended (src : Hop) (ownDown : Bool) : Bool := (src.q == 0 && src.fin) || ownDown

def step (v : Teardown) (s : St) : Act → Option St
  | .aSend => if !s.aClosed && !s.fDown then some { s with aSent := s.aSent + 1, ab1 := { s.ab1 with q := s.ab1.q + 1 } } else none
  | .bSend => if !s.bClosed && !s.hDown then some { s with bSent := s.bSent + 1, ba1 := { s.ba1 with q := s.ba1.q + 1 } } else none
  | .aClose => if !s.aClosed then some { s with aClosed := true, ab1 := { s.ab1 with fin := true } } else none
  | .bClose => if !s.bClosed then some { s with bClosed := true, ba1 := { s.ba1 with fin := true } } else none
  -- F1: A → websocket
  | .f1Copy => if s.f1 && !s.fDown && s.ab1.q > 0 then
      (if s.hDown then some { s with ab1 := { s.ab1 with q := s.ab1.q - 1 }, f1 := false }     -- write on the cut websocket fails: the loop ends
       else some { s with ab1 := { s.ab1 with q := s.ab1.q - 1 }, ab2 := { s.ab2 with q := s.ab2.q + 1 } }) else none
  | .f1End => if s.f1 && ended s.ab1 s.fDown then
      some { s with f1 := false, ab2 := if v = .halfClose then { s.ab2 with fin := true } else s.ab2 } else none
  -- H1: websocket → B
  | .h1Copy => if s.h1 && !s.hDown && s.ab2.q > 0 then
      some { s with ab2 := { s.ab2 with q := s.ab2.q - 1 }, ab3 := { s.ab3 with q := s.ab3.q + 1 } } else none
  | .h1End => if s.h1 && ended s.ab2 s.hDown then
      some { s with h1 := false, ab3 := if v = .halfClose then { s.ab3 with fin := true } else s.ab3 } else none
  -- H2: B → websocket
  | .h2Copy => if s.h2 && !s.hDown && s.ba1.q > 0 then
      (if s.fDown then some { s with ba1 := { s.ba1 with q := s.ba1.q - 1 }, h2 := false }
       else some { s with ba1 := { s.ba1 with q := s.ba1.q - 1 }, ba2 := { s.ba2 with q := s.ba2.q + 1 } }) else none
  | .h2End => if s.h2 && ended s.ba1 s.hDown then
      some { s with h2 := false, ba2 := if v = .halfClose then { s.ba2 with fin := true } else s.ba2 } else none
  -- F2: websocket → A
  | .f2Copy => if s.f2 && !s.fDown && s.ba2.q > 0 then
      some { s with ba2 := { s.ba2 with q := s.ba2.q - 1 }, ba3 := { s.ba3 with q := s.ba3.q + 1 } } else none
  | .f2End => if s.f2 && ended s.ba2 s.fDown then
      some { s with f2 := false, ba3 := if v = .halfClose then { s.ba3 with fin := true } else s.ba3 } else none
  -- peers
  | .bRecv => if !s.bClosed && s.ab3.q > 0 then some { s with ab3 := { s.ab3 with q := s.ab3.q - 1 }, bGot := s.bGot + 1 } else none
  | .aRecv => if !s.aClosed && s.ba3.q > 0 then some { s with ba3 := { s.ba3 with q := s.ba3.q - 1 }, aGot := s.aGot + 1 } else none
  | .bSeeEOF => if !s.bClosed && !s.bEOF && s.ab3.q == 0 && s.ab3.fin then some { s with bEOF := true } else none
  | .aSeeEOF => if !s.aClosed && !s.aEOF && s.ba3.q == 0 && s.ba3.fin then some { s with aEOF := true } else none
  -- teardown: the side closes both of its connections; queued data towards its peers is
  -- still delivered (FIN behind it), the websocket is cut for the other side
  | .fTear =>
    let ready := match v with
      | .firstDone => !s.f1 || !s.f2
      | _ => !s.f1 && !s.f2
    if ready && !s.fDown then some { s with fDown := true, ab2 := { s.ab2 with fin := true }, ba3 := { s.ba3 with fin := true } } else none
  | .hTear =>
    let ready := match v with
      | .firstDone => !s.h1 || !s.h2
      | _ => !s.h1 && !s.h2
    if ready && !s.hDown then some { s with hDown := true, ab3 := { s.ab3 with fin := true }, ba2 := { s.ba2 with fin := true } } else none

def run (v : Teardown) (s : St) : List Act → Option St
  | [] => some s
  | a :: as => match step v s a with | none => none | some s' => run v s' as

def enabledInternal (v : Teardown) (s : St) : List Act :=
  [Act.f1Copy, .f1End, .f2Copy, .f2End, .h1Copy, .h1End, .h2Copy, .h2End, .aRecv, .bRecv, .aSeeEOF, .bSeeEOF, .fTear, .hTear].filter
    (fun a => (step v s a).isSome)

/-- B has received everything A sent and has observed end-of-stream -/
def goalB (s : St) : Bool := s.bEOF && s.bGot == s.aSent
def goalA (s : St) : Bool := s.aEOF && s.aGot == s.bSent

/-- both sides have released their connections -/
def released (s : St) : Bool := s.fDown && s.hDown

/-- progress measure for the A→B direction and the teardown -/
def mu (s : St) : Nat :=
  4 * s.ab1.q + 3 * s.ab2.q + 2 * s.ab3.q + 4 * s.ba1.q + 3 * s.ba2.q + 2 * s.ba3.q +
  (if s.f1 then 1 else 0) + (if s.f2 then 1 else 0) + (if s.h1 then 1 else 0) + (if s.h2 then 1 else 0) +
  (if s.fDown then 0 else 1) + (if s.hDown then 0 else 1) + (if s.aEOF then 0 else 1) + (if s.bEOF then 0 else 1)

/-- which variant the code is in, from the regenerated skeleton of a side: two copy
    goroutines, then either `wg.Wait()` (waitBoth) or a single receive on a result channel
    with room for both results (firstDone). -/
def classify (sk : Skel) : Option Teardown :=
  if Skel.count (.call "io.Copy") sk = 2 ∧ Skel.count .goStart sk ≥ 2 then
    if Skel.waits "wg" sk ∧ Skel.count (.call "wg.Done") sk = 2 then some .waitBoth
    else if Skel.count (.recv "errc") sk = 1 ∧ (Skel.chanCap "errc" sk).getD 0 ≥ 2 then some .firstDone
    else none
  else none

end InvProxy.BridgeLife
