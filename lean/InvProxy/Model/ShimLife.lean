/-
  Model/ShimLife (C12).  One websocket-shim session: the three goroutines of
  `websockets.NewConnection` (reader, writer, closer), the session table entry, and any
  number of concurrently running shim calls (data / poll / close), each a little thread
  whose steps are the code between synchronisation operations of the handlers in shim.go
  and of `Connection.{SendClientMessage, ReadServerMessages, Close}`.
  Two variant parameters, read off the regenerated skeletons (T3):
    closeStyle:  closeChannel (Close sends the close frame, then closes the channel)
                 closeFrameOnly (the channel is never closed; the writer exits after the close frame)
    sendStyle:   checkThenSend (non-blocking test of `done`, then an unguarded send)
                 selectSend    (the send is a select case next to `done`)
-/
import InvProxy.Gen.Consts
import InvProxy.Gen.Skels
namespace InvProxy.ShimLife
open InvProxy

inductive CloseStyle where | closeChannel | closeFrameOnly
  deriving DecidableEq, Repr
inductive SendStyle where | checkThenSend | selectSend
  deriving DecidableEq, Repr
structure Variant where
  close : CloseStyle
  send : SendStyle
  deriving DecidableEq, Repr

def good : Variant := ⟨.closeFrameOnly, .selectSend⟩

inductive Pc where
  | dataLoad (n : Nat)            -- n messages of the post still to be sent: connections.Load
  | dataCheck (n : Nat)           -- non-blocking test of done
  | dataSend (n : Nat)            -- channel send of one message
  | closeLoad | closeDelete | closeSend | closeChan
  | pollLoad | pollWait
  | answered (status : Nat)
  | panicked
  deriving DecidableEq, Repr

structure St where
  cap : Nat                       -- capacity of both channels
  inTable : Bool                  -- the session is in the connections map
  cq : List Bool                  -- clientMessages; `true` = a close frame
  cqClosed : Bool                 -- close(conn.clientMessages) was executed
  sq : Nat                        -- serverMessages buffered
  sqClosed : Bool                 -- reader exited: close(serverMessages)
  incoming : Nat                  -- messages the backend has sent and the reader has not yet taken
  done : Bool                     -- context cancelled
  writer : Bool                   -- goroutines alive
  reader : Bool
  backendOpen : Bool              -- server connection open
  backendSawClose : Bool          -- the backend received a close (frame or connection close)
  calls : List Pc                 -- one entry per call started so far
  deriving DecidableEq, Repr

def init (cap : Nat) : St :=
  { cap := cap, inTable := true, cq := [], cqClosed := false, sq := 0, sqClosed := false, incoming := 0, done := false,
    writer := true, reader := true, backendOpen := true, backendSawClose := false, calls := [] }

inductive Act where
  | startData (n : Nat) | startClose | startPoll            -- environment: a new HTTP call
  | backendSend | backendClose                               -- environment
  | call (i : Nat)                                           -- call i takes its next step
  | pollTimeout (i : Nat)                                    -- the 20 s timer of a waiting poll fires
  | writerStep | writerFail | readerStep | closerStep        -- goroutines
  deriving DecidableEq, Repr

def Act.internal : Act → Bool
  | .startData _ | .startClose | .startPoll | .backendSend | .backendClose => false
  | _ => true

def setCall (s : St) (i : Nat) (pc : Pc) : St := { s with calls := s.calls.set i pc }

/-- after a data message has been handed over: next message or 200 -/
def nextData (n : Nat) : Pc := if n ≤ 1 then .answered 200 else .dataLoad (n - 1)

def callStep (v : Variant) (s : St) (i : Nat) : Option St :=
  match s.calls[i]? with
  | none => none
  | some pc =>
    match pc with
    | .dataLoad n =>
      if n = 0 then some (setCall s i (.answered 200))
      else if !s.inTable then some (setCall s i (.answered 400))
      else some (setCall s i (.dataCheck n))
    | .dataCheck n => if s.done then some (setCall s i (.answered 400)) else some (setCall s i (.dataSend n))
    | .dataSend n =>
      match v.send with
      | .checkThenSend =>
        if s.cqClosed then some (setCall s i .panicked)                      -- send on closed channel
        else if s.cq.length < s.cap then some (setCall { s with cq := s.cq ++ [false] } i (nextData n))
        else none                                                             -- blocked
      | .selectSend =>
        if s.cqClosed then some (setCall s i .panicked)
        else if s.cq.length < s.cap then some (setCall { s with cq := s.cq ++ [false] } i (nextData n))
        else if s.done then some (setCall s i (.answered 400))
        else none
    | .closeLoad => if !s.inTable then some (setCall s i (.answered 400)) else some (setCall s i .closeDelete)
    | .closeDelete => some (setCall { s with inTable := false } i .closeSend)
    | .closeSend =>
      match v.close with
      | .closeChannel =>
        if s.cqClosed then some (setCall s i .panicked)
        else if s.cq.length < s.cap then some (setCall { s with cq := s.cq ++ [true] } i .closeChan)
        else none
      | .closeFrameOnly =>
        if s.cq.length < s.cap then some (setCall { s with cq := s.cq ++ [true] } i (.answered 200))
        else if s.done then some (setCall s i (.answered 200))
        else none
    | .closeChan =>
      if s.cqClosed then some (setCall s i .panicked)                        -- close of closed channel
      else some (setCall { s with cqClosed := true } i (.answered 200))
    | .pollLoad => if !s.inTable then some (setCall s i (.answered 400)) else some (setCall s i .pollWait)
    | .pollWait =>
      if s.sq > 0 then some (setCall { s with sq := 0 } i (.answered 200))   -- at least one message: drain
      else if s.sqClosed then some (setCall { s with inTable := false } i (.answered 400))
      else none
    | .answered _ => none
    | .panicked => none

def step (v : Variant) (s : St) : Act → Option St
  | .startData n => some { s with calls := s.calls ++ [.dataLoad n] }
  | .startClose => some { s with calls := s.calls ++ [.closeLoad] }
  | .startPoll => some { s with calls := s.calls ++ [.pollLoad] }
  | .backendSend => if s.backendOpen then some { s with incoming := s.incoming + 1 } else none
  | .backendClose => if s.backendOpen then some { s with backendOpen := false, backendSawClose := true } else none
  | .call i => callStep v s i
  | .pollTimeout i => if s.calls[i]? = some .pollWait then some (setCall s i (.answered 408)) else none
  | .writerStep =>
    if !s.writer then none
    else if s.done then some { s with writer := false }
    else match s.cq with
      | [] => if s.cqClosed then some { s with writer := false, done := true } else none
      | m :: t =>
        if m && v.close = .closeFrameOnly then
          some { s with cq := t, writer := false, done := true, backendSawClose := s.backendSawClose || s.backendOpen }
        else some { s with cq := t, backendSawClose := s.backendSawClose || (m && s.backendOpen) }
  | .writerFail => if s.writer && !s.backendOpen then some { s with writer := false, done := true } else none
  | .readerStep =>
    if !s.reader then none
    else if s.done && s.incoming = 0 then some { s with reader := false, sqClosed := true }
    else if s.incoming > 0 then
      (if s.sq < s.cap then some { s with incoming := s.incoming - 1, sq := s.sq + 1 } else none)
    else if !s.backendOpen then some { s with reader := false, sqClosed := true, done := true }
    else none
  | .closerStep => if s.done && s.backendOpen then some { s with backendOpen := false, backendSawClose := true } else none

def run (v : Variant) (s : St) : List Act → Option St
  | [] => some s
  | a :: as => match step v s a with | none => none | some s' => run v s' as

def Reachable (v : Variant) (cap : Nat) (s : St) : Prop := ∃ acts, run v (init cap) acts = some s

def Pc.weight : Pc → Nat
  | .dataLoad n => 4 * n + 1 | .dataCheck n => 4 * n | .dataSend n => 4 * n - 1
  | .closeLoad => 6 | .closeDelete => 5 | .closeSend => 4 | .closeChan => 2
  | .pollLoad => 2 | .pollWait => 1
  | .answered _ => 0 | .panicked => 0

/-- progress measure: every internal step strictly decreases it -/
def mu (s : St) : Nat :=
  (s.calls.map Pc.weight).sum + s.cq.length + 2 * s.incoming + s.sq +
  (if s.writer then 1 else 0) + (if s.reader then 1 else 0) + (if s.backendOpen then 1 else 0)

/-- classification of the regenerated skeletons -/
def classify (closeSk sendSk : Skel) : Option Variant :=
  let cl := if Skel.closes "conn.clientMessages" closeSk then some CloseStyle.closeChannel
            else if Skel.sendGuardedBy "conn.clientMessages" "conn.done()" closeSk then some .closeFrameOnly else none
  let sd := if Skel.sendGuardedBy "conn.clientMessages" "conn.done()" sendSk then some SendStyle.selectSend
            else if Skel.sends "conn.clientMessages" sendSk then some .checkThenSend else none
  match cl, sd with
  | some c, some s => some ⟨c, s⟩
  | _, _ => none

end InvProxy.ShimLife
