/-
  Model/Inject (C14).  (a) `bannerResponseWriter` of agent/banner/banner.go: a response
  writer that forwards everything untouched unless the response is a frameable HTML
  document, in which case it marks it uncacheable/same-origin-frameable and — unless the
  request is already framed — replaces the body by the frame page.  The two predicates
  are the generated `Gen.banner_isHTMLRequest` / `Gen.banner_isFrameableHTMLResponse`
  (tie T); the writer's flag logic is hand-written from banner.go:172-218 (tie C, suite
  `banner`).  (b) `ShimBody` of agent/websockets/shim.go:257-289 (tie C, suite `splice`).
-/
import InvProxy.Base.GoTypes
import InvProxy.Gen.Consts
import InvProxy.Gen.Funcs
namespace InvProxy.Inject
open InvProxy

/-- what the handler (ReverseProxy) does with its ResponseWriter -/
inductive Op where
  | setHeader (k v : Bytes)        -- w.Header().Set(k, v) with canonical k
  | addHeader (k v : Bytes)
  | delHeader (k : Bytes)          -- w.Header().Del(k) with canonical k
  | writeHeader (code : Int)
  | write (bs : Bytes)
  deriving DecidableEq, Repr

/-- what reaches the wrapped writer -/
inductive Ev where
  | head (code : Int) (hdr : Hdr)  -- WriteHeader(code) with the header map as it is then
  | interim (code : Int) (hdr : Hdr) -- WriteHeader(1xx other than 101): passed on, the final header is still to come
  | body (bs : Bytes)
  deriving DecidableEq, Repr

/-- an interim (1xx other than 101) status, as the response writers test it -/
def isInterim (c : Int) : Bool := decide (c ≥ 100) && decide (c ≤ 199) && c != 101

/-- a plain recording ResponseWriter: interim responses pass, the first final WriteHeader wins, Write implies 200 -/
structure Plain where
  hdr : Hdr
  wrote : Bool
  out : List Ev
  deriving DecidableEq, Repr

def Plain.step (s : Plain) : Op → Plain
  | .setHeader k v => { s with hdr := Hdr.set s.hdr k v }
  | .addHeader k v => { s with hdr := Hdr.add s.hdr k v }
  | .delHeader k => { s with hdr := Hdr.del s.hdr k }
  | .writeHeader c =>
    if s.wrote then s
    else if isInterim c then { s with out := s.out ++ [.interim c s.hdr] }
    else { s with wrote := true, out := s.out ++ [.head c s.hdr] }
  | .write bs =>
    let s := if s.wrote then s else { s with wrote := true, out := s.out ++ [.head 200 s.hdr] }
    { s with out := s.out ++ [.body bs] }

def plain (h0 : Hdr) (ops : List Op) : List Ev := (ops.foldl Plain.step { hdr := h0, wrote := false, out := [] }).out

structure Cfg where
  alreadyFramed : Bool
  page : Bytes               -- the rendered frame page (getBanner)
  date : Bytes               -- time.Now() formatted, opaque
  deriving DecidableEq, Repr

def noCacheValue : Bytes := [110,111,45,99,97,99,104,101,44,32,110,111,45,115,116,111,114,101,44,32,109,97,120,45,97,103,101,61,48,44,32,109,117,115,116,45,114,101,118,97,108,105,100,97,116,101]  -- "no-cache, no-store, max-age=0, must-revalidate"
def epochValue : Bytes := [77,111,110,44,32,48,49,32,74,97,110,32,48,48,48,49,32,48,48,58,48,48,58,48,48,32,71,77,84] -- "Mon, 01 Jan 0001 00:00:00 GMT"
def noCache : Bytes := [110,111,45,99,97,99,104,101]   -- "no-cache"
def sameOrigin : Bytes := [115,97,109,101,111,114,105,103,105,110] -- "sameorigin"

/-- `setNotCacheable` then `setXFrameOptionsSameOrigin` -/
def markFrame (cfg : Cfg) (h : Hdr) : Hdr :=
  let h := Hdr.Set h Gen.banner_cacheControlHeader noCacheValue
  let h := Hdr.Set h Gen.banner_dateHeader cfg.date
  let h := Hdr.Set h Gen.banner_expiresHeader epochValue
  let h := Hdr.Set h Gen.banner_pragmaHeader noCache
  let h := Hdr.Del h Gen.banner_xFrameOptionsHeader
  Hdr.Set h Gen.banner_xFrameOptionsHeader sameOrigin

structure BW where
  hdr : Hdr
  wroteHeader : Bool
  writeBytes : Bool
  out : List Ev
  deriving DecidableEq, Repr

def BW.writeHeader (cfg : Cfg) (s : BW) (code : Int) : BW :=
  if s.wroteHeader then s else
  if isInterim code then { s with out := s.out ++ [.interim code s.hdr] } else
  let s := { s with wroteHeader := true }
  if !Gen.banner_isFrameableHTMLResponse code s.hdr then
    { s with writeBytes := true, out := s.out ++ [.head code s.hdr] }
  else
    let h := markFrame cfg s.hdr
    if cfg.alreadyFramed then
      { s with hdr := h, writeBytes := true, out := s.out ++ [.head code h] }
    else
      let h := Hdr.Del h Gen.banner_contentEncodingHeader
      { s with hdr := h, out := s.out ++ [.head code h, .body cfg.page] }

def BW.step (cfg : Cfg) (s : BW) : Op → BW
  | .setHeader k v => { s with hdr := Hdr.set s.hdr k v }
  | .addHeader k v => { s with hdr := Hdr.add s.hdr k v }
  | .delHeader k => { s with hdr := Hdr.del s.hdr k }
  | .writeHeader c => BW.writeHeader cfg s c
  | .write bs =>
    let s := if s.wroteHeader then s else BW.writeHeader cfg s 200
    if s.writeBytes then { s with out := s.out ++ [.body bs] } else s

/-- the banner handler: non-HTML requests bypass the writer altogether -/
def bannered (cfg : Cfg) (r : Req) (h0 : Hdr) (ops : List Op) : List Ev :=
  if !Gen.banner_isHTMLRequest r then plain h0 ops
  else (ops.foldl (BW.step cfg) { hdr := h0, wroteHeader := false, writeBytes := false, out := [] }).out

/-- status and header map at the moment the response head is produced -/
def headOf (h0 : Hdr) (ops : List Op) : Option (Int × Hdr) :=
  (plain h0 ops).findSome? fun e => match e with | .head c h => some (c, h) | _ => none

/-- the interim responses among the events -/
def interimsOf (evs : List Ev) : List Ev := evs.filter fun e => match e with | .interim _ _ => true | _ => false

/-- the final status that reaches the wrapped writer -/
def statusOf (evs : List Ev) : Option Int := evs.findSome? fun e => match e with | .head c _ => some c | _ => none

def bodyOf (evs : List Ev) : Bytes := evs.flatMap (fun e => match e with | .body b => b | _ => [])

/-! ### shim script splice -/

def headTag : Bytes := [60,104,101,97,100,62]   -- "<head>"
def htmlWord : Bytes := [104,116,109,108]        -- "html"

/-- the media type of a Content-Type value: everything before the first ';' (`strings.SplitN(v, ";", 2)[0]`) -/
def mediaType (ct : Bytes) : Bytes := ct.takeWhile (· != 59)

/-- ShimBody's test for "this response is an HTML document": the media type (not a parameter) mentions html -/
def isHTMLType (ct : Bytes) : Bool := Go.contains (Go.toLower (mediaType ct)) htmlWord

/-- `ShimBody`: `first` is what the first `Read` of at most 1024 bytes returned, `rest`
    the remainder of the body.  Returns the new body and whether Content-Length was dropped. -/
def shimBody (code ct first rest : Bytes) : Bytes × Bool :=
  if isHTMLType ct then
    (Go.replaceFirst first headTag (headTag ++ code) ++ rest, true)
  else (first ++ rest, false)

end InvProxy.Inject
