/-
  Model/ShimUrl (C13).  How the agent derives the websocket dial address from the URL a
  client puts into a shim `open` request.  `Gen.websockets_rewriteTarget` (regenerated from
  shim.go, tie T) says which fields of the copied URL the handler overwrites.  `dialOutcome`
  models `URL.String()` followed by gorilla's `Dialer.DialContext` (`url.Parse` again,
  reject userinfo, derive host:port) at the level of which network peer is contacted; it
  is validated against the real stack through a dial hook (suite `shimurl`, tie C).
-/
import InvProxy.Base.GoTypes
import InvProxy.Gen.Consts
import InvProxy.Gen.Funcs
namespace InvProxy.ShimUrl
open InvProxy

inductive Outcome where
  | refused                 -- gorilla returns an error before any connection is made
  | dial (host : Bytes)     -- connects to the authority `host`
  | foreign                 -- connects somewhere not derived from the configured host
                            -- (e.g. ":80" on the agent's own machine for an opaque URL)
  deriving DecidableEq, Repr

/-- `reparseOk`: whether `url.Parse(target.String())` succeeds (stdlib; supplied by the
    driver in the correspondence runs, universally quantified in the theorems). -/
def dialOutcome (reparseOk : Bool) (t : WsUrl) : Outcome :=
  if !reparseOk then .refused
  else if t.Scheme != [119,115] ∧ t.Scheme != [119,115,115] then .refused      -- not ws / wss
  else if t.Opaque != [] then .foreign          -- "ws:" ++ opaque: no authority, host "" ⇒ ":80"
  else if t.User.isSome then .refused           -- gorilla: errMalformedURL
  else if t.Host == [] then .foreign
  else .dial t.Host

/-- `ServeMux` routing of `websockets.Proxy` for canonical paths: the shim subtree or the wrapped handler -/
inductive Route where | shim | wrapped
  deriving DecidableEq, Repr

def route (shimPrefix path : Bytes) : Route := if Go.hasPrefix path shimPrefix then .shim else .wrapped

end InvProxy.ShimUrl
