/-
  Model/Lifecycle (C20).  The agent's `main`: health gate (`waitForHealthy`), health monitor
  (`runHealthChecks`), polling loop with its cancellable context, worker goroutines, signal
  handling and the graceful-shutdown timer.  The counter logic of the monitor is the
  regenerated `Gen.agent_healthCount/healthExit/healthClamp` (T2); the call order in `main`
  and the fact that workers do not see the polling context are regenerated facts (T3/T1);
  the automaton below is hand-written from agent.go:205-230, 252-295, 317-359 and tied by
  the black-box suite `lifecycle` on the real agent binary (tie C).
-/
import InvProxy.Gen.Consts
import InvProxy.Gen.Funcs
import InvProxy.Gen.Skels
namespace InvProxy.Lifecycle
open InvProxy InvProxy.Gen

/-- health gate: number of checks performed until the first one passes (`none` = never within the history) -/
def gate : List Bool → Option Nat
  | [] => none
  | true :: _ => some 1
  | false :: t => (gate t).map (· + 1)

/-- health monitor: run the regenerated counter over a history of check results
    (`true` = healthy); returns the number of checks after which the agent exits -/
def monitorFrom (threshold : Int) (bad : Int) (k : Nat) : List Bool → Option Nat
  | [] => none
  | ok :: t =>
    let bad' := agent_healthCount (!ok) bad
    if agent_healthExit bad' (agent_healthClamp threshold) then some (k + 1) else monitorFrom threshold bad' (k + 1) t

def monitor (threshold : Int) (hist : List Bool) : Option Nat := monitorFrom threshold 0 0 hist

/-- the last `t` results up to position `k` (1-based, inclusive) all failed -/
def failedWindow (hist : List Bool) (t k : Nat) : Bool := t ≤ k && ((hist.take k).drop (k - t)).all (· == false)

inductive Phase where
  | gating | running | draining | exited (code : Nat)
  deriving DecidableEq, Repr

inductive PollPc where
  | head          -- top of the loop: about to test the polling context
  | calling       -- a pending-list call is in flight
  | stopped       -- the loop has returned
  deriving DecidableEq, Repr

structure Cfg where
  healthEnabled : Bool
  threshold : Int
  grace : Nat            -- graceful-shutdown period; 0 = option not set
  deriving DecidableEq, Repr

structure St where
  phase : Phase
  bad : Int
  poll : PollPc
  cancelled : Bool       -- requestPollingCancel() was called
  listsStarted : Nat
  workers : Nat          -- requests forwarded to the backend and not yet answered
  answered : Nat
  deriving DecidableEq, Repr

def init (cfg : Cfg) : St :=
  { phase := if cfg.healthEnabled then .gating else .running, bad := 0, poll := .head, cancelled := false,
    listsStarted := 0, workers := 0, answered := 0 }

inductive Ev where
  | check (ok : Bool)        -- a health check completes
  | loopStep                 -- the polling loop takes its next step from the head
  | listReturns (n : Nat)    -- the in-flight list call returns n new request IDs (workers are spawned)
  | workerDone               -- a forwarded request's response has been uploaded in full
  | signal                   -- SIGINT or SIGTERM
  | graceElapsed             -- the graceful-shutdown timer fires
  deriving DecidableEq, Repr

def alive (s : St) : Bool := match s.phase with | .exited _ => false | _ => true

def step (cfg : Cfg) (s : St) : Ev → Option St
  | .check ok =>
    match s.phase with
    | .gating => if ok then some { s with phase := .running } else some s
    | .running | .draining =>
      if !cfg.healthEnabled then none else
      let bad' := agent_healthCount (!ok) s.bad
      if agent_healthExit bad' (agent_healthClamp cfg.threshold) then some { s with bad := bad', phase := .exited 1 }
      else some { s with bad := bad' }
    | .exited _ => none
  | .loopStep =>
    if !alive s || s.phase = .gating || s.poll ≠ .head then none
    else if s.cancelled then some { s with poll := .stopped }
    else some { s with poll := .calling, listsStarted := s.listsStarted + 1 }
  | .listReturns n =>
    if alive s && s.poll = .calling then some { s with poll := .head, workers := s.workers + n } else none
  | .workerDone =>
    if alive s && s.workers > 0 then some { s with workers := s.workers - 1, answered := s.answered + 1 } else none
  | .signal =>
    match s.phase with
    | .gating => some { s with phase := .exited 2 }          -- no handler installed yet: default action
    | .running =>
      if cfg.grace = 0 then some { s with phase := .exited 0 }
      else some { s with phase := .draining, cancelled := true }
    | _ => none
  | .graceElapsed =>
    if s.phase = .draining then some { s with phase := .exited 1 } else none

def run (cfg : Cfg) (s : St) : List Ev → Option St
  | [] => some s
  | e :: es => match step cfg s e with | none => none | some s' => run cfg s' es

end InvProxy.Lifecycle
