/-
  Proofs/BridgeLife (C16): the inductive invariant of the `halfClose` variant and the
  helper lemmas for the property theorems in Props/C16.
-/
import InvProxy.Model.BridgeLife
namespace InvProxy.BridgeLife
open InvProxy

/-- inductive invariant of the `halfClose` variant -/
structure Inv (s : St) : Prop where
  consAB : s.bGot + s.ab1.q + s.ab2.q + s.ab3.q = s.aSent
  consBA : s.aGot + s.ba1.q + s.ba2.q + s.ba3.q = s.bSent
  ab1fin : s.ab1.fin = s.aClosed
  ba1fin : s.ba1.fin = s.bClosed
  f1e : s.f1 = false → s.ab1.fin = true ∧ s.ab1.q = 0 ∧ s.ab2.fin = true
  ab2fin : s.ab2.fin = true → s.f1 = false
  h1e : s.h1 = false → s.ab2.fin = true ∧ s.ab2.q = 0 ∧ s.ab3.fin = true
  ab3fin : s.ab3.fin = true → s.h1 = false
  beof : s.bEOF = true → s.ab3.fin = true ∧ s.ab3.q = 0
  h2e : s.h2 = false → s.ba1.fin = true ∧ s.ba1.q = 0 ∧ s.ba2.fin = true
  ba2fin : s.ba2.fin = true → s.h2 = false
  f2e : s.f2 = false → s.ba2.fin = true ∧ s.ba2.q = 0 ∧ s.ba3.fin = true
  ba3fin : s.ba3.fin = true → s.f2 = false
  aeof : s.aEOF = true → s.ba3.fin = true ∧ s.ba3.q = 0
  fD : s.fDown = true → s.f1 = false ∧ s.f2 = false
  hD : s.hDown = true → s.h1 = false ∧ s.h2 = false

theorem inv_init : Inv init := by
  constructor <;> simp [init]

theorem inv_step (s s' : St) (a : Act) (hinv : Inv s) (h : step .halfClose s a = some s') : Inv s' := by
  obtain ⟨c1, c2, i1, i2, i3, i4, i5, i6, i7, i8, i9, i10, i11, i12, i13, i14⟩ := hinv
  cases a <;> simp only [step, ended] at h <;> (split at h) <;> try contradiction
  all_goals (try split at h)
  all_goals (cases h; constructor <;> dsimp only <;> grind)

theorem inv_run_from (acts : List Act) (s0 s : St) (h0 : Inv s0) (h : run .halfClose s0 acts = some s) : Inv s := by
  induction acts generalizing s0 with
  | nil => simp only [run] at h; cases h; exact h0
  | cons a as ih =>
    simp only [run] at h
    split at h
    · contradiction
    · next s1 hs => exact ih s1 (inv_step s0 s1 a h0 hs) h

theorem inv_run (acts : List Act) (s : St) (h : run .halfClose init acts = some s) : Inv s :=
  inv_run_from acts init s inv_init h

theorem mem_enabled (v : Teardown) (s : St) (a : Act)
    (hm : a ∈ [Act.f1Copy, .f1End, .f2Copy, .f2End, .h1Copy, .h1End, .h2Copy, .h2End, .aRecv, .bRecv, .aSeeEOF, .bSeeEOF, .fTear, .hTear])
    (hs : (step v s a).isSome = true) : enabledInternal v s ≠ [] := by
  apply List.ne_nil_of_mem (a := a)
  unfold enabledInternal
  exact List.mem_filter.mpr ⟨hm, hs⟩

theorem decreases (s s' : St) (a : Act) (hi : a.internal = true) (h : step .halfClose s a = some s') :
    mu s' < mu s := by
  cases a <;> simp only [Act.internal] at hi <;> try contradiction
  all_goals (simp only [step, ended] at h; split at h <;> try contradiction)
  all_goals (try split at h)
  all_goals (cases h; unfold mu; dsimp only; grind)

theorem no_spurious (s : St) (hinv : Inv s) (ha : s.aClosed = false) (hb : s.bClosed = false) :
    s.f1 ∧ s.f2 ∧ s.h1 ∧ s.h2 ∧ s.fDown = false ∧ s.hDown = false ∧ s.aEOF = false ∧ s.bEOF = false := by
  obtain ⟨c1, c2, i1, i2, i3, i4, i5, i6, i7, i8, i9, i10, i11, i12, i13, i14⟩ := hinv
  grind

theorem enabled (s : St) (hinv : Inv s) (ha : s.aClosed = true) (hb : s.bClosed = false) (hg : goalB s = false) :
    enabledInternal .halfClose s ≠ [] := by
  obtain ⟨c1, c2, i1, i2, i3, i4, i5, i6, i7, i8, i9, i10, i11, i12, i13, i14⟩ := hinv
  simp only [goalB] at hg
  by_cases hf1 : s.f1 = true
  · by_cases hq : s.ab1.q > 0
    · apply mem_enabled _ _ .f1Copy (by simp)
      simp only [step]; grind
    · apply mem_enabled _ _ .f1End (by simp)
      simp only [step, ended]; grind
  · by_cases hh1 : s.h1 = true
    · by_cases hq : s.ab2.q > 0
      · apply mem_enabled _ _ .h1Copy (by simp)
        simp only [step]; grind
      · apply mem_enabled _ _ .h1End (by simp)
        simp only [step, ended]; grind
    · by_cases hq : s.ab3.q > 0
      · apply mem_enabled _ _ .bRecv (by simp)
        simp only [step]; grind
      · apply mem_enabled _ _ .bSeeEOF (by simp)
        simp only [step]; grind

theorem released_enabled (s : St) (hinv : Inv s) (ha : s.aClosed = true) (hb : s.bClosed = true) (hr : released s = false) :
    enabledInternal .halfClose s ≠ [] := by
  obtain ⟨c1, c2, i1, i2, i3, i4, i5, i6, i7, i8, i9, i10, i11, i12, i13, i14⟩ := hinv
  simp only [released] at hr
  by_cases hf1 : s.f1 = true
  · by_cases hq : s.ab1.q > 0
    · apply mem_enabled _ _ .f1Copy (by simp)
      simp only [step]; grind
    · apply mem_enabled _ _ .f1End (by simp)
      simp only [step, ended]; grind
  by_cases hh1 : s.h1 = true
  · by_cases hq : s.ab2.q > 0
    · apply mem_enabled _ _ .h1Copy (by simp)
      simp only [step]; grind
    · apply mem_enabled _ _ .h1End (by simp)
      simp only [step, ended]; grind
  by_cases hh2 : s.h2 = true
  · by_cases hq : s.ba1.q > 0
    · apply mem_enabled _ _ .h2Copy (by simp)
      simp only [step]; grind
    · apply mem_enabled _ _ .h2End (by simp)
      simp only [step, ended]; grind
  by_cases hf2 : s.f2 = true
  · by_cases hq : s.ba2.q > 0
    · apply mem_enabled _ _ .f2Copy (by simp)
      simp only [step]; grind
    · apply mem_enabled _ _ .f2End (by simp)
      simp only [step, ended]; grind
  by_cases hfd : s.fDown = true
  · apply mem_enabled _ _ .hTear (by simp)
    simp only [step]; grind
  · apply mem_enabled _ _ .fTear (by simp)
    simp only [step]; grind

end InvProxy.BridgeLife
