/-
  Proofs/AppAuth — helper lemmas for Props/C17 and Props/C19b.
-/
import InvProxy.Model.AppAuth
namespace InvProxy.AppAuth
open InvProxy

/-! ### checkBackendID -/

theorem checkBackendID_ok_iff (s : St) (c : Caller) (b b' : Bid) :
    checkBackendID s c b = .ok b' ↔
      b' = b ∧ b ≠ [] ∧ ∃ be, findBackend s.backends b = some be ∧ c.oauth = some be.BackendUser := by
  unfold checkBackendID
  cases hco : c.oauth with
  | none => simp
  | some email =>
    by_cases hb : b = []
    · simp [hb]
    · cases hf : findBackend s.backends b with
      | none => simp [hb]
      | some be =>
        by_cases he : be.BackendUser = email
        · simp [hb, he]; exact eq_comm
        · simp only [hb, he, if_false]
          constructor
          · intro h; cases h
          · rintro ⟨_, _, be', h1, h2⟩
            cases h1; cases h2; exact absurd rfl he

theorem checkBackendID_congr (s s' : St) (c : Caller) (b : Bid) (hb : s.backends = s'.backends) :
    checkBackendID s c b = checkBackendID s' c b := by
  unfold checkBackendID; rw [hb]

theorem checkBackendID_ok_self {s : St} {c : Caller} {b b' : Bid} (h : checkBackendID s c b = .ok b') : b' = b :=
  ((checkBackendID_ok_iff s c b b').1 h).1

/-- case analysis of an agent call -/
theorem agentCall_err {s : St} {c : Caller} {b : Bid} {e : AuthErr} (h : checkBackendID s c b = .error e)
    (ep : AgentEp) (r : Rid) (p : Bytes) : agentCall s c ep b r p = (401, .authErr e, s) := by
  unfold agentCall; rw [h]

def agentOk (s : St) (ep : AgentEp) (b : Bid) (r : Rid) (payload : Bytes) : Nat × Body × St :=
  match ep with
  | .list => (200, .ids (pendingOf s b), s)
  | .fetch =>
    if r = [] then (400, .text 1, s)
    else match getReq s.reqs (b, r) with
      | some rec => (200, .request rec.user rec.contents, s)
      | none => (404, .text 2, s)
  | .respond =>
    if r = [] then (400, .text 3, s)
    else match getReq s.reqs (b, r) with
      | none => (404, .text 4, s)
      | some _ => (200, .empty, { s with resps := (r, payload) :: s.resps,
                                          reqs := s.reqs.map (fun p => if p.1 = (b, r) then (p.1, { p.2 with completed := true }) else p) })

theorem agentCall_ok {s : St} {c : Caller} {b b' : Bid} (h : checkBackendID s c b = .ok b')
    (ep : AgentEp) (r : Rid) (p : Bytes) : agentCall s c ep b r p = agentOk s ep b r p := by
  have := checkBackendID_ok_self h
  subst this
  unfold agentCall agentOk; rw [h]; rfl

theorem agentOk_ne_401 (s : St) (ep : AgentEp) (b : Bid) (r : Rid) (p : Bytes) : (agentOk s ep b r p).1 ≠ 401 := by
  unfold agentOk
  cases ep with
  | list => simp
  | fetch =>
    by_cases hr : r = []
    · simp [hr]
    · cases hg : getReq s.reqs (b, r) <;> simp [hr]
  | respond =>
    by_cases hr : r = []
    · simp [hr]
    · cases hg : getReq s.reqs (b, r) <;> simp [hr]

theorem agentCall_cases (s : St) (c : Caller) (ep : AgentEp) (b : Bid) (r : Rid) (p : Bytes) :
    (∃ e, checkBackendID s c b = .error e ∧ agentCall s c ep b r p = (401, .authErr e, s)) ∨
    (checkBackendID s c b = .ok b ∧ agentCall s c ep b r p = agentOk s ep b r p) := by
  cases h : checkBackendID s c b with
  | error e => exact Or.inl ⟨e, rfl, agentCall_err h ep r p⟩
  | ok b' =>
    have := checkBackendID_ok_self h
    subst this
    exact Or.inr ⟨rfl, agentCall_ok h ep r p⟩

/-! ### getReq / getResp -/

theorem getReq_map_other (l : List ((Bid × Rid) × ReqRec)) (f : (Bid × Rid) × ReqRec → (Bid × Rid) × ReqRec)
    (k k' : Bid × Rid) (hk : ∀ p, (f p).1 = p.1) (hf : ∀ p, p.1 ≠ k → f p = p) (hne : k' ≠ k) :
    getReq (l.map f) k' = getReq l k' := by
  induction l with
  | nil => rfl
  | cons p t ih =>
    obtain ⟨pk, pr⟩ := p
    by_cases hpk : pk = k
    · have h1 : (f (pk, pr)).1 = pk := hk (pk, pr)
      have : f (pk, pr) = ((f (pk, pr)).1, (f (pk, pr)).2) := rfl
      rw [List.map_cons, this, h1]
      have hne' : pk ≠ k' := by rw [hpk]; exact fun h => hne h.symm
      simp only [getReq, hne', if_false]
      exact ih
    · rw [List.map_cons, hf (pk, pr) hpk]
      simp only [getReq]
      rw [ih]

theorem getReq_mem {l : List ((Bid × Rid) × ReqRec)} {k : Bid × Rid} {x : ReqRec} (h : getReq l k = some x) :
    (k, x) ∈ l := by
  induction l with
  | nil => simp [getReq] at h
  | cons p t ih =>
    obtain ⟨pk, pr⟩ := p
    simp only [getReq] at h
    by_cases hpk : pk = k
    · simp only [hpk, if_true] at h
      cases h; subst hpk; exact List.mem_cons_self
    · simp only [hpk, if_false] at h
      exact List.mem_cons_of_mem _ (ih h)

/-- the respond-update of `reqs` -/
def markDone (b : Bid) (r : Rid) (p : (Bid × Rid) × ReqRec) : (Bid × Rid) × ReqRec :=
  if p.1 = (b, r) then (p.1, { p.2 with completed := true }) else p

theorem markDone_key (b : Bid) (r : Rid) (p : (Bid × Rid) × ReqRec) : (markDone b r p).1 = p.1 := by
  unfold markDone; split <;> rfl

theorem markDone_other (b : Bid) (r : Rid) (p : (Bid × Rid) × ReqRec) (h : p.1 ≠ (b, r)) : markDone b r p = p := by
  unfold markDone; simp [h]

theorem markDone_completed (b : Bid) (r : Rid) (p : (Bid × Rid) × ReqRec) (h : p.1 = (b, r)) :
    (markDone b r p).2.completed = true := by
  unfold markDone; simp [h]

/-- the state components after an authorised call -/
theorem agentOk_backends (s : St) (ep : AgentEp) (b : Bid) (r : Rid) (p : Bytes) :
    (agentOk s ep b r p).2.2.backends = s.backends := by
  unfold agentOk
  cases ep with
  | list => rfl
  | fetch =>
    by_cases hr : r = []
    · simp [hr]
    · cases hg : getReq s.reqs (b, r) <;> simp [hr]
  | respond =>
    by_cases hr : r = []
    · simp [hr]
    · cases hg : getReq s.reqs (b, r) <;> simp [hr]

theorem agentOk_reqs (s : St) (ep : AgentEp) (b : Bid) (r : Rid) (p : Bytes) :
    (agentOk s ep b r p).2.2.reqs = s.reqs ∨ (agentOk s ep b r p).2.2.reqs = s.reqs.map (markDone b r) := by
  unfold agentOk
  cases ep with
  | list => exact Or.inl rfl
  | fetch =>
    by_cases hr : r = []
    · simp [hr]
    · cases hg : getReq s.reqs (b, r) <;> simp [hr]
  | respond =>
    by_cases hr : r = []
    · simp [hr]
    · cases hg : getReq s.reqs (b, r) with
      | none => simp [hr]
      | some x => right; simp only [hr, if_false]; rfl

/-- `respond` in detail -/
theorem agentOk_respond (s : St) (b : Bid) (r : Rid) (p : Bytes) :
    ((agentOk s .respond b r p).1 ≠ 200 ∧ (agentOk s .respond b r p).2.2 = s) ∨
    ((agentOk s .respond b r p).1 = 200 ∧ r ≠ [] ∧ (getReq s.reqs (b, r)).isSome ∧
      (agentOk s .respond b r p).2.2.resps = (r, p) :: s.resps ∧
      (agentOk s .respond b r p).2.2.reqs = s.reqs.map (markDone b r)) := by
  unfold agentOk
  by_cases hr : r = []
  · simp [hr]
  · cases hg : getReq s.reqs (b, r) with
    | none => simp [hr]
    | some x => right; simp only [hr, if_false]; exact ⟨trivial, hr, rfl, trivial, rfl⟩

theorem agentCall_respond (s : St) (c : Caller) (b : Bid) (r : Rid) (p : Bytes) :
    ((agentCall s c .respond b r p).1 ≠ 200 ∧ (agentCall s c .respond b r p).2.2 = s) ∨
    ((agentCall s c .respond b r p).1 = 200 ∧ checkBackendID s c b = .ok b ∧ r ≠ [] ∧ (getReq s.reqs (b, r)).isSome ∧
      (agentCall s c .respond b r p).2.2.resps = (r, p) :: s.resps ∧
      (agentCall s c .respond b r p).2.2.reqs = s.reqs.map (markDone b r)) := by
  rcases agentCall_cases s c .respond b r p with ⟨e, _, h⟩ | ⟨hc, h⟩
  · left; rw [h]; simp
  · rw [h]
    rcases agentOk_respond s b r p with h1 | ⟨h1, h2, h3, h4, h5⟩
    · exact Or.inl h1
    · exact Or.inr ⟨h1, hc, h2, h3, h4, h5⟩

/-- any agent call either leaves `resps` alone or is a successful `respond` -/
theorem agentCall_resps (s : St) (c : Caller) (ep : AgentEp) (b : Bid) (r : Rid) (p : Bytes) :
    (agentCall s c ep b r p).2.2.resps = s.resps ∨
    (ep = .respond ∧ (agentCall s c ep b r p).2.2.resps = (r, p) :: s.resps) := by
  cases ep with
  | respond =>
    rcases agentCall_respond s c b r p with ⟨_, h⟩ | ⟨_, _, _, _, h, _⟩
    · left; rw [h]
    · exact Or.inr ⟨rfl, h⟩
  | list =>
    left
    rcases agentCall_cases s c .list b r p with ⟨e, _, h⟩ | ⟨_, h⟩ <;> rw [h] <;> rfl
  | fetch =>
    left
    rcases agentCall_cases s c .fetch b r p with ⟨e, _, h⟩ | ⟨_, h⟩
    · rw [h]
    · rw [h]; unfold agentOk
      by_cases hr : r = []
      · simp [hr]
      · cases hg : getReq s.reqs (b, r) <;> simp [hr]

/-! ### postResponse -/

def PRInv (cap : Nat) (s : PR) : Prop :=
  s.cap = cap ∧ s.a ≤ 2 ∧ s.b ≤ 2 ∧ s.buf ≤ (if s.a = 2 then 1 else 0) + (if s.b = 2 then 1 else 0)

theorem prStep_inv {cap : Nat} {s s' : PR} (x : PRAct) (hi : PRInv cap s) (h : prStep s x = some s') : PRInv cap s' := by
  obtain ⟨h1, h2, h3, h4⟩ := hi
  cases x with
  | aFinish f =>
    simp only [prStep] at h
    split at h
    · next ha =>
      cases h
      cases f <;> simp_all [PRInv] <;> omega
    · cases h
  | bFinish f =>
    simp only [prStep] at h
    split at h
    · next ha =>
      cases h
      cases f <;> simp_all [PRInv] <;> omega
    · cases h
  | aSend =>
    simp only [prStep] at h
    split at h
    · next ha =>
      cases h
      obtain ⟨ha1, ha2⟩ := ha
      simp_all [PRInv]
      omega
    · cases h
  | bSend =>
    simp only [prStep] at h
    split at h
    · next ha =>
      cases h
      obtain ⟨ha1, ha2⟩ := ha
      simp_all [PRInv]
    · cases h

theorem prRun_inv {cap : Nat} (acts : List PRAct) {s s' : PR} (hi : PRInv cap s) (h : prRun s acts = some s') :
    PRInv cap s' := by
  induction acts generalizing s with
  | nil => simp only [prRun] at h; cases h; exact hi
  | cons x xs ih =>
    simp only [prRun] at h
    cases hs : prStep s x with
    | none => rw [hs] at h; cases h
    | some s1 => rw [hs] at h; exact ih (prStep_inv x hi hs) h

theorem prInv_enabled {cap : Nat} (hc : 2 ≤ cap) {s : PR} (hi : PRInv cap s) (hn : prDone s = false) :
    prEnabled s = true := by
  obtain ⟨h1, h2, h3, h4⟩ := hi
  have hbuf : s.buf < s.cap := by
    rw [h1]
    have : s.buf ≤ 2 := by
      refine Nat.le_trans h4 ?_
      split <;> split <;> omega
    by_cases ha : s.a = 2
    · by_cases hb : s.b = 2
      · simp [prDone, ha, hb] at hn
      · simp only [ha, hb, if_true, if_false] at h4; omega
    · simp only [ha, if_false] at h4
      split at h4 <;> omega
  have hcases : s.a = 0 ∨ s.b = 0 ∨ s.a = 1 ∨ s.b = 1 := by
    by_cases ha : s.a = 2
    · by_cases hb : s.b = 2
      · simp [prDone, ha, hb] at hn
      · omega
    · omega
  unfold prEnabled
  rcases hcases with h | h | h | h <;> simp [h, hbuf]

/-! ### further store lemmas -/

theorem getResp_agentCall {s : St} {c : Caller} {ep : AgentEp} {b : Bid} {r : Rid} {p : Bytes} {rid : Rid} {v : Bytes}
    (h : getResp (agentCall s c ep b r p).2.2.resps rid = some v) :
    getResp s.resps rid = some v ∨ (ep = .respond ∧ r = rid ∧ p = v) := by
  rcases agentCall_resps s c ep b r p with h1 | ⟨h1, h2⟩
  · rw [h1] at h; exact Or.inl h
  · rw [h2] at h
    simp only [getResp] at h
    by_cases hr : r = rid
    · simp only [hr, if_true] at h
      exact Or.inr ⟨h1, hr, Option.some.inj h⟩
    · simp only [hr, if_false] at h
      exact Or.inl h

theorem userPoll_200 {s : St} {rid : Rid} {v : Bytes} (h : userPoll s rid = (200, .response v)) :
    getResp s.resps rid = some v ∧ v ≠ [] := by
  unfold userPoll at h
  cases hg : getResp s.resps rid with
  | none => rw [hg] at h; simp at h
  | some w =>
    rw [hg] at h
    by_cases hw : w = []
    · simp [hw] at h
    · simp only [hw, if_false] at h
      have : w = v := by injection h with _ h2; injection h2
      subst this
      exact ⟨rfl, hw⟩

theorem rid_unique {l : List ((Bid × Rid) × ReqRec)} (hn : (l.map (·.1.2)).Nodup) {b b' : Bid} {r : Rid} {x y : ReqRec}
    (h1 : ((b, r), x) ∈ l) (h2 : ((b', r), y) ∈ l) : b = b' := by
  induction l with
  | nil => cases h1
  | cons q t ih =>
    rw [List.map_cons, List.nodup_cons] at hn
    obtain ⟨hq, ht⟩ := hn
    rcases List.mem_cons.1 h1 with e1 | m1
    · rcases List.mem_cons.1 h2 with e2 | m2
      · rw [← e1] at e2
        injection e2 with e3 _
        injection e3 with e4 _
        exact e4.symm
      · exfalso; apply hq
        rw [← e1]
        exact List.mem_map.2 ⟨_, m2, rfl⟩
    · rcases List.mem_cons.1 h2 with e2 | m2
      · exfalso; apply hq
        rw [← e2]
        exact List.mem_map.2 ⟨_, m1, rfl⟩
      · exact ih ht m1 m2

theorem getReq_other_backend_none {l : List ((Bid × Rid) × ReqRec)} (hn : (l.map (·.1.2)).Nodup) {b b' : Bid} {r : Rid}
    (h : (getReq l (b, r)).isSome) (hne : b' ≠ b) : getReq l (b', r) = none := by
  cases hg : getReq l (b', r) with
  | none => rfl
  | some y =>
    cases hx : getReq l (b, r) with
    | none => rw [hx] at h; cases h
    | some x => exact absurd (rid_unique hn (getReq_mem hx) (getReq_mem hg)).symm hne

theorem not_pending_after_markDone (l : List ((Bid × Rid) × ReqRec)) (b : Bid) (r : Rid) :
    r ∉ ((l.map (markDone b r)).filter (fun p => p.1.1 = b ∧ p.2.completed = false)).map (·.1.2) := by
  intro hm
  obtain ⟨q, hq, hqr⟩ := List.mem_map.1 hm
  obtain ⟨hq1, hq2⟩ := List.mem_filter.1 hq
  obtain ⟨q0, _, hq0⟩ := List.mem_map.1 hq1
  have hq2' : q.1.1 = b ∧ q.2.completed = false := by simpa using hq2
  have hk : q0.1 = (b, r) := by
    have := markDone_key b r q0
    rw [hq0] at this
    rw [← this]
    exact Prod.ext hq2'.1 hqr
  have := markDone_completed b r q0 hk
  rw [hq0, hq2'.2] at this
  cases this

theorem prInv_init (cap : Nat) : PRInv cap { cap := cap, buf := 0, a := 0, b := 0 } := by
  simp [PRInv]

theorem userPost_some {s : St} {c : Caller} {ls : Bytes → Option Int} {now : Int} {rid : Rid} {path contents : Bytes} {b : Bid}
    (h : (userPost s c ls now rid path contents).2.1 = some b) :
    ∃ u, c.user = some u ∧ Route.lookup { backends := s.backends, lastSeen := ls } u path now = some b ∧
      (userPost s c ls now rid path contents).2.2 =
        { s with reqs := ((b, rid), { user := u, contents := contents, completed := false }) :: s.reqs.filter (fun p => p.1 ≠ (b, rid)) } := by
  unfold userPost at h ⊢
  cases hu : c.user with
  | none => simp only [hu] at h; cases h
  | some u =>
    simp only [hu] at h ⊢
    cases hl : Route.lookup { backends := s.backends, lastSeen := ls } u path now with
    | none => simp only [hl] at h; cases h
    | some b0 =>
      simp only [hl] at h ⊢
      have hb : b0 = b := Option.some.inj h
      subst hb
      exact ⟨u, rfl, hl, rfl⟩

end InvProxy.AppAuth
