/-
  Proofs/Dedup: helper lemmas for C04 (`firsts`, `WindowOK`, `spawns`, hand-off).
-/
import InvProxy.Model.Dedup
import InvProxy.Proofs.Lru
namespace InvProxy.Dedup
open InvProxy

variable {α : Type} [DecidableEq α]

/-! ### `firsts` -/

theorem mem_firsts {l : List α} {x : α} : x ∈ firsts l ↔ x ∈ l := by
  induction l with
  | nil => simp [firsts]
  | cons y t ih =>
    by_cases hxy : x = y
    · subst hxy; simp [firsts]
    · simp [firsts, ih, hxy]

theorem nodup_firsts (l : List α) : (firsts l).Nodup := by
  induction l with
  | nil => simp [firsts]
  | cons y t ih =>
    simp only [firsts, List.nodup_cons]
    exact ⟨by simp, ih.filter _⟩

theorem firsts_append_singleton (p : List α) (x : α) :
    firsts (p ++ [x]) = if x ∈ p then firsts p else firsts p ++ [x] := by
  induction p with
  | nil => simp [firsts]
  | cons y p ih =>
    simp only [List.cons_append, firsts, ih]
    by_cases hxp : x ∈ p
    · simp [hxp]
    · by_cases hxy : x = y
      · subst hxy; simp [hxp]
      · simp [hxp, hxy, List.filter_append]

/-- a duplicate-free list contained in another list is no longer than it -/
theorem length_le_of_nodup_subset {l₁ l₂ : List α} (hn : l₁.Nodup) (hs : ∀ z ∈ l₁, z ∈ l₂) :
    l₁.length ≤ l₂.length := by
  induction l₁ generalizing l₂ with
  | nil => simp
  | cons a t ih =>
    rw [List.nodup_cons] at hn
    have ha : a ∈ l₂ := hs a (by simp)
    have : t.length ≤ (l₂.erase a).length := by
      apply ih hn.2
      intro z hz
      have hza : z ≠ a := fun e => hn.1 (e ▸ hz)
      exact (List.mem_erase_of_ne hza).2 (hs z (by simp [hz]))
    rw [List.length_erase_of_mem ha] at this
    have : 0 < l₂.length := List.length_pos_of_mem ha
    simp only [List.length_cons]
    omega

/-- split at the last occurrence -/
theorem exists_last_occurrence {p : List α} {x : α} (hx : x ∈ p) :
    ∃ pre mid, p = pre ++ x :: mid ∧ x ∉ mid := by
  induction p with
  | nil => simp at hx
  | cons y t ih =>
    by_cases hxt : x ∈ t
    · obtain ⟨pre, mid, rfl, hm⟩ := ih hxt
      exact ⟨y :: pre, mid, by simp, hm⟩
    · have : x = y := by simpa [hxt] using hx
      subst this
      exact ⟨[], t, by simp, hxt⟩

/-! ### the window -/

theorem WindowOK.prefix {cap : Nat} {p q : List α} (hw : WindowOK cap (p ++ q)) : WindowOK cap p := by
  intro pre x mid post hp hm
  exact hw pre x mid (post ++ q) (by simp [hp]) hm

/-- position of `x` in the recency order after a stretch `mid` not containing `x` -/
theorem recency_append_split (pre mid : List α) (x : α) (hm : x ∉ mid) :
    ∃ a b, Lru.recency (pre ++ x :: mid) = a ++ x :: b ∧ a.Nodup ∧ ∀ z ∈ a, z ∈ mid := by
  induction mid using Lru.rev_induction with
  | nil =>
    refine ⟨[], (Lru.recency pre).erase x, ?_, by simp, by simp⟩
    simp [Lru.recency_append_singleton]
  | append_singleton mid y ih =>
    have hxy : x ≠ y := fun e => hm (by simp [e])
    obtain ⟨a, b, hab, han, has⟩ := ih (fun h => hm (by simp [h]))
    have e : pre ++ x :: (mid ++ [y]) = (pre ++ x :: mid) ++ [y] := by simp
    rw [e, Lru.recency_append_singleton, hab]
    by_cases hya : y ∈ a
    · refine ⟨y :: a.erase y, b, ?_, ?_, ?_⟩
      · rw [List.erase_append_left _ hya]; simp
      · rw [List.nodup_cons]
        exact ⟨fun h => ((List.Nodup.mem_erase_iff han).1 h).1 rfl, han.erase y⟩
      · intro z hz
        rcases List.mem_cons.1 hz with rfl | hz
        · simp
        · simp [has z (List.mem_of_mem_erase hz)]
    · refine ⟨y :: a, b.erase y, ?_, ?_, ?_⟩
      · rw [List.erase_append_right _ hya]
        have hb : ¬ (x == y) = true := by simpa using hxy
        simp [List.erase_cons_tail hb]
      · exact List.nodup_cons.2 ⟨hya, han⟩
      · intro z hz
        rcases List.mem_cons.1 hz with rfl | hz
        · simp
        · simp [has z hz]

/-- inside the window a repeated ID is still cached -/
theorem mem_after_of_window {cap : Nat} (hc : 0 < cap) {p : List α} {x : α}
    (hw : WindowOK cap (p ++ [x])) (hx : x ∈ p) : x ∈ Lru.after cap p := by
  obtain ⟨pre, mid, rfl, hm⟩ := exists_last_occurrence hx
  have hlt : (firsts mid).length < cap := hw pre x mid [] (by simp) hm
  obtain ⟨a, b, hab, han, has⟩ := recency_append_split pre mid x hm
  have hle : a.length ≤ (firsts mid).length :=
    length_le_of_nodup_subset han (fun z hz => mem_firsts.2 (has z hz))
  rw [Lru.after_eq_take_recency cap hc, hab, List.take_append]
  obtain ⟨k, hk⟩ : ∃ k, cap - a.length = k + 1 := ⟨cap - a.length - 1, by omega⟩
  simp [hk]

theorem mem_of_mem_after {cap : Nat} {p : List α} {x : α} (hx : x ∈ Lru.after cap p) : x ∈ p := by
  induction p using Lru.rev_induction generalizing x with
  | nil => simp [Lru.after] at hx
  | append_singleton p y ih =>
    rw [Lru.after_append_singleton] at hx
    have hx' : x ∈ y :: (Lru.after cap p).erase y := by
      unfold Lru.touch at hx
      split at hx
      · exact hx
      · exact List.mem_of_mem_take hx
    rcases List.mem_cons.1 hx' with rfl | h
    · simp
    · simp [ih (List.mem_of_mem_erase h)]

theorem foldl_step_eq {cap : Nat} (hc : 0 < cap) (h : List α) (hw : WindowOK cap h) :
    h.foldl (step cap) ([], []) = (Lru.after cap h, firsts h) := by
  induction h using Lru.rev_induction with
  | nil => simp [Lru.after, firsts]
  | append_singleton p x ih =>
    rw [List.foldl_append, ih hw.prefix, Lru.after_append_singleton, firsts_append_singleton]
    have : x ∈ Lru.after cap p ↔ x ∈ p := ⟨mem_of_mem_after, mem_after_of_window hc hw⟩
    simp [step, this]

theorem spawns_eq_firsts {cap : Nat} (hc : 0 < cap) (h : List α) (hw : WindowOK cap h) :
    spawns cap h = firsts h := by
  simp [spawns, foldl_step_eq hc h hw]

/-- without any premise on the history: the cache component of the loop state is the LRU content -/
theorem foldl_step_fst (cap : Nat) (h : List α) : (h.foldl (step cap) ([], [])).1 = Lru.after cap h := by
  induction h using Lru.rev_induction with
  | nil => simp [Lru.after]
  | append_singleton p x ih =>
    rw [List.foldl_append, Lru.after_append_singleton, ← ih]
    simp [step]

theorem spawns_append_singleton (cap : Nat) (p : List α) (x : α) :
    spawns cap (p ++ [x]) = if x ∈ Lru.after cap p then spawns cap p else spawns cap p ++ [x] := by
  unfold spawns
  rw [List.foldl_append, ← foldl_step_fst cap p]
  simp [step]

/-- without any premise on the history: exactly the listed IDs are forwarded (each at least once) -/
theorem mem_spawns (cap : Nat) (h : List α) (y : α) : y ∈ spawns cap h ↔ y ∈ h := by
  induction h using Lru.rev_induction with
  | nil => simp [spawns]
  | append_singleton p x ih =>
    rw [spawns_append_singleton]
    by_cases hx : x ∈ Lru.after cap p
    · rw [if_pos hx, ih]
      have hxp : x ∈ p := mem_of_mem_after hx
      constructor
      · intro hy; simp [hy]
      · intro hy
        rcases List.mem_append.1 hy with hy | hy
        · exact hy
        · simp at hy; subst hy; exact hxp
    · rw [if_neg hx]; simp [ih]

theorem count_firsts (h : List α) (x : α) : (firsts h).count x = if x ∈ h then 1 else 0 := by
  split
  · next hx =>
    have h1 : (firsts h).count x ≤ 1 := List.nodup_iff_count.1 (nodup_firsts h) x
    have h2 : 0 < (firsts h).count x := List.count_pos_iff.2 (mem_firsts.2 hx)
    omega
  · next hx => exact List.count_eq_zero.2 (fun hm => hx (mem_firsts.1 hm))

theorem windowOK_of_few_distinct (cap : Nat) (h : List α) (hd : (firsts h).length ≤ cap) :
    WindowOK cap h := by
  intro pre x mid post hh hm
  have hn : (x :: firsts mid).Nodup := List.nodup_cons.2 ⟨fun hx => hm (mem_firsts.1 hx), nodup_firsts mid⟩
  have hs : ∀ z ∈ x :: firsts mid, z ∈ firsts h := by
    intro z hz
    rw [mem_firsts, hh]
    rcases List.mem_cons.1 hz with rfl | hz
    · simp
    · simp [mem_firsts.1 hz]
  have := length_le_of_nodup_subset hn hs
  simp only [List.length_cons] at this
  omega

/-! ### hand-off -/

def HInv (s : Handoff α) : Prop := (s.offering ++ s.replies.flatten).Nodup

theorem hstep_inv {s s' : Handoff α} {a : HAct α} (hs : hstep s a = some s') (hi : HInv s) : HInv s' := by
  unfold HInv at *
  rw [List.nodup_append] at hi
  obtain ⟨ho, hr, hd⟩ := hi
  cases a with
  | arrive x =>
    simp only [hstep] at hs
    split at hs
    · contradiction
    · next hn =>
      injection hs with hs; subst hs
      simp only [not_or] at hn
      simp only [List.nodup_append]
      refine ⟨⟨ho, by simp, ?_⟩, hr, ?_⟩
      · intro a ha b hb; simp at hb; subst hb; intro e; subst e; exact hn.1 ha
      · intro a ha b hb e
        subst e
        rcases List.mem_append.1 ha with ha | ha
        · exact hd a ha a hb rfl
        · simp at ha; subst ha; exact hn.2 hb
  | cancel x =>
    simp only [hstep] at hs
    split at hs
    · injection hs with hs; subst hs
      simp only [List.nodup_append]
      exact ⟨ho.erase x, hr, fun a ha b hb => hd a (List.mem_of_mem_erase ha) b hb⟩
    · contradiction
  | poll taken =>
    simp only [hstep] at hs
    split at hs
    · next hc =>
      obtain ⟨_, htn, hto⟩ := hc
      injection hs with hs; subst hs
      simp only [List.flatten_append, List.flatten_cons, List.flatten_nil, List.append_nil,
        List.nodup_append]
      refine ⟨ho.filter _, ⟨hr, htn, ?_⟩, ?_⟩
      · intro a ha b hb e; subst e; exact hd a (hto a hb) a ha rfl
      · intro a ha b hb e
        subst e
        rw [List.mem_filter] at ha
        rcases List.mem_append.1 hb with hb | hb
        · exact hd a ha.1 a hb rfl
        · simp at ha; exact ha.2 hb
    · contradiction

theorem hrun_inv {acts : List (HAct α)} {s s' : Handoff α} (h : hrun s acts = some s') (hi : HInv s) :
    HInv s' := by
  induction acts generalizing s with
  | nil => simp only [hrun] at h; injection h with h; subst h; exact hi
  | cons a as ih =>
    simp only [hrun] at h
    split at h
    · contradiction
    · next s1 hs1 => exact ih h (hstep_inv hs1 hi)

def Held (s : Handoff α) (x : α) : Prop := x ∈ s.offering ∨ x ∈ s.replies.flatten

theorem hstep_held {s s' : Handoff α} {a : HAct α} {x : α} (hs : hstep s a = some s')
    (hx : Held s x) (hne : a ≠ .cancel x) : Held s' x := by
  unfold Held at *
  cases a with
  | arrive y =>
    simp only [hstep] at hs
    split at hs
    · contradiction
    · injection hs with hs; subst hs
      rcases hx with hx | hx
      · left; simp [hx]
      · right; exact hx
  | cancel y =>
    have hxy : x ≠ y := fun e => hne (by rw [e])
    simp only [hstep] at hs
    split at hs
    · injection hs with hs; subst hs
      rcases hx with hx | hx
      · left; exact (List.mem_erase_of_ne hxy).2 hx
      · right; exact hx
    · contradiction
  | poll taken =>
    simp only [hstep] at hs
    split at hs
    · injection hs with hs; subst hs
      rcases hx with hx | hx
      · by_cases ht : x ∈ taken
        · right; simp [ht]
        · left; simp [hx, ht]
      · right; simp [hx]
    · contradiction

theorem hstep_arrive_held {s s' : Handoff α} {x : α} (hs : hstep s (.arrive x) = some s') : Held s' x := by
  simp only [hstep] at hs
  split at hs
  · contradiction
  · injection hs with hs; subst hs; left; simp

theorem hrun_held {acts : List (HAct α)} {s s' : Handoff α} {x : α} (h : hrun s acts = some s')
    (hx : Held s x ∨ HAct.arrive x ∈ acts) (hc : HAct.cancel x ∉ acts) : Held s' x := by
  induction acts generalizing s with
  | nil =>
    simp only [hrun] at h; injection h with h; subst h
    rcases hx with hx | hx
    · exact hx
    · simp at hx
  | cons a as ih =>
    simp only [hrun] at h
    split at h
    · contradiction
    · next s1 hs1 =>
      have hne : a ≠ .cancel x := fun e => hc (by simp [e])
      have hc' : HAct.cancel x ∉ as := fun hm => hc (by simp [hm])
      apply ih h _ hc'
      rcases hx with hx | hx
      · exact Or.inl (hstep_held hs1 hx hne)
      · rcases List.mem_cons.1 hx with e | hx
        · subst e; exact Or.inl (hstep_arrive_held hs1)
        · exact Or.inr hx

end InvProxy.Dedup
