/-
  Proofs/Lru: helper lemmas about `Lru.touch`, `Lru.recency`, `Lru.after`.
-/
import InvProxy.Base.Lru
namespace InvProxy.Lru

variable {α : Type} [DecidableEq α]

omit [DecidableEq α] in
/-- reverse induction on lists (core has no `List.reverseRecOn`) -/
theorem rev_induction {motive : List α → Prop} (nil : motive [])
    (append_singleton : ∀ l x, motive l → motive (l ++ [x])) (l : List α) : motive l := by
  have : ∀ l : List α, motive l.reverse := by
    intro l
    induction l with
    | nil => exact nil
    | cons a t ih => rw [List.reverse_cons]; exact append_singleton _ _ ih
  simpa using this l.reverse

/-- erasing from the first `c+1` and keeping `c` = erasing and keeping `c` -/
theorem take_erase_take (x : α) (r : List α) (c : Nat) :
    ((r.take (c + 1)).erase x).take c = (r.erase x).take c := by
  induction r generalizing c with
  | nil => simp
  | cons a t ih =>
    by_cases hax : a = x
    · subst hax; simp [List.take_take]
    · cases c with
      | zero => simp
      | succ c' =>
        have hb : ¬ (a == x) = true := by simpa using hax
        simp only [List.take_succ_cons, List.erase_cons_tail hb]
        rw [ih]

theorem touch_take (cap : Nat) (hc : 0 < cap) (r : List α) (x : α) :
    touch cap (r.take cap) x = (x :: r.erase x).take cap := by
  obtain ⟨c, rfl⟩ : ∃ c, cap = c + 1 := ⟨cap - 1, by omega⟩
  simp only [touch, Nat.succ_ne_zero, if_false, List.take_succ_cons, take_erase_take]

theorem recency_append_singleton (h : List α) (x : α) :
    recency (h ++ [x]) = x :: (recency h).erase x := by
  simp [recency, List.foldl_append]

theorem after_append_singleton (cap : Nat) (h : List α) (x : α) :
    after cap (h ++ [x]) = touch cap (after cap h) x := by
  simp [after, List.foldl_append]

theorem after_eq_take_recency (cap : Nat) (hc : 0 < cap) (h : List α) :
    after cap h = (recency h).take cap := by
  induction h using rev_induction with
  | nil => simp [after, recency]
  | append_singleton h x ih =>
    rw [after_append_singleton, recency_append_singleton, ih, touch_take cap hc]

theorem nodup_recency (h : List α) : (recency h).Nodup := by
  induction h using rev_induction with
  | nil => simp [recency]
  | append_singleton h x ih =>
    rw [recency_append_singleton, List.nodup_cons]
    exact ⟨fun hm => (List.Nodup.mem_erase_iff ih).1 hm |>.1 rfl, ih.erase x⟩

theorem mem_recency {h : List α} {x : α} : x ∈ recency h ↔ x ∈ h := by
  induction h using rev_induction with
  | nil => simp [recency]
  | append_singleton h y ih =>
    rw [recency_append_singleton]
    by_cases hxy : x = y
    · subst hxy; simp
    · simp [List.mem_erase_of_ne hxy, ih, hxy]

end InvProxy.Lru
