/-
  Proofs/Blob: helper lemmas for C19 (blob storage part).
-/
import InvProxy.Model.Blob
namespace InvProxy.Blob
open InvProxy InvProxy.Gen

/-- one chunk, with the clamped end bound, is just `take L` of the remainder -/
theorem chunk_eq {α} (rest : List α) (L k : Nat) :
    (rest.drop (k * L)).take (min ((k + 1) * L) rest.length - k * L)
      = (rest.drop (k * L)).take L := by
  have hs : (k + 1) * L = k * L + L := Nat.succ_mul k L
  by_cases h : (k + 1) * L ≤ rest.length
  · rw [Nat.min_eq_left h, hs, Nat.add_sub_cancel_left]
  · have hlen : (rest.drop (k * L)).length = rest.length - k * L := List.length_drop
    rw [Nat.min_eq_right (by omega)]
    rw [List.take_of_length_le (by omega), List.take_of_length_le (by omega)]

theorem chunks_take {α} (rest : List α) (L k : Nat) :
    ((List.range k).map (fun i =>
        (rest.drop (i * L)).take (min ((i + 1) * L) rest.length - i * L))).flatten
      = rest.take (k * L) := by
  induction k with
  | zero => simp
  | succ k ih =>
    rw [List.range_succ, List.map_append, List.flatten_append, ih]
    simp only [List.map_cons, List.map_nil, List.flatten_cons, List.flatten_nil, List.append_nil]
    rw [chunk_eq, Nat.succ_mul, List.take_add]

/-- core lemma: the chunks concatenate to the original -/
theorem chunks_flatten {α} (rest : List α) (L : Nat) (hL : 0 < L) :
    ((List.range (rest.length / L + 1)).map (fun i =>
        (rest.drop (i * L)).take (min ((i + 1) * L) rest.length - i * L))).flatten
      = rest := by
  rw [chunks_take]
  apply List.take_of_length_le
  have h1 := Nat.div_add_mod rest.length L
  have h2 := Nat.mod_lt rest.length hL
  rw [Nat.succ_mul, Nat.mul_comm]
  omega

theorem fieldByteLimit_pos : 0 < store_fieldByteLimit := by decide

/-- `store_partBounds` over a symbolic limit `L`.  The constant is replaced by a genuine
    variable before `Id.run` is unfolded, so that the kernel never evaluates `i * 1000000`. -/
theorem partBounds_gen (L : Nat) (hL : store_fieldByteLimit = L) (i n : Nat) :
    store_partBounds i n = (i * L, min ((i + 1) * L) n) := by
  unfold store_partBounds
  rw [hL]
  simp only [Id.run, pure]
  by_cases h : (i + 1) * L > n
  · rw [if_pos (decide_eq_true h), Nat.min_eq_right (Nat.le_of_lt h)]
  · rw [if_neg (by simpa using h), Nat.min_eq_left (Nat.not_lt.1 h)]

theorem partBounds_eq (i n : Nat) :
    store_partBounds i n = (i * store_fieldByteLimit, min ((i + 1) * store_fieldByteLimit) n) :=
  partBounds_gen _ rfl i n

theorem partCount_eq (n : Nat) : store_partCount n = n / store_fieldByteLimit + 1 := by
  unfold store_partCount; rfl

/-- `writeParts` in closed form over the symbolic limit -/
theorem writeParts_eq (rest : Bytes) :
    writeParts rest = (List.range (rest.length / store_fieldByteLimit + 1)).map (fun i =>
        (rest.drop (i * store_fieldByteLimit)).take
          (min ((i + 1) * store_fieldByteLimit) rest.length - i * store_fieldByteLimit)) := by
  unfold writeParts
  rw [partCount_eq]
  apply List.map_congr_left
  intro i _
  simp only [partBounds_eq, slice]

theorem writeParts_flatten (rest : Bytes) : (writeParts rest).flatten = rest := by
  rw [writeParts_eq]
  exact chunks_flatten rest _ fieldByteLimit_pos

theorem writeParts_length (rest : Bytes) :
    (writeParts rest).length = rest.length / store_fieldByteLimit + 1 := by
  rw [writeParts_eq, List.length_map, List.length_range]

theorem writeParts_sizes (rest : Bytes) : ∀ p ∈ writeParts rest, p.length ≤ store_fieldByteLimit := by
  intro p hp
  rw [writeParts_eq] at hp
  obtain ⟨i, _, rfl⟩ := List.mem_map.1 hp
  rw [chunk_eq, List.length_take]
  exact Nat.min_le_left _ _

end InvProxy.Blob
