/-
  Proofs/ConnOpt (C09, C02): helper lemmas about `Hdr.dropConnOption` (the hand model of
  `keepEndToEnd`), `Hdr.connOptions` / `Hdr.connDrops`, `Go.split` vs `Hdr.joinBytes`, and
  `Go.canon` vs `Hdr.equalFold`.
-/
import InvProxy.Base.GoTypes
namespace InvProxy.ConnOpt
open InvProxy

/-! ### `Go.split` (one-byte separator) and `Hdr.joinBytes` -/

theorem splitOn1_free (sep : UInt8) (s cur : Bytes) (hcur : sep ∉ cur) :
    ∀ o ∈ Go.splitOn1 sep s cur, sep ∉ o := by
  induction s generalizing cur with
  | nil =>
    intro o ho
    simp only [Go.splitOn1, List.mem_singleton] at ho
    subst ho
    simpa using hcur
  | cons c t ih =>
    intro o ho
    simp only [Go.splitOn1] at ho
    by_cases hc : c = sep
    · rw [if_pos hc] at ho
      rcases List.mem_cons.mp ho with rfl | ho
      · simpa using hcur
      · exact ih [] (by simp) o ho
    · rw [if_neg hc] at ho
      refine ih (c :: cur) ?_ o ho
      intro hm
      rcases List.mem_cons.mp hm with e | e
      · exact hc e.symm
      · exact hcur e

/-- the pieces produced by `Go.split v [sep]` never contain `sep` -/
theorem split_free (sep : UInt8) (v : Bytes) : ∀ o ∈ Go.split v [sep], sep ∉ o :=
  splitOn1_free sep v [] (by simp)

theorem splitOn1_append_free (sep : UInt8) (x rest cur : Bytes) (hx : sep ∉ x) :
    Go.splitOn1 sep (x ++ rest) cur = Go.splitOn1 sep rest (x.reverse ++ cur) := by
  induction x generalizing cur with
  | nil => rfl
  | cons c t ih =>
    have hc : ¬ c = sep := fun e => hx (by simp [e])
    have ht : sep ∉ t := fun e => hx (List.mem_cons_of_mem _ e)
    simp only [List.cons_append, Go.splitOn1, if_neg hc]
    rw [ih _ ht]
    simp

theorem splitOn1_join (sep : UInt8) (opts : List Bytes) (hne : opts ≠ [])
    (hfree : ∀ o ∈ opts, sep ∉ o) (cur : Bytes) :
    Go.splitOn1 sep (Hdr.joinBytes [sep] opts) cur =
      (cur.reverse ++ opts.head hne) :: opts.tail := by
  induction opts generalizing cur with
  | nil => exact absurd rfl hne
  | cons x t ih =>
    cases t with
    | nil =>
      have hx : sep ∉ x := hfree x List.mem_cons_self
      have := splitOn1_append_free sep x [] cur hx
      simp only [List.append_nil] at this
      simp only [Hdr.joinBytes, List.head_cons, List.tail_cons]
      rw [this]
      simp [Go.splitOn1]
    | cons y t' =>
      have hx : sep ∉ x := hfree x List.mem_cons_self
      simp only [Hdr.joinBytes, List.head_cons, List.tail_cons, List.append_assoc]
      rw [splitOn1_append_free sep x _ cur hx]
      simp only [List.singleton_append, Go.splitOn1, if_true]
      rw [ih (by simp) (fun o ho => hfree o (List.mem_cons_of_mem _ ho)) []]
      simp

/-- `strings.Split(strings.Join(opts, ","), ",") = opts` for non-empty `opts` without commas inside -/
theorem split_join (sep : UInt8) (opts : List Bytes) (hne : opts ≠ [])
    (hfree : ∀ o ∈ opts, sep ∉ o) :
    Go.split (Hdr.joinBytes [sep] opts) [sep] = opts := by
  simp only [Go.split]
  rw [splitOn1_join sep opts hne hfree []]
  cases opts with
  | nil => exact absurd rfl hne
  | cons x t => simp

/-! ### `Go.canon` and `Hdr.equalFold` -/

set_option maxRecDepth 8192 in
theorem lowerB_upperB_nat : ∀ n, n < 256 →
    Go.lowerB (Go.upperB (UInt8.ofNat n)) = Go.lowerB (UInt8.ofNat n) := by decide

set_option maxRecDepth 8192 in
theorem lowerB_lowerB_nat : ∀ n, n < 256 →
    Go.lowerB (Go.lowerB (UInt8.ofNat n)) = Go.lowerB (UInt8.ofNat n) := by decide

theorem lowerB_upperB (c : UInt8) : Go.lowerB (Go.upperB c) = Go.lowerB c := by
  have := lowerB_upperB_nat c.toNat (UInt8.toNat_lt c)
  simpa using this

theorem lowerB_lowerB (c : UInt8) : Go.lowerB (Go.lowerB c) = Go.lowerB c := by
  have := lowerB_lowerB_nat c.toNat (UInt8.toNat_lt c)
  simpa using this

theorem toLower_canonGo (b : Bool) (s : Bytes) : Go.toLower (Go.canonGo b s) = Go.toLower s := by
  induction s generalizing b with
  | nil => rfl
  | cons c t ih =>
    simp only [Go.canonGo, Go.toLower, List.map_cons]
    have ih' := ih ((if b = true then Go.upperB c else Go.lowerB c) == 45)
    simp only [Go.toLower] at ih'
    rw [ih']
    cases b
    · simp [lowerB_lowerB]
    · simp [lowerB_upperB]

/-- canonicalisation only changes letter case -/
theorem toLower_canon (s : Bytes) : Go.toLower (Go.canon s) = Go.toLower s := by
  unfold Go.canon
  split
  · exact toLower_canonGo true s
  · rfl

/-- two names with the same canonical key are equal under `strings.EqualFold` -/
theorem equalFold_of_canon_eq (a b : Bytes) (h : Go.canon a = Go.canon b) : Hdr.equalFold a b = true := by
  have : Go.toLower a = Go.toLower b := by
    rw [← toLower_canon a, ← toLower_canon b, h]
  simp [Hdr.equalFold, this]

/-! ### `Hdr.dropConnOption` -/

/-- the `Connection` values `dropConnOption` leaves -/
def keptVals (h : Hdr) (name : Bytes) : List Bytes :=
  (Hdr.values h Hdr.connKey).filterMap fun v =>
    let opts := (Go.split v [44]).filter fun o => !(Hdr.equalFold (Go.trimSpace o) name)
    if opts.isEmpty then none else some (Hdr.joinBytes [44] opts)

theorem drop_eq (h : Hdr) (name : Bytes) :
    Hdr.dropConnOption h name =
      if (keptVals h name).isEmpty then Hdr.del h Hdr.connKey else Hdr.put h Hdr.connKey (keptVals h name) := rfl

/-- every other header field is untouched -/
theorem values_drop_ne (h : Hdr) (name k : Bytes) (hk : k ≠ Hdr.connKey) :
    Hdr.values (Hdr.dropConnOption h name) k = Hdr.values h k := by
  rw [drop_eq]
  split
  · exact Hdr.values_del_ne _ _ _ hk
  · exact Hdr.values_put_ne _ _ _ _ hk

theorem values_drop_conn (h : Hdr) (name : Bytes) :
    Hdr.values (Hdr.dropConnOption h name) Hdr.connKey = keptVals h name := by
  rw [drop_eq]
  split
  · next he =>
    rw [Hdr.values_del_self]
    exact (List.isEmpty_iff.mp he).symm
  · exact Hdr.values_put_self _ _ _

/-- `dropConnOption` never adds a field -/
theorem values_drop_nil (h : Hdr) (name k : Bytes) (hv : Hdr.values h k = []) :
    Hdr.values (Hdr.dropConnOption h name) k = [] := by
  by_cases hk : k = Hdr.connKey
  · subst hk
    rw [values_drop_conn]
    simp [keptVals, hv]
  · rw [values_drop_ne _ _ _ hk]; exact hv

theorem flatMap_kept (l : List Bytes) (name : Bytes) :
    (l.filterMap fun v =>
        let opts := (Go.split v [44]).filter fun o => !(Hdr.equalFold (Go.trimSpace o) name)
        if opts.isEmpty then none else some (Hdr.joinBytes [44] opts)).flatMap
      (fun v => (Go.split v [44]).map Go.trimSpace) =
    (l.flatMap fun v => (Go.split v [44]).map Go.trimSpace).filter
      (fun o => !(Hdr.equalFold o name)) := by
  induction l with
  | nil => rfl
  | cons v t ih =>
    simp only [List.filterMap_cons, List.flatMap_cons, List.filter_append]
    have hm : ((Go.split v [44]).map Go.trimSpace).filter (fun o => !(Hdr.equalFold o name)) =
        ((Go.split v [44]).filter fun o => !(Hdr.equalFold (Go.trimSpace o) name)).map Go.trimSpace := by
      rw [List.filter_map]; rfl
    by_cases he : ((Go.split v [44]).filter fun o => !(Hdr.equalFold (Go.trimSpace o) name)).isEmpty = true
    · simp only [he, if_true]
      rw [ih, hm, List.isEmpty_iff.mp he]
      rfl
    · simp only [he]
      simp only [Bool.false_eq_true, if_false, List.flatMap_cons]
      rw [ih, hm]
      have hne : ((Go.split v [44]).filter fun o => !(Hdr.equalFold (Go.trimSpace o) name)) ≠ [] :=
        fun e => he (List.isEmpty_iff.mpr e)
      rw [split_join 44 _ hne (fun o ho => split_free 44 v o (List.mem_filter.mp ho).1)]

/-- the options left are exactly the old ones that do not name `name` (same order) -/
theorem connOptions_drop (h : Hdr) (name : Bytes) :
    Hdr.connOptions (Hdr.dropConnOption h name) =
      (Hdr.connOptions h).filter (fun o => !(Hdr.equalFold o name)) := by
  unfold Hdr.connOptions
  rw [values_drop_conn]
  exact flatMap_kept _ _

theorem connOptions_congr (h h' : Hdr) (e : Hdr.values h' Hdr.connKey = Hdr.values h Hdr.connKey) :
    Hdr.connOptions h' = Hdr.connOptions h := by
  unfold Hdr.connOptions; rw [e]

theorem connOptions_nil (h : Hdr) (e : Hdr.values h Hdr.connKey = []) : Hdr.connOptions h = [] := by
  unfold Hdr.connOptions; rw [e]; rfl

theorem connDrops_nil (h : Hdr) (e : Hdr.values h Hdr.connKey = []) : Hdr.connDrops h = [] := by
  unfold Hdr.connDrops; rw [connOptions_nil h e]; rfl

/-- deleting keys other than `k` does not change the values at `k` -/
theorem values_foldl_del (ks : List Bytes) (h : Hdr) (k : Bytes) (hk : k ∉ ks) :
    Hdr.values (ks.foldl Hdr.del h) k = Hdr.values h k := by
  induction ks generalizing h with
  | nil => rfl
  | cons a t ih =>
    simp only [List.foldl_cons]
    rw [ih _ (fun e => hk (List.mem_cons_of_mem _ e))]
    exact Hdr.values_del_ne _ _ _ (fun e => hk (by simp [e]))

/-- deleting keys never adds a value -/
theorem values_foldl_del_nil (ks : List Bytes) (h : Hdr) (k : Bytes) (hv : Hdr.values h k = []) :
    Hdr.values (ks.foldl Hdr.del h) k = [] := by
  induction ks generalizing h with
  | nil => exact hv
  | cons a t ih =>
    simp only [List.foldl_cons]
    apply ih
    by_cases e : k = a
    · subst e; exact Hdr.values_del_self _ _
    · rw [Hdr.values_del_ne _ _ _ e]; exact hv

/-- a key in the deleted list has no values afterwards -/
theorem values_foldl_del_mem (ks : List Bytes) (h : Hdr) (k : Bytes) (hk : k ∈ ks) :
    Hdr.values (ks.foldl Hdr.del h) k = [] := by
  induction ks generalizing h with
  | nil => exact absurd hk List.not_mem_nil
  | cons a t ih =>
    simp only [List.foldl_cons]
    by_cases e : k = a
    · subst e
      exact values_foldl_del_nil _ _ _ (Hdr.values_del_self _ _)
    · rcases List.mem_cons.mp hk with h1 | h1
      · exact absurd h1 e
      · exact ih _ h1

/-- `Hdr.dropConnNamed`: the fields a `Connection` option names are gone … -/
theorem values_dropConnNamed_mem (h : Hdr) (k : Bytes) (hk : k ∈ Hdr.connDrops h) :
    Hdr.values (Hdr.dropConnNamed h) k = [] :=
  values_foldl_del_mem _ _ _ hk

/-- … every other field is untouched … -/
theorem values_dropConnNamed_ne (h : Hdr) (k : Bytes) (hk : k ∉ Hdr.connDrops h) :
    Hdr.values (Hdr.dropConnNamed h) k = Hdr.values h k :=
  values_foldl_del _ _ _ hk

/-- … and no field is added -/
theorem values_dropConnNamed_nil (h : Hdr) (k : Bytes) (hv : Hdr.values h k = []) :
    Hdr.values (Hdr.dropConnNamed h) k = [] :=
  values_foldl_del_nil _ _ _ hv

end InvProxy.ConnOpt
