/-
  Proofs/Lifecycle (C20): helper lemmas for the agent-lifecycle properties.
-/
import InvProxy.Model.Lifecycle
namespace InvProxy.Lifecycle
open InvProxy InvProxy.Gen

/-! ### counter functions -/

theorem healthCount_false (bad : Int) : agent_healthCount false bad = 0 := by
  simp [agent_healthCount, Id.run, pure]

theorem healthCount_true (bad : Int) : agent_healthCount true bad = bad + 1 := by
  simp [agent_healthCount, Id.run, pure]

theorem healthClamp_eq (t : Int) : agent_healthClamp t = if t < 1 then 1 else t := by
  simp only [agent_healthClamp, Id.run, pure]
  split <;> simp_all <;> omega

theorem healthClamp_ge (t : Int) : 1 ≤ agent_healthClamp t := by
  rw [healthClamp_eq]; split <;> omega

theorem healthClamp_id (t : Int) (h : 1 ≤ t) : agent_healthClamp t = t := by
  rw [healthClamp_eq]; split <;> omega

/-! ### gate -/

theorem gate_iff (hist : List Bool) (k : Nat) :
    gate hist = some k ↔ (0 < k ∧ k ≤ hist.length ∧ hist[k - 1]? = some true ∧ ∀ j, j < k - 1 → hist[j]? = some false) := by
  induction hist generalizing k with
  | nil => simp [gate]
  | cons x t ih =>
    cases x with
    | true =>
      simp only [gate, Option.some.injEq, List.length_cons]
      constructor
      · intro h; subst h; simp
      · rintro ⟨h0, h1, h2, h3⟩
        cases k with
        | zero => omega
        | succ k =>
          cases k with
          | zero => rfl
          | succ k => have := h3 0 (by omega); simp at this
    | false =>
      simp only [gate, Option.map_eq_some_iff, List.length_cons]
      constructor
      · rintro ⟨a, ha, rfl⟩
        obtain ⟨h0, h1, h2, h3⟩ := (ih a).1 ha
        refine ⟨by omega, by omega, ?_, ?_⟩
        · have : a + 1 - 1 = (a - 1) + 1 := by omega
          rw [this]; simpa using h2
        · intro j hj
          cases j with
          | zero => rfl
          | succ j => simpa using h3 j (by omega)
      · rintro ⟨h0, h1, h2, h3⟩
        cases k with
        | zero => omega
        | succ k =>
          cases k with
          | zero => simp at h2
          | succ k =>
            refine ⟨k + 1, (ih (k+1)).2 ⟨by omega, by omega, ?_, ?_⟩, rfl⟩
            · simpa using h2
            · intro j hj; simpa using h3 (j+1) (by omega)

/-! ### the automaton -/

theorem step_cancelled (cfg : Cfg) (s s' : St) (e : Ev) (hc : s.cancelled = true) (h : step cfg s e = some s') :
    s'.listsStarted = s.listsStarted ∧ s'.cancelled = true := by
  cases e <;> simp only [step] at h <;> (repeat' split at h) <;> simp_all <;> (subst h; simp_all)

/-- invariant of runs in which no health check has passed yet -/
def Unstarted (s : St) : Prop := (s.phase = .gating ∨ ∃ c, s.phase = .exited c) ∧ s.listsStarted = 0

theorem step_unstarted (cfg : Cfg) (s s' : St) (e : Ev) (hs : Unstarted s) (he : e ≠ .check true)
    (h : step cfg s e = some s') : Unstarted s' := by
  obtain ⟨hp, hl⟩ := hs
  rcases hp with hp | ⟨c, hp⟩
  · cases e <;> simp only [step, alive, hp] at h <;> (repeat' split at h) <;>
      simp_all [Unstarted] <;> (subst h; simp_all)
  · cases e <;> simp only [step, alive, hp] at h <;> (repeat' split at h) <;>
      simp_all <;> (subst h; simp_all)

theorem run_unstarted (cfg : Cfg) (evs : List Ev) (s s' : St) (hs : Unstarted s)
    (h : run cfg s evs = some s') (hn : Ev.check true ∉ evs) : Unstarted s' := by
  induction evs generalizing s with
  | nil => simp [run] at h; subst h; exact hs
  | cons e es ih =>
    simp only [run] at h
    split at h
    · simp at h
    · rename_i s1 h1
      simp only [List.mem_cons, not_or] at hn
      exact ih s1 (step_unstarted cfg s s1 e hs (fun h => hn.1 h.symm) h1) h hn.2

/-! ### health monitor -/

/-- the monitor over natural numbers: `c` consecutive failures so far, threshold `T` -/
def mon (T : Nat) (c : Nat) : List Bool → Option Nat
  | [] => none
  | ok :: t =>
    if T ≤ (if ok then 0 else c + 1) then some 1 else (mon T (if ok then 0 else c + 1) t).map (· + 1)

theorem monitorFrom_eq_mon (threshold : Int) (c k : Nat) (hist : List Bool) :
    monitorFrom threshold (c : Int) k hist = (mon (agent_healthClamp threshold).toNat c hist).map (· + k) := by
  have hT := healthClamp_ge threshold
  induction hist generalizing c k with
  | nil => rfl
  | cons ok t ih =>
    cases ok with
    | true =>
      simp only [monitorFrom, mon, Bool.not_true, healthCount_false, agent_healthExit]
      have h0 := ih 0 (k + 1)
      simp only [Int.natCast_zero] at h0 ⊢
      have h1 : ¬ ((0:Int) ≥ agent_healthClamp threshold) := by omega
      have h2 : ¬ ((agent_healthClamp threshold).toNat ≤ 0) := by omega
      simp only [h1, h2, decide_false, if_false, if_true, Bool.false_eq_true, h0, Option.map_map]
      congr 1; funext x; simp; omega
    | false =>
      simp only [monitorFrom, mon, Bool.not_false, healthCount_true, agent_healthExit]
      have h0 := ih (c + 1) (k + 1)
      simp only [Int.natCast_add, Int.natCast_one] at h0
      by_cases h : (agent_healthClamp threshold).toNat ≤ c + 1
      · have h1 : ((c:Int) + 1 ≥ agent_healthClamp threshold) := by omega
        simp [h, h1]; omega
      · have h1 : ¬ ((c:Int) + 1 ≥ agent_healthClamp threshold) := by omega
        simp only [h, h1, decide_false, if_false, Bool.false_eq_true, h0, Option.map_map]
        congr 1; funext x; simp; omega

theorem monitor_eq_mon (threshold : Int) (hist : List Bool) :
    monitor threshold hist = mon (agent_healthClamp threshold).toNat 0 hist := by
  have := monitorFrom_eq_mon threshold 0 0 hist
  simp only [Int.natCast_zero] at this
  rw [monitor, this]; simp

/-- pointwise form of `failedWindow` -/
def FW (hist : List Bool) (T k : Nat) : Prop := T ≤ k ∧ ∀ i, k - T ≤ i → i < k → hist[i]? ≠ some true

theorem failedWindow_iff (hist : List Bool) (T k : Nat) : failedWindow hist T k = true ↔ FW hist T k := by
  simp only [failedWindow, FW, Bool.and_eq_true, decide_eq_true_eq, List.all_eq_true, beq_iff_eq]
  constructor
  · rintro ⟨h1, h2⟩
    refine ⟨h1, fun i hi1 hi2 hi3 => ?_⟩
    have : true ∈ List.drop (k - T) (List.take k hist) := by
      rw [List.mem_iff_getElem?]
      refine ⟨i - (k - T), ?_⟩
      rw [List.getElem?_drop, List.getElem?_take]
      have : k - T + (i - (k - T)) = i := by omega
      simp [this, hi2, hi3]
    have := h2 _ this
    simp at this
  · rintro ⟨h1, h2⟩
    refine ⟨h1, fun x hx => ?_⟩
    rw [List.mem_iff_getElem?] at hx
    obtain ⟨n, hn⟩ := hx
    rw [List.getElem?_drop, List.getElem?_take] at hn
    split at hn
    · rename_i hlt
      have := h2 (k - T + n) (by omega) hlt
      cases x with
      | false => rfl
      | true => exact absurd hn this
    · simp at hn

theorem failedWindow_false_iff (hist : List Bool) (T k : Nat) : failedWindow hist T k = false ↔ ¬ FW hist T k := by
  rw [← failedWindow_iff]; simp

/-- exit position characterised through `FW` -/
def Exit (hist : List Bool) (T k : Nat) : Prop := FW hist T k ∧ k ≤ hist.length ∧ ∀ j, j < k → ¬ FW hist T j

theorem FW_append_true (pre t : List Bool) (T i : Nat) :
    FW (pre ++ true :: t) T (pre.length + 1 + i) ↔ FW t T i := by
  constructor
  · rintro ⟨h1, h2⟩
    have hTi : T ≤ i := by
      false_or_by_contra
      rename_i hc
      exact h2 pre.length (by omega) (by omega) (by simp)
    refine ⟨hTi, fun y hy1 hy2 => ?_⟩
    have := h2 (pre.length + 1 + y) (by omega) (by omega)
    rw [List.getElem?_append_right (by omega)] at this
    have e : pre.length + 1 + y - pre.length = y + 1 := by omega
    simpa [e] using this
  · rintro ⟨h1, h2⟩
    refine ⟨by omega, fun x hx1 hx2 => ?_⟩
    have := h2 (x - (pre.length + 1)) (by omega) (by omega)
    rw [List.getElem?_append_right (by omega)]
    have e : x - pre.length = (x - (pre.length + 1)) + 1 := by omega
    rw [e]; simpa using this

theorem Exit_append_true (pre t : List Bool) (T m : Nat) (hT : pre.length < T) :
    Exit (pre ++ true :: t) T m ↔ ∃ k, m = pre.length + 1 + k ∧ Exit t T k := by
  constructor
  · rintro ⟨h1, h2, h3⟩
    have hm : pre.length + 1 ≤ m := by
      false_or_by_contra
      rename_i hc
      have h4 := h1.2 pre.length (by have := h1.1; omega) (by have := h1.1; omega)
      simp at h4
    refine ⟨m - (pre.length + 1), by omega, ?_⟩
    have e : m = pre.length + 1 + (m - (pre.length + 1)) := by omega
    rw [e] at h1
    refine ⟨(FW_append_true ..).1 h1, ?_, ?_⟩
    · simp at h2; omega
    · intro j hj hfw
      exact h3 (pre.length + 1 + j) (by omega) ((FW_append_true ..).2 hfw)
  · rintro ⟨k, rfl, h1, h2, h3⟩
    refine ⟨(FW_append_true ..).2 h1, ?_, ?_⟩
    · simp; omega
    · intro j hj hfw
      by_cases hjl : j < pre.length + 1
      · have h4 := hfw.2 pre.length (by have := hfw.1; omega) (by have := hfw.1; omega)
        simp at h4
      · have e : j = pre.length + 1 + (j - (pre.length + 1)) := by omega
        rw [e] at hfw
        exact h3 _ (by omega) ((FW_append_true ..).1 hfw)

theorem replicate_append_false (c : Nat) (t : List Bool) :
    List.replicate c false ++ false :: t = List.replicate (c + 1) false ++ t := by
  rw [List.replicate_succ', List.append_assoc]; rfl

theorem replicate_getElem?_lt (c : Nat) (t : List Bool) (i : Nat) (h : i < c) :
    (List.replicate c false ++ t)[i]? = some false := by
  rw [List.getElem?_append_left (by simpa using h)]; simp [h]

theorem mon_iff (T : Nat) (hist : List Bool) (c k : Nat) (hc : c < T) :
    mon T c hist = some k ↔ Exit (List.replicate c false ++ hist) T (k + c) := by
  induction hist generalizing c k with
  | nil =>
    simp only [mon, List.append_nil, Exit, List.length_replicate]
    constructor
    · intro h; simp at h
    · rintro ⟨h1, h2, -⟩
      have := h1.1; omega
  | cons ok t ih =>
    cases ok with
    | true =>
      have hT : ¬ T ≤ 0 := by omega
      simp only [mon, if_true, hT, if_false, Option.map_eq_some_iff]
      rw [Exit_append_true _ _ _ _ (by simpa using hc)]
      simp only [List.length_replicate]
      constructor
      · rintro ⟨a, ha, rfl⟩
        refine ⟨a, by omega, ?_⟩
        simpa using (ih 0 a (by omega)).1 ha
      · rintro ⟨a, ha, hE⟩
        refine ⟨a, (ih 0 a (by omega)).2 (by simpa using hE), by omega⟩
    | false =>
      simp only [mon, Bool.false_eq_true, if_false]
      rw [replicate_append_false]
      by_cases h : T ≤ c + 1
      · simp only [h, if_true, Option.some.injEq]
        have hTc : T = c + 1 := by omega
        have hfw : FW (List.replicate (c + 1) false ++ t) T (c + 1) :=
          ⟨h, fun i _ hi => by rw [replicate_getElem?_lt _ _ _ hi]; simp⟩
        constructor
        · rintro rfl
          refine ⟨by rw [Nat.add_comm 1 c]; exact hfw, by simp; omega, ?_⟩
          intro j hj hj2
          have := hj2.1; omega
        · rintro ⟨h1, h2, h3⟩
          have := h1.1
          false_or_by_contra
          exact h3 (c + 1) (by omega) hfw
      · simp only [h, if_false, Option.map_eq_some_iff]
        constructor
        · rintro ⟨a, ha, rfl⟩
          have := (ih (c + 1) a (by omega)).1 ha
          have e : a + 1 + c = a + (c + 1) := by omega
          rw [e]; exact this
        · intro hE
          have := hE.1.1
          refine ⟨k - 1, (ih (c + 1) (k - 1) (by omega)).2 ?_, by omega⟩
          have e : k - 1 + (c + 1) = k + c := by omega
          rw [e]; exact hE

theorem monitor_iff (threshold : Int) (hist : List Bool) (k : Nat) :
    monitor threshold hist = some k ↔
      (failedWindow hist (agent_healthClamp threshold).toNat k = true ∧ k ≤ hist.length ∧
       ∀ j, j < k → failedWindow hist (agent_healthClamp threshold).toNat j = false) := by
  have hT := healthClamp_ge threshold
  rw [monitor_eq_mon, mon_iff _ _ 0 k (by omega)]
  simp only [failedWindow_iff, failedWindow_false_iff, Exit, List.replicate_zero, List.nil_append, Nat.add_zero]

end InvProxy.Lifecycle
