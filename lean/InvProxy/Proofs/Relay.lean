/-
  Proofs/Relay (C01): inductive invariant of the relay transition system under the
  atomic ID generator.
-/
import InvProxy.Model.Relay
namespace InvProxy.Relay

theorem lookup_mem {m : List (Rid × Cid)} {r : Rid} {c : Cid}
    (h : lookup m r = some c) : (r, c) ∈ m := by
  induction m with
  | nil => simp [lookup] at h
  | cons p t ih =>
    obtain ⟨k, v⟩ := p
    simp only [lookup] at h
    split at h
    · simp_all
    · exact List.mem_cons_of_mem _ (ih h)

theorem lookup_cons_ne {m : List (Rid × Cid)} {k r : Rid} {v : Cid} (h : k ≠ r) :
    lookup ((k, v) :: m) r = lookup m r := by
  simp [lookup, h]

structure Inv (s : St) : Prop where
  lt : ∀ p ∈ s.pending, p.1 < s.next
  nodup : (s.pending.map (·.1)).Nodup
  fetched : ∀ w r c, (w, r, c) ∈ s.fetched → lookup s.pending r = some c
  produced : ∀ r c, (r, c) ∈ s.produced → lookup s.pending r = some c
  deliv : ∀ c tok, (c, tok) ∈ s.delivered → tok = c
  dnodup : (s.delivered.map (·.1)).Nodup

theorem inv_init : Inv init := by
  constructor <;> simp [init]

theorem lookup_fresh {s : St} (hi : Inv s) {r : Rid} {c v : Cid}
    (h : lookup s.pending r = some c) : lookup ((s.next, v) :: s.pending) r = some c := by
  have hm : r < s.next := hi.lt _ (lookup_mem h)
  have : s.next ≠ r := Nat.ne_of_gt hm
  rw [lookup_cons_ne this]; exact h

theorem inv_arrive {s : St} (hi : Inv s) (c : Cid) :
    Inv { s with next := s.next + 1, pending := (s.next, c) :: s.pending } := by
  constructor
  · intro p hp
    simp only [List.mem_cons] at hp
    rcases hp with rfl | hp
    · simp
    · have h1 : p.1 < s.next := hi.lt p hp
      exact Nat.lt_succ_of_lt h1
  · simp only [List.map_cons, List.nodup_cons]
    refine ⟨?_, hi.nodup⟩
    intro hmem
    obtain ⟨p, hp, hpe⟩ := List.mem_map.1 hmem
    have h1 : p.1 < s.next := hi.lt p hp
    have h2 : p.1 = s.next := hpe
    rw [h2] at h1
    exact Nat.lt_irrefl _ h1
  · intro w r c' h; exact lookup_fresh hi (hi.fetched w r c' h)
  · intro r c' h; exact lookup_fresh hi (hi.produced r c' h)
  · exact hi.deliv
  · exact hi.dnodup

theorem inv_step {s s' : St} {a : Act} (hi : Inv s) (h : step .atomic s a = some s') : Inv s' := by
  cases a with
  | arrive c =>
    simp only [step] at h
    split at h
    · cases h; exact inv_arrive hi c
    · cases h
  | read c => simp [step] at h
  | advance c =>
    simp only [step] at h
    split at h <;> simp at h
  | fetch w r =>
    simp only [step] at h
    split at h
    · rename_i c hc
      cases h
      refine ⟨hi.lt, hi.nodup, ?_, hi.produced, hi.deliv, hi.dnodup⟩
      intro w' r' c' hm
      simp only [List.mem_cons] at hm
      rcases hm with heq | hm
      · cases heq; exact hc
      · exact hi.fetched _ _ _ hm
    · cases h
  | upload w =>
    simp only [step] at h
    split at h
    · rename_i w' r c hf
      cases h
      have hm := List.mem_of_find?_eq_some hf
      refine ⟨hi.lt, hi.nodup, ?_, ?_, hi.deliv, hi.dnodup⟩
      · intro w'' r' c' hm'
        exact hi.fetched _ _ _ (List.mem_filter.1 hm').1
      · intro r' c' hm'
        simp only [List.mem_cons] at hm'
        rcases hm' with heq | hm'
        · cases heq; exact hi.fetched _ _ _ hm
        · exact hi.produced _ _ hm'
    · cases h
  | deliver r =>
    simp only [step] at h
    split at h
    · rename_i r' tok c hf hl
      split at h
      · cases h
      · rename_i hnd
        cases h
        have hm := List.mem_of_find?_eq_some hf
        have hr : r' = r := by simpa using List.find?_some hf
        subst hr
        have htc : tok = c := by
          have := hi.produced _ _ hm
          rw [hl] at this; cases this; rfl
        refine ⟨hi.lt, hi.nodup, hi.fetched, ?_, ?_, ?_⟩
        · intro r'' c' hm'
          exact hi.produced _ _ (List.mem_of_mem_erase hm')
        · intro c' tok' hm'
          simp only [List.mem_cons] at hm'
          rcases hm' with heq | hm'
          · cases heq; exact htc
          · exact hi.deliv _ _ hm'
        · simp only [List.map_cons, List.nodup_cons]
          exact ⟨hnd, hi.dnodup⟩
    · cases h

theorem inv_run {acts : List Act} {s s' : St} (hi : Inv s) (h : run .atomic s acts = some s') : Inv s' := by
  induction acts generalizing s with
  | nil => simp only [run] at h; cases h; exact hi
  | cons a as ih =>
    simp only [run] at h
    split at h
    · cases h
    · rename_i s1 hs
      exact ih (inv_step hi hs) h

theorem inv_reachable {s : St} (h : Reachable .atomic s) : Inv s := by
  obtain ⟨acts, ha⟩ := h
  exact inv_run inv_init ha

end InvProxy.Relay
