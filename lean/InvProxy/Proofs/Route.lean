/-
  Proofs/Route (C18): helper lemmas for Props/C18.
-/
import InvProxy.Model.Route
namespace InvProxy.Route
open InvProxy InvProxy.Gen

/-! ### generated loops = fold

  The proof does not mention the shape of the generated loop bodies: `forIn_yield_fold` reduces
  a loop whose body always yields to a fold, and the per-iteration equation is found by
  splitting every `if` of whatever body goextract produced (nested ifs, guard clauses with
  `continue`, renamed locals all go through). -/

theorem forIn_yield_fold {α β : Type} (l : List α) (init : β) (f : α → β → Id (ForInStep β)) (g : β → α → β)
    (h : ∀ a b, f a b = pure (ForInStep.yield (g b a))) : forIn (m := Id) l init f = pure (l.foldl g init) := by
  induction l generalizing init with
  | nil => rfl
  | cons a l ih =>
    simp only [List.forIn_cons, h, List.foldl_cons]
    exact ih _

theorem pairs_foldl (path : Bytes) (bs : List Backend) (acc : Bytes × Bytes) :
    (pairs bs).foldl (stepMS path) acc =
      bs.foldl (fun acc b => (b.PathPrefixes.map (fun p => (b.BackendID, p))).foldl (stepMS path) acc) acc := by
  induction bs generalizing acc with
  | nil => rfl
  | cons b bs ih => simp only [pairs, List.flatMap_cons, List.foldl_append, List.foldl_cons]; exact ih _

theorem gen_eq_mostSpecific (path : Bytes) (bs : List Backend) :
    store_mostSpecificMatchingBackend path bs = mostSpecific path bs := by
  unfold store_mostSpecificMatchingBackend mostSpecific
  simp only [Id.run]
  rw [forIn_yield_fold _ _ _ (fun acc b => (b.PathPrefixes.map (fun p => (b.BackendID, p))).foldl (stepMS path) acc)]
  · simp only [pure_bind, ← pairs_foldl]
    split <;> first | rfl | simp_all
  · intro b acc
    rw [forIn_yield_fold _ _ _ (fun acc p => stepMS path acc (b.BackendID, p))]
    · simp [List.foldl_map]
    · intro p s
      simp only [stepMS]
      repeat' split
      all_goals simp_all

/-! ### fold over the matching pairs -/

/-- the inner-loop step once non-matching pairs have been filtered out -/
def stepM (acc bp : Bytes × Bytes) : Bytes × Bytes :=
  if acc.1 == [] || bp.2.length > acc.2.length then bp else acc

theorem foldl_stepMS_eq (path : Bytes) (l : List (Bytes × Bytes)) (acc : Bytes × Bytes) :
    l.foldl (stepMS path) acc = (l.filter (fun bp => Go.hasPrefix path bp.2)).foldl stepM acc := by
  induction l generalizing acc with
  | nil => rfl
  | cons x l ih =>
    by_cases h : Go.hasPrefix path x.2 = true
    · simp only [List.foldl_cons, List.filter_cons, h, if_true, stepMS, stepM, ih]
    · simp only [List.foldl_cons, List.filter_cons, h, stepMS, ih]
      simp

/-- `r` sits at index `i` of `ms`, is of maximal length and is the first such -/
def Best (ms : List (Bytes × Bytes)) (i : Nat) (r : Bytes × Bytes) : Prop :=
  ms[i]? = some r ∧ (∀ (j : Nat) (y : Bytes × Bytes), ms[j]? = some y → y.2.length ≤ r.2.length) ∧
  (∀ (j : Nat) (y : Bytes × Bytes), ms[j]? = some y → j < i → y.2.length < r.2.length)

theorem Best.isBest {ms i r} (h : Best ms i r) : IsBest ms i ∧ ms[i]? = some r := by
  obtain ⟨h1, h2, h3⟩ := h
  obtain ⟨hi, hr⟩ := List.getElem?_eq_some_iff.1 h1
  refine ⟨⟨hi, ?_, ?_⟩, h1⟩
  · intro j hj _
    rw [hr]
    exact h2 j _ (List.getElem?_eq_getElem hj)
  · intro j hj _ hlt
    rw [hr]
    exact h3 j _ (List.getElem?_eq_getElem hj) hlt

theorem Best.zero (x : Bytes × Bytes) (ms : List (Bytes × Bytes))
    (h : ∀ y ∈ ms, y.2.length ≤ x.2.length) : Best (x :: ms) 0 x := by
  refine ⟨rfl, ?_, ?_⟩
  · intro j y hj
    cases j with
    | zero => simp at hj; subst hj; exact Nat.le_refl _
    | succ j =>
      simp only [List.getElem?_cons_succ] at hj
      exact h y (List.mem_of_getElem? hj)
  · intro j y _ hlt; omega

theorem Best.succ (x : Bytes × Bytes) {ms : List (Bytes × Bytes)} {i r}
    (h : Best ms i r) (hx : x.2.length < r.2.length) : Best (x :: ms) (i + 1) r := by
  obtain ⟨h1, h2, h3⟩ := h
  refine ⟨by simpa using h1, ?_, ?_⟩
  · intro j y hj
    cases j with
    | zero => simp at hj; subst hj; omega
    | succ j =>
      simp only [List.getElem?_cons_succ] at hj
      exact h2 j y hj
  · intro j y hj hlt
    cases j with
    | zero => simp at hj; subst hj; omega
    | succ j =>
      simp only [List.getElem?_cons_succ] at hj
      exact h3 j y hj (by omega)

theorem stepM_of_ne {acc : Bytes × Bytes} (h : acc.1 ≠ []) (x : Bytes × Bytes) :
    stepM acc x = if x.2.length > acc.2.length then x else acc := by
  simp [stepM, h]

/-- invariant of the left fold started from a non-empty id -/
theorem foldl_stepM_inv (ms : List (Bytes × Bytes)) (hms : ∀ y ∈ ms, y.1 ≠ [])
    (acc : Bytes × Bytes) (hacc : acc.1 ≠ []) :
    (ms.foldl stepM acc = acc ∧ ∀ y ∈ ms, y.2.length ≤ acc.2.length) ∨
    (∃ i, Best ms i (ms.foldl stepM acc) ∧ acc.2.length < (ms.foldl stepM acc).2.length) := by
  induction ms generalizing acc with
  | nil => left; simp
  | cons x ms ih =>
    have hx : x.1 ≠ [] := hms x (List.mem_cons_self)
    have hms' : ∀ y ∈ ms, y.1 ≠ [] := fun y hy => hms y (List.mem_cons_of_mem _ hy)
    rw [List.foldl_cons, stepM_of_ne hacc]
    by_cases hlt : x.2.length > acc.2.length
    · rw [if_pos hlt]
      right
      rcases ih hms' x hx with ⟨he, hall⟩ | ⟨i, hb, hl⟩
      · rw [he]
        exact ⟨0, Best.zero x ms hall, hlt⟩
      · exact ⟨i + 1, Best.succ x hb hl, by omega⟩
    · rw [if_neg hlt]
      rcases ih hms' acc hacc with ⟨he, hall⟩ | ⟨i, hb, hl⟩
      · left
        refine ⟨he, ?_⟩
        intro y hy
        rcases List.mem_cons.1 hy with rfl | hy
        · omega
        · exact hall y hy
      · right
        exact ⟨i + 1, Best.succ x hb (by omega), hl⟩

theorem foldl_stepM_best (x : Bytes × Bytes) (ms : List (Bytes × Bytes))
    (hms : ∀ y ∈ x :: ms, y.1 ≠ []) :
    ∃ i, Best (x :: ms) i ((x :: ms).foldl stepM ([], [])) := by
  have hx : x.1 ≠ [] := hms x (List.mem_cons_self)
  have hms' : ∀ y ∈ ms, y.1 ≠ [] := fun y hy => hms y (List.mem_cons_of_mem _ hy)
  have h0 : stepM ([], []) x = x := by simp [stepM]
  rw [List.foldl_cons, h0]
  rcases foldl_stepM_inv ms hms' x hx with ⟨he, hall⟩ | ⟨i, hb, hl⟩
  · rw [he]; exact ⟨0, Best.zero x ms hall⟩
  · exact ⟨i + 1, Best.succ x hb hl⟩

/-! ### pairs / matching -/

theorem mem_pairs {bs : List Backend} {bp : Bytes × Bytes} :
    bp ∈ pairs bs ↔ ∃ b ∈ bs, b.BackendID = bp.1 ∧ bp.2 ∈ b.PathPrefixes := by
  simp only [pairs, List.mem_flatMap, List.mem_map]
  constructor
  · rintro ⟨b, hb, p, hp, rfl⟩; exact ⟨b, hb, rfl, hp⟩
  · rintro ⟨b, hb, h1, h2⟩; exact ⟨b, hb, bp.2, h2, by rw [h1]⟩

theorem mem_matching {path : Bytes} {bs : List Backend} {bp : Bytes × Bytes} :
    bp ∈ matching path bs ↔
      ∃ b ∈ bs, b.BackendID = bp.1 ∧ bp.2 ∈ b.PathPrefixes ∧ bp.2 <+: path := by
  simp only [matching, List.mem_filter, mem_pairs, Go.hasPrefix, List.isPrefixOf_iff_prefix]
  constructor
  · rintro ⟨⟨b, hb, h1, h2⟩, h3⟩; exact ⟨b, hb, h1, h2, h3⟩
  · rintro ⟨b, hb, h1, h2, h3⟩; exact ⟨⟨b, hb, h1, h2⟩, h3⟩

theorem matching_id_ne {path : Bytes} {bs : List Backend} (hid : ∀ b ∈ bs, b.BackendID ≠ []) :
    ∀ y ∈ matching path bs, y.1 ≠ [] := by
  intro y hy
  obtain ⟨b, hb, h1, _⟩ := mem_matching.1 hy
  rw [← h1]; exact hid b hb

theorem mostSpecific_eq (path : Bytes) (bs : List Backend) :
    mostSpecific path bs =
      (if ((matching path bs).foldl stepM ([], [])).1 == [] then none
       else some ((matching path bs).foldl stepM ([], [])).1) := by
  simp only [mostSpecific, matching, foldl_stepMS_eq]
  rfl

theorem mostSpecific_none_iff (path : Bytes) (bs : List Backend) (hid : ∀ b ∈ bs, b.BackendID ≠ []) :
    mostSpecific path bs = none ↔ matching path bs = [] := by
  rw [mostSpecific_eq]
  constructor
  · intro h
    cases hm : matching path bs with
    | nil => rfl
    | cons x ms =>
      exfalso
      have hne := matching_id_ne (path := path) hid
      rw [hm] at hne h
      obtain ⟨i, hb, _⟩ := foldl_stepM_best x ms hne
      have := hne _ (List.mem_of_getElem? hb)
      rw [if_neg (by rw [beq_iff_eq]; exact this)] at h
      cases h
  · intro h; simp [h]

theorem mostSpecific_some (path : Bytes) (bs : List Backend) (hid : ∀ b ∈ bs, b.BackendID ≠ [])
    (id : Bytes) (h : mostSpecific path bs = some id) :
    ∃ i r, Best (matching path bs) i r ∧ r.1 = id := by
  rw [mostSpecific_eq] at h
  cases hm : matching path bs with
  | nil => simp [hm] at h
  | cons x ms =>
    have hne := matching_id_ne (path := path) hid
    rw [hm] at hne h
    obtain ⟨i, hb⟩ := foldl_stepM_best x ms hne
    refine ⟨i, _, hb, ?_⟩
    have := hne _ (List.mem_of_getElem? hb.1)
    rw [if_neg (by rw [beq_iff_eq]; exact this)] at h
    exact Option.some.inj h

theorem mostSpecific_registered (path : Bytes) (bs : List Backend) (hid : ∀ b ∈ bs, b.BackendID ≠ [])
    (id : Bytes) (h : mostSpecific path bs = some id) :
    ∃ b ∈ bs, b.BackendID = id ∧ ∃ q ∈ b.PathPrefixes, q <+: path := by
  obtain ⟨i, r, hb, rfl⟩ := mostSpecific_some path bs hid id h
  obtain ⟨b, hbm, h1, h2, h3⟩ := mem_matching.1 (List.mem_of_getElem? hb.1)
  exact ⟨b, hbm, h1, r.2, h2, h3⟩

/-! ### lookup -/

theorem ofUser_id_ne {s : Store} (hid : ∀ b ∈ s.backends, b.BackendID ≠ []) (u : Bytes) :
    ∀ b ∈ ofUser s u, b.BackendID ≠ [] :=
  fun b hb => hid b (List.mem_filter.1 hb).1

theorem mostSpecific_ofUser {s : Store} (hid : ∀ b ∈ s.backends, b.BackendID ≠ []) {u path id : Bytes}
    (h : mostSpecific path (ofUser s u) = some id) :
    ∃ b ∈ s.backends, b.BackendID = id ∧ b.EndUser = u := by
  obtain ⟨b, hb, h1, _⟩ := mostSpecific_registered path _ (ofUser_id_ne hid u) id h
  obtain ⟨hb1, hb2⟩ := List.mem_filter.1 hb
  exact ⟨b, hb1, h1, by simpa using hb2⟩

/-- `lookup` returns either the user's best match or the shared best match, and it is live -/
theorem lookup_some {s : Store} {user path : Bytes} {now : Int} {id : Bytes}
    (h : lookup s user path now = some id) :
    (mostSpecific path (ofUser s user) = some id ∨
      mostSpecific path (ofUser s store_sharedBackendUser) = some id) ∧ live s id now = true := by
  unfold lookup at h
  split at h
  · next b hb =>
    split at h
    · next hl => cases h; exact ⟨Or.inl hb, hl⟩
    · cases h
  · unfold lookupShared at h
    split at h
    · next b hb =>
      split at h
      · next hl => cases h; exact ⟨Or.inr hb, hl⟩
      · cases h
    · cases h

theorem live_congr {s s' : Store} {id : Bytes} (now : Int) (h : s.lastSeen id = s'.lastSeen id) :
    live s id now = live s' id now := by
  simp only [live, h]

theorem live_of_chosen {s s' : Store}
    (hl : ∀ b ∈ s.backends, s.lastSeen b.BackendID = s'.lastSeen b.BackendID)
    (hid : ∀ b ∈ s.backends, b.BackendID ≠ []) {u path id : Bytes} (now : Int)
    (hm : mostSpecific path (ofUser s u) = some id) : live s id now = live s' id now := by
  obtain ⟨b, hb, h1, _⟩ := mostSpecific_ofUser hid hm
  exact live_congr now (h1 ▸ hl b hb)

theorem ofUser_congr {s s' : Store} (hb : s.backends = s'.backends) (u : Bytes) :
    ofUser s' u = ofUser s u := by
  simp only [ofUser, hb]

theorem lookupShared_congr {s s' : Store} (hb : s.backends = s'.backends)
    (hl : ∀ b ∈ s.backends, s.lastSeen b.BackendID = s'.lastSeen b.BackendID)
    (hid : ∀ b ∈ s.backends, b.BackendID ≠ []) (path : Bytes) (now : Int) :
    lookupShared s path now = lookupShared s' path now := by
  unfold lookupShared
  rw [ofUser_congr hb]
  cases hm : mostSpecific path (ofUser s store_sharedBackendUser) with
  | none => rfl
  | some id => simp only [live_of_chosen hl hid now hm]

theorem lookup_congr {s s' : Store} (hb : s.backends = s'.backends)
    (hl : ∀ b ∈ s.backends, s.lastSeen b.BackendID = s'.lastSeen b.BackendID)
    (hid : ∀ b ∈ s.backends, b.BackendID ≠ []) (user path : Bytes) (now : Int) :
    lookup s user path now = lookup s' user path now := by
  unfold lookup
  rw [ofUser_congr hb, lookupShared_congr hb hl hid]
  cases hm : mostSpecific path (ofUser s user) with
  | none => rfl
  | some id => simp only [live_of_chosen hl hid now hm]

end InvProxy.Route
