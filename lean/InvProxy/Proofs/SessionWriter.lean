import InvProxy.Model.SessionWriter
namespace InvProxy.SessionWriter
open InvProxy InvProxy.Gen

theorem calls_wrote (noSession : Bool) (sc : Bytes) (parsed : Nat) (l : List (Int × Hdr)) (w : Writer) (hw : w.wrote = true) :
    w.calls noSession sc parsed l = w := by
  induction l generalizing w with
  | nil => rfl
  | cons p rest ih =>
    obtain ⟨st, h⟩ := p
    simp only [Writer.calls]
    have : w.call noSession sc parsed st h = w := by simp [Writer.call, hw]
    rw [this]; exact ih w hw

theorem calls_interim (noSession : Bool) (sc : Bytes) (parsed : Nat) (pre : List (Int × Hdr)) (w : Writer) (hw : w.wrote = false)
    (hpre : ∀ p ∈ pre, isInterim p.1 = true) (rest : List (Int × Hdr)) :
    w.calls noSession sc parsed (pre ++ rest) =
      (Writer.mk false (w.sent ++ pre.map (fun p => (p.1, sessions_writeHeaderEdits false p.1 noSession sc parsed p.2)))).calls noSession sc parsed rest := by
  induction pre generalizing w with
  | nil =>
    obtain ⟨wr, se⟩ := w
    simp at hw; subst hw; simp
  | cons p pre ih =>
    obtain ⟨st, h⟩ := p
    have hst : isInterim st = true := hpre (st, h) (by simp)
    simp only [List.cons_append, Writer.calls]
    have hc : w.call noSession sc parsed st h = ⟨false, w.sent ++ [(st, sessions_writeHeaderEdits false st noSession sc parsed h)]⟩ := by
      simp [Writer.call, hw, hst]
    rw [hc, ih _ rfl (fun q hq => hpre q (by simp [hq]))]
    simp [List.append_assoc]

theorem calls_interim_then_final (noSession : Bool) (sc : Bytes) (parsed : Nat) (V : Int → List Bytes)
    (hP : ∀ st hd, Hdr.Values (sessions_writeHeaderEdits false st noSession sc parsed hd) [83,101,116,45,67,111,111,107,105,101] = V st)
    (pre : List (Int × Hdr)) (f : Int) (h : Hdr) (post : List (Int × Hdr))
    (hpre : ∀ p ∈ pre, isInterim p.1 = true) (hf : isInterim f = false) :
    let w := (Writer.mk false []).calls noSession sc parsed (pre ++ (f, h) :: post)
    w.wrote = true ∧ w.sent.map (·.1) = pre.map (·.1) ++ [f] ∧
    (∀ p ∈ w.sent, Hdr.Values p.2 [83,101,116,45,67,111,111,107,105,101] = V p.1) := by
  intro w
  have hw : w = ⟨true, pre.map (fun p => (p.1, sessions_writeHeaderEdits false p.1 noSession sc parsed p.2)) ++ [(f, sessions_writeHeaderEdits false f noSession sc parsed h)]⟩ := by
    show (Writer.mk false []).calls noSession sc parsed (pre ++ (f, h) :: post) = _
    rw [calls_interim noSession sc parsed pre _ rfl hpre]
    simp only [Writer.calls, List.nil_append]
    have hc : (Writer.mk false (pre.map (fun p => (p.1, sessions_writeHeaderEdits false p.1 noSession sc parsed p.2)))).call noSession sc parsed f h =
        ⟨true, pre.map (fun p => (p.1, sessions_writeHeaderEdits false p.1 noSession sc parsed p.2)) ++ [(f, sessions_writeHeaderEdits false f noSession sc parsed h)]⟩ := by
      simp [Writer.call, hf]
    rw [hc]; exact calls_wrote noSession sc parsed post _ rfl
  rw [hw]
  refine ⟨rfl, ?_, ?_⟩
  · simp [List.map_append, List.map_map, Function.comp_def]
  · intro p hp
    simp only [List.mem_append, List.mem_map, List.mem_singleton] at hp
    rcases hp with ⟨q, _, rfl⟩ | rfl
    · exact hP _ _
    · exact hP _ _

end InvProxy.SessionWriter
