/-
  Proofs/Sessions: helper lemmas for C10 (`find`, `remove`, `trim`, `setJar`, `getOrCreate`,
  the LRU correspondence and the per-session jar refinement).
-/
import InvProxy.Model.Sessions
import InvProxy.Model.Dedup
import InvProxy.Proofs.Lru
import InvProxy.Proofs.Dedup
namespace InvProxy.Sessions
open InvProxy

variable {J U SC C : Type}

/-! ### `find` -/

theorem find_cons_self (s : Sid) (j : J) (es : List (Sid × J)) : find ((s, j) :: es) s = some j := by
  simp [find]

theorem find_cons_ne {s s' : Sid} (j : J) (es : List (Sid × J)) (h : s ≠ s') :
    find ((s, j) :: es) s' = find es s' := by
  simp [find, h]

theorem find_isSome_iff (es : List (Sid × J)) (s : Sid) : (find es s).isSome ↔ s ∈ es.map (·.1) := by
  induction es with
  | nil => simp [find]
  | cons p t ih =>
    obtain ⟨k, j⟩ := p
    by_cases hk : k = s
    · subst hk; simp [find]
    · have hk' : ¬ s = k := fun e => hk e.symm
      simp only [find, hk, if_false, ih]
      simp [hk']

theorem find_eq_none_of_not_mem {es : List (Sid × J)} {s : Sid} (h : s ∉ es.map (·.1)) : find es s = none := by
  cases hf : find es s with
  | none => rfl
  | some j => exact absurd ((find_isSome_iff es s).1 (by simp [hf])) h

theorem remove_cons (k : Sid) (j : J) (t : List (Sid × J)) (s : Sid) :
    remove ((k, j) :: t) s = if k = s then remove t s else (k, j) :: remove t s := by
  by_cases hk : k = s <;> simp [remove, hk]

theorem find_remove_ne (es : List (Sid × J)) {s s' : Sid} (h : s' ≠ s) :
    find (remove es s) s' = find es s' := by
  induction es with
  | nil => rfl
  | cons p t ih =>
    obtain ⟨k, j⟩ := p
    rw [remove_cons]
    by_cases hk : k = s
    · subst hk
      have : ¬ k = s' := fun e => h e.symm
      simp [find, ih, this]
    · simp [hk, find, ih]

theorem find_take (es : List (Sid × J)) (n : Nat) (s' : Sid) (h : s' ∈ (es.take n).map (·.1)) :
    find (es.take n) s' = find es s' := by
  induction es generalizing n with
  | nil => simp
  | cons p t ih =>
    cases n with
    | zero => simp at h
    | succ n =>
      obtain ⟨k, j⟩ := p
      by_cases hk : k = s'
      · simp [find, hk]
      · simp only [List.take_succ_cons, find, hk, if_false]
        apply ih
        have hk' : ¬ s' = k := fun e => hk e.symm
        simpa [List.take_succ_cons, hk'] using h

theorem find_trim (cap : Nat) (es : List (Sid × J)) (s' : Sid) (h : s' ∈ (trim cap es).map (·.1)) :
    find (trim cap es) s' = find es s' := by
  unfold trim at h ⊢
  split
  · rfl
  · next hc => rw [if_neg hc] at h; exact find_take es cap s' h

/-! ### `setJar` -/

theorem keys_setJar (c : Cache J) (s : Sid) (j : J) : keys (setJar c s j) = keys c := by
  simp only [keys, setJar, List.map_map]
  apply List.map_congr_left
  intro p _
  simp only [Function.comp]
  split <;> rfl

theorem cap_setJar (c : Cache J) (s : Sid) (j : J) : (setJar c s j).cap = c.cap := rfl

theorem find_map_setJar_ne (es : List (Sid × J)) {s s' : Sid} (j : J) (h : s' ≠ s) :
    find (es.map (fun p => if p.1 = s then (p.1, j) else p)) s' = find es s' := by
  induction es with
  | nil => rfl
  | cons p t ih =>
    obtain ⟨k, jk⟩ := p
    simp only [List.map_cons]
    by_cases hk : k = s
    · subst hk
      have : ¬ k = s' := fun e => h e.symm
      simp [find, this, ih]
    · simp only [hk, if_false, find, ih]

theorem find_map_setJar_self (es : List (Sid × J)) {s : Sid} (j : J) (h : s ∈ es.map (·.1)) :
    find (es.map (fun p => if p.1 = s then (p.1, j) else p)) s = some j := by
  induction es with
  | nil => simp at h
  | cons p t ih =>
    obtain ⟨k, jk⟩ := p
    simp only [List.map_cons]
    by_cases hk : k = s
    · subst hk; simp [find]
    · have hk' : ¬ s = k := fun e => hk e.symm
      simp only [hk, if_false, find]
      apply ih
      simpa [hk'] using h

theorem find_setJar_ne (c : Cache J) {s s' : Sid} (j : J) (h : s' ≠ s) :
    find (setJar c s j).entries s' = find c.entries s' := find_map_setJar_ne c.entries j h

theorem find_setJar_self (c : Cache J) {s : Sid} (j : J) (h : s ∈ keys c) :
    find (setJar c s j).entries s = some j := find_map_setJar_self c.entries j h

/-! ### `getOrCreate` -/

theorem getOrCreate_snd (ops : JarOps J U SC C) (c : Cache J) (s : Sid) :
    (getOrCreate ops c s).2 = (find c.entries s).getD ops.empty := rfl

theorem getOrCreate_cap (ops : JarOps J U SC C) (c : Cache J) (s : Sid) :
    (getOrCreate ops c s).1.cap = c.cap := rfl

theorem find_getOrCreate_ne (ops : JarOps J U SC C) (c : Cache J) {s s' : Sid} (hne : s' ≠ s)
    (hin : s' ∈ keys (getOrCreate ops c s).1) :
    find (getOrCreate ops c s).1.entries s' = find c.entries s' := by
  simp only [getOrCreate, keys] at hin ⊢
  rw [find_trim _ _ _ hin, find_cons_ne _ _ (Ne.symm hne), find_remove_ne _ hne]

theorem find_getOrCreate_self (ops : JarOps J U SC C) (c : Cache J) {s : Sid}
    (hin : s ∈ keys (getOrCreate ops c s).1) :
    find (getOrCreate ops c s).1.entries s = some ((find c.entries s).getD ops.empty) := by
  simp only [getOrCreate, keys] at hin ⊢
  rw [find_trim _ _ _ hin, find_cons_self]

section Generic
variable {K : Type} [DecidableEq K]

theorem filter_ne_eq_self (t : List (K × J)) (s : K) (h : s ∉ t.map (·.1)) :
    t.filter (fun p => p.1 ≠ s) = t := by
  apply List.filter_eq_self.2
  intro a ha
  have : a.1 ≠ s := fun e => h (e ▸ List.mem_map_of_mem ha)
  simpa using this

theorem map_filter_ne (es : List (K × J)) (s : K) (hn : (es.map (·.1)).Nodup) :
    (es.filter (fun p => p.1 ≠ s)).map (·.1) = (es.map (·.1)).erase s := by
  induction es with
  | nil => rfl
  | cons p t ih =>
    obtain ⟨k, j⟩ := p
    simp only [List.map_cons, List.nodup_cons] at hn
    by_cases hk : k = s
    · subst hk
      have hd : ¬ decide ((k, j).1 ≠ k) = true := by simp
      rw [List.filter_cons, if_neg hd, filter_ne_eq_self t k hn.1]
      simp
    · have hb : ¬ (k == s) = true := by simpa using hk
      have hd : decide ((k, j).1 ≠ s) = true := by simpa using hk
      rw [List.filter_cons, if_pos hd]
      simp only [List.map_cons, List.erase_cons_tail hb, ih hn.2]

theorem nodup_touch (cap : Nat) (l : List K) (x : K) (hn : l.Nodup) : (Lru.touch cap l x).Nodup := by
  have h : (x :: l.erase x).Nodup :=
    List.nodup_cons.2 ⟨fun hm => ((List.Nodup.mem_erase_iff hn).1 hm).1 rfl, hn.erase x⟩
  unfold Lru.touch
  split
  · exact h
  · exact h.sublist (List.take_sublist _ _)

end Generic

theorem keys_getOrCreate (ops : JarOps J U SC C) (c : Cache J) (s : Sid) (hn : (keys c).Nodup) :
    keys (getOrCreate ops c s).1 = Lru.touch c.cap (keys c) s := by
  simp only [getOrCreate, keys, trim, Lru.touch, remove] at hn ⊢
  split
  · rw [List.map_cons, map_filter_ne _ _ hn]
  · rw [List.map_take, List.map_cons, map_filter_ne _ _ hn]

/-! ### one step -/

theorem request_fst (ops : JarOps J U SC C) (cfg : Cfg) (c : Cache J) (url : U) (cookies : List (Bytes × Bytes)) :
    (request ops cfg c url cookies).1 =
      if sessionOf cfg cookies = [] then c else (getOrCreate ops c (sessionOf cfg cookies)).1 := by
  simp only [request]
  split <;> rfl

theorem response_fst (ops : JarOps J U SC C) (c : Cache J) (s fresh : Sid) (url : U) (sc : List SC) :
    (response ops c s fresh url sc).1 =
      if sc = [] then (getOrCreate ops c (if s = [] then fresh else s)).1
      else setJar (getOrCreate ops c (if s = [] then fresh else s)).1 (if s = [] then fresh else s)
        (ops.set ((find c.entries (if s = [] then fresh else s)).getD ops.empty) url sc) := rfl

theorem keys_response (ops : JarOps J U SC C) (c : Cache J) (s fresh : Sid) (url : U) (sc : List SC) :
    keys (response ops c s fresh url sc).1 = keys (getOrCreate ops c (if s = [] then fresh else s)).1 := by
  rw [response_fst]
  split
  · rfl
  · rw [keys_setJar]

theorem find_response_ne (ops : JarOps J U SC C) (c : Cache J) (s fresh : Sid) (url : U) (sc : List SC) {s' : Sid}
    (hne : s' ≠ (if s = [] then fresh else s))
    (hin : s' ∈ keys (response ops c s fresh url sc).1) :
    find (response ops c s fresh url sc).1.entries s' = find c.entries s' := by
  rw [keys_response] at hin
  rw [response_fst]
  split
  · exact find_getOrCreate_ne ops c hne hin
  · rw [find_setJar_ne _ _ hne]
    exact find_getOrCreate_ne ops c hne hin

theorem cap_step (ops : JarOps J U SC C) (cfg : Cfg) (c : Cache J) (op : Op U SC) :
    (step ops cfg c op).cap = c.cap := by
  cases op with
  | req url cookies =>
    simp only [step, request_fst]
    split <;> rfl
  | resp s fresh url sc =>
    simp only [step, response_fst]
    split <;> rfl

/-- a step that touches no session leaves the cache alone -/
theorem step_of_none (ops : JarOps J U SC C) (cfg : Cfg) (c : Cache J) (op : Op U SC)
    (ht : Op.touched cfg op = none) : step ops cfg c op = c := by
  cases op with
  | req url cookies =>
    simp only [Op.touched] at ht
    by_cases h0 : sessionOf cfg cookies = []
    · simp only [step, request_fst, h0, if_true]
    · simp [h0] at ht
  | resp s fresh url sc => simp [Op.touched] at ht

theorem keys_step_some (ops : JarOps J U SC C) (cfg : Cfg) (c : Cache J) (op : Op U SC) {t : Sid}
    (ht : Op.touched cfg op = some t) (hn : (keys c).Nodup) :
    keys (step ops cfg c op) = Lru.touch c.cap (keys c) t := by
  cases op with
  | req url cookies =>
    simp only [Op.touched] at ht
    by_cases h0 : sessionOf cfg cookies = []
    · simp [h0] at ht
    · simp only [h0, if_false, Option.some.injEq] at ht
      subst ht
      simp only [step, request_fst, h0, if_false]
      exact keys_getOrCreate ops c _ hn
  | resp s fresh url sc =>
    simp only [Op.touched, Option.some.injEq] at ht
    subst ht
    simp only [step, keys_response]
    exact keys_getOrCreate ops c _ hn

theorem keys_step (ops : JarOps J U SC C) (cfg : Cfg) (c : Cache J) (op : Op U SC) (hn : (keys c).Nodup) :
    keys (step ops cfg c op) =
      match Op.touched cfg op with
      | none => keys c
      | some t => Lru.touch c.cap (keys c) t := by
  cases ht : Op.touched cfg op with
  | none => simp only [step_of_none ops cfg c op ht]
  | some t => exact keys_step_some ops cfg c op ht hn

theorem run_append_singleton (ops : JarOps J U SC C) (cfg : Cfg) (c : Cache J) (p : List (Op U SC)) (op : Op U SC) :
    run ops cfg c (p ++ [op]) = step ops cfg (run ops cfg c p) op := by
  simp [run, List.foldl_append]

theorem touches_append (cfg : Cfg) (p q : List (Op U SC)) : touches cfg (p ++ q) = touches cfg p ++ touches cfg q := by
  simp [touches]

theorem touches_singleton_none (cfg : Cfg) (op : Op U SC) (ht : Op.touched cfg op = none) :
    touches cfg [op] = [] := by
  simp [touches, ht]

theorem touches_singleton_some (cfg : Cfg) (op : Op U SC) {t : Sid} (ht : Op.touched cfg op = some t) :
    touches cfg [op] = [t] := by
  simp [touches, ht]

theorem run_inv (ops : JarOps J U SC C) (cfg : Cfg) (cap : Nat) (h : List (Op U SC)) :
    (run ops cfg { cap := cap, entries := [] } h).cap = cap ∧
    (keys (run ops cfg { cap := cap, entries := [] } h)).Nodup ∧
    keys (run ops cfg { cap := cap, entries := [] } h) = Lru.after cap (touches cfg h) := by
  induction h using Lru.rev_induction with
  | nil => simp [run, keys, Lru.after, touches]
  | append_singleton p op ih =>
    obtain ⟨hcap, hn, hk⟩ := ih
    cases ht : Op.touched cfg op with
    | none =>
      rw [run_append_singleton, step_of_none ops cfg _ op ht, touches_append,
        touches_singleton_none cfg op ht, List.append_nil]
      exact ⟨hcap, hn, hk⟩
    | some t =>
      have hk' : keys (run ops cfg { cap := cap, entries := [] } (p ++ [op])) =
          Lru.after cap (touches cfg (p ++ [op])) := by
        rw [run_append_singleton, keys_step_some _ _ _ _ ht hn, hcap, hk, touches_append,
          touches_singleton_some cfg op ht, Lru.after_append_singleton]
      refine ⟨?_, ?_, hk'⟩
      · rw [run_append_singleton, cap_step, hcap]
      · rw [run_append_singleton, keys_step_some _ _ _ _ ht hn]
        exact nodup_touch _ _ _ hn

/-! ### the reference jar -/

/-- one step of the reference jar of session `s` -/
def refStep (ops : JarOps J U SC C) (s : Sid) (j : J) : Op U SC → J
  | .resp s' fresh url sc => if (if s' = [] then fresh else s') = s ∧ sc ≠ [] then ops.set j url sc else j
  | .req _ _ => j

theorem refJar_append_singleton (ops : JarOps J U SC C) (cfg : Cfg) (s : Sid) (p : List (Op U SC)) (op : Op U SC) :
    refJar ops cfg s (p ++ [op]) = refStep ops s (refJar ops cfg s p) op := by
  simp only [refJar, List.foldl_append, List.foldl_cons, List.foldl_nil]
  cases op <;> rfl

theorem refStep_ne (ops : JarOps J U SC C) (cfg : Cfg) (s : Sid) (j : J) (op : Op U SC)
    (h : Op.touched cfg op ≠ some s) : refStep ops s j op = j := by
  cases op with
  | req url cookies => rfl
  | resp s' fresh url sc =>
    simp only [Op.touched, ne_eq, Option.some.injEq] at h
    simp [refStep, h]

theorem refJar_of_not_mem (ops : JarOps J U SC C) (cfg : Cfg) (s : Sid) (p : List (Op U SC))
    (h : s ∉ touches cfg p) : refJar ops cfg s p = ops.empty := by
  induction p using Lru.rev_induction with
  | nil => rfl
  | append_singleton p op ih =>
    rw [touches_append] at h
    simp only [List.mem_append, not_or] at h
    have hne : Op.touched cfg op ≠ some s := by
      intro e
      apply h.2
      rw [touches_singleton_some cfg op e]
      simp
    rw [refJar_append_singleton, refStep_ne ops cfg s _ op hne, ih h.1]

/-- a step leaves the jar of every other session that stays cached untouched -/
theorem find_step_ne (ops : JarOps J U SC C) (cfg : Cfg) (c : Cache J) (op : Op U SC) {s : Sid}
    (hne : Op.touched cfg op ≠ some s) (hin : s ∈ keys (step ops cfg c op)) :
    find (step ops cfg c op).entries s = find c.entries s := by
  cases op with
  | req url cookies =>
    simp only [Op.touched] at hne
    simp only [step, request_fst] at hin ⊢
    by_cases h0 : sessionOf cfg cookies = []
    · simp only [h0, if_true]
    · simp only [h0, if_false, ne_eq, Option.some.injEq] at hne hin ⊢
      exact find_getOrCreate_ne ops c (fun e => hne e.symm) hin
  | resp s' fresh url sc =>
    simp only [Op.touched, ne_eq, Option.some.injEq] at hne
    exact find_response_ne ops c s' fresh url sc (fun e => hne e.symm) hin

/-- the jar of the touched session after a step -/
theorem find_step_self (ops : JarOps J U SC C) (cfg : Cfg) (c : Cache J) (op : Op U SC) {s : Sid}
    (ht : Op.touched cfg op = some s) (hin : s ∈ keys (step ops cfg c op)) :
    find (step ops cfg c op).entries s =
      some (refStep ops s ((find c.entries s).getD ops.empty) op) := by
  cases op with
  | req url cookies =>
    simp only [Op.touched] at ht
    by_cases h0 : sessionOf cfg cookies = []
    · simp [h0] at ht
    · simp only [h0, if_false, Option.some.injEq] at ht
      subst ht
      simp only [step, request_fst, h0, if_false, refStep] at hin ⊢
      exact find_getOrCreate_self ops c hin
  | resp s' fresh url sc =>
    simp only [Op.touched, Option.some.injEq] at ht
    subst ht
    simp only [step, refStep] at hin ⊢
    rw [keys_response] at hin
    rw [response_fst]
    by_cases hsc : sc = []
    · simp only [hsc, if_true, ne_eq, not_true_eq_false, and_false, if_false]
      exact find_getOrCreate_self ops c hin
    · simp only [hsc, if_false, ne_eq, not_false_eq_true, and_self, if_true]
      exact find_setJar_self _ _ hin

theorem refine_inv (ops : JarOps J U SC C) (cfg : Cfg) (cap : Nat) (hc : 0 < cap) (p : List (Op U SC))
    (hw : Dedup.WindowOK cap (touches cfg p)) (s : Sid)
    (hin : s ∈ keys (run ops cfg { cap := cap, entries := [] } p)) :
    find (run ops cfg { cap := cap, entries := [] } p).entries s = some (refJar ops cfg s p) := by
  induction p using Lru.rev_induction generalizing s with
  | nil => simp [run, keys] at hin
  | append_singleton p op ih =>
    rw [touches_append] at hw
    have ih' := ih hw.prefix
    rw [run_append_singleton] at hin ⊢
    rw [refJar_append_singleton]
    by_cases hst : Op.touched cfg op = some s
    · rw [touches_singleton_some cfg op hst] at hw
      rw [find_step_self ops cfg _ op hst hin]
      congr 2
      by_cases hm : s ∈ touches cfg p
      · have hk : s ∈ keys (run ops cfg { cap := cap, entries := [] } p) := by
          rw [(run_inv ops cfg cap p).2.2]
          exact Dedup.mem_after_of_window hc hw hm
        rw [ih' _ hk]; rfl
      · have hk : s ∉ keys (run ops cfg { cap := cap, entries := [] } p) := by
          rw [(run_inv ops cfg cap p).2.2]
          exact fun h => hm (Dedup.mem_of_mem_after h)
        rw [find_eq_none_of_not_mem hk, refJar_of_not_mem ops cfg _ p hm]; rfl
    · rw [find_step_ne ops cfg _ op hst hin, refStep_ne ops cfg s _ op hst]
      apply ih'
      have : (find (step ops cfg (run ops cfg { cap := cap, entries := [] } p) op).entries s).isSome :=
        (find_isSome_iff _ _).2 hin
      rw [find_step_ne ops cfg _ op hst hin] at this
      exact (find_isSome_iff _ _).1 this

end InvProxy.Sessions
