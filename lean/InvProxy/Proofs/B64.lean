/-
  Proofs/B64: helper lemmas for C11 (base64 round trip).
  Byte-level facts are established by exhaustive kernel evaluation over the 256 bytes;
  two-byte facts are reduced to one-byte facts by distributing shifts over `|||`.
-/
import InvProxy.Model.WsCodec
namespace InvProxy.WsCodec
open InvProxy

def all8 (p : UInt8 → Bool) : Bool := (List.range 256).all fun n => p (UInt8.ofNat n)

theorem all8_spec {p : UInt8 → Bool} (h : all8 p = true) (a : UInt8) : p a = true := by
  unfold all8 at h
  rw [List.all_eq_true] at h
  have := h a.toNat (List.mem_range.mpr a.toNat_lt)
  simpa using this

/-! ### one-byte facts -/

def chkChar : Bool :=
  all8 fun n => decide (n >>> 6 = 0 → b64val (b64char n) = some n ∧ b64char n ≠ 61)
theorem chkChar_ok : chkChar = true := by decide +kernel

theorem char_ok (n : UInt8) (h : n >>> 6 = 0) : b64val (b64char n) = some n ∧ b64char n ≠ 61 := by
  have := all8_spec chkChar_ok n
  exact (of_decide_eq_true this) h

def chkSix : Bool :=
  all8 fun a => decide ((a >>> 2) >>> 6 = 0 ∧ ((a &&& 3) <<< 4) >>> 6 = 0 ∧ (a >>> 4) >>> 6 = 0 ∧
    ((a &&& 15) <<< 2) >>> 6 = 0 ∧ (a >>> 6) >>> 6 = 0 ∧ (a &&& 63) >>> 6 = 0)
theorem chkSix_ok : chkSix = true := by decide +kernel

theorem six_ok (a : UInt8) : (a >>> 2) >>> 6 = 0 ∧ ((a &&& 3) <<< 4) >>> 6 = 0 ∧ (a >>> 4) >>> 6 = 0 ∧
    ((a &&& 15) <<< 2) >>> 6 = 0 ∧ (a >>> 6) >>> 6 = 0 ∧ (a &&& 63) >>> 6 = 0 :=
  of_decide_eq_true (all8_spec chkSix_ok a)

def chkId : Bool :=
  all8 fun a => decide (
    ((a &&& 3) <<< 4) >>> 4 = a &&& 3 ∧ (a >>> 4) >>> 4 = 0 ∧ ((a >>> 2) <<< 2) ||| (a &&& 3) = a ∧
    ((a &&& 3) <<< 4) <<< 4 = 0 ∧ ((a &&& 15) <<< 2) >>> 2 = a &&& 15 ∧ (a >>> 6) >>> 2 = 0 ∧
    ((a >>> 4) <<< 4) ||| (a &&& 15) = a ∧
    ((a &&& 15) <<< 2) <<< 6 = 0 ∧ ((a >>> 6) <<< 6) ||| (a &&& 63) = a)
theorem chkId_ok : chkId = true := by decide +kernel

theorem id_ok (a : UInt8) :
    ((a &&& 3) <<< 4) >>> 4 = a &&& 3 ∧ (a >>> 4) >>> 4 = 0 ∧ ((a >>> 2) <<< 2) ||| (a &&& 3) = a ∧
    ((a &&& 3) <<< 4) <<< 4 = 0 ∧ ((a &&& 15) <<< 2) >>> 2 = a &&& 15 ∧ (a >>> 6) >>> 2 = 0 ∧
    ((a >>> 4) <<< 4) ||| (a &&& 15) = a ∧
    ((a &&& 15) <<< 2) <<< 6 = 0 ∧ ((a >>> 6) <<< 6) ||| (a &&& 63) = a :=
  of_decide_eq_true (all8_spec chkId_ok a)

/-! ### the four sextets of a group -/

theorem six_or {x y : UInt8} (hx : x >>> 6 = 0) (hy : y >>> 6 = 0) : (x ||| y) >>> 6 = 0 := by
  rw [UInt8.shiftRight_or, hx, hy]; rfl

theorem six_q (a b : UInt8) : (((a &&& 3) <<< 4) ||| (b >>> 4)) >>> 6 = 0 :=
  six_or (six_ok a).2.1 (six_ok b).2.2.1

theorem six_r (b c : UInt8) : (((b &&& 15) <<< 2) ||| (c >>> 6)) >>> 6 = 0 :=
  six_or (six_ok b).2.2.2.1 (six_ok c).2.2.2.2.1

theorem byte1 (a b : UInt8) :
    ((a >>> 2) <<< 2) ||| ((((a &&& 3) <<< 4) ||| (b >>> 4)) >>> 4) = a := by
  rw [UInt8.shiftRight_or, (id_ok a).1, (id_ok b).2.1, UInt8.or_zero, (id_ok a).2.2.1]

theorem byte2 (a b c : UInt8) :
    ((((a &&& 3) <<< 4) ||| (b >>> 4)) <<< 4) ||| ((((b &&& 15) <<< 2) ||| (c >>> 6)) >>> 2) = b := by
  rw [UInt8.shiftLeft_or, UInt8.shiftRight_or, (id_ok a).2.2.2.1, (id_ok b).2.2.2.2.1,
    (id_ok c).2.2.2.2.2.1, UInt8.or_zero, UInt8.zero_or, (id_ok b).2.2.2.2.2.2.1]

theorem byte3 (b c : UInt8) :
    ((((b &&& 15) <<< 2) ||| (c >>> 6)) <<< 6) ||| (c &&& 63) = c := by
  rw [UInt8.shiftLeft_or, (id_ok b).2.2.2.2.2.2.2.1, UInt8.zero_or, (id_ok c).2.2.2.2.2.2.2.2]

/-! ### decoder equations in usable form -/

theorem b64dec_quad (w x y z : UInt8) (t : Bytes) (hz : z ≠ 61) :
    b64dec (w :: x :: y :: z :: t) =
      match b64val w, b64val x, b64val y, b64val z, b64dec t with
      | some p, some q, some r, some s, some rest =>
        some (((p <<< 2) ||| (q >>> 4)) :: ((q <<< 4) ||| (r >>> 2)) :: ((r <<< 6) ||| s) :: rest)
      | _, _, _, _, _ => none := by
  exact b64dec.eq_4 w x y z t (fun _ h _ => hz h) (fun h _ => hz h)

theorem b64dec_pad1 (w x y : UInt8) (hy : y ≠ 61) :
    b64dec [w, x, y, 61] =
      match b64val w, b64val x, b64val y with
      | some p, some q, some r => some [(p <<< 2) ||| (q >>> 4), (q <<< 4) ||| (r >>> 2)]
      | _, _, _ => none := by
  exact b64dec.eq_3 w x y hy

theorem b64_roundtrip' (bs : Bytes) : b64dec (b64enc bs) = some bs := by
  fun_induction b64enc bs with
  | case1 => rfl
  | case2 a =>
    rw [b64dec.eq_2, (char_ok _ (six_ok a).1).1, (char_ok _ (six_ok a).2.1).1]
    simp only
    have := byte1 a 0
    rw [show (0 : UInt8) >>> 4 = 0 from rfl, UInt8.or_zero] at this
    rw [this]
  | case3 a b =>
    have hr : ((b &&& 15) <<< 2) >>> 6 = 0 := (six_ok b).2.2.2.1
    rw [b64dec_pad1 _ _ _ (char_ok _ hr).2, (char_ok _ (six_ok a).1).1,
      (char_ok _ (six_q a b)).1, (char_ok _ hr).1]
    simp only
    have h2 := byte2 a b 0
    rw [show (0 : UInt8) >>> 6 = 0 from rfl, UInt8.or_zero] at h2
    rw [byte1, h2]
  | case4 a b c t ih =>
    have hs : (c &&& 63) >>> 6 = 0 := (six_ok c).2.2.2.2.2
    rw [b64dec_quad _ _ _ _ _ (char_ok _ hs).2, (char_ok _ (six_ok a).1).1,
      (char_ok _ (six_q a b)).1, (char_ok _ (six_r b c)).1, (char_ok _ hs).1, ih]
    simp only
    rw [byte1, byte2, byte3]

end InvProxy.WsCodec
