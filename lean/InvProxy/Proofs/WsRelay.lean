/-
  Proofs/WsRelay: helper lemmas for C11 (bounded FIFO relay).
-/
import InvProxy.Model.WsRelay
namespace InvProxy.WsRelay

theorem step_cap {μ : Type} {s s' : St μ} {a : Act} (h : step s a = some s') : s'.cap = s.cap := by
  cases a with
  | enq =>
    simp only [step] at h
    split at h
    · split at h
      · injection h with h; subst h; rfl
      · contradiction
    · contradiction
  | deq =>
    simp only [step] at h
    split at h
    · injection h with h; subst h; rfl
    · contradiction
  | drain k =>
    simp only [step] at h
    split at h
    · injection h with h; subst h; rfl
    · contradiction

theorem step_inv {μ : Type} {msgs : List μ} {s s' : St μ} {a : Act}
    (hi : s.done ++ s.chan ++ s.todo = msgs) (h : step s a = some s') :
    s'.done ++ s'.chan ++ s'.todo = msgs := by
  cases a with
  | enq =>
    simp only [step] at h
    split at h
    · rename_i m t ht
      split at h
      · injection h with h; subst h
        rw [ht] at hi
        simpa [List.append_assoc] using hi
      · contradiction
    · contradiction
  | deq =>
    simp only [step] at h
    split at h
    · rename_i m t ht
      injection h with h; subst h
      rw [ht] at hi
      simpa [List.append_assoc] using hi
    · contradiction
  | drain k =>
    simp only [step] at h
    split at h
    · injection h with h; subst h
      simp only [List.append_assoc] at hi ⊢
      rw [← List.append_assoc (List.take k s.chan), List.take_append_drop]
      exact hi
    · contradiction

theorem step_bounded {μ : Type} {s s' : St μ} {a : Act}
    (hi : s.chan.length ≤ max s.cap 1) (h : step s a = some s') :
    s'.chan.length ≤ max s'.cap 1 := by
  cases a with
  | enq =>
    simp only [step] at h
    split at h
    · split at h
      · rename_i hlt
        injection h with h; subst h
        simp only [List.length_append, List.length_cons, List.length_nil]
        omega
      · contradiction
    · contradiction
  | deq =>
    simp only [step] at h
    split at h
    · rename_i m t ht
      injection h with h; subst h
      rw [ht] at hi
      simp only [List.length_cons] at hi
      show t.length ≤ max s.cap 1
      omega
    · contradiction
  | drain k =>
    simp only [step] at h
    split at h
    · injection h with h; subst h
      simp only [List.length_drop]
      omega
    · contradiction

theorem run_inv {μ : Type} {msgs : List μ} (acts : List Act) (s s' : St μ)
    (hi : s.done ++ s.chan ++ s.todo = msgs) (h : run s acts = some s') :
    s'.done ++ s'.chan ++ s'.todo = msgs := by
  induction acts generalizing s with
  | nil =>
    simp only [run] at h
    injection h with h; subst h; exact hi
  | cons a as ih =>
    simp only [run] at h
    split at h
    · contradiction
    · rename_i s1 hs1
      exact ih s1 (step_inv hi hs1) h

theorem run_bounded {μ : Type} (acts : List Act) (s s' : St μ)
    (hi : s.chan.length ≤ max s.cap 1) (h : run s acts = some s') :
    s'.chan.length ≤ max s'.cap 1 := by
  induction acts generalizing s with
  | nil =>
    simp only [run] at h
    injection h with h; subst h; exact hi
  | cons a as ih =>
    simp only [run] at h
    split at h
    · contradiction
    · rename_i s1 hs1
      exact ih s1 (step_bounded hi hs1) h

theorem run_cap {μ : Type} (acts : List Act) (s s' : St μ)
    (h : run s acts = some s') : s'.cap = s.cap := by
  induction acts generalizing s with
  | nil =>
    simp only [run] at h
    injection h with h; subst h; rfl
  | cons a as ih =>
    simp only [run] at h
    split at h
    · contradiction
    · rename_i s1 hs1
      rw [ih s1 h, step_cap hs1]

theorem progress {μ : Type} (s : St μ) (hne : s.todo ≠ [] ∨ s.chan ≠ []) :
    ∃ a s', step s a = some s' ∧
      2 * s'.todo.length + s'.chan.length < 2 * s.todo.length + s.chan.length := by
  cases hc : s.chan with
  | cons m t =>
    refine ⟨.deq, { s with chan := t, done := s.done ++ [m] }, ?_, ?_⟩
    · simp only [step, hc]
    · simp only [List.length_cons]; omega
  | nil =>
    cases ht : s.todo with
    | nil => simp [hc, ht] at hne
    | cons m t =>
      refine ⟨.enq, { s with todo := t, chan := s.chan ++ [m] }, ?_, ?_⟩
      · have : s.chan.length < max s.cap 1 := by rw [hc]; simp only [List.length_nil]; omega
        simp only [step, ht, this, if_true]
      · simp only [hc, List.length_cons, List.length_append, List.length_nil]; omega


theorem step_done_prefix {μ : Type} (s s' : St μ) (a : Act) (h : step s a = some s') : s.done <+: s'.done := by
  cases a with
  | enq =>
    simp only [step] at h
    split at h
    · split at h
      · cases h; exact List.prefix_refl _
      · cases h
    · cases h
  | deq =>
    simp only [step] at h
    split at h
    · cases h; exact List.prefix_append _ _
    · cases h
  | drain k =>
    simp only [step] at h
    split at h
    · cases h; exact List.prefix_append _ _
    · cases h

theorem run_done_prefix {μ : Type} (acts : List Act) (s s' : St μ) (h : run s acts = some s') : s.done <+: s'.done := by
  induction acts generalizing s with
  | nil => simp [run] at h; subst h; exact List.prefix_refl _
  | cons a as ih =>
    simp only [run] at h
    split at h
    · cases h
    · next s1 hs => exact List.IsPrefix.trans (step_done_prefix s s1 a hs) (ih s1 h)

theorem run_append {μ : Type} (a b : List Act) (s : St μ) :
    run s (a ++ b) = (run s a).bind (fun s1 => run s1 b) := by
  induction a generalizing s with
  | nil => simp [run]
  | cons x xs ih =>
    simp only [List.cons_append, run]
    cases step s x with
    | none => simp
    | some s1 => simp [ih]

theorem drain_eq_deqs {μ : Type} (k : Nat) (s : St μ) (h1 : 1 ≤ k) (h2 : k ≤ s.chan.length) :
    step s (.drain k) = run s (List.replicate k .deq) := by
  induction k generalizing s with
  | zero => omega
  | succ k ih =>
    obtain ⟨cap, todo, chan, done⟩ := s
    cases chan with
    | nil => simp at h2
    | cons m t =>
      simp only [List.length_cons] at h2
      cases k with
      | zero => simp [step, run]
      | succ j =>
        have := ih { cap := cap, todo := todo, chan := t, done := done ++ [m] } (by omega) (by simpa using h2)
        rw [List.replicate_succ, run]
        simp only [step]
        rw [← this]
        simp [step]
end InvProxy.WsRelay
