/-
  Proofs/Workers — helper lemmas for C07 (worker product model).
-/
import InvProxy.Model.Workers
namespace InvProxy.Workers
open InvProxy

theorem astep_same (a : Agent) (j : Nat) (f : Option Fault) (pc : Pc) (hj : a[j]? = some pc) :
    (astep a j f)[j]? = some (wstep pc f) := by
  have hlt : j < a.length := by
    rcases Nat.lt_or_ge j a.length with h | h
    · exact h
    · rw [List.getElem?_eq_none h] at hj; cases hj
  unfold astep
  rw [hj]
  simp [hlt]

theorem astep_other (a : Agent) (i j : Nat) (f : Option Fault) (hij : i ≠ j) :
    (astep a i f)[j]? = a[j]? := by
  unfold astep
  split
  · simp [hij]
  · rfl

theorem proj_cons (j i : Nat) (f : Option Fault) (t : List (Nat × Option Fault)) :
    proj j ((i, f) :: t) = if i = j then f :: proj j t else proj j t := by
  by_cases h : i = j <;> simp [proj, h]

theorem arun_proj (a : Agent) (sched : List (Nat × Option Fault)) (j : Nat) (pc : Pc) (hj : a[j]? = some pc) :
    (arun a sched)[j]? = some (wrun pc (proj j sched)) := by
  induction sched generalizing a pc with
  | nil => simpa [arun, proj, wrun] using hj
  | cons p t ih =>
    obtain ⟨i, f⟩ := p
    rw [proj_cons]
    simp only [arun]
    by_cases h : i = j
    · subst h
      simp only [if_true, wrun]
      exact ih _ _ (astep_same a i f pc hj)
    · simp only [if_neg h]
      exact ih _ _ (by rw [astep_other a i j f h]; exact hj)

def rank : Pc → Nat
  | .fetching => 5
  | .connecting => 4
  | .readingHead => 3
  | .streaming => 2
  | .uploading _ => 1
  | .finished _ => 0

theorem rank_wstep (pc : Pc) (f : Option Fault) : rank (wstep pc f) ≤ rank pc - 1 := by
  cases pc <;> rcases f with _ | f <;> first | (simp [wstep, rank]; done) | (cases f <;> simp [wstep, rank])

theorem rank_wrun (pc : Pc) (fs : List (Option Fault)) : rank (wrun pc fs) ≤ rank pc - fs.length := by
  induction fs generalizing pc with
  | nil => simp [wrun]
  | cons f t ih =>
    have h1 := ih (wstep pc f)
    have h2 := rank_wstep pc f
    simp only [wrun, List.length_cons]
    omega

theorem rank_zero (pc : Pc) (h : rank pc = 0) : ∃ o, pc = .finished o := by
  cases pc <;> simp [rank] at h
  exact ⟨_, rfl⟩

theorem wstep_finished (o : Outcome) (f : Option Fault) : wstep (.finished o) f = .finished o := by
  simp [wstep]

theorem wrun_finished (o : Outcome) (fs : List (Option Fault)) : wrun (.finished o) fs = .finished o := by
  induction fs with
  | nil => rfl
  | cons f t ih => simpa [wrun, wstep] using ih

theorem astep_length (a : Agent) (i : Nat) (f : Option Fault) : (astep a i f).length = a.length := by
  unfold astep; split <;> simp

theorem arun_length (a : Agent) (sched : List (Nat × Option Fault)) : (arun a sched).length = a.length := by
  induction sched generalizing a with
  | nil => rfl
  | cons p t ih => obtain ⟨i, f⟩ := p; simp only [arun]; rw [ih, astep_length]

theorem fetch_ok (f : Option Fault) (h : f ≠ some .fetchFail) : wstep .fetching f = .connecting := by
  cases f with
  | none => rfl
  | some x => cases x <;> simp_all [wstep]

theorem connecting_cases (f : Option Fault) : wstep .connecting f = .uploading 502 ∨ wstep .connecting f = .readingHead := by
  cases f with
  | none => simp [wstep]
  | some x => cases x <;> simp [wstep]

theorem head_cases (f : Option Fault) : wstep .readingHead f = .uploading 502 ∨ wstep .readingHead f = .streaming := by
  cases f with
  | none => simp [wstep]
  | some x => cases x <;> simp [wstep]

theorem streaming_step (f : Option Fault) : wstep .streaming f = .uploading 200 := by
  cases f with
  | none => simp [wstep]
  | some x => cases x <;> simp [wstep]

theorem upload_ok (st : Nat) (f : Option Fault) (h : f ≠ some .uploadFail) : wstep (.uploading st) f = .finished (.served st) := by
  cases f with
  | none => rfl
  | some x => cases x <;> simp_all [wstep]

theorem served_unless_proxy_fails (fs : List (Option Fault)) (h : 5 ≤ fs.length)
    (h1 : some Fault.fetchFail ∉ fs) (h2 : some Fault.uploadFail ∉ fs) :
    ∃ st, (st = 200 ∨ st = 502) ∧ wrun .fetching fs = .finished (.served st) := by
  match fs, h with
  | f1 :: f2 :: f3 :: f4 :: f5 :: rest, _ =>
    simp only [List.mem_cons, not_or] at h1 h2
    simp only [wrun]
    rw [fetch_ok f1 (fun e => h1.1 e.symm)]
    rcases connecting_cases f2 with hc | hc <;> rw [hc]
    · rw [upload_ok 502 f3 (fun e => h2.2.2.1 e.symm)]; simp only [wstep_finished, wrun_finished]
      exact ⟨502, Or.inr rfl, rfl⟩
    · rcases head_cases f3 with hh | hh <;> rw [hh]
      · rw [upload_ok 502 f4 (fun e => h2.2.2.2.1 e.symm)]; simp only [wstep_finished, wrun_finished]
        exact ⟨502, Or.inr rfl, rfl⟩
      · rw [streaming_step f4, upload_ok 200 f5 (fun e => h2.2.2.2.2.1 e.symm), wrun_finished]
        exact ⟨200, Or.inl rfl, rfl⟩

end InvProxy.Workers
