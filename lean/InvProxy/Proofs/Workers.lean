/-
  Proofs/Workers — helper lemmas for C07 (worker product model).
-/
import InvProxy.Model.Workers
namespace InvProxy.Workers
open InvProxy

theorem astep_same (a : Agent) (j : Nat) (f : Option Fault) (pc : Pc) (hj : a[j]? = some pc) :
    (astep a j f)[j]? = some (wstep pc f) := by
  have hlt : j < a.length := by
    rcases Nat.lt_or_ge j a.length with h | h
    · exact h
    · rw [List.getElem?_eq_none h] at hj; cases hj
  unfold astep
  rw [hj]
  simp [hlt]

theorem astep_other (a : Agent) (i j : Nat) (f : Option Fault) (hij : i ≠ j) :
    (astep a i f)[j]? = a[j]? := by
  unfold astep
  split
  · simp [hij]
  · rfl

theorem proj_cons (j i : Nat) (f : Option Fault) (t : List (Nat × Option Fault)) :
    proj j ((i, f) :: t) = if i = j then f :: proj j t else proj j t := by
  by_cases h : i = j <;> simp [proj, h]

theorem arun_proj (a : Agent) (sched : List (Nat × Option Fault)) (j : Nat) (pc : Pc) (hj : a[j]? = some pc) :
    (arun a sched)[j]? = some (wrun pc (proj j sched)) := by
  induction sched generalizing a pc with
  | nil => simpa [arun, proj, wrun] using hj
  | cons p t ih =>
    obtain ⟨i, f⟩ := p
    rw [proj_cons]
    simp only [arun]
    by_cases h : i = j
    · subst h
      simp only [if_true, wrun]
      exact ih _ _ (astep_same a i f pc hj)
    · simp only [if_neg h]
      exact ih _ _ (by rw [astep_other a i j f h]; exact hj)

def rank : Pc → Nat
  | .fetching => 5
  | .connecting => 4
  | .readingHead => 3
  | .streaming => 2
  | .uploading _ => 1
  | .finished _ => 0

theorem rank_wstep (pc : Pc) (f : Option Fault) : rank (wstep pc f) ≤ rank pc - 1 := by
  cases pc <;> rcases f with _ | f <;> first | (simp [wstep, rank]; done) | (cases f <;> simp [wstep, rank])

theorem rank_wrun (pc : Pc) (fs : List (Option Fault)) : rank (wrun pc fs) ≤ rank pc - fs.length := by
  induction fs generalizing pc with
  | nil => simp [wrun]
  | cons f t ih =>
    have h1 := ih (wstep pc f)
    have h2 := rank_wstep pc f
    simp only [wrun, List.length_cons]
    omega

theorem rank_zero (pc : Pc) (h : rank pc = 0) : ∃ o, pc = .finished o := by
  cases pc <;> simp [rank] at h
  exact ⟨_, rfl⟩

end InvProxy.Workers
