/-
  Proofs/Stream — helper lemmas for C05 (rendezvous streaming model).
-/
import InvProxy.Model.Stream
namespace InvProxy.Stream
open InvProxy

theorem step_stream (s s' : St) (a : Act) (h : step .rendezvous s a = some s') :
    stream s' = stream s := by
  obtain ⟨todo, s1, acc, s2, s3, up⟩ := s
  cases a
  · -- feed
    cases todo with
    | nil => simp [step] at h
    | cons c t =>
      cases s1 with
      | some x => simp [step] at h
      | none =>
        simp only [step, Option.some.injEq] at h
        subst h
        simp [stream, optBytes]
  · -- ser
    cases s1 with
    | none => simp [step] at h
    | some c =>
      simp only [step] at h
      split at h
      · rename_i hg
        have hacc : acc = [] := by
          rcases hg with hg | hg
          · exact hg
          · exact absurd rfl hg
        subst hacc
        simp only [Option.some.injEq] at h
        subst h
        simp [stream, optBytes]
      · simp at h
  · -- put
    simp only [step] at h
    split at h
    · rename_i hg
      obtain ⟨_, h2, _⟩ := hg
      subst h2
      simp only [Option.some.injEq] at h
      subst h
      simp [stream, optBytes]
    · simp at h
  · -- rd
    cases s2 with
    | none => simp [step] at h
    | some c =>
      cases s3 with
      | some x => simp [step] at h
      | none =>
        simp only [step, Option.some.injEq] at h
        subst h
        simp [stream, optBytes]
  · -- send
    cases s3 with
    | none => simp [step] at h
    | some c =>
      simp only [step, Option.some.injEq] at h
      subst h
      simp [stream, optBytes]

theorem run_stream (s s' : St) (acts : List Act) (h : run .rendezvous s acts = some s') :
    stream s' = stream s := by
  induction acts generalizing s with
  | nil =>
    simp only [run, Option.some.injEq] at h
    subst h; rfl
  | cons a as ih =>
    simp only [run] at h
    split at h
    · simp at h
    · rename_i s1 hs
      rw [ih s1 h, step_stream s s1 a hs]

theorem stream_start (chunks : List Bytes) : stream (start chunks) = chunks.flatten := by
  simp [stream, start, optBytes]

theorem step_mu (s s' : St) (a : Act) (ha : a ≠ .feed) (h : step .rendezvous s a = some s') :
    mu s' < mu s := by
  obtain ⟨todo, s1, acc, s2, s3, up⟩ := s
  cases a
  · exact absurd rfl ha
  · -- ser
    cases s1 with
    | none => simp [step] at h
    | some c =>
      simp only [step] at h
      split at h
      · rename_i hg
        have hacc : acc = [] := by
          rcases hg with hg | hg
          · exact hg
          · exact absurd rfl hg
        subst hacc
        simp only [Option.some.injEq] at h
        subst h
        simp only [mu]
        by_cases hc : c = [] <;> simp [hc] <;> omega
      · simp at h
  · -- put
    simp only [step] at h
    split at h
    · rename_i hg
      obtain ⟨h1, h2, _⟩ := hg
      subst h2
      simp only [Option.some.injEq] at h
      subst h
      simp [mu, h1]
    · simp at h
  · -- rd
    cases s2 with
    | none => simp [step] at h
    | some c =>
      cases s3 with
      | some x => simp [step] at h
      | none =>
        simp only [step, Option.some.injEq] at h
        subst h
        simp [mu]
  · -- send
    cases s3 with
    | none => simp [step] at h
    | some c =>
      simp only [step, Option.some.injEq] at h
      subst h
      simp [mu]

theorem enabled_of_not_caughtUp (s : St) (hc : caughtUp s = false) :
    internalEnabled .rendezvous s = true := by
  obtain ⟨todo, s1, acc, s2, s3, up⟩ := s
  cases s3 with
  | some c3 => simp [internalEnabled, step]
  | none =>
    cases s2 with
    | some c2 => simp [internalEnabled, step]
    | none =>
      by_cases hacc : acc = []
      · subst hacc
        cases s1 with
        | some c1 => simp [internalEnabled, step]
        | none => simp [caughtUp] at hc
      · simp [internalEnabled, step, hacc, Variant.ready]

theorem lockstep (s : St) (c : Bytes) (t : List Bytes) (ht : s.todo = c :: t) (hc : caughtUp s = true) :
    ∃ s', step .rendezvous s .feed = some s' := by
  obtain ⟨todo, s1, acc, s2, s3, up⟩ := s
  simp only at ht
  subst ht
  cases s1 with
  | some x => simp [caughtUp] at hc
  | none => exact ⟨_, rfl⟩

theorem stream_of_caughtUp (s : St) (hc : caughtUp s = true) :
    stream s = s.uploaded.flatten ++ s.todo.flatten := by
  obtain ⟨todo, s1, acc, s2, s3, up⟩ := s
  simp only [caughtUp, Bool.and_eq_true, Option.isNone_iff_eq_none, decide_eq_true_eq] at hc
  obtain ⟨⟨⟨h1, h2⟩, h3⟩, h4⟩ := hc
  subst h1 h2 h3 h4
  simp [stream, optBytes]

end InvProxy.Stream
