/-
  Proofs/ReqPath (C02): helper lemmas for Props/C02 about `server_filterRequestHeader`.
-/
import InvProxy.Model.ReqPath
import InvProxy.Proofs.ConnOpt
namespace InvProxy.ReqPathP
open InvProxy InvProxy.Gen

/-- one iteration of the `filterRequestHeader` loop -/
def filtStep (acc : Hdr) (p : Bytes × List Bytes) : Hdr :=
  if server_isHopByHopHeader p.1 = true then Hdr.Del acc p.1 else acc

theorem filt_loop (h : Hdr) (acc : Hdr) :
    (forIn (m := Id) h acc (fun x __s =>
        if server_isHopByHopHeader x.fst = true then pure (ForInStep.yield (Hdr.Del __s x.fst))
        else pure (ForInStep.yield __s))) = pure (h.foldl filtStep acc) := by
  induction h generalizing acc with
  | nil => rfl
  | cons p t ih =>
    simp only [List.forIn_cons, List.foldl_cons]
    by_cases hc : server_isHopByHopHeader p.1 = true
    · simp only [filtStep, hc, if_true]
      exact ih _
    · rw [show filtStep acc p = acc from if_neg hc, if_neg hc]
      exact ih _

theorem filter_eq_foldl (h : Hdr) :
    server_filterRequestHeader h = (Hdr.dropConnNamed h).foldl filtStep (Hdr.dropConnNamed h) := by
  simp only [server_filterRequestHeader, Id.run]
  rw [filt_loop]
  rfl

theorem values_del_nil (h : Hdr) (k k' : Bytes) (hv : Hdr.values h k = []) :
    Hdr.values (Hdr.del h k') k = [] := by
  by_cases e : k = k'
  · subst e; exact Hdr.values_del_self _ _
  · rw [Hdr.values_del_ne _ _ _ e]; exact hv

theorem values_nil_of_not_key (h : Hdr) (k : Bytes) (hk : k ∉ h.map (·.1)) : Hdr.values h k = [] := by
  induction h with
  | nil => rfl
  | cons p t ih =>
    obtain ⟨k', vs⟩ := p
    simp only [List.map_cons, List.mem_cons, not_or] at hk
    have h1 : ¬ k' = k := fun e => hk.1 e.symm
    simp only [Hdr.values, h1, if_false]
    exact ih hk.2

theorem foldl_values_nil (l : Hdr) (acc : Hdr) (k : Bytes) (hv : Hdr.values acc k = []) :
    Hdr.values (l.foldl filtStep acc) k = [] := by
  induction l generalizing acc with
  | nil => exact hv
  | cons p t ih =>
    simp only [List.foldl_cons]
    apply ih
    unfold filtStep
    split
    · exact values_del_nil _ _ _ hv
    · exact hv

theorem foldl_values_keep (l : Hdr) (acc : Hdr) (k : Bytes)
    (hc : ∀ p ∈ l, Go.canon p.1 = p.1) (hk : server_isHopByHopHeader k = false) :
    Hdr.values (l.foldl filtStep acc) k = Hdr.values acc k := by
  induction l generalizing acc with
  | nil => rfl
  | cons p t ih =>
    simp only [List.foldl_cons]
    rw [ih _ (fun q hq => hc q (List.mem_cons_of_mem _ hq))]
    unfold filtStep
    split
    · next hp =>
      have hne : k ≠ p.1 := by
        intro e; subst e; rw [hk] at hp; exact Bool.noConfusion hp
      unfold Hdr.Del
      rw [hc p List.mem_cons_self]
      exact Hdr.values_del_ne _ _ _ hne
    · rfl

theorem foldl_removes (l : Hdr) (acc : Hdr) (k : Bytes)
    (hc : ∀ p ∈ l, Go.canon p.1 = p.1) (hk : server_isHopByHopHeader k = true)
    (hmem : k ∈ l.map (·.1)) :
    Hdr.values (l.foldl filtStep acc) k = [] := by
  induction l generalizing acc with
  | nil => simp at hmem
  | cons p t ih =>
    simp only [List.foldl_cons]
    simp only [List.map_cons, List.mem_cons] at hmem
    by_cases e : k = p.1
    · apply foldl_values_nil
      unfold filtStep
      rw [← e, if_pos hk]
      unfold Hdr.Del
      rw [e, hc p List.mem_cons_self]
      exact Hdr.values_del_self _ _
    · rcases hmem with h1 | h1
      · exact absurd h1 e
      · exact ih _ (fun q hq => hc q (List.mem_cons_of_mem _ hq)) h1

theorem del_sublist (h : Hdr) (k : Bytes) : (Hdr.del h k).Sublist h := by
  induction h with
  | nil => exact List.Sublist.slnil
  | cons p t ih =>
    obtain ⟨k', vs⟩ := p
    by_cases hp : k' = k
    · simp only [Hdr.del, hp, if_true]
      exact List.Sublist.cons _ ih
    · simp only [Hdr.del, hp, if_false]
      exact List.Sublist.cons_cons _ ih

theorem del_wf (h : Hdr) (k : Bytes) (hwf : RespPath.WF h) : RespPath.WF (Hdr.del h k) := by
  have hs := del_sublist h k
  refine ⟨(hs.map (·.1)).nodup hwf.1, fun p hp => hwf.2 p (hs.subset hp)⟩

theorem foldl_wf (l : Hdr) (acc : Hdr) (hwf : RespPath.WF acc) : RespPath.WF (l.foldl filtStep acc) := by
  induction l generalizing acc with
  | nil => exact hwf
  | cons p t ih =>
    simp only [List.foldl_cons]
    apply ih
    unfold filtStep
    split
    · exact del_wf _ _ hwf
    · exact hwf

theorem foldl_del_wf (ks : List Bytes) (h : Hdr) (hwf : RespPath.WF h) : RespPath.WF (ks.foldl Hdr.del h) := by
  induction ks generalizing h with
  | nil => exact hwf
  | cons a t ih =>
    simp only [List.foldl_cons]
    exact ih _ (del_wf _ _ hwf)

theorem dropConnNamed_wf (h : Hdr) (hwf : RespPath.WF h) : RespPath.WF (Hdr.dropConnNamed h) :=
  foldl_del_wf _ _ hwf

/-! ### the whole filter: `dropConnNamed`, then the loop over the remaining keys -/

theorem filter_values_hop (h : Hdr) (hwf : RespPath.WF h) (k : Bytes) (hk : server_isHopByHopHeader k = true) :
    Hdr.values (server_filterRequestHeader h) k = [] := by
  rw [filter_eq_foldl]
  have hg := dropConnNamed_wf h hwf
  by_cases hm : k ∈ (Hdr.dropConnNamed h).map (·.1)
  · exact foldl_removes _ _ k hg.2 hk hm
  · exact foldl_values_nil _ _ k (values_nil_of_not_key _ k hm)

theorem filter_values_nominated (h : Hdr) (k : Bytes) (hk : k ∈ Hdr.connDrops h) :
    Hdr.values (server_filterRequestHeader h) k = [] := by
  rw [filter_eq_foldl]
  exact foldl_values_nil _ _ k (ConnOpt.values_dropConnNamed_mem h k hk)

theorem filter_values_keep (h : Hdr) (hwf : RespPath.WF h) (k : Bytes) (hk : server_isHopByHopHeader k = false)
    (hn : k ∉ Hdr.connDrops h) :
    Hdr.values (server_filterRequestHeader h) k = Hdr.values h k := by
  rw [filter_eq_foldl, foldl_values_keep _ _ k (dropConnNamed_wf h hwf).2 hk]
  exact ConnOpt.values_dropConnNamed_ne h k hn

/-- the filter never adds a field -/
theorem filter_values_nil (h : Hdr) (k : Bytes) (hv : Hdr.values h k = []) :
    Hdr.values (server_filterRequestHeader h) k = [] := by
  rw [filter_eq_foldl]
  exact foldl_values_nil _ _ k (ConnOpt.values_dropConnNamed_nil h k hv)

theorem filter_wf (h : Hdr) (hwf : RespPath.WF h) : RespPath.WF (server_filterRequestHeader h) := by
  rw [filter_eq_foldl]
  exact foldl_wf _ _ (dropConnNamed_wf h hwf)

/-- `Connection` is hop-by-hop for the proxy's filter -/
theorem conn_is_hop : server_isHopByHopHeader Hdr.connKey = true := by decide

/-- a header without `Connection` values names no further hop-by-hop field -/
theorem not_mem_connDrops (h : Hdr) (e : Hdr.values h Hdr.connKey = []) (k : Bytes) :
    k ∉ Hdr.connDrops h := by
  rw [ConnOpt.connDrops_nil h e]; exact List.not_mem_nil

end InvProxy.ReqPathP
