/-
  Proofs/RespPath (C03): helper lemmas for Props/C03 — fold characterisations of the
  generated header loops, per-key value lemmas, and the run of the streaming writer.
-/
import InvProxy.Model.RespPath
namespace InvProxy.RespPath
open InvProxy InvProxy.Gen

/-! ### the generated loops as folds -/

/-- `for v in vs { h.Add(k, v) }` -/
def addAll (acc : Hdr) (k : Bytes) (vs : List Bytes) : Hdr := vs.foldl (fun a v => Hdr.Add a k v) acc

theorem addAll_loop (k : Bytes) (vs : List Bytes) (acc : Hdr) :
    (forIn (m := Id) vs acc (fun v __s => pure (ForInStep.yield (__s.Add k v)))) = pure (addAll acc k vs) := by
  induction vs generalizing acc with
  | nil => rfl
  | cons v vs ih =>
    simp only [List.forIn_cons, pure_bind, addAll, List.foldl_cons]
    exact ih _

def filterStep (acc : Hdr) (p : Bytes × List Bytes) : Hdr :=
  if utils_hopHeaders.contains p.1 = true then acc else addAll acc p.1 p.2

theorem filter_loop (h : Hdr) (acc : Hdr) :
    (forIn (m := Id) h acc (fun x __s =>
        if utils_hopHeaders.contains x.fst = true then pure (ForInStep.yield __s)
        else do
          let __s ← forIn x.snd __s fun v __s => pure (ForInStep.yield (__s.Add x.fst v))
          pure (ForInStep.yield __s))) = pure (h.foldl filterStep acc) := by
  induction h generalizing acc with
  | nil => rfl
  | cons p t ih =>
    simp only [List.forIn_cons, List.foldl_cons]
    by_cases hc : utils_hopHeaders.contains p.1 = true
    · rw [show filterStep acc p = acc from if_pos hc, if_pos hc]
      simp only [pure_bind]
      exact ih _
    · rw [show filterStep acc p = addAll acc p.1 p.2 from if_neg hc, if_neg hc, addAll_loop]
      simp only [pure_bind]
      exact ih _

theorem filter_eq_foldl (h : Hdr) : utils_srwFilterHeader h = h.foldl filterStep [] := by
  simp only [utils_srwFilterHeader, Id.run]
  rw [filter_loop]
  rfl

/-- one iteration of the inner loop of `utils_srwDeclareTrailers` -/
def declStep (acc : Hdr) (x : Bytes) : Hdr :=
  if (utils_hopHeaders.contains (Go.canon (Go.trimSpace x)) || Go.canon (Go.trimSpace x) == []) = true then acc
  else Hdr.put acc (Go.canon (Go.trimSpace x)) []

theorem decl_inner (xs : List Bytes) (acc : Hdr) :
    (forIn (m := Id) xs acc (fun k __s =>
        if (utils_hopHeaders.contains (Go.canon (Go.trimSpace k)) || Go.canon (Go.trimSpace k) == []) = true then
          pure (ForInStep.yield __s)
        else pure (ForInStep.yield (__s.put (Go.canon (Go.trimSpace k)) [])))) = pure (xs.foldl declStep acc) := by
  induction xs generalizing acc with
  | nil => rfl
  | cons x xs ih =>
    simp only [List.forIn_cons, List.foldl_cons]
    by_cases hc : (utils_hopHeaders.contains (Go.canon (Go.trimSpace x)) || Go.canon (Go.trimSpace x) == []) = true
    · rw [show declStep acc x = acc from if_pos hc, if_pos hc]
      simp only [pure_bind]
      exact ih _
    · rw [show declStep acc x = Hdr.put acc (Go.canon (Go.trimSpace x)) [] from if_neg hc, if_neg hc]
      simp only [pure_bind]
      exact ih _

theorem decl_outer (vs : List Bytes) (acc : Hdr) :
    (forIn (m := Id) vs acc (fun v __s => do
        let __s ← forIn (Go.split v [44]) __s fun k __s =>
          if (utils_hopHeaders.contains (Go.canon (Go.trimSpace k)) || Go.canon (Go.trimSpace k) == []) = true then
            pure (ForInStep.yield __s)
          else pure (ForInStep.yield (__s.put (Go.canon (Go.trimSpace k)) []))
        pure (ForInStep.yield __s))) = pure ((vs.flatMap (fun v => Go.split v [44])).foldl declStep acc) := by
  induction vs generalizing acc with
  | nil => rfl
  | cons v vs ih =>
    simp only [List.forIn_cons, List.flatMap_cons, List.foldl_append]
    rw [decl_inner]
    simp only [pure_bind]
    exact ih _

/-- the candidate trailer names announced in the `Trailer` field values -/
def declNames (h : Hdr) : List Bytes :=
  (Hdr.Values h [84,114,97,105,108,101,114]).flatMap (fun v => Go.split v [44])

theorem decl_eq_foldl (h : Hdr) : utils_srwDeclareTrailers h = (declNames h).foldl declStep [] := by
  simp only [utils_srwDeclareTrailers, Id.run]
  rw [decl_outer]
  rfl

def coll1Step (w : Hdr) (acc : Hdr) (p : Bytes × List Bytes) : Hdr := addAll acc p.1 (Hdr.Values w p.1)

def coll2Step (acc : Hdr) (p : Bytes × List Bytes) : Hdr :=
  if (!(Go.cutPrefix2 p.1 trailerPrefix).2) = true then acc
  else if utils_hopHeaders.contains (Go.cutPrefix2 p.1 trailerPrefix).1 = true then acc
  else addAll acc (Go.cutPrefix2 p.1 trailerPrefix).1 p.2

theorem coll1_loop (w : Hdr) (t : Hdr) (acc : Hdr) :
    (forIn (m := Id) t acc (fun x __s => do
        let __s ← forIn (w.Values x.fst) __s fun v __s => pure (ForInStep.yield (__s.Add x.fst v))
        pure (ForInStep.yield __s))) = pure (t.foldl (coll1Step w) acc) := by
  induction t generalizing acc with
  | nil => rfl
  | cons p t ih =>
    simp only [List.forIn_cons, List.foldl_cons]
    rw [addAll_loop]
    simp only [pure_bind]
    exact ih _

theorem coll2_loop (h : Hdr) (acc : Hdr) :
    (forIn (m := Id) h acc (fun x __s =>
        if (!(Go.cutPrefix2 x.fst [84, 114, 97, 105, 108, 101, 114, 58]).snd) = true then pure (ForInStep.yield __s)
        else
          if utils_hopHeaders.contains (Go.cutPrefix2 x.fst [84, 114, 97, 105, 108, 101, 114, 58]).fst = true then
            pure (ForInStep.yield __s)
          else do
            let __s ←
              forIn x.snd __s fun v __s =>
                  pure (ForInStep.yield (__s.Add (Go.cutPrefix2 x.fst [84, 114, 97, 105, 108, 101, 114, 58]).fst v))
            pure (ForInStep.yield __s))) = pure (h.foldl coll2Step acc) := by
  induction h generalizing acc with
  | nil => rfl
  | cons p t ih =>
    simp only [List.forIn_cons, List.foldl_cons]
    by_cases h1 : (!(Go.cutPrefix2 p.1 trailerPrefix).2) = true
    · rw [show coll2Step acc p = acc from if_pos h1]
      rw [if_pos (by exact h1)]
      simp only [pure_bind]
      exact ih _
    · by_cases h2 : utils_hopHeaders.contains (Go.cutPrefix2 p.1 trailerPrefix).1 = true
      · rw [show coll2Step acc p = acc by unfold coll2Step; rw [if_neg h1, if_pos h2]]
        rw [if_neg (by exact h1), if_pos (by exact h2)]
        simp only [pure_bind]
        exact ih _
      · rw [show coll2Step acc p = addAll acc (Go.cutPrefix2 p.1 trailerPrefix).1 p.2 by
              unfold coll2Step; rw [if_neg h1, if_neg h2]]
        rw [if_neg (by exact h1), if_neg (by exact h2), addAll_loop]
        simp only [pure_bind]
        exact ih _

theorem collect_eq_foldl (w t : Hdr) :
    utils_srwCollectTrailers w t = w.foldl coll2Step (t.foldl (coll1Step w) t) := by
  simp only [utils_srwCollectTrailers, Id.run]
  rw [coll1_loop]
  simp only [pure_bind]
  rw [coll2_loop]
  rfl

def copyHStep (acc : Hdr) (p : Bytes × List Bytes) : Hdr :=
  if server_isHopByHopHeader p.1 = true then acc else Hdr.put acc p.1 p.2

theorem copyH_loop (h : Hdr) (acc : Hdr) :
    (forIn (m := Id) h acc (fun x __s =>
        if server_isHopByHopHeader x.fst = true then pure (ForInStep.yield __s)
        else pure (ForInStep.yield (__s.put x.fst x.snd)))) = pure (h.foldl copyHStep acc) := by
  induction h generalizing acc with
  | nil => rfl
  | cons p t ih =>
    simp only [List.forIn_cons, List.foldl_cons]
    by_cases hc : server_isHopByHopHeader p.1 = true
    · rw [show copyHStep acc p = acc from if_pos hc, if_pos hc]
      simp only [pure_bind]
      exact ih _
    · rw [show copyHStep acc p = Hdr.put acc p.1 p.2 from if_neg hc, if_neg hc]
      simp only [pure_bind]
      exact ih _

theorem copyH_eq_foldl (h wh : Hdr) :
    server_copyResponseHeader h wh =
      Hdr.Add (h.foldl copyHStep wh) [116,114,97,110,115,102,101,114,45,101,110,99,111,100,105,110,103] [99,104,117,110,107,101,100] := by
  simp only [server_copyResponseHeader, Id.run]
  rw [copyH_loop]
  rfl

def copyTStep (acc : Hdr) (p : Bytes × List Bytes) : Hdr :=
  if server_isHopByHopHeader p.1 = true then acc else addAll acc (trailerPrefix ++ p.1) p.2

theorem copyT_loop (h : Hdr) (acc : Hdr) :
    (forIn (m := Id) h acc (fun x __s =>
        if server_isHopByHopHeader x.fst = true then pure (ForInStep.yield __s)
        else do
          let __s ←
            forIn x.snd __s fun v __s =>
                pure (ForInStep.yield (__s.Add ([84, 114, 97, 105, 108, 101, 114, 58] ++ x.fst) v))
          pure (ForInStep.yield __s))) = pure (h.foldl copyTStep acc) := by
  induction h generalizing acc with
  | nil => rfl
  | cons p t ih =>
    simp only [List.forIn_cons, List.foldl_cons]
    by_cases hc : server_isHopByHopHeader p.1 = true
    · rw [show copyTStep acc p = acc from if_pos hc, if_pos hc]
      simp only [pure_bind]
      exact ih _
    · rw [show copyTStep acc p = addAll acc (trailerPrefix ++ p.1) p.2 from if_neg hc, if_neg hc]
      rw [show ([84, 114, 97, 105, 108, 101, 114, 58] ++ p.1 : Bytes) = trailerPrefix ++ p.1 from rfl, addAll_loop]
      simp only [pure_bind]
      exact ih _

theorem copyT_eq_foldl (h wh : Hdr) : server_copyResponseTrailer h wh = h.foldl copyTStep wh := by
  simp only [server_copyResponseTrailer, Id.run]
  rw [copyT_loop]
  rfl


/-! ### canonicalisation facts -/

theorem u8_all (P : UInt8 → Prop) (h : ∀ n, n < 256 → P (UInt8.ofNat n)) : ∀ c, P c := by
  intro c
  have := h c.toNat (UInt8.toNat_lt c)
  simpa using this

set_option maxRecDepth 20000 in
theorem tok_facts : ∀ c : UInt8,
    (Go.isTokenByte c = true → Go.isTokenByte (Go.upperB c) = true ∧ Go.isTokenByte (Go.lowerB c) = true)
    ∧ Go.upperB (Go.upperB c) = Go.upperB c ∧ Go.lowerB (Go.lowerB c) = Go.lowerB c := by
  apply u8_all
  decide

theorem canonGo_tok (u : Bool) (s : Bytes) (h : s.all Go.isTokenByte = true) :
    (Go.canonGo u s).all Go.isTokenByte = true := by
  induction s generalizing u with
  | nil => rfl
  | cons c cs ih =>
    simp only [List.all_cons, Bool.and_eq_true] at h
    simp only [Go.canonGo, List.all_cons, Bool.and_eq_true]
    refine ⟨?_, ih _ h.2⟩
    cases u
    · exact ((tok_facts c).1 h.1).2
    · exact ((tok_facts c).1 h.1).1

theorem canonGo_idem (u : Bool) (s : Bytes) : Go.canonGo u (Go.canonGo u s) = Go.canonGo u s := by
  induction s generalizing u with
  | nil => rfl
  | cons c cs ih =>
    cases u
    · simp only [Go.canonGo, Bool.false_eq_true, if_false, (tok_facts c).2.2, ih]
    · simp only [Go.canonGo, if_true, (tok_facts c).2.1, ih]

theorem canon_idem (s : Bytes) : Go.canon (Go.canon s) = Go.canon s := by
  unfold Go.canon
  by_cases h : s.all Go.isTokenByte = true
  · rw [if_pos h, if_pos (canonGo_tok true s h), canonGo_idem]
  · rw [if_neg h, if_neg h]

theorem canon_prefixed (x : Bytes) : Go.canon (trailerPrefix ++ x) = trailerPrefix ++ x := by
  unfold Go.canon
  have : (trailerPrefix ++ x).all Go.isTokenByte = false := by
    rw [List.all_append, show trailerPrefix.all Go.isTokenByte = false by decide]; rfl
  rw [this]; rfl

theorem hop_canonical : ∀ k ∈ utils_hopHeaders, Go.canon k = k := by decide

theorem hop_contains (k : Bytes) : utils_hopHeaders.contains k = true ↔ k ∈ utils_hopHeaders :=
  List.contains_iff_mem

/-! ### per-key values of the folds -/

theorem values_addAll (acc : Hdr) (k : Bytes) (vs : List Bytes) (k' : Bytes) :
    Hdr.values (addAll acc k vs) k' = if Go.canon k = k' then Hdr.values acc k' ++ vs else Hdr.values acc k' := by
  induction vs generalizing acc with
  | nil => simp [addAll]
  | cons v vs ih =>
    have := ih (Hdr.Add acc k v)
    simp only [addAll, List.foldl_cons] at this ⊢
    rw [this]
    by_cases hk : Go.canon k = k'
    · subst hk
      simp [Hdr.Add]
    · simp only [hk, if_false, Hdr.Add]
      exact Hdr.values_add_ne _ _ _ _ (fun e => hk e.symm)

theorem addAll_nil (acc : Hdr) (k : Bytes) : addAll acc k [] = acc := rfl

theorem values_foldl_addAll {α : Type} (g : α → Bytes) (f : α → List Bytes) (l : List α) (acc : Hdr) (k : Bytes) :
    Hdr.values (l.foldl (fun a p => addAll a (g p) (f p)) acc) k =
      Hdr.values acc k ++ (l.filter (fun p => decide (Go.canon (g p) = k))).flatMap f := by
  induction l generalizing acc with
  | nil => simp
  | cons p l ih =>
    simp only [List.foldl_cons]
    rw [ih, values_addAll]
    by_cases hk : Go.canon (g p) = k
    · simp [hk]
    · simp [hk]

theorem filter_key_nodup (h : Hdr) (k : Bytes) (hn : (h.map (·.1)).Nodup) :
    (h.filter (fun p => decide (p.1 = k)) = [] ∧ Hdr.values h k = [] ∧ k ∉ h.map (·.1)) ∨
    (h.filter (fun p => decide (p.1 = k)) = [(k, Hdr.values h k)] ∧ k ∈ h.map (·.1)) := by
  induction h with
  | nil => left; simp
  | cons p t ih =>
    obtain ⟨k1, vs⟩ := p
    simp only [List.map_cons, List.nodup_cons] at hn
    by_cases hk : k1 = k
    · subst hk
      right
      rcases ih hn.2 with ⟨h1, _, h3⟩ | ⟨_, h2⟩
      · simp [h1, Hdr.values]
      · exact absurd h2 hn.1
    · rcases ih hn.2 with ⟨h1, h2, h3⟩ | ⟨h1, h2⟩
      · left
        refine ⟨?_, ?_, ?_⟩
        · simp [hk, h1]
        · simp [Hdr.values, hk, h2]
        · simp only [List.map_cons, List.mem_cons, not_or]
          exact ⟨fun e => hk e.symm, h3⟩
      · right
        refine ⟨?_, ?_⟩
        · simp [hk, h1, Hdr.values]
        · exact List.mem_cons_of_mem _ h2


theorem flatMap_snd_filter_key (h : Hdr) (k : Bytes) (hn : (h.map (·.1)).Nodup) :
    (h.filter (fun p => decide (p.1 = k))).flatMap (·.2) = Hdr.values h k := by
  rcases filter_key_nodup h k hn with ⟨h1, h2, _⟩ | ⟨h1, _⟩
  · rw [h1, h2]; rfl
  · rw [h1]; simp

theorem values_of_not_mem (h : Hdr) (k : Bytes) (hk : k ∉ h.map (·.1)) : Hdr.values h k = [] := by
  induction h with
  | nil => rfl
  | cons p t ih =>
    obtain ⟨k1, vs⟩ := p
    simp only [List.map_cons, List.mem_cons, not_or] at hk
    have : ¬ k1 = k := fun e => hk.1 e.symm
    simp only [Hdr.values, this, if_false]
    exact ih hk.2

theorem values_of_empty (h : Hdr) (k : Bytes) (he : ∀ p ∈ h, p.2 = []) : Hdr.values h k = [] := by
  induction h with
  | nil => rfl
  | cons p t ih =>
    obtain ⟨k1, vs⟩ := p
    by_cases hk : k1 = k
    · simp only [Hdr.values, hk, if_true]
      exact he (k1, vs) List.mem_cons_self
    · simp only [Hdr.values, hk, if_false]
      exact ih (fun p hp => he p (List.mem_cons_of_mem _ hp))

theorem flatMap_filter_congr {α β : Type} (l : List α) (c1 c2 : α → Bool) (F G : α → List β)
    (h : ∀ p ∈ l, (if c1 p = true then F p else []) = (if c2 p = true then G p else [])) :
    (l.filter c1).flatMap F = (l.filter c2).flatMap G := by
  induction l with
  | nil => rfl
  | cons p l ih =>
    have hp := h p List.mem_cons_self
    have ih' := ih (fun q hq => h q (List.mem_cons_of_mem _ hq))
    cases h1 : c1 p <;> cases h2 : c2 p <;> simp [h1, h2, ih'] at hp ⊢
    all_goals exact hp

theorem del_eq_filter (h : Hdr) (k : Bytes) : Hdr.del h k = h.filter (fun p => !decide (p.1 = k)) := by
  induction h with
  | nil => rfl
  | cons p t ih =>
    obtain ⟨k1, vs⟩ := p
    by_cases hk : k1 = k
    · simp [Hdr.del, hk, ih]
    · simp [Hdr.del, hk, ih]

theorem mem_del {h : Hdr} {k : Bytes} {p : Bytes × List Bytes} : p ∈ Hdr.del h k ↔ p ∈ h ∧ p.1 ≠ k := by
  rw [del_eq_filter]; simp

theorem mem_keys_del {h : Hdr} {k k' : Bytes} : k' ∈ (Hdr.del h k).map (·.1) ↔ k' ∈ h.map (·.1) ∧ k' ≠ k := by
  simp only [List.mem_map, mem_del]
  constructor
  · rintro ⟨p, ⟨hp, hne⟩, rfl⟩; exact ⟨⟨p, hp, rfl⟩, hne⟩
  · rintro ⟨⟨p, hp, rfl⟩, hne⟩; exact ⟨p, ⟨hp, hne⟩, rfl⟩

theorem nodup_keys_del (h : Hdr) (k : Bytes) (hn : (h.map (·.1)).Nodup) : ((Hdr.del h k).map (·.1)).Nodup := by
  rw [del_eq_filter]
  exact List.Nodup.sublist (List.Sublist.map _ List.filter_sublist) hn

theorem nodup_keys_put (h : Hdr) (k : Bytes) (vs : List Bytes) (hn : (h.map (·.1)).Nodup) :
    ((Hdr.put h k vs).map (·.1)).Nodup := by
  simp only [Hdr.put, List.map_cons, List.nodup_cons]
  exact ⟨fun hm => (mem_keys_del.mp hm).2 rfl, nodup_keys_del h k hn⟩

/-! ### `utils_srwFilterHeader` -/

theorem filterStep_eq : filterStep = fun a p => addAll a p.1 (if utils_hopHeaders.contains p.1 = true then [] else p.2) := by
  funext a p
  unfold filterStep
  split <;> rfl

theorem values_filter (h : Hdr) (k : Bytes) :
    Hdr.values (utils_srwFilterHeader h) k =
      (h.filter (fun p => decide (Go.canon p.1 = k))).flatMap (fun p => if utils_hopHeaders.contains p.1 = true then [] else p.2) := by
  rw [filter_eq_foldl, filterStep_eq]
  refine (values_foldl_addAll (fun p => p.1)
    (fun p => if utils_hopHeaders.contains p.1 = true then [] else p.2) h [] k).trans ?_
  simp

/-- hop-by-hop fields are dropped (for canonical keys) -/
theorem filter_hop (h : Hdr) (k : Bytes) (hc : ∀ p ∈ h, Go.canon p.1 = p.1) (hk : k ∈ utils_hopHeaders) :
    Hdr.values (utils_srwFilterHeader h) k = [] := by
  rw [values_filter, List.flatMap_eq_nil_iff]
  intro p hp
  rw [List.mem_filter] at hp
  have h1 : Go.canon p.1 = k := of_decide_eq_true hp.2
  rw [hc p hp.1] at h1
  rw [if_pos ((hop_contains _).mpr (h1 ▸ hk))]

theorem filter_preserved (h : Hdr) (k : Bytes) (hwf : WF h) (hk : k ∉ utils_hopHeaders) :
    Hdr.values (utils_srwFilterHeader h) k = Hdr.values h k := by
  rw [values_filter, ← flatMap_snd_filter_key h k hwf.1]
  apply flatMap_filter_congr
  intro p hp
  rw [hwf.2 p hp]
  by_cases h1 : p.1 = k
  · have : ¬ utils_hopHeaders.contains p.1 = true := fun hc => hk (h1 ▸ (hop_contains _).mp hc)
    simp [h1]
    exact fun hc => absurd hc hk
  · simp [h1]


/-! ### `utils_srwCollectTrailers` -/

/-- what the second loop of `Close` contributes for one header entry -/
def undeclVals (p : Bytes × List Bytes) : List Bytes :=
  if (!(Go.cutPrefix2 p.1 trailerPrefix).2) = true then []
  else if utils_hopHeaders.contains (Go.cutPrefix2 p.1 trailerPrefix).1 = true then [] else p.2

theorem coll2Step_eq : coll2Step = fun a p => addAll a (Go.cutPrefix2 p.1 trailerPrefix).1 (undeclVals p) := by
  funext a p
  unfold coll2Step undeclVals
  split
  · rfl
  · split <;> rfl

theorem values_collect (w t0 : Hdr) (k : Bytes) :
    Hdr.values (utils_srwCollectTrailers w t0) k =
      Hdr.values t0 k
      ++ (t0.filter (fun p => decide (Go.canon p.1 = k))).flatMap (fun p => Hdr.Values w p.1)
      ++ (w.filter (fun p => decide (Go.canon (Go.cutPrefix2 p.1 trailerPrefix).1 = k))).flatMap undeclVals := by
  rw [collect_eq_foldl, coll2Step_eq]
  refine (values_foldl_addAll (fun p => (Go.cutPrefix2 p.1 trailerPrefix).1) undeclVals w _ k).trans ?_
  congr 1
  exact values_foldl_addAll (fun p => p.1) (fun p => Hdr.Values w p.1) t0 t0 k

/-- `Trailer:`-prefixed keys carry a canonical field name after the prefix -/
def SuffixCanon (h : Hdr) : Prop :=
  ∀ p ∈ h, (Go.cutPrefix2 p.1 trailerPrefix).2 = true →
    Go.canon (Go.cutPrefix2 p.1 trailerPrefix).1 = (Go.cutPrefix2 p.1 trailerPrefix).1

theorem cut_found {k : Bytes} (h : (Go.cutPrefix2 k trailerPrefix).2 = true) :
    k = trailerPrefix ++ (Go.cutPrefix2 k trailerPrefix).1 := by
  unfold Go.cutPrefix2 at h ⊢
  by_cases hp : trailerPrefix.isPrefixOf k = true
  · rw [if_pos hp]
    obtain ⟨r, hr⟩ := List.isPrefixOf_iff_prefix.mp hp
    subst hr
    simp
  · rw [if_neg hp] at h; cases h

theorem cut_prefixed (t : Bytes) : Go.cutPrefix2 (trailerPrefix ++ t) trailerPrefix = (t, true) := by
  unfold Go.cutPrefix2
  have : trailerPrefix.isPrefixOf (trailerPrefix ++ t) = true :=
    List.isPrefixOf_iff_prefix.mpr (List.prefix_append _ _)
  rw [if_pos this]
  simp

/-! ### `utils_srwDeclareTrailers` -/

/-- the entries the declaration loop creates -/
def DeclEntry (p : Bytes × List Bytes) : Prop :=
  (∃ x, p.1 = Go.canon (Go.trimSpace x)) ∧ p.1 ∉ utils_hopHeaders ∧ p.1 ≠ [] ∧ p.2 = []

theorem declStep_entries (acc : Hdr) (x : Bytes) (h : ∀ p ∈ acc, DeclEntry p) : ∀ p ∈ declStep acc x, DeclEntry p := by
  unfold declStep
  split
  · exact h
  · rename_i hc
    intro p hp
    simp only [Hdr.put, List.mem_cons] at hp
    rcases hp with rfl | hp
    · simp only [Bool.or_eq_true, not_or, beq_iff_eq] at hc
      exact ⟨⟨x, rfl⟩, fun hm => hc.1 ((hop_contains _).mpr hm), hc.2, rfl⟩
    · exact h p (mem_del.mp hp).1

theorem declStep_nodup (acc : Hdr) (x : Bytes) (h : (acc.map (·.1)).Nodup) : ((declStep acc x).map (·.1)).Nodup := by
  unfold declStep
  split
  · exact h
  · exact nodup_keys_put _ _ _ h

theorem declStep_mem_mono (acc : Hdr) (x t : Bytes) (h : t ∈ acc.map (·.1)) : t ∈ (declStep acc x).map (·.1) := by
  unfold declStep
  split
  · exact h
  · simp only [Hdr.put, List.map_cons, List.mem_cons]
    by_cases ht : t = Go.canon (Go.trimSpace x)
    · exact Or.inl ht
    · exact Or.inr (mem_keys_del.mpr ⟨h, ht⟩)

theorem declStep_mem_self (acc : Hdr) (x : Bytes) (hh : Go.canon (Go.trimSpace x) ∉ utils_hopHeaders)
    (hne : Go.canon (Go.trimSpace x) ≠ []) : Go.canon (Go.trimSpace x) ∈ (declStep acc x).map (·.1) := by
  unfold declStep
  have : ¬ (utils_hopHeaders.contains (Go.canon (Go.trimSpace x)) || Go.canon (Go.trimSpace x) == []) = true := by
    simp only [Bool.or_eq_true, not_or, beq_iff_eq]
    exact ⟨fun hc => hh ((hop_contains _).mp hc), hne⟩
  rw [if_neg this]
  simp [Hdr.put]

theorem decl_fold_inv (l : List Bytes) (acc : Hdr) (h1 : ∀ p ∈ acc, DeclEntry p) (h2 : (acc.map (·.1)).Nodup) :
    (∀ p ∈ l.foldl declStep acc, DeclEntry p) ∧ ((l.foldl declStep acc).map (·.1)).Nodup := by
  induction l generalizing acc with
  | nil => exact ⟨h1, h2⟩
  | cons x l ih => exact ih _ (declStep_entries acc x h1) (declStep_nodup acc x h2)

theorem decl_fold_mem (l : List Bytes) (acc : Hdr) (t : Bytes) (hh : t ∉ utils_hopHeaders) (hne : t ≠ [])
    (h : t ∈ acc.map (·.1) ∨ t ∈ l.map (fun x => Go.canon (Go.trimSpace x))) :
    t ∈ (l.foldl declStep acc).map (·.1) := by
  induction l generalizing acc with
  | nil =>
    rcases h with h | h
    · exact h
    · cases h
  | cons x l ih =>
    simp only [List.foldl_cons]
    apply ih
    rcases h with h | h
    · exact Or.inl (declStep_mem_mono acc x t h)
    · simp only [List.map_cons, List.mem_cons] at h
      rcases h with h | h
      · subst h; exact Or.inl (declStep_mem_self acc x hh hne)
      · exact Or.inr h

theorem decl_entries (h : Hdr) : ∀ p ∈ utils_srwDeclareTrailers h, DeclEntry p := by
  rw [decl_eq_foldl]
  exact (decl_fold_inv _ [] (fun _ hp => by cases hp) List.nodup_nil).1

theorem decl_nodup (h : Hdr) : ((utils_srwDeclareTrailers h).map (·.1)).Nodup := by
  rw [decl_eq_foldl]
  exact (decl_fold_inv _ [] (fun _ hp => by cases hp) (by simp)).2

theorem decl_canonical (h : Hdr) : ∀ p ∈ utils_srwDeclareTrailers h, Go.canon p.1 = p.1 := by
  intro p hp
  obtain ⟨⟨x, hx⟩, _⟩ := decl_entries h p hp
  rw [hx, canon_idem]

theorem decl_values (h : Hdr) (k : Bytes) : Hdr.values (utils_srwDeclareTrailers h) k = [] :=
  values_of_empty _ _ (fun p hp => (decl_entries h p hp).2.2.2)

theorem decl_mem (h : Hdr) (v t : Bytes) (hv : v ∈ Hdr.Values h [84,114,97,105,108,101,114])
    (ht : t ∈ (Go.split v [44]).map (fun k => Go.canon (Go.trimSpace k)))
    (hne : t ≠ []) (hh : t ∉ utils_hopHeaders) : t ∈ (utils_srwDeclareTrailers h).map (·.1) := by
  rw [decl_eq_foldl]
  apply decl_fold_mem _ _ _ hh hne
  right
  simp only [declNames, List.mem_map, List.mem_flatMap] at ht ⊢
  obtain ⟨x, hx, rfl⟩ := ht
  exact ⟨x, ⟨v, hv, hx⟩, rfl⟩


/-! ### the trailer map `Close` produces -/

theorem undecl_nil_of_hop (w : Hdr) (k : Bytes) (hsc : SuffixCanon w) (hk : k ∈ utils_hopHeaders) :
    (w.filter (fun p => decide (Go.canon (Go.cutPrefix2 p.1 trailerPrefix).1 = k))).flatMap undeclVals = [] := by
  rw [List.flatMap_eq_nil_iff]
  intro p hp
  rw [List.mem_filter] at hp
  have h1 : Go.canon (Go.cutPrefix2 p.1 trailerPrefix).1 = k := of_decide_eq_true hp.2
  unfold undeclVals
  by_cases hf : (Go.cutPrefix2 p.1 trailerPrefix).2 = true
  · rw [hsc p hp.1 hf] at h1
    rw [if_neg (by simp [hf]), if_pos ((hop_contains _).mpr (h1 ▸ hk))]
  · rw [if_pos (by simpa using hf)]

theorem trailer_hop (w hh : Hdr) (k : Bytes) (hsc : SuffixCanon w) (hk : k ∈ utils_hopHeaders) :
    Hdr.values (utils_srwCollectTrailers w (utils_srwDeclareTrailers hh)) k = [] := by
  rw [values_collect, decl_values, undecl_nil_of_hop w k hsc hk]
  simp only [List.nil_append, List.append_nil]
  rw [List.flatMap_eq_nil_iff]
  intro p hp
  rw [List.mem_filter] at hp
  have h1 : Go.canon p.1 = k := of_decide_eq_true hp.2
  rw [decl_canonical hh p hp.1] at h1
  exact absurd (h1 ▸ hk) (decl_entries hh p hp.1).2.1

theorem trailer_declared (w hh : Hdr) (t : Bytes) (hc : Go.canon t = t)
    (hin : t ∈ (utils_srwDeclareTrailers hh).map (·.1))
    (hnp : ∀ p ∈ w, (Go.cutPrefix2 p.1 trailerPrefix).2 = true → Go.canon (Go.cutPrefix2 p.1 trailerPrefix).1 ≠ t) :
    Hdr.values (utils_srwCollectTrailers w (utils_srwDeclareTrailers hh)) t = Hdr.values w t := by
  rw [values_collect, decl_values]
  have h3 : (w.filter (fun p => decide (Go.canon (Go.cutPrefix2 p.1 trailerPrefix).1 = t))).flatMap undeclVals = [] := by
    rw [List.flatMap_eq_nil_iff]
    intro p hp
    rw [List.mem_filter] at hp
    have h1 : Go.canon (Go.cutPrefix2 p.1 trailerPrefix).1 = t := of_decide_eq_true hp.2
    unfold undeclVals
    by_cases hf : (Go.cutPrefix2 p.1 trailerPrefix).2 = true
    · exact absurd h1 (hnp p hp.1 hf)
    · rw [if_pos (by simpa using hf)]
  rw [h3]
  simp only [List.nil_append, List.append_nil]
  have h2 : ((utils_srwDeclareTrailers hh).filter (fun p => decide (Go.canon p.1 = t))).flatMap (fun p => Hdr.Values w p.1)
      = ((utils_srwDeclareTrailers hh).filter (fun p => decide (p.1 = t))).flatMap (fun _ => Hdr.values w t) := by
    apply flatMap_filter_congr
    intro p hp
    rw [decl_canonical hh p hp]
    by_cases h1 : p.1 = t
    · simp [h1, Hdr.Values, hc]
    · simp [h1]
  rw [h2]
  rcases filter_key_nodup _ t (decl_nodup hh) with ⟨_, _, h1⟩ | ⟨h1, _⟩
  · exact absurd hin h1
  · rw [h1]; simp

theorem trailer_undeclared (w hh : Hdr) (t : Bytes) (hh' : t ∉ utils_hopHeaders)
    (hnd : t ∉ (utils_srwDeclareTrailers hh).map (·.1))
    (hn : (w.map (·.1)).Nodup) (hsc : SuffixCanon w) :
    Hdr.values (utils_srwCollectTrailers w (utils_srwDeclareTrailers hh)) t = Hdr.values w (trailerPrefix ++ t) := by
  rw [values_collect, decl_values]
  have h2 : ((utils_srwDeclareTrailers hh).filter (fun p => decide (Go.canon p.1 = t))).flatMap (fun p => Hdr.Values w p.1) = [] := by
    rw [List.flatMap_eq_nil_iff]
    intro p hp
    rw [List.mem_filter] at hp
    have h1 : Go.canon p.1 = t := of_decide_eq_true hp.2
    rw [decl_canonical hh p hp.1] at h1
    exact absurd (List.mem_map.mpr ⟨p, hp.1, h1⟩) hnd
  rw [h2]
  simp only [List.nil_append]
  rw [← flatMap_snd_filter_key w (trailerPrefix ++ t) hn]
  apply flatMap_filter_congr
  intro p hp
  by_cases hf : (Go.cutPrefix2 p.1 trailerPrefix).2 = true
  · rw [hsc p hp hf]
    have hk := cut_found hf
    by_cases h1 : (Go.cutPrefix2 p.1 trailerPrefix).1 = t
    · have h4 : p.1 = trailerPrefix ++ t := by rw [← h1]; exact hk
      have h5 : ¬ utils_hopHeaders.contains (Go.cutPrefix2 p.1 trailerPrefix).1 = true := by
        rw [h1]; exact fun hcn => hh' ((hop_contains _).mp hcn)
      have h6 : undeclVals p = p.2 := by
        unfold undeclVals
        rw [if_neg (by simp [hf]), if_neg h5]
      rw [h6, h1]
      simp [h4]
    · have h4 : ¬ p.1 = trailerPrefix ++ t := by
        intro e
        rw [hk] at e
        exact h1 (List.append_cancel_left e)
      simp [h1, h4]
  · have h4 : ¬ p.1 = trailerPrefix ++ t := by
      intro e
      rw [e, cut_prefixed] at hf
      exact hf rfl
    have h5 : undeclVals p = [] := by
      unfold undeclVals
      rw [if_pos (by simpa using hf)]
    simp [h4, h5]

/-! ### the stand-alone proxy's copy loops -/

theorem values_copyH_fold (h acc : Hdr) (k : Bytes) (hn : (h.map (·.1)).Nodup) (hk : server_isHopByHopHeader k = false) :
    Hdr.values (h.foldl copyHStep acc) k = if k ∈ h.map (·.1) then Hdr.values h k else Hdr.values acc k := by
  induction h generalizing acc with
  | nil => simp
  | cons p t ih =>
    obtain ⟨k1, vs⟩ := p
    simp only [List.map_cons, List.nodup_cons] at hn
    simp only [List.foldl_cons, List.map_cons, List.mem_cons]
    rw [ih _ hn.2]
    by_cases h1 : k1 = k
    · subst h1
      have h2 : ¬ k1 ∈ t.map (·.1) := hn.1
      simp [h2, copyHStep, hk, Hdr.values]
    · have h3 : ¬ k = k1 := fun e => h1 e.symm
      by_cases h2 : k ∈ t.map (·.1)
      · simp only [h2, if_true, or_true, Hdr.values, h1, if_false]
      · simp only [h2, if_false, h3, or_self, Hdr.values, h1]
        unfold copyHStep
        split
        · rfl
        · exact Hdr.values_put_ne _ _ _ _ h3

theorem values_copyH (h : Hdr) (k : Bytes) (hn : (h.map (·.1)).Nodup) (hk : server_isHopByHopHeader k = false)
    (hte : k ≠ Go.canon [116,114,97,110,115,102,101,114,45,101,110,99,111,100,105,110,103]) :
    Hdr.values (server_copyResponseHeader h []) k = Hdr.values h k := by
  rw [copyH_eq_foldl, Hdr.Add, Hdr.values_add_ne _ _ _ _ hte, values_copyH_fold h [] k hn hk]
  split
  · rfl
  · rename_i hm
    rw [values_of_not_mem h k hm]; rfl

theorem copyTStep_eq : copyTStep = fun a p =>
    addAll a (trailerPrefix ++ p.1) (if server_isHopByHopHeader p.1 = true then [] else p.2) := by
  funext a p
  unfold copyTStep
  split <;> rfl

theorem values_copyT (h wh : Hdr) (t : Bytes) (hn : (h.map (·.1)).Nodup) (ht : server_isHopByHopHeader t = false) :
    Hdr.values (server_copyResponseTrailer h wh) (Go.canon (trailerPrefix ++ t)) =
      Hdr.values wh (Go.canon (trailerPrefix ++ t)) ++ Hdr.values h t := by
  rw [copyT_eq_foldl, copyTStep_eq]
  refine (values_foldl_addAll (fun p => trailerPrefix ++ p.1)
    (fun p => if server_isHopByHopHeader p.1 = true then [] else p.2) h wh _).trans ?_
  congr 1
  rw [← flatMap_snd_filter_key h t hn]
  apply flatMap_filter_congr
  intro p _
  rw [canon_prefixed, canon_prefixed]
  by_cases h1 : p.1 = t
  · simp [h1, ht]
  · have : ¬ trailerPrefix ++ p.1 = trailerPrefix ++ t := fun e => h1 (List.append_cancel_left e)
    simp [h1, this]


/-! ### the run of the streaming writer -/

/-- the effect of one handler operation on the handler's header map -/
def hdrStep (h : Hdr) (op : HOp) : Hdr :=
  match op with
  | .setHeader k v => Hdr.set h k v | .addHeader k v => Hdr.add h k v | .delHeader k => Hdr.del h k
  | _ => h

theorem headerAtClose_eq (ops : List HOp) : headerAtClose ops = ops.foldl hdrStep [] := rfl

theorem ignores_200 : utils_srwIgnoresStatus 200 = false := by decide

/-- once the head is written the run only moves the handler's map and appends body bytes -/
theorem run_wrote (ops : List HOp) (s : SRW) (hw : s.wrote = true) :
    ops.foldl SRW.step s = { s with hdr := ops.foldl hdrStep s.hdr, body := s.body ++ bodyOf ops } := by
  induction ops generalizing s with
  | nil => simp [bodyOf]
  | cons op ops ih =>
    simp only [List.foldl_cons]
    cases op with
    | setHeader k v => rw [ih _ (by simpa [SRW.step] using hw)]; simp [SRW.step, hdrStep, bodyOf]
    | addHeader k v => rw [ih _ (by simpa [SRW.step] using hw)]; simp [SRW.step, hdrStep, bodyOf]
    | delHeader k => rw [ih _ (by simpa [SRW.step] using hw)]; simp [SRW.step, hdrStep, bodyOf]
    | writeHeader c =>
      have : s.step (.writeHeader c) = s := by simp [SRW.step, SRW.writeHeader, hw]
      rw [this, ih _ hw]; simp [hdrStep, bodyOf]
    | write bs =>
      have : s.step (.write bs) = { s with body := s.body ++ bs } := by simp [SRW.step, hw]
      rw [this, ih _ (by simpa using hw)]; simp [hdrStep, bodyOf]

theorem writeHeader_final (s : SRW) (c : Int) (hw : s.wrote = false) (hc : utils_srwIgnoresStatus c = false) :
    s.writeHeader c = { s with wrote := true, status := c, trailer := utils_srwDeclareTrailers s.hdr,
                               respHdr := utils_srwFilterHeader s.hdr } := by
  simp [SRW.writeHeader, hw, hc]

/-- the closed writer after a run that starts before the head is written -/
theorem run_close (ops : List HOp) (s : SRW) (hw : s.wrote = false) :
    (ops.foldl SRW.step s).close =
      { hdr := ops.foldl hdrStep s.hdr, wrote := true, status := finalStatus ops,
        respHdr := utils_srwFilterHeader (headerAtHead s.hdr ops),
        trailer := utils_srwCollectTrailers (ops.foldl hdrStep s.hdr) (utils_srwDeclareTrailers (headerAtHead s.hdr ops)),
        body := s.body ++ bodyOf ops } := by
  induction ops generalizing s with
  | nil =>
    simp [SRW.close, hw, writeHeader_final s 200 hw ignores_200, finalStatus, headerAtHead, bodyOf]
  | cons op ops ih =>
    simp only [List.foldl_cons]
    cases op with
    | setHeader k v => rw [ih _ (by simpa [SRW.step] using hw)]; simp [SRW.step, hdrStep, bodyOf, finalStatus, headerAtHead]
    | addHeader k v => rw [ih _ (by simpa [SRW.step] using hw)]; simp [SRW.step, hdrStep, bodyOf, finalStatus, headerAtHead]
    | delHeader k => rw [ih _ (by simpa [SRW.step] using hw)]; simp [SRW.step, hdrStep, bodyOf, finalStatus, headerAtHead]
    | writeHeader c =>
      by_cases hc : utils_srwIgnoresStatus c = true
      · have : s.step (.writeHeader c) = s := by simp [SRW.step, SRW.writeHeader, hw, hc]
        rw [this, ih _ hw]; simp [hdrStep, bodyOf, finalStatus, headerAtHead, hc]
      · have hc' : utils_srwIgnoresStatus c = false := by simpa using hc
        have : s.step (.writeHeader c) = _ := writeHeader_final s c hw hc'
        rw [this, run_wrote _ _ rfl]
        simp [SRW.close, hdrStep, bodyOf, finalStatus, headerAtHead, hc']
    | write bs =>
      have : s.step (.write bs) = { s with wrote := true, status := 200, trailer := utils_srwDeclareTrailers s.hdr, respHdr := utils_srwFilterHeader s.hdr, body := s.body ++ bs } := by
        simp [SRW.step, hw, writeHeader_final s 200 hw ignores_200]
      rw [this, run_wrote _ _ rfl]
      simp [SRW.close, hdrStep, bodyOf, finalStatus, headerAtHead]

theorem output_eq (ops : List HOp) :
    output ops = { status := finalStatus ops, hdr := utils_srwFilterHeader (headerAtHead [] ops), body := bodyOf ops,
                   trailer := utils_srwCollectTrailers (headerAtClose ops) (utils_srwDeclareTrailers (headerAtHead [] ops)) } := by
  unfold output
  rw [run_close ops SRW.init rfl, headerAtClose_eq]
  simp [SRW.init]


/-! ### corrected versions of the three C03 statements that are false as first written

  Counterexamples to the original statements (all with well-formed maps):
  * `srw_hop_filtered`, header part: `[.setHeader "connection" "x"]` gives `hdr["Connection"] = ["x"]`;
    trailer part: `[.setHeader "Trailer:connection" "x"]` gives `trailer["Connection"] = ["x"]`.
  * `srw_declared_trailers`: `Trailer: X-A` declared, then `X-A: a` and `Trailer:x-a: b` give
    `trailer["X-A"] = ["a","b"]`.
  * `srw_undeclared_trailers`: `[.setHeader "Trailer:x-c" "b"]` gives `trailer["X-C"] = ["b"]` while the
    handler's map has nothing under `"Trailer:X-C"`.
  The common cause: `Header.Add` canonicalises the name after the `Trailer:` prefix was cut (or a name that
  the handler stored uncanonicalised), so the hop-by-hop test and the declared/undeclared split are made
  on a different name than the one written.  `SuffixCanon` (and canonical keys at the head) repair all three. -/

theorem srw_hop_filtered_hdr (ops : List HOp) (k : Bytes) (hk : k ∈ utils_hopHeaders)
    (hcan : ∀ p ∈ headerAtHead [] ops, Go.canon p.1 = p.1) :
    Hdr.values (output ops).hdr k = [] := by
  rw [output_eq]; exact filter_hop _ k hcan hk

theorem srw_hop_filtered_trailer (ops : List HOp) (k : Bytes) (hk : k ∈ utils_hopHeaders)
    (hsc : SuffixCanon (headerAtClose ops)) :
    Hdr.values (output ops).trailer k = [] := by
  rw [output_eq]; exact trailer_hop _ _ k hsc hk

theorem srw_hop_filtered_fixed (ops : List HOp) (k : Bytes) (hk : k ∈ utils_hopHeaders)
    (hcan : ∀ p ∈ headerAtHead [] ops, Go.canon p.1 = p.1) (hsc : SuffixCanon (headerAtClose ops)) :
    Hdr.values (output ops).hdr k = [] ∧ Hdr.values (output ops).trailer k = [] :=
  ⟨srw_hop_filtered_hdr ops k hk hcan, srw_hop_filtered_trailer ops k hk hsc⟩

/-- original hypotheses (those still needed) plus `SuffixCanon` -/
theorem srw_declared_trailers_fixed (ops : List HOp) (v t : Bytes)
    (hv : v ∈ Hdr.Values (headerAtHead [] ops) [84,114,97,105,108,101,114])
    (ht : t ∈ (Go.split v [44]).map (fun k => Go.canon (Go.trimSpace k)))
    (hne : t ≠ []) (hh : t ∉ utils_hopHeaders)
    (hnp : ∀ k ∈ (headerAtClose ops).map (·.1), Go.cutPrefix2 k trailerPrefix ≠ (t, true))
    (hc : Go.canon t = t) (hsc : SuffixCanon (headerAtClose ops)) :
    Hdr.values (output ops).trailer t = Hdr.values (headerAtClose ops) t := by
  rw [output_eq]
  apply trailer_declared _ _ t hc (decl_mem _ v t hv ht hne hh)
  intro p hp hf he
  apply hnp p.1 (List.mem_map.mpr ⟨p, hp, rfl⟩)
  rw [hsc p hp hf] at he
  exact Prod.ext he hf

/-- alternative: no `SuffixCanon`, but the exclusion is stated on the canonicalised suffix -/
theorem srw_declared_trailers_fixed' (ops : List HOp) (v t : Bytes)
    (hv : v ∈ Hdr.Values (headerAtHead [] ops) [84,114,97,105,108,101,114])
    (ht : t ∈ (Go.split v [44]).map (fun k => Go.canon (Go.trimSpace k)))
    (hne : t ≠ []) (hh : t ∉ utils_hopHeaders)
    (hnp : ∀ p ∈ headerAtClose ops, (Go.cutPrefix2 p.1 trailerPrefix).2 = true →
      Go.canon (Go.cutPrefix2 p.1 trailerPrefix).1 ≠ t)
    (hc : Go.canon t = t) :
    Hdr.values (output ops).trailer t = Hdr.values (headerAtClose ops) t := by
  rw [output_eq]
  exact trailer_declared _ _ t hc (decl_mem _ v t hv ht hne hh) hnp

theorem srw_undeclared_trailers_fixed (ops : List HOp) (t : Bytes) (hh : t ∉ utils_hopHeaders)
    (hnd : t ∉ (utils_srwDeclareTrailers (headerAtHead [] ops)).map (·.1))
    (hwf : WF (headerAtClose ops)) (hsc : SuffixCanon (headerAtClose ops)) :
    Hdr.values (output ops).trailer t = Hdr.values (headerAtClose ops) (trailerPrefix ++ t) := by
  rw [output_eq]
  exact trailer_undeclared _ _ t hh hnd hwf.1 hsc


/-! ### machine-checked refutations of the original statements -/

/-- `srw_hop_filtered` as first stated fails for the header map: `connection: x` (uncanonical key) -/
theorem srw_hop_filtered_orig_false_hdr :
    ¬ ∀ (ops : List HOp) (k : Bytes), k ∈ utils_hopHeaders →
      Hdr.values (output ops).hdr k = [] ∧ Hdr.values (output ops).trailer k = [] := by
  intro h
  have := (h [.setHeader [99,111,110,110,101,99,116,105,111,110] [120]] [67,111,110,110,101,99,116,105,111,110] (by decide)).1
  revert this; decide

/-- … and for the trailer map even with well-formed handler maps: `Trailer:connection: x` -/
theorem srw_hop_filtered_orig_false_trailer :
    ¬ ∀ (ops : List HOp) (k : Bytes), k ∈ utils_hopHeaders → WF (headerAtHead [] ops) → WF (headerAtClose ops) →
      Hdr.values (output ops).hdr k = [] ∧ Hdr.values (output ops).trailer k = [] := by
  intro h
  have := (h [.setHeader (trailerPrefix ++ [99,111,110,110,101,99,116,105,111,110]) [120]]
    [67,111,110,110,101,99,116,105,111,110] (by decide) ⟨by decide, by decide⟩ ⟨by decide, by decide⟩).2
  revert this; decide

/-- `srw_declared_trailers` as first stated fails: `Trailer: X-A`, head, `X-A: a`, `Trailer:x-a: b` -/
theorem srw_declared_trailers_orig_false :
    ¬ ∀ (ops : List HOp) (v t : Bytes),
      v ∈ Hdr.Values (headerAtHead [] ops) [84,114,97,105,108,101,114] →
      t ∈ (Go.split v [44]).map (fun k => Go.canon (Go.trimSpace k)) →
      t ≠ [] → t ∉ utils_hopHeaders →
      (∀ k ∈ (headerAtClose ops).map (·.1), Go.cutPrefix2 k trailerPrefix ≠ (t, true)) →
      WF (headerAtClose ops) → Go.canon t = t →
      Hdr.values (output ops).trailer t = Hdr.values (headerAtClose ops) t := by
  intro h
  have := h [.setHeader [84,114,97,105,108,101,114] [88,45,65], .writeHeader 200, .setHeader [88,45,65] [97],
             .setHeader (trailerPrefix ++ [120,45,97]) [98]] [88,45,65] [88,45,65]
    (by decide) (by decide) (by decide) (by decide) (by decide) ⟨by decide, by decide⟩ (by decide)
  revert this; decide

/-- `srw_undeclared_trailers` as first stated fails: `Trailer:x-c: b` -/
theorem srw_undeclared_trailers_orig_false :
    ¬ ∀ (ops : List HOp) (t : Bytes), t ∉ utils_hopHeaders → Go.canon t = t →
      t ∉ (utils_srwDeclareTrailers (headerAtHead [] ops)).map (·.1) →
      WF (headerAtClose ops) →
      Hdr.values (output ops).trailer t = Hdr.values (headerAtClose ops) (trailerPrefix ++ t) := by
  intro h
  have := h [.setHeader (trailerPrefix ++ [120,45,99]) [98]] [88,45,67]
    (by decide) (by decide) (by decide) ⟨by decide, by decide⟩
  revert this; decide

end InvProxy.RespPath
