/-
  Proofs/Keys: helper lemmas for C17b — `esc` is a prefix code on bytes, the closing quote of
  `%q` is recognisable, hence `quote` is a prefix code.
-/
import InvProxy.Model.Keys
namespace InvProxy.Keys
open InvProxy

/-- A statement about all bytes follows from the statement about `UInt8.ofNat n`, `n < 256`. -/
theorem forall_u8 {P : UInt8 → Prop} (h : ∀ n, n < 256 → P (UInt8.ofNat n)) : ∀ c, P c := by
  intro c
  have := h c.toNat (UInt8.toNat_lt c)
  simpa using this

def unhex (a : UInt8) : UInt8 := if a < 58 then a - 48 else a - 87

/-- Decoder of one code word of `esc`. -/
def dec1 : Bytes → UInt8
  | [92, 120, a, b] => unhex a * 16 + unhex b
  | [92, e] =>
    if e = 97 then 7 else if e = 98 then 8 else if e = 102 then 12 else if e = 110 then 10
    else if e = 114 then 13 else if e = 116 then 9 else if e = 118 then 11 else e
  | [c] => c
  | _ => 0

set_option maxRecDepth 100000 in
theorem dec1_esc : ∀ c : UInt8, dec1 (esc c) = c := by
  apply forall_u8; decide

theorem esc_inj {c d : UInt8} (h : esc c = esc d) : c = d := by
  have := congrArg dec1 h
  simpa [dec1_esc] using this

set_option maxRecDepth 100000 in
theorem esc_shape : ∀ c : UInt8,
    (esc c = [c] ∧ c ≠ 92 ∧ c ≠ 34) ∨
    (esc c = [92, (esc c).getD 1 0] ∧ (esc c).getD 1 0 ≠ 120) ∨
    (esc c = [92, 120, (esc c).getD 2 0, (esc c).getD 3 0]) := by
  apply forall_u8; decide

theorem esc_cases (c : UInt8) :
    (esc c = [c] ∧ c ≠ 92 ∧ c ≠ 34) ∨
    (∃ e, esc c = [92, e] ∧ e ≠ 120) ∨
    (∃ a b, esc c = [92, 120, a, b]) := by
  rcases esc_shape c with h | h | h
  · exact Or.inl h
  · exact Or.inr (Or.inl ⟨_, h⟩)
  · exact Or.inr (Or.inr ⟨_, _, h⟩)

/-- `esc c` is non-empty and never starts with the quote byte. -/
theorem esc_head (c : UInt8) : ∃ h tl, esc c = h :: tl ∧ h ≠ 34 := by
  rcases esc_cases c with ⟨h, _, h34⟩ | ⟨e, h, _⟩ | ⟨a, b, h⟩
  · exact ⟨c, [], h, h34⟩
  · exact ⟨92, [e], h, by decide⟩
  · exact ⟨92, [120, a, b], h, by decide⟩

/-- `esc` is a prefix code. -/
theorem esc_prefix_free {c d : UInt8} {s t : Bytes} (h : esc c ++ s = esc d ++ t) :
    c = d ∧ s = t := by
  have key : esc c = esc d ∧ s = t := by
    rcases esc_cases c with ⟨hc, hc1, _⟩ | ⟨e, hc, he⟩ | ⟨a, b, hc⟩ <;>
    rcases esc_cases d with ⟨hd, hd1, _⟩ | ⟨e', hd, he'⟩ | ⟨a', b', hd⟩ <;>
    rw [hc, hd] at h ⊢ <;>
    simp only [List.cons_append, List.nil_append, List.cons.injEq] at h ⊢ <;>
    simp_all
  exact ⟨esc_inj key.1, key.2⟩

/-- The closing quote is recognisable after an escaped string. -/
theorem escAll_quote_free (x : Bytes) : ∀ (y s t : Bytes),
    escAll x ++ 34 :: s = escAll y ++ 34 :: t → x = y ∧ s = t := by
  induction x with
  | nil =>
    intro y s t h
    cases y with
    | nil => simpa [escAll] using h
    | cons d ys =>
      obtain ⟨hd, tl, e, hne⟩ := esc_head d
      simp only [escAll, e, List.nil_append, List.cons_append, List.cons.injEq] at h
      exact absurd h.1.symm hne
  | cons c xs ih =>
    intro y s t h
    cases y with
    | nil =>
      obtain ⟨hd, tl, e, hne⟩ := esc_head c
      simp only [escAll, e, List.nil_append, List.cons_append, List.cons.injEq] at h
      exact absurd h.1 hne
    | cons d ys =>
      simp only [escAll, List.append_assoc] at h
      obtain ⟨hcd, hrest⟩ := esc_prefix_free h
      obtain ⟨hxy, hst⟩ := ih ys s t hrest
      exact ⟨by rw [hcd, hxy], hst⟩

/-- `%q` output is a prefix code. -/
theorem quote_prefix_free' {x y s t : Bytes} (h : quote x ++ s = quote y ++ t) : x = y ∧ s = t := by
  simp only [quote, List.cons_append, List.append_assoc, List.nil_append, List.cons.injEq,
    true_and] at h
  exact escAll_quote_free x y s t h

theorem quote_inj {x y : Bytes} (h : quote x = quote y) : x = y := by
  have : quote x ++ [] = quote y ++ [] := by simpa using h
  exact (quote_prefix_free' this).1

theorem quoted_key_inj (pre mid b r b' r' : Bytes)
    (h : (Fmt2.mk pre .q mid .q).key b r = (Fmt2.mk pre .q mid .q).key b' r') :
    b = b' ∧ r = r' := by
  simp only [Fmt2.key, Verb.fmt, List.append_assoc] at h
  have h1 := List.append_cancel_left h
  obtain ⟨hb, h2⟩ := quote_prefix_free' h1
  have h3 := List.append_cancel_left h2
  exact ⟨hb, quote_inj h3⟩

end InvProxy.Keys
