/-
  Proofs/Inject (C14): helper lemmas for Props/C14.
-/
import InvProxy.Model.Inject
namespace InvProxy.Inject
open InvProxy InvProxy.Gen

/-! ### the generated predicates as Boolean formulas -/

theorem any_loop {α : Type} (f : α → Bool) (b : Bool) (xs : List α) :
    (forIn (m := Id) xs ((none, ()) : Option Bool × PUnit) (fun x _ =>
        if f x = true then pure (ForInStep.done (some b, ())) else pure (ForInStep.yield (none, ())))) =
      pure (if xs.any f then (some b, ()) else (none, ())) := by
  induction xs with
  | nil => rfl
  | cons x xs ih =>
    simp only [List.forIn_cons, List.any_cons]
    by_cases h : f x = true
    · simp only [h, if_true, Bool.true_or]; rfl
    · rw [if_neg h]
      have : f x = false := by simpa using h
      simp only [this, Bool.false_or]
      exact ih

theorem isFrameable_eq (c : Int) (h : Hdr) :
    banner_isFrameableHTMLResponse c h =
      ((c == 200) && !((Hdr.values h banner_contentDispositionHeader).any (fun cd => Go.contains (Go.toLower cd) [97,116,116,97,99,104,109,101,110,116]))
        && (Hdr.values h banner_contentTypeHeader).any (fun ct => Go.contains (Go.beforeSep ct [59]) [116,101,120,116,47,104,116,109,108] || Go.contains (Go.beforeSep ct [59]) [97,112,112,108,105,99,97,116,105,111,110,47,120,104,116,109,108,43,120,109,108])) := by
  simp only [banner_isFrameableHTMLResponse, Id.run]
  rw [any_loop (fun cd => Go.contains (Go.toLower cd) [97,116,116,97,99,104,109,101,110,116]) false,
      any_loop (fun ct => Go.contains (Go.beforeSep ct [59]) [116,101,120,116,47,104,116,109,108] || Go.contains (Go.beforeSep ct [59]) [97,112,112,108,105,99,97,116,105,111,110,47,120,104,116,109,108,43,120,109,108]) true]
  generalize (Hdr.values h banner_contentDispositionHeader).any _ = a1
  generalize (Hdr.values h banner_contentTypeHeader).any _ = a2
  by_cases hc : c = 200
  · subst hc
    cases a1 <;> cases a2 <;> rfl
  · have h1 : (c != 200) = true := by simpa using hc
    have h2 : (c == 200) = false := by simpa using hc
    rw [if_pos h1, h2]; rfl

theorem isHTMLRequest_eq (r : Req) :
    banner_isHTMLRequest r = ((r.Method == [71,69,84]) && Go.contains (Hdr.Get r.Header banner_acceptHeader) [116,101,120,116,47,104,116,109,108]) := by
  simp only [banner_isHTMLRequest, Id.run]
  by_cases hc : r.Method = [71,69,84]
  · have h1 : ¬ (r.Method != [71,69,84]) = true := by simp [hc]
    have h2 : (r.Method == [71,69,84]) = true := by simp [hc]
    rw [if_neg h1, h2]; rfl
  · have h1 : (r.Method != [71,69,84]) = true := by simpa using hc
    have h2 : (r.Method == [71,69,84]) = false := by simpa using hc
    rw [if_pos h1, h2]; rfl

theorem isHTMLRequest_iff (r : Req) :
    banner_isHTMLRequest r = true ↔
      (r.Method = [71,69,84] ∧ Go.contains (Hdr.Get r.Header banner_acceptHeader) [116,101,120,116,47,104,116,109,108] = true) := by
  rw [isHTMLRequest_eq]
  simp

theorem isFrameable_iff (c : Int) (h : Hdr) :
    banner_isFrameableHTMLResponse c h = true ↔
      (c = 200 ∧
       (∀ cd ∈ Hdr.values h banner_contentDispositionHeader, Go.contains (Go.toLower cd) [97,116,116,97,99,104,109,101,110,116] = false) ∧
       (∃ ct ∈ Hdr.values h banner_contentTypeHeader,
          Go.contains (Go.beforeSep ct [59]) [116,101,120,116,47,104,116,109,108] = true ∨ Go.contains (Go.beforeSep ct [59]) [97,112,112,108,105,99,97,116,105,111,110,47,120,104,116,109,108,43,120,109,108] = true)) := by
  rw [isFrameable_eq]
  simp [and_assoc]

/-! ### `Go.index` -/

theorem index_nil_pat (s : Bytes) : Go.index s [] = some 0 := by
  cases s <;> rfl

theorem index_spec' (s pat : Bytes) (i : Nat) (h : Go.index s pat = some i) :
    pat <+: s.drop i ∧ ∀ j < i, ¬ pat <+: s.drop j := by
  induction s generalizing i with
  | nil =>
    simp only [Go.index] at h
    by_cases hp : pat.isEmpty = true
    · rw [if_pos hp] at h
      have hi : i = 0 := by injection h with h; exact h.symm
      subst hi
      have : pat = [] := List.isEmpty_iff.mp hp
      subst this
      exact ⟨List.nil_prefix, fun j hj => absurd hj (Nat.not_lt_zero j)⟩
    · rw [if_neg hp] at h
      cases h
  | cons c cs ih =>
    simp only [Go.index] at h
    by_cases hp : pat.isPrefixOf (c :: cs) = true
    · rw [if_pos hp] at h
      have hi : i = 0 := by injection h with h; exact h.symm
      subst hi
      exact ⟨by simpa using List.isPrefixOf_iff_prefix.mp hp, fun j hj => absurd hj (Nat.not_lt_zero j)⟩
    · rw [if_neg hp] at h
      cases hi : Go.index cs pat with
      | none => rw [hi] at h; cases h
      | some i' =>
        rw [hi] at h
        have hi2 : i = i' + 1 := by
          simp only [Option.map_some] at h
          injection h with h; exact h.symm
        subst hi2
        obtain ⟨h1, h2⟩ := ih i' hi
        refine ⟨by simpa using h1, ?_⟩
        intro j hj
        cases j with
        | zero =>
          intro hpre
          exact hp (List.isPrefixOf_iff_prefix.mpr (by simpa using hpre))
        | succ j' =>
          have := h2 j' (by omega)
          simpa using this

theorem index_append_left' (a b pat : Bytes) (i : Nat) (h : Go.index a pat = some i) :
    Go.index (a ++ b) pat = some i := by
  induction a generalizing i with
  | nil =>
    simp only [Go.index] at h
    by_cases hp : pat.isEmpty = true
    · rw [if_pos hp] at h
      have : pat = [] := List.isEmpty_iff.mp hp
      subst this
      rw [index_nil_pat]; exact h
    · rw [if_neg hp] at h
      cases h
  | cons c cs ih =>
    have hspec := index_spec' _ _ _ h
    simp only [Go.index] at h
    simp only [List.cons_append, Go.index]
    by_cases hp : pat.isPrefixOf (c :: cs) = true
    · rw [if_pos hp] at h
      have hp' : pat.isPrefixOf (c :: (cs ++ b)) = true := by
        apply List.isPrefixOf_iff_prefix.mpr
        have h1 : pat <+: c :: cs := List.isPrefixOf_iff_prefix.mp hp
        have h2 : (c :: cs) <+: c :: (cs ++ b) := by
          rw [← List.cons_append]; exact List.prefix_append _ _
        exact h1.trans h2
      rw [if_pos hp']; exact h
    · rw [if_neg hp] at h
      have hp' : ¬ pat.isPrefixOf (c :: (cs ++ b)) = true := by
        intro hq
        apply hp
        apply List.isPrefixOf_iff_prefix.mpr
        have h1 : pat <+: (c :: cs) ++ b := List.isPrefixOf_iff_prefix.mp hq
        have h2 : (c :: cs) <+: (c :: cs) ++ b := List.prefix_append _ _
        have hl : pat.length ≤ (c :: cs).length := by
          have := hspec.1.length_le
          rw [List.length_drop] at this
          omega
        exact List.prefix_of_prefix_length_le h1 h2 hl
      rw [if_neg hp']
      cases hi : Go.index cs pat with
      | none => rw [hi] at h; cases h
      | some i' =>
        rw [hi] at h
        rw [ih i' hi]; exact h

theorem take_add_of_prefix {pat s : Bytes} {i : Nat} (h : pat <+: s.drop i) :
    s.take (i + pat.length) = s.take i ++ pat := by
  obtain ⟨t, ht⟩ := h
  rw [List.take_add, ← ht, List.take_left]

theorem splice_correct' (code ct first rest : Bytes) (h : isHTMLType ct = true) :
    (Go.index first headTag = none ∧ (shimBody code ct first rest).1 = first ++ rest) ∨
    (∃ i, Go.index (first ++ rest) headTag = some i ∧
      (shimBody code ct first rest).1 = (first ++ rest).take (i + 6) ++ code ++ (first ++ rest).drop (i + 6)) := by
  simp only [shimBody, h, if_true, Go.replaceFirst]
  cases hi : Go.index first headTag with
  | none => exact Or.inl ⟨rfl, rfl⟩
  | some i =>
    right
    refine ⟨i, index_append_left' _ _ _ _ hi, ?_⟩
    have hpre := (index_spec' _ _ _ hi).1
    have hlen : headTag.length = 6 := rfl
    have hle : i + 6 ≤ first.length := by
      have := hpre.length_le
      rw [List.length_drop, hlen] at this
      omega
    have htake := take_add_of_prefix hpre
    rw [hlen] at htake
    simp only [hlen]
    rw [List.take_append_of_le_length hle, List.drop_append_of_le_length hle, htake]
    simp only [List.append_assoc]

/-! ### the response writers -/

theorem isInterim_200 : isInterim 200 = false := by decide

/-! event-list observers: API lemmas (so that the proofs never look inside the lambdas) -/

/-- the first head event of an event list (`headOf` is this on `plain`) -/
def hd (evs : List Ev) : Option (Int × Hdr) :=
  evs.findSome? fun e => match e with | .head c h => some (c, h) | _ => none

theorem headOf_eq_hd (h0 : Hdr) (ops : List Op) : headOf h0 ops = hd (plain h0 ops) := rfl

theorem hd_append (a b : List Ev) : hd (a ++ b) = (hd a).or (hd b) := by
  simp [hd, List.findSome?_append]
theorem hd_cons_head (c : Int) (h : Hdr) (l : List Ev) : hd (.head c h :: l) = some (c, h) := rfl
theorem hd_interim (c : Int) (h : Hdr) : hd [.interim c h] = none := rfl

theorem statusOf_append (a b : List Ev) : statusOf (a ++ b) = (statusOf a).or (statusOf b) := by
  simp [statusOf, List.findSome?_append]
theorem statusOf_cons_head (c : Int) (h : Hdr) (l : List Ev) : statusOf (.head c h :: l) = some c := rfl
theorem statusOf_body (b : Bytes) : statusOf [.body b] = none := rfl
theorem statusOf_interim (c : Int) (h : Hdr) : statusOf [.interim c h] = none := rfl

theorem interimsOf_append (a b : List Ev) : interimsOf (a ++ b) = interimsOf a ++ interimsOf b := by
  simp [interimsOf]
theorem interimsOf_nil : interimsOf [] = [] := rfl
theorem interimsOf_head (c : Int) (h : Hdr) : interimsOf [.head c h] = [] := rfl
theorem interimsOf_body (b : Bytes) : interimsOf [.body b] = [] := rfl
theorem interimsOf_head_body (c : Int) (h : Hdr) (b : Bytes) : interimsOf [.head c h, .body b] = [] := rfl
theorem interimsOf_interim (c : Int) (h : Hdr) : interimsOf [.interim c h] = [.interim c h] := rfl

theorem bodyOf_append (a b : List Ev) : bodyOf (a ++ b) = bodyOf a ++ bodyOf b := by
  simp [bodyOf]
theorem bodyOf_head (c : Int) (h : Hdr) : bodyOf [.head c h] = [] := rfl
theorem bodyOf_interim (c : Int) (h : Hdr) : bodyOf [.interim c h] = [] := rfl

/-! single steps of the two writers before the final head -/

theorem plain_wh_interim (h : Hdr) (pre : List Ev) (c : Int) (hi : isInterim c = true) :
    Plain.step { hdr := h, wrote := false, out := pre } (.writeHeader c) =
      { hdr := h, wrote := false, out := pre ++ [.interim c h] } := by
  simp [Plain.step, hi]

theorem plain_wh_final (h : Hdr) (pre : List Ev) (c : Int) (hi : isInterim c = false) :
    Plain.step { hdr := h, wrote := false, out := pre } (.writeHeader c) =
      { hdr := h, wrote := true, out := pre ++ [.head c h] } := by
  simp [Plain.step, hi]

theorem plain_write (h : Hdr) (pre : List Ev) (bs : Bytes) :
    Plain.step { hdr := h, wrote := false, out := pre } (.write bs) =
      { hdr := h, wrote := true, out := pre ++ [.head 200 h] ++ [.body bs] } := by
  simp [Plain.step]

theorem bw_wh_interim (cfg : Cfg) (h : Hdr) (wb : Bool) (pre : List Ev) (c : Int) (hi : isInterim c = true) :
    BW.step cfg { hdr := h, wroteHeader := false, writeBytes := wb, out := pre } (.writeHeader c) =
      { hdr := h, wroteHeader := false, writeBytes := wb, out := pre ++ [.interim c h] } := by
  simp [BW.step, BW.writeHeader, hi]

/-- status and header map at the first operation that produces the final head
    (interim `writeHeader`s are skipped) -/
def firstHead (h : Hdr) : List Op → Option (Int × Hdr)
  | [] => none
  | .setHeader k v :: t => firstHead (Hdr.set h k v) t
  | .addHeader k v :: t => firstHead (Hdr.add h k v) t
  | .delHeader k :: t => firstHead (Hdr.del h k) t
  | .writeHeader c :: t => if isInterim c then firstHead h t else some (c, h)
  | .write _ :: _ => some (200, h)

/-- the interim events produced before the final head -/
def preInterims (h : Hdr) : List Op → List Ev
  | [] => []
  | .setHeader k v :: t => preInterims (Hdr.set h k v) t
  | .addHeader k v :: t => preInterims (Hdr.add h k v) t
  | .delHeader k :: t => preInterims (Hdr.del h k) t
  | .writeHeader c :: t => if isInterim c then .interim c h :: preInterims h t else []
  | .write _ :: _ => []

theorem plain_step_grows (s : Plain) (op : Op) : ∃ l, (Plain.step s op).out = s.out ++ l := by
  cases op with
  | setHeader k v => exact ⟨[], by simp [Plain.step]⟩
  | addHeader k v => exact ⟨[], by simp [Plain.step]⟩
  | delHeader k => exact ⟨[], by simp [Plain.step]⟩
  | writeHeader c =>
    cases hw : s.wrote
    · cases hi : isInterim c
      · exact ⟨[.head c s.hdr], by simp [Plain.step, hw, hi]⟩
      · exact ⟨[.interim c s.hdr], by simp [Plain.step, hw, hi]⟩
    · exact ⟨[], by simp [Plain.step, hw]⟩
  | write bs =>
    cases hw : s.wrote
    · exact ⟨[.head 200 s.hdr, .body bs], by simp [Plain.step, hw]⟩
    · exact ⟨[.body bs], by simp [Plain.step, hw]⟩

theorem plain_out_grows (ops : List Op) (s : Plain) :
    ∃ l, (ops.foldl Plain.step s).out = s.out ++ l := by
  induction ops generalizing s with
  | nil => exact ⟨[], by simp⟩
  | cons op t ih =>
    obtain ⟨l, hl⟩ := ih (Plain.step s op)
    obtain ⟨l', hl'⟩ := plain_step_grows s op
    exact ⟨l' ++ l, by rw [List.foldl_cons, hl, hl', List.append_assoc]⟩

/-- generalised over the events already emitted (interim ones only, hence no head) -/
theorem hd_plain_run (ops : List Op) (h0 : Hdr) (pre : List Ev) (hp : hd pre = none) :
    hd (ops.foldl Plain.step { hdr := h0, wrote := false, out := pre }).out = firstHead h0 ops := by
  induction ops generalizing h0 pre with
  | nil => exact hp
  | cons op t ih =>
    cases op with
    | setHeader k v => exact ih (Hdr.set h0 k v) pre hp
    | addHeader k v => exact ih (Hdr.add h0 k v) pre hp
    | delHeader k => exact ih (Hdr.del h0 k) pre hp
    | writeHeader c =>
      cases hi : isInterim c
      · obtain ⟨l, hl⟩ := plain_out_grows t (Plain.step { hdr := h0, wrote := false, out := pre } (.writeHeader c))
        simp only [List.foldl_cons, firstHead, hi, Bool.false_eq_true, if_false]
        rw [hl, plain_wh_final _ _ _ hi]
        simp only [List.append_assoc, hd_append, hp, List.cons_append, List.nil_append, hd_cons_head, Option.none_or]
      · simp only [List.foldl_cons, firstHead, hi, if_true]
        rw [plain_wh_interim _ _ _ hi]
        exact ih h0 _ (by rw [hd_append, hp, hd_interim]; rfl)
    | write bs =>
      obtain ⟨l, hl⟩ := plain_out_grows t (Plain.step { hdr := h0, wrote := false, out := pre } (.write bs))
      simp only [List.foldl_cons, firstHead]
      rw [hl, plain_write]
      simp only [List.append_assoc, hd_append, hp, List.cons_append, List.nil_append, hd_cons_head, Option.none_or]

theorem headOf_eq_firstHead (h0 : Hdr) (ops : List Op) : headOf h0 ops = firstHead h0 ops := by
  rw [headOf_eq_hd]
  exact hd_plain_run ops h0 [] rfl

/-- a pass-through banner writer after the head -/
def toBW (s : Plain) : BW := { hdr := s.hdr, wroteHeader := true, writeBytes := true, out := s.out }

theorem plain_step_wrote (s : Plain) (op : Op) (hw : s.wrote = true) : (Plain.step s op).wrote = true := by
  cases op <;> simp [Plain.step, hw]

theorem step_toBW (cfg : Cfg) (s : Plain) (op : Op) (hw : s.wrote = true) :
    BW.step cfg (toBW s) op = toBW (Plain.step s op) := by
  cases op <;> simp [Plain.step, BW.step, BW.writeHeader, toBW, hw]

theorem post_run (cfg : Cfg) (ops : List Op) (s : Plain) (hw : s.wrote = true) :
    ops.foldl (BW.step cfg) (toBW s) = toBW (ops.foldl Plain.step s) := by
  induction ops generalizing s with
  | nil => rfl
  | cons op t ih =>
    simp only [List.foldl_cons]
    rw [step_toBW cfg s op hw]
    exact ih _ (plain_step_wrote s op hw)

/-- generalised over the (interim) events `pre` already emitted by both writers -/
theorem identity_run (cfg : Cfg) (ops : List Op) (h0 : Hdr) (pre : List Ev)
    (hn : ∀ c h, firstHead h0 ops = some (c, h) → banner_isFrameableHTMLResponse c h = false) :
    (ops.foldl (BW.step cfg) { hdr := h0, wroteHeader := false, writeBytes := false, out := pre }).out =
      (ops.foldl Plain.step { hdr := h0, wrote := false, out := pre }).out := by
  induction ops generalizing h0 pre with
  | nil => rfl
  | cons op t ih =>
    cases op with
    | setHeader k v => exact ih (Hdr.set h0 k v) pre hn
    | addHeader k v => exact ih (Hdr.add h0 k v) pre hn
    | delHeader k => exact ih (Hdr.del h0 k) pre hn
    | writeHeader c =>
      cases hi : isInterim c
      · have hf := hn c h0 (by simp [firstHead, hi])
        simp only [List.foldl_cons]
        have h1 : BW.step cfg { hdr := h0, wroteHeader := false, writeBytes := false, out := pre } (.writeHeader c) =
            toBW (Plain.step { hdr := h0, wrote := false, out := pre } (.writeHeader c)) := by
          simp [BW.step, BW.writeHeader, Plain.step, toBW, hf, hi]
        rw [h1, post_run cfg t _ (by simp [Plain.step, hi])]
        rfl
      · simp only [List.foldl_cons]
        rw [bw_wh_interim _ _ _ _ _ hi, plain_wh_interim _ _ _ hi]
        exact ih h0 _ (by simpa [firstHead, hi] using hn)
    | write bs =>
      have hf := hn 200 h0 rfl
      simp only [List.foldl_cons]
      have h1 : BW.step cfg { hdr := h0, wroteHeader := false, writeBytes := false, out := pre } (.write bs) =
          toBW (Plain.step { hdr := h0, wrote := false, out := pre } (.write bs)) := by
        simp [BW.step, BW.writeHeader, Plain.step, toBW, hf, isInterim_200]
      rw [h1, post_run cfg t _ (by simp [Plain.step])]
      rfl

/-! ### already framed: same body -/

/-- after the head of an already-framed exchange -/
def PostF (sp : Plain) (sb : BW) : Prop :=
  sp.wrote = true ∧ sb.wroteHeader = true ∧ sb.writeBytes = true ∧ bodyOf sb.out = bodyOf sp.out

theorem postF_step (cfg : Cfg) (sp : Plain) (sb : BW) (op : Op) (h : PostF sp sb) :
    PostF (Plain.step sp op) (BW.step cfg sb op) := by
  obtain ⟨h1, h2, h3, h4⟩ := h
  cases op with
  | setHeader k v => exact ⟨h1, h2, h3, h4⟩
  | addHeader k v => exact ⟨h1, h2, h3, h4⟩
  | delHeader k => exact ⟨h1, h2, h3, h4⟩
  | writeHeader c =>
    simp only [Plain.step, BW.step, BW.writeHeader, h1, h2, if_true]
    exact ⟨h1, h2, h3, h4⟩
  | write bs =>
    simp only [Plain.step, BW.step, h1, h2, h3, if_true]
    refine ⟨rfl, rfl, rfl, ?_⟩
    simp only [bodyOf_append, h4]

theorem postF_run (cfg : Cfg) (ops : List Op) (sp : Plain) (sb : BW) (h : PostF sp sb) :
    bodyOf (ops.foldl (BW.step cfg) sb).out = bodyOf (ops.foldl Plain.step sp).out := by
  induction ops generalizing sp sb with
  | nil => exact h.2.2.2
  | cons op t ih => exact ih _ _ (postF_step cfg sp sb op h)

theorem framed_writeHeader (cfg : Cfg) (hf : cfg.alreadyFramed = true) (h0 : Hdr) (wb : Bool) (pre : List Ev) (c : Int)
    (hi : isInterim c = false) :
    ∃ h', BW.writeHeader cfg { hdr := h0, wroteHeader := false, writeBytes := wb, out := pre } c =
      { hdr := h', wroteHeader := true, writeBytes := true, out := pre ++ [.head c h'] } := by
  cases hfr : banner_isFrameableHTMLResponse c h0
  · exact ⟨h0, by simp [BW.writeHeader, hfr, hi]⟩
  · exact ⟨markFrame cfg h0, by simp [BW.writeHeader, hfr, hf, hi]⟩

/-- generalised over the (interim) events `pre` already emitted by both writers -/
theorem framed_run (cfg : Cfg) (hf : cfg.alreadyFramed = true) (ops : List Op) (h0 : Hdr) (pre : List Ev) :
    bodyOf (ops.foldl (BW.step cfg) { hdr := h0, wroteHeader := false, writeBytes := false, out := pre }).out =
      bodyOf (ops.foldl Plain.step { hdr := h0, wrote := false, out := pre }).out := by
  induction ops generalizing h0 pre with
  | nil => rfl
  | cons op t ih =>
    cases op with
    | setHeader k v => exact ih (Hdr.set h0 k v) pre
    | addHeader k v => exact ih (Hdr.add h0 k v) pre
    | delHeader k => exact ih (Hdr.del h0 k) pre
    | writeHeader c =>
      cases hi : isInterim c
      · simp only [List.foldl_cons]
        apply postF_run
        obtain ⟨h', hh⟩ := framed_writeHeader cfg hf h0 false pre c hi
        simp only [BW.step, hh]
        rw [plain_wh_final _ _ _ hi]
        exact ⟨rfl, rfl, rfl, by simp only [bodyOf_append, bodyOf_head]⟩
      · simp only [List.foldl_cons]
        rw [bw_wh_interim _ _ _ _ _ hi, plain_wh_interim _ _ _ hi]
        exact ih h0 _
    | write bs =>
      simp only [List.foldl_cons]
      apply postF_run
      obtain ⟨h', hh⟩ := framed_writeHeader cfg hf h0 false pre 200 isInterim_200
      simp only [BW.step, Bool.false_eq_true, if_false, hh, if_true]
      rw [plain_write]
      exact ⟨rfl, rfl, rfl, by simp only [bodyOf_append, bodyOf_head]⟩

/-! ### not framed, banner target: the page -/

theorem frozen_step (cfg : Cfg) (sb : BW) (op : Op) (h1 : sb.wroteHeader = true) (h2 : sb.writeBytes = false) :
    (BW.step cfg sb op).wroteHeader = true ∧ (BW.step cfg sb op).writeBytes = false ∧
      (BW.step cfg sb op).out = sb.out := by
  cases op <;> simp [BW.step, BW.writeHeader, h1, h2]

theorem frozen_run (cfg : Cfg) (ops : List Op) (sb : BW) (h1 : sb.wroteHeader = true) (h2 : sb.writeBytes = false) :
    (ops.foldl (BW.step cfg) sb).out = sb.out := by
  induction ops generalizing sb with
  | nil => rfl
  | cons op t ih =>
    obtain ⟨a, b, c⟩ := frozen_step cfg sb op h1 h2
    rw [List.foldl_cons, ih _ a b, c]

/-- generalised over the events `pre` already emitted -/
theorem page_run (cfg : Cfg) (hf : cfg.alreadyFramed = false) (ops : List Op) (h0 : Hdr) (pre : List Ev) (c : Int) (h : Hdr)
    (hh : firstHead h0 ops = some (c, h)) (hfr : banner_isFrameableHTMLResponse c h = true) :
    (ops.foldl (BW.step cfg) { hdr := h0, wroteHeader := false, writeBytes := false, out := pre }).out =
      pre ++ preInterims h0 ops ++ [.head c (Hdr.Del (markFrame cfg h) banner_contentEncodingHeader), .body cfg.page] := by
  induction ops generalizing h0 pre with
  | nil => cases hh
  | cons op t ih =>
    cases op with
    | setHeader k v => exact ih (Hdr.set h0 k v) pre hh
    | addHeader k v => exact ih (Hdr.add h0 k v) pre hh
    | delHeader k => exact ih (Hdr.del h0 k) pre hh
    | writeHeader c' =>
      cases hi : isInterim c'
      · simp only [firstHead, hi, Bool.false_eq_true, if_false, Option.some.injEq, Prod.mk.injEq] at hh
        obtain ⟨rfl, rfl⟩ := hh
        simp only [List.foldl_cons, preInterims, hi, Bool.false_eq_true, if_false, List.append_nil]
        rw [frozen_run] <;> simp [BW.step, BW.writeHeader, hfr, hf, hi]
      · simp only [firstHead, hi, if_true] at hh
        simp only [List.foldl_cons, preInterims, hi, if_true]
        rw [bw_wh_interim _ _ _ _ _ hi, ih h0 _ hh]
        simp only [List.append_assoc, List.cons_append, List.nil_append]
    | write bs =>
      simp only [firstHead, Option.some.injEq, Prod.mk.injEq] at hh
      obtain ⟨rfl, rfl⟩ := hh
      simp only [List.foldl_cons, preInterims, List.append_nil]
      rw [frozen_run] <;> simp [BW.step, BW.writeHeader, hfr, hf, isInterim_200]

/-- once the final head is out, the plain writer emits no more interim events -/
theorem plain_post_interims (ops : List Op) (s : Plain) (hw : s.wrote = true) :
    interimsOf (ops.foldl Plain.step s).out = interimsOf s.out := by
  induction ops generalizing s with
  | nil => rfl
  | cons op t ih =>
    rw [List.foldl_cons, ih _ (plain_step_wrote s op hw)]
    cases op <;> simp [Plain.step, hw, interimsOf_append, interimsOf_body]

theorem interims_plain_run (ops : List Op) (h0 : Hdr) (pre : List Ev) :
    interimsOf (ops.foldl Plain.step { hdr := h0, wrote := false, out := pre }).out =
      interimsOf pre ++ preInterims h0 ops := by
  induction ops generalizing h0 pre with
  | nil => simp [preInterims]
  | cons op t ih =>
    cases op with
    | setHeader k v => exact ih (Hdr.set h0 k v) pre
    | addHeader k v => exact ih (Hdr.add h0 k v) pre
    | delHeader k => exact ih (Hdr.del h0 k) pre
    | writeHeader c =>
      cases hi : isInterim c
      · simp only [List.foldl_cons, preInterims, hi, Bool.false_eq_true, if_false, List.append_nil]
        rw [plain_wh_final _ _ _ hi, plain_post_interims _ _ rfl]
        simp only [interimsOf_append, interimsOf_head, List.append_nil]
      · simp only [List.foldl_cons, preInterims, hi, if_true]
        rw [plain_wh_interim _ _ _ hi, ih h0 _]
        simp only [interimsOf_append, interimsOf_interim, List.append_assoc, List.cons_append, List.nil_append]
    | write bs =>
      simp only [List.foldl_cons, preInterims, List.append_nil]
      rw [plain_write, plain_post_interims _ _ rfl]
      simp only [interimsOf_append, interimsOf_head, interimsOf_body, List.append_nil]

/-- the form used by `C14.banner_page` -/
theorem page_run_plain (cfg : Cfg) (hf : cfg.alreadyFramed = false) (ops : List Op) (h0 : Hdr) (c : Int) (h : Hdr)
    (hh : firstHead h0 ops = some (c, h)) (hfr : banner_isFrameableHTMLResponse c h = true) :
    (ops.foldl (BW.step cfg) { hdr := h0, wroteHeader := false, writeBytes := false, out := [] }).out =
      interimsOf (plain h0 ops) ++ [.head c (Hdr.Del (markFrame cfg h) banner_contentEncodingHeader), .body cfg.page] := by
  rw [page_run cfg hf ops h0 [] c h hh hfr, plain, interims_plain_run, interimsOf_nil]

/-! ### status and interim responses: a simulation between the two writers -/

/-- after the final head: same status, same interim events -/
def PostS (sp : Plain) (sb : BW) : Prop :=
  sp.wrote = true ∧ sb.wroteHeader = true ∧ statusOf sb.out = statusOf sp.out ∧ interimsOf sb.out = interimsOf sp.out

theorem postS_step (cfg : Cfg) (sp : Plain) (sb : BW) (op : Op) (h : PostS sp sb) :
    PostS (Plain.step sp op) (BW.step cfg sb op) := by
  obtain ⟨h1, h2, h3, h4⟩ := h
  cases op with
  | setHeader k v => exact ⟨h1, h2, h3, h4⟩
  | addHeader k v => exact ⟨h1, h2, h3, h4⟩
  | delHeader k => exact ⟨h1, h2, h3, h4⟩
  | writeHeader c =>
    simp only [Plain.step, BW.step, BW.writeHeader, h1, h2, if_true]
    exact ⟨h1, h2, h3, h4⟩
  | write bs =>
    simp only [Plain.step, BW.step, h1, h2, if_true]
    cases sb.writeBytes
    · simp only [Bool.false_eq_true, if_false]
      refine ⟨rfl, h2, ?_, ?_⟩
      · simp only [statusOf_append, statusOf_body, Option.or_none, h3]
      · simp only [interimsOf_append, interimsOf_body, List.append_nil, h4]
    · simp only [if_true]
      refine ⟨rfl, rfl, ?_, ?_⟩
      · simp only [statusOf_append, statusOf_body, Option.or_none, h3]
      · simp only [interimsOf_append, interimsOf_body, List.append_nil, h4]

theorem postS_run (cfg : Cfg) (ops : List Op) (sp : Plain) (sb : BW) (h : PostS sp sb) :
    PostS (ops.foldl Plain.step sp) (ops.foldl (BW.step cfg) sb) := by
  induction ops generalizing sp sb with
  | nil => exact h
  | cons op t ih => exact ih _ _ (postS_step cfg sp sb op h)

/-- the final `WriteHeader` of the banner writer: some head with the same status, possibly the page -/
theorem bw_final (cfg : Cfg) (h0 : Hdr) (wb : Bool) (pre : List Ev) (c : Int) (hi : isInterim c = false) :
    ∃ h' wb' l, BW.writeHeader cfg { hdr := h0, wroteHeader := false, writeBytes := wb, out := pre } c =
      { hdr := h', wroteHeader := true, writeBytes := wb', out := pre ++ .head c h' :: l } ∧
      (l = [] ∨ l = [.body cfg.page]) := by
  cases hfr : banner_isFrameableHTMLResponse c h0
  · exact ⟨h0, true, [], by simp [BW.writeHeader, hfr, hi], Or.inl rfl⟩
  · cases hf : cfg.alreadyFramed
    · exact ⟨Hdr.Del (markFrame cfg h0) banner_contentEncodingHeader, wb, [.body cfg.page], by simp [BW.writeHeader, hfr, hf, hi], Or.inr rfl⟩
    · exact ⟨markFrame cfg h0, true, [], by simp [BW.writeHeader, hfr, hf, hi], Or.inl rfl⟩

theorem statusOf_final (pre : List Ev) (c : Int) (h h' : Hdr) (l : List Ev) :
    statusOf (pre ++ .head c h' :: l) = statusOf (pre ++ [.head c h]) := by
  simp only [statusOf_append, statusOf_cons_head]

theorem interimsOf_final (pre : List Ev) (c : Int) (h h' : Hdr) (l : List Ev) (page : Bytes)
    (hl : l = [] ∨ l = [.body page]) :
    interimsOf (pre ++ .head c h' :: l) = interimsOf (pre ++ [.head c h]) := by
  rcases hl with rfl | rfl
  · simp only [interimsOf_append, interimsOf_head]
  · simp only [interimsOf_append, interimsOf_head, interimsOf_head_body]

theorem sim_run (cfg : Cfg) (ops : List Op) (h0 : Hdr) (pre : List Ev) :
    let sp := ops.foldl Plain.step { hdr := h0, wrote := false, out := pre }
    let sb := ops.foldl (BW.step cfg) { hdr := h0, wroteHeader := false, writeBytes := false, out := pre }
    statusOf sb.out = statusOf sp.out ∧ interimsOf sb.out = interimsOf sp.out := by
  induction ops generalizing h0 pre with
  | nil => exact ⟨rfl, rfl⟩
  | cons op t ih =>
    cases op with
    | setHeader k v => exact ih (Hdr.set h0 k v) pre
    | addHeader k v => exact ih (Hdr.add h0 k v) pre
    | delHeader k => exact ih (Hdr.del h0 k) pre
    | writeHeader c =>
      cases hi : isInterim c
      · obtain ⟨h', wb', l, hh, hl⟩ := bw_final cfg h0 false pre c hi
        have hp : PostS (Plain.step { hdr := h0, wrote := false, out := pre } (.writeHeader c))
            (BW.step cfg { hdr := h0, wroteHeader := false, writeBytes := false, out := pre } (.writeHeader c)) := by
          simp only [BW.step, hh]
          rw [plain_wh_final _ _ _ hi]
          exact ⟨rfl, rfl, statusOf_final _ _ _ _ _, interimsOf_final _ _ _ _ _ _ hl⟩
        have := postS_run cfg t _ _ hp
        exact ⟨this.2.2.1, this.2.2.2⟩
      · simp only [List.foldl_cons]
        rw [bw_wh_interim _ _ _ _ _ hi, plain_wh_interim _ _ _ hi]
        exact ih h0 _
    | write bs =>
      obtain ⟨h', wb', l, hh, hl⟩ := bw_final cfg h0 false pre 200 isInterim_200
      have hp : PostS (Plain.step { hdr := h0, wrote := false, out := pre } (.write bs))
          (BW.step cfg { hdr := h0, wroteHeader := false, writeBytes := false, out := pre } (.write bs)) := by
        simp only [BW.step, Bool.false_eq_true, if_false, hh]
        rw [plain_write]
        cases wb'
        · refine ⟨rfl, rfl, ?_, ?_⟩
          · simp only [Bool.false_eq_true, if_false, statusOf_append, statusOf_cons_head, statusOf_body, Option.or_none]
          · simp only [Bool.false_eq_true, if_false]
            rw [interimsOf_final _ _ h0 _ _ _ hl]
            simp only [interimsOf_append, interimsOf_head, interimsOf_body, List.append_nil]
        · refine ⟨rfl, rfl, ?_, ?_⟩
          · simp only [if_true, statusOf_append, statusOf_cons_head, statusOf_body, Option.or_none]
          · simp only [if_true]
            rw [interimsOf_append, interimsOf_final _ _ h0 _ _ _ hl]
            simp only [interimsOf_append, interimsOf_head, interimsOf_body, List.append_nil]
      have := postS_run cfg t _ _ hp
      exact ⟨this.2.2.1, this.2.2.2⟩

theorem page_headers (cfg : Cfg) (h : Hdr) :
    let h' := Hdr.Del (markFrame cfg h) banner_contentEncodingHeader
    Hdr.Values h' banner_cacheControlHeader = [noCacheValue] ∧ Hdr.Values h' banner_pragmaHeader = [noCache] ∧
      Hdr.Values h' banner_expiresHeader = [epochValue] ∧ Hdr.Values h' banner_xFrameOptionsHeader = [sameOrigin] ∧
      Hdr.Values h' banner_contentEncodingHeader = [] := by
  simp only [markFrame, Hdr.Values, Hdr.Del, Hdr.Set]
  refine ⟨?_, ?_, ?_, ?_, ?_⟩
  · rw [Hdr.values_del_ne _ _ _ (by decide), Hdr.values_set_ne _ _ _ _ (by decide),
      Hdr.values_del_ne _ _ _ (by decide), Hdr.values_set_ne _ _ _ _ (by decide),
      Hdr.values_set_ne _ _ _ _ (by decide), Hdr.values_set_ne _ _ _ _ (by decide), Hdr.values_set_self]
  · rw [Hdr.values_del_ne _ _ _ (by decide), Hdr.values_set_ne _ _ _ _ (by decide),
      Hdr.values_del_ne _ _ _ (by decide), Hdr.values_set_self]
  · rw [Hdr.values_del_ne _ _ _ (by decide), Hdr.values_set_ne _ _ _ _ (by decide),
      Hdr.values_del_ne _ _ _ (by decide), Hdr.values_set_ne _ _ _ _ (by decide), Hdr.values_set_self]
  · rw [Hdr.values_del_ne _ _ _ (by decide), Hdr.values_set_self]
  · rw [Hdr.values_del_self]

end InvProxy.Inject
