/-
  Proofs/WsInject: helper lemmas for C11 (header injection on JSON values).
-/
import InvProxy.Model.WsCodec
namespace InvProxy.WsCodec
open InvProxy

theorem lookup_setField_same (k : Bytes) (v : J) (fs : List (Bytes × J)) :
    lookup k (setField k v fs) = some v := by
  induction fs with
  | nil => simp [setField, lookup]
  | cons p t ih =>
    obtain ⟨k', v'⟩ := p
    simp only [setField]
    split
    · simp [lookup]
    · rename_i hne
      simp only [lookup, hne, if_false]
      exact ih

theorem lookup_setField_other (k k' : Bytes) (v : J) (fs : List (Bytes × J)) (h : k' ≠ k) :
    lookup k' (setField k v fs) = lookup k' fs := by
  induction fs with
  | nil =>
    have h' : ¬ k = k' := fun e => h e.symm
    simp [setField, lookup, h']
  | cons p t ih =>
    obtain ⟨k1, v1⟩ := p
    simp only [setField]
    split
    · rename_i he
      subst he
      have h' : ¬ k1 = k' := fun e => h e.symm
      simp [lookup, h']
    · simp only [lookup]
      rw [ih]

theorem setField_keys (k : Bytes) (v w : J) (fs : List (Bytes × J)) (h : lookup k fs = some w) :
    (setField k v fs).map (·.1) = fs.map (·.1) := by
  induction fs with
  | nil => simp [lookup] at h
  | cons p t ih =>
    obtain ⟨k1, v1⟩ := p
    simp only [setField]
    split
    · rename_i he
      subst he
      simp
    · rename_i hne
      simp only [lookup, hne, if_false] at h
      simp only [List.map_cons, ih h]

theorem lookup_append_single (k k' : Bytes) (v : J) (fs : List (Bytes × J)) :
    lookup k (fs ++ [(k', v)]) =
      match lookup k fs with
      | some x => some x
      | none => if k' = k then some v else none := by
  induction fs with
  | nil => simp [lookup]
  | cons p t ih =>
    obtain ⟨k1, v1⟩ := p
    simp only [List.cons_append, lookup]
    split
    · rfl
    · exact ih

theorem addMissing_lookup' (hs : List (Bytes × Bytes)) (fields : List (Bytes × J)) (k : Bytes) :
    lookup k (addMissing hs fields) =
      match lookup k fields with
      | some v => some v
      | none => (hs.find? (fun kv => kv.1 = k)).map (fun kv => J.str kv.2) := by
  induction hs generalizing fields with
  | nil => simp only [addMissing, List.foldl_nil, List.find?_nil, Option.map_none]; split <;> simp_all
  | cons p t ih =>
    obtain ⟨k1, v1⟩ := p
    have hunf : addMissing ((k1, v1) :: t) fields =
        addMissing t (match lookup k1 fields with
          | some _ => fields | none => fields ++ [(k1, J.str v1)]) := by
      rfl
    rw [hunf, ih]
    cases h1 : lookup k1 fields with
    | some x =>
      simp only
      cases hk : lookup k fields with
      | some y => rfl
      | none =>
        simp only
        have hne : ¬ k1 = k := by
          intro e; subst e; rw [h1] at hk; contradiction
        simp [hne]
    | none =>
      simp only
      rw [lookup_append_single]
      cases hk : lookup k fields with
      | some y => rfl
      | none =>
        simp only
        by_cases he : k1 = k
        · simp [he]
        · simp [he]

theorem inject_isSome_iff (hs : List (Bytes × Bytes)) (v : J) :
    (inject hs v).isSome ↔ ∃ top res hdrs, v = .obj top ∧
      lookup resourceKey top = some (.obj res) ∧ lookup headersKey res = some (.obj hdrs) := by
  constructor
  · intro h
    unfold inject at h
    split at h
    · rename_i top
      split at h
      · rename_i res hres
        split at h
        · rename_i hdrs hh
          exact ⟨top, res, hdrs, rfl, hres, hh⟩
        · simp at h
      · simp at h
    · simp at h
  · rintro ⟨top, res, hdrs, rfl, h1, h2⟩
    simp [inject, h1, h2]

theorem inject_frame' (hs : List (Bytes × Bytes)) (top res hdrs : List (Bytes × J))
    (h1 : lookup resourceKey top = some (.obj res)) (h2 : lookup headersKey res = some (.obj hdrs)) :
    ∃ top' res', inject hs (.obj top) = some (.obj top') ∧
      lookup resourceKey top' = some (.obj res') ∧
      lookup headersKey res' = some (.obj (addMissing hs hdrs)) ∧
      (∀ k, k ≠ resourceKey → lookup k top' = lookup k top) ∧
      (∀ k, k ≠ headersKey → lookup k res' = lookup k res) ∧
      top'.map (·.1) = top.map (·.1) ∧ res'.map (·.1) = res.map (·.1) := by
  refine ⟨setField resourceKey (.obj (setField headersKey (.obj (addMissing hs hdrs)) res)) top,
    setField headersKey (.obj (addMissing hs hdrs)) res, ?_, ?_, ?_, ?_, ?_, ?_, ?_⟩
  · simp [inject, h1, h2]
  · exact lookup_setField_same _ _ _
  · exact lookup_setField_same _ _ _
  · intro k hk; exact lookup_setField_other _ _ _ _ hk
  · intro k hk; exact lookup_setField_other _ _ _ _ hk
  · exact setField_keys _ _ _ _ h1
  · exact setField_keys _ _ _ _ h2

end InvProxy.WsCodec
