/-
  Proofs/Bridge: helper lemmas for C15 (hex round trip, fill/pending invariants).
-/
import InvProxy.Model.Bridge
namespace InvProxy.Bridge
open InvProxy

def byteOK (b : UInt8) : Bool :=
  unhex (hexDigit (b >>> 4)) == some (b >>> 4) &&
  unhex (hexDigit (b &&& 15)) == some (b &&& 15) &&
  ((b >>> 4) <<< 4 ||| (b &&& 15)) == b

theorem byteOK_nat : ∀ n, n < 256 → byteOK (UInt8.ofNat n) = true := by decide +kernel

theorem byteOK_all (b : UInt8) : byteOK b = true := by
  have h := byteOK_nat b.toNat b.toNat_lt
  simpa using h

theorem byte_roundtrip (b : UInt8) :
    unhex (hexDigit (b >>> 4)) = some (b >>> 4) ∧
    unhex (hexDigit (b &&& 15)) = some (b &&& 15) ∧
    ((b >>> 4) <<< 4 ||| (b &&& 15)) = b := by
  have h := byteOK_all b
  simpa [byteOK, and_assoc] using h

theorem hexDec_hexEnc (bs : Bytes) : hexDec (hexEnc bs) = some bs := by
  induction bs with
  | nil => rfl
  | cons b t ih =>
    obtain ⟨h1, h2, h3⟩ := byte_roundtrip b
    simp only [hexEnc, hexDec, h1, h2, ih, h3]


def isLowerHex (c : UInt8) : Bool := (48 ≤ c && c ≤ 57) || (97 ≤ c && c ≤ 102)

def byteLower (b : UInt8) : Bool := isLowerHex (hexDigit (b >>> 4)) && isLowerHex (hexDigit (b &&& 15))

theorem byteLower_nat : ∀ n, n < 256 → byteLower (UInt8.ofNat n) = true := by decide +kernel

theorem byteLower_all (b : UInt8) : byteLower b = true := by
  have h := byteLower_nat b.toNat b.toNat_lt
  simpa using h

theorem hexEnc_lower (bs : Bytes) : ∀ c ∈ hexEnc bs, isLowerHex c = true := by
  induction bs with
  | nil => simp [hexEnc]
  | cons b t ih =>
    have h := byteLower_all b
    simp only [byteLower, Bool.and_eq_true] at h
    intro c hc
    simp only [hexEnc, List.mem_cons] at hc
    rcases hc with rfl | rfl | hc
    · exact h.1
    · exact h.2
    · exact ih c hc

theorem hexEnc_append (a b : Bytes) : hexEnc (a ++ b) = hexEnc a ++ hexEnc b := by
  induction a with
  | nil => rfl
  | cons x t ih => simp [hexEnc, ih]

theorem hexEnc_length (bs : Bytes) : (hexEnc bs).length = 2 * bs.length := by
  induction bs with
  | nil => rfl
  | cons x t ih => simp [hexEnc, ih]; omega


/-! ### pending / fill -/

theorem pending_eq_map (buf : Bytes) (t : List Msg) :
    pending buf t = (pending [] t).map (buf ++ ·) := by
  induction t generalizing buf with
  | nil => simp [pending]
  | cons m t ih =>
    cases m with
    | other p => simp only [pending]; exact ih buf
    | text p =>
      simp only [pending]
      cases hexDec p <;> cases pending [] t <;> simp [List.append_assoc]

/-- main invariant of the `fill` loop -/
theorem fill_spec (buf : Bytes) (inbox : List Msg) (rest : Bytes)
    (hp : pending buf inbox = some rest) :
    (fill buf inbox = some none ∧ rest = []) ∨
    ∃ b' i', fill buf inbox = some (some (b', i')) ∧ b' ≠ [] ∧ pending b' i' = some rest := by
  induction inbox generalizing buf rest with
  | nil =>
    cases buf with
    | nil => left; simp [pending] at hp; simp [fill, hp]
    | cons b bs => right; exact ⟨b :: bs, [], by simp [fill], by simp, hp⟩
  | cons m t ih =>
    cases buf with
    | cons b bs => right; exact ⟨b :: bs, m :: t, by simp [fill], by simp, hp⟩
    | nil =>
      cases m with
      | other p =>
        simp only [pending] at hp
        simp only [fill]
        exact ih [] rest hp
      | text p =>
        simp only [pending] at hp
        simp only [fill]
        cases hd : hexDec p with
        | none => simp [hd] at hp
        | some raw =>
          cases hr : pending [] t with
          | none => simp [hd, hr] at hp
          | some rest' =>
            simp [hd, hr] at hp
            apply ih raw rest
            rw [pending_eq_map, hr]
            simp [hp]

theorem read_preserves (n : Nat) (r r' : Reader) (bs rest : Bytes)
    (hp : pending r.buffered r.inbox = some rest) (h : read n r = .data bs r') :
    ∃ rest', pending r'.buffered r'.inbox = some rest' ∧ rest = bs ++ rest' := by
  rcases fill_spec _ _ _ hp with ⟨hf, _⟩ | ⟨b', i', hf, _, hp'⟩
  · simp [read, hf] at h
  · simp only [read, hf] at h
    injection h with h1 h2
    subst h1; subst h2
    simp only
    rw [pending_eq_map] at hp' ⊢
    cases hq : pending [] i' with
    | none => simp [hq] at hp'
    | some q =>
      simp [hq] at hp' ⊢
      rw [← hp', ← List.append_assoc, List.take_append_drop]

theorem read_prog (n : Nat) (hn : 0 < n) (r : Reader) (rest : Bytes)
    (hp : pending r.buffered r.inbox = some rest) (hne : rest ≠ []) :
    ∃ bs r', read n r = .data bs r' ∧ bs ≠ [] := by
  rcases fill_spec _ _ _ hp with ⟨_, he⟩ | ⟨b', i', hf, hb, _⟩
  · exact absurd he hne
  · refine ⟨_, _, by simp only [read, hf]; rfl, ?_⟩
    cases b' with
    | nil => exact absurd rfl hb
    | cons x xs =>
      cases n with
      | zero => omega
      | succ k => simp

theorem read_empty (n : Nat) (r : Reader)
    (hp : pending r.buffered r.inbox = some []) : read n r = .block := by
  rcases fill_spec _ _ _ hp with ⟨hf, _⟩ | ⟨b', i', hf, hb, hp'⟩
  · simp [read, hf]
  · rw [pending_eq_map] at hp'
    cases hq : pending [] i' with
    | none => simp [hq] at hp'
    | some q => simp [hq] at hp'; exact absurd hp'.1 hb

theorem reads_prefix (ns : List Nat) (r : Reader) (rest : Bytes)
    (hp : pending r.buffered r.inbox = some rest) : reads ns r <+: rest := by
  induction ns generalizing r rest with
  | nil => simp [reads]
  | cons n ns ih =>
    simp only [reads]
    cases h : read n r with
    | block => simp
    | err => simp
    | data bs r' =>
      obtain ⟨rest', hp', he⟩ := read_preserves n r r' bs rest hp h
      subst he
      simp only
      exact (List.prefix_append_right_inj bs).2 (ih r' rest' hp')

theorem reads_complete (ns : List Nat) (r : Reader) (rest : Bytes)
    (hp : pending r.buffered r.inbox = some rest) (hpos : ∀ n ∈ ns, 0 < n)
    (hlen : rest.length ≤ ns.length) : reads ns r = rest := by
  induction ns generalizing r rest with
  | nil =>
    simp at hlen; simp [reads, hlen]
  | cons n ns ih =>
    simp only [reads]
    by_cases hne : rest = []
    · subst hne
      rw [read_empty n r hp]
    · obtain ⟨bs, r', h, hbs⟩ := read_prog n (hpos n (by simp)) r rest hp hne
      obtain ⟨rest', hp', he⟩ := read_preserves n r r' bs rest hp h
      subst he
      rw [h]
      simp only
      congr 1
      apply ih r' rest' hp' (fun m hm => hpos m (by simp [hm]))
      have : 0 < bs.length := List.length_pos_iff.2 hbs
      simp at hlen
      omega

theorem pending_writes (ws : List Bytes) :
    pending [] (ws.map write) = some ws.flatten := by
  induction ws with
  | nil => rfl
  | cons w ws ih =>
    simp [write, pending, hexDec_hexEnc, ih]

/-! ### non-text messages -/

theorem fill_filter (buf : Bytes) (inbox : List Msg) :
    fill buf (inbox.filter isText) =
      (fill buf inbox).map (Option.map (fun p => (p.1, p.2.filter isText))) := by
  induction inbox generalizing buf with
  | nil => cases buf <;> simp [fill]
  | cons m t ih =>
    cases buf with
    | cons b bs => simp [fill]
    | nil =>
      cases m with
      | other p => simp only [List.filter, isText, fill]; exact ih []
      | text p =>
        simp only [List.filter, isText, fill]
        cases hexDec p with
        | none => simp
        | some raw => simp only; exact ih raw

theorem reads_filter (ns : List Nat) (buf : Bytes) (inbox : List Msg) :
    reads ns { buffered := buf, inbox := inbox } =
      reads ns { buffered := buf, inbox := inbox.filter isText } := by
  induction ns generalizing buf inbox with
  | nil => rfl
  | cons n ns ih =>
    simp only [reads, read, fill_filter]
    cases hf : fill buf inbox with
    | none => simp
    | some o =>
      cases o with
      | none => simp
      | some p =>
        obtain ⟨b', i'⟩ := p
        simp only [Option.map]
        congr 1
        exact ih _ _

end InvProxy.Bridge
