/-
  Proofs/Seeker: helper lemmas for C06 (replay buffer invariant).
-/
import InvProxy.Model.Seeker
namespace InvProxy.Seeker
open InvProxy

theorem seek0_spec (s : St) :
    seek0 s = if s.cap ≤ s.buf.length then none else some { s with readHead := 0, sent := [] } := by
  unfold seek0 Gen.utils_Seek
  by_cases h : s.cap ≤ s.buf.length
  · have h1 : ((s.buf.length : Int) ≥ (s.cap : Int)) := by omega
    by_cases h0 : s.cap = 0 <;> simp [Id.run, h, h0, h1] <;> rfl
  · have h1 : ¬ ((s.buf.length : Int) ≥ (s.cap : Int)) := by omega
    have h0 : ¬ (s.cap = 0) := by omega
    simp [Id.run, h, h0, h1]
    rfl

theorem inv_init (cap : Nat) : Inv (init cap) := by
  constructor <;> simp [init]

theorem buf_le_hist {s : St} (h : Inv s) : s.buf.length ≤ s.hist.length := by
  have := congrArg List.length h.buf_prefix
  simp at this
  omega

/-- replaying, and the request is served from the buffer alone -/
theorem read_replay_full (s : St) (n : Nat) (d : Bytes)
    (h1 : s.readHead + n ≤ s.buf.length) :
    (read s n d).1 = { s with readHead := s.readHead + n,
                              sent := s.sent ++ (s.buf.drop s.readHead).take n } := by
  have hl : ((s.buf.drop s.readHead).take n).length = n := by
    simp; omega
  simp [read, hl]

/-- the buffer is exhausted by the request -/
theorem read_exhaust (s : St) (n : Nat) (d : Bytes)
    (h0 : s.readHead ≤ s.buf.length)
    (h1 : s.buf.length ≤ s.readHead + n) :
    (read s n d).1 =
      let d1 := d.take (n - (s.buf.length - s.readHead))
      let w := d1.take (s.cap - s.buf.length)
      { s with buf := s.buf ++ w, readHead := s.buf.length + w.length,
               hist := s.hist ++ d1, sent := s.sent ++ (s.buf.drop s.readHead ++ d1) } := by
  have hf : (s.buf.drop s.readHead).take n = s.buf.drop s.readHead := by
    apply List.take_of_length_le; simp; omega
  have hl : (s.buf.drop s.readHead).length = s.buf.length - s.readHead := by simp
  simp only [read, hf, hl]
  have : s.readHead + (s.buf.length - s.readHead) = s.buf.length := by omega
  simp [this]

theorem inv_read {s : St} (h : Inv s) (n : Nat) (d : Bytes) : Inv (read s n d).1 := by
  obtain ⟨hp, hrl, hbl, hnf, hrp, hse⟩ := h
  have hbh : s.buf.length ≤ s.hist.length := buf_le_hist ⟨hp, hrl, hbl, hnf, hrp, hse⟩
  by_cases h1 : s.readHead + n ≤ s.buf.length
  · rw [read_replay_full s n d h1]
    by_cases hn : n = 0
    · subst hn
      have : ({ s with readHead := s.readHead + 0,
                       sent := s.sent ++ (s.buf.drop s.readHead).take 0 } : St) = s := by
        cases s; simp
      rw [this]
      exact ⟨hp, hrl, hbl, hnf, hrp, hse⟩
    · have hlt : s.readHead < s.buf.length := by omega
      have hcap := hrp hlt
      have hbuf := hnf hcap
      constructor
      · exact hp
      · exact h1
      · exact hbl
      · exact hnf
      · intro _; exact hcap
      · simp only [hlt, if_true] at hse
        show s.sent ++ (s.buf.drop s.readHead).take n = _
        rw [hse, hbuf, ← List.take_add]
        split
        · rfl
        · apply List.take_of_length_le
          rw [hbuf] at h1
          simp only at *
          rw [hbuf] at *
          omega
  · have h1' : s.buf.length ≤ s.readHead + n := by omega
    rw [read_exhaust s n d hrl h1']
    generalize d.take (n - (s.buf.length - s.readHead)) = d1
    have hsent : s.sent ++ s.buf.drop s.readHead = s.hist := by
      by_cases hlt : s.readHead < s.buf.length
      · have hbuf := hnf (hrp hlt)
        simp only [hlt, if_true] at hse
        rw [hse, hbuf, List.take_append_drop]
      · have : s.buf.drop s.readHead = [] := by
          apply List.drop_of_length_le; omega
        simp only [hlt, if_false] at hse
        rw [this, hse, List.append_nil]
    by_cases hfull : s.buf.length < s.cap
    · have hbuf := hnf hfull
      have hlen : s.buf.length = s.hist.length := congrArg List.length hbuf
      constructor
      · show s.buf ++ d1.take _ = (s.hist ++ d1).take (s.buf ++ d1.take _).length
        rw [hbuf]
        simp [List.take_append]
        rw [List.take_of_length_le (l := s.hist) (by omega)]; congr 1; rw [← List.take_take]; simp
      · simp
      · simp; omega
      · intro hlt
        show s.buf ++ d1.take _ = s.hist ++ d1
        simp at hlt
        rw [hbuf, List.take_of_length_le (by omega)]
      · simp
      · show s.sent ++ (s.buf.drop s.readHead ++ d1) = _
        rw [← List.append_assoc, hsent]
        simp
    · have hc : s.cap - s.buf.length = 0 := by omega
      simp only [hc, List.take_zero, List.append_nil, List.length_nil, Nat.add_zero]
      constructor
      · show s.buf = (s.hist ++ d1).take s.buf.length
        rw [List.take_append_of_le_length hbh]
        exact hp
      · simp
      · exact hbl
      · intro h; exact absurd h hfull
      · simp
      · show s.sent ++ (s.buf.drop s.readHead ++ d1) = _
        rw [← List.append_assoc, hsent]
        simp

theorem inv_seek0 {s : St} (h : Inv s) : Inv ((seek0 s).getD s) := by
  rw [seek0_spec]
  split
  · exact h
  · rename_i hc
    have hbuf := h.not_full (by omega)
    simp only [Option.getD_some]
    constructor
    · exact h.buf_prefix
    · simp
    · exact h.buf_le
    · exact h.not_full
    · intro _; show s.buf.length < s.cap; omega
    · show [] = if 0 < s.buf.length then s.hist.take 0 else s.hist
      split
      · simp
      · have : s.buf = [] := List.eq_nil_of_length_eq_zero (by omega)
        rw [← hbuf, this]

theorem inv_step {s : St} (h : Inv s) (op : Op) : Inv (step s op) := by
  cases op with
  | read n d => exact inv_read h n d
  | seek => exact inv_seek0 h

theorem inv_run {s : St} (h : Inv s) (ops : List Op) : Inv (run s ops) := by
  induction ops generalizing s with
  | nil => exact h
  | cons op ops ih => exact ih (inv_step h op)

theorem step_cap (s : St) (op : Op) : (step s op).cap = s.cap := by
  cases op with
  | read n d => rfl
  | seek =>
    show ((seek0 s).getD s).cap = s.cap
    rw [seek0_spec]; split <;> rfl

theorem run_cap (s : St) (ops : List Op) : (run s ops).cap = s.cap := by
  induction ops generalizing s with
  | nil => rfl
  | cons op ops ih => exact (ih (step s op)).trans (step_cap s op)

theorem inv_sent_prefix {s : St} (h : Inv s) : s.sent <+: s.hist := by
  rw [h.sent_eq]
  split
  · exact List.take_prefix _ _
  · exact List.prefix_refl _

theorem inv_sent_complete {s : St} (h : Inv s) (he : s.readHead = s.buf.length) :
    s.sent = s.hist := by
  rw [h.sent_eq, if_neg (by omega)]

theorem step_buf_mono (s : St) (op : Op) : s.buf.length ≤ (step s op).buf.length := by
  cases op with
  | read n d => simp [step, read]
  | seek =>
    simp only [step, seek0]
    split <;> simp

theorem step_hist_prefix (s : St) (op : Op) : s.hist <+: (step s op).hist := by
  cases op with
  | read n d => simp [step, read]
  | seek =>
    simp only [step, seek0]
    split <;> simp

theorem run_buf_mono (s : St) (ops : List Op) : s.buf.length ≤ (run s ops).buf.length := by
  induction ops generalizing s with
  | nil => exact Nat.le_refl _
  | cons op t ih => simp only [run, List.foldl_cons] at ih ⊢; exact Nat.le_trans (step_buf_mono s op) (ih _)

theorem run_hist_prefix (s : St) (ops : List Op) : s.hist <+: (run s ops).hist := by
  induction ops generalizing s with
  | nil => exact List.prefix_refl _
  | cons op t ih => simp only [run, List.foldl_cons] at ih ⊢; exact List.IsPrefix.trans (step_hist_prefix s op) (ih _)

end InvProxy.Seeker
