/-
  Proofs/ShimLife (C12): the inductive invariant of the good variant of the shim
  life-cycle model, and the arithmetic of the progress measure.
-/
import InvProxy.Model.ShimLife
namespace InvProxy.ShimLife
open InvProxy

/-- per-call invariant of the good variant -/
def okPc : Pc → Prop
  | .dataCheck n => 1 ≤ n
  | .dataSend n => 1 ≤ n
  | .closeChan => False
  | .panicked => False
  | .answered st => st = 200 ∨ st = 400 ∨ st = 408
  | _ => True

structure Inv (c : Nat) (s : St) : Prop where
  cqc : s.cqClosed = false
  calls : ∀ pc ∈ s.calls, okPc pc
  wd : s.writer = false → s.done = true
  cap : s.cap = c
  rq : s.sqClosed = true → s.reader = false

theorem inv_init (c : Nat) : Inv c (init c) := by
  constructor <;> simp [init]

theorem ok_set {l : List Pc} (h : ∀ pc ∈ l, okPc pc) (i : Nat) {new : Pc} (hn : okPc new) :
    ∀ pc ∈ l.set i new, okPc pc := by
  intro pc hpc
  rcases List.mem_or_eq_of_mem_set hpc with h1 | h1
  · exact h pc h1
  · exact h1 ▸ hn

theorem ok_append {l : List Pc} (h : ∀ pc ∈ l, okPc pc) {new : Pc} (hn : okPc new) :
    ∀ pc ∈ l ++ [new], okPc pc := by
  intro pc hpc
  rcases List.mem_append.mp hpc with h1 | h1
  · exact h pc h1
  · simp at h1; exact h1 ▸ hn

theorem ok_nextData (n : Nat) : okPc (nextData n) := by
  unfold nextData; split <;> simp [okPc]

/-- a state that agrees with `s` on the fields the invariant mentions, with one call replaced -/
theorem inv_upd {c : Nat} {s s' : St} (h : Inv c s) (i : Nat) (new : Pc) (hn : okPc new)
    (h1 : s'.cqClosed = s.cqClosed) (h2 : s'.calls = s.calls.set i new) (h3 : s'.writer = s.writer)
    (h4 : s'.done = s.done) (h5 : s'.cap = s.cap) (h6 : s'.sqClosed = s.sqClosed) (h7 : s'.reader = s.reader) :
    Inv c s' := by
  constructor
  · rw [h1]; exact h.cqc
  · rw [h2]; exact ok_set h.calls i hn
  · rw [h3, h4]; exact h.wd
  · rw [h5]; exact h.cap
  · rw [h6, h7]; exact h.rq

theorem inv_callStep {c : Nat} {s s' : St} {i : Nat} (h : Inv c s) (hs : callStep good s i = some s') :
    Inv c s' := by
  unfold callStep at hs
  split at hs
  · simp at hs
  · next pc hpc =>
    have hok : okPc pc := h.calls pc (List.mem_of_getElem? hpc)
    have hcq := h.cqc
    cases pc with
    | dataLoad n =>
      simp only at hs
      split at hs
      · injection hs with hs; subst hs; exact inv_upd h i _ (by simp [okPc]) rfl rfl rfl rfl rfl rfl rfl
      · split at hs
        · injection hs with hs; subst hs; exact inv_upd h i _ (by simp [okPc]) rfl rfl rfl rfl rfl rfl rfl
        · injection hs with hs; subst hs
          exact inv_upd h i _ (by simp [okPc]; omega) rfl rfl rfl rfl rfl rfl rfl
    | dataCheck n =>
      simp only at hs
      split at hs
      · injection hs with hs; subst hs; exact inv_upd h i _ (by simp [okPc]) rfl rfl rfl rfl rfl rfl rfl
      · injection hs with hs; subst hs; exact inv_upd h i _ (by simpa [okPc] using hok) rfl rfl rfl rfl rfl rfl rfl
    | dataSend n =>
      simp only [good] at hs
      split at hs
      · next hc => rw [hcq] at hc; simp at hc
      · split at hs
        · injection hs with hs; subst hs; exact inv_upd h i _ (ok_nextData n) rfl rfl rfl rfl rfl rfl rfl
        · split at hs
          · injection hs with hs; subst hs; exact inv_upd h i _ (by simp [okPc]) rfl rfl rfl rfl rfl rfl rfl
          · simp at hs
    | closeLoad =>
      simp only at hs
      split at hs
      · injection hs with hs; subst hs; exact inv_upd h i _ (by simp [okPc]) rfl rfl rfl rfl rfl rfl rfl
      · injection hs with hs; subst hs; exact inv_upd h i _ (by simp [okPc]) rfl rfl rfl rfl rfl rfl rfl
    | closeDelete =>
      simp only at hs
      injection hs with hs; subst hs; exact inv_upd h i _ (by simp [okPc]) rfl rfl rfl rfl rfl rfl rfl
    | closeSend =>
      simp only [good] at hs
      split at hs
      · injection hs with hs; subst hs; exact inv_upd h i _ (by simp [okPc]) rfl rfl rfl rfl rfl rfl rfl
      · split at hs
        · injection hs with hs; subst hs; exact inv_upd h i _ (by simp [okPc]) rfl rfl rfl rfl rfl rfl rfl
        · simp at hs
    | closeChan => exact absurd hok (by simp [okPc])
    | pollLoad =>
      simp only at hs
      split at hs
      · injection hs with hs; subst hs; exact inv_upd h i _ (by simp [okPc]) rfl rfl rfl rfl rfl rfl rfl
      · injection hs with hs; subst hs; exact inv_upd h i _ (by simp [okPc]) rfl rfl rfl rfl rfl rfl rfl
    | pollWait =>
      simp only at hs
      split at hs
      · injection hs with hs; subst hs; exact inv_upd h i _ (by simp [okPc]) rfl rfl rfl rfl rfl rfl rfl
      · split at hs
        · injection hs with hs; subst hs; exact inv_upd h i _ (by simp [okPc]) rfl rfl rfl rfl rfl rfl rfl
        · simp at hs
    | answered st => simp at hs
    | panicked => simp at hs

theorem inv_step {c : Nat} {s s' : St} {a : Act} (h : Inv c s) (hs : step good s a = some s') :
    Inv c s' := by
  cases a with
  | startData n =>
    simp only [step, Option.some.injEq] at hs; subst hs
    exact ⟨h.cqc, ok_append h.calls (by simp [okPc]), h.wd, h.cap, h.rq⟩
  | startClose =>
    simp only [step, Option.some.injEq] at hs; subst hs
    exact ⟨h.cqc, ok_append h.calls (by simp [okPc]), h.wd, h.cap, h.rq⟩
  | startPoll =>
    simp only [step, Option.some.injEq] at hs; subst hs
    exact ⟨h.cqc, ok_append h.calls (by simp [okPc]), h.wd, h.cap, h.rq⟩
  | backendSend =>
    simp only [step] at hs
    split at hs
    · injection hs with hs; subst hs; exact ⟨h.cqc, h.calls, h.wd, h.cap, h.rq⟩
    · simp at hs
  | backendClose =>
    simp only [step] at hs
    split at hs
    · injection hs with hs; subst hs; exact ⟨h.cqc, h.calls, h.wd, h.cap, h.rq⟩
    · simp at hs
  | call i => exact inv_callStep h hs
  | pollTimeout i =>
    simp only [step] at hs
    split at hs
    · injection hs with hs; subst hs; exact inv_upd h i _ (by simp [okPc]) rfl rfl rfl rfl rfl rfl rfl
    · simp at hs
  | writerStep =>
    simp only [step] at hs
    split at hs
    · simp at hs
    · split at hs
      · next hd => injection hs with hs; subst hs; exact ⟨h.cqc, h.calls, fun _ => hd, h.cap, h.rq⟩
      · split at hs
        · simp [h.cqc] at hs
        · split at hs
          · injection hs with hs; subst hs; exact ⟨h.cqc, h.calls, fun _ => rfl, h.cap, h.rq⟩
          · injection hs with hs; subst hs; exact ⟨h.cqc, h.calls, h.wd, h.cap, h.rq⟩
  | writerFail =>
    simp only [step] at hs
    split at hs
    · injection hs with hs; subst hs; exact ⟨h.cqc, h.calls, fun _ => rfl, h.cap, h.rq⟩
    · simp at hs
  | readerStep =>
    simp only [step] at hs
    split at hs
    · simp at hs
    · split at hs
      · injection hs with hs; subst hs; exact ⟨h.cqc, h.calls, h.wd, h.cap, fun _ => rfl⟩
      · split at hs
        · split at hs
          · injection hs with hs; subst hs; exact ⟨h.cqc, h.calls, h.wd, h.cap, h.rq⟩
          · simp at hs
        · split at hs
          · injection hs with hs; subst hs; exact ⟨h.cqc, h.calls, fun _ => rfl, h.cap, fun _ => rfl⟩
          · simp at hs
  | closerStep =>
    simp only [step] at hs
    split at hs
    · injection hs with hs; subst hs; exact ⟨h.cqc, h.calls, h.wd, h.cap, h.rq⟩
    · simp at hs

theorem inv_run {c : Nat} {acts : List Act} {s s' : St} (h : Inv c s) (hr : run good s acts = some s') :
    Inv c s' := by
  induction acts generalizing s with
  | nil => simp only [run, Option.some.injEq] at hr; exact hr ▸ h
  | cons a as ih =>
    simp only [run] at hr
    split at hr
    · simp at hr
    · next s1 h1 => exact ih (inv_step h h1) hr

theorem inv_reachable {c : Nat} {s : St} (h : Reachable good c s) : Inv c s := by
  obtain ⟨acts, hr⟩ := h
  exact inv_run (inv_init c) hr

/-! ### the measure -/

theorem sum_map_set (l : List Pc) (i : Nat) (old new : Pc) (h : l[i]? = some old) :
    ((l.set i new).map Pc.weight).sum + old.weight = (l.map Pc.weight).sum + new.weight := by
  induction l generalizing i with
  | nil => simp at h
  | cons x xs ih =>
    cases i with
    | zero =>
      simp at h; subst h
      simp only [List.set, List.map, List.sum_cons]; omega
    | succ j =>
      simp at h
      have := ih j h
      simp only [List.set, List.map, List.sum_cons]; omega

theorem mu_upd {s s' : St} {i : Nat} {old new : Pc} (hpc : s.calls[i]? = some old)
    (h2 : s'.calls = s.calls.set i new)
    (hw : new.weight + s'.cq.length + 2 * s'.incoming + s'.sq <
          old.weight + s.cq.length + 2 * s.incoming + s.sq)
    (h3 : s'.writer = s.writer) (h4 : s'.reader = s.reader) (h5 : s'.backendOpen = s.backendOpen) :
    mu s' < mu s := by
  have := sum_map_set s.calls i old new hpc
  unfold mu
  rw [h2, h3, h4, h5]
  omega

theorem mu_callStep {c : Nat} {s s' : St} {i : Nat} (h : Inv c s) (hs : callStep good s i = some s') :
    mu s' < mu s := by
  unfold callStep at hs
  split at hs
  · simp at hs
  · next pc hpc =>
    have hok : okPc pc := h.calls pc (List.mem_of_getElem? hpc)
    have hcq := h.cqc
    cases pc with
    | dataLoad n =>
      simp only at hs
      split at hs
      · injection hs with hs; subst hs
        exact mu_upd hpc rfl (by simp [Pc.weight, setCall]) rfl rfl rfl
      · split at hs
        · injection hs with hs; subst hs
          exact mu_upd hpc rfl (by simp [Pc.weight, setCall]) rfl rfl rfl
        · injection hs with hs; subst hs
          exact mu_upd hpc rfl (by simp [Pc.weight, setCall]) rfl rfl rfl
    | dataCheck n =>
      have hn : 1 ≤ n := by simpa [okPc] using hok
      simp only at hs
      split at hs
      · injection hs with hs; subst hs
        exact mu_upd hpc rfl (by simp [Pc.weight, setCall]; omega) rfl rfl rfl
      · injection hs with hs; subst hs
        exact mu_upd hpc rfl (by simp [Pc.weight, setCall]; omega) rfl rfl rfl
    | dataSend n =>
      have hn : 1 ≤ n := by simpa [okPc] using hok
      simp only [good] at hs
      split at hs
      · next hc => rw [hcq] at hc; simp at hc
      · split at hs
        · injection hs with hs; subst hs
          refine mu_upd hpc rfl ?_ rfl rfl rfl
          unfold nextData
          split <;> simp [Pc.weight, setCall] <;> omega
        · split at hs
          · injection hs with hs; subst hs
            exact mu_upd hpc rfl (by simp [Pc.weight, setCall]; omega) rfl rfl rfl
          · simp at hs
    | closeLoad =>
      simp only at hs
      split at hs
      · injection hs with hs; subst hs
        exact mu_upd hpc rfl (by simp [Pc.weight, setCall]) rfl rfl rfl
      · injection hs with hs; subst hs
        exact mu_upd hpc rfl (by simp [Pc.weight, setCall]) rfl rfl rfl
    | closeDelete =>
      simp only at hs
      injection hs with hs; subst hs
      exact mu_upd hpc rfl (by simp [Pc.weight, setCall]) rfl rfl rfl
    | closeSend =>
      simp only [good] at hs
      split at hs
      · injection hs with hs; subst hs
        exact mu_upd hpc rfl (by simp [Pc.weight, setCall]; omega) rfl rfl rfl
      · split at hs
        · injection hs with hs; subst hs
          exact mu_upd hpc rfl (by simp [Pc.weight, setCall]) rfl rfl rfl
        · simp at hs
    | closeChan => exact absurd hok (by simp [okPc])
    | pollLoad =>
      simp only at hs
      split at hs
      · injection hs with hs; subst hs
        exact mu_upd hpc rfl (by simp [Pc.weight, setCall]) rfl rfl rfl
      · injection hs with hs; subst hs
        exact mu_upd hpc rfl (by simp [Pc.weight, setCall]) rfl rfl rfl
    | pollWait =>
      simp only at hs
      split at hs
      · injection hs with hs; subst hs
        exact mu_upd hpc rfl (by simp [Pc.weight, setCall]; omega) rfl rfl rfl
      · split at hs
        · injection hs with hs; subst hs
          exact mu_upd hpc rfl (by simp [Pc.weight, setCall]) rfl rfl rfl
        · simp at hs
    | answered st => simp at hs
    | panicked => simp at hs

theorem mu_step {c : Nat} {s s' : St} {a : Act} (h : Inv c s) (hi : a.internal = true)
    (hs : step good s a = some s') : mu s' < mu s := by
  cases a with
  | startData n => simp [Act.internal] at hi
  | startClose => simp [Act.internal] at hi
  | startPoll => simp [Act.internal] at hi
  | backendSend => simp [Act.internal] at hi
  | backendClose => simp [Act.internal] at hi
  | call i => exact mu_callStep h hs
  | pollTimeout i =>
    simp only [step] at hs
    split at hs
    · next hpc =>
      injection hs with hs; subst hs
      exact mu_upd hpc rfl (by simp [Pc.weight, setCall]) rfl rfl rfl
    · simp at hs
  | writerStep =>
    simp only [step] at hs
    split at hs
    · simp at hs
    · next hw =>
      have hw' : s.writer = true := by simpa using hw
      split at hs
      · injection hs with hs; subst hs; simp [mu, hw']
      · split at hs
        · simp [h.cqc] at hs
        · next m t hcq =>
          split at hs
          · injection hs with hs; subst hs; simp [mu, hw', hcq]; omega
          · injection hs with hs; subst hs; simp [mu, hcq]
  | writerFail =>
    simp only [step] at hs
    split at hs
    · next hw =>
      have hw' : s.writer = true := by simp at hw; exact hw.1
      injection hs with hs; subst hs; simp [mu, hw']
    · simp at hs
  | readerStep =>
    simp only [step] at hs
    split at hs
    · simp at hs
    · next hr =>
      have hr' : s.reader = true := by simpa using hr
      split at hs
      · injection hs with hs; subst hs; simp [mu, hr']
      · split at hs
        · next hinc =>
          split at hs
          · injection hs with hs; subst hs; simp [mu]; omega
          · simp at hs
        · split at hs
          · injection hs with hs; subst hs; simp [mu, hr']
          · simp at hs
  | closerStep =>
    simp only [step] at hs
    split at hs
    · next hb =>
      have hb' : s.backendOpen = true := by simp at hb; exact hb.2
      injection hs with hs; subst hs; simp [mu, hb']
    · simp at hs

/-! ### enabledness -/

theorem enabled_of_isSome {s : St} {a : Act} (hi : a.internal = true) (h : (step good s a).isSome = true) :
    ∃ a s', a.internal = true ∧ step good s a = some s' := by
  obtain ⟨s', hs'⟩ := Option.isSome_iff_exists.mp h
  exact ⟨a, s', hi, hs'⟩

/-- the send is blocked (queue full, not done): the writer is alive and can dequeue -/
theorem writer_enabled {c : Nat} {s : St} (h : Inv c s) (hc : 0 < c) (hfull : ¬ s.cq.length < s.cap)
    (hd : ¬ s.done = true) : (step good s .writerStep).isSome = true := by
  have hw : s.writer = true := by
    cases hw : s.writer with
    | true => rfl
    | false => exact absurd (h.wd hw) hd
  have hcap := h.cap
  cases hq : s.cq with
  | nil => rw [hq] at hfull; simp at hfull; omega
  | cons m t =>
    simp only [step, hw, hq]
    simp [hd]
    split <;> simp

theorem enabled {c : Nat} {s : St} (h : Inv c s) (hc : 0 < c) {i : Nat} {pc : Pc}
    (hi : s.calls[i]? = some pc) (hna : ∀ st, pc ≠ .answered st) :
    ∃ a s', a.internal = true ∧ step good s a = some s' := by
  have hok : okPc pc := h.calls pc (List.mem_of_getElem? hi)
  have hcq := h.cqc
  cases pc with
  | dataLoad n =>
    refine enabled_of_isSome (a := .call i) rfl ?_
    simp only [step, callStep, hi]
    split
    · rfl
    · split <;> rfl
  | dataCheck n =>
    refine enabled_of_isSome (a := .call i) rfl ?_
    simp only [step, callStep, hi]
    split <;> rfl
  | dataSend n =>
    by_cases hfull : s.cq.length < s.cap
    · refine enabled_of_isSome (a := .call i) rfl ?_
      simp [step, callStep, hi, good, hcq, hfull]
    · by_cases hd : s.done = true
      · refine enabled_of_isSome (a := .call i) rfl ?_
        simp [step, callStep, hi, good, hcq, hfull, hd]
      · exact enabled_of_isSome (a := .writerStep) rfl (writer_enabled h hc hfull hd)
  | closeLoad =>
    refine enabled_of_isSome (a := .call i) rfl ?_
    simp only [step, callStep, hi]
    split <;> rfl
  | closeDelete =>
    refine enabled_of_isSome (a := .call i) rfl ?_
    simp only [step, callStep, hi]
    rfl
  | closeSend =>
    by_cases hfull : s.cq.length < s.cap
    · refine enabled_of_isSome (a := .call i) rfl ?_
      simp [step, callStep, hi, good, hfull]
    · by_cases hd : s.done = true
      · refine enabled_of_isSome (a := .call i) rfl ?_
        simp [step, callStep, hi, good, hfull, hd]
      · exact enabled_of_isSome (a := .writerStep) rfl (writer_enabled h hc hfull hd)
  | closeChan => exact absurd hok (by simp [okPc])
  | pollLoad =>
    refine enabled_of_isSome (a := .call i) rfl ?_
    simp only [step, callStep, hi]
    split <;> rfl
  | pollWait =>
    refine enabled_of_isSome (a := .pollTimeout i) rfl ?_
    simp [step, hi]
  | answered st => exact absurd rfl (hna st)
  | panicked => exact absurd hok (by simp [okPc])

theorem callStep_400 (v : Variant) (s : St) (i : Nat) (pc : Pc) (hi : s.calls[i]? = some pc)
    (hl : pc = .closeLoad ∨ pc = .pollLoad ∨ ∃ n, n > 0 ∧ pc = .dataLoad n) (ht : s.inTable = false) :
    ∃ s', callStep v s i = some s' ∧ s'.calls[i]? = some (.answered 400) := by
  have hlt : i < s.calls.length := by
    obtain ⟨hlt, _⟩ := List.getElem?_eq_some_iff.mp hi
    exact hlt
  refine ⟨setCall s i (.answered 400), ?_, ?_⟩
  · rcases hl with hl | hl | ⟨n, hn, hl⟩
    · subst hl; simp [callStep, hi, ht]
    · subst hl; simp [callStep, hi, ht]
    · subst hl
      have : n ≠ 0 := by omega
      simp [callStep, hi, ht, this]
  · simp [setCall, List.getElem?_set_self hlt]

/-- the part of `backend_close_drains` that is an invariant -/
theorem sqClosed_reader_exited {c : Nat} {s : St} (h : Reachable good c s) (hq : s.sqClosed = true) :
    s.reader = false := (inv_reachable h).rq hq

/-- `backend_close_drains` as stated is not an invariant: after a session close the reader
    exits through the `done` branch while the server connection is still open (the closer
    has not run yet), and the backend can still send. -/
theorem backend_close_drains_counterexample :
    (run good (init 1) [.startClose, .call 0, .call 0, .call 0, .writerStep, .readerStep, .backendSend]).map
      (fun s => (s.sqClosed, s.incoming, s.reader)) = some (true, 1, false) := by decide

/-- proposed repair of `backend_close_drains`: at the moment the reader closes
    `serverMessages`, everything the backend sent has been taken (in any variant, any state) -/
theorem reader_close_drained (v : Variant) (s s' : St) (hs : step v s .readerStep = some s')
    (h0 : s.sqClosed = false) (hq : s'.sqClosed = true) : s'.incoming = 0 ∧ s'.reader = false := by
  simp only [step] at hs
  split at hs
  · simp at hs
  · split at hs
    · next hd =>
      injection hs with hs; subst hs
      simp at hd; simp [hd.2]
    · split at hs
      · split at hs
        · injection hs with hs; subst hs; simp [h0] at hq
        · simp at hs
      · next hinc =>
        split at hs
        · injection hs with hs; subst hs
          simp at hinc; simp [hinc]
        · simp at hs

/-- hence the statement of `backend_close_drains` is refutable -/
theorem backend_close_drains_false :
    ¬ (∀ (cap : Nat) (s : St), Reachable good cap s → s.sqClosed = true → s.incoming = 0 ∧ s.reader = false) := by
  intro H
  have hex : ∃ s, run good (init 1)
      [.startClose, .call 0, .call 0, .call 0, .writerStep, .readerStep, .backendSend] = some s ∧
      s.sqClosed = true ∧ s.incoming = 1 := by decide
  obtain ⟨s, hr, hq, hinc⟩ := hex
  have := (H 1 s ⟨_, hr⟩ hq).1
  omega

end InvProxy.ShimLife
