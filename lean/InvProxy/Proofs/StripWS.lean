/-
  Proofs/StripWS (C09): helper lemmas for Props/C09 about `websockets_stripWSHeader`.
-/
import InvProxy.Base.GoTypes
import InvProxy.Gen.Consts
import InvProxy.Gen.Funcs
namespace InvProxy.StripWS
open InvProxy InvProxy.Gen

/-- one iteration of the `stripWSHeader` loop -/
def stripStep (acc : Hdr) (p : Bytes × List Bytes) : Hdr :=
  if (!websockets_stripHeaderNames.contains p.1) = true then Hdr.put acc p.1 p.2 else acc

theorem strip_loop (h : Hdr) (acc : Hdr) :
    (forIn (m := Id) h acc (fun x __s =>
        if (!websockets_stripHeaderNames.contains x.fst) = true then pure (ForInStep.yield (Hdr.put __s x.fst x.snd))
        else pure (ForInStep.yield __s))) = pure (h.foldl stripStep acc) := by
  induction h generalizing acc with
  | nil => rfl
  | cons p t ih =>
    simp only [List.forIn_cons, List.foldl_cons]
    by_cases hc : (!websockets_stripHeaderNames.contains p.1) = true
    · simp only [stripStep, hc, if_true]
      exact ih _
    · rw [show stripStep acc p = acc from if_neg hc, if_neg hc]
      exact ih _

theorem strip_eq_foldl (h : Hdr) : websockets_stripWSHeader h = h.foldl stripStep [] := by
  simp only [websockets_stripWSHeader, Id.run]
  rw [strip_loop]
  rfl

theorem foldl_values_sub (h : Hdr) (acc : Hdr) (k : Bytes) :
    Hdr.values (h.foldl stripStep acc) k = Hdr.values acc k ∨
      ∃ p ∈ h, p.1 = k ∧ Hdr.values (h.foldl stripStep acc) k = p.2 := by
  induction h generalizing acc with
  | nil => exact Or.inl rfl
  | cons q t ih =>
    simp only [List.foldl_cons]
    rcases ih (stripStep acc q) with h1 | ⟨p, hp, hk, hv⟩
    · by_cases hc : (!websockets_stripHeaderNames.contains q.1) = true
      · by_cases hq : q.1 = k
        · refine Or.inr ⟨q, List.mem_cons_self, hq, ?_⟩
          rw [h1]
          simp only [stripStep, hc, if_true]
          rw [hq]
          exact Hdr.values_put_self _ _ _
        · refine Or.inl ?_
          rw [h1]
          simp only [stripStep, hc, if_true]
          exact Hdr.values_put_ne _ _ _ _ (fun e => hq e.symm)
      · refine Or.inl ?_
        rw [h1, show stripStep acc q = acc from if_neg hc]
    · exact Or.inr ⟨p, List.mem_cons_of_mem _ hp, hk, hv⟩

theorem del_no_key (h : Hdr) (k : Bytes) : ∀ p ∈ Hdr.del h k, p.1 ≠ k := by
  induction h with
  | nil => intro p hp; simp [Hdr.del] at hp
  | cons q t ih =>
    obtain ⟨k', vs⟩ := q
    intro p hp
    by_cases hq : k' = k
    · simp only [Hdr.del, hq, if_true] at hp
      exact ih p hp
    · simp only [Hdr.del, hq, if_false] at hp
      rcases List.mem_cons.mp hp with rfl | hp
      · exact hq
      · exact ih p hp

end InvProxy.StripWS
