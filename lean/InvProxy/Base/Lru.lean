/-
  Base/Lru: `groupcache/lru.Cache` restricted to the way the repo uses it
  (`Get` then `Add` on a miss): a list of keys, most recently used first.
  `MaxEntries = 0` means "no limit" in groupcache.
-/
namespace InvProxy

namespace Lru

/-- `Get(x)` (moves to front on a hit) followed, on a miss, by `Add(x, _)` (push front,
    evict the oldest beyond the capacity): in both cases `x` ends up in front. -/
def touch [DecidableEq α] (cap : Nat) (l : List α) (x : α) : List α :=
  if cap = 0 then x :: l.erase x else (x :: l.erase x).take cap

/-- recency order of a history: distinct keys, most recent last-occurrence first -/
def recency [DecidableEq α] (h : List α) : List α := h.foldl (fun r x => x :: r.erase x) []

/-- keys in the cache after the history `h` -/
def after [DecidableEq α] (cap : Nat) (h : List α) : List α := h.foldl (touch cap) []

end Lru
end InvProxy
