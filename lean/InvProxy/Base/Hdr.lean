/-
  Base/Hdr: Go's `http.Header` (`map[string][]string`) as an association list without
  duplicate keys.  Key order is irrelevant (observations are taken per key); value order
  per key is what `Header.Values` returns.
-/
import InvProxy.Base.Bytes
namespace InvProxy

abbrev Hdr := List (Bytes × List Bytes)

namespace Hdr

/-- `h[k]` -/
def values (h : Hdr) (k : Bytes) : List Bytes :=
  match h with
  | [] => []
  | (k', vs) :: t => if k' = k then vs else values t k

/-- `h.Get(k)` for canonical `k`: first value or "". -/
def get (h : Hdr) (k : Bytes) : Bytes := ((values h k).head?).getD []

/-- `delete(h, k)` -/
def del (h : Hdr) (k : Bytes) : Hdr :=
  match h with
  | [] => []
  | (k', vs) :: t => if k' = k then del t k else (k', vs) :: del t k

/-- `h[k] = vs` -/
def put (h : Hdr) (k : Bytes) (vs : List Bytes) : Hdr := (k, vs) :: del h k

/-- `h.Set(k, v)` for canonical `k` -/
def set (h : Hdr) (k v : Bytes) : Hdr := put h k [v]

/-- `h.Add(k, v)` for canonical `k` -/
def add (h : Hdr) (k v : Bytes) : Hdr := put h k (values h k ++ [v])

def keys (h : Hdr) : List Bytes := h.map (·.1)

def has (h : Hdr) (k : Bytes) : Bool := (keys h).contains k

@[simp] theorem values_nil (k : Bytes) : values [] k = [] := rfl

theorem values_del_self (h : Hdr) (k : Bytes) : values (del h k) k = [] := by
  induction h with
  | nil => rfl
  | cons p t ih =>
    obtain ⟨k', vs⟩ := p
    by_cases hp : k' = k
    · simp [del, hp, ih]
    · simp [del, hp, values, ih]

theorem values_del_ne (h : Hdr) (k k' : Bytes) (hne : k' ≠ k) :
    values (del h k) k' = values h k' := by
  induction h with
  | nil => rfl
  | cons p t ih =>
    obtain ⟨k1, vs⟩ := p
    by_cases hp : k1 = k
    · subst hp
      have h1 : ¬ k1 = k' := fun e => hne e.symm
      simp [del, values, ih, h1]
    · by_cases hq : k1 = k'
      · subst hq
        simp [del, values, hp]
      · simp [del, hp, values, hq, ih]

@[simp] theorem values_put_self (h : Hdr) (k : Bytes) (vs : List Bytes) :
    values (put h k vs) k = vs := by simp [put, values]

theorem values_put_ne (h : Hdr) (k k' : Bytes) (vs : List Bytes) (hne : k' ≠ k) :
    values (put h k vs) k' = values h k' := by
  have : k ≠ k' := fun e => hne e.symm
  simp [put, values, this]; exact values_del_ne h k k' hne

@[simp] theorem values_set_self (h : Hdr) (k v : Bytes) : values (set h k v) k = [v] := by
  simp [set]

theorem values_set_ne (h : Hdr) (k k' v : Bytes) (hne : k' ≠ k) :
    values (set h k v) k' = values h k' := values_put_ne h k k' [v] hne

@[simp] theorem values_add_self (h : Hdr) (k v : Bytes) :
    values (add h k v) k = values h k ++ [v] := by simp [add]

theorem values_add_ne (h : Hdr) (k k' v : Bytes) (hne : k' ≠ k) :
    values (add h k v) k' = values h k' := values_put_ne h k k' _ hne

end Hdr
end InvProxy
