/-
  Base/Skel: synchronisation skeletons (T3) and the facts derived from them.
  `goextract` emits one `Skel` term per tracked Go function; the facts below are computed
  in Lean from that term and closed by `decide` in the property files, so that a change to
  locking, channel use, goroutine structure or call order changes what the theorems see.
-/
namespace InvProxy

inductive Skel where
  | lock (m : String) | unlock (m : String)
  | send (c : String) | recv (c : String) | close (c : String)
  | select (cases : List (Skel × Skel)) (dflt : Option Skel)
  | go (body : Skel) | defer (body : Skel) | wait (wg : String)
  | call (f : String) | access (o : String) | makeChan (c : String) (cap : Nat)
  | ret | seq (ss : List Skel) | branch (alts : List Skel) | loop (body : Skel)
  deriving Repr

/-- Atomic events in source (pre-)order; `goStart`/`goEnd` bracket goroutine bodies. -/
inductive Ev where
  | lock (m : String) | unlock (m : String)
  | send (c : String) | recv (c : String) | close (c : String)
  | wait (wg : String) | call (f : String) | access (o : String)
  | makeChan (c : String) (cap : Nat) | ret | goStart | goEnd | deferStart | deferEnd
  | selStart | selEnd | dflt
  deriving DecidableEq, Repr

namespace Skel

mutual
def flat : Skel → List Ev
  | .lock m => [.lock m] | .unlock m => [.unlock m]
  | .send c => [.send c] | .recv c => [.recv c] | .close c => [.close c]
  | .select cs d => .selStart :: flatCases cs ++ (match d with | none => [] | some s => .dflt :: flat s) ++ [.selEnd]
  | .go b => .goStart :: flat b ++ [.goEnd]
  | .defer b => .deferStart :: flat b ++ [.deferEnd]
  | .wait w => [.wait w] | .call f => [.call f] | .access o => [.access o]
  | .makeChan c n => [.makeChan c n] | .ret => [.ret]
  | .seq ss => flatList ss | .branch as => flatList as | .loop b => flat b
def flatList : List Skel → List Ev
  | [] => [] | s :: t => flat s ++ flatList t
def flatCases : List (Skel × Skel) → List Ev
  | [] => [] | (c, b) :: t => flat c ++ flat b ++ flatCases t
end

def calls (f : String) (s : Skel) : Bool := (flat s).contains (.call f)
def sends (c : String) (s : Skel) : Bool := (flat s).contains (.send c)
def recvs (c : String) (s : Skel) : Bool := (flat s).contains (.recv c)
def closes (c : String) (s : Skel) : Bool := (flat s).contains (.close c)
def waits (w : String) (s : Skel) : Bool := (flat s).contains (.wait w)

def idxOf? (e : Ev) (l : List Ev) : Option Nat :=
  let i := l.idxOf e
  if i < l.length then some i else none

/-- `a` occurs, and no `b` occurs before the first `a` (source order). -/
def precedes (a b : Ev) (s : Skel) : Bool :=
  match idxOf? a (flat s), idxOf? b (flat s) with
  | some i, some j => i < j
  | some _, none => true
  | none, _ => false

/-- capacity of the channel created under the name `c`. -/
def chanCap (c : String) (s : Skel) : Option Nat :=
  (flat s).findSome? (fun e => match e with | .makeChan c' n => if c' = c then some n else none | _ => none)

/-- Every access to `o` happens while `m` is held (lock regions are tracked along the
    source order; a goroutine body starts with nothing held; `defer unlock` keeps the
    lock to the end of the function). -/
def guardedAux (m o : String) : List Ev → (held : Bool) → (stack : List Bool) → Bool
  | [], _, _ => true
  | .lock m' :: t, held, st => guardedAux m o t (held || m' == m) st
  | .unlock m' :: t, held, st =>
      match st with
      | _ :: _ => guardedAux m o t held st           -- inside defer/go: handled by the brackets
      | [] => guardedAux m o t (held && m' != m) st
  | .access o' :: t, held, st => (o' != o || held) && guardedAux m o t held st
  | .goStart :: t, held, st => guardedAux m o t false (held :: st)
  | .goEnd :: t, _, st => (match st with | h :: st' => guardedAux m o t h st' | [] => guardedAux m o t false [])
  | .deferStart :: t, held, st => guardedAux m o t held (held :: st)
  | .deferEnd :: t, _, st => (match st with | h :: st' => guardedAux m o t h st' | [] => guardedAux m o t false [])
  | _ :: t, held, st => guardedAux m o t held st

def guarded (m o : String) (s : Skel) : Bool := guardedAux m o (flat s) false []

/-- number of occurrences of an event -/
def count (e : Ev) (s : Skel) : Nat := (flat s).count e

end Skel
end InvProxy

namespace InvProxy.Skel

/-- split a flat event list into the bodies of its (non-nested) selects and the events outside any select -/
def selSplit : List Ev → (inSel : Option (List Ev)) → (segs : List (List Ev)) → (outside : List Ev) → List (List Ev) × List Ev
  | [], none, segs, out => (segs.reverse, out.reverse)
  | [], some cur, segs, out => ((cur.reverse :: segs).reverse, out.reverse)
  | .selStart :: t, none, segs, out => selSplit t (some []) segs out
  | .selEnd :: t, some cur, segs, out => selSplit t none (cur.reverse :: segs) out
  | e :: t, some cur, segs, out => selSplit t (some (e :: cur)) segs out
  | e :: t, none, segs, out => selSplit t none segs (e :: out)

/-- every send on `c` is a case of a `select` that also waits for `done`, and is not under its `default` -/
def sendGuardedBy (c done : String) (s : Skel) : Bool :=
  let (segs, out) := selSplit (flat s) none [] []
  !out.contains (.send c) &&
  segs.all (fun seg =>
    !seg.contains (.send c) ||
    (seg.contains (.recv done) && !((seg.takeWhile (· != .send c)).contains .dflt)))

end InvProxy.Skel
