/-
  Base/Bytes: byte strings as `List UInt8` and the handful of Go `strings`/`bytes`
  functions the models need.  No `String` in anything a theorem mentions.
-/
namespace InvProxy

abbrev Bytes := List UInt8

namespace Go

def lowerB (b : UInt8) : UInt8 := if 65 ≤ b ∧ b ≤ 90 then b + 32 else b
def upperB (b : UInt8) : UInt8 := if 97 ≤ b ∧ b ≤ 122 then b - 32 else b

/-- `strings.ToLower` on ASCII (the code only applies it to header names / media types). -/
def toLower (s : Bytes) : Bytes := s.map lowerB

def len (s : Bytes) : Nat := s.length

/-- `strings.HasPrefix s p`. -/
def hasPrefix (s p : Bytes) : Bool := p.isPrefixOf s

/-- `strings.Index s sub` (first occurrence), `none` when absent. -/
def index (s sub : Bytes) : Option Nat :=
  match s with
  | [] => if sub.isEmpty then some 0 else none
  | c :: cs =>
    if sub.isPrefixOf (c :: cs) then some 0
    else (index cs sub).map (· + 1)

/-- `strings.Contains s sub`. -/
def contains (s sub : Bytes) : Bool := (index s sub).isSome

/-- `strings.SplitN s sep 2 [0]` for non-empty `sep`: the part of `s` before the first `sep` (all of `s` if none). -/
def beforeSep (s sep : Bytes) : Bytes :=
  match index s sep with
  | none => s
  | some i => s.take i

/-- `strings.Replace s old new 1` for non-empty `old`. -/
def replaceFirst (s old new : Bytes) : Bytes :=
  match index s old with
  | none => s
  | some i => s.take i ++ new ++ s.drop (i + old.length)

/-- `strings.Split s sep` for a one-byte separator. -/
def splitOn1 (sep : UInt8) : Bytes → Bytes → List Bytes
  | [], cur => [cur.reverse]
  | c :: t, cur => if c = sep then cur.reverse :: splitOn1 sep t [] else splitOn1 sep t (c :: cur)

def split (s sep : Bytes) : List Bytes :=
  match sep with
  | [c] => splitOn1 c s []
  | _ => [s]                       -- only single-byte separators occur in the repo

def isSpace (c : UInt8) : Bool := c = 32 || c = 9 || c = 10 || c = 11 || c = 12 || c = 13

/-- `strings.TrimSpace` (ASCII white space) -/
def trimSpace (s : Bytes) : Bytes := ((s.dropWhile isSpace).reverse.dropWhile isSpace).reverse

/-- `strings.CutPrefix`. -/
def cutPrefix (s p : Bytes) : Option Bytes :=
  if p.isPrefixOf s then some (s.drop p.length) else none

end Go
end InvProxy
