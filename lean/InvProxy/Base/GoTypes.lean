/-
  Base/GoTypes: Lean counterparts of the Go types that the generated (T2) definitions
  mention, with the same field names, plus the canonicalising `http.Header` methods.
-/
import InvProxy.Base.Bytes
import InvProxy.Base.Hdr
namespace InvProxy

namespace Go

/-- `httpguts`/`textproto` token bytes (`validHeaderFieldByte`). -/
def isTokenByte (c : UInt8) : Bool :=
  (48 ≤ c && c ≤ 57) || (65 ≤ c && c ≤ 90) || (97 ≤ c && c ≤ 122) ||
  [33,35,36,37,38,39,42,43,45,46,94,95,96,124,126].contains c

def canonGo (upper : Bool) : Bytes → Bytes
  | [] => []
  | c :: cs =>
    let c' := if upper then upperB c else lowerB c
    c' :: canonGo (c' == 45) cs

/-- `textproto.CanonicalMIMEHeaderKey`: names that are not tokens are left unchanged. -/
def canon (s : Bytes) : Bytes := if s.all isTokenByte then canonGo true s else s

/-- `strings.CutPrefix` as a pair (rest-or-original, found). -/
def cutPrefix2 (s p : Bytes) : Bytes × Bool :=
  if p.isPrefixOf s then (s.drop p.length, true) else (s, false)

end Go

namespace Hdr
/-- `h.Get(k)`, `h.Values(k)`, `h.Add(k,v)`, `h.Set(k,v)`, `h.Del(k)`: the key is canonicalised first. -/
def Get (h : Hdr) (k : Bytes) : Bytes := get h (Go.canon k)
def Values (h : Hdr) (k : Bytes) : List Bytes := values h (Go.canon k)
def Add (h : Hdr) (k v : Bytes) : Hdr := add h (Go.canon k) v
def Set (h : Hdr) (k v : Bytes) : Hdr := set h (Go.canon k) v
def Del (h : Hdr) (k : Bytes) : Hdr := del h (Go.canon k)

/-- canonical key of the `Connection` header -/
def connKey : Bytes := [67,111,110,110,101,99,116,105,111,110]

/-- the comma-separated options of every `Connection` value, trimmed (how both `keepEndToEnd`
    and `httputil.ReverseProxy`'s `removeHopByHopHeaders` read them; header values cannot hold
    other white space than SP/HT after parsing, so `TrimSpace` and `textproto.TrimString` agree) -/
def connOptions (h : Hdr) : List Bytes :=
  (values h connKey).flatMap fun v => (Go.split v [44]).map Go.trimSpace

/-- the header keys `removeHopByHopHeaders` deletes because a `Connection` option names them (`h.Del(option)`) -/
def connDrops (h : Hdr) : List Bytes := (connOptions h).map Go.canon

/-- deleting every header that a `Connection` option names (`h.Del(option)` for each option): what
    `removeHopByHopHeaders` of `httputil.ReverseProxy` does first, and what the stand-alone proxy's
    `ServeHTTP` does to the client request before its own hop-by-hop filter -/
def dropConnNamed (h : Hdr) : Hdr := (connDrops h).foldl Hdr.del h

/-- `strings.Join` -/
def joinBytes (sep : Bytes) : List Bytes → Bytes
  | [] => []
  | [x] => x
  | x :: y :: t => x ++ sep ++ joinBytes sep (y :: t)

/-- `strings.EqualFold` on ASCII names -/
def equalFold (a b : Bytes) : Bool := Go.toLower a == Go.toLower b

/-- `keepEndToEnd(header, name)` of agent/agent.go (hand model; tie: suite `identity`, which runs the
    regenerated `agent_forwardRequestHeader` — and with it this function — against the real one):
    the options equal to `name` (ASCII case-insensitively, after trimming) are removed from every
    `Connection` value; values left without options are removed; no value left ⇒ the header is deleted. -/
def dropConnOption (h : Hdr) (name : Bytes) : Hdr :=
  let kept := (values h connKey).filterMap fun v =>
    let opts := (Go.split v [44]).filter fun o => !(equalFold (Go.trimSpace o) name)
    if opts.isEmpty then none else some (joinBytes [44] opts)
  if kept.isEmpty then del h connKey else put h connKey kept
end Hdr

/-- `types.Backend` (app/types/types.go). -/
structure Backend where
  BackendID : Bytes
  BackendUser : Bytes
  EndUser : Bytes
  PathPrefixes : List Bytes
  deriving DecidableEq, Repr

structure Url where
  Path : Bytes
  deriving DecidableEq, Repr

/-- `url.URL` as far as the websocket dial target depends on it (all fields arbitrary). -/
structure WsUrl where
  Scheme : Bytes
  Opaque : Bytes
  User : Option Bytes          -- userinfo, `none` = nil
  Host : Bytes
  Path : Bytes
  RawPath : Bytes
  OmitHost : Bool
  ForceQuery : Bool
  RawQuery : Bytes
  Fragment : Bytes
  RawFragment : Bytes
  deriving DecidableEq, Repr

/-- The parts of `*http.Request` that the translated predicates read. -/
structure Req where
  Method : Bytes
  Header : Hdr
  Host : Bytes
  URL : Url
  deriving DecidableEq, Repr

end InvProxy
