def hello := "world"
