/-
  C07 — one failing request never takes down the agent or other requests.  Property theorems only.
-/
import InvProxy.Model.Workers
import InvProxy.Proofs.Workers
import InvProxy.Props.C01
import InvProxy.Props.C03
import InvProxy.Props.C10
import InvProxy.Props.C12
namespace InvProxy.C07
open InvProxy InvProxy.Workers InvProxy.Gen

/-- Non-interference: what happens to worker `j` depends only on the steps and faults of
    worker `j` — for every number of workers, every schedule and every placement of faults
    on the other workers. -/
theorem non_interference (a : Agent) (sched : List (Nat × Option Fault)) (j : Nat) (pc : Pc) (hj : a[j]? = some pc) :
    (arun a sched)[j]? = some (wrun pc (proj j sched)) :=
  arun_proj a sched j pc hj

/-- in particular two schedules that agree on worker `j` give it the same outcome, whatever faults hit the others -/
theorem faults_elsewhere_invisible (a : Agent) (s1 s2 : List (Nat × Option Fault)) (j : Nat) (pc : Pc) (hj : a[j]? = some pc)
    (hp : proj j s1 = proj j s2) : (arun a s1)[j]? = (arun a s2)[j]? := by
  rw [non_interference a s1 j pc hj, non_interference a s2 j pc hj, hp]

/-- requests issued afterwards are served normally: a fresh worker appended after any history runs to `served 200` without faults -/
theorem serves_after (a : Agent) (sched : List (Nat × Option Fault)) :
    let a' := arun a sched ++ [Pc.fetching]
    let j := (arun a sched).length
    (arun a' [(j, none), (j, none), (j, none), (j, none), (j, none)])[j]? = some (.finished (.served 200)) := by
  intro a' j
  have hj : a'[j]? = some Pc.fetching := by simp [a', j]
  rw [non_interference a' _ j _ hj]
  simp [proj, wrun, wstep]

/-- no fault and no schedule makes a worker disappear: the agent keeps as many workers as it started -/
theorem workers_never_vanish (a : Agent) (sched : List (Nat × Option Fault)) : (arun a sched).length = a.length :=
  arun_length a sched

/-- Whatever goes wrong on the *backend* side (unreachable, malformed head, reset mid-body — any combination, at any
    step), the request still ends with a response uploaded and acknowledged, 200 or 502: only a failure of the proxy
    legs themselves (fetch, upload) can leave a request without a response. -/
theorem served_unless_proxy_fails (fs : List (Option Fault)) (h : 5 ≤ fs.length)
    (h1 : some Fault.fetchFail ∉ fs) (h2 : some Fault.uploadFail ∉ fs) :
    ∃ st, (st = 200 ∨ st = 502) ∧ wrun .fetching fs = .finished (.served st) :=
  Workers.served_unless_proxy_fails fs h h1 h2

/-- a finished worker stays finished with the same outcome: later faults cannot rewrite what a client received -/
theorem outcome_is_final (o : Outcome) (fs : List (Option Fault)) : wrun (.finished o) fs = .finished o :=
  wrun_finished o fs

/-- When the backend cannot be reached the client receives a 502 response rather than no response. -/
theorem unreachable_backend_502 :
    wrun .fetching [none, some .connectFail, none] = .finished (.served 502) := by decide

/-- a worker always terminates, in at most five steps, whatever faults hit it -/
theorem worker_terminates (fs : List (Option Fault)) (h : 5 ≤ fs.length) : ∃ o, wrun .fetching fs = .finished o := by
  apply rank_zero
  have : rank (wrun .fetching fs) ≤ 5 - fs.length := rank_wrun .fetching fs
  omega

/-- No crash from the shared objects: the facts that rule out the runtime's fatal errors and
    panics on each object shared between workers (proved / regenerated in the named checks). -/
theorem no_crash_shared_objects :
    (utils_srwHeaderAliased = false ∧ utils_srwTrailerShared = false) ∧                                   -- C03: response maps not shared between goroutines
    Skel.guarded "c.mu" "c.cache" skel_sessions_cachedCookieJar = true ∧                                    -- C10: session LRU only under its mutex
    ShimLife.classify skel_websockets_Connection_Close skel_websockets_Connection_SendClientMessage = some ShimLife.good ∧  -- C12: no send on / close of a closed channel
    Skel.guarded "p" "p.randGenerator" skel_server_newID = true := by decide                                -- C01: proxy-side generator under the mutex

/-- T3/T1: workers are started with nothing but the client, the handler chain and IDs; each
    request gets its own response forwarder; fetch and upload retry a bounded number of times. -/
theorem worker_isolation_shape :
    agent_workerArgs = ["client", "hostProxy", "backendID", "requestID"] ∧
    Skel.calls "utils.NewResponseForwarder" skel_agent_forwardRequest = true ∧
    Skel.precedes (.call "utils.NewResponseForwarder") (.call "hostProxy.ServeHTTP") skel_agent_forwardRequest = true ∧
    Skel.precedes (.call "hostProxy.ServeHTTP") (.call "responseForwarder.Close") skel_agent_forwardRequest = true ∧
    utils_maxReadRequestRetryCount = 2 ∧ utils_maxWriteResponseRetryCount = 2 := by decide

end InvProxy.C07
