/-
  C04 — each client request is forwarded to the backend at most once.  Property theorems only.
-/
import InvProxy.Model.Dedup
import InvProxy.Proofs.Lru
import InvProxy.Proofs.Dedup
namespace InvProxy.C04
open InvProxy InvProxy.Dedup InvProxy.Gen

variable {α : Type} [DecidableEq α]

/-- The LRU holds exactly the `cap` most recently reported distinct IDs. -/
theorem lru_is_recency (cap : Nat) (hc : 0 < cap) (h : List α) :
    Lru.after cap h = (Lru.recency h).take cap := by
  exact Lru.after_eq_take_recency cap hc h

/-- Full strength: however often, in whatever order or grouping IDs are reported, as long
    as every repeat falls inside the dedup window each ID is forwarded exactly once — at
    its first report. -/
theorem dedup_window (cap : Nat) (hc : 0 < cap) (h : List α) (hw : WindowOK cap h) :
    spawns cap h = firsts h := by
  exact spawns_eq_firsts hc h hw

/-- at most once / exactly once, spelled out -/
theorem forwarded_at_most_once (cap : Nat) (hc : 0 < cap) (h : List α) (hw : WindowOK cap h) (x : α) :
    (spawns cap h).count x = if x ∈ h then 1 else 0 := by
  rw [spawns_eq_firsts hc h hw]; exact count_firsts h x

/-- Sufficient condition: at most `cap` distinct IDs are reported in the whole history.  This is the strongest
    reading of the property's "at most 1000 distinct IDs are outstanding" under which the code satisfies it: the
    cache remembers *reported* IDs by recency and does not learn when a request is finished.  Read per moment -
    never more than `cap` requests pending at once, but with turnover - the property is FALSE of the code, see
    `turnover_counterexample` below (known finding C04:forwarded-twice:window-turnover).  `dedup_window` above is the
    full-strength statement that is proved; this corollary and `forwarded_at_most_once` are the partial result
    with respect to the property's wording. -/
theorem window_of_few_distinct (cap : Nat) (h : List α) (hd : (firsts h).length ≤ cap) : WindowOK cap h := by
  exact windowOK_of_few_distinct cap h hd

/-- No premise on the history at all (any number of outstanding IDs, any repeats, any cache capacity): every listed
    ID is handed to a worker at least once and nothing that was not listed ever is — the recency cache can only cause
    a repeat, never a loss. -/
theorem never_lost_never_invented (cap : Nat) (h : List α) (x : α) : x ∈ spawns cap h ↔ x ∈ h :=
  mem_spawns cap h x

/-- a repeat immediately after the report itself is always suppressed, for every capacity ≥ 1 and every history -/
theorem immediate_repeat_suppressed (cap : Nat) (hc : 0 < cap) (h : List α) (x : α) :
    spawns cap (h ++ [x] ++ [x]) = spawns cap (h ++ [x]) := by
  rw [spawns_append_singleton, if_pos]
  rw [Lru.after_append_singleton]
  unfold Lru.touch
  rw [if_neg (by omega)]
  cases cap with
  | zero => omega
  | succ n => simp

/-- the window clause is needed: `cap + 1` distinct IDs followed by a repeat of the first
    one forwards it twice (here cap = 2) -/
theorem dedup_needs_window_counterexample : spawns 2 [1, 2, 3, 1] = [1, 2, 3, 1] := by decide

/-- Known finding C04:forwarded-twice:window-turnover (kernel-checked here with cap = 3, replayed on the real polling
    loop with 1000 on every run): three requests are pending and listed; request 3 is answered and a new request 4
    arrives, so still three are pending; the next reply lists the new one first.  Recording 4 evicts 1 - which is
    listed next, misses, is spawned again and evicts 2, and so on.  Never more than `cap` IDs were outstanding, yet
    requests 1 and 2 are forwarded twice. -/
theorem turnover_counterexample :
    (∀ r ∈ [[1, 2, 3], [4, 1, 2]], (firsts r).length ≤ 3) ∧
    spawns 3 ([[1, 2, 3], [4, 1, 2]] : List (List Nat)).flatten = [1, 2, 3, 4, 1, 2] := by decide

/-- the cache size in the code is the documented 1000 -/
theorem cache_limit : agent_requestCacheLimit = 1000 := by decide

/-- T3: in the polling loop a worker is started only after a cache miss was recorded:
    `Get` precedes `Add` precedes `go processOneRequest`, and there is exactly one spawn site. -/
theorem poll_loop_shape :
    Skel.precedes (.call "previouslySeenRequests.Get") (.call "previouslySeenRequests.Add") skel_agent_pollForNewRequests = true ∧
    Skel.precedes (.call "previouslySeenRequests.Add") (.call "processOneRequest") skel_agent_pollForNewRequests = true ∧
    Skel.count (.call "processOneRequest") skel_agent_pollForNewRequests = 1 ∧
    Skel.count .goStart skel_agent_pollForNewRequests = 1 := by decide

/-- Proxy side: each request ID is handed to at most one pending-list response, across any
    number of concurrent pollers and any interleaving of arrivals, cancellations and polls. -/
theorem handoff_once (acts : List (HAct α)) (s : Handoff α)
    (h : hrun ⟨[], []⟩ acts = some s) : (s.offering ++ s.replies.flatten).Nodup := by
  exact hrun_inv h (by simp [HInv])

/-- … and exactly one once a poll has taken it: IDs are never lost while offered -/
theorem handoff_exactly_once (acts : List (HAct α)) (s : Handoff α) (x : α)
    (h : hrun ⟨[], []⟩ acts = some s) (ha : HAct.arrive x ∈ acts) (hc : HAct.cancel x ∉ acts) :
    x ∈ s.offering ∨ (s.replies.flatten).count x = 1 := by
  have hn : (s.offering ++ s.replies.flatten).Nodup := hrun_inv h (by simp [HInv])
  rcases hrun_held h (Or.inr ha) hc with hx | hx
  · exact Or.inl hx
  · right
    have h1 : s.replies.flatten.count x ≤ 1 := List.nodup_iff_count.1 (List.nodup_append.1 hn).2.1 x
    have h2 : 0 < s.replies.flatten.count x := List.count_pos_iff.2 hx
    omega

/-- T3: the hand-off channel is unbuffered (capacity 0 ⇒ a receive completes exactly one
    blocked sender), the client offers its ID exactly once, and the drain loop only receives. -/
theorem handoff_shape :
    server_requestIDsCap = 0 ∧
    Skel.count (.send "p.requestIDs") skel_server_ServeHTTP = 1 ∧
    Skel.sends "p.requestIDs" skel_server_waitForRequestIDs = false ∧
    Skel.recvs "p.requestIDs" skel_server_waitForRequestIDs = true := by decide

/-- size cap on a pending-list reply (regenerated from parseRequestIDs): a reply that lists a whole dedup
    window of the stand-alone proxy's IDs (64 hex digits each; JSON adds two quotes and a comma per ID and the two
    brackets) fits under the cap, so such a reply is parsed rather than truncated and every listed ID is dispatched -/
theorem full_window_reply_fits : agent_requestCacheLimit * (64 + 3) + 2 ≤ utils_pendingListByteCap := by decide

-- non-vacuity
example : spawns 3 [1, 2, 1, 3, 2, 1] = [1, 2, 3] := by decide
example : WindowOK 3 [1, 2, 1] := window_of_few_distinct 3 _ (by decide)
example : hrun (⟨[], []⟩ : Handoff Nat) [.arrive 1, .arrive 2, .poll [2], .arrive 3, .poll [1, 3]] = some ⟨[], [[2], [1, 3]]⟩ := by decide

end InvProxy.C04
