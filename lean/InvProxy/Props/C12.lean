/-
  C12 — the websocket shim answers every call and survives any call order.  Property theorems only.
-/
import InvProxy.Model.ShimLife
import InvProxy.Proofs.ShimLife
namespace InvProxy.C12
open InvProxy InvProxy.ShimLife InvProxy.Gen

/-- the code is in the good variant (regenerated skeletons of `Connection.Close` and `SendClientMessage`) -/
theorem variant_is_good :
    classify skel_websockets_Connection_Close skel_websockets_Connection_SendClientMessage = some good := by decide

/-- `SendClientMessage` queues a nil message for a one-element array whose element is not a
    string (the call is still answered 200); the writer goroutine must therefore skip nil
    messages before touching them, or that malformed input crashes the agent. -/
theorem writer_skips_nil_messages : websockets_sendMayQueueNil = true → websockets_writerSkipsNil = true := by decide

/-- No call ever panics, in any reachable state of any interleaving of calls (including
    data racing with close, and double close), goroutine steps and backend events. -/
theorem shim_no_panic (cap : Nat) (s : St) (h : Reachable good cap s) : Pc.panicked ∉ s.calls := by
  intro hp
  exact absurd ((inv_reachable h).calls _ hp) (by simp [okPc])

/-- Every call gets an answer: while some call is unanswered, an internal step is enabled
    (a step of a call, of a goroutine, or a poll timer) … -/
theorem shim_answers_enabled (cap : Nat) (hc : 0 < cap) (s : St) (h : Reachable good cap s)
    (i : Nat) (pc : Pc) (hi : s.calls[i]? = some pc) (hna : ∀ st, pc ≠ .answered st) :
    ∃ a s', a.internal = true ∧ step good s a = some s' :=
  enabled (inv_reachable h) hc hi hna

/-- … and every internal step strictly decreases the measure `mu`: under any scheduling the
    call is answered after at most `mu s` internal steps (no call can starve behind an
    unbounded sequence of other internal steps). -/
theorem shim_decreases (cap : Nat) (s s' : St) (h : Reachable good cap s) (a : Act) (hi : a.internal = true)
    (hs : step good s a = some s') : mu s' < mu s :=
  mu_step (inv_reachable h) hi hs

/-- … and the answers are only 200, 400 or 408 (500 arises only from I/O errors outside the model). -/
theorem shim_statuses (cap : Nat) (s : St) (h : Reachable good cap s) (st : Nat) (hs : Pc.answered st ∈ s.calls) :
    st = 200 ∨ st = 400 ∨ st = 408 := by
  simpa [okPc] using (inv_reachable h).calls _ hs

/-- calls naming a session that is not (or no longer) in the table are rejected with 400 -/
theorem unknown_or_closed_400 (v : Variant) (s : St) (i : Nat) (pc : Pc) (hi : s.calls[i]? = some pc)
    (hl : pc = .closeLoad ∨ pc = .pollLoad ∨ ∃ n, n > 0 ∧ pc = .dataLoad n) (ht : s.inTable = false) :
    ∃ s', callStep v s i = some s' ∧ s'.calls[i]? = some (.answered 400) :=
  callStep_400 v s i pc hi hl ht

/-- closing a session closes the backend websocket: once the close call has been answered
    and the writer has consumed the queue, the connection is done and the closer step
    closes the server connection -/
theorem close_closes_backend (cap : Nat) (s : St) (h : Reachable good cap s) (hw : s.writer = false) :
    s.done = true :=
  (inv_reachable h).wd hw

/-- When the backend closes first, polls deliver what was already received and only then
    report the session closed: at the moment the reader goroutine closes `serverMessages`
    (the only thing that makes a poll report "closed"), it has taken every message the
    backend sent, and buffered messages stay readable from the closed channel.
    (A state-based version — "`sqClosed → incoming = 0`" — is false: after a client-initiated
    close the backend may still send while the closer goroutine has not yet run; see
    `ShimLife.backend_close_drains_false`.  Those messages belong to a session the client
    has closed.) -/
theorem backend_close_drains (v : Variant) (s s' : St) (hs : step v s .readerStep = some s')
    (h0 : s.sqClosed = false) (h1 : s'.sqClosed = true) : s'.incoming = 0 ∧ s'.reader = false :=
  reader_close_drained v s s' hs h0 h1

/-- once the channel of server messages is closed the reader goroutine has exited for good -/
theorem reader_exited_once_closed (cap : Nat) (s : St) (h : Reachable good cap s) (hq : s.sqClosed = true) :
    s.reader = false := sqClosed_reader_exited h hq

/-- The defects this check found in the original code, as runs of the original variant:
    data racing with close panics (send on closed channel) … -/
theorem send_on_closed_counterexample :
    (run ⟨.closeChannel, .checkThenSend⟩ (init 10)
      [.startData 1, .startClose, .call 0, .call 0, .call 1, .call 1, .call 1, .call 1, .call 0]).map (fun s => s.calls[0]?) =
      some (some .panicked) := by decide

/-- … a second close of the same session panics (close of closed channel) … -/
theorem double_close_counterexample :
    (run ⟨.closeChannel, .checkThenSend⟩ (init 10)
      [.startClose, .startClose, .call 0, .call 1, .call 0, .call 1, .call 0, .call 1, .call 0, .call 1]).map (fun s => s.calls[1]?) =
      some (some .panicked) := by decide

/-- … and with the writer gone and the queue full, close blocks forever (no step of the call is enabled). -/
theorem close_blocks_counterexample :
    (run ⟨.closeChannel, .checkThenSend⟩ (init 1)
      [.startData 1, .call 0, .call 0, .call 0, .backendClose, .writerFail, .startClose, .call 1, .call 1]).map
      (fun s => (s.calls[1]?, (callStep ⟨.closeChannel, .checkThenSend⟩ s 1).isSome)) = some (some .closeSend, false) := by decide

-- non-vacuity: open, data, close in the good variant
example : (run good (init 10) [.startData 2, .call 0, .call 0, .call 0, .call 0, .call 0, .call 0, .startClose, .call 1, .call 1, .call 1, .writerStep, .writerStep, .writerStep, .closerStep]).map
    (fun s => (s.calls, s.backendSawClose)) = some ([.answered 200, .answered 200], true) := by decide

end InvProxy.C12
