/-
  C16 — closing one end of a bridged TCP connection closes the other.  Property theorems only.
  The code as it is (`waitBoth`) does NOT have the property (known finding D10): the first
  two theorems exhibit the stuck states; `firstDone_loses_data_counterexample` shows why the
  obvious five-line repair is not a repair; the `halfClose` theorems prove that forwarding
  end-of-stream per direction does have the property.
-/
import InvProxy.Model.BridgeLife
import InvProxy.Proofs.BridgeLife
namespace InvProxy.C16
open InvProxy InvProxy.BridgeLife InvProxy.Gen

/-- the variant both bridge sides are in (regenerated skeletons of `connection.Handler` and the frontend's `main`) -/
theorem teardown_variant :
    classify skel_connection_Handler = some .waitBoth ∧ classify skel_frontend_main = some .waitBoth := by decide

/-- waitBoth: after A closes, the bridge reaches a state with no enabled internal step in
    which B has not observed end-of-stream: the close is never propagated. -/
theorem close_stuck_counterexample :
    (run .waitBoth init [.aSend, .aClose, .f1Copy, .f1End, .h1Copy, .bRecv]).map
      (fun s => (enabledInternal .waitBoth s, goalB s, s.bGot)) = some ([], false, 1) := by decide

/-- waitBoth: even after both peers have closed, both sides stay blocked reading the
    websocket and never release their connections. -/
theorem leak_counterexample :
    (run .waitBoth init [.aClose, .bClose, .f1End, .h2End]).map
      (fun s => (enabledInternal .waitBoth s, released s)) = some ([], false) := by decide

/-- firstDone: the close is propagated, but data A sent before closing can be lost when
    the opposite direction is busy (H2's failing write tears H down before H1 has drained). -/
theorem firstDone_loses_data_counterexample :
    (run .firstDone init [.aSend, .aClose, .bSend, .f1Copy, .f1End, .fTear, .h2Copy, .hTear, .bSeeEOF]).map
      (fun s => (s.bEOF, s.bGot, s.aSent)) = some (true, 0, 1) := by decide

/-- halfClose, safety: in every reachable state what B has received plus what is still in
    flight towards B equals what A sent — nothing is lost or duplicated, whatever the
    order of sends, closes and loop steps in either direction. -/
theorem halfClose_conservation (acts : List Act) (s : St) (h : run .halfClose init acts = some s) :
    s.bGot + s.ab1.q + s.ab2.q + s.ab3.q = s.aSent ∧ s.aGot + s.ba1.q + s.ba2.q + s.ba3.q = s.bSent := by
  have hi := inv_run acts s h
  exact ⟨hi.consAB, hi.consBA⟩

/-- in particular neither peer ever receives more than the other has sent, in any reachable state -/
theorem halfClose_never_invents (acts : List Act) (s : St) (h : run .halfClose init acts = some s) :
    s.bGot ≤ s.aSent ∧ s.aGot ≤ s.bSent := by
  have := halfClose_conservation acts s h
  omega

/-- halfClose, no spurious teardown: while neither peer has closed, every loop runs and nothing is closed. -/
theorem halfClose_no_spurious (acts : List Act) (s : St) (h : run .halfClose init acts = some s)
    (ha : s.aClosed = false) (hb : s.bClosed = false) :
    s.f1 ∧ s.f2 ∧ s.h1 ∧ s.h2 ∧ s.fDown = false ∧ s.hDown = false ∧ s.aEOF = false ∧ s.bEOF = false := by
  exact no_spurious s (inv_run acts s h) ha hb

/-- halfClose, progress: once A has closed (and B has not), as long as B has not yet
    received everything and observed end-of-stream, some internal step is enabled … -/
theorem halfClose_enabled (acts : List Act) (s : St) (h : run .halfClose init acts = some s)
    (ha : s.aClosed = true) (hb : s.bClosed = false) (hg : goalB s = false) :
    enabledInternal .halfClose s ≠ [] := by
  exact enabled s (inv_run acts s h) ha hb hg

/-- … and every internal step strictly decreases the measure `mu`: B observes end-of-stream,
    with all of A's data, after at most `mu s` internal steps under any scheduling. -/
theorem halfClose_decreases (s s' : St) (a : Act) (hi : a.internal = true) (h : step .halfClose s a = some s') :
    mu s' < mu s := by
  exact decreases s s' a hi h

/-- halfClose: when both peers have closed, the bridge runs to a state with both sides
    released (no bridged connection outlives both endpoints): not released ⇒ some internal
    step is enabled. -/
theorem halfClose_released (acts : List Act) (s : St) (h : run .halfClose init acts = some s)
    (ha : s.aClosed = true) (hb : s.bClosed = true) (hr : released s = false) :
    enabledInternal .halfClose s ≠ [] := by
  exact released_enabled s (inv_run acts s h) ha hb hr

/-- T3: in `connection.Handler` the release of the bridge's websocket (`defer wsConn.Close()`) is
    registered before the TCP server is dialled, so the early return on a failed dial releases
    it too (the websocket is hijacked: net/http will not close it); the TCP side's release is
    registered right after the dial.  Likewise in the frontend for the client connection. -/
theorem release_registered_before_dial :
    Skel.precedes (.call "wsConn.Close") (.call "net.Dial") skel_connection_Handler = true ∧
    Skel.precedes (.call "net.Dial") (.call "backendConn.Close") skel_connection_Handler = true ∧
    Skel.precedes (.call "conn.Close") (.call "connection.DialWebsocket") skel_frontend_main = true := by decide

/-- regenerated fact: the frontend never sets SO_LINGER on a client connection, so when it closes the connection the
    kernel still delivers what the server had sent before closing (with a zero linger the queued data is dropped
    and the client sees a reset instead of the data followed by end-of-stream) -/
theorem frontend_closes_gracefully : bridgeFrontend_setsLinger = false := by decide

/-- regenerated fact: the frontend's websocket dial gives up a handshake that the peer never answers (gorilla's
    DefaultDialer, 45 s, or an explicit HandshakeTimeout / context deadline).  Without a bound, a client whose
    bridge peer accepts the TCP connection and then stalls never observes end-of-stream, and the frontend keeps
    the client's socket after the client has gone (thorough tier: `bridgelife` runs the stalled handshake). -/
theorem handshake_is_bounded : connection_dialBoundsHandshake = true := by decide

-- non-vacuity: a half-close run delivers the data, then the end-of-stream
example : (run .halfClose init [.aSend, .aClose, .f1Copy, .f1End, .h1Copy, .h1End, .bRecv, .bSeeEOF]).map goalB = some true := by decide

end InvProxy.C16
