/-
  C10 — session tracking hides backend cookies and never mixes sessions.  Property theorems only.
-/
import InvProxy.Model.Sessions
import InvProxy.Model.Dedup
import InvProxy.Proofs.Sessions
import InvProxy.Proofs.SessionWriter
namespace InvProxy.C10
open InvProxy InvProxy.Sessions InvProxy.Gen InvProxy.SessionWriter

variable {J U SC C : Type}

/-- The cookies sent on to the backend are exactly the client's own cookies other than the
    session cookie, followed by what the session's jar holds for the request URL — and in
    particular never the session cookie itself. -/
theorem backend_cookies (ops : JarOps J U SC C) (cfg : Cfg) (c : Cache J) (url : U) (cookies : List (Bytes × Bytes)) :
    (request ops cfg c url cookies).2.2 =
      (cookies.filter (fun k => k.1 ≠ cfg.cookieName)).map (fun k => BackendCookie.client k.1 k.2) ++
      (if sessionOf cfg cookies = [] then []
       else (ops.get ((find c.entries (sessionOf cfg cookies)).getD ops.empty) url).map BackendCookie.jar) := by
  simp only [request]
  split
  · simp
  · rfl

theorem session_cookie_never_forwarded (ops : JarOps J U SC C) (cfg : Cfg) (c : Cache J) (url : U) (cookies : List (Bytes × Bytes))
    (v : Bytes) : BackendCookie.client cfg.cookieName v ∉ (request ops cfg c url cookies).2.2 := by
  rw [backend_cookies]
  intro h
  simp only [List.mem_append, List.mem_map, List.mem_filter] at h
  rcases h with ⟨k, ⟨_, hk⟩, he⟩ | h
  · injection he with h1 _
    simp [h1] at hk
  · split at h
    · simp at h
    · simp only [List.mem_map] at h
      obtain ⟨_, _, he⟩ := h
      cases he

/-- What the websocket shim copies into `resource.headers` of the messages of a data request (header injection
    enabled): the cookies of that request as its handler sees them - after the session handler when the data
    handler is wrapped by it, the client's raw cookies otherwise. -/
def injectedCookies (ops : JarOps J U SC C) (cfg : Cfg) (c : Cache J) (url : U) (cookies : List (Bytes × Bytes))
    (wrapped : Bool) : List (BackendCookie C) :=
  if wrapped then (request ops cfg c url cookies).2.2 else cookies.map (fun k => BackendCookie.client k.1 k.2)

/-- The session cookie does not reach the backend inside injected message headers either: data requests pass the
    session handler (regenerated fact about createShimChannel), which replaces it by the session's cookies. -/
theorem session_cookie_never_injected (ops : JarOps J U SC C) (cfg : Cfg) (c : Cache J) (url : U)
    (cookies : List (Bytes × Bytes)) (v : Bytes) :
    (BackendCookie.client cfg.cookieName v : BackendCookie C) ∉ injectedCookies ops cfg c url cookies websockets_dataRequestsPassSessionHandler := by
  have hw : websockets_dataRequestsPassSessionHandler = true := by decide
  simp only [injectedCookies, hw, if_true]
  exact session_cookie_never_forwarded ops cfg c url cookies v

/-- without the wrapper the session cookie is copied into the messages (defect D25, repaired) -/
theorem unwrapped_data_handler_leaks (ops : JarOps J U SC C) (cfg : Cfg) (c : Cache J) (url : U) (v : Bytes) :
    (BackendCookie.client cfg.cookieName v : BackendCookie C) ∈ injectedCookies ops cfg c url [(cfg.cookieName, v)] false := by
  simp [injectedCookies]

/-- The only cookie a client can receive is the agent's own session cookie, and it is
    issued exactly to clients that presented none. -/
theorem only_session_cookie (ops : JarOps J U SC C) (c : Cache J) (s fresh : Sid) (url : U) (sc : List SC) :
    (response ops c s fresh url sc).2 = if s = [] then some fresh else none := by
  rfl

/-- … at the level of the response header the writer edits (regenerated slice of
    `sessionResponseWriter.WriteHeader`, early exits included): whatever `Set-Cookie` values the
    backend put there — parseable by Go's cookie parser or not, any number of them — afterwards
    the field holds nothing on an interim response, and on the final one exactly the session
    cookie if the request carried none, and nothing otherwise. -/
theorem set_cookie_header_exact (status : Int) (noSession : Bool) (sc : Bytes) (parsed : Nat) (h : Hdr) :
    Hdr.Values (sessions_writeHeaderEdits false status noSession sc parsed h) [83,101,116,45,67,111,111,107,105,101] =
      if isInterim status then [] else if noSession then [sc] else [] := by
  unfold isInterim
  by_cases h1 : status ≥ 100 <;> by_cases h2 : status ≤ 199 <;> by_cases h3 : status = 101 <;> cases noSession <;>
    by_cases h4 : parsed = 0 <;>
    simp [sessions_writeHeaderEdits, Id.run, pure, Hdr.Values, Hdr.Del, Hdr.Add, Hdr.values_del_self, h1, h2, h3, h4]

/-- every other response header field is left alone, on every path through the function -/
theorem other_response_headers_kept (wrote : Bool) (status : Int) (noSession : Bool) (sc : Bytes) (parsed : Nat) (h : Hdr) (k : Bytes)
    (hk : k ≠ Go.canon [83,101,116,45,67,111,111,107,105,101]) :
    Hdr.values (sessions_writeHeaderEdits wrote status noSession sc parsed h) k = Hdr.values h k := by
  by_cases h1 : status ≥ 100 <;> by_cases h2 : status ≤ 199 <;> by_cases h3 : status = 101 <;> cases noSession <;> cases wrote <;>
    by_cases h4 : parsed = 0 <;>
    simp [sessions_writeHeaderEdits, Id.run, pure, Hdr.Del, Hdr.Add, Hdr.values_del_ne _ _ _ hk, Hdr.values_add_ne _ _ _ _ hk, h1, h2, h3, h4]

/-- non-vacuity: 103 is interim; 101 (websocket upgrade through the session handler) and 200 are final -/
example : isInterim 103 = true ∧ isInterim 101 = false ∧ isInterim 200 = false ∧ isInterim 99 = false := by decide

theorem marks_written_after_interim_exit : sessions_marksWrittenAfterInterimExit = true := by decide

/-- Any number of interim responses does not consume the final header: after interim calls
    `pre` and a final call `(f, h)` (and whatever calls follow), the wrapped writer has received
    every interim call, then the final status `f` with exactly the session cookie or no cookie —
    and nothing after it. -/
theorem interim_then_final (noSession : Bool) (sc : Bytes) (parsed : Nat) (pre : List (Int × Hdr)) (f : Int) (h : Hdr)
    (post : List (Int × Hdr))
    (hpre : ∀ p ∈ pre, isInterim p.1 = true) (hf : isInterim f = false) :
    let w := (Writer.mk false []).calls noSession sc parsed (pre ++ (f, h) :: post)
    w.wrote = true ∧ w.sent.map (·.1) = pre.map (·.1) ++ [f] ∧
    (∀ p ∈ w.sent, Hdr.Values p.2 [83,101,116,45,67,111,111,107,105,101] =
        if isInterim p.1 then [] else if noSession then [sc] else []) := by
  intro w
  have hP : ∀ st hd, Hdr.Values (sessions_writeHeaderEdits false st noSession sc parsed hd) [83,101,116,45,67,111,111,107,105,101] =
      if isInterim st then [] else if noSession then [sc] else [] := fun st hd => set_cookie_header_exact st noSession sc parsed hd
  exact calls_interim_then_final noSession sc parsed _ hP pre f h post hpre hf

/-- attributes of that cookie (regenerated from the literal in sessions.go): Path=/,
    HttpOnly, Secure unless the test override is set -/
theorem session_cookie_attrs :
    sessions_cookieAttrs false = ([47], true, true) ∧ sessions_cookieAttrs true = ([47], false, true) := by decide

/-- Isolation: a response in one session leaves the jar of every other cached session untouched. -/
theorem isolation (ops : JarOps J U SC C) (c : Cache J) (s fresh : Sid) (url : U) (sc : List SC) (s' : Sid)
    (hne : s' ≠ (if s = [] then fresh else s))
    (hin : s' ∈ keys (response ops c s fresh url sc).1) :
    find (response ops c s fresh url sc).1.entries s' = find c.entries s' := by
  exact find_response_ne ops c s fresh url sc hne hin

/-- likewise a request never changes the contents of any jar -/
theorem request_keeps_jars (ops : JarOps J U SC C) (cfg : Cfg) (c : Cache J) (url : U) (cookies : List (Bytes × Bytes)) (s' : Sid)
    (hin : s' ∈ keys (request ops cfg c url cookies).1) (hne : s' ≠ sessionOf cfg cookies ∨ s' ∈ keys c) :
    find (request ops cfg c url cookies).1.entries s' = find c.entries s' := by
  rw [request_fst] at hin ⊢
  by_cases h0 : sessionOf cfg cookies = []
  · simp only [h0, if_true]
  simp only [h0, if_false] at hin ⊢
  by_cases he : s' = sessionOf cfg cookies
  · subst he
    have hk : sessionOf cfg cookies ∈ keys c := by
      rcases hne with h | h
      · exact absurd rfl h
      · exact h
    rw [find_getOrCreate_self ops c hin]
    have := (find_isSome_iff c.entries _).2 hk
    cases hf : find c.entries (sessionOf cfg cookies) with
    | none => simp [hf] at this
    | some j => rfl
  · exact find_getOrCreate_ne ops c he hin

/-- the cache keys evolve exactly like the keys-only LRU of `Base/Lru` -/
theorem keys_are_lru (ops : JarOps J U SC C) (cfg : Cfg) (cap : Nat) (h : List (Op U SC)) :
    keys (run ops cfg { cap := cap, entries := [] } h) = Lru.after cap (touches cfg h) := by
  exact (run_inv ops cfg cap h).2.2

/-- the cache never holds more than `cap` sessions — for every history of requests and responses, with or without
    session cookies -/
theorem cache_bounded (ops : JarOps J U SC C) (cfg : Cfg) (cap : Nat) (hc : 0 < cap) (h : List (Op U SC)) :
    (keys (run ops cfg { cap := cap, entries := [] } h)).length ≤ cap := by
  rw [keys_are_lru, Lru.after_eq_take_recency cap hc, List.length_take]
  exact Nat.min_le_left _ _

/-- Refinement to the per-session jar map: as long as every session is touched again
    before `cap` other distinct sessions were (the "among the most recently used" clause),
    the jar used for a session is exactly an independent jar fed with that session's own
    responses — never cookies of another session, for every interleaving of the request
    and response steps of any number of sessions. -/
theorem sessions_refine (ops : JarOps J U SC C) (cfg : Cfg) (cap : Nat) (hc : 0 < cap) (h : List (Op U SC))
    (hw : Dedup.WindowOK cap (touches cfg h)) (s : Sid) (hs : s ∈ touches cfg h) (hlast : s ∈ keys (run ops cfg { cap := cap, entries := [] } h)) :
    find (run ops cfg { cap := cap, entries := [] } h).entries s = some (refJar ops cfg s h) := by
  exact refine_inv ops cfg cap hc h hw s hlast

/-- under the window condition a touched session is never evicted before its next use -/
theorem session_survives (ops : JarOps J U SC C) (cfg : Cfg) (cap : Nat) (hc : 0 < cap) (pre : List (Op U SC)) (op : Op U SC) (post : List (Op U SC))
    (hw : Dedup.WindowOK cap (touches cfg (pre ++ op :: post))) (s : Sid) (ht : Op.touched cfg op = some s) (hs : s ∈ touches cfg pre) :
    s ∈ keys (run ops cfg { cap := cap, entries := [] } pre) := by
  rw [keys_are_lru]
  have e : touches cfg (pre ++ op :: post) = (touches cfg pre ++ [s]) ++ touches cfg post := by
    simp [touches, List.filterMap_append, ht]
  rw [e] at hw
  exact Dedup.mem_after_of_window hc hw.prefix hs

/-- T3: every access to the LRU happens under the cache mutex, in one critical section
    (lookup and insertion are not separable): concurrent requests can neither corrupt the
    cache nor create two jars for one session. -/
theorem cache_mutex :
    Skel.guarded "c.mu" "c.cache" skel_sessions_cachedCookieJar = true ∧
    Skel.guarded "c.mu" "c.cache" skel_sessions_addJarToCache = true ∧
    Skel.count (.lock "c.mu") skel_sessions_cachedCookieJar = 1 ∧
    Skel.calls "c.addJarToCache" skel_sessions_cachedCookieJar = false := by decide

end InvProxy.C10
