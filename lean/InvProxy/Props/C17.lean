/-
  C17 — the App Engine proxy enforces who may act as agent, user and admin.  Property theorems only.
-/
import InvProxy.Model.AppAuth
import InvProxy.Props.C18
import InvProxy.Proofs.AppAuth
namespace InvProxy.C17
open InvProxy InvProxy.AppAuth InvProxy.Gen

/-- An agent call (list, fetch, respond) succeeds only if the caller's OAuth identity is the
    backend user registered for the backend ID it names — for every store state, every
    backend ID and request ID (own, another backend's, unknown), absent identity included. -/
theorem agent_authz (s : St) (c : Caller) (ep : AgentEp) (b : Bid) (r : Rid) (p : Bytes)
    (h : (agentCall s c ep b r p).1 ≠ 401) :
    ∃ be, findBackend s.backends b = some be ∧ c.oauth = some be.BackendUser ∧ b ≠ [] := by
  rcases agentCall_cases s c ep b r p with ⟨e, _, h1⟩ | ⟨hc, _⟩
  · rw [h1] at h; exact absurd rfl h
  · obtain ⟨_, h2, be, h3, h4⟩ := (checkBackendID_ok_iff s c b b).1 hc
    exact ⟨be, h3, h4, h2⟩

/-- Every other caller gets 401 and learns nothing: status and body do not depend on any
    stored request or response, and nothing is changed. -/
theorem unauthorised_learns_nothing (s s' : St) (c : Caller) (ep : AgentEp) (b : Bid) (r : Rid) (p : Bytes)
    (hb : s.backends = s'.backends) (h : (agentCall s c ep b r p).1 = 401) :
    (agentCall s' c ep b r p).1 = 401 ∧ (agentCall s' c ep b r p).2.1 = (agentCall s c ep b r p).2.1 ∧
    (agentCall s c ep b r p).2.2 = s := by
  rcases agentCall_cases s c ep b r p with ⟨e, hc, h1⟩ | ⟨_, h1⟩
  · have hc' : checkBackendID s' c b = .error e := by rw [← checkBackendID_congr s s' c b hb]; exact hc
    rw [agentCall_err hc' ep r p, h1]
    exact ⟨rfl, rfl, rfl⟩
  · rw [h1] at h; exact absurd h (agentOk_ne_401 s ep b r p)

/-- An authorised call touches only that backend's requests: requests of every other
    backend are neither changed nor revealed (the reply depends only on the named backend's part). -/
theorem agent_scope (s : St) (c : Caller) (ep : AgentEp) (b : Bid) (r : Rid) (p : Bytes) (b' : Bid) (r' : Rid)
    (hne : b' ≠ b) :
    getReq (agentCall s c ep b r p).2.2.reqs (b', r') = getReq s.reqs (b', r') ∧
    (agentCall s c ep b r p).2.2.backends = s.backends := by
  rcases agentCall_cases s c ep b r p with ⟨e, _, h1⟩ | ⟨_, h1⟩
  · rw [h1]; exact ⟨rfl, rfl⟩
  · rw [h1]
    refine ⟨?_, agentOk_backends s ep b r p⟩
    rcases agentOk_reqs s ep b r p with h2 | h2
    · rw [h2]
    · rw [h2]
      refine getReq_map_other s.reqs (markDone b r) (b, r) (b', r') (markDone_key b r) (markDone_other b r) ?_
      intro he; injection he with he1 _; exact hne he1

theorem agent_reply_local (s s' : St) (c : Caller) (ep : AgentEp) (b : Bid) (r : Rid) (p : Bytes)
    (hb : s.backends = s'.backends) (hr : ∀ r', getReq s.reqs (b, r') = getReq s'.reqs (b, r'))
    (hp : pendingOf s b = pendingOf s' b) :
    (agentCall s c ep b r p).1 = (agentCall s' c ep b r p).1 ∧ (agentCall s c ep b r p).2.1 = (agentCall s' c ep b r p).2.1 := by
  have hcc := checkBackendID_congr s s' c b hb
  rcases agentCall_cases s c ep b r p with ⟨e, hc, h1⟩ | ⟨hc, h1⟩
  · rw [h1, agentCall_err (hcc ▸ hc) ep r p]; simp
  · rw [h1, agentCall_ok (hcc ▸ hc) ep r p]
    unfold agentOk
    cases ep with
    | list => simp [hp]
    | fetch =>
      by_cases hr0 : r = []
      · simp [hr0]
      · simp only [hr0, if_false, hr r]
        cases getReq s'.reqs (b, r) <;> exact ⟨rfl, rfl⟩
    | respond =>
      by_cases hr0 : r = []
      · simp [hr0]
      · simp only [hr0, if_false, hr r]
        cases getReq s'.reqs (b, r) <;> exact ⟨rfl, rfl⟩

/-- A response is stored only for a request that exists under the caller's own backend. -/
theorem respond_needs_own_request (s : St) (c : Caller) (b : Bid) (r : Rid) (p : Bytes)
    (h : (agentCall s c .respond b r p).2.2.resps ≠ s.resps) :
    (getReq s.reqs (b, r)).isSome ∧ (agentCall s c .respond b r p).2.2.resps = (r, p) :: s.resps := by
  rcases agentCall_respond s c b r p with ⟨_, h1⟩ | ⟨_, _, _, h2, h3, _⟩
  · rw [h1] at h; exact absurd rfl h
  · exact ⟨h2, h3⟩

/-- End users are only ever routed to a backend registered for their own identity or for allUsers. -/
theorem enduser_routing (s : St) (c : Caller) (ls : Bytes → Option Int) (now : Int) (rid : Rid) (path contents : Bytes) (b : Bid)
    (hid : ∀ x ∈ s.backends, x.BackendID ≠ [])
    (h : (userPost s c ls now rid path contents).2.1 = some b) :
    ∃ u be, c.user = some u ∧ be ∈ s.backends ∧ be.BackendID = b ∧ (be.EndUser = u ∨ be.EndUser = store_sharedBackendUser) := by
  obtain ⟨u, hu, hl, _⟩ := userPost_some h
  obtain ⟨be, hbe, h1, h2⟩ := InvProxy.C18.routed_backend_owner { backends := s.backends, lastSeen := ls } u path now b hid hl
  exact ⟨u, be, hu, hbe, h1, h2⟩

theorem unsigned_401 (s : St) (c : Caller) (ls : Bytes → Option Int) (now : Int) (rid : Rid) (path contents : Bytes)
    (h : c.user = none) : userPost s c ls now rid path contents = (401, none, s) := by
  unfold userPost; rw [h]

/-- The backend-administration API answers only administrators: everybody else gets 403 and changes nothing. -/
theorem admin_only (s : St) (c : Caller) (op : AdminOp) (h : isAdmin c = false) :
    adminCall s c op = (403, .text 5, s) := by
  unfold adminCall; simp [h]

/-- T3: in all three agent handlers `checkBackendID` comes before any store access or reply,
    the admin test comes before any backend CRUD handler, and the cron handler is protected
    by `login: admin` in api.yaml. -/
theorem check_precedes_store :
    Skel.precedes (.call "checkBackendID") (.call "waitForNextRequests") skel_app_pendingHandler = true ∧
    Skel.precedes (.call "checkBackendID") (.call "s.ReadRequest") skel_app_requestHandler = true ∧
    Skel.precedes (.call "checkBackendID") (.call "w.Write") skel_app_requestHandler = true ∧
    Skel.precedes (.call "checkBackendID") (.call "parseResponse") skel_app_responseHandler = true ∧
    Skel.precedes (.call "checkBackendID") (.call "postResponse") skel_app_responseHandler = true ∧
    Skel.precedes (.call "user.CurrentOAuth") (.call "s.IsBackendUserAllowed") skel_app_checkBackendID = true ∧
    Skel.precedes (.call "isAdminRequest") (.call "listBackendsHandler") skel_app_handleAPIRequest = true ∧
    Skel.precedes (.call "isAdminRequest") (.call "addBackendHandler") skel_app_handleAPIRequest = true ∧
    Skel.precedes (.call "isAdminRequest") (.call "deleteBackendHandler") skel_app_handleAPIRequest = true ∧
    Skel.precedes (.call "user.Current") (.call "s.LookupBackend") skel_app_proxyHandler = true ∧
    Skel.precedes (.call "s.LookupBackend") (.call "postRequest") skel_app_proxyHandler = true ∧
    yaml_api_handlers = [([47,97,112,105,47,46,42], []), ([47,99,114,111,110,47,46,42], [97,100,109,105,110])] := by decide

/-- T1: every cache and datastore key that is built from a backend ID and a request ID quotes
    both (`%q` output is self-delimiting), so two different (backend, request) pairs can never
    be stored or cached under one key — which `ReadRequest`/`ReadResponse` of the caching store
    rely on when they trust a cache hit.  (`r:%s:%s` would let backend `team` with request
    `prod:R` hit the cached request `R` of backend `team:prod`.) -/
theorem store_keys_quote_ids :
    cache_requestKeyFormat = [114,58,37,113,58,37,113] ∧                     -- "r:%q:%q"
    cache_responseKeyFormat = [114,101,115,112,58,37,113,58,37,113] ∧         -- "resp:%q:%q"
    store_requestKindFormat = [37,115,37,113] := by decide                    -- "%s%q" (prefix, backend ID)

/-- T1: the memcache layer answers no authorisation or routing question itself — the agent
    identity check, the backend lookup for end users and the backend CRUD operations are plain
    delegations to the datastore-backed store, so `AppAuth` (which has no cache for them) is the
    right model: a re-registered or cleaned-up backend is forgotten at once. -/
theorem authorisation_never_cached :
    "IsBackendUserAllowed" ∈ cache_pureDelegations ∧ "LookupBackend" ∈ cache_pureDelegations ∧
    "AddBackend" ∈ cache_pureDelegations ∧ "DeleteBackend" ∈ cache_pureDelegations ∧
    "ListBackends" ∈ cache_pureDelegations ∧ "ListPendingRequests" ∈ cache_pureDelegations := by decide

/-- T1: the ID under which an end-user request is stored (and under which its response is
    looked up — responses are keyed by request ID alone) is App Engine's own request ID; a client
    cannot choose it, so it cannot name another user's in-flight request. -/
theorem request_id_not_client_controlled : app_requestIDSource = "appengine.RequestID(ctx)" := by decide

end InvProxy.C17
