/-
  C03 — the client receives the backend's response unaltered.  Property theorems only.
-/
import InvProxy.Model.RespPath
import InvProxy.Proofs.RespPath
namespace InvProxy.C03
open InvProxy InvProxy.RespPath InvProxy.Gen

/-- the set of hop-by-hop field names of the agent is the documented one -/
theorem hop_table : utils_hopHeaders.length = 9 ∧ utils_hopHeaders.all (fun k => Go.canon k == k) = true := by decide

/-- interim responses: exactly the 1xx codes other than 101 are ignored -/
theorem interim_ignored (c : Int) : utils_srwIgnoresStatus c = true ↔ (100 ≤ c ∧ c ≤ 199 ∧ c ≠ 101) := by
  unfold utils_srwIgnoresStatus
  simp only [Bool.and_eq_true, decide_eq_true_eq, bne_iff_ne, ge_iff_le, ne_eq]
  omega

/-- The response status is the first final status the handler writes — interim (1xx)
    responses before it do not become the status — or 200 when the body comes first. -/
theorem srw_final_status (ops : List HOp) : (output ops).status = finalStatus ops := by
  rw [output_eq]

/-- the body is exactly the concatenation of the handler's writes, for any chunking -/
theorem srw_body (ops : List HOp) : (output ops).body = bodyOf ops := by
  rw [output_eq]

/-- Hop-by-hop fields never reach the client, neither as headers nor as trailers — for
    handlers that keep `http.Header`'s invariant of canonical keys (as `ReverseProxy` does:
    it copies with `Header.Add` and prefixes canonical trailer names).  Without that
    precondition the statement is false, because the writer tests the raw key and only
    canonicalises it when storing (`RespPath.srw_hop_filtered_orig_false_hdr/_trailer`). -/
theorem srw_hop_filtered (ops : List HOp) (k : Bytes) (hk : k ∈ utils_hopHeaders)
    (hcan : ∀ p ∈ headerAtHead [] ops, Go.canon p.1 = p.1) (hsc : SuffixCanon (headerAtClose ops)) :
    Hdr.values (output ops).hdr k = [] ∧ Hdr.values (output ops).trailer k = [] :=
  srw_hop_filtered_fixed ops k hk hcan hsc

/-- Every end-to-end header field present when the head is fixed is forwarded with all its
    values in order (repeated fields such as Set-Cookie included). -/
theorem srw_headers_preserved (ops : List HOp) (k : Bytes) (hk : k ∉ utils_hopHeaders)
    (hwf : WF (headerAtHead [] ops)) :
    Hdr.values (output ops).hdr k = Hdr.values (headerAtHead [] ops) k := by
  rw [output_eq]; exact filter_preserved _ k hwf hk

/-- Declared trailers — any number of them, announced one per `Trailer` value or several in
    one comma-separated value — are delivered as trailers with the values the handler set. -/
theorem srw_declared_trailers (ops : List HOp) (v t : Bytes)
    (hv : v ∈ Hdr.Values (headerAtHead [] ops) [84,114,97,105,108,101,114])
    (ht : t ∈ (Go.split v [44]).map (fun k => Go.canon (Go.trimSpace k)))
    (hne : t ≠ []) (hh : t ∉ utils_hopHeaders)
    (hnp : ∀ k ∈ (headerAtClose ops).map (·.1), Go.cutPrefix2 k trailerPrefix ≠ (t, true))
    (hc : Go.canon t = t) (hsc : SuffixCanon (headerAtClose ops)) :
    Hdr.values (output ops).trailer t = Hdr.values (headerAtClose ops) t :=
  srw_declared_trailers_fixed ops v t hv ht hne hh hnp hc hsc

/-- Known finding `C03:trailer-altered:same-name-as-header` (kernel-checked on the model, reproduced on every run
    against the real code): a field the backend sends both as a header and, with another value, as a declared
    trailer.  ReverseProxy hands the trailer value over by *adding* it under the same key, and `Close` takes every
    value of a declared key, so the header's value is delivered a second time, as a trailer.  The
    `http.ResponseWriter` interface gives the writer no way to tell the two apart (a handler may also replace the
    value), so this is recorded, not repaired. -/
theorem same_name_trailer_counterexample :
    (output [.setHeader [84,114,97,105,108,101,114] [88,45,66], .setHeader [88,45,66] [104], .writeHeader 200, .write [1],
             .addHeader [88,45,66] [116]]).trailer = [([88,45,66], [[104], [116]])] := by decide

/-- Undeclared trailers (`Trailer:`-prefixed keys, how ReverseProxy passes unannounced
    trailers) are delivered as trailers too. -/
theorem srw_undeclared_trailers (ops : List HOp) (t : Bytes) (hh : t ∉ utils_hopHeaders)
    (hnd : t ∉ (utils_srwDeclareTrailers (headerAtHead [] ops)).map (·.1))
    (hwf : WF (headerAtClose ops)) (hsc : SuffixCanon (headerAtClose ops)) :
    Hdr.values (output ops).trailer t = Hdr.values (headerAtClose ops) (trailerPrefix ++ t) :=
  srw_undeclared_trailers_fixed ops t hh hnd hwf hsc

/-- T: the streamed response owns its header and trailer maps (no map is shared between the
    handler goroutine and the serialising goroutine), so the response emitted under any
    timing of header/body/trailer production is the sequential `output`. -/
theorem no_shared_maps : utils_srwHeaderAliased = false ∧ utils_srwTrailerShared = false := by decide

/-- the stand-alone proxy forwards every non-hop-by-hop header field of the uploaded
    response and announces chunked transfer; hop-by-hop fields are dropped -/
theorem proxy_copy_headers (r : Resp) (k : Bytes) (hwf : WF r.hdr) (hk : server_isHopByHopHeader k = false)
    (hte : k ≠ Go.canon [116,114,97,110,115,102,101,114,45,101,110,99,111,100,105,110,103]) :
    Hdr.values (proxyCopy r).hdr k = Hdr.values r.hdr k := by
  exact values_copyH r.hdr k hwf.1 hk hte

/-- … and passes the trailers on as trailers (`Trailer:`-prefixed header fields set after the body) -/
theorem proxy_copy_trailers (r : Resp) (t : Bytes) (hwf : WF r.trailer) (ht : server_isHopByHopHeader t = false) (hc : Go.canon t = t)
    (hin : t ∈ r.trailer.map (·.1)) :
    Hdr.values (proxyCopy r).after (Go.canon (trailerPrefix ++ t)) =
      Hdr.values (proxyCopy r).hdr (Go.canon (trailerPrefix ++ t)) ++ Hdr.values r.trailer t := by
  have _ := hc; have _ := hin  -- not needed: `Trailer:`-prefixed names are never rewritten by `Go.canon`
  exact values_copyT r.trailer _ t hwf.1 ht

/-- End to end (agent writer → wire → proxy copy), under the standard-library clauses:
    same final status, same body, every end-to-end header value in order. -/
theorem resp_fidelity (wire : Resp → Resp) (hs : StdRespSpec wire) (ops : List HOp) (k : Bytes)
    (hk : k ∉ utils_hopHeaders) (hk2 : server_isHopByHopHeader k = false)
    (hfr : k ∉ [[67,111,110,116,101,110,116,45,76,101,110,103,116,104], [84,114,97,110,115,102,101,114,45,69,110,99,111,100,105,110,103], [84,114,97,105,108,101,114]])
    (hwf : WF (headerAtHead [] ops)) (hwf2 : WF (output ops).hdr) (hwf3 : WF (output ops).trailer) :
    (proxyCopy (wire (output ops))).status = finalStatus ops ∧
    (proxyCopy (wire (output ops))).body = bodyOf ops ∧
    Hdr.values (proxyCopy (wire (output ops))).hdr k = Hdr.values (headerAtHead [] ops) k := by
  have hw := hs.wf (output ops) hwf2 hwf3
  refine ⟨?_, ?_, ?_⟩
  · show (wire (output ops)).status = _
    rw [hs.status, srw_final_status]
  · show (wire (output ops)).body = _
    rw [hs.body, srw_body]
  · have hte : k ≠ Go.canon [116,114,97,110,115,102,101,114,45,101,110,99,111,100,105,110,103] := by
      rw [show Go.canon [116,114,97,110,115,102,101,114,45,101,110,99,111,100,105,110,103]
            = [84,114,97,110,115,102,101,114,45,69,110,99,111,100,105,110,103] by decide]
      intro e; apply hfr; rw [e]; simp
    rw [proxy_copy_headers _ k hw.1 hk2 hte, hs.hdr _ k hfr, srw_headers_preserved ops k hk hwf]

/-- T1 (wiring the response-path model assumes): the stand-alone proxy serves its proxy handler
    directly.  The agent's upload of a backend response is the *request* body of
    `POST agent/response`, so any request-side wrapper in `main` (size cap, timeout handler, body
    rewriting) would act on backend responses. -/
theorem server_serves_proxy_directly : server_servedHandler = "newProxy()" := by decide

-- non-vacuity: 103 then 200, two declared trailers in one value, an undeclared trailer, a hop-by-hop header
example : output [.setHeader [76,105,110,107] [120], .writeHeader 103, .delHeader [76,105,110,107],
    .setHeader [84,114,97,105,108,101,114] [88,45,65,44,32,88,45,66], .setHeader [67,111,110,110,101,99,116,105,111,110] [120],
    .writeHeader 200, .write [1], .setHeader [88,45,65] [97], .setHeader [88,45,66] [98],
    .setHeader (trailerPrefix ++ [88,45,67]) [99]] =
  { status := 200, hdr := [], body := [1], trailer := [([88,45,67], [[99]]), ([88,45,65], [[97]]), ([88,45,66], [[98]])] } := by decide

end InvProxy.C03
