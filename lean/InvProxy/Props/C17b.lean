/-
  C17 (continued) — cache and datastore keys separate backends.  Property theorems only.
-/
import InvProxy.Model.Keys
import InvProxy.Gen.Consts
import InvProxy.Proofs.Keys
namespace InvProxy.C17b
open InvProxy InvProxy.Keys InvProxy.Gen

/-- `%q` output is a prefix code: no quoted string is a proper prefix of another one followed by anything. -/
theorem quote_prefix_free (x y s t : Bytes) (h : quote x ++ s = quote y ++ t) : x = y ∧ s = t := by
  exact quote_prefix_free' h

/-- A format that quotes both arguments gives every (backend, request) pair its own key. -/
theorem quoted_key_injective (pre mid : Bytes) (b r b' r' : Bytes)
    (h : (Fmt2.mk pre .q mid .q).key b r = (Fmt2.mk pre .q mid .q).key b' r') : b = b' ∧ r = r' := by
  exact quoted_key_inj pre mid b r b' r' h

/-- The formats found in the source (regenerated on every run) parse to all-quoted formats … -/
theorem source_formats_quote :
    parse2 cache_requestKeyFormat = some ⟨[114,58], .q, [58], .q⟩ ∧
    parse2 cache_responseKeyFormat = some ⟨[114,101,115,112,58], .q, [58], .q⟩ := by
  decide

/-- … so the memcache keys of two different (backend ID, request ID) pairs never coincide:
    a cache hit in `ReadRequest`/`ReadResponse` is always an entry of the backend that was authorised. -/
theorem memcache_keys_separate (f : Fmt2) (hf : parse2 cache_requestKeyFormat = some f ∨ parse2 cache_responseKeyFormat = some f)
    (b r b' r' : Bytes) (h : f.key b r = f.key b' r') : b = b' ∧ r = r' := by
  obtain ⟨h1, h2⟩ := source_formats_quote
  rcases hf with hf | hf
  · rw [h1] at hf; cases hf; exact quoted_key_inj _ _ b r b' r' h
  · rw [h2] at hf; cases hf; exact quoted_key_inj _ _ b r b' r' h

/-- The datastore kind `prefix ++ %q backendID` separates backends as well. -/
theorem request_kind_injective (pre b b' : Bytes) (h : pre ++ quote b = pre ++ quote b') : b = b' := by
  exact quote_inj (List.append_cancel_left h)

/-- Counter-example kept as a theorem: with `%s` the mapping is not injective — backend `team:prod` with
    request `R` and backend `team` with request `prod:R` share the key `r:team:prod:R`. -/
theorem unquoted_key_collides :
    (Fmt2.mk [114,58] .s [58] .s).key [116,101,97,109,58,112,114,111,100] [82] =
    (Fmt2.mk [114,58] .s [58] .s).key [116,101,97,109] [112,114,111,100,58,82] ∧
    ([116,101,97,109,58,112,114,111,100] : Bytes) ≠ [116,101,97,109] := by
  decide

/-- Non-vacuity / sanity: the model's `%q` on a string with a quote, a backslash, a newline and a NUL. -/
example : quote [97, 34, 92, 10, 0] = [34, 97, 92, 34, 92, 92, 92, 110, 92, 120, 48, 48, 34] := by decide

/-- The two key spaces are disjoint as well: a stored *request* is never read back as a *response* (or vice versa),
    whatever backend and request IDs are involved — the regenerated formats differ in their second byte. -/
theorem request_and_response_keys_disjoint (fq fp : Fmt2)
    (hq : parse2 cache_requestKeyFormat = some fq) (hp : parse2 cache_responseKeyFormat = some fp)
    (b r b' r' : Bytes) : fq.key b r ≠ fp.key b' r' := by
  obtain ⟨h1, h2⟩ := source_formats_quote
  rw [h1] at hq; rw [h2] at hp; cases hq; cases hp
  simp [Fmt2.key]

end InvProxy.C17b
