/-
  C09 — identity and credential headers reaching the backend are trustworthy.
  Property theorems only.  `Gen.agent_forwardRequestHeader` is the slice of header edits
  of `forwardRequest` and `Gen.websockets_stripWSHeader` the filter applied before the
  websocket dial; both are regenerated from /repo on every run (tie T).
-/
import InvProxy.Base.GoTypes
import InvProxy.Gen.Consts
import InvProxy.Gen.Funcs
import InvProxy.Proofs.StripWS
namespace InvProxy.C09
open InvProxy InvProxy.Gen

/-- key under which `Header.Get/Set/Add/Del(HeaderUserID)` operate -/
def userKey : Bytes := Go.canon utils_HeaderUserID
def authKey : Bytes := Go.canon agent_headerAuthorization

theorem keys_distinct : userKey ≠ authKey := by decide

/-- what the regenerated slice of `forwardRequest` does, in one line -/
theorem fwd_eq (fu sc : Bool) (u : Bytes) (h : Hdr) :
    agent_forwardRequestHeader fu sc u h =
      (if sc then Hdr.del (if fu then Hdr.set h userKey u else h) authKey
       else (if fu then Hdr.set h userKey u else h)) := by
  cases fu <;> cases sc <;>
    simp [agent_forwardRequestHeader, Id.run, pure, Hdr.Set, Hdr.Del, userKey, authKey]

/-- With user-ID forwarding enabled the backend-bound request carries exactly one identity
    value and it is the one asserted by the proxy — whatever the client supplied (forged,
    repeated; every spelling of the name is folded onto this key by the HTTP parser). -/
theorem user_id_exact (sc : Bool) (u : Bytes) (h : Hdr) :
    Hdr.values (agent_forwardRequestHeader true sc u h) userKey = [u] := by
  rw [fwd_eq]
  cases sc <;> simp [Hdr.values_del_ne _ _ _ keys_distinct]

/-- With credential stripping enabled no Authorization value is left. -/
theorem no_authorization (fu : Bool) (u : Bytes) (h : Hdr) :
    Hdr.values (agent_forwardRequestHeader fu true u h) authKey = [] := by
  rw [fwd_eq]; simp [Hdr.values_del_self]

/-- The two options are independent and touch nothing else: every other header field
    reaches the handler chain unchanged, for all four flag combinations. -/
theorem other_headers_untouched (fu sc : Bool) (u : Bytes) (h : Hdr) (k : Bytes)
    (hu : k ≠ userKey) (ha : k ≠ authKey) :
    Hdr.values (agent_forwardRequestHeader fu sc u h) k = Hdr.values h k := by
  rw [fwd_eq]
  cases fu <;> cases sc <;> simp [Hdr.values_del_ne _ _ _ ha, Hdr.values_set_ne _ _ _ _ hu]

theorem flags_off_identity (u : Bytes) (h : Hdr) : agent_forwardRequestHeader false false u h = h := by
  rw [fwd_eq]; simp

/-- without user-ID forwarding the identity header is not asserted (left as received) -/
theorem user_id_off (sc : Bool) (u : Bytes) (h : Hdr) :
    Hdr.values (agent_forwardRequestHeader false sc u h) userKey = Hdr.values h userKey := by
  rw [fwd_eq]
  cases sc <;> simp [Hdr.values_del_ne _ _ _ keys_distinct]

/-! ### websocket-shim connections: the dial header is `stripWSHeader` of the edited header -/

/-- loop invariant of `stripWSHeader`: it never invents a value -/
theorem strip_values_sub (h : Hdr) (k : Bytes) :
    Hdr.values (websockets_stripWSHeader h) k = [] ∨ ∃ p ∈ h, p.1 = k ∧ Hdr.values (websockets_stripWSHeader h) k = p.2 := by
  rw [StripWS.strip_eq_foldl]
  exact StripWS.foldl_values_sub h [] k

/-- Authorization never reaches the backend on a shim connection either: the header used
    for the websocket dial is derived from the already stripped request header and the
    derivation cannot re-introduce the field. -/
theorem shim_no_authorization (fu : Bool) (u : Bytes) (h : Hdr) :
    Hdr.values (websockets_stripWSHeader (agent_forwardRequestHeader fu true u h)) authKey = [] := by
  rw [fwd_eq]
  simp only [if_true]
  rcases strip_values_sub (Hdr.del (if fu then Hdr.set h userKey u else h) authKey) authKey with h1 | ⟨p, hp, hk, _⟩
  · exact h1
  · exact absurd hk (StripWS.del_no_key _ _ p hp)

-- non-vacuity: a forged identity and a credential
example : Hdr.values (agent_forwardRequestHeader true true [117] [(userKey, [[120],[121]]), (authKey, [[122]])]) userKey = [[117]] := by decide
example : Hdr.values (agent_forwardRequestHeader true true [117] [(userKey, [[120],[121]]), (authKey, [[122]])]) authKey = [] := by decide

end InvProxy.C09
