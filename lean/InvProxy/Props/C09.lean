/-
  C09 — identity and credential headers reaching the backend are trustworthy.
  Property theorems only.  `Gen.agent_forwardRequestHeader` is the slice of header edits
  of `forwardRequest` and `Gen.websockets_stripWSHeader` the filter applied before the
  websocket dial; both are regenerated from /repo on every run (tie T).
-/
import InvProxy.Base.GoTypes
import InvProxy.Gen.Consts
import InvProxy.Gen.Funcs
import InvProxy.Proofs.StripWS
import InvProxy.Proofs.ConnOpt
namespace InvProxy.C09
open InvProxy InvProxy.Gen

/-- key under which `Header.Get/Set/Add/Del(HeaderUserID)` operate -/
def userKey : Bytes := Go.canon utils_HeaderUserID
def authKey : Bytes := Go.canon agent_headerAuthorization

theorem keys_distinct : userKey ≠ authKey := by decide

/-- what the regenerated slice of `forwardRequest` does, in one line -/
theorem fwd_eq (fu sc : Bool) (u : Bytes) (h : Hdr) :
    agent_forwardRequestHeader fu sc u h =
      (if sc then Hdr.del (if fu then Hdr.dropConnOption (Hdr.set h userKey u) utils_HeaderUserID else h) authKey
       else (if fu then Hdr.dropConnOption (Hdr.set h userKey u) utils_HeaderUserID else h)) := by
  cases fu <;> cases sc <;>
    simp [agent_forwardRequestHeader, Id.run, pure, Hdr.Set, Hdr.Del, userKey, authKey]

/-- With user-ID forwarding enabled the backend-bound request carries exactly one identity
    value and it is the one asserted by the proxy — whatever the client supplied (forged,
    repeated; every spelling of the name is folded onto this key by the HTTP parser). -/
theorem user_id_exact (sc : Bool) (u : Bytes) (h : Hdr) :
    Hdr.values (agent_forwardRequestHeader true sc u h) userKey = [u] := by
  have hc : userKey ≠ Hdr.connKey := by decide
  rw [fwd_eq]
  cases sc <;>
    simp [Hdr.values_del_ne _ _ _ keys_distinct, ConnOpt.values_drop_ne _ _ _ hc]

/-- … and no `Connection` option names it any more, whatever `Connection` values the client
    sent (any case, padded, repeated, among other options): `httputil.ReverseProxy`, which
    deletes exactly the keys in `Hdr.connDrops` before forwarding, cannot be made to drop it. -/
theorem identity_not_hop_by_hop (sc : Bool) (u : Bytes) (h : Hdr) :
    userKey ∉ Hdr.connDrops (agent_forwardRequestHeader true sc u h) := by
  have hopt : Hdr.connOptions (agent_forwardRequestHeader true sc u h) =
      (Hdr.connOptions (Hdr.set h userKey u)).filter (fun o => !(Hdr.equalFold o utils_HeaderUserID)) := by
    rw [← ConnOpt.connOptions_drop, fwd_eq]
    cases sc
    · simp
    · simp only [if_true]
      exact ConnOpt.connOptions_congr _ _ (Hdr.values_del_ne _ _ _ (by decide))
  intro hm
  unfold Hdr.connDrops at hm
  rw [hopt] at hm
  obtain ⟨o, ho, hcan⟩ := List.mem_map.mp hm
  have hf := (List.mem_filter.mp ho).2
  rw [ConnOpt.equalFold_of_canon_eq o utils_HeaderUserID hcan] at hf
  exact Bool.noConfusion hf

/-- `removeHopByHopHeaders` of `httputil.ReverseProxy` as far as `Connection` options go -/
def rpDropConnNamed (h : Hdr) : Hdr := Hdr.dropConnNamed h

/-- … so the backend receives exactly the asserted identity (C09 for every client header set,
    `Connection: X-Inverting-Proxy-User-ID` included). -/
theorem backend_receives_identity (sc : Bool) (u : Bytes) (h : Hdr) :
    Hdr.values (rpDropConnNamed (agent_forwardRequestHeader true sc u h)) userKey = [u] := by
  unfold rpDropConnNamed Hdr.dropConnNamed
  rw [ConnOpt.values_foldl_del _ _ _ (identity_not_hop_by_hop sc u h)]
  exact user_id_exact sc u h

/-- With credential stripping enabled no Authorization value is left. -/
theorem no_authorization (fu : Bool) (u : Bytes) (h : Hdr) :
    Hdr.values (agent_forwardRequestHeader fu true u h) authKey = [] := by
  rw [fwd_eq]; simp [Hdr.values_del_self]

/-- The two options are independent and touch nothing else: every other header field
    (`Connection` aside, from which only options naming the identity header are removed)
    reaches the handler chain unchanged, for all four flag combinations. -/
theorem other_headers_untouched (fu sc : Bool) (u : Bytes) (h : Hdr) (k : Bytes)
    (hu : k ≠ userKey) (ha : k ≠ authKey) (hc : k ≠ Hdr.connKey) :
    Hdr.values (agent_forwardRequestHeader fu sc u h) k = Hdr.values h k := by
  rw [fwd_eq]
  cases fu <;> cases sc <;>
    simp [Hdr.values_del_ne _ _ _ ha, Hdr.values_set_ne _ _ _ _ hu, ConnOpt.values_drop_ne _ _ _ hc]

/-- the `Connection` header only loses options: every option that is still there was there before -/
theorem connection_options_only_removed (fu sc : Bool) (u : Bytes) (h : Hdr) :
    ∀ o ∈ Hdr.connOptions (agent_forwardRequestHeader fu sc u h), o ∈ Hdr.connOptions h := by
  have hset : Hdr.connOptions (Hdr.set h userKey u) = Hdr.connOptions h :=
    ConnOpt.connOptions_congr _ _ (Hdr.values_set_ne _ _ _ _ (by decide))
  have hdel : ∀ g : Hdr, Hdr.connOptions (Hdr.del g authKey) = Hdr.connOptions g :=
    fun g => ConnOpt.connOptions_congr _ _ (Hdr.values_del_ne _ _ _ (by decide))
  intro o ho
  rw [fwd_eq] at ho
  cases fu <;> cases sc <;>
    simp only [if_true, if_false, Bool.false_eq_true, hdel, ConnOpt.connOptions_drop, hset] at ho
  · exact ho
  · exact ho
  · exact (List.mem_filter.mp ho).1
  · exact (List.mem_filter.mp ho).1

/-- … and only those naming the identity header are lost (e.g. `Upgrade`, `close`, `keep-alive` stay) -/
theorem other_connection_options_kept (sc : Bool) (u : Bytes) (h : Hdr) (o : Bytes)
    (ho : o ∈ Hdr.connOptions h) (hne : Hdr.equalFold o utils_HeaderUserID = false) :
    o ∈ Hdr.connOptions (agent_forwardRequestHeader true sc u h) := by
  have hset : Hdr.connOptions (Hdr.set h userKey u) = Hdr.connOptions h :=
    ConnOpt.connOptions_congr _ _ (Hdr.values_set_ne _ _ _ _ (by decide))
  have hdel : ∀ g : Hdr, Hdr.connOptions (Hdr.del g authKey) = Hdr.connOptions g :=
    fun g => ConnOpt.connOptions_congr _ _ (Hdr.values_del_ne _ _ _ (by decide))
  rw [fwd_eq]
  cases sc <;>
    simp only [if_true, if_false, Bool.false_eq_true, hdel, ConnOpt.connOptions_drop, hset]
  all_goals exact List.mem_filter.mpr ⟨ho, by simp [hne]⟩

theorem flags_off_identity (u : Bytes) (h : Hdr) : agent_forwardRequestHeader false false u h = h := by
  rw [fwd_eq]; simp

/-- without user-ID forwarding the identity header is not asserted (left as received) -/
theorem user_id_off (sc : Bool) (u : Bytes) (h : Hdr) :
    Hdr.values (agent_forwardRequestHeader false sc u h) userKey = Hdr.values h userKey := by
  rw [fwd_eq]
  cases sc <;> simp [Hdr.values_del_ne _ _ _ keys_distinct]

-- non-vacuity: a forged identity, named in Connection next to another option
example : agent_forwardRequestHeader true false [117]
    [(userKey, [[114,111,111,116]]), (Hdr.connKey, [[99,108,111,115,101,44,32,120,45,105,110,118,101,114,116,105,110,103,45,112,114,111,120,121,45,117,115,101,114,45,105,100]])] =
    [(Hdr.connKey, [[99,108,111,115,101]]), (userKey, [[117]])] := by decide

/-! ### websocket-shim connections: the dial header is `stripWSHeader` of the edited header -/

/-- loop invariant of `stripWSHeader`: it never invents a value -/
theorem strip_values_sub (h : Hdr) (k : Bytes) :
    Hdr.values (websockets_stripWSHeader h) k = [] ∨ ∃ p ∈ h, p.1 = k ∧ Hdr.values (websockets_stripWSHeader h) k = p.2 := by
  rw [StripWS.strip_eq_foldl]
  exact StripWS.foldl_values_sub h [] k

/-- Authorization never reaches the backend on a shim connection either: the header used
    for the websocket dial is derived from the already stripped request header and the
    derivation cannot re-introduce the field. -/
theorem shim_no_authorization (fu : Bool) (u : Bytes) (h : Hdr) :
    Hdr.values (websockets_stripWSHeader (agent_forwardRequestHeader fu true u h)) authKey = [] := by
  rw [fwd_eq]
  simp only [if_true]
  generalize (if fu = true then Hdr.dropConnOption (Hdr.set h userKey u) utils_HeaderUserID else h) = g
  rcases strip_values_sub (Hdr.del g authKey) authKey with h1 | ⟨p, hp, hk, _⟩
  · exact h1
  · exact absurd hk (StripWS.del_no_key _ _ p hp)

-- non-vacuity: a forged identity and a credential
example : Hdr.values (agent_forwardRequestHeader true true [117] [(userKey, [[120],[121]]), (authKey, [[122]])]) userKey = [[117]] := by decide
example : Hdr.values (agent_forwardRequestHeader true true [117] [(userKey, [[120],[121]]), (authKey, [[122]])]) authKey = [] := by decide

end InvProxy.C09
