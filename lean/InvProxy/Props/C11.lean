/-
  C11 — shimmed websockets deliver every message once, in order, unchanged.  Property theorems only.
-/
import InvProxy.Model.WsCodec
import InvProxy.Model.WsRelay
import InvProxy.Proofs.B64
import InvProxy.Proofs.WsRelay
import InvProxy.Proofs.WsInject
namespace InvProxy.C11
open InvProxy InvProxy.WsCodec InvProxy.WsRelay InvProxy.Gen

/-- binary payloads survive the base64 transport encoding of protocol version 1, for all byte strings -/
theorem b64_roundtrip (bs : Bytes) : b64dec (b64enc bs) = some bs :=
  b64_roundtrip' bs

/-- what the server-side shim serialises is decoded by the client-message decoder to the
    same message: type and payload unchanged, text and binary -/
theorem client_codec (m : Msg) : decodeClient (serialize m) = .msg m := by
  cases m with
  | text d => rfl
  | binary d => simp only [serialize, decodeClient, b64_roundtrip']

/-- Exactly once, in order: at every point of every interleaving of producer and consumer
    steps — any batching, any number of messages beyond the channel capacity — what has been
    delivered, what is buffered and what is still to be sent concatenate to the original
    sequence. -/
theorem relay_invariant {μ : Type} (cap : Nat) (msgs : List μ) (acts : List Act) (s : St μ)
    (h : run (start cap msgs) acts = some s) : s.done ++ s.chan ++ s.todo = msgs :=
  run_inv acts (start cap msgs) s (by simp [start]) h

/-- hence the peer always holds a prefix of what was sent … -/
theorem relay_prefix {μ : Type} (cap : Nat) (msgs : List μ) (acts : List Act) (s : St μ)
    (h : run (start cap msgs) acts = some s) : s.done <+: msgs :=
  ⟨s.chan ++ s.todo, by rw [← List.append_assoc]; exact run_inv acts (start cap msgs) s (by simp [start]) h⟩

/-- … and everything once the queues are empty. -/
theorem relay_complete {μ : Type} (cap : Nat) (msgs : List μ) (acts : List Act) (s : St μ)
    (h : run (start cap msgs) acts = some s) (h1 : s.chan = []) (h2 : s.todo = []) : s.done = msgs := by
  have := run_inv (msgs := msgs) acts (start cap msgs) s (by simp [start]) h
  simpa [h1, h2] using this

/-- what has been delivered is never retracted or rewritten: along every run the delivered sequence only grows at its end -/
theorem relay_delivered_monotone {μ : Type} (acts : List Act) (s s' : St μ) (h : run s acts = some s') : s.done <+: s'.done :=
  run_done_prefix acts s s' h

/-- batching is immaterial: a poll that takes k buffered messages at once leaves exactly the state that k single
    receives leave — for every k and every state -/
theorem relay_poll_batching_immaterial {μ : Type} (k : Nat) (s : St μ) (h1 : 1 ≤ k) (h2 : k ≤ s.chan.length) :
    step s (.drain k) = run s (List.replicate k .deq) :=
  drain_eq_deqs k s h1 h2

/-- runs compose: a relay observed in two stretches behaves as in one -/
theorem relay_run_append {μ : Type} (a b : List Act) (s : St μ) :
    run s (a ++ b) = (run s a).bind (fun s1 => run s1 b) :=
  run_append a b s

/-- the buffer never exceeds the channel capacity (10 in the code) -/
theorem relay_bounded {μ : Type} (cap : Nat) (msgs : List μ) (acts : List Act) (s : St μ)
    (h : run (start cap msgs) acts = some s) : s.chan.length ≤ max cap 1 := by
  have hb := run_bounded acts (start cap msgs) s (by simp [start]) h
  rw [run_cap acts (start cap msgs) s h] at hb
  exact hb

/-- no deadlock and bounded progress: while something is undelivered some step is enabled,
    and every step strictly decreases `2·|todo| + |chan|` -/
theorem relay_progress {μ : Type} (s : St μ) (hne : s.todo ≠ [] ∨ s.chan ≠ []) :
    ∃ a s', step s a = some s' ∧ 2 * s'.todo.length + s'.chan.length < 2 * s.todo.length + s.chan.length :=
  progress s hne

/-- T3: both relay channels have capacity 10, the reader goroutine is the only sender on
    `serverMessages` and closes it exactly once on exit. -/
theorem relay_shape :
    Skel.chanCap "serverMessages" skel_websockets_NewConnection = some 10 ∧
    Skel.chanCap "clientMessages" skel_websockets_NewConnection = some 10 ∧
    Skel.count (.send "serverMessages") skel_websockets_NewConnection = 1 ∧
    Skel.count (.close "serverMessages") skel_websockets_NewConnection = 1 ∧
    Skel.sends "conn.serverMessages" skel_websockets_Connection_ReadServerMessages = false := by decide

/-! ### header injection -/

theorem inject_path : websockets_injectedHeadersPath = [resourceKey, headersKey] := by decide

/-- only JSON objects holding an object at `resource.headers` are changed -/
theorem inject_none_unless_target (hs : List (Bytes × Bytes)) (v : J) :
    (inject hs v).isSome ↔ ∃ top res hdrs, v = .obj top ∧ lookup resourceKey top = some (.obj res) ∧ lookup headersKey res = some (.obj hdrs) :=
  inject_isSome_iff hs v

/-- header fields already present are kept, absent ones are added with the request's
    value, and nothing else inside `resource.headers` changes -/
theorem addMissing_lookup (hs : List (Bytes × Bytes)) (fields : List (Bytes × J)) (k : Bytes) :
    lookup k (addMissing hs fields) =
      match lookup k fields with
      | some v => some v
      | none => (hs.find? (fun kv => kv.1 = k)).map (fun kv => J.str kv.2) :=
  addMissing_lookup' hs fields k

/-- every other member, at every level, is left as it was -/
theorem inject_frame (hs : List (Bytes × Bytes)) (top res hdrs : List (Bytes × J))
    (h1 : lookup resourceKey top = some (.obj res)) (h2 : lookup headersKey res = some (.obj hdrs)) :
    ∃ top' res', inject hs (.obj top) = some (.obj top') ∧
      lookup resourceKey top' = some (.obj res') ∧
      lookup headersKey res' = some (.obj (addMissing hs hdrs)) ∧
      (∀ k, k ≠ resourceKey → lookup k top' = lookup k top) ∧
      (∀ k, k ≠ headersKey → lookup k res' = lookup k res) ∧
      top'.map (·.1) = top.map (·.1) ∧ res'.map (·.1) = res.map (·.1) :=
  inject_frame' hs top res hdrs h1 h2

-- non-vacuity
example : b64enc [77, 97, 110] = [84, 87, 70, 117] := by decide
example : b64enc [0, 255] = [65, 80, 56, 61] := by decide
example : decodeClient (.arr [.num [49]]) = .skip := by decide
example : run (start 2 [1, 2, 3]) [.enq, .enq, .deq, .enq, .drain 2] = some { cap := 2, todo := [], chan := [], done := [1, 2, 3] } := by decide

end InvProxy.C11
