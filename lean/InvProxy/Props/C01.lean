/-
  C01 — every client gets the response to its own request, never another's.  Property theorems only.
-/
import InvProxy.Model.Relay
import InvProxy.Proofs.Relay
namespace InvProxy.C01
open InvProxy InvProxy.Relay InvProxy.Gen

/-- With an atomic ID draw, in every reachable state of every interleaving of client
    arrivals, fetches, backend completions, uploads and deliveries: a delivered response
    was produced from the receiving client's own request. -/
theorem relay_correlation (s : St) (h : Reachable .atomic s) (c tok : Cid) (hd : (c, tok) ∈ s.delivered) : tok = c :=
  (inv_reachable h).deliv c tok hd

/-- Each client receives at most one response. -/
theorem relay_at_most_one (s : St) (h : Reachable .atomic s) : (s.delivered.map (·.1)).Nodup :=
  (inv_reachable h).dnodup

/-- A fetch under an ID returns the request of the client registered under that ID, and the
    registration never changes afterwards. -/
theorem fetch_returns_own (s : St) (h : Reachable .atomic s) (w : Wid) (r : Rid) (c : Cid)
    (hf : (w, r, c) ∈ s.fetched) : lookup s.pending r = some c :=
  (inv_reachable h).fetched w r c hf

/-- request IDs are unique among registered requests -/
theorem ids_unique (s : St) (h : Reachable .atomic s) : (s.pending.map (·.1)).Nodup ∧ ∀ p ∈ s.pending, p.1 < s.next :=
  ⟨(inv_reachable h).nodup, (inv_reachable h).lt⟩

/-- The safety theorems above are not vacuous for lack of behaviour: in *every* state (however many other requests are
    pending, fetched, uploaded or delivered, and whatever this worker fetched before) a client without a pending request
    can be served — arrive, fetch under the new ID, upload, deliver all are enabled in turn and the client receives
    the response produced from its own request. -/
theorem fresh_client_can_be_served (s : St) (c : Cid) (w : Wid)
    (hp : c ∉ s.pending.map (·.2)) (hd : c ∉ s.delivered.map (·.1)) :
    ∃ s', run .atomic s [.arrive c, .fetch w s.next, .upload w, .deliver s.next] = some s' ∧
      s'.delivered = (c, c) :: s.delivered := by
  simp [run, step, hp, hd, lookup]

/-- With the unsynchronised generator two concurrent clients can draw the same ID; the
    later registration overwrites the earlier one and client 2 receives the response
    produced for client 1's request (the defect found in the original code). -/
theorem racy_duplicates_counterexample :
    (run .racy init [.read 1, .read 2, .advance 1, .fetch 7 0, .advance 2, .upload 7, .deliver 0]).map (·.delivered) =
      some [(2, 1)] := by decide

/-- T3: the code is in the `atomic` variant — the generator and the map are only touched
    under the proxy mutex, in `newID`, `ServeHTTP` and both agent handlers; the response
    rendezvous is the pending request's own unbuffered channel. -/
theorem id_generation_serialised :
    Skel.guarded "p" "p.randGenerator" skel_server_newID = true ∧
    Skel.guarded "p" "p.requests" skel_server_ServeHTTP = true ∧
    Skel.guarded "p" "p.requests" skel_server_handleAgentGetRequest = true ∧
    Skel.guarded "p" "p.requests" skel_server_handleAgentPostResponse = true ∧
    Skel.calls "p.newID" skel_server_ServeHTTP = true ∧
    Skel.count (.access "p.randGenerator") skel_server_ServeHTTP = 0 ∧
    server_respChanCap = 0 ∧
    Skel.count (.send "pending.respChan") skel_server_handleAgentPostResponse = 1 ∧
    Skel.count (.recv "pending.respChan") skel_server_ServeHTTP = 1 := by decide

/-- T1: request IDs are derived from a draw on a generator that is seeded from the clock when the proxy process
    starts, so two proxy instances do not hand out the same ID sequence.  (The agent and the requests it has at the
    backend outlive a proxy process; the isolation theorems above are per instance and assume unique IDs, which a
    per-instance counter would satisfy while making the upload for an old request hit a new client's ID.
    The `restart` suite replays exactly that history against the real binaries.) -/
theorem request_ids_drawn_from_per_process_seed :
    server_requestIDDraw = "p.randGenerator.Int63()" ∧ server_requestIDSeed = "time.Now().UnixNano()" := by decide

-- non-vacuity: a correct run with two clients answered out of order
example : (run .atomic init [.arrive 5, .arrive 6, .fetch 1 1, .fetch 2 0, .upload 1, .deliver 1, .upload 2, .deliver 0]).map (·.delivered) =
    some [(5, 5), (6, 6)] := by decide

end InvProxy.C01
