/-
  C19 — the App Engine proxy relays each request and its response intact.  Property theorems only.
  Part 1: blob storage.
-/
import InvProxy.Model.Blob
namespace InvProxy.C19
open InvProxy InvProxy.Blob InvProxy.Gen

/-- Stored requests and responses of any size — below, at and above the 1,000,000-byte
    inline and part limits — read back byte-identical. -/
theorem blob_roundtrip (bs : Bytes) : (newBlob bs).read = bs := by
  sorry

/-- every entity stays within the datastore field limit -/
theorem part_sizes (bs : Bytes) :
    (newBlob bs).inlined.length ≤ store_fieldByteLimit ∧ ∀ p ∈ (newBlob bs).parts, p.length ≤ store_fieldByteLimit := by
  sorry

/-- small payloads are stored inline, without part entities -/
theorem small_inline (bs : Bytes) (h : bs.length < store_fieldByteLimit) : newBlob bs = { inlined := bs, parts := [] } := by
  sorry

/-- number of part entities written for a payload at or above the limit -/
theorem part_count (bs : Bytes) (h : store_fieldByteLimit ≤ bs.length) :
    (newBlob bs).parts.length = (bs.length - store_fieldByteLimit) / store_fieldByteLimit + 1 := by
  sorry

theorem limits : store_fieldByteLimit = 1000000 ∧ cache_cacheEntrySizeLimit = 1000000 := by decide

end InvProxy.C19
