/-
  C19 — the App Engine proxy relays each request and its response intact.  Property theorems only.
  Part 1: blob storage.
-/
import InvProxy.Model.Blob
import InvProxy.Proofs.Blob
namespace InvProxy.C19
open InvProxy InvProxy.Blob InvProxy.Gen

/-- Stored requests and responses of any size — below, at and above the 1,000,000-byte
    inline and part limits — read back byte-identical. -/
theorem blob_roundtrip (bs : Bytes) : (newBlob bs).read = bs := by
  unfold newBlob
  split
  · simp [Blob.read]
  · simp only [Blob.read, writeParts_flatten, List.take_append_drop]

/-- every entity stays within the datastore field limit -/
theorem part_sizes (bs : Bytes) :
    (newBlob bs).inlined.length ≤ store_fieldByteLimit ∧ ∀ p ∈ (newBlob bs).parts, p.length ≤ store_fieldByteLimit := by
  unfold newBlob
  split
  · rename_i h
    have h' : bs.length < store_fieldByteLimit := of_decide_eq_true h
    exact ⟨Nat.le_of_lt h', fun p hp => nomatch hp⟩
  · refine ⟨?_, writeParts_sizes _⟩
    rw [List.length_take]
    exact Nat.min_le_left _ _

/-- small payloads are stored inline, without part entities -/
theorem small_inline (bs : Bytes) (h : bs.length < store_fieldByteLimit) : newBlob bs = { inlined := bs, parts := [] } := by
  have h' : store_inlineTest bs.length = true := decide_eq_true h
  unfold newBlob
  rw [if_pos h']

/-- number of part entities written for a payload at or above the limit -/
theorem part_count (bs : Bytes) (h : store_fieldByteLimit ≤ bs.length) :
    (newBlob bs).parts.length = (bs.length - store_fieldByteLimit) / store_fieldByteLimit + 1 := by
  have h' : store_inlineTest bs.length = false := decide_eq_false (Nat.not_lt.2 h)
  unfold newBlob
  rw [h']
  simp only [Bool.false_eq_true, if_false]
  rw [writeParts_length, List.length_drop]

/-- T1 (what `Blob.writeParts` assumes of the loop in `writeBlobParts`): every iteration names its
    part and puts it, with nothing conditional in between — also for the empty last part of a
    payload whose length is an exact multiple of the limit (`part_count` counts it, `blob.read`
    fetches it). -/
theorem every_named_part_is_put : store_everyNamedPartIsPut = true := by decide

/-- … and that empty last part really occurs: a payload of exactly `2·limit` bytes has two parts, the second one empty. -/
theorem exact_multiple_has_empty_last_part :
    store_partCount store_fieldByteLimit = 2 ∧ store_partBounds 1 store_fieldByteLimit = (store_fieldByteLimit, store_fieldByteLimit) := by
  decide

theorem limits : store_fieldByteLimit = 1000000 ∧ cache_cacheEntrySizeLimit = 1000000 := by decide

end InvProxy.C19
