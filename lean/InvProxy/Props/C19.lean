/-
  C19 — the App Engine proxy relays each request and its response intact.  Property theorems only.
  Part 1: blob storage.
-/
import InvProxy.Model.Blob
import InvProxy.Proofs.Blob
import InvProxy.Gen.Skels
namespace InvProxy.C19
open InvProxy InvProxy.Blob InvProxy.Gen

/-- Stored requests and responses of any size — below, at and above the 1,000,000-byte
    inline and part limits — read back byte-identical. -/
theorem blob_roundtrip (bs : Bytes) : (newBlob bs).read = bs := by
  unfold newBlob
  split
  · simp [Blob.read]
  · simp only [Blob.read, writeParts_flatten, List.take_append_drop]

/-- the stored form is injective: two different payloads are never stored as the same blob -/
theorem blob_injective (a b : Bytes) (h : newBlob a = newBlob b) : a = b := by
  rw [← blob_roundtrip a, ← blob_roundtrip b, h]

/-- nothing is padded or dropped: the bytes held inline and in the parts add up to the payload length -/
theorem blob_total_length (bs : Bytes) :
    (newBlob bs).inlined.length + ((newBlob bs).parts.map List.length).sum = bs.length := by
  have h := congrArg List.length (blob_roundtrip bs)
  simpa [Blob.read, List.length_flatten] using h

/-- every entity stays within the datastore field limit -/
theorem part_sizes (bs : Bytes) :
    (newBlob bs).inlined.length ≤ store_fieldByteLimit ∧ ∀ p ∈ (newBlob bs).parts, p.length ≤ store_fieldByteLimit := by
  unfold newBlob
  split
  · rename_i h
    have h' : bs.length < store_fieldByteLimit := of_decide_eq_true h
    exact ⟨Nat.le_of_lt h', fun p hp => nomatch hp⟩
  · refine ⟨?_, writeParts_sizes _⟩
    rw [List.length_take]
    exact Nat.min_le_left _ _

/-- small payloads are stored inline, without part entities -/
theorem small_inline (bs : Bytes) (h : bs.length < store_fieldByteLimit) : newBlob bs = { inlined := bs, parts := [] } := by
  have h' : store_inlineTest bs.length = true := decide_eq_true h
  unfold newBlob
  rw [if_pos h']

/-- number of part entities written for a payload at or above the limit -/
theorem part_count (bs : Bytes) (h : store_fieldByteLimit ≤ bs.length) :
    (newBlob bs).parts.length = (bs.length - store_fieldByteLimit) / store_fieldByteLimit + 1 := by
  have h' : store_inlineTest bs.length = false := decide_eq_false (Nat.not_lt.2 h)
  unfold newBlob
  rw [h']
  simp only [Bool.false_eq_true, if_false]
  rw [writeParts_length, List.length_drop]

/-- T1 (what `Blob.writeParts` assumes of the loop in `writeBlobParts`): every iteration names its
    part and puts it, with nothing conditional in between — also for the empty last part of a
    payload whose length is an exact multiple of the limit (`part_count` counts it, `blob.read`
    fetches it). -/
theorem every_named_part_is_put : store_everyNamedPartIsPut = true := by decide

/-- … and that empty last part really occurs: a payload of exactly `2·limit` bytes has two parts, the second one empty. -/
theorem exact_multiple_has_empty_last_part :
    store_partCount store_fieldByteLimit = 2 ∧ store_partBounds 1 store_fieldByteLimit = (store_fieldByteLimit, store_fieldByteLimit) := by
  decide

/-! ### storage errors never leave a call hanging: the error channels of concurrent writers -/

/-- `n` writer goroutines finish in some order; each sends at most one error (`true` = its write failed) into a
    channel of capacity `cap` that is only read after all writers are done.  Result: (errors buffered, writers
    blocked for ever in their send). -/
def fanIn (cap : Nat) (fails : List Bool) : Nat × Nat :=
  fails.foldl (fun (s : Nat × Nat) f => if f then (if s.1 < cap then (s.1 + 1, s.2) else (s.1, s.2 + 1)) else s) (0, 0)

theorem fanIn_aux (cap : Nat) (fails : List Bool) (b : Nat) (h : b + fails.length ≤ cap) :
    (fails.foldl (fun (s : Nat × Nat) f => if f then (if s.1 < cap then (s.1 + 1, s.2) else (s.1, s.2 + 1)) else s) (b, 0)).2 = 0 := by
  induction fails generalizing b with
  | nil => rfl
  | cons f fs ih =>
    simp only [List.foldl_cons, List.length_cons] at h ⊢
    cases f with
    | false => exact ih b (by omega)
    | true =>
      have hb : b < cap := by omega
      simp only [hb, if_true]
      exact ih (b + 1) (by omega)

/-- one slot per writer: no writer ever blocks, whichever writes fail and in whatever order they finish -/
theorem no_writer_blocks (cap : Nat) (fails : List Bool) (h : fails.length ≤ cap) : (fanIn cap fails).2 = 0 := by
  unfold fanIn
  exact fanIn_aux cap fails 0 (by omega)

/-- with fewer slots than failing writers one of them blocks for ever (and `wg.Wait` with it) -/
theorem too_few_slots_block : (fanIn 1 [true, true]).2 = 1 := by decide

/-- regenerated facts: `writeBlobParts` gives its error channel one slot per part writer, and `postResponse`'s two
    concurrent store writes report into a channel of capacity 2 (D11) - so by `no_writer_blocks` a storage error in
    any subset of the concurrent writes still lets the call return -/
theorem error_channels_have_a_slot_per_writer :
    store_partErrsSlotPerWriter = true ∧
    Skel.chanCap "notFoundErrs" skel_app_responseHandler = some 2 ∧
    Skel.count (.wait "wg") skel_app_postResponse = 1 := by decide

/-- regenerated fact: `blob.read` concatenates the parts in the order the blob lists them, which is the order
    `writeBlobParts` named them in (index order) - `blob_roundtrip` is about exactly that order.  (Ordering the
    names as strings instead would put "part10" before "part2": wrong from the eleventh part on.) -/
theorem read_keeps_part_order : store_readKeepsStoredPartOrder = true := by decide

/-- why string order is not index order: the decimal names of 2 and 10 -/
example : decide (("part10" : String) < "part2") = true := by decide

theorem limits : store_fieldByteLimit = 1000000 ∧ cache_cacheEntrySizeLimit = 1000000 := by decide

end InvProxy.C19
