/-
  C13 — the websocket shim only ever connects to the configured backend.  Property theorems only.
-/
import InvProxy.Model.ShimUrl
namespace InvProxy.C13
open InvProxy InvProxy.ShimUrl InvProxy.Gen

/-- Whatever URL structure the client supplies — hierarchical, scheme-relative, path-only,
    opaque, with credentials, with a foreign host — the agent either refuses or connects to
    the configured backend host, never anywhere else. -/
theorem dial_confined (host : Bytes) (hh : host ≠ []) (u : WsUrl) (ok : Bool) :
    dialOutcome ok (websockets_rewriteTarget host u) = .refused ∨
    dialOutcome ok (websockets_rewriteTarget host u) = .dial host := by
  unfold dialOutcome websockets_rewriteTarget
  cases ok <;> simp [hh]

/-- a well-formed target always reaches the backend -/
theorem dial_backend (host : Bytes) (hh : host ≠ []) (u : WsUrl) :
    dialOutcome true (websockets_rewriteTarget host u) = .dial host := by
  unfold dialOutcome websockets_rewriteTarget
  simp [hh]

/-- The supplied URL contributes only path and query (and fragment): two URLs agreeing on
    these yield the same dial target. -/
theorem only_path_query_used (host : Bytes) (u v : WsUrl)
    (h1 : u.Path = v.Path) (h2 : u.RawPath = v.RawPath) (h3 : u.RawQuery = v.RawQuery) (h4 : u.ForceQuery = v.ForceQuery)
    (h5 : u.Fragment = v.Fragment) (h6 : u.RawFragment = v.RawFragment) (h7 : u.OmitHost = v.OmitHost) :
    websockets_rewriteTarget host u = websockets_rewriteTarget host v := by
  cases u; cases v; simp_all [websockets_rewriteTarget]

/-- The authority part of the dial target is fixed by configuration: scheme `ws`, the configured
    host, no opaque part, no credentials — whatever the client wrote there. -/
theorem authority_fixed (host : Bytes) (u : WsUrl) :
    (websockets_rewriteTarget host u).Scheme = [119,115] ∧ (websockets_rewriteTarget host u).Host = host ∧
    (websockets_rewriteTarget host u).Opaque = [] ∧ (websockets_rewriteTarget host u).User = none := by
  simp [websockets_rewriteTarget]

/-- path and query of the supplied URL are carried over unchanged -/
theorem path_query_preserved (host : Bytes) (u : WsUrl) :
    (websockets_rewriteTarget host u).Path = u.Path ∧ (websockets_rewriteTarget host u).RawPath = u.RawPath ∧
    (websockets_rewriteTarget host u).RawQuery = u.RawQuery ∧ (websockets_rewriteTarget host u).ForceQuery = u.ForceQuery := by
  simp [websockets_rewriteTarget]

/-- The client's scheme, host, opaque part and credentials have no influence at all on which
    peer is contacted: replacing them by anything else leaves the outcome unchanged. -/
theorem client_authority_irrelevant (host : Bytes) (u : WsUrl) (ok : Bool) (sch hst opq : Bytes) (usr : Option Bytes) :
    dialOutcome ok (websockets_rewriteTarget host { u with Scheme := sch, Host := hst, Opaque := opq, User := usr }) =
    dialOutcome ok (websockets_rewriteTarget host u) := by
  simp [websockets_rewriteTarget]

/-- rewriting is idempotent: a second pass (or a client that already names the backend) changes nothing -/
theorem rewrite_idempotent (host : Bytes) (u : WsUrl) :
    websockets_rewriteTarget host (websockets_rewriteTarget host u) = websockets_rewriteTarget host u := by
  simp [websockets_rewriteTarget]

/-- requests under the shim prefix go to the shim, all others to the wrapped handler: the routing
    decision is exactly the prefix test -/
theorem route_iff_prefix (shimPrefix path : Bytes) : route shimPrefix path = .shim ↔ shimPrefix <+: path := by
  simp [route, Go.hasPrefix, List.isPrefixOf_iff_prefix]

/-- The defect this check found in the original code (only `Scheme` and `Host` were
    overwritten): an opaque URL such as `x:y` made the agent dial `:80` on its own host. -/
theorem opaque_dial_counterexample :
    let old (host : Bytes) (u : WsUrl) : WsUrl := { u with Scheme := [119,115], Host := host }
    dialOutcome true (old [98] { Scheme := [120], Opaque := [121], User := none, Host := [], Path := [], RawPath := [], OmitHost := false, ForceQuery := false, RawQuery := [], Fragment := [], RawFragment := [] }) = .foreign := by
  decide

/-- requests for paths outside the shim prefix go to the wrapped (normal) handler -/
theorem route_outside_prefix (shimPrefix path : Bytes) (h : ¬ shimPrefix <+: path) :
    route shimPrefix path = .wrapped := by
  simp [route, Go.hasPrefix, List.isPrefixOf_iff_prefix, h]

/-- regenerated fact: neither handler constructor on the pass-through path (websockets.Proxy, banner.Proxy) routes
    through an http.ServeMux, whose path cleaning answers non-canonical paths ("/a//b", "/a/../b") with a redirect
    of its own; `route` above (a prefix test on the path as received) is therefore the whole routing decision -/
theorem passthrough_has_no_cleaning_router : agent_passthroughServeMuxes = [] := by decide

/-- a non-canonical path outside the prefix is routed like any other -/
example : route [47,115,47] [47,97,47,47,98] = .wrapped := by decide

-- non-vacuity: a URL with credentials and a foreign host is confined to the backend
example : dialOutcome true (websockets_rewriteTarget [98,58,56,48] { Scheme := [119,115,115], Opaque := [], User := some [117], Host := [101,118,105,108], Path := [47,112], RawPath := [], OmitHost := false, ForceQuery := false, RawQuery := [113], Fragment := [], RawFragment := [] }) = .dial [98,58,56,48] := by decide

end InvProxy.C13
