/-
  C06 — retried response uploads are never corrupted.  Property theorems only.
  Part 1: the replay buffer (`bufferedReadSeeker`).  Part 2 (the attempt loop with
  faults and the stale-reader schedule) is in the second half of this file.
-/
import InvProxy.Model.Seeker
import InvProxy.Gen.Skels
import InvProxy.Proofs.Seeker
namespace InvProxy.C06
open InvProxy InvProxy.Seeker InvProxy.Gen

/-- the invariant holds initially and is preserved by every read and every (accepted or
    refused) seek: hence in every reachable state, for every op sequence -/
theorem seeker_inv (cap : Nat) (ops : List Op) : Inv (run (init cap) ops) := by
  exact inv_run (inv_init cap) ops

/-- Within an attempt (since the last accepted seek) the bytes handed to the transport are
    always a prefix of the serialised stream from its first byte: no gap, duplication or
    interleaving — for every read size and every source chunking. -/
theorem attempt_prefix (cap : Nat) (ops : List Op) :
    (run (init cap) ops).sent <+: (run (init cap) ops).hist := by
  exact inv_sent_prefix (inv_run (inv_init cap) ops)

/-- An attempt that has caught up with the source carried the complete stream. -/
theorem attempt_complete (cap : Nat) (ops : List Op)
    (h : (run (init cap) ops).readHead = (run (init cap) ops).buf.length) :
    (run (init cap) ops).sent = (run (init cap) ops).hist := by
  exact inv_sent_complete (inv_run (inv_init cap) ops) h

/-- `Seek(0)` is accepted exactly while the replay buffer is not full … -/
theorem seek_refused_iff (s : St) : seek0 s = none ↔ s.cap ≤ s.buf.length := by
  rw [seek0_spec]
  split <;> simp_all

/-- Once a retry has been refused (more than the replay buffer has gone through) it stays refused for the rest of the
    response, whatever is read or attempted later: a response that outgrew the buffer is never replayed from a
    partial copy. -/
theorem refusal_permanent (s : St) (ops : List Op) (h : seek0 s = none) : seek0 (run s ops) = none := by
  rw [seek_refused_iff] at h ⊢
  rw [run_cap]
  exact Nat.le_trans h (run_buf_mono s ops)

/-- the source is consumed strictly forwards: no operation (read, accepted or refused seek) ever drops or re-reads what
    the backend's response has already handed over -/
theorem source_history_monotone (s : St) (ops : List Op) : s.hist <+: (run s ops).hist :=
  run_hist_prefix s ops

/-- … and then everything sent so far can be replayed in full: a retry happens only while
    the already-sent prefix is still held (fewer than `cap` = 4096 bytes were read). -/
theorem retry_only_if_replayable (cap : Nat) (ops : List Op) (s' : St)
    (h : seek0 (run (init cap) ops) = some s') :
    s'.buf = s'.hist ∧ s'.hist.length < cap ∧ s'.readHead = 0 ∧ s'.sent = [] ∧ s'.hist = (run (init cap) ops).hist := by
  have hinv := inv_run (inv_init cap) ops
  have hcap : (run (init cap) ops).cap = cap := run_cap (init cap) ops
  rw [seek0_spec] at h
  split at h
  · cases h
  · rename_i hc
    injection h with h
    subst h
    have hbuf := hinv.not_full (by omega)
    refine ⟨hbuf, ?_, rfl, rfl, rfl⟩
    show (run (init cap) ops).hist.length < cap
    rw [← hbuf]; omega

/-- the replay limit in the code is the documented 4 KiB, and at most 1 + 2 attempts are made -/
theorem replay_constants : utils_readResponseBufSize = 4096 ∧ utils_maxWriteResponseRetryCount = 2 := by decide

/-- The known defect (D5): when the previous attempt's reader is still alive during the
    retry, it steals source bytes from the new attempt — the acknowledged upload has a gap.
    Here: attempt 1 read `[1,2]` and failed early; after the seek the new attempt replays
    `[1,2]`, the stale reader takes `[3,4]`, the new attempt continues with `[5,6]`. -/
theorem stale_reader_counterexample :
    let s := (seek0 (run (init 8) [.read 2 [1, 2]])).getD (init 8)
    newAttemptReceives s [(true, 2, []), (false, 2, [3, 4]), (true, 2, [5, 6])] = [1, 2, 5, 6] ∧
    (run s [.read 2 [], .read 2 [3, 4], .read 2 [5, 6]]).hist = [1, 2, 3, 4, 5, 6] := by decide

/-- T3: the retry loop makes one `client.Do` per iteration with at most 1 + 2 iterations, seeks
    back before every retry, and does NOT wait for the previous attempt's body reader (there
    is no synchronisation between `client.Do` returning and `Seek`): this is the variant
    under which `stale_reader_counterexample` applies. -/
theorem retry_loop_shape :
    utils_maxWriteResponseRetryCount = 2 ∧
    Skel.count (.call "client.Do") skel_utils_postResponseWithRetries = 1 ∧
    Skel.count (.call "proxyReadSeeker.Seek") skel_utils_postResponseWithRetries = 2 ∧
    Skel.precedes (.call "client.Do") (.call "proxyReadSeeker.Seek") skel_utils_postResponseWithRetries = true ∧
    Skel.count (.call "newBufferedReadSeeker") skel_utils_postResponseWithRetries = 1 := by decide

/-- T3: when the upload goroutine ends (all attempts failed, or success) it closes its end of
    the pipe, the serialiser propagates the resulting write error to the handler
    (`CloseWithError`), both goroutines always close their error channels (capacity 1, at
    most one send each), and `Close` drains both: no handler `Write` or `Close` can block
    forever on a dead upload. -/
theorem handler_unblocked_shape :
    Skel.calls "proxyReader.Close" skel_utils_NewResponseForwarder = true ∧
    Skel.calls "rw.CloseWithError" skel_utils_NewResponseForwarder = true ∧
    Skel.calls "proxyWriter.Close" skel_utils_NewResponseForwarder = true ∧
    Skel.chanCap "postErrChan" skel_utils_NewResponseForwarder = some 1 ∧
    Skel.chanCap "writeErrChan" skel_utils_NewResponseForwarder = some 1 ∧
    Skel.count (.send "postErrChan") skel_utils_NewResponseForwarder = 1 ∧
    Skel.count (.send "writeErrChan") skel_utils_NewResponseForwarder = 1 ∧
    Skel.closes "postErrChan" skel_utils_NewResponseForwarder = true ∧
    Skel.closes "writeErrChan" skel_utils_NewResponseForwarder = true ∧
    Skel.recvs "r.postErrChan" skel_utils_responseForwarder_Close = true ∧
    Skel.recvs "r.writeErrChan" skel_utils_responseForwarder_Close = true := by decide

-- non-vacuity: a replay across the buffer boundary
example : (run (init 4) [.read 3 [1,2,3], .seek, .read 2 [], .read 5 [4,5,6]]).sent = [1,2,3,4,5,6] := by decide
example : seek0 (run (init 4) [.read 3 [1,2,3], .read 3 [4,5]]) = none := by decide

-- non-vacuity: a 4-byte buffer, 5 bytes read: refused now and after further reads and seeks
example : seek0 (run (init 4) [.read 5 [1, 2, 3, 4, 5]]) = none ∧ seek0 (run (init 4) [.read 5 [1, 2, 3, 4, 5], .seek, .read 1 [6], .seek]) = none := by decide

end InvProxy.C06
