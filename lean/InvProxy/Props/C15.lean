/-
  C15 — the TCP bridge carries byte streams intact in both directions.  Property theorems only.
-/
import InvProxy.Model.Bridge
import InvProxy.Gen.Funcs
import InvProxy.Proofs.Bridge
namespace InvProxy.C15
open InvProxy InvProxy.Bridge

/-- all 256 byte values survive the hex encoding used on the wire -/
theorem hex_roundtrip (bs : Bytes) : hexDec (hexEnc bs) = some bs := by
  exact hexDec_hexEnc bs

/-- the wire form is injective: two different byte strings are never written as the same message -/
theorem hex_injective (a b : Bytes) (h : hexEnc a = hexEnc b) : a = b := by
  have ha := hexDec_hexEnc a
  rw [h, hexDec_hexEnc b] at ha
  exact (Option.some.inj ha).symm

/-- what `Write` puts on the wire: only the digits 0-9 and a-f (lower case, as `hex.EncodeToString`),
    two per byte — for every byte string -/
theorem hex_alphabet (bs : Bytes) :
    (∀ c ∈ hexEnc bs, isLowerHex c = true) ∧ (hexEnc bs).length = 2 * bs.length :=
  ⟨hexEnc_lower bs, hexEnc_length bs⟩

/-- segmentation is immaterial on the wire too: the concatenated payloads of two writes are the
    payload of the single write of the concatenation -/
theorem hex_append (a b : Bytes) : hexEnc (a ++ b) = hexEnc a ++ hexEnc b := hexEnc_append a b

/-- a text message whose payload has odd length is an error for the reader (never silently truncated) -/
theorem odd_payload_rejected (bs : Bytes) (c : UInt8) : hexDec (hexEnc bs ++ [c]) = none := by
  induction bs with
  | nil => rfl
  | cons b t ih =>
    simp only [hexEnc, List.cons_append, hexDec, ih]
    split <;> simp_all

/-- upper-case hex digits are accepted as well (what `encoding/hex` does) -/
theorem unhex_upper : unhex 65 = some 10 ∧ unhex 70 = some 15 ∧ unhex 71 = none ∧ unhex 103 = none := by decide

/-- Core invariant: one `Read` hands out a prefix of the pending stream and leaves the rest
    pending — for any buffer size, any write segmentation, partially consumed messages,
    interleaved non-text messages and empty writes. -/
theorem read_preserves_stream (n : Nat) (r r' : Reader) (bs rest : Bytes)
    (hp : pending r.buffered r.inbox = some rest) (h : read n r = .data bs r') :
    ∃ rest', pending r'.buffered r'.inbox = some rest' ∧ rest = bs ++ rest' := by
  exact read_preserves n r r' bs rest hp h

/-- progress: a read with a non-empty buffer on a non-empty pending stream returns ≥ 1 byte -/
theorem read_progress (n : Nat) (hn : 0 < n) (r : Reader) (rest : Bytes)
    (hp : pending r.buffered r.inbox = some rest) (hne : rest ≠ []) :
    ∃ bs r', read n r = .data bs r' ∧ bs ≠ [] := by
  exact read_prog n hn r rest hp hne

/-- Every sequence of reads returns a prefix of what was written: no loss, duplication or
    reordering, for any write sizes (including empty writes) and any read-buffer sizes. -/
theorem bridge_stream (ws : List Bytes) (ns : List Nat) :
    reads ns { buffered := [], inbox := ws.map write } <+: ws.flatten := by
  exact reads_prefix ns _ _ (pending_writes ws)

/-- … and the whole stream once enough non-empty reads have been issued. -/
theorem bridge_complete (ws : List Bytes) (ns : List Nat) (hpos : ∀ n ∈ ns, 0 < n)
    (hlen : ws.flatten.length ≤ ns.length) :
    reads ns { buffered := [], inbox := ws.map write } = ws.flatten := by
  exact reads_complete ns _ _ (pending_writes ws) hpos hlen

/-- non-text (binary, control) messages between the text messages do not change the stream -/
theorem bridge_skips_non_text (ns : List Nat) (buf : Bytes) (inbox : List Msg) :
    reads ns { buffered := buf, inbox := inbox } = reads ns { buffered := buf, inbox := inbox.filter isText } := by
  exact reads_filter ns buf inbox

/-- the two directions of a connection share no state: reading one direction leaves the
    other untouched (full-duplex traffic cannot interfere) -/
theorem directions_independent (c : Conn) (n : Nat) (bs : Bytes) (r' : Reader)
    (_h : read n c.ab = .data bs r') :
    ({ c with ab := r' } : Conn).ba = c.ba := rfl

/-- routing (regenerated from connection.go): exactly the websocket upgrades on the
    streaming path are bridged; everything else is passed through -/
theorem passthrough_route (isUpgrade : Bool) (path : Bytes) :
    Gen.connection_isPassthrough isUpgrade path = false ↔ (isUpgrade = true ∧ path = Gen.connection_StreamingPath) := by
  cases isUpgrade <;> simp [Gen.connection_isPassthrough]

/-- serving side (regenerated from tcp-bridge-backend.go): no deadline bounds a whole pass-through request or
    response, so exchanges of any duration are carried (a ReadTimeout/WriteTimeout or TimeoutHandler would cut
    slow uploads and streamed responses short) -/
theorem passthrough_unbounded_duration : Gen.bridgeBackend_exchangeDeadlines = [] := by decide

-- non-vacuity
example : hexEnc [0, 255, 16] = [48,48,102,102,49,48] := by decide
example : reads [2, 5, 1] { buffered := [], inbox := [write [1,2,3], .other [9], write [], write [4]] } = [1,2,3,4] := by decide

end InvProxy.C15
