/-
  C14 — banner and shim-script injection touch HTML documents only.  Property theorems only.
-/
import InvProxy.Model.Inject
import InvProxy.Proofs.Inject
namespace InvProxy.C14
open InvProxy InvProxy.Inject InvProxy.Gen

/-- the predicate of the property, spelled out from the statement -/
def IsBannerTarget (r : Req) (code : Int) (h : Hdr) : Prop :=
  r.Method = [71,69,84] ∧ Go.contains (Hdr.Get r.Header banner_acceptHeader) [116,101,120,116,47,104,116,109,108] = true ∧
  code = 200 ∧
  (∀ cd ∈ Hdr.values h banner_contentDispositionHeader, Go.contains (Go.toLower cd) [97,116,116,97,99,104,109,101,110,116] = false) ∧   -- no "attachment", in any case
  (∃ ct ∈ Hdr.values h banner_contentTypeHeader,   -- the media type (what precedes the first ';'), not a parameter
     Go.contains (Go.beforeSep ct [59]) [116,101,120,116,47,104,116,109,108] = true ∨
     Go.contains (Go.beforeSep ct [59]) [97,112,112,108,105,99,97,116,105,111,110,47,120,104,116,109,108,43,120,109,108] = true)

/-- the regenerated predicates say exactly that -/
theorem predicates_exact (r : Req) (code : Int) (h : Hdr) :
    (banner_isHTMLRequest r = true ∧ banner_isFrameableHTMLResponse code h = true) ↔ IsBannerTarget r code h := by
  rw [isHTMLRequest_iff, isFrameable_iff]
  simp only [IsBannerTarget, and_assoc]

/-- Every response that is not a 200, non-attachment HTML reply to a GET accepting
    text/html passes through byte for byte: same status, same header map at the time of the
    head, same body writes in the same order. -/
theorem banner_identity (cfg : Cfg) (r : Req) (h0 : Hdr) (ops : List Op)
    (hn : ∀ c h, headOf h0 ops = some (c, h) → ¬ IsBannerTarget r c h) :
    bannered cfg r h0 ops = plain h0 ops := by
  cases hr : banner_isHTMLRequest r
  · simp [bannered, hr]
  · simp only [bannered, hr, Bool.not_true, Bool.false_eq_true, if_false, plain]
    apply identity_run
    intro c h hh
    rw [← headOf_eq_firstHead] at hh
    have h1 := hn c h hh
    rw [← predicates_exact] at h1
    cases hfr : banner_isFrameableHTMLResponse c h
    · rfl
    · exact absurd ⟨hr, hfr⟩ h1

/-- A request that is already framed gets the original body (only the caching / framing
    headers are set). -/
theorem banner_framed_body (cfg : Cfg) (r : Req) (h0 : Hdr) (ops : List Op) (hf : cfg.alreadyFramed = true) :
    bodyOf (bannered cfg r h0 ops) = bodyOf (plain h0 ops) := by
  cases hr : banner_isHTMLRequest r
  · simp [bannered, hr]
  · simp only [bannered, hr, Bool.not_true, Bool.false_eq_true, if_false, plain]
    exact framed_run cfg hf ops h0 []

/-- Otherwise a banner target is answered with the frame page and nothing else (after the
    interim responses, which pass as they would without the banner), marked uncacheable and
    same-origin frameable. -/
theorem banner_page (cfg : Cfg) (r : Req) (h0 : Hdr) (ops : List Op) (c : Int) (h : Hdr)
    (hh : headOf h0 ops = some (c, h)) (ht : IsBannerTarget r c h) (hf : cfg.alreadyFramed = false) :
    ∃ h', bannered cfg r h0 ops = interimsOf (plain h0 ops) ++ [.head c h', .body cfg.page] ∧
      Hdr.Values h' banner_cacheControlHeader = [noCacheValue] ∧ Hdr.Values h' banner_pragmaHeader = [noCache] ∧
      Hdr.Values h' banner_expiresHeader = [epochValue] ∧ Hdr.Values h' banner_xFrameOptionsHeader = [sameOrigin] ∧
      Hdr.Values h' banner_contentEncodingHeader = [] := by
  obtain ⟨hr, hfr⟩ := (predicates_exact r c h).mpr ht
  rw [headOf_eq_firstHead] at hh
  refine ⟨Hdr.Del (markFrame cfg h) banner_contentEncodingHeader, ?_, page_headers cfg h⟩
  simp only [bannered, hr, Bool.not_true, Bool.false_eq_true, if_false]
  exact page_run_plain cfg hf ops h0 c h hh hfr

/-- Whatever the response — target or not, framed or not, preceded by any number of interim
    responses — the final status the client side sees is the one the handler wrote (a 404
    after a 103 stays a 404), and the interim responses pass unchanged. -/
theorem banner_keeps_status (cfg : Cfg) (r : Req) (h0 : Hdr) (ops : List Op) :
    statusOf (bannered cfg r h0 ops) = statusOf (plain h0 ops) ∧
    interimsOf (bannered cfg r h0 ops) = interimsOf (plain h0 ops) := by
  cases hr : banner_isHTMLRequest r
  · simp [bannered, hr]
  · simp only [bannered, hr, Bool.not_true, Bool.false_eq_true, if_false, plain]
    exact sim_run cfg ops h0 []

-- non-vacuity: 103 then a 404 with HTML: nothing is framed, the status stays
example : bannered ⟨false, [1], []⟩ { Method := [71,69,84], Header := [(banner_acceptHeader, [[116,101,120,116,47,104,116,109,108]])], Host := [], URL := ⟨[]⟩ } []
    [.setHeader banner_contentTypeHeader [116,101,120,116,47,104,116,109,108], .writeHeader 103, .writeHeader 404, .write [120]] =
    [.interim 103 [(banner_contentTypeHeader, [[116,101,120,116,47,104,116,109,108]])], .head 404 [(banner_contentTypeHeader, [[116,101,120,116,47,104,116,109,108]])], .body [120]] := by decide

/-! ### shim script -/

/-- non-HTML content types: body and Content-Length untouched, for any read segmentation -/
theorem splice_non_html (code ct first rest : Bytes) (h : isHTMLType ct = false) :
    shimBody code ct first rest = (first ++ rest, false) := by
  simp [shimBody, h]

/-- only the media type decides: parameters after the first ';' (a file name, a schema URL, a charset that
    happen to contain "html") never turn a response into an HTML document -/
theorem html_type_ignores_parameters (mt params : Bytes) (h : ∀ b ∈ mt, b ≠ 59) :
    isHTMLType (mt ++ 59 :: params) = isHTMLType mt := by
  have hm : ∀ (l : Bytes), (∀ b ∈ l, b ≠ 59) → mediaType (l ++ 59 :: params) = l ∧ mediaType l = l := by
    intro l
    induction l with
    | nil => intro _; simp [mediaType]
    | cons x xs ih =>
      intro hl
      have hx : x ≠ 59 := hl x (by simp)
      have := ih (fun b hb => hl b (by simp [hb]))
      simp [mediaType, List.takeWhile_cons, hx] at this ⊢
      exact this
  unfold isHTMLType
  rw [(hm mt h).1, (hm mt h).2]

/-- the first `<head>` inside the first read is the first `<head>` of the whole body -/
theorem index_append_left (a b pat : Bytes) (i : Nat) (h : Go.index a pat = some i) :
    Go.index (a ++ b) pat = some i := by
  exact index_append_left' a b pat i h

/-- HTML: the result is the original body with the script inserted exactly once,
    immediately after the first `<head>` of the whole body — or the unchanged body when the
    first read holds no `<head>`.  Nothing else is added, removed or reordered. -/
theorem splice_correct (code ct first rest : Bytes) (h : isHTMLType ct = true) :
    (Go.index first headTag = none ∧ (shimBody code ct first rest).1 = first ++ rest) ∨
    (∃ i, Go.index (first ++ rest) headTag = some i ∧
      (shimBody code ct first rest).1 = (first ++ rest).take (i + 6) ++ code ++ (first ++ rest).drop (i + 6)) := by
  exact splice_correct' code ct first rest h

/-- `Go.index` really is "first occurrence" -/
theorem index_spec (s pat : Bytes) (i : Nat) (h : Go.index s pat = some i) :
    pat <+: s.drop i ∧ ∀ j < i, ¬ pat <+: s.drop j := by
  exact index_spec' s pat i h

/-- the per-response hook returned by ShimBody (regenerated fact): it uses no buffer that is allocated once per
    ShimBody call, so concurrent responses cannot see each other's bytes; the splice theorems above, which are
    about one response in isolation, therefore apply to every response of a concurrent run -/
theorem shim_hook_shares_no_buffer : websockets_shimBodySharedBuffers = [] := by decide

-- `application/json;x=text/html` (a parameter that mentions text/html) does not make a response frameable (D26)
example : banner_isFrameableHTMLResponse 200 [(banner_contentTypeHeader, [[97,112,112,108,105,99,97,116,105,111,110,47,106,115,111,110,59,120,61,116,101,120,116,47,104,116,109,108]])] = false := by decide

-- non-vacuity
-- `application/json;x=html` is not an HTML type, `application/xhtml+xml;x=1` is
example : isHTMLType [97,112,112,108,105,99,97,116,105,111,110,47,106,115,111,110,59,120,61,104,116,109,108] = false := by decide
example : isHTMLType [97,112,112,108,105,99,97,116,105,111,110,47,120,104,116,109,108,43,120,109,108,59,120,61,49] = true := by decide
example : (shimBody [1] [116,101,120,116,47,72,84,77,76] [60,104,101,97,100,62,60,104,101,97,100,62] [9]).1 = [60,104,101,97,100,62,1,60,104,101,97,100,62,9] := by decide
example : banner_isFrameableHTMLResponse 200 [(banner_contentTypeHeader, [[116,101,120,116,47,104,116,109,108]])] = true := by decide

end InvProxy.C14

