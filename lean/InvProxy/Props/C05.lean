/-
  C05 — responses stream through the agent chunk by chunk.  Property theorems only.
-/
import InvProxy.Model.Stream
import InvProxy.Proofs.Stream
namespace InvProxy.C05
open InvProxy InvProxy.Stream InvProxy.Gen

/-- nothing is lost, duplicated or reordered on the way: in every reachable state the bytes
    at the proxy, in the stages and still to come concatenate to the backend's stream —
    for every chunk count and every chunk size -/
theorem stream_conservation (chunks : List Bytes) (acts : List Act) (s : St)
    (h : run .rendezvous (start chunks) acts = some s) : stream s = chunks.flatten := by
  rw [run_stream _ _ _ h, stream_start]

/-- Progress without further input: as long as some flushed chunk has not reached the proxy,
    an internal step is enabled — no stage waits for more output or for the response to end … -/
theorem stream_progress_enabled (chunks : List Bytes) (hne : ∀ c ∈ chunks, c ≠ []) (acts : List Act) (s : St)
    (h : run .rendezvous (start chunks) acts = some s) (hc : caughtUp s = false) : internalEnabled .rendezvous s = true := by
  -- holds in every state, reachable or not, and for empty chunks too
  have _ := hne; have _ := h
  exact enabled_of_not_caughtUp s hc

/-- … and every internal step strictly decreases the measure (at most 4 + 3 + 2 + 1 steps per
    chunk in flight): each flushed chunk reaches the proxy within a bounded number of steps. -/
theorem stream_progress_decreases (s s' : St) (a : Act) (ha : a ≠ .feed) (h : step .rendezvous s a = some s') : mu s' < mu s :=
  step_mu s s' a ha h

/-- Lock-step producers never deadlock: once everything flushed so far has arrived, the
    backend's next flush is accepted at once. -/
theorem stream_lockstep (s : St) (c : Bytes) (t : List Bytes) (ht : s.todo = c :: t) (hc : caughtUp s = true) :
    ∃ s', step .rendezvous s .feed = some s' :=
  lockstep s c t ht hc

/-- when the agent is caught up the proxy holds exactly the chunks flushed so far -/
theorem caught_up_means_delivered (chunks : List Bytes) (acts : List Act) (s : St)
    (h : run .rendezvous (start chunks) acts = some s) (hc : caughtUp s = true) :
    s.uploaded.flatten ++ s.todo.flatten = chunks.flatten := by
  rw [← stream_of_caughtUp s hc, run_stream _ _ _ h, stream_start]

/-- what a buffering stage would do: a flushed chunk smaller than the threshold never
    reaches the proxy, although the backend waits for it to be observed -/
theorem stream_buffering_counterexample :
    (run (.buffering 4096) (start [[1, 2, 3], [4]]) [.feed, .ser]).map (fun s => (internalEnabled (.buffering 4096) s, s.uploaded, caughtUp s)) =
      some (false, [], false) := by decide

/-- T1/T3: the handler's `Write` is a write to the unbuffered body pipe, the serialiser writes
    the (forced chunked) response straight into the unbuffered upload pipe, and the reverse
    proxy flushes at most 100 ms after a backend write. -/
theorem no_buffering_stage :
    utils_srwWriteIsPipeWrite = true ∧ utils_forwarderForcesChunked = true ∧ utils_forwarderWritesToPipe = true ∧
    agent_flushInterval = 100000000 ∧
    Skel.calls "w.bodyWriter.Write" skel_utils_srw_Write = true := by decide

/-- regenerated fact: no timeout is configured on the transports between the agent and the backend (HTTP/1.1 or forced
    HTTP/2): a response may pause for any length of time between chunks and still be relayed (an idle or ping
    timeout there would close the backend connection in the pause and end the relayed response early) -/
theorem backend_transport_has_no_timeouts : agent_backendTransportTimeouts = [] := by decide

/-- regenerated fact: on GCE the periodic refresh of the VM identity token fetches the new token *before* taking the
    transport's lock; every request to the proxy (also the upload that streams a response) takes that lock to read
    the token, so a slow or failing metadata server cannot hold back chunks that the backend has already flushed -/
theorem identity_refresh_does_not_block_uploads : utils_identityRefreshFetchesUnderLock = false := by decide

-- non-vacuity
example : (run .rendezvous (start [[1], [2, 3]]) [.feed, .ser, .put, .rd, .send, .feed, .ser, .put, .rd, .send]).map (·.uploaded) = some [[1], [2, 3]] := by decide

end InvProxy.C05
