/-
  C08 — polling backs off with bounded, strictly positive delays.
  Property theorems only.  `Gen.utils_backoffTarget` and `Gen.agent_pollRetryStep` are
  regenerated from /repo on every run (tie T); `Backoff.jitter` is the hand model of
  `addJitter` (float arithmetic abstracted to exact rationals; validated by suite `backoff`).
-/
import InvProxy.Model.Backoff
namespace InvProxy.C08
open InvProxy InvProxy.Backoff InvProxy.Gen

/-- For every retry count in the full unsigned 64-bit range the un-jittered target is
    2^n ms for n ≤ 11 and the 3 s cap above: no overflow, no wrap-around (n = 62, 63, 64,
    2^32, 2^64−1 included). -/
theorem target_closed_form (n : BitVec 64) :
    (utils_backoffTarget n).toNat = closedForm n.toNat := by
  unfold utils_backoffTarget closedForm
  simp only [Id.run, utils_maxRetryCountU]
  by_cases h : n.toNat ≤ 11
  · have hn : n = BitVec.ofNat 64 n.toNat := by simp
    have : n.toNat = 0 ∨ n.toNat = 1 ∨ n.toNat = 2 ∨ n.toNat = 3 ∨ n.toNat = 4 ∨ n.toNat = 5 ∨
        n.toNat = 6 ∨ n.toNat = 7 ∨ n.toNat = 8 ∨ n.toNat = 9 ∨ n.toNat = 10 ∨ n.toNat = 11 := by omega
    rcases this with h0 | h0 | h0 | h0 | h0 | h0 | h0 | h0 | h0 | h0 | h0 | h0 <;>
      (rw [hn, h0]; decide)
  · have hlt : BitVec.ofNat 64 11 < n := by
      rw [BitVec.lt_def]; simp; omega
    simp [h, hlt, pure]

theorem target_pos (n : BitVec 64) : 1000000 ≤ (utils_backoffTarget n).toNat := by
  rw [target_closed_form]; unfold closedForm
  split
  · have : 1 ≤ 2 ^ n.toNat := Nat.one_le_two_pow
    omega
  · omega

theorem target_le_cap (n : BitVec 64) : (utils_backoffTarget n).toNat ≤ 3000000000 := by
  rw [target_closed_form]; unfold closedForm
  split
  · next h =>
    have : 2 ^ n.toNat ≤ 2 ^ 11 := Nat.pow_le_pow_right (by decide) h
    omega
  · omega

/-- the target doubles on every consecutive failure until the cap is reached -/
theorem target_doubles (n : BitVec 64) (h : n.toNat < 11) :
    (utils_backoffTarget (n + 1#64)).toNat = 2 * (utils_backoffTarget n).toNat := by
  have h1 : (n + 1#64).toNat = n.toNat + 1 := by
    rw [BitVec.toNat_add]; simp; omega
  rw [target_closed_form, target_closed_form, h1]; unfold closedForm
  rw [if_pos (by omega), if_pos (by omega), Nat.pow_succ]; omega

theorem target_monotone (m n : BitVec 64) (h : m.toNat ≤ n.toNat) :
    (utils_backoffTarget m).toNat ≤ (utils_backoffTarget n).toNat := by
  rw [target_closed_form, target_closed_form]; unfold closedForm
  split <;> split
  · have : 2 ^ m.toNat ≤ 2 ^ n.toNat := Nat.pow_le_pow_right (by decide) h
    exact Nat.mul_le_mul_right _ this
  · next h1 _ =>
    have : 2 ^ m.toNat ≤ 2 ^ 11 := Nat.pow_le_pow_right (by decide) h1
    omega
  · omega
  · omega

/-- Jitter keeps every delay strictly positive and within ±10 % (`JitterPercent`) of the
    target, for every random draw r = rn/rd ∈ [0,1). -/
theorem delay_bounds (n : BitVec 64) (rn rd : Nat) (hr : rn < rd) :
    let t := (utils_backoffTarget n).toNat
    0 < delay n rn rd ∧ 9 * t ≤ 10 * (delay n rn rd + 1) ∧ 10 * delay n rn rd ≤ 11 * t := by
  intro t
  have ht : 1000000 ≤ t := target_pos n
  have hrd : 0 < rd := by omega
  unfold delay jitter
  simp only [utils_JitterPercentNum, utils_JitterPercentDen]
  show 0 < t * ((10 - 1) * rd + 2 * 1 * rn) / (10 * rd) ∧ _ ∧ _
  have hden : 0 < 10 * rd := by omega
  have key := Nat.div_add_mod (t * ((10 - 1) * rd + 2 * 1 * rn)) (10 * rd)
  have hmod := Nat.mod_lt (t * ((10 - 1) * rd + 2 * 1 * rn)) hden
  generalize hq : t * ((10 - 1) * rd + 2 * 1 * rn) / (10 * rd) = qv at *
  generalize hm : t * ((10 - 1) * rd + 2 * 1 * rn) % (10 * rd) = mv at *
  have e1 : t * ((10 - 1) * rd + 2 * 1 * rn) = 9 * (t * rd) + 2 * (t * rn) := by
    rw [Nat.mul_add]; simp [Nat.mul_comm, Nat.mul_left_comm, Nat.mul_assoc]
  have e2 : 10 * rd * qv = 10 * (rd * qv) := by rw [Nat.mul_assoc]
  rw [e1, e2] at key
  have hlo : t * rn < t * rd := Nat.mul_lt_mul_of_pos_left hr (by omega)
  have h3 : rd ≤ t * rd := Nat.le_mul_of_pos_left rd (by omega)
  refine ⟨?_, ?_, ?_⟩
  · -- 0 < q: otherwise 9·t·rd ≤ m < 10·rd, contradiction with t ≥ 10^6
    rcases Nat.eq_zero_or_pos qv with h0 | h0
    · subst h0; simp at key
      have : 1000000 * rd ≤ t * rd := Nat.mul_le_mul_right rd ht
      omega
    · exact h0
  · -- 9 t ≤ 10 (q+1):  9 t rd ≤ 10 rd q + m < 10 rd (q+1)
    have : 9 * (t * rd) < 10 * (rd * (qv + 1)) := by
      rw [Nat.mul_add]; omega
    have h9 : 9 * t * rd < 10 * (qv + 1) * rd := by
      have a : 9 * t * rd = 9 * (t * rd) := by rw [Nat.mul_assoc]
      have b : 10 * (qv + 1) * rd = 10 * (rd * (qv + 1)) := by
        rw [Nat.mul_assoc, Nat.mul_comm (qv + 1) rd]
      omega
    exact Nat.le_of_lt (Nat.lt_of_mul_lt_mul_right h9)
  · -- 10 q ≤ 11 t:  10 rd q ≤ 9 t rd + 2 t rn ≤ 11 t rd
    have : 10 * (rd * qv) ≤ 11 * (t * rd) := by omega
    have h9 : 10 * qv * rd ≤ 11 * t * rd := by
      have a : 11 * t * rd = 11 * (t * rd) := by rw [Nat.mul_assoc]
      have b : 10 * qv * rd = 10 * (rd * qv) := by rw [Nat.mul_assoc, Nat.mul_comm qv rd]
      omega
    exact Nat.le_of_mul_le_mul_right h9 hrd

/-- every delay fits the signed 64-bit `time.Duration` and is at most 1.1 × 3 s -/
theorem delay_le_cap (n : BitVec 64) (rn rd : Nat) (hr : rn < rd) :
    delay n rn rd ≤ 3300000000 := by
  have := (delay_bounds n rn rd hr).2.2
  have := target_le_cap n
  omega

/-- the shortest delay is at least 0.9 ms − 1 ns: the loop never busy-waits -/
theorem never_busy (n : BitVec 64) (rn rd : Nat) (hr : rn < rd) : 899999 ≤ delay n rn rd := by
  have := (delay_bounds n rn rd hr).2.1
  have := target_pos n
  omega

/-- The polling loop: after k consecutive failures (k < 2^64) starting from a fresh
    counter, the next failing list call sleeps with retry count k. -/
theorem loop_kth_failure (k : Nat) (hk : k < 2 ^ 64) :
    (runLoop 0#64 (List.replicate (k + 1) true)).getLast? = some (some (BitVec.ofNat 64 k)) := by
  suffices h : ∀ (j : Nat) (c : Nat), c + j < 2 ^ 64 →
      (runLoop (BitVec.ofNat 64 c) (List.replicate (j + 1) true)).getLast? = some (some (BitVec.ofNat 64 (c + j))) by
    simpa using h k 0 (by omega)
  intro j
  induction j with
  | zero => intro c _; simp [runLoop, agent_pollRetryStep, Id.run, List.replicate, pure]
  | succ j ih =>
    intro c hc
    have step : (agent_pollRetryStep true (BitVec.ofNat 64 c)) = (some (BitVec.ofNat 64 c), BitVec.ofNat 64 (c + 1)) := by
      simp [agent_pollRetryStep, Id.run, BitVec.ofNat_add, pure]
    rw [List.replicate_succ, runLoop, step]
    simp only []
    rw [List.getLast?_cons_of_ne_nil] 
    · have := ih (c + 1) (by omega)
      rw [this]; congr 3; omega
    · simp [List.replicate_succ, runLoop]

/-- a successful list call sleeps nothing and resets the counter: the first failure
    after any success sleeps with retry count 0, i.e. about 1 ms -/
theorem loop_success_resets (rc : BitVec 64) (rest : List Bool) :
    runLoop rc (false :: true :: rest) = none :: some 0#64 :: runLoop 1#64 rest := by
  simp [runLoop, agent_pollRetryStep, Id.run, pure]

/-- every failing iteration sleeps (with the count accumulated so far) -/
theorem loop_failure_sleeps (rc : BitVec 64) (rest : List Bool) :
    (runLoop rc (true :: rest)).head? = some (some rc) := by
  simp [runLoop, agent_pollRetryStep, Id.run, pure]

/-- one outcome per list call: the loop accounts for every iteration of any history -/
theorem loop_length (rc : BitVec 64) (fs : List Bool) : (runLoop rc fs).length = fs.length := by
  induction fs generalizing rc with
  | nil => simp [runLoop]
  | cons f fs ih => simp [runLoop, ih]

/-- For every history of list-call outcomes and every starting counter: the loop sleeps in
    exactly the iterations whose list call failed — it never spins through a failure without
    a delay, and it never delays after a success. -/
theorem loop_sleeps_iff_failed (rc : BitVec 64) (fs : List Bool) : (runLoop rc fs).map Option.isSome = fs := by
  induction fs generalizing rc with
  | nil => simp [runLoop]
  | cons f fs ih => cases f <;> simp [runLoop, agent_pollRetryStep, Id.run, pure, ih]

theorem runLoop_ne_nil (rc : BitVec 64) (fs : List Bool) (h : fs ≠ []) : runLoop rc fs ≠ [] := by
  intro h0; have := loop_length rc fs; rw [h0] at this
  cases fs with
  | nil => exact h rfl
  | cons _ _ => simp at this

/-- `loop_kth_failure` after an arbitrary history: whatever happened before (any outcomes, any
    counter value), once a list call succeeds the (k+1)-th consecutive failure after it sleeps
    with retry count k — the back-off restarts from about 1 ms and depends only on the current
    run of failures. -/
theorem loop_streak_after_any_history (rc : BitVec 64) (pre : List Bool) (k : Nat) (hk : k < 2 ^ 64) :
    (runLoop rc (pre ++ false :: List.replicate (k + 1) true)).getLast? = some (some (BitVec.ofNat 64 k)) := by
  induction pre generalizing rc with
  | nil =>
    have h1 : runLoop rc (false :: List.replicate (k + 1) true) = none :: runLoop 0#64 (List.replicate (k + 1) true) := by
      simp [runLoop, agent_pollRetryStep, Id.run, pure]
    rw [List.nil_append, h1, List.getLast?_cons_of_ne_nil (runLoop_ne_nil _ _ (by simp))]
    exact loop_kth_failure k hk
  | cons f pre ih =>
    rw [List.cons_append, runLoop]
    simp only []
    rw [List.getLast?_cons_of_ne_nil (runLoop_ne_nil _ _ (by simp))]
    exact ih _

/-- the list call itself happens once per loop iteration and the sleep lies on the failure
    branch only (T3 skeleton of `pollForNewRequests`) -/
theorem loop_shape :
    Skel.precedes (.call "utils.ListPendingRequests") (.call "time.Sleep") skel_agent_pollForNewRequests = true ∧
    Skel.count (.call "time.Sleep") skel_agent_pollForNewRequests = 1 := by decide

/-- What counts as a failing list call (regenerated decision of `parseRequestIDs`): every reply
    whose status is not 200 — with a body, with an empty body, with a JSON body — and every
    reply that cannot be read or parsed; only a 200 with an empty body or a well-formed list is a
    success.  So a proxy or load balancer answering bare 502/503s is backed off from. -/
theorem list_failure_classification (readErr : Bool) (status : Int) (bodyLen : Int) (jsonErr : Bool) :
    utils_parseRequestIDsFails readErr status bodyLen jsonErr =
      (readErr || status != 200 || (decide (0 < bodyLen) && jsonErr)) := by
  cases readErr <;> cases jsonErr <;> by_cases h1 : status = 200 <;> by_cases h2 : bodyLen ≤ 0 <;>
    simp [utils_parseRequestIDsFails, Id.run, pure, h1, h2] <;> omega

theorem error_status_is_failure (status : Int) (bodyLen : Int) (jsonErr : Bool) (h : status ≠ 200) :
    utils_parseRequestIDsFails false status bodyLen jsonErr = true := by
  simp [utils_parseRequestIDsFails, Id.run, pure, h]

-- non-vacuity: concrete instances
example : utils_parseRequestIDsFails false 503 0 false = true ∧ utils_parseRequestIDsFails false 200 0 false = false ∧
    utils_parseRequestIDsFails false 200 12 true = true := by decide
example : (utils_backoffTarget 0#64).toNat = 1000000 := by decide
example : (utils_backoffTarget 11#64).toNat = 2048000000 := by decide
example : (utils_backoffTarget 12#64).toNat = 3000000000 := by decide
example : (utils_backoffTarget 64#64).toNat = 3000000000 := by decide
example : (utils_backoffTarget (BitVec.ofNat 64 (2^64 - 1))).toNat = 3000000000 := by decide
example : delay 3#64 1 2 = 8000000 := by decide
example : runLoop 5#64 [true, false, true, true] = [some 5#64, none, some 0#64, some 1#64] := by decide

end InvProxy.C08
